#!/usr/bin/env python3
"""Regenerate /verif/MANIFEST.json from the META blocks of vf/props/*.py (run after adding a check)."""
import importlib, json, os, subprocess, sys
sys.path.insert(0, os.path.dirname(os.path.dirname(os.path.abspath(__file__))))
VERIF = os.path.dirname(os.path.dirname(os.path.abspath(__file__)))

NOT_BUILT = "checker not built yet in this round (see DESIGN.md section 2 for its design); not claimed"
NA_REASONS = {}


def main():
    props = [json.loads(l)["id"] for l in open(os.path.join(VERIF, "properties.jsonl"))]
    checks, engines, na = [], [], []
    for pid in props:
        path = os.path.join(VERIF, "vf", "props", pid.lower() + ".py")
        if not os.path.exists(path):
            na.append({"property_id": pid, "reason": NA_REASONS.get(pid, NOT_BUILT)})
            continue
        m = importlib.import_module("vf.props." + pid.lower())
        meta = m.META
        c = {
            "property_id": pid,
            "quick_cmd": "python3 vf/check.py %s --tier quick" % pid,
            "thorough_cmd": "python3 vf/check.py %s --tier thorough" % pid,
            "evidence_file": "/verif/evidence/%s.json" % pid,
            "replay_cmd_template": "python3 vf/check.py %s --replay {path}" % pid,
            "engine": meta["engine"],
            "level_claimed": {"category": meta["level"], "text": meta["text"], "design_ref": "DESIGN.md section 2, " + pid},
            "level_note": meta["note"],
            "technique": meta["technique"],
        }
        checks.append(c)
    try:
        hooks = subprocess.check_output(["git", "-C", "/repo", "log", "--format=%H %s"], text=True).splitlines()
        hook_commits = [l.split()[0] for l in hooks if l.split(None, 1)[1].startswith("verif hooks")]
    except Exception:
        hook_commits = []
    man = {
        "version": 1,
        "setup_cmd": "python3 vf/setup.py",
        "hooks": {
            "guard": "SODIUM_VERIF",
            "enable": "checks compile /repo/src/libsodium themselves (vf/build.py) with -DSODIUM_VERIF; the in-tree autotools "
                      "build never defines it. Hooks: CPU-feature mask from env SODIUM_VERIF_CPU_DISABLE and scripted "
                      "CPUID/XGETBV function pointers, all in src/libsodium/sodium/runtime.c",
            "baseline_off_cmd": "cd /repo && make -j16 check",
            "source_commits": hook_commits,
            "add_only": True,
        },
        "engines": [
            {"name": "E-shape", "path": "harness/common.h", "kind_free_text": "exhaustive nested-loop enumeration of a declared bounded shape space on the real code, forked workers, reference-model oracle",
             "serves_properties": [c["property_id"] for c in checks if c["engine"] == "E-shape"]},
            {"name": "E-graph", "path": "harness/c09.c (secretstream), harness/c04.c (chunk graph), harness/c17.c (protection states)", "kind_free_text": "explicit-state BFS over implementation state images with hashing",
             "serves_properties": [c["property_id"] for c in checks if c["engine"] == "E-graph"]},
            {"name": "E-env", "path": "harness/c18.c (random-source answers), harness/c20.c (allocator answers)", "kind_free_text": "stateless deviation-bounded DFS over environment answers (allocation failures, RNG draws)",
             "serves_properties": [c["property_id"] for c in checks if c["engine"] == "E-env"]},
            {"name": "E-sched", "path": "sched/rt.c + harness/c19.c", "kind_free_text": "serialising thread scheduler + preemption-bounded schedule explorer over hooked shared accesses",
             "serves_properties": [c["property_id"] for c in checks if c["engine"] == "E-sched"]},
            {"name": "E-trace", "path": "trace/rt.c + harness/c11.c (+ harness/c11_asm.c under valgrind lackey)", "kind_free_text": "branch/address trace hashing for exhaustive 2-safety pair enumeration",
             "serves_properties": [c["property_id"] for c in checks if c["engine"] == "E-trace"]},
        ],
        "checks": checks,
        "notes": "All checks rebuild libsodium from /repo's working tree (content-hashed cache under /verif/build). "
                 "Known findings: /verif/known_findings.json. Seeded changes used to test detection: /verif/seeded/.",
        "not_applicable": na,
    }
    with open(os.path.join(VERIF, "MANIFEST.json"), "w") as f:
        json.dump(man, f, indent=1)
        f.write("\n")
    print("MANIFEST.json: %d checks, %d not claimed" % (len(checks), len(na)))


if __name__ == "__main__":
    main()
