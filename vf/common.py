"""Interface glue shared by all checks: harness protocol parsing, known findings, replay files,
evidence files, exit codes (0 held / 1 VIOLATION / 2 infrastructure error)."""
import json, os, re, signal, subprocess, sys, time

VERIF = os.path.dirname(os.path.dirname(os.path.abspath(__file__)))
# evidence/ describes /repo itself; runs against a scratch tree (VERIF_REPO, used for seeded changes) write theirs under build/ instead
_alt = os.environ.get("VERIF_REPO")
EVID = os.path.join(VERIF, "evidence") if not _alt or os.path.realpath(_alt) == "/repo" else os.path.join(VERIF, "build", "evidence-scratch")
REPLAY = os.path.join(VERIF, "replay")
KNOWN = os.path.join(VERIF, "known_findings.json")


MAX_STATS = {"depth_bound", "preemption_bound", "max_points"}


class Result:
    def __init__(self):
        self.stats = {}
        self.samples = []
        self.fails = []      # (key, detail, origin)
        self.infos = []
        self.runs = 0

    def merge(self, o):
        for k, v in o.stats.items():
            self.stats[k] = max(self.stats.get(k, 0), v) if k in MAX_STATS else self.stats.get(k, 0) + v
        self.samples += o.samples
        self.fails += o.fails
        self.infos += o.infos
        self.runs += o.runs

    def stat(self, k):
        return self.stats.get(k, 0)


def infra(msg):
    sys.stderr.write("INFRASTRUCTURE ERROR: %s\n" % msg)
    sys.exit(2)


def parse_output(text, origin, res, stat_max=()):
    for line in text.splitlines():
        if line.startswith("STAT "):
            _, k, v = line.split(None, 2)
            if k in stat_max or k in MAX_STATS:
                res.stats[k] = max(res.stats.get(k, 0), int(v))
            else:
                res.stats[k] = res.stats.get(k, 0) + int(v)
        elif line.startswith("SAMPLE "):
            if len(res.samples) < 400:
                res.samples.append(line[7:])
        elif line.startswith("FAIL "):
            body = line[5:]
            key, _, detail = body.partition(" | ")
            res.fails.append((key.strip(), detail.strip(), origin))
        elif line.startswith("INFO "):
            res.infos.append(line[5:])


def run(cmd, env=None, timeout=None, label=None, crash_is_fail=True, stat_max=(), ok_codes=(0, 1)):
    """Run one harness process; returns Result. Exit code 2 from a harness = infrastructure error."""
    e = dict(os.environ)
    if env:
        e.update(env)
    res = Result()
    res.runs = 1
    origin = {"cmd": cmd, "env": env or {}}
    try:
        p = subprocess.run(cmd, env=e, capture_output=True, text=True, errors="replace", timeout=timeout)
    except subprocess.TimeoutExpired as ex:
        out = ex.stdout or ""
        if isinstance(out, bytes):
            out = out.decode(errors="replace")
        parse_output(out, origin, res, stat_max)
        res.fails.append(("timeout/%s" % (label or os.path.basename(cmd[0])),
                          "harness exceeded %ss" % timeout, origin))
        return res
    parse_output(p.stdout, origin, res, stat_max)
    if p.returncode == 2:
        infra("harness %s exited 2:\n%s\n%s" % (" ".join(cmd), p.stdout[-2000:], p.stderr[-4000:]))
    if p.returncode not in ok_codes:
        if crash_is_fail:
            tail = (p.stderr or "")[-1500:].replace("\n", " \\n ")
            res.fails.append(("crash/%s" % (label or os.path.basename(cmd[0])),
                              "harness terminated abnormally rc=%d stderr: %s" % (p.returncode, tail), origin))
        else:
            infra("harness %s rc=%d\n%s" % (" ".join(cmd), p.returncode, p.stderr[-4000:]))
    if p.returncode == 1 and not res.fails:
        res.fails.append(("unexplained-exit1/%s" % (label or os.path.basename(cmd[0])), p.stderr[-1500:], origin))
    return res


def load_known():
    if not os.path.exists(KNOWN):
        return []
    with open(KNOWN) as f:
        return json.load(f).get("findings", [])


def _validate_evidence(ev):
    lvl = ev["level"]
    cov = ev["coverage"]
    for k in ("property_id", "tier", "seed", "level", "coverage", "wall_s"):
        assert k in ev, k
    if lvl in ("exploration", "fault_enumeration"):
        assert cov["evaluations"] >= 1 and cov["distinct_nontrivial"] >= 2 and cov["rule"] and len(cov["samples"]) >= 1
    if lvl == "model_checking":
        assert cov["states"] >= 1 and cov["transitions"] >= 1 and cov["traces_validated_against_impl"] >= 0 \
            and len(cov["samples"]) >= 1
    try:
        import jsonschema  # only in the tooling venv; optional
        with open("/root/.vp/EVIDENCE.schema.json") as f:
            jsonschema.validate(ev, json.load(f))
    except ImportError:
        pass
    except FileNotFoundError:
        pass


def finish(pid, tier, level, res, coverage, assumptions, t0, replay_hint=None):
    """Adjudicate fails against known findings, write evidence + replay, print verdict, exit."""
    os.makedirs(EVID, exist_ok=True)
    known = [k for k in load_known() if k.get("property") == pid and k.get("status") == "known"]
    new, listed = [], {}
    for key, detail, origin in res.fails:
        hit = None
        for k in known:
            if re.search(k["match"], key):
                hit = k
                break
        if hit is not None:
            listed.setdefault(hit["id"], (hit, []))[1].append(key)
        else:
            new.append((key, detail, origin))
    for fid, (k, keys) in listed.items():
        print("KNOWN-FINDING: property=%s %s [%s] (%d matching cases, e.g. %s)" %
              (pid, k["what"], fid, len(keys), keys[0]))
    seed = int(os.environ.get("VERIF_SEED", "1") or 1)
    cov = dict(coverage)
    uniq = []
    for x in res.samples:
        if x not in uniq:
            uniq.append(x)
    cov.setdefault("samples", uniq[:16] or ["(no samples emitted)"])
    ev = {
        "property_id": pid, "tier": tier, "seed": seed, "level": level, "coverage": cov,
        "assumptions": assumptions, "wall_s": round(time.time() - t0, 2),
        "violations": len(new), "known_findings_hit": sorted(listed.keys()),
        "harness_processes": res.runs,
    }
    try:
        _validate_evidence(ev)
    except Exception as ex:
        if new:
            # crashing workers lose their counters; a violation must still be reported as a violation. Count conservatively.
            cov["evaluations"] = max(int(cov.get("evaluations", 0) or 0), len(res.fails), 1)
            cov["distinct_nontrivial"] = max(int(cov.get("distinct_nontrivial", 0) or 0), 2)
            cov["counters_incomplete"] = "worker processes terminated abnormally before reporting their counters"
            if ev["level"] == "model_checking":
                cov["states"] = max(int(cov.get("states", 0) or 0), 1); cov["transitions"] = max(int(cov.get("transitions", 0) or 0), 1)
        else:  # evidence that would not validate on a clean run is an infrastructure problem
            with open(os.path.join(EVID, pid + ".json"), "w") as f:
                json.dump(ev, f, indent=1)
            infra("evidence for %s does not validate: %r" % (pid, ex))
    with open(os.path.join(EVID, pid + ".json"), "w") as f:
        json.dump(ev, f, indent=1)
        f.write("\n")
    if new:
        os.makedirs(REPLAY, exist_ok=True)
        key, detail, origin = new[0]
        n = 0
        while os.path.exists(os.path.join(REPLAY, "%s-%d.json" % (pid, n))):
            n += 1
        path = os.path.join(REPLAY, "%s-%d.json" % (pid, n))
        with open(path, "w") as f:
            json.dump({"property": pid, "tier": tier, "key": key, "detail": detail, "origin": origin,
                       "all_fail_keys": [k for k, _, _ in new][:50],
                       "how_to_replay": "python3 vf/check.py %s --replay %s" % (pid, path)}, f, indent=1)
        for key, detail, _ in new[:10]:
            print("  violation: %s | %s" % (key, detail[:600]))
        print("VIOLATION property=%s replay=%s" % (pid, path))
        sys.exit(1)
    print("OK property=%s tier=%s %s wall=%.1fs" % (pid, tier,
          " ".join("%s=%s" % (k, v) for k, v in cov.items() if isinstance(v, (int, bool))), time.time() - t0))
    sys.exit(0)


def replay(path):
    """Re-run the harness process that produced a replay file and show whether the same key fails."""
    with open(path) as f:
        r = json.load(f)
    o = r["origin"]
    cmd = list(o["cmd"])
    # harness executables live in /verif/build/<variant>-<treehash>/: re-point to the build of the CURRENT tree (prepare() relinked it)
    m = re.match(r"^(.*/build/(?:alt-[0-9a-f]{8}/)?)([A-Za-z0-9_]+)-[0-9a-f]{16}/(.+)$", cmd[0])
    if m:
        from vf import build
        cmd[0] = os.path.join(build.build(m.group(2)), m.group(3))
    res = run(cmd, env=o.get("env"))
    hit = [f for f in res.fails if f[0] == r["key"]]
    for k, d, _ in res.fails[:10]:
        print("  fail: %s | %s" % (k, d[:600]))
    if hit:
        print("VIOLATION property=%s replay=%s" % (r["property"], path))
        sys.exit(1)
    print("replay: key %s no longer fails (%d other fails)" % (r["key"], len(res.fails)))
    sys.exit(1 if res.fails else 0)


def simple_check(pid, tier, level, srcs, variants, rule, assumptions, configs=None, extra_cov=None,
                 wraps=(), extra_flags=(), extra_libs=(), timeout=None, stat_max=()):
    """Build harness `srcs` against each variant, run once per (variant, cfg), aggregate, finish."""
    from vf import build
    t0 = time.time()
    res = Result()
    name = "h_" + pid.lower()
    ran = []
    for v in variants:
        exe = os.path.join(build.build(v), name)
        build.link_harness(v, exe, [os.path.join(VERIF, "harness", s) if not s.startswith("/") else s for s in srcs],
                           wraps=wraps, extra_flags=extra_flags, extra_libs=extra_libs)
        for cfg in (configs(v) if configs else [""]):
            env = {"VERIF_TIER": tier}
            if cfg:
                env["SODIUM_VERIF_CPU_DISABLE"] = cfg
            res.merge(run([exe], env=env, label="%s-%s-%s" % (pid.lower(), v, cfg or "all"), timeout=timeout,
                          stat_max=stat_max))
            ran.append("%s[%s]" % (v, "-" + cfg if cfg else "all"))
    cov = {"evaluations": res.stat("evaluations"), "distinct_nontrivial": res.stat("nontrivial"),
           "rule": rule, "exhaustive": True, "builds_x_configs": ran}
    if extra_cov:
        cov.update(extra_cov(res) if callable(extra_cov) else extra_cov)
    finish(pid, tier, level, res, cov, assumptions, t0)
