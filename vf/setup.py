#!/usr/bin/env python3
"""MANIFEST.setup_cmd: build the framework from files on disk (offline) and validate the reference models."""
import os, subprocess, sys
sys.path.insert(0, os.path.dirname(os.path.dirname(os.path.abspath(__file__))))
from vf import build

def main():
    os.makedirs(os.path.join(build.VERIF, "evidence"), exist_ok=True)
    for v in ("native", "noasm", "noti", "generic"):
        build.build(v, quiet=False)
    st = os.path.join(build.VERIF, "ref", "selftest.sh")
    if os.path.exists(st):
        r = subprocess.run(["sh", st])
        if r.returncode != 0:
            sys.stderr.write("reference self-tests failed\n")
            sys.exit(1)
    print("setup OK")

if __name__ == "__main__":
    main()
