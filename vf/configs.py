"""CPU-feature configurations (values of SODIUM_VERIF_CPU_DISABLE) per build variant.

The chain follows property C10: every prefix of AVX-512F > AVX2 > AVX > SSE4.1 > SSSE3 > SSE3 > SSE2 is masked at
start-up; AES-NI/PCLMUL off with AVX on is one more configuration. `noasm` builds cannot read XCR0 (no XGETBV), so
they never report AVX or above by themselves; masking what they do not report is harmless."""

CHAIN = ["",
         "avx512f",
         "avx512f,avx2",
         "avx512f,avx2,avx",
         "avx512f,avx2,avx,sse41",
         "avx512f,avx2,avx,sse41,ssse3",
         "avx512f,avx2,avx,sse41,ssse3,sse3",
         "avx512f,avx2,avx,sse41,ssse3,sse3,sse2"]
NONE = CHAIN[-1] + ",aesni,pclmul,rdrand"
NOAES = "aesni,pclmul"


def full(variant):
    if variant == "native":
        return CHAIN[:-1] + [NONE, NOAES]
    if variant in ("noasm",):
        return ["", CHAIN[4], CHAIN[5], NONE]
    if variant == "noti":
        return ["", CHAIN[2], NONE]
    return [""]          # generic: nothing to mask (no SIMD headers)


def stream(variant):
    """distinct ChaCha20/Salsa20 backends: native {avx2 | ssse3+xmm6asm | ref+xmm6asm}; noasm {ssse3+xmm6int-sse2 | ref+ref}"""
    if variant == "native":
        return ["", CHAIN[2], CHAIN[5]]
    if variant == "noasm":
        return ["", NONE]
    return [""]


def hashes(variant):
    """BLAKE2b avx2/sse41/ssse3/ref, Poly1305 sse2/donna64 (native), donna32 (noti), portable (generic)"""
    if variant == "native":
        return ["", CHAIN[2], CHAIN[4], NONE]
    if variant == "noti":
        return ["", NONE]
    return [""]


def aead(variant):
    """ChaCha20 avx2/ssse3/ref x Poly1305 sse2/donna64/donna32 x Salsa20 avx2/asm/sse2int/ref x AEGIS aesni/soft x GCM on/off"""
    if variant == "native":
        return ["", CHAIN[2], CHAIN[5], NONE, NOAES]
    if variant == "noasm":
        return ["", NONE]
    if variant == "noti":
        return [""]
    return [""]
