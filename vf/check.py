#!/usr/bin/env python3
"""usage: python3 vf/check.py <ID> [--tier quick|thorough] [--replay file]"""
import argparse, importlib, os, sys, time
sys.path.insert(0, os.path.dirname(os.path.dirname(os.path.abspath(__file__))))
from vf import common


def main():
    ap = argparse.ArgumentParser()
    ap.add_argument("pid")
    ap.add_argument("--tier", default=os.environ.get("VERIF_TIER") or "quick", choices=["quick", "thorough"])
    ap.add_argument("--replay")
    a = ap.parse_args()
    os.environ["VERIF_TIER"] = a.tier
    os.environ.setdefault("VERIF_SEED", "1")
    mod = importlib.import_module("vf.props." + a.pid.lower())
    if a.replay:
        mod.prepare(a.tier)
        common.replay(a.replay)
    mod.main(a.tier)


if __name__ == "__main__":
    main()
