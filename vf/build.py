#!/usr/bin/env python3
"""Build libsodium variants from /repo's *current working tree* (never from /repo's objects).

build(variant) -> directory containing libsodium.a, libsodium.so and objs/*.o
Cache key = content hash of every file under <repo>/src/libsodium + the flag set, so an edited
tree is always rebuilt and an unchanged tree is reused.
"""
import hashlib, os, shutil, subprocess, sys, time
from concurrent.futures import ThreadPoolExecutor

REPO = os.environ.get("VERIF_REPO", "/repo")
VERIF = os.path.dirname(os.path.dirname(os.path.abspath(__file__)))
BUILD = os.path.join(VERIF, "build")
SRC = lambda: os.path.join(REPO, "src", "libsodium")

# configure's DEFS on this machine (frozen), minus the PACKAGE_* strings
BASE_DEFS = """HAVE_STDIO_H=1 HAVE_STDLIB_H=1 HAVE_STRING_H=1 HAVE_INTTYPES_H=1 HAVE_STDINT_H=1
HAVE_STRINGS_H=1 HAVE_SYS_STAT_H=1 HAVE_SYS_TYPES_H=1 HAVE_UNISTD_H=1 HAVE_WCHAR_H=1 STDC_HEADERS=1
_ALL_SOURCE=1 _DARWIN_C_SOURCE=1 _GNU_SOURCE=1 _HPUX_ALT_XOPEN_SOCKET_API=1 _NETBSD_SOURCE=1
_OPENBSD_SOURCE=1 _POSIX_PTHREAD_SEMANTICS=1 __STDC_WANT_IEC_60559_ATTRIBS_EXT__=1
__STDC_WANT_IEC_60559_BFP_EXT__=1 __STDC_WANT_IEC_60559_DFP_EXT__=1 __STDC_WANT_IEC_60559_FUNCS_EXT__=1
__STDC_WANT_IEC_60559_TYPES_EXT__=1 __STDC_WANT_LIB_EXT2__=1 __STDC_WANT_MATH_SPEC_FUNCS__=1
_TANDEM_SOURCE=1 __EXTENSIONS__=1 HAVE_PTHREAD_PRIO_INHERIT=1 HAVE_PTHREAD=1 HAVE_C_VARARRAYS=1
HAVE_CATCHABLE_SEGV=1 HAVE_CATCHABLE_ABRT=1 TLS=_Thread_local HAVE_DLFCN_H=1
HAVE_MMINTRIN_H=1 HAVE_EMMINTRIN_H=1 HAVE_PMMINTRIN_H=1 HAVE_TMMINTRIN_H=1 HAVE_SMMINTRIN_H=1
HAVE_AVXINTRIN_H=1 HAVE_AVX2INTRIN_H=1 HAVE_AVX512FINTRIN_H=1 HAVE_WMMINTRIN_H=1 HAVE_RDRAND=1
HAVE_SYS_MMAN_H=1 HAVE_SYS_PARAM_H=1 HAVE_SYS_RANDOM_H=1 HAVE_SYS_AUXV_H=1 HAVE_CET_H=1
NATIVE_LITTLE_ENDIAN=1 HAVE_INLINE_ASM=1 HAVE_AMD64_ASM=1 HAVE_AVX_ASM=1 HAVE_TI_MODE=1 HAVE_CPUID=1
ASM_HIDE_SYMBOL=.hidden HAVE_WEAK_SYMBOLS=1 HAVE_ATOMIC_OPS=1 HAVE_C11_MEMORY_FENCES=1
HAVE_GCC_MEMORY_FENCES=1 HAVE_ALLOCA_H=1 HAVE_ALLOCA=1 HAVE_ARC4RANDOM=1 HAVE_ARC4RANDOM_BUF=1
HAVE_MMAP=1 HAVE_MLOCK=1 HAVE_MADVISE=1 HAVE_MPROTECT=1 HAVE_RAISE=1 HAVE_SYSCONF=1 HAVE_GETRANDOM=1
HAVE_GETENTROPY=1 HAVE_GETPID=1 HAVE_GETAUXVAL=1 HAVE_POSIX_MEMALIGN=1 HAVE_NANOSLEEP=1
HAVE_CLOCK_GETTIME=1 HAVE_EXPLICIT_BZERO=1 CONFIGURED=1 SODIUM_VERIF=1""".split()

SIMD_HDRS = ["HAVE_MMINTRIN_H", "HAVE_EMMINTRIN_H", "HAVE_PMMINTRIN_H", "HAVE_TMMINTRIN_H",
             "HAVE_SMMINTRIN_H", "HAVE_AVXINTRIN_H", "HAVE_AVX2INTRIN_H", "HAVE_AVX512FINTRIN_H",
             "HAVE_WMMINTRIN_H", "HAVE_RDRAND"]

BASE_CFLAGS = ["-pthread", "-fvisibility=hidden", "-fPIC", "-fno-strict-aliasing",
               "-fno-strict-overflow", "-Wno-deprecated-declarations", "-Wno-unknown-pragmas", "-w"]

COV = "-fsanitize-coverage=trace-pc,trace-loads,trace-stores"

# name -> (cc, optimisation/instrumentation flags, defs removed, defs added)
VARIANTS = {
    "native":  ("gcc",   ["-O2"], [], []),
    "noasm":   ("gcc",   ["-O2"], ["HAVE_AMD64_ASM", "HAVE_AVX_ASM"], []),
    "noti":    ("gcc",   ["-O2"], ["HAVE_TI_MODE"], []),
    "generic": ("gcc",   ["-O2"], ["NATIVE_LITTLE_ENDIAN", "HAVE_AMD64_ASM", "HAVE_AVX_ASM", "HAVE_TI_MODE",
                                   "HAVE_INLINE_ASM"] + SIMD_HDRS, []),
    "asan":    ("clang", ["-O1", "-g", "-fsanitize=address,undefined", "-fno-sanitize=alignment,nonnull-attribute",
                          "-fno-sanitize-recover=undefined", "-fno-omit-frame-pointer"], [], []),
    "asan_generic": ("clang", ["-O1", "-g", "-fsanitize=address,undefined", "-fno-sanitize=alignment,nonnull-attribute", "-fno-sanitize-recover=undefined",
                          "-fno-omit-frame-pointer"],
                     ["NATIVE_LITTLE_ENDIAN", "HAVE_AMD64_ASM", "HAVE_AVX_ASM", "HAVE_TI_MODE",
                      "HAVE_INLINE_ASM"] + SIMD_HDRS, []),
    "tsan":    ("clang", ["-O1", "-g", "-fsanitize=thread"], [], []),
    "trace":   ("clang", ["-O2", "-g", COV], [], []),
    "trace_noasm": ("clang", ["-O2", "-g", COV], ["HAVE_AMD64_ASM", "HAVE_AVX_ASM"], []),
    "trace_generic": ("clang", ["-O2", "-g", COV],
                      ["NATIVE_LITTLE_ENDIAN", "HAVE_AMD64_ASM", "HAVE_AVX_ASM", "HAVE_TI_MODE",
                       "HAVE_INLINE_ASM"] + SIMD_HDRS, []),
    "fault":   ("gcc",   ["-O1", "-g"], [], []),
}


def variant_flags(variant):
    cc, opt, rm, add = VARIANTS[variant]
    defs = [d for d in BASE_DEFS if d.split("=")[0] not in rm] + add
    return cc, BASE_CFLAGS + opt + ["-D" + d for d in defs]


def include_flags():
    s = SRC()
    return ["-I" + os.path.join(s, "include", "sodium"), "-I" + os.path.join(s, "include")]


def sources():
    out = []
    for root, _, files in os.walk(SRC()):
        for f in files:
            if f.endswith(".c") or f.endswith(".S"):
                out.append(os.path.join(root, f))
    return sorted(out)


def tree_hash():
    h = hashlib.sha256()
    for root, dirs, files in os.walk(SRC()):
        dirs.sort()
        if ".libs" in dirs:
            dirs.remove(".libs")
        if ".deps" in dirs:
            dirs.remove(".deps")
        for f in sorted(files):
            if f.endswith((".c", ".S", ".h")):
                p = os.path.join(root, f)
                h.update(os.path.relpath(p, SRC()).encode())
                with open(p, "rb") as fh:
                    h.update(hashlib.sha256(fh.read()).digest())
    return h.hexdigest()


_tree_hash_cache = None


def build(variant, quiet=True):
    global _tree_hash_cache
    if _tree_hash_cache is None:
        _tree_hash_cache = tree_hash()
    cc, flags = variant_flags(variant)
    key = hashlib.sha256((_tree_hash_cache + cc + " ".join(flags)).encode()).hexdigest()[:16]
    d = os.path.join(BUILD, "%s-%s" % (variant, key))
    if os.path.exists(os.path.join(d, "ok")):
        return d
    # prune older caches of this variant
    if os.path.isdir(BUILD):
        for e in os.listdir(BUILD):
            if e.startswith(variant + "-") and e != os.path.basename(d):
                shutil.rmtree(os.path.join(BUILD, e), ignore_errors=True)
    shutil.rmtree(d, ignore_errors=True)
    os.makedirs(os.path.join(d, "objs"))
    t0 = time.time()
    srcs = sources()
    inc = include_flags()

    def comp(src):
        rel = os.path.relpath(src, SRC()).replace("/", "__")
        obj = os.path.join(d, "objs", rel + ".o")
        cmd = [cc] + flags + inc + ["-c", src, "-o", obj]
        r = subprocess.run(cmd, capture_output=True, text=True)
        if r.returncode != 0:
            return (src, r.stderr)
        return None

    with ThreadPoolExecutor(max_workers=16) as ex:
        errs = [e for e in ex.map(comp, srcs) if e]
    if errs:
        sys.stderr.write("BUILD FAILURE (%s) in /repo sources:\n" % variant)
        for s, e in errs[:5]:
            sys.stderr.write("%s\n%s\n" % (s, e[:2000]))
        raise SystemExit(2)
    objs = sorted(os.path.join(d, "objs", o) for o in os.listdir(os.path.join(d, "objs")))
    lib = os.path.join(d, "libsodium.a")
    subprocess.check_call(["ar", "rcs", lib] + objs)
    # shared object for ctypes users: export everything we need by overriding visibility
    if variant in ("native", "noasm", "noti", "generic"):
        so = os.path.join(d, "libsodium.so")
        subprocess.check_call([cc, "-shared", "-o", so, "-Wl,--whole-archive", lib,
                               "-Wl,--no-whole-archive", "-Wl,-z,noexecstack", "-lpthread"])
    with open(os.path.join(d, "ok"), "w") as f:
        f.write("%.1f s\n" % (time.time() - t0))
    if not quiet:
        sys.stderr.write("built %s in %.1f s\n" % (variant, time.time() - t0))
    return d


def link_harness(variant, out, sources_c, extra_flags=(), wraps=(), extra_libs=(), cc=None, opt=("-O2",), no_san=False):
    """Compile a harness against a variant's static objects."""
    d = build(variant)
    vcc, vflags = variant_flags(variant)
    cc = cc or vcc
    san = [] if no_san else [f for f in vflags if f.startswith("-fsanitize=")]
    cmd = [cc, "-pthread", "-g"] + list(opt) + san + include_flags() + ["-I" + os.path.join(VERIF, "harness"),
           "-I" + os.path.join(VERIF, "ref")] + list(extra_flags) + list(sources_c) + \
          [os.path.join(d, "libsodium.a")] + ["-Wl,--wrap=" + w for w in wraps] + list(extra_libs) + \
          ["-Wl,-z,noexecstack", "-lpthread", "-lm", "-o", out]
    r = subprocess.run(cmd, capture_output=True, text=True)
    if r.returncode != 0:
        sys.stderr.write("HARNESS BUILD FAILURE: %s\n%s\n" % (" ".join(cmd), r.stderr[:6000]))
        raise SystemExit(2)
    return out


if __name__ == "__main__":
    for v in sys.argv[1:] or ["native"]:
        print(v, build(v, quiet=False))
