"""ctypes access to a libsodium build variant under a CPU-feature configuration, and to the C reference models.
A (variant, cfg) pair must live in its own process: the feature mask is read once by sodium_init()."""
import ctypes, os, subprocess, sys
from vf import build

VERIF = build.VERIF


def load_sodium(variant, cfg=""):
    d = build.build(variant)
    if cfg:
        os.environ["SODIUM_VERIF_CPU_DISABLE"] = cfg
    else:
        os.environ.pop("SODIUM_VERIF_CPU_DISABLE", None)
    lib = ctypes.CDLL(os.path.join(d, "libsodium.so"))
    if lib.sodium_init() < 0:
        raise RuntimeError("sodium_init failed")
    return lib


def load_ref():
    """shared object of the C reference models (ref/ref_stream.c, ref_hash.c, ref_argon2.c)"""
    d = os.path.join(VERIF, "build", "ref")
    so = os.path.join(d, "libvref.so")
    srcs = [os.path.join(VERIF, "ref", f) for f in ("ref_stream.c", "ref_hash.c", "ref_argon2.c")]
    if not os.path.exists(so) or any(os.path.getmtime(s) > os.path.getmtime(so) for s in srcs):
        os.makedirs(d, exist_ok=True)
        subprocess.check_call(["gcc", "-O2", "-shared", "-fPIC", "-o", so] + srcs)
    return ctypes.CDLL(so)


def buf(n):
    return ctypes.create_string_buffer(n)


def features(lib):
    names = ["sse2", "sse3", "ssse3", "sse41", "avx", "avx2", "avx512f", "pclmul", "aesni", "rdrand"]
    return {n: int(getattr(lib, "sodium_runtime_has_" + n)()) for n in names}


def pool_map(fn, tasks, nproc):
    """map over spawned worker processes; a worker that dies (segfault in ctypes) raises instead of hanging the parent"""
    import concurrent.futures as cf, multiprocessing as mp
    with cf.ProcessPoolExecutor(max_workers=nproc, mp_context=mp.get_context("spawn")) as ex:
        return list(ex.map(fn, tasks))
