"""C17 guarded allocations: layout enumeration, canary/overflow traps, arithmetic limits, protection state machine."""
from vf import common

RULE = ("layout: sodium_malloc(n) for EVERY n in 0..3*page+1 (thorough 0..8*page+1): 0xdb fill, mmap/mprotect/mlock call log equals the documented layout (header RO | guard | data | guard), "
        "user region ends exactly at the trailing guard, accessibility of p, p+n-1, p+n, p-1..p-16 and the page below probed through "
        "the kernel (EFAULT), sodium_free unmaps exactly the mapping; in forked children: each of the 16 canary bytes altered "
        "=> sodium_free dies by signal; write and read at p+n => SIGSEGV with si_addr = p+n. limits: "
        "sodium_malloc(SIZE_MAX-k) for every k in 0..5*page+40 => NULL/ENOMEM and no wrapped mapping; sodium_allocarray over 16 counts x "
        "~25 sizes incl. SIZE_MAX/count+{-2..2}: NULL/ENOMEM without any mmap iff count*size overflows (128-bit product). protection "
        "state machine: 12 sizes x ALL sequences over {readwrite, readonly, noaccess} of length 0..5 (thorough 0..7): return 0, exactly "
        "one mprotect over the whole user region, read/write probes of first, last and canary byte after every step, contents "
        "preserved, trailing guard never opened, and sodium_free from the final state in a forked child.")

META = {
    "engine": "E-graph", "level": "model_checking",
    "technique": "exhaustive enumeration of allocation sizes and of all protection-transition sequences on the real allocator, observed through link-time syscall interposition and kernel accessibility probes, against a 3-state protection model and a layout model",
    "text": "The allocator's only state is the kernel's page protection, which the harness reads back deterministically (EFAULT probes) after "
            "every transition of every action sequence up to the bound; layouts are enumerated for every size around every page "
            "boundary and compared call-by-call with the documented layout.",
    "note": "Linux x86-64, 4 KiB pages. Trusted: the layout model in harness/c17.c, the kernel's EFAULT semantics. mlock failures are "
            "an enumerated environment answer: the edge-size layout sweep, every protection sequence, the canary and history checks run again "
            "with mlock() failing (ENOMEM; thorough also EPERM, EAGAIN) and every guarantee must hold unchanged.",
}


def prepare(tier):
    pass


def main(tier):
    common.simple_check("C17", tier, "model_checking", ["c17.c"], ["native"], RULE,
                        ["page size 4096", "mmap requests above 1 GiB are refused by the interposer"],
                        wraps=("mmap", "munmap", "mprotect", "mlock", "munlock", "madvise"),
                        extra_cov=lambda r: {"states": r.stat("states"), "transitions": r.stat("transitions"),
                                             "traces_validated_against_impl": r.stat("sequences")})
