"""C03 stream ciphers: every length x counter x backend against the reference keystream; IETF counter limit probes."""
from vf import common, configs

RULE = ("ciphers {chacha20, chacha20-ietf, xchacha20, salsa20, salsa2012, salsa208, xsalsa20, crypto_stream} x API {stream, xor, "
        "xor_ic} x EVERY length 0..2304 (thorough 0..4200 x buffer alignment offsets {0,1,7,8,15}; quick: one offset per item, all 16 offsets occur) x initial counters {0,1,2,0x7fffffff, two odd values, 2^32-16..2^32+16, "
        "2^64-16..2^64-1, 2^64-2^32-3, 2^33-1} (IETF: {0,1,2,2^31-1,2^31, two odd, 2^32-16..2^32-1}) x all 6 key/nonce/message patterns"
        ", one process per backend configuration; the 5 core functions x 36 key/input patterns x {NULL, 2 constants}; "
        "IETF limit: forked probes of (ic, len) on both sides of ic+ceil(len/64)=2^32 including lengths 2^38+-1, 2^39, 2^63, 2^64-1 on a "
        "one-page buffer followed by PROT_NONE (refused vs processed). Lengths whose block count would pass 2^64 are not judged. "
        "Each (cipher, api, len, counter, pattern, cfg) tuple is run once; non-trivial = len > 0 compared with the reference."
        " Far carries: 64-bit counters starting 4097..70001 blocks below 2^32, 2^33 and the 64-bit wrap with requests long enough to run across.")

META = {
    "engine": "E-shape", "level": "exploration",
    "technique": "exhaustive bounded enumeration of (cipher, API, length, counter, backend configuration) on the real code vs independent reference keystream; forked guard-page probes of the counter limit",
    "text": "Every length up to past 4 x the widest vector stride (512 B) is run at every listed counter on every stream backend the "
            "machine can select (AVX2, SSSE3, xmm6 assembly, xmm6int-SSE2, portable ref, generic-endian) and compared byte-for-byte with "
            "a naive reference validated on RFC 8439 / NaCl / XChaCha vectors and OpenSSL.",
    "note": "Trusted: ref/ref_stream.c (self-tested in setup). Contents: 3-6 fill patterns. Counter wrap past 2^64 is unspecified and skipped. "
            "ARM/32-bit backends cannot run here.",
}
VARIANTS = ["native", "noasm", "generic"]


def prepare(tier):
    pass


def main(tier):
    import os
    common.simple_check("C03", tier, "exploration", ["c03.c", os.path.join(common.VERIF, "ref", "ref_stream.c")], VARIANTS, RULE,
                        ["byte contents limited to the pattern alphabet", "reference model ref/ref_stream.c"],
                        configs=configs.stream,
                        extra_cov=lambda r: {"limit_probes": r.stat("limit_probes"), "backend_flags": sorted(set(r.infos))})
