"""C06 Ed25519: RFC 8032 signing/keygen byte-for-byte, completeness, and soundness of strict verification (accept => predicate)."""
import hashlib, multiprocessing as mp, os, sys, time
from vf import common, configs, pylib

sys.path.insert(0, os.path.join(common.VERIF, "ref"))
P = 2**255 - 19
L = 2**252 + 27742317777372353535851937790883648493
BACKENDS = [("native", ""), ("noti", ""), ("generic", "")]

RULE = ("sign/keygen: 6 seed patterns x EVERY message length 0..140 (thorough 0..300) + {1023,1024,4097}: seed_keypair, sign_detached, "
        "combined crypto_sign, multipart Ed25519ph (every <=2-cut chunking for 3 lengths) equal the RFC 8032 big-integer reference byte "
        "for byte and verify in detached, combined and multipart form, on fe51 (native), fe25.5 (noti) and generic builds. soundness: "
        "from each of 8 (thorough 32) valid (A, M, R, S), pure and prehashed: S + k*L for every k with S+kL < 2^256, S with each subset "
        "of bits 252..255 forced, A and R replaced by each of the 14 small-order encodings (8 torsion points + non-canonical aliases), "
        "non-canonical aliases of A and R where they exist (y+p, x=0 with sign bit), R+T and A+T for the 8 torsion points T both with S "
        "re-derived (so the cofactored equation holds) and without, EVERY single-bit flip of signature, public key and message (<=64 "
        "bytes). Oracle, one direction as the property states: library accepts => S canonical AND A canonical, not small order AND R "
        "not small order AND 8(SB - R - hA) = 0 (big-integer predicate); every honest signature accepted; all three verify entry "
        "points must agree with each other. key conversion: pk_to_curve25519(pk) = scalarmult_base(sk_to_curve25519(sk)) = birational "
        "map of the reference for all seeds; small-order and off-curve keys refused. Each variant is one distinct case. "
        "scalar seam (sc25519_muladd / sc25519_reduce called directly, the only places where S, r and h are reduced): (h, a, r) triples built "
        "backwards so that S = h*a + r hits every boundary combination of each adjacent 21-bit limb pair ({0,1,2^20,2^21-1} x {0,1,2^21-2,2^21-1}, "
        "4 bases) for 48 (thorough 400) (h, a) pairs, a 13^3 product of boundary scalars, and 64-byte values T + kL for the same targets T.")

META = {
    "engine": "E-shape", "level": "exploration",
    "technique": "exhaustive enumeration of message lengths and of a structured adversarial neighbourhood (all S+kL, all small-order/non-canonical substitutions, all torsion shifts, all single-bit flips) of valid signatures on the real code vs an RFC 8032 big-integer reference and acceptance predicate",
    "text": "Signing is compared byte-for-byte with the reference at every length; for verification the complete structured neighbourhood "
            "of each valid signature named by the property is enumerated and every acceptance is checked against the exact predicate "
            "computed with Python integers.",
    "note": "Accept => predicate only (libsodium may be stricter: acceptance counts of predicate-true forgeries are recorded, not judged). "
            "Trusted: ref/ec25519.py (RFC 8032 vectors in setup), hashlib SHA-512.",
}


def pat(idt, n, salt=0):
    if idt == "Z": return bytes(n)
    if idt == "F": return bytes([0xff]) * n
    if idt == "C": return bytes((i + salt) % 251 for i in range(n))
    if idt == "H": return bytes(0x80 | ((i + salt) & 0x7f) for i in range(n))
    seed = int(os.environ.get("VERIF_SEED", "1") or 1)
    return hashlib.shake_256(b"%s-%d-%d" % (idt.encode(), seed, salt)).digest(n)


PATS = ["Z", "F", "C", "H", "R1", "R2"]


def _ref_sign_job(args):
    import ec25519 as ec
    seedid, mlen = args
    seed = pat(seedid, 32, 11); msg = pat(PATS[(mlen + 1) % 6], mlen, 12)
    pk, a, prefix = ec.seed_to_keypair(seed)
    return seedid, mlen, pk, ec.sign(seed, msg), ec.sign_ph(seed, msg)


def adversarial_variants(ec, seed, msg, ph):
    """yield (label, sig, msg, pk) built from one valid signature"""
    pk, a, prefix = ec.seed_to_keypair(seed)
    sig = ec.sign_ph(seed, msg) if ph else ec.sign(seed, msg)
    R, S = sig[:32], int.from_bytes(sig[32:], "little")
    dom = ec.DOM2_PH if ph else b""
    m = ec.sha512(msg) if ph else msg
    r = int.from_bytes(ec.sha512(dom, prefix, m), "little") % L
    yield "honest", sig, msg, pk
    k = 1
    while S + k * L < 2**256:
        yield "S+%dL" % k, R + (S + k * L).to_bytes(32, "little"), msg, pk; k += 1
    for bits in range(1, 16):
        s2 = S | (bits << 252)
        yield "S|bits%x" % bits, R + s2.to_bytes(32, "little"), msg, pk
    so = ec.small_order_encodings(True)
    for i, e in enumerate(so):
        yield "A=smallorder%d" % i, sig, msg, e
        yield "R=smallorder%d" % i, e + sig[32:], msg, pk
        # small-order R (every encoding, canonical or alias) with S derived for it: S = H(R||A||M)*a, i.e. the signature a signer with nonce r = 0
        # shifted by that torsion point would produce - the cofactored equation holds, only the small-order test on R can refuse it
        he = int.from_bytes(ec.sha512(dom, e, pk, m), "little") % L
        yield "R=smallorder%d,S=h*a" % i, e + ((he * a) % L).to_bytes(32, "little"), msg, pk
        # small-order A with a signature that satisfies the plain equation for it: S = r (h*A has small order)
        yield "A=smallorder%d,S=r" % i, R + r.to_bytes(32, "little"), msg, e
    # non-canonical aliases of A / R (exist only when y < 19, or x == 0): try to construct them
    for name, enc in (("A", pk), ("R", R)):
        y = int.from_bytes(enc, "little") & (2**255 - 1)
        if y < 19:
            alias = ((y + P) | (enc[31] & 0x80) << 248).to_bytes(32, "little")
            yield "%s=noncanonical" % name, (sig if name == "A" else alias + sig[32:]), msg, (alias if name == "A" else pk)
    # torsion shifts
    Rp = ec.point_decode(R); Ap = ec.point_decode(pk)
    for j, T in enumerate(ec.TORSION):
        if ec.is_identity(T):
            continue
        R2 = ec.point_encode(ec.point_add(Rp, T))
        yield "R+T%d" % j, R2 + sig[32:], msg, pk
        h2 = int.from_bytes(ec.sha512(dom, R2, pk, m), "little") % L
        yield "R+T%d,S-rederived" % j, R2 + ((r + h2 * a) % L).to_bytes(32, "little"), msg, pk
        A2 = ec.point_encode(ec.point_add(Ap, T))
        # mixed-order public key together with a small-order R (every encoding) and S derived for the pair: the cofactored equation holds,
        # h*T can cancel the torsion of R - only the small-order test on R itself may refuse it
        for i2, e2 in enumerate(so):
            h4 = int.from_bytes(ec.sha512(dom, e2, A2, m), "little") % L
            yield "A+T%d,R=smallorder%d,S=h*a" % (j, i2), e2 + ((h4 * a) % L).to_bytes(32, "little"), msg, A2
        yield "A+T%d" % j, sig, msg, A2
        h3 = int.from_bytes(ec.sha512(dom, R, A2, m), "little") % L
        yield "A+T%d,S-rederived" % j, R + ((r + h3 * a) % L).to_bytes(32, "little"), msg, A2
    for b in range(512):
        s2 = bytearray(sig); s2[b >> 3] ^= 1 << (b & 7)
        yield "sigbit%d" % b, bytes(s2), msg, pk
    for b in range(256):
        p2 = bytearray(pk); p2[b >> 3] ^= 1 << (b & 7)
        yield "pkbit%d" % b, sig, msg, bytes(p2)
    for b in range(8 * min(len(msg), 64)):
        m2 = bytearray(msg); m2[b >> 3] ^= 1 << (b & 7)
        yield "msgbit%d" % b, sig, bytes(m2), pk
    yield "msg-truncated", sig, msg[:-1] if msg else b"x", pk
    yield "msg-extended", sig, msg + b"\0", pk


def _backend_worker(args):
    import ctypes, ec25519 as ec
    variant, cfg, signref, lens, bases, chunk_lens = args
    lib = pylib.load_sodium(variant, cfg)
    tag = "%s[%s]" % (variant, "-" + cfg if cfg else "all")
    fails, n, info = [], 0, {"accepted_nonhonest_predicate_true": 0, "rejected_predicate_true": 0, "variants": 0}
    pk = pylib.buf(32); sk = pylib.buf(64); sig = pylib.buf(64); sm = pylib.buf(64 + 5000); ull = ctypes.c_ulonglong(0)
    st = pylib.buf(256); out = pylib.buf(5000)

    def multipart_verify(sigb, msgb, pkb, cuts=()):
        lib.crypto_sign_init(st)
        prev = 0
        for c in list(cuts) + [len(msgb)]:
            lib.crypto_sign_update(st, msgb[prev:c], ctypes.c_ulonglong(c - prev)); prev = c
        return lib.crypto_sign_final_verify(st, sigb, pkb)

    for (seedid, mlen), (rpk, rsig, rsigph) in signref.items():
        seed = pat(seedid, 32, 11); msg = pat(PATS[(mlen + 1) % 6], mlen, 12)
        key = "%s/seed=%s/mlen=%d" % (tag, seedid, mlen)
        n += 1
        lib.crypto_sign_seed_keypair(pk, sk, seed)
        if pk.raw != rpk or sk.raw != seed + rpk:
            fails.append(("crypto_sign_seed_keypair/" + key, "key pair differs from RFC 8032")); continue
        lib.crypto_sign_detached(sig, ctypes.byref(ull), msg, ctypes.c_ulonglong(mlen), sk)
        if sig.raw != rsig or ull.value != 64:
            fails.append(("crypto_sign_detached/" + key, "got %s want %s" % (sig.raw.hex(), rsig.hex())))
        lib.crypto_sign(sm, ctypes.byref(ull), msg, ctypes.c_ulonglong(mlen), sk)
        if sm.raw[:64 + mlen] != rsig + msg or ull.value != 64 + mlen:
            fails.append(("crypto_sign/" + key, "combined form differs from sig || msg"))
        if lib.crypto_sign_verify_detached(rsig, msg, ctypes.c_ulonglong(mlen), rpk) != 0:
            fails.append(("crypto_sign_verify_detached/" + key, "honest signature rejected"))
        r = lib.crypto_sign_open(out, ctypes.byref(ull), rsig + msg, ctypes.c_ulonglong(64 + mlen), rpk)
        if r != 0 or ull.value != mlen or out.raw[:mlen] != msg:
            fails.append(("crypto_sign_open/" + key, "honest signed message rejected or wrong message"))
        # the same calls with the optional length outputs absent (NULL): results must not change
        ctypes.memset(sig, 0, 64); lib.crypto_sign_detached(sig, None, msg, ctypes.c_ulonglong(mlen), sk)
        if sig.raw != rsig: fails.append(("crypto_sign_detached(siglen_p=NULL)/" + key, "got %s want %s" % (sig.raw.hex(), rsig.hex())))
        ctypes.memset(sm, 0, 64 + mlen); lib.crypto_sign(sm, None, msg, ctypes.c_ulonglong(mlen), sk)
        if sm.raw[:64 + mlen] != rsig + msg: fails.append(("crypto_sign(smlen_p=NULL)/" + key, "combined form differs from sig || msg"))
        ctypes.memset(out, 0xA5, mlen + 1); r = lib.crypto_sign_open(out, None, rsig + msg, ctypes.c_ulonglong(64 + mlen), rpk)
        if r != 0 or out.raw[:mlen] != msg: fails.append(("crypto_sign_open(mlen_p=NULL)/" + key, "ret %d; the verified message was not delivered" % r))
        ctypes.memset(sig, 0, 64); lib.crypto_sign_init(st); lib.crypto_sign_update(st, msg, ctypes.c_ulonglong(mlen)); lib.crypto_sign_final_create(st, sig, None, sk)
        if sig.raw != rsigph: fails.append(("crypto_sign_final_create(siglen_p=NULL)/" + key, "Ed25519ph signature differs from RFC 8032"))
        # multipart (Ed25519ph)
        lib.crypto_sign_init(st); lib.crypto_sign_update(st, msg, ctypes.c_ulonglong(mlen)); lib.crypto_sign_final_create(st, sig, ctypes.byref(ull), sk)
        if sig.raw != rsigph:
            fails.append(("crypto_sign_final_create/" + key, "Ed25519ph signature differs from RFC 8032: got %s want %s" % (sig.raw.hex(), rsigph.hex())))
        if multipart_verify(rsigph, msg, rpk) != 0:
            fails.append(("crypto_sign_final_verify/" + key, "honest Ed25519ph signature rejected"))
        if mlen in chunk_lens and seedid == "R1":
            for a in range(0, mlen + 1):
                for b in range(a, mlen + 1):
                    n += 1
                    lib.crypto_sign_init(st)
                    lib.crypto_sign_update(st, msg[:a], ctypes.c_ulonglong(a)); lib.crypto_sign_update(st, None, ctypes.c_ulonglong(0))
                    lib.crypto_sign_update(st, msg[a:b], ctypes.c_ulonglong(b - a)); lib.crypto_sign_update(st, msg[b:], ctypes.c_ulonglong(mlen - b))
                    lib.crypto_sign_final_create(st, sig, None, sk)
                    if sig.raw != rsigph or multipart_verify(rsigph, msg, rpk, (a, b)) != 0:
                        fails.append(("crypto_sign_multipart-chunking/%s/cuts=%d,%d" % (key, a, b), "chunked Ed25519ph differs / rejected")); break
        if len(fails) > 20:
            return tag, n, fails[:20], info
    # soundness
    for bi, (seed, msg) in enumerate(bases):
        for ph in (False, True):
            for label, s2, m2, p2 in adversarial_variants(ec, seed, msg, ph):
                n += 1; info["variants"] += 1
                if ph:
                    acc = multipart_verify(s2, m2, p2) == 0
                    accs = [acc]
                else:
                    a1 = lib.crypto_sign_verify_detached(s2, m2, ctypes.c_ulonglong(len(m2)), p2) == 0
                    a2 = lib.crypto_sign_open(out, ctypes.byref(ull), s2 + m2, ctypes.c_ulonglong(64 + len(m2)), p2) == 0
                    a3 = lib.crypto_sign_open(None, None, s2 + m2, ctypes.c_ulonglong(64 + len(m2)), p2) == 0      # verify-only call form (m == NULL)
                    accs = [a1, a2, a3]; acc = a1 or a2 or a3
                    if not (a1 == a2 == a3):
                        fails.append(("crypto_sign-forms-disagree/%s/base=%d/%s" % (tag, bi, label), "verify_detached=%s open=%s open(m=NULL)=%s" % (a1, a2, a3)))
                key = "%s/base=%d/%s/%s" % (tag, bi, "ph" if ph else "pure", label)
                if label == "honest":
                    if not all(accs): fails.append(("crypto_sign_verify/honest-rejected/" + key, "honest signature rejected"))
                    continue
                if acc:
                    pred = ec.verify_strict_predicate(s2, m2, p2, ph=ph)
                    if not pred:
                        S = int.from_bytes(s2[32:], "little")
                        why = "S >= L" if S >= L else ("A not canonical" if not ec.is_canonical_encoding(p2) else "small-order A/R or equation fails")
                        fails.append(("crypto_sign_verify/accepted-but-predicate-false/" + key, "sig=%s pk=%s msg=%s: %s" % (s2.hex(), p2.hex(), m2.hex()[:64], why)))
                    else:
                        info["accepted_nonhonest_predicate_true"] += 1
                elif label.endswith("S-rederived") or label.startswith("A=noncanonical") is False and False:
                    pass
        if len(fails) > 20:
            break
    # key conversion
    cpk = pylib.buf(32); csk = pylib.buf(32); q = pylib.buf(32)
    for seedid in PATS:
        for salt in range(6):
            seed = pat(seedid, 32, 30 + salt); n += 1
            lib.crypto_sign_seed_keypair(pk, sk, seed)
            r1 = lib.crypto_sign_ed25519_pk_to_curve25519(cpk, pk); r2 = lib.crypto_sign_ed25519_sk_to_curve25519(csk, sk)
            lib.crypto_scalarmult_base(q, csk)
            want_pk = ec.ed25519_pk_to_curve25519(pk.raw); want_sk = ec.ed25519_sk_to_curve25519(seed)
            if r1 != 0 or r2 != 0 or cpk.raw != q.raw or cpk.raw != want_pk or csk.raw != want_sk:
                fails.append(("crypto_sign_ed25519_to_curve25519/%s/seed=%s-%d" % (tag, seedid, salt), "conversion does not commute with key derivation / differs from the birational map"))
    for i, e in enumerate(ec.small_order_encodings(True)):
        n += 1
        if lib.crypto_sign_ed25519_pk_to_curve25519(cpk, e) == 0:
            fails.append(("crypto_sign_ed25519_pk_to_curve25519/%s/smallorder%d" % (tag, i), "small-order key %s accepted" % e.hex()))
    for y in (2, 5, 7, 8, 13):   # y values that may be off-curve
        e = y.to_bytes(32, "little")
        if ec.point_decode(e) is None:
            n += 1
            if lib.crypto_sign_ed25519_pk_to_curve25519(cpk, e) == 0:
                fails.append(("crypto_sign_ed25519_pk_to_curve25519/%s/offcurve-y=%d" % (tag, y), "off-curve key accepted"))
    return tag, n, fails[:20], info


def prepare(tier):
    pass


# ---- seam driver: the scalar arithmetic of the signing path, S = (h*a + r) mod L and the 64-byte reductions --------------------------
LIMB = 21
def _limb_targets():
    """results in [0, 2^252) whose 21-bit limbs (the radix of sc25519_*) sit on their boundaries: for every adjacent limb pair (i, i+1)
    every combination of {0, 1, 2^20, 2^21-1} x {0, 1, 2^21-2, 2^21-1}, other limbs from three base values"""
    bases = [int.from_bytes(pat("R1", 32, 900 + k), "little") % (1 << 252) for k in range(2)] + [0, (1 << 252) - 1]
    out = []
    for base in bases:
        for i in range(12):
            for vi in (0, 1, 1 << 20, (1 << 21) - 1):
                for vj in (0, 1, (1 << 21) - 2, (1 << 21) - 1):
                    r = base & ~(((1 << 42) - 1) << (LIMB * i)) & ((1 << 252) - 1)
                    r |= vi << (LIMB * i)
                    if i < 11: r |= vj << (LIMB * (i + 1))
                    out.append(r & ((1 << 252) - 1))
    return sorted(set(out))

def _seam_cases(tier):
    npairs = 48 if tier == "quick" else 400
    A = [0, 1, 2, L - 1, L - 2, 1 << 251, (1 << 252) - 1, (L - 1) // 2] + [int.from_bytes(pat("R1", 32, 910 + k), "little") % L for k in range(npairs)]
    B = [1 << 254, (1 << 255) - 8, (1 << 254) | 8] + [(int.from_bytes(pat("R2", 32, 940 + k), "little") & ((1 << 254) - 8)) | (1 << 254) for k in range(npairs)]
    T = _limb_targets()
    mul = []
    for k in range(npairs):
        a, b = A[(k * 7) % len(A)], B[(k * 5) % len(B)]
        for r in T:
            mul.append((a, b, (r - a * b) % L))          # (h, clamped secret scalar, nonce) with h*a + r == structured target (mod L)
    S = [0, 1, 2, L - 1, L - 2, (1 << 252) - 1, 1 << 252, (1 << 255) - 8, (1 << 255) - 1, (1 << 256) - 1, ((1 << 21) - 1) << 126, 1 << 147, (1 << 126) - 1]
    for a in S:
        for b in S:
            for c in S:
                mul.append((a % L, b & ((1 << 255) - 1), c % L))
    red = []
    KS = [0, 1, 2, 3, (1 << 259) - 1, 1 << 259, (1 << 512) // L - 1] + [int.from_bytes(pat("R1", 33, 970 + k), "little") % ((1 << 512) // L - 1) for k in range(12 if tier == "quick" else 60)]
    for r in T:
        for k in KS:
            x = r + k * L
            if x < (1 << 512): red.append(x)
    red += [(1 << 512) - 1, (1 << 512) - 2, 1 << 511, L << 259]
    return mul, red

def _seam_worker(args):
    variant, tier = args
    import subprocess
    from vf import build
    d = build.build(variant); exe = os.path.join(d, "h_c06sc")
    build.link_harness(variant, exe, [os.path.join(common.VERIF, "harness", "c06_sc.c")])
    mul, red = _seam_cases(tier)
    inp = b"".join(b"M" + a.to_bytes(32, "little") + b.to_bytes(32, "little") + c.to_bytes(32, "little") for a, b, c in mul) + \
          b"".join(b"R" + x.to_bytes(64, "little") for x in red)
    o = subprocess.run([exe], input=inp, capture_output=True, timeout=600)
    fails = []
    if o.returncode != 0 or len(o.stdout) != 32 * (len(mul) + len(red)):
        return variant, 0, [("sc25519-seam/%s/driver" % variant, "driver exited %d with %d output bytes" % (o.returncode, len(o.stdout)))]
    for i, (a, b, c) in enumerate(mul):
        got = int.from_bytes(o.stdout[32 * i:32 * i + 32], "little"); want = (a * b + c) % L
        if got != want and len(fails) < 20:
            fails.append(("sc25519_muladd/%s/a=%064x/b=%064x/c=%064x" % (variant, a, b, c), "S = (a*b+c) mod L: got %064x want %064x (difference %x)" % (got, want, got ^ want)))
    for j, x in enumerate(red):
        i = len(mul) + j
        got = int.from_bytes(o.stdout[32 * i:32 * i + 32], "little")
        if got != x % L and len(fails) < 40:
            fails.append(("sc25519_reduce/%s/x=%0128x" % (variant, x), "got %064x want %064x" % (got, x % L)))
    return variant, len(mul) + len(red), fails


def main(tier):
    t0 = time.time()
    from vf import build
    maxlen = 140 if tier == "quick" else 300
    lens = list(range(0, maxlen + 1)) + [1023, 1024, 4097]
    chunk_lens = (63, 64, 130)
    jobs = [(s, l) for s in PATS for l in lens]
    with mp.Pool(16) as pool:
        out = pool.map(_ref_sign_job, jobs, chunksize=8)
    signref = {(s, l): (pk, sg, sgph) for s, l, pk, sg, sgph in out}
    nb = 8 if tier == "quick" else 32
    bases = [(pat(PATS[i % 6], 32, 50 + i), pat(PATS[(i + 2) % 6], [0, 1, 32, 33, 64, 65, 100, 7][i % 8], 60 + i)) for i in range(nb)]
    for v, _ in BACKENDS:
        build.build(v)
    ctx = mp.get_context("spawn")
    # the adversarial part is CPU-bound in Python: split the bases over several workers per backend
    tasks = []
    for v, c in BACKENDS:
        per = max(1, nb // 4)
        for k in range(0, nb, per):
            tasks.append((v, c, signref if k == 0 else {}, lens, bases[k:k + per], chunk_lens))
    outs = pylib.pool_map(_backend_worker, tasks, min(16, len(tasks)))
    res = common.Result(); total = 0; info = {}
    seam_n = 0
    for variant, n, fails in pylib.pool_map(_seam_worker, [(v, tier) for v, _ in BACKENDS], len(BACKENDS)):
        seam_n += n; total += n
        for k, d in fails:
            res.fails.append((k, d, {"cmd": ["python3", "vf/check.py", "C06"], "env": {}}))
    for tag, n, fails, inf in outs:
        total += n
        for k, v in inf.items(): info[k] = info.get(k, 0) + v
        for k, d in fails:
            res.fails.append((k, d, {"cmd": ["python3", "vf/check.py", "C06"], "env": {}}))
    res.samples = ["seed pattern R1, message length 130: detached, combined and Ed25519ph (every <=2-cut chunking) vs RFC 8032 reference",
                   "valid (A,M,R,S) with S replaced by S+L, S+2L, ... (all k with S+kL < 2^256) -> every acceptance must satisfy S < L",
                   "R replaced by R+T4 with S re-derived so that 8(SB-R-hA)=0 holds: acceptance allowed only if the predicate holds",
                   "public key replaced by the non-canonical encoding of the order-4 point (y = p+... alias) -> must be rejected"]
    cov = {"evaluations": total, "distinct_nontrivial": total, "rule": RULE, "exhaustive": True,
           "adversarial_variants": info.get("variants", 0), "scalar_seam_cases": seam_n,
           "accepted_forgeries_with_predicate_true(info)": info.get("accepted_nonhonest_predicate_true", 0),
           "backends": [b[0] for b in BACKENDS]}
    common.finish("C06", tier, "exploration", res, cov,
                  ["one-directional oracle (accept => predicate) as the property states", "structured adversarial neighbourhood only"], t0)
