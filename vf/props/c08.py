"""C08 password hashing equals Argon2 (RFC 9106) / scrypt (RFC 7914); the string API is self-consistent under every 1-deviation."""
import ctypes, hashlib, multiprocessing as mp, os, resource, sys, time
from vf import common, configs, pylib

sys.path.insert(0, os.path.join(common.VERIF, "ref"))
BACKENDS = [("native", ""), ("native", configs.CHAIN[1]), ("native", configs.CHAIN[2]), ("native", configs.NONE), ("generic", "")]
ALG_I, ALG_ID = 1, 2

RULE = ("raw Argon2i/Argon2id through crypto_pwhash and the algorithm-specific entry points: memlimit = EVERY multiple of 1 KiB from 8 to 160 "
        "KiB (thorough to 1024 KiB) and {256,512,1024} KiB x passes {1,2,3} (argon2i {3,4}) at outlen 32; outlen in {16,17,31,32,33,63,64,65,"
        "128,1024} x m in {8,37,64} x 2 pass counts; password lengths {0,1,8,64,200}; memlimit not a multiple of 1024; on the block-fill "
        "backends ref / SSSE3 / AVX2 / AVX-512F and the generic build; oracle = C reference of RFC 9106 (validated against the RFC vectors "
        "and OpenSSL 3.5). Limits: outlen 15/16, memlimit 8191/8192, opslimit below the minimum, above the maxima, unknown algorithm, out "
        "== passwd. scrypt: _ll for N in {2..4096} x r {1,2,8} x p {1,2,3} x output lengths {1,16,31,32,33,64,65,100} vs hashlib.scrypt, "
        "invalid N/r/p refused, high-level call vs the parameters its own string reports, SSE and non-SSE paths. strings (argon2id, "
        "argon2i, scrypt $7$): produced string parses under the strict reference grammar, hash = reference on the embedded salt, verify "
        "accepts the password and rejects each single-bit-flipped / truncated / extended password; then EVERY 1-deviation of the string: "
        "at every position each replacement from {1,0,9,a,A,$,',',=,+,/,.,NUL,0x80,-}, every deletion, every insertion of those letters, "
        "every truncation, plus a hand list of 2-deviations (lanes p=2/p=4 with recomputed hash, m=08, v=16, missing v, swapped fields, "
        "non-zero Base64 trailing bits, argon2i<->argon2id prefix, padded Base64): verify == reference parser+hasher verdict, "
        "needs_rehash == 0 iff parseable and (t, m) equal the requested pair, 1 if parseable and different, -1 if malformed. "
        "Every mutated string is one distinct case.")

RULE = RULE + ' Foreign scrypt strings built by the reference: every digit value 1..63 in the two low digit positions of r and p (1..3 in the third), N = 2: correct/wrong password and needs_rehash; needs_rehash with every digit value in every position of N, r, p.'

META = {
    "engine": "E-shape", "level": "exploration",
    "technique": "exhaustive bounded enumeration of cost parameters / lengths on every block-fill backend vs RFC 9106 / RFC 7914 references, and of all single-character deviations of hash strings vs a strict reference parser+hasher",
    "text": "Every memory size in KiB steps (every segment length incl. the non-multiple-of-4 rounding) is hashed on each backend and "
            "compared with the reference; the string parsers are driven with the complete 1-edit neighbourhood of valid strings over a "
            "class alphabet and judged by an independent strict parser plus recomputation.",
    "note": "Costs bounded (<= 1 MiB Argon2, N <= 4096 scrypt). Trusted: ref/ref_argon2.c, ref/pwhash_str.py, hashlib.scrypt. libsodium's "
            "16-byte minimum hash length in strings is modelled as API policy (min_hash=16). needs_rehash ignores the lane count by design.",
}


def pat(idt, n, salt=0):
    if idt == "Z": return bytes(n)
    if idt == "F": return bytes([0xff]) * n
    if idt == "C": return bytes((i + salt) % 251 for i in range(n))
    seed = int(os.environ.get("VERIF_SEED", "1") or 1)
    return hashlib.shake_256(b"%s-%d-%d" % (idt.encode(), seed, salt)).digest(n)


MUT = [b"1", b"0", b"9", b"a", b"A", b"$", b",", b"=", b"+", b"/", b".", b"\0", b"\x80", b"-"]


def mutations(s):
    """every 1-deviation of the byte string s over the class alphabet"""
    out = {}
    for i in range(len(s) + 1):
        for c in MUT:
            out.setdefault(s[:i] + c + s[i:], "ins%d:%r" % (i, c))
            if i < len(s) and s[i:i + 1] != c:
                out.setdefault(s[:i] + c + s[i + 1:], "rep%d:%r" % (i, c))
        if i < len(s):
            out.setdefault(s[:i] + s[i + 1:], "del%d" % i)
            out.setdefault(s[:i], "trunc%d" % i)
    out.pop(s, None)
    return out


def _worker(args):
    variant, cfg, tier = args
    import pwhash_str as ps
    os.environ["REF_ARGON2_SO"] = os.path.join(common.VERIF, "build", "ref", "libvref.so")
    resource.setrlimit(resource.RLIMIT_AS, (3 << 30, 3 << 30))
    lib = pylib.load_sodium(variant, cfg)
    feats = pylib.features(lib)
    tag = "%s[%s]" % (variant, "-" + cfg if cfg else "all")
    fails, n, info = [], 0, {}
    ull, sz = ctypes.c_ulonglong, ctypes.c_size_t
    thorough = tier == "thorough"
    salt = pat("R1", 16, 1)

    def raw(alg, outlen, pw, t, membytes, direct=False):
        out = pylib.buf(max(outlen, 1))
        if direct:
            f = lib.crypto_pwhash_argon2i if alg == ALG_I else lib.crypto_pwhash_argon2id
        else:
            f = lib.crypto_pwhash
        r = f(out, ull(outlen), pw, ull(len(pw)), salt, ull(t), sz(membytes), alg)
        return r, out.raw[:outlen]

    def check_raw(alg, outlen, pw, t, m, extra=0, direct=False):
        nonlocal n
        n += 1
        r, got = raw(alg, outlen, pw, t, 1024 * m + extra, direct)
        want = ps.argon2_raw("argon2i" if alg == ALG_I else "argon2id", pw, salt, t, m, 1, outlen)
        if r != 0 or got != want:
            fails.append(("crypto_pwhash%s/%s/alg=%d/m=%dKiB+%d/t=%d/outlen=%d/pwlen=%d" % ("_direct" if direct else "", tag, alg, m, extra, t, outlen, len(pw)),
                          "ret %d got %s want %s" % (r, got[:32].hex(), (want or b"")[:32].hex())))

    pw8 = b"password"
    ms = list(range(8, (1024 if thorough else 160) + 1)) + [256, 512, 1024]
    for alg, ts in ((ALG_ID, (1, 2, 3)), (ALG_I, (3, 4))):
        for m in ms:
            for t in ts:
                if m > 160 and t > 3 and not thorough: continue
                check_raw(alg, 32, pw8, t, m)
            if len(fails) > 10: break
        for outlen in (16, 17, 31, 32, 33, 63, 64, 65, 128, 1024):
            for m in (8, 37, 64):
                for t in (ts[0], ts[-1]):
                    check_raw(alg, outlen, pw8, t, m, direct=(m == 37))
        for pl in (0, 1, 8, 64, 200):
            check_raw(alg, 32, pat("C", pl, 3), ts[0], 16)
        for pwz in (b"\0", b"\0\0", b"pass\0word", b"\0password", b"password\0", b"\0" * 17, b"\xff\0\xff"):      # passwords are byte strings with a length, not C strings
            check_raw(alg, 32, pwz, ts[0], 16)
        for extra in (1, 512, 1023):
            check_raw(alg, 32, pw8, ts[0], 24, extra)
        # pass counts around the widths an implementation could narrow the pass index to (8 and 16 bits), at the minimum memory
        for t in (5, 16, 17, 127, 128, 129, 255, 256, 257, 258, 511, 513) + ((32767, 32769, 65535, 65536, 65537) if thorough or alg == ALG_ID else (65537,)):
            check_raw(alg, 32, pw8, t, 8 if t % 2 else 9)
    # ---- limits ----
    def expect_fail(name, r):
        nonlocal n
        n += 1
        if r != -1: fails.append(("crypto_pwhash-limit/%s/%s" % (tag, name), "out-of-range request returned %d" % r))
    o = pylib.buf(64)
    expect_fail("outlen=15", lib.crypto_pwhash(o, ull(15), pw8, ull(8), salt, ull(3), sz(8192), ALG_ID))
    expect_fail("memlimit=8191", lib.crypto_pwhash(o, ull(32), pw8, ull(8), salt, ull(3), sz(8191), ALG_ID))
    expect_fail("opslimit=0", lib.crypto_pwhash(o, ull(32), pw8, ull(8), salt, ull(0), sz(8192), ALG_ID))
    expect_fail("argon2i-opslimit=2", lib.crypto_pwhash(o, ull(32), pw8, ull(8), salt, ull(2), sz(8192), ALG_I))
    expect_fail("alg=3", lib.crypto_pwhash(o, ull(32), pw8, ull(8), salt, ull(3), sz(8192), 3))
    expect_fail("alg=0", lib.crypto_pwhash(o, ull(32), pw8, ull(8), salt, ull(3), sz(8192), 0))
    expect_fail("opslimit=2^32", lib.crypto_pwhash(o, ull(32), pw8, ull(8), salt, ull(1 << 32), sz(8192), ALG_ID))
    expect_fail("pwlen=2^32", lib.crypto_pwhash(o, ull(32), pw8, ull(1 << 32), salt, ull(3), sz(8192), ALG_ID))
    expect_fail("memlimit>max", lib.crypto_pwhash(o, ull(32), pw8, ull(8), salt, ull(3), sz(4398046510080 + 1024), ALG_ID))
    expect_fail("out==passwd", lib.crypto_pwhash(o, ull(32), o, ull(8), salt, ull(3), sz(8192), ALG_ID))
    expect_fail("argon2id-direct-alg=1", lib.crypto_pwhash_argon2id(o, ull(32), pw8, ull(8), salt, ull(3), sz(8192), 1))
    expect_fail("argon2i-direct-alg=2", lib.crypto_pwhash_argon2i(o, ull(32), pw8, ull(8), salt, ull(3), sz(8192), 2))
    n += 1
    if lib.crypto_pwhash(o, ull(16), pw8, ull(8), salt, ull(1), sz(8192), ALG_ID) != 0: fails.append(("crypto_pwhash-limit/%s/min-accepted" % tag, "minimum parameters refused"))
    # ---- scrypt ----
    s32 = pat("R2", 32, 5)
    for lg in range(1, 13):
        for r_ in (1, 2, 8):
            for p_ in (1, 2, 3):
                for ol in ((1, 16, 31, 32, 33, 64, 65, 100) if lg in (1, 4, 10) or thorough else (32,)):
                    n += 1
                    out = pylib.buf(ol)
                    rc = lib.crypto_pwhash_scryptsalsa208sha256_ll(pw8, sz(8), s32, sz(32), ctypes.c_uint64(1 << lg), ctypes.c_uint32(r_), ctypes.c_uint32(p_), out, sz(ol))
                    want = hashlib.scrypt(pw8, salt=s32, n=1 << lg, r=r_, p=p_, maxmem=1 << 30, dklen=ol)
                    if rc != 0 or out.raw != want:
                        fails.append(("crypto_pwhash_scrypt_ll/%s/N=2^%d/r=%d/p=%d/outlen=%d" % (tag, lg, r_, p_, ol), "ret %d" % rc))
    # PBKDF2 block counters past one and two bytes: 4*r*p (the first PBKDF2) or outlen/32 (the second) blocks of HMAC-SHA-256 output
    for lg, r_, p_, ol in ((1, 1, 63, 32), (1, 1, 64, 32), (1, 1, 65, 32), (1, 8, 2048, 32), (1, 1, 16385, 32), (1, 4099, 4, 40), (1, 1, 1, 8192), (1, 1, 1, 8193), (1, 1, 1, 32 * 65536 + 33), (2, 2, 1, 32 * 65536)):
        n += 1
        out = pylib.buf(ol)
        rc = lib.crypto_pwhash_scryptsalsa208sha256_ll(pw8, sz(8), s32, sz(32), ctypes.c_uint64(1 << lg), ctypes.c_uint32(r_), ctypes.c_uint32(p_), out, sz(ol))
        want = hashlib.scrypt(pw8, salt=s32, n=1 << lg, r=r_, p=p_, maxmem=1 << 30, dklen=ol)
        if rc != 0 or out.raw != want:
            d0 = next((i for i in range(ol) if out.raw[i] != want[i]), -1)
            fails.append(("crypto_pwhash_scrypt_ll/%s/N=2^%d/r=%d/p=%d/outlen=%d" % (tag, lg, r_, p_, ol), "ret %d; first differing output byte %d" % (rc, d0)))
    out = pylib.buf(32)
    for N, r_, p_, name in ((0, 1, 1, "N=0"), (1, 1, 1, "N=1"), (3, 1, 1, "N=3"), (6, 1, 1, "N=6"), (1000, 1, 1, "N=1000"), (16, 0, 1, "r=0"), (16, 1, 0, "p=0"), (16, 1 << 15, 1 << 15, "r*p=2^30")):
        n += 1
        if lib.crypto_pwhash_scryptsalsa208sha256_ll(pw8, sz(8), s32, sz(32), ctypes.c_uint64(N), ctypes.c_uint32(r_), ctypes.c_uint32(p_), out, sz(32)) == 0:
            fails.append(("crypto_pwhash_scrypt_ll-invalid/%s/%s" % (tag, name), "invalid parameters accepted"))
    # high-level scrypt: the string reports the parameters pickparams chose; the raw call must equal hashlib on them
    sc_limits = [(32768, 16777216), (65536, 16777216), (32768, 33554432), (262144, 16777216)]
    for ops, mem in sc_limits:
        st = pylib.buf(102); n += 1
        if lib.crypto_pwhash_scryptsalsa208sha256_str(st, pw8, ull(8), ull(ops), sz(mem)) != 0:
            fails.append(("crypto_pwhash_scrypt_str/%s/ops=%d/mem=%d" % (tag, ops, mem), "failed")); continue
        s = st.value
        d = ps.scrypt7_parse(s)
        if d is None or not ps.scrypt7_str_verify(s, pw8):
            fails.append(("crypto_pwhash_scrypt_str/%s/ops=%d/mem=%d" % (tag, ops, mem), "string %r does not parse / verify under the reference" % s)); continue
        out = pylib.buf(40)
        rc = lib.crypto_pwhash_scryptsalsa208sha256(out, ull(40), pw8, ull(8), s32, ull(ops), sz(mem))
        want = hashlib.scrypt(pw8, salt=s32, n=1 << d["N_log2"], r=d["r"], p=d["p"], maxmem=1 << 30, dklen=40)
        if rc != 0 or out.raw != want:
            fails.append(("crypto_pwhash_scrypt/%s/ops=%d/mem=%d" % (tag, ops, mem), "raw output differs from scrypt(N=2^%d,r=%d,p=%d)" % (d["N_log2"], d["r"], d["p"])))
        if ops * 2 > (1 << 32): pass
    expect_fail("scrypt-outlen=15", lib.crypto_pwhash_scryptsalsa208sha256(out, ull(15), pw8, ull(8), s32, ull(32768), sz(16777216)))
    # scrypt's OPSLIMIT_MIN / MEMLIMIT_MIN are advisory: pickparams() clamps, and the repository's own vectors (test/default/pwhash_scrypt.c)
    # use memlimit 7256678 < MEMLIMIT_MIN successfully. Recorded, not judged.
    info["scrypt_below_min_limits(info)"] = "opslimit=32767 -> %d, memlimit=min-1 -> %d" % (
        lib.crypto_pwhash_scryptsalsa208sha256(out, ull(32), pw8, ull(8), s32, ull(32767), sz(16777216)),
        lib.crypto_pwhash_scryptsalsa208sha256(out, ull(32), pw8, ull(8), s32, ull(32768), sz(16777215)))

    # ---- strings ----
    def str_family(name, make, verify, rehash, t_req, m_req, typ, is_scrypt=False, generic=False):
        nonlocal n
        st = pylib.buf(128)
        if make(st) != 0:
            fails.append(("%s/%s/produce" % (name, tag), "string production failed")); return
        s = st.value
        n += 1
        if is_scrypt:
            ok = ps.scrypt7_str_verify(s, pw8)
        else:
            d = ps.argon2_parse(s, expect_type=typ, min_hash=16)
            ok = d is not None and d["t"] == t_req and d["m"] == m_req and d["p"] == 1 and len(d["salt"]) == 16 and len(d["hash"]) == 32 and \
                ps.argon2_raw(typ, pw8, d["salt"], d["t"], d["m"], 1, 32) == d["hash"] and ps.argon2_encode(typ, d["t"], d["m"], 1, d["salt"], d["hash"]).encode() == s
        if not ok:
            fails.append(("%s/%s/format" % (name, tag), "produced string %r is not the standard encoding of (params, salt, reference hash)" % s)); return
        if verify(s, pw8, ull(8)) != 0: fails.append(("%s_verify/%s/correct" % (name, tag), "correct password rejected"))
        for b in range(64):
            p2 = bytearray(pw8); p2[b >> 3] ^= 1 << (b & 7); n += 1
            if verify(s, bytes(p2), ull(8)) == 0: fails.append(("%s_verify/%s/pwbit%d" % (name, tag, b), "wrong password accepted"))
        # (a trailing NUL is NOT a different password for scrypt: PBKDF2-HMAC zero-pads the key, RFC 7914/2104 - only tried for Argon2)
        for p2 in ((pw8[:-1], b"", pw8 + b"x") if is_scrypt else (pw8[:-1], pw8 + b"\0", b"", pw8 + b"x")):
            n += 1
            if verify(s, p2, ull(len(p2))) == 0: fails.append(("%s_verify/%s/pw=%r" % (name, tag, p2), "wrong password accepted"))
        if rehash(s, ull(t_req if not is_scrypt else 32768), sz(1024 * m_req if not is_scrypt else 16777216)) != 0:
            fails.append(("%s_needs_rehash/%s/same" % (name, tag), "needs_rehash != 0 for the string's own parameters"))
        if not is_scrypt:
            for (t2, m2, want) in ((t_req + 1, m_req, 1), (t_req, m_req + 1, 1), (t_req, m_req * 2, 1)):
                n += 1
                r = rehash(s, ull(t2), sz(1024 * m2))
                if r != want: fails.append(("%s_needs_rehash/%s/t=%d,m=%d" % (name, tag, t2, m2), "returned %d want %d" % (r, want)))
        else:
            n += 1
            if rehash(s, ull(65536 * 4), sz(16777216 * 2)) != 1: fails.append(("%s_needs_rehash/%s/other" % (name, tag), "different limits not reported"))
        muts = mutations(s)
        if not is_scrypt:
            d = ps.argon2_parse(s, expect_type=typ, min_hash=16)
            # hand-written 2-deviations
            for p_ in (2, 4):
                h = ps.argon2_raw(typ, pw8, d["salt"], d["t"], 8 * p_, p_, 32)
                muts[ps.argon2_encode(typ, d["t"], 8 * p_, p_, d["salt"], h).encode()] = "lanes=%d(recomputed)" % p_
            muts[s.replace(b"m=%d" % m_req, b"m=0%d" % m_req)] = "m=0N"
            # numeric aliases: each decimal field replaced by value + k*2^w for the widths a decoder could wrap at (32, 63, 64, 128 bits) and by padded forms
            for fld, val in ((b"m=", m_req), (b"t=", t_req), (b"p=", 1), (b"v=", 19)):
                for k in (1 << 32, 1 << 63, 1 << 64, 3 << 64, (1 << 64) * 10, 1 << 128):      # (smaller offsets are valid, different, expensive parameters: not aliases)
                    muts[s.replace(fld + b"%d" % val, fld + b"%d" % (val + k), 1)] = "%s%d+%d*2^%d" % (fld.decode(), val, k >> (k.bit_length() - 1) if k.bit_length() < 66 else k // (1 << 64), min(k.bit_length() - 1, 64))
                muts[s.replace(fld + b"%d" % val, fld + b"+%d" % val, 1)] = "%s+N" % fld.decode()
                muts[s.replace(fld + b"%d" % val, fld + b"00%d" % val, 1)] = "%s00N" % fld.decode()
                muts[s.replace(fld + b"%d" % val, fld + b"%d " % val, 1)] = "%sN-space" % fld.decode()
                muts[s.replace(fld + b"%d" % val, fld + b"0x%x" % val, 1)] = "%shex" % fld.decode()
            muts[s.replace(b"v=19", b"v=16")] = "v=16"
            muts[s.replace(b"$v=19", b"")] = "no-version"
            muts[s.replace(b"m=%d,t=%d" % (m_req, t_req), b"t=%d,m=%d" % (t_req, m_req))] = "swapped"
            other = b"$argon2i$" if typ == "argon2id" else b"$argon2id$"
            muts[other + s.split(b"$", 2)[2]] = "other-prefix"
            muts[s + b"="] = "padded"
            last = s[-1:]
            alpha = b"ABCDEFGHIJKLMNOPQRSTUVWXYZabcdefghijklmnopqrstuvwxyz0123456789+/"
            muts[s[:-1] + alpha[(alpha.index(last) | 1) if alpha.index(last) % 4 == 0 else alpha.index(last) ^ 1:][:1]] = "trailing-bits"
            h16 = ps.argon2_raw(typ, pw8, d["salt"], d["t"], d["m"], 1, 16); h15 = ps.argon2_raw(typ, pw8, d["salt"], d["t"], d["m"], 1, 15)
            muts[ps.argon2_encode(typ, d["t"], d["m"], 1, d["salt"], h16).encode()] = "hash16(recomputed)"
            muts[ps.argon2_encode(typ, d["t"], d["m"], 1, d["salt"], h15).encode()] = "hash15(recomputed)"
        acc = rej = 0
        for ms_, label in muts.items():
            if b"\0" in ms_:
                cstr = ms_[:ms_.index(b"\0")]        # the API takes C strings: what the library sees ends at the NUL
            else:
                cstr = ms_
            if len(cstr) >= (102 if is_scrypt else 128): continue
            n += 1
            try:
                if is_scrypt:
                    d2 = ps.scrypt7_parse(cstr)
                    if d2 is not None and d2["params_valid"] and (128 * d2["r"] * (1 << d2["N_log2"]) > (1 << 28) or d2["r"] * d2["p"] > 64):
                        continue               # too expensive to evaluate here: not judged
                    want_v = ps.scrypt7_str_verify(cstr, pw8)
                    want_r = None
                else:
                    # the generic crypto_pwhash_str_* entry points dispatch on the prefix (argon2i / argon2id; argon2d is not offered)
                    d2 = ps.argon2_parse(cstr, expect_type=None if generic else typ, min_hash=16)
                    if d2 is not None and d2["type_name"] == "argon2d": d2 = None
                    if d2 is not None and (d2["m"] > 4096 or d2["t"] > 64 or d2["p"] > 16): continue       # too expensive to evaluate (for the library too): not judged
                    want_v = d2 is not None and ps.argon2_str_verify(cstr, pw8, expect_type=None if generic else typ, min_hash=16)
                    want_r = -1 if d2 is None else (0 if (d2["t"] == t_req and d2["m"] == m_req) else 1)
            except ps.ScryptTooBig:
                continue
            buf = ctypes.create_string_buffer(cstr, len(cstr) + 1)
            got_v = verify(buf, pw8, ull(8))
            if (got_v == 0) != bool(want_v):
                fails.append(("%s_verify/%s/mutation=%s" % (name, tag, label), "string %r: library %s, reference %s" % (cstr, "accepts" if got_v == 0 else "rejects", "accepts" if want_v else "rejects")))
            if want_v: acc += 1
            else: rej += 1
            if want_r is not None:
                got_r = rehash(buf, ull(t_req), sz(1024 * m_req))
                if got_r != want_r:
                    fails.append(("%s_needs_rehash/%s/mutation=%s" % (name, tag, label), "string %r: returned %d, reference %d" % (cstr, got_r, want_r)))
            if len(fails) > 25: break
        info[name] = "%d mutations (%d accepted by the reference)" % (acc + rej, acc)

    str_family("crypto_pwhash_str", lambda st: lib.crypto_pwhash_str(st, pw8, ull(8), ull(2), sz(64 * 1024)), lib.crypto_pwhash_str_verify, lib.crypto_pwhash_str_needs_rehash, 2, 64, "argon2id", generic=True)
    str_family("crypto_pwhash_str_alg_argon2i", lambda st: lib.crypto_pwhash_str_alg(st, pw8, ull(8), ull(3), sz(32 * 1024), ALG_I), lib.crypto_pwhash_str_verify, lib.crypto_pwhash_str_needs_rehash, 3, 32, "argon2i", generic=True)
    str_family("crypto_pwhash_argon2id", lambda st: lib.crypto_pwhash_argon2id_str(st, pw8, ull(8), ull(1), sz(8 * 1024)), lib.crypto_pwhash_argon2id_str_verify, lib.crypto_pwhash_argon2id_str_needs_rehash, 1, 8, "argon2id")
    str_family("crypto_pwhash_argon2i", lambda st: lib.crypto_pwhash_argon2i_str(st, pw8, ull(8), ull(3), sz(9 * 1024)), lib.crypto_pwhash_argon2i_str_verify, lib.crypto_pwhash_argon2i_str_needs_rehash, 3, 9, "argon2i")

    # strings from other producers: tags of every length class (16..64 bytes) and salts of 8..16 bytes, built with the reference; the correct
    # password must verify and every single-character change of the tag must not (the reference decides: some last-character changes do not decode)
    B64A = b"ABCDEFGHIJKLMNOPQRSTUVWXYZabcdefghijklmnopqrstuvwxyz0123456789+/"
    for typ, vfns in (("argon2id", (lib.crypto_pwhash_str_verify, lib.crypto_pwhash_argon2id_str_verify)), ("argon2i", (lib.crypto_pwhash_str_verify, lib.crypto_pwhash_argon2i_str_verify))):
        for tl, sl in ((16, 16), (17, 8), (31, 9), (32, 8), (33, 8), (40, 12), (48, 8), (63, 8), (64, 8)):
            t_ = 3 if typ == "argon2i" else 1
            salt_ = bytes(range(40, 40 + sl))
            sref = ps.argon2_encode(typ, t_, 8, 1, salt_, ps.argon2_raw(typ, pw8, salt_, t_, 8, 1, tl)).encode()
            if len(sref) >= 128: continue
            tag_at = sref.rindex(b"$") + 1
            cands = [(sref, "intact")]
            for pos_ in range(tag_at, len(sref)):
                for delta in (1, 17):
                    ch = B64A[(B64A.index(sref[pos_:pos_ + 1]) + delta) % 64:][:1]
                    cands.append((sref[:pos_] + ch + sref[pos_ + 1:], "tagchar%d+%d" % (pos_ - tag_at, delta)))
            for cs, lab in cands:
                want = bool(ps.argon2_str_verify(cs, pw8, expect_type=typ, min_hash=16))
                if lab == "intact" and not want: raise AssertionError("reference rejects its own string")
                buf2 = ctypes.create_string_buffer(cs, len(cs) + 1)
                for fi, vf_ in enumerate(vfns):
                    n += 1
                    got = vf_(buf2, pw8, ull(8)) == 0
                    if got != want:
                        fails.append(("crypto_pwhash%s_str_verify/%s/foreign-string/%s/taglen=%d/saltlen=%d/%s" % ("" if fi == 0 else "_" + typ, tag, typ, tl, sl, lab),
                                      "string %r: library %s, reference %s" % (cs, "accepts" if got else "rejects", "accepts" if want else "rejects")))
    # needs_rehash over the whole documented parameter range (it only parses, so strings with huge cost parameters are free to judge): the
    # string's (t, m) against requested (opslimit, memlimit) on a grid that includes 4 GiB (2^22 KiB), 2^32-1 KiB and 2^32-1 passes
    grid = [(3, 8), (3, 9), (4, 8), (3, 4194303), (3, 4194304), (5, 4194305), (3, (1 << 32) - 1), ((1 << 32) - 1, 8), ((1 << 32) - 1, (1 << 32) - 1), (65536, 65536)]
    fake_salt = bytes(range(16)); fake_hash = bytes(range(32))
    for typ, fns in (("argon2id", (lib.crypto_pwhash_str_needs_rehash, lib.crypto_pwhash_argon2id_str_needs_rehash)), ("argon2i", (lib.crypto_pwhash_str_needs_rehash, lib.crypto_pwhash_argon2i_str_needs_rehash))):
        for (ts, ms) in grid:
            sbuf = ctypes.create_string_buffer(ps.argon2_encode(typ, ts, ms, 1, fake_salt, fake_hash).encode())
            for (tr, mr) in grid:
                for extra in (0, 1023):
                    want = 0 if (ts == tr and ms == mr) else 1
                    for fi, fn in enumerate(fns):
                        n += 1
                        got = fn(sbuf, ull(tr), sz(mr * 1024 + extra))
                        if got != want:
                            fails.append(("crypto_pwhash%s_str_needs_rehash/%s/%s/string=t%d,m%d/request=t%d,m%dKiB+%d" % ("" if fi == 0 else "_" + typ, tag, typ, ts, ms, tr, mr, extra), "returned %d, want %d" % (got, want)))
    if cfg in ("", configs.NONE):
        # "$7$" strings from other producers: every base-64 digit value 0..63 in the low three digit positions of the r and of the p field
        # (built and hashed by the reference; N = 2 keeps them cheap) - the correct password must verify, another one must not, and
        # needs_rehash must parse them (1: parameters differ from the requested ones; never -1).  needs_rehash only parses, so there every
        # digit value is also placed in all five positions of both fields and in the N field.
        st0 = pylib.buf(102)
        own = None
        if lib.crypto_pwhash_scryptsalsa208sha256_str(st0, pw8, ull(8), ull(32768), sz(16777216)) == 0:
            own = ps.scrypt7_parse(st0.value)
        salt_txt = ps.itoa64_encode_bytes(bytes(range(100, 132)))
        def _sc_rehash_want(N_log2, r_, p_):
            return 0 if (own is not None and (own["N_log2"], own["r"], own["p"]) == (N_log2, r_, p_)) else 1
        for field in ("r", "p"):
            for pos_ in range(3):
                for dv in (range(1, 64) if pos_ < 2 else (1, 2, 3)):      # position 2 kept small: r = 3 * 4096 needs 8 MiB; larger values would make the verdict depend on available memory
                    val = dv << (6 * pos_)
                    r_, p_ = (val, 1) if field == "r" else (1, val)
                    setting = ps.scrypt7_encode(1, r_, p_, salt_txt, bytes(32))
                    try:
                        sref = ps.scrypt7_hash(pw8, setting[:setting.rindex("$")])
                    except ps.ScryptTooBig:
                        continue
                    if sref is None or not ps.scrypt7_str_verify(sref, pw8): raise AssertionError("reference rejects its own scrypt string")
                    buf2 = ctypes.create_string_buffer(sref.encode("latin-1"), 102)
                    key = "crypto_pwhash_scryptsalsa208sha256_str_verify/%s/foreign-string/N=2/%s=%d(digit %d at position %d)" % (tag, field, val, dv, pos_)
                    n += 3
                    if lib.crypto_pwhash_scryptsalsa208sha256_str_verify(buf2, pw8, ull(8)) != 0:
                        fails.append((key, "string %r: the correct password is rejected" % sref))
                    if lib.crypto_pwhash_scryptsalsa208sha256_str_verify(buf2, pw8[:-1] + b"#", ull(8)) == 0:
                        fails.append((key, "string %r: a wrong password is accepted" % sref))
                    got = lib.crypto_pwhash_scryptsalsa208sha256_str_needs_rehash(buf2, ull(32768), sz(16777216))
                    if got != _sc_rehash_want(1, r_, p_):
                        fails.append((key.replace("_str_verify", "_str_needs_rehash"), "string %r: returned %d, want %d" % (sref, got, _sc_rehash_want(1, r_, p_))))
        for field in ("N", "r", "p"):
            for pos_ in range(1 if field == "N" else 5):
                for dv in range(64):
                    val = dv << (6 * pos_)
                    N_log2, r_, p_ = (dv, 8, 1) if field == "N" else ((14, val, 1) if field == "r" else (14, 8, val))
                    if val >= (1 << 30): continue
                    sref = ps.scrypt7_encode(N_log2, r_, p_, salt_txt, bytes(range(32)))
                    if ps.scrypt7_parse(sref) is None: raise AssertionError("reference does not parse its own scrypt string")
                    buf2 = ctypes.create_string_buffer(sref.encode("latin-1"), 102)
                    n += 1
                    got = lib.crypto_pwhash_scryptsalsa208sha256_str_needs_rehash(buf2, ull(32768), sz(16777216))
                    if got != _sc_rehash_want(N_log2, r_, p_):
                        fails.append(("crypto_pwhash_scryptsalsa208sha256_str_needs_rehash/%s/foreign-string/%s digit %d at position %d" % (tag, field, dv, pos_),
                                      "string %r (N_log2=%d r=%d p=%d): returned %d, want %d" % (sref, N_log2, r_, p_, got, _sc_rehash_want(N_log2, r_, p_))))
    if cfg in ("", configs.NONE):
        str_family("crypto_pwhash_scryptsalsa208sha256", lambda st: lib.crypto_pwhash_scryptsalsa208sha256_str(st, pw8, ull(8), ull(32768), sz(16777216)),
                   lib.crypto_pwhash_scryptsalsa208sha256_str_verify, lib.crypto_pwhash_scryptsalsa208sha256_str_needs_rehash, 0, 0, None, is_scrypt=True)
    return tag, feats, n, fails[:25], info


def prepare(tier):
    pass


def main(tier):
    t0 = time.time()
    from vf import build
    for v in sorted(set(v for v, _ in BACKENDS)):
        build.build(v)
    pylib.load_ref()
    outs = pylib.pool_map(_worker, [(v, c, tier) for v, c in BACKENDS], len(BACKENDS))
    res = common.Result(); total = 0; tags = []; infos = {}
    for tag, feats, n, fails, info in outs:
        total += n; tags.append("%s avx512f=%d avx2=%d ssse3=%d sse2=%d" % (tag, feats["avx512f"], feats["avx2"], feats["ssse3"], feats["sse2"]))
        infos[tag] = info
        for k, d in fails:
            res.fails.append((k, d, {"cmd": ["python3", "vf/check.py", "C08"], "env": {}}))
    res.samples = ["crypto_pwhash(argon2id, m=37 KiB (segment length 9, lanes*4*9=36 blocks used), t=1, outlen=64) vs RFC 9106 reference",
                   "'$argon2id$v=19$m=64,t=2,p=1$<salt>$<hash>' with 'm=64' mutated to 'm=064' -> verify -1, needs_rehash -1",
                   "'$argon2id$v=19$m=16,t=2,p=2$...' (2 lanes, hash recomputed by the reference) -> verdict must equal the reference's",
                   "'$7$...' with every single character replaced/deleted/inserted -> verify verdict equals hashlib.scrypt on the parsed setting"]
    cov = {"evaluations": total, "distinct_nontrivial": total, "rule": RULE, "exhaustive": True, "backends": tags, "string_mutations": infos}
    common.finish("C08", tier, "exploration", res, cov,
                  ["costs bounded to <= 1 MiB / N <= 4096; mutated strings whose parameters would cost more are not judged",
                   "strings are C strings: a mutation containing NUL is presented truncated at the NUL"], t0)
