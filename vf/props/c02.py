"""C02 forgeries are rejected and release no plaintext: every single-bit flip / truncation / extension, differential output check."""
import os
from vf import common, configs

RULE = ("for each of 10 constructions (6 AEADs incl. verify-only m=NULL, secretbox x2, box x2) x every decrypt call form, sealed boxes x2, "
        "secretstream pull, 4 auth verify functions, onetimeauth verify, crypto_sign_open / verify_detached / final_verify: valid tuples "
        "with mlen in {0,1,15,16,17,31,32,33,63,64,65,127,128,129,255,256,257} (thorough every 0..300) x adlen {0,1,16,17} (and 225 at mlen 0 and 33); for each, "
        "EVERY single-bit flip of every byte of ciphertext, tag, AD, nonce/header and key (box: sender pk and recipient sk), every "
        "truncation length (detached body and combined input incl. below ABYTES), extension by 1 and 16 bytes, AD dropped/truncated/"
        "extended. Oracle: non-zero return, reported length 0, canaries, and the output buffers of the same forged call under two "
        "different (key, plaintext) tuples byte-identical. Flips that leave the result unchanged by specification (X25519 pk bit 255, "
        "clamped scalar bits, clamped Poly1305 r bits - decided by the reference) are counted, not judged. Each forgery is one "
        "distinct case; all are non-trivial. Length-word truncation family: associated data of 2^32+48 bytes (untouched zero pages), mlen 33, one AD "
        "bit flipped at byte 5, 2^16+5, 2^31+5, 2^32-7, 2^32+20 and the last byte, plus the untouched tuple (must open): AES-256-GCM and "
        "ChaCha20-Poly1305-IETF in quick (the latter one call form per position), all six AEADs x combined / detached / verify-only in thorough "
        "(AEGIS only with hardware AES; skipped items are counted); oracle: non-zero return, length 0, canaries, no 8-byte plaintext chunk in the output.")

META = {
    "engine": "E-shape", "level": "exploration",
    "technique": "exhaustive enumeration of all single-bit flips, truncations and extensions of valid tuples on the real decrypt/verify code, with a differential (2-tuple) oracle on the output buffer",
    "text": "Within the length bound every 1-bit neighbour and every prefix of every valid input is presented to every decrypt/verify "
            "entry point; rejection, zero length and key/plaintext-independence of the output buffer are checked on each.",
    "note": "Single-bit flips only (no 2-bit combinations); a forged tag colliding by chance has probability 2^-128 and would be a "
            "deterministic, reproducible false alarm - none occurs on the unchanged tree. Valid tuples come from the C01 references.",
}
VARIANTS = ["native", "generic"]


def cfgs(v):
    return ["", configs.NONE] if v == "native" else [""]


def prepare(tier):
    pass


def main(tier):
    ref = os.path.join(common.VERIF, "ref")
    common.simple_check("C02", tier, "exploration", ["c02.c", os.path.join(ref, "ref_hash.c"), os.path.join(ref, "ref_stream.c")],
                        VARIANTS, RULE, ["single-bit flips, not all multi-bit combinations", "sealed boxes use the real RNG for the ephemeral key"],
                        configs=cfgs,
                        extra_cov=lambda r: {"spec_equivalent_flips_skipped": r.stat("spec_equivalent_skipped"),
                                             "big_ad_items_skipped_unavailable": r.stat("big_ad_skipped")})
