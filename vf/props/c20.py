"""C20 memory exhaustion is fail-closed: enumeration of allocation-failure positions for every affected call."""
from vf import common, configs

RULE = ("27 calls {crypto_pwhash argon2id/argon2i, crypto_pwhash_argon2id/argon2i, 4 str producers, str_verify with correct and with wrong "
        "password (generic and algorithm-specific), 4 needs_rehash, scrypt raw at two costs, _ll, _str, _str_verify correct/wrong, "
        "_str_needs_rehash, sodium_malloc, sodium_allocarray}: a fault-free run in a forked child records the n allocation requests "
        "(malloc/calloc/posix_memalign/mmap, intercepted at link time); then EVERY single position i in 1..n is refused, EVERY suffix "
        "i.. is refused, EVERY pair i<j (thorough: also every triple), each in its own forked "
        "child, on the SSE and non-SSE scrypt paths. Oracle: non-zero/NULL return; verify never 0; needs_rehash -1 or its fault-free "
        "answer; output buffer holds neither the key nor a verifiable hash string; no live block, double free, foreign free or "
        "wrong munmap; no crash/hang; and the same call succeeds with the baseline result afterwards. Each script is one case.")

META = {
    "engine": "E-env", "level": "fault_enumeration",
    "technique": "exhaustive enumeration of allocation-failure positions (single, suffix, pairs) with link-time allocator interposition and live-block tracking, each execution of the real code in a forked child",
    "text": "The allocator is the only environment input of these calls; its answer sequence is owned by the harness and every failure "
            "script within the bound (1, 2 or (thorough) 3 refusals, or all from i on) is executed, so 'any single allocation fails' is decided "
            "for the listed calls and parameter sets rather than sampled.",
    "note": "Parameter sets are fixed small costs; allocation sequences may differ for other costs only in sizes, not in count. libc's own "
            "internal allocations are not intercepted (link-time --wrap of libsodium's references only).",
}


def cfgs(v):
    return ["", configs.NONE]


def prepare(tier):
    pass


def main(tier):
    common.simple_check("C20", tier, "fault_enumeration", ["c20.c"], ["native"], RULE,
                        ["fixed password/salt/cost parameter sets", "failures injected only into libsodium's own allocation requests"],
                        configs=cfgs, wraps=("malloc", "calloc", "free", "posix_memalign", "mmap", "munmap"),
                        extra_cov=lambda r: {"executions": r.stat("executions"), "allocation_requests_baseline": r.stat("allocation_requests"),
                                             "request_counts": sorted(set(i for i in r.infos if "allocation requests" in i))})
