"""C15 hex/Base64 codecs: small-scope exhaustive language check against an independent reference decoder."""
from vf import common

RULE = ("decoders: ALL texts of length 0..2 over the full 8-bit alphabet and length 3 over a 53-byte representative alphabet "
        "(quick) / the full 8-bit alphabet (thorough), x {4 Base64 variants, hex} x ignore in {NULL,\"\",\" \\n\",\":\"} x end "
        "pointer given/NULL x every capacity 0..needed+1; ALL texts of length 1..6 (thorough 7) over an 11-letter Base64 class "
        "alphabet {A,Q,E,B,/,_,=,space,':',NUL,0xE9} and a 12-letter hex class alphabet; every 1-mutation (insert/replace with "
        "14 letters at every position, delete, truncate, extra padding) of valid encodings of byte strings of length 0..70 "
        "(thorough 0..99) x 4 capacities. encoders: every byte string of length 0..2, length 3 (1/5 systematic stride in quick, "
        "all 2^24 in thorough), 6 patterns x length 0..70, x 3 maxlen values, remainder-zeroing and canaries; undersized maxlen -> "
        "misuse handler. Every tuple is generated once (distinct); non-trivial = non-empty text compared with the reference.")

RULE = RULE + " Length macro: sodium_base64_ENCODED_LEN with argument expressions of 15 operator-precedence forms, a, b in 0..47, 4 variants, against the length of the reference encoding of the expression's value."

META = {
    "engine": "E-shape", "level": "exploration",
    "technique": "small-scope exhaustive enumeration of decoder input texts (full 8-bit alphabet to length 3, class alphabet to length 6/7, all 1-mutations) on the real code vs independent reference decoder",
    "text": "The decoders are finite-state; all texts up to a length bound over an alphabet with one representative per decoder-relevant "
            "character class drive every transition sequence of that length. Return value, decoded bytes, length, end position and "
            "every byte outside the stated capacity are compared with a table-driven reference for every option combination.",
    "note": "Trusted: reference decoder/encoder in harness/c15.c (written from the documented contract). errno values and the values "
            "left in *bin_len / *end on failure are not judged (undocumented). Texts longer than the bound only via 1-mutations.",
}


def prepare(tier):
    pass


def main(tier):
    common.simple_check("C15", tier, "exploration", ["c15.c"], ["native"] if tier == "quick" else ["native", "generic"], RULE,
                        ["ignore-set membership is defined over the set's characters (an embedded NUL is not a member)",
                         "hex: an ignore character between the two digits of a pair splits the pair (rejected), as documented"],
                        extra_cov=lambda r: {"reference_accepts": r.stat("model_accepts"), "reference_rejects": r.stat("model_rejects")})
