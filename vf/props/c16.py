"""C16 padding: exhaustive (len, blocksize, capacity) shapes + crafted final blocks + guard pages."""
from vf import common

RULE = ("sodium_pad: every len 0..300 x blocksize 0..130 + {256,512,1024,4096,65536} x EVERY capacity 0..padded+1 "
        "(12 boundary capacities for the 5 large block sizes) x length pointer NULL/non-NULL, plus 7 huge block sizes "
        "(2^31..SIZE_MAX) that must be refused; each success is round-tripped through sodium_unpad. sodium_unpad: every final "
        "block over {00,80,01,ff} for block sizes 1..6 (4^bs) x 4 prefix lengths; every pair of positions (i<=j) x {00,80,01}^2 "
        "on 3 background fills for block sizes 1..130; every short length; final block placed directly after and directly "
        "before a PROT_NONE page with the marker at every position. thorough: len 0..700, block sizes 0..260. Loop tuples are "
        "generated once each (distinct); non-trivial = compared with the byte-array model.")

RULE = RULE + ' Claimed capacities far above the padded length (2^31, 2^32, 2^32+1, 2^63, SIZE_MAX/2, SIZE_MAX-4096, SIZE_MAX-address, SIZE_MAX-address+1, SIZE_MAX-1, SIZE_MAX) for every length and block size: must succeed exactly as with capacity == padded length.'

META = {
    "engine": "E-shape", "level": "exploration",
    "technique": "exhaustive bounded enumeration of (length, block size, capacity) and of final-block contents on the real code vs byte-array model",
    "text": "All (len, blocksize, capacity) triples within the bound and all final blocks over the decision-relevant byte classes are "
            "run through sodium_pad/sodium_unpad and compared with a byte-array model; out-of-block reads are made to fault with "
            "PROT_NONE pages.",
    "note": "Trusted: the model in harness/c16.c. Block sizes >= 2^31 only on the refusal path.",
}


def prepare(tier):
    pass


def main(tier):
    common.simple_check("C16", tier, "exploration", ["c16.c"], ["native", "generic"], RULE,
                        ["block sizes >= 2^31 are only exercised on the refusal path (no 2 GiB buffers)",
                         "the value left in *unpadded_buflen_p on failure is unspecified and not judged"])
