"""C10 results do not depend on CPU features / backend / build configuration; truthful feature flags (detector model-checked)."""
import os, time
from vf import build, common, configs

RULE = ("differential corpus: every deterministic public function family {all stream ciphers stream/xor/xor_ic (+unaligned), core functions, "
        "SHA-2, 3 HMACs, BLAKE2b (plain/keyed/salt+personal/multipart), SipHash x2, Poly1305 (one-shot, multipart, unaligned), kdf, HKDF, 9 "
        "AEAD/box constructions in combined/detached/extra forms incl. failing decrypts, X25519/box/kx, Ed25519 sign/verify/ph/convert, "
        "edwards25519+ristretto255 point and scalar ops, from_uniform/from_string, Argon2i/id at 9 memory sizes, scrypt, string verify, "
        "secretstream, utils, codecs, padding, verify_n, deterministic RNG} at 44 block-boundary lengths (0..4097) x AD lengths, plus the Poly1305 "
        "boundary family (homogeneous ff/fb/00-led block runs with r = 1..5, and the backward-built accumulator-target / special-key cases shared with C04); one process "
        "per configuration: native x {all, -avx512f, -avx2, -avx, -sse41, -ssse3, -sse3, none, -aesni/pclmul}, noasm x 4, noti x 3, generic "
        "(= reference); every family digest (return codes + defined outputs of every case) must equal the reference configuration's; on "
        "mismatch the first differing case is located by re-running both with per-case output. AES-256-GCM: is_available == pclmul&aesni&avx "
        "of the masked flags in every configuration, its family digest equal across all configurations where available, -1/ENOSYS and "
        "no write where not. detector: ALL 2^17 combinations of the CPUID/XCR0 bits it reads x max leaf {0,1,7} through the scripted-CPUID "
        "hook: every reported flag must be implied by the Intel SDM rule (reported => provided), XGETBV only with OSXSAVE; unscripted "
        "flags subset of /proc/cpuinfo and of the harness's own CPUID/XGETBV reading.")

RULE = RULE + ' Utils corpus: operands over the word alphabet {00.., ff.., 01 00.., ff.. 7f, one all-ones 8-byte word at each index} x 12 lengths 7..70 through compare/memcmp/add/sub/increment (amd64 assembly paths against the portable loops).'

META = {
    "engine": "E-shape", "level": "exploration",
    "technique": "exhaustive enumeration of CPU-feature configurations x build variants over a fixed corpus with digest comparison against the reference configuration; exhaustive model check of the feature detector over all 2^17 x 3 scripted CPUID/XCR0 answers",
    "text": "The configuration space (every prefix of the feature chain, times four build variants) is finite and walked completely; the "
            "detector is a pure function of 17 bits + max leaf under the hook and is checked on all of them against the SDM rule.",
    "note": "Corpus contents are fixed patterns (value-level equivalence per backend is C01/C03/C04/C05/C08's job, which compare every backend with "
            "references). ARM / 32-bit x86 / big-endian builds cannot execute here. Hooks: SODIUM_VERIF_CPU_DISABLE mask and scripted "
            "CPUID/XGETBV in runtime.c (guarded).",
}
VARIANTS = ["generic", "native", "noasm", "noti"]


def prepare(tier):
    pass


def digests(res):
    return {}


def main(tier):
    from vf.props import c04 as _c04
    _c04.poly_cases()
    t0 = time.time()
    ref = os.path.join(common.VERIF, "ref"); h = os.path.join(common.VERIF, "harness")
    srcs = [os.path.join(h, "c10.c"), os.path.join(ref, "ref_hash.c"), os.path.join(ref, "ref_stream.c")]
    res = common.Result()
    table = {}      # (variant, cfg) -> {family: digest}
    exes = {}
    for v in VARIANTS:
        exe = os.path.join(build.build(v), "h_c10"); exes[v] = exe
        build.link_harness(v, exe, srcs)
        for cfg in configs.full(v):
            env = {"VERIF_TIER": tier}
            if cfg: env["SODIUM_VERIF_CPU_DISABLE"] = cfg
            if v == "generic": env["VERIF_GCM_ABSENT_BUILD"] = "1"
            r = common.run([exe], env=env, label="c10-%s-%s" % (v, cfg or "all"), timeout=1800)
            fams = {}
            for line in r.infos:
                if line.startswith("DIGEST "):
                    _, name, dg, cases = line.split()
                    fams[name] = (dg, int(cases))
            r.infos = [i for i in r.infos if not i.startswith("DIGEST ")]
            table[(v, cfg)] = fams
            res.merge(r)
    refkey = ("generic", "")
    reff = table[refkey]
    compared = 0; gcm_digests = {}
    for (v, cfg), fams in table.items():
        for name, (dg, cases) in fams.items():
            if name == "aes256gcm":
                if cases: gcm_digests[(v, cfg)] = dg
                continue
            compared += 1
            if name not in reff or reff[name] != (dg, cases):
                # locate the first differing case
                import subprocess
                def dump(var, c):
                    env = dict(os.environ); env["VERIF_C10_DUMP"] = name
                    if c: env["SODIUM_VERIF_CPU_DISABLE"] = c
                    else: env.pop("SODIUM_VERIF_CPU_DISABLE", None)
                    return [l for l in subprocess.run([exes[var]], env=env, capture_output=True, text=True).stdout.splitlines() if l.startswith("CASE ")]
                a, b = dump(v, cfg), dump("generic", "")
                first = next((x for x, y in zip(a, b) if x != y), "(length differs)")
                res.fails.append(("backend-dependence/%s[%s]/family=%s/%s" % (v, "-" + cfg if cfg else "all", name, first.split()[2] if first.startswith("CASE") else "?"),
                                  "differs from the reference configuration generic[all]: %s" % first,
                                  {"cmd": [exes[v]], "env": {"SODIUM_VERIF_CPU_DISABLE": cfg, "VERIF_C10_DUMP": name}}))
    if len(set(gcm_digests.values())) > 1:
        res.fails.append(("backend-dependence/aes256gcm", "AES-256-GCM results differ between configurations: %r" % gcm_digests, {"cmd": [exes["native"]], "env": {}}))
    # detector
    exe = os.path.join(build.build("native"), "h_c10cpuid")
    build.link_harness("native", exe, [os.path.join(h, "c10_cpuid.c")])
    rdet = common.run([exe], label="c10-cpuid", timeout=1800)
    res.merge(rdet)
    res.samples = ["corpus family 'stream' on native[-avx512f,avx2] (ChaCha20 SSSE3, Salsa20 xmm6 asm) vs generic: digest over %d cases equal" % reff["stream"][1]] + rdet.samples
    cov = {"evaluations": res.stat("evaluations"), "distinct_nontrivial": res.stat("nontrivial"), "rule": RULE, "exhaustive": True,
           "configurations": ["%s[%s]" % (v, "-" + c if c else "all") for v, c in table], "family_digests_compared": compared,
           "reference_configuration": "generic[all]", "families": {k: v[1] for k, v in reff.items()},
           "aes256gcm_available_in": ["%s[%s]" % (v, "-" + c if c else "all") for v, c in gcm_digests],
           "detector_evaluations": rdet.stat("evaluations"), "detector_flags_reported": rdet.stat("flags_reported"),
           "flags_by_configuration": sorted(set(res.infos))[:40]}
    common.finish("C10", tier, "exploration", res, cov,
                  ["fixed-content corpus", "x86-64 only; the detector is checked through the guarded scripted-CPUID hook"], t0)
