"""C12 no out-of-bounds access / UB for in-contract calls: API table x lengths x alignments on ASan+UBSan builds, guard pages, size limits."""
import os
from vf import common, configs

RULE = ("API table (~150 entry points with a variable-length or pointer argument: 7 stream ciphers x stream/xor/xor_ic, 6 AEADs x {encrypt, "
        "decrypt valid/corrupt/short, detached, verify-only, in place}, secretbox x2, box x2 (+NaCl forms, seal x2), SHA-2, 4 auth (+multipart "
        "with every key length), generichash (outlen/keylen/salt/personal, multipart), shorthash x2, onetimeauth (+multipart), HKDF, kdf, sign "
        "(combined/open valid, corrupt, short/detached/multipart), secretstream push/pull valid/corrupt/short, utils, hex and 4 Base64 "
        "codecs (exact, short capacity, short text), pad/unpad, RNG, from_string with context = length, pwhash/scrypt with pwlen/outlen; all "
        "fixed-size curve/scalar/kx/keygen APIs): EVERY length 0..300 (thorough 0..1100) + 26 boundary lengths to 1025 + {4095, 4097, 16385, 65537}, AD length "
        "3L mod 41; alignment offsets: all 16 at the boundary lengths (thorough: at every length <= 130), two elsewhere; every argument in an "
        "exact-size heap block (pass 1: ASan red zone starts at the first byte past it) and ending at a PROT_NONE page (pass 2). attacker "
        "text: every prefix and every 1-mutation (10 letters: replace/insert/delete) of Argon2id, Argon2i and $7$ hash strings and 15 "
        "hand-written degenerate strings, NUL as the last byte of the allocation, through every str_verify/needs_rehash entry point; all "
        "hex/Base64 texts of length <= 3 over a 9-class alphabet in exact blocks. size limits: 11 IETF-ChaCha20/secretstream/AES-GCM "
        "entry points probed at MAX-1, MAX, MAX+1, MAX+2, MAX+64, 2*MAX, 2^47 with a one-page buffer followed by PROT_NONE: beyond MAX "
        "must be refused (misuse handler / error) before any access; AES-256-GCM (which wipes the output before returning -1) on a "
        "64 GiB virtual buffer aliased onto 8 MiB (native build). builds: clang ASan+UBSan (alignment group excluded, see DESIGN) on "
        "native x {all, -avx2, none} and the generic build. Oracle: no sanitizer report, no fault."
        " Default random source without getrandom(): every script of <= 3 short / interrupted read() answers x 10 request sizes on the /dev/urandom fallback (ASan build, canaries)."
        " randombytes_internal_implementation (installed before sodium_init, one forked ASan child per case): every operation sequence of depth <= 3 "
        "(thorough 4) over {random, uniform(10), uniform(2^31+1), buf(k) k=0..9,16,17,64,600, stir} followed by 700 random() calls (> 5 pool refills): "
        "exit 0, no signal, no hang, never the same value 64 times in a row.")

META = {
    "engine": "E-shape", "level": "exploration",
    "technique": "exhaustive enumeration of (API, argument lengths, alignment offsets, attacker-text mutations, backend configuration) on sanitizer-instrumented real code with exact-size and guard-page buffers; the sanitizer and the MMU are the oracle",
    "text": "Within the stated length bound every entry point is driven at every length and alignment with buffers whose bounds are "
            "enforced to the byte, so any out-of-bounds read or write or detected undefined behaviour on those inputs aborts the run.",
    "note": "'No UB' means no report from clang-14 ASan + UBSan (all groups except -fsanitize=alignment: misaligned 32-bit accesses in the "
            "x86-only salsa20 xmm6int backend are neither memory-unsafe nor arithmetic and are listed as an observation in DESIGN.md). "
            "Uninitialised reads are not detected (no MSan runtime for libc). Limits of the form SIZE_MAX-k cannot be exceeded with real buffers.",
}


def cfgs(v):
    return ["", configs.CHAIN[2], configs.NONE] if v == "asan" else [""]


def prepare(tier):
    pass


def main(tier):
    os.environ.setdefault("ASAN_OPTIONS", "detect_leaks=0:abort_on_error=0:handle_segv=0:handle_abort=0:allocator_may_return_null=1")
    os.environ.setdefault("UBSAN_OPTIONS", "print_stacktrace=1:halt_on_error=1")
    from vf import build
    exe = os.path.join(build.build("native"), "h_c12limits")
    build.link_harness("native", exe, [os.path.join(common.VERIF, "harness", "c12_limits.c")])
    lim = common.run([exe], env={"VERIF_TIER": tier}, label="c12-limits", timeout=3600)

    exe2 = os.path.join(build.build("asan"), "h_c12sysrandom")
    build.link_harness("asan", exe2, [os.path.join(common.VERIF, "harness", "c12_sysrandom.c")], wraps=("getrandom", "read"))
    sysr = common.run([exe2], env={"VERIF_TIER": tier}, label="c12-sysrandom-fallback", timeout=1800)

    exe3 = os.path.join(build.build("asan"), "h_c12internal")
    build.link_harness("asan", exe3, [os.path.join(common.VERIF, "harness", "c12_internal.c")])
    intr = common.run([exe3], env={"VERIF_TIER": tier}, label="c12-internal-random-sequences", timeout=3600)

    def extra(r):
        r.merge(lim); r.merge(sysr); r.merge(intr)
        return {"size_limit_probes": lim.stat("evaluations"), "sysrandom_fallback_read_scripts": sysr.stat("evaluations"),
                "internal_random_op_sequences": intr.stat("evaluations")}
    common.simple_check("C12", tier, "exploration", ["c12.c"], ["asan", "asan_generic"], RULE,
                        ["sanitizer coverage limits as stated in the level note", "contents from the pattern alphabet",
                         "decrypt-direction entry points authenticate (read) their whole input before refusing: their over-limit probes only judge an outright success"],
                        configs=cfgs, timeout=3 * 3600, extra_cov=extra)
