"""C09 secretstream: explicit-state exploration of all operation sequences to a depth bound + length sweep."""
import os
from vf import common

RULE = ("state graph: roots = fresh stream (counter 1) and streams with both counters preset to 2^32-1, 2^32-2, 2^32-3 and to 0xfe, 0xfffe, 0xfffffe, 0x7ffffffe (just before each counter byte carries); state-changing "
        "transitions = push(tag in {MESSAGE,PUSH,REKEY,FINAL}, shape in {(mlen 0, no ad),(mlen 17, ad 5)}), explicit rekey of pusher, "
        "explicit rekey of puller, pull(genuine next chunk); at EVERY reached node additionally every rejecting pull variant is "
        "tried as a self-loop: next chunk with AD changed/removed/truncated/added, truncated by 1 / to 16 / to 0 bytes, extended, bit "
        "flips in the tag byte (2), first ciphertext byte and last MAC byte, skip-ahead by 1 and 2, replay of the last accepted and "
        "of the first chunk, next chunk while desynchronised, foreign chunk (other header / other key) in both shapes. All "
        "sequences of state-changing transitions up to the depth bound (quick 6, thorough 7) are explored. Oracle: ideal-stream "
        "event logs (pull succeeds iff puller_log++[c] is a prefix of pusher_log with the pushed AD), independent model of the "
        "key/nonce evolution, every chunk equal to the reference construction, rejected pull leaves state bit-identical, mlen 0, "
        "tag 0xff, output untouched. Length sweep: mlen 0..300 x adlen 0..40 x tags.")

RULE = RULE + ' Tag bytes: every tag byte 0..255 as first chunk x 10 second tag bytes x a plain third chunk, from a fresh state and from counter 2^32-2: pusher against the model after every push (rekey iff bit TAG_REKEY or counter wrap), puller recovers all three and ends synchronised.'

META = {
    "engine": "E-graph", "level": "model_checking",
    "technique": "explicit-state exhaustive exploration of all push/pull/rekey/tamper operation sequences to a depth bound on the real code, against an ideal-stream model and a reference chunk construction",
    "text": "The reachable states of (pusher, puller, chunks in flight) under the full operation alphabet are enumerated to the depth bound "
            "from four initial counters (so the 32-bit wrap rekey happens within the bound); every transition executes the real "
            "implementation and is judged by the abstract stream model; rejected pulls are self-loops checked for state identity.",
    "note": "Two chunk shapes in the graph (all lengths are covered by the separate sweep); depth bound stated in the evidence; header "
            "bytes come from a scripted random source. Reference: ref/ref_stream.c (ref_secretstream_chunk, ChaCha20-IETF, HChaCha20).",
}


def prepare(tier):
    pass


def main(tier):
    ref = os.path.join(common.VERIF, "ref")
    os.environ["VERIF_C09_DEPTH"] = os.environ.get("VERIF_C09_DEPTH", "6" if tier == "quick" else "7")
    common.simple_check("C09", tier, "model_checking", ["c09.c", os.path.join(ref, "ref_stream.c")], ["native", "generic"], RULE,
                        ["two chunk shapes inside the graph", "depth bound on state-changing transitions as reported"],
                        stat_max=("depth_bound",),
                        extra_cov=lambda r: {"states": r.stat("states"), "transitions": r.stat("transitions"),
                                             "traces_validated_against_impl": r.stat("states"),
                                             "depth_bound_completed": r.stat("depth_bound"),
                                             "rejected_pulls_checked": r.stat("rejected_pulls_checked"),
                                             "accepted_pulls": r.stat("accepted_pulls")})
