"""C01 AEAD / secretbox / box / seal equal the published constructions, round-trip, and all call forms agree."""
import hashlib
import os
from vf import common, configs

RULE = ("constructions {chacha20poly1305, -ietf, xchacha20poly1305-ietf, aes256gcm, aegis128l, aegis256, secretbox xsalsa/xchacha, box "
        "xsalsa/xchacha, seal xsalsa/xchacha} x call forms {combined, detached, NULL length pointers, afternm/beforenm, NaCl zero-padded} "
        "x EVERY mlen 0..640 (thorough 0..2304) + {1023..1025, 2047..2049, 4095..4097 (+65535..65537, 2^20+-1 thorough)} x adlen "
        "{0,1,15,16,17,31,32,33,63,64,65,127,128,129} (all 14 on pattern R1, a third on the others) and EVERY adlen 0..288 (thorough 0..480) "
        "at 16 boundary message lengths x patterns {C,R1,F} (thorough all 6) x backend configuration; bit-length carry: every AEAD with "
        "(adlen 2^29+3, mlen 5) combined + detached (thorough also (mlen 2^29+3, adlen 3) detached, decrypted in place), periodic R1 contents. "
        "Oracle: ciphertext and tag equal "
        "the C reference; decrypt returns message and length; canaries. Box keys from an X25519 table computed by a Python RFC 7748 "
        "ladder; sealed boxes under a scripted RNG. Every tuple run once; all non-trivial (compared with the reference).")

META = {
    "engine": "E-shape", "level": "exploration",
    "technique": "exhaustive bounded enumeration of (construction, call form, mlen, adlen, backend configuration) on the real code vs independent reference constructions",
    "text": "Every message length across all vector strides (224-byte GCM ladder, 512-byte ChaCha, 64-byte AEGIS) with AD lengths across the "
            "MAC block boundaries is encrypted through every call form on every selectable backend and compared byte-for-byte with naive "
            "references validated against RFC 8439, the XChaCha draft, SP 800-38D (and OpenSSL), the AEGIS draft and NaCl vectors.",
    "note": "Trusted: ref/ref_stream.c, ref/ref_hash.c, ref/gen_box_table.py. Contents from the pattern alphabet; box key agreement for "
            "arbitrary keys is C05's job (8 fixed key pairs here).",
}
VARIANTS = ["native", "noasm", "noti", "generic"]


def prepare(tier):
    pass


def main(tier):
    ref = os.path.join(common.VERIF, "ref")
    # reference (tag, ciphertext digest) of the bit-length-carry cases: a function of (seed, construction, shape) only, computed by the first
    # harness process that needs it and kept under a name bound to the content of the reference and harness sources
    h = hashlib.sha256()
    for f in (os.path.join(ref, "ref_stream.c"), os.path.join(ref, "ref_hash.c"), os.path.join(common.VERIF, "harness", "c01.c"),
              os.path.join(common.VERIF, "harness", "common.h"), os.path.join(common.VERIF, "harness", "sym_table.h")):
        h.update(open(f, "rb").read())
    os.makedirs(os.path.join(common.VERIF, "build", "ref"), exist_ok=True)
    os.environ["VERIF_C01_BIGREF"] = os.path.join(common.VERIF, "build", "ref", "c01_big-" + h.hexdigest()[:16])
    common.simple_check("C01", tier, "exploration", ["c01.c", os.path.join(ref, "ref_hash.c"), os.path.join(ref, "ref_stream.c")],
                        VARIANTS, RULE, ["contents limited to the pattern alphabet", "8 fixed X25519 key pairs for box/seal"],
                        configs=configs.aead,
                        extra_cov=lambda r: {"backend_flags": sorted(set(i for i in r.infos if i.startswith("features")))})
