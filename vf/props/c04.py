"""C04 hashes/MACs/KDFs: values at every length, crafted Poly1305, and all chunkings via an explicit state graph."""
import os
from vf import common, configs

RULE = ("values: SHA-256/512, 3 HMACs (+crypto_auth), BLAKE2b (unkeyed-32, keyed-64), SipHash-2-4 64/128, Poly1305 at EVERY message length "
        "0..1100 (thorough 0..4200) x 6 patterns, plus isolated large lengths {4095..4097, 8191..8193, 16383..16385, 65535..65537, 131071..131073, "
        "2^20-1..2^20+1 (thorough 2^22+-1; thorough also 2^29+1 and 2^32+1 bytes - bit and byte counters passing 2^32 - on a virtual buffer; 2^32+13 bytes through SipHash-2-4 64/128 in both tiers and through unkeyed BLAKE2b, crypto_auth, HMAC-SHA-512 in the thorough tier, so that every one-shot function sees > 4 GiB)} one-shot and two-chunk; HMAC every key length 0..200 x 16 message lengths; BLAKE2b every outlen 1..64 x keylen "
        "{0,1,16,32,63,64} x salt/personal {none,salt,personal,both} x lengths 0..140 (+stride to 300; thorough every 0..520); kdf_derive every "
        "subkey_len 16..64 x 7 ids x 6 patterns; HKDF extract salt 0..130 x ikm 0..260; HKDF expand every out_len 0..8160/16320 "
        "(quick: every length to 700/1400 then the 5 lengths around every block boundary) x 3 context lengths; out-of-range lengths refused; "
        "verify functions: correct tag accepted, each single-bit variant rejected. Crafted Poly1305: r in {0..5, clamp-max, 2^123} x s in "
        "{0, 2^128-1, 5} x every sequence of 1..4 blocks over 7 crafted blocks x partial final block of every length 0..15 x fill {00,ff}, and "
        "homogeneous runs of 0..40 blocks; Poly1305 cases built backwards with big integers (ref/gen_poly_cases.py): for 8 keys x ~790 target values "
        "of the accumulator before the final reduction (every boundary combination of the 44/44/42- and 26-bit limb cuts, 0..23, p-24..p-1) x "
        "prefixes of 0/1/4/7/12 blocks a final block is solved so the accumulator is exactly the target, and every clamped r whose r^2 or r^4 "
        "mod 2^130-5 is < 2^26 or within 2^26 of the modulus (exhaustive search, harness/poly_keys.h) x every length 0..99 (+7). Chunking: explicit state graph per streaming API (node = canonical state image at offset t, "
        "edges = update(M[t:u]) for all t<=u incl. empty and NULL updates, final() checked at every node) = ALL chunkings of an "
        "N-byte message (N = 3 blocks + 9); plus direct replays of every <=2-cut chunking on fresh states. One process per backend cfg.")

META = {
    "engine": "E-graph", "level": "model_checking",
    "technique": "explicit-state exploration of the real streaming-state graph (all chunkings) + exhaustive bounded enumeration of lengths/keys on the real code vs reference model",
    "text": "Chunk-invariance is decided on the implementation's own state graph: every node (offset, state image) is expanded by every "
            "possible next update on the real code, states reached by different paths are merged only after their differing bytes are "
            "poisoned (so a byte that matters would corrupt a digest), and final() is compared with the reference at every node - this "
            "covers all 2^(N-1) chunkings, not a sample. Values are compared with references at every length on every backend.",
    "note": "Trusted: ref/ref_hash.c and ref/ref_stream.c (self-tested on RFC/NIST vectors and cross-checked with hashlib/OpenSSL in setup). "
            "Message contents from the pattern alphabet; chunk graph on one message per API instance.",
}
VARIANTS = ["native", "noti", "generic"]


def prepare(tier):
    pass


def poly_cases():
    """(re)generate the backward-built Poly1305 cases; cheap (seconds), depends on VERIF_SEED and harness/poly_keys.h"""
    import subprocess, sys
    out = os.path.join(common.VERIF, "build", "ref", "poly_cases-%s.bin" % (os.environ.get("VERIF_SEED", "1") or "1"))
    os.makedirs(os.path.dirname(out), exist_ok=True)
    gen = os.path.join(common.VERIF, "ref", "gen_poly_cases.py"); keys = os.path.join(common.VERIF, "harness", "poly_keys.h")
    if not os.path.exists(out) or any(os.path.getmtime(s) > os.path.getmtime(out) for s in (gen, keys)):
        subprocess.check_call([sys.executable, gen, out + ".tmp"], stdout=subprocess.DEVNULL); os.replace(out + ".tmp", out)
    os.environ["VERIF_POLY_CASES"] = out
    return out


def main(tier):
    ref = os.path.join(common.VERIF, "ref")
    poly_cases()
    common.simple_check("C04", tier, "model_checking", ["c04.c", os.path.join(ref, "ref_hash.c"), os.path.join(ref, "ref_stream.c")],
                        VARIANTS, RULE,
                        ["contents limited to the pattern alphabet and the crafted Poly1305 families",
                         "path-dependent state bytes are merged after poisoning; soundness argument in DESIGN.md (C04)"],
                        configs=configs.hashes,
                        extra_cov=lambda r: {"states": r.stat("states"), "transitions": r.stat("transitions"),
                                             "traces_validated_against_impl": r.stat("replays"),
                                             "poly1305_cases_built_backwards": r.stat("poly_cases_built_backwards"),
                                             "path_dependent_state_bytes_poisoned": r.stat("masked_bytes"),
                                             "backend_flags": sorted(set(r.infos))})
