"""C18 random generation under a scripted source: all draw scripts around the rejection threshold; generators replayed/perturbed."""
import os
from vf import common

RULE = ("randombytes_uniform: 120 upper bounds {0..17, 2^k, 2^k+-1 (k=2..31), 2^31+-1, 2^32-1, 2^32-2, 10, 100, 1000, 0xAAAAAAAA, "
        "0x55555555, 3*2^30, ..., 2 seeded} x ALL scripts of 32-bit draws over the alphabet {0,1,min-2,min-1,min,min+1,ub-1,ub,ub+1,2^31,"
        "2^32-2,2^32-1} (min = 2^32 mod ub) with at most 4 (thorough 6) rejected draws before the accepted one; oracle: result = first "
        "draw >= min, mod ub; draws consumed = its index+1; 0 and no draw for ub < 2. randombytes_buf_deterministic: every length "
        "0..1100 (thorough 0..2304) x 6 seeds = reference ChaCha20-IETF/'LibsodiumDRG'; sizes > 2^38 -> misuse handler. Generators: "
        "29 *_keygen, box/kx/sign keypairs (both box ciphers), secretstream init_push, box_seal x2, 5 pwhash_str flavours, "
        "core_ed25519/ristretto255 random and scalar_random (scripted candidates L, 0, >L, L-1|topbits), randombytes_buf/randombytes: "
        "x 3 source scripts: output is the documented function of exactly the served bytes, bytes requested >= secret size, replay "
        "reproduces it, and with each served byte flipped in turn at least secret-size many of them change the output; the OS generator (getrandom/getentropy/arc4random, wrapped "
        "at link time) is never called. Each script/perturbation is one distinct case. Default source (sysrandom) with getrandom() "
        "unavailable: every script of <= 3 short / EINTR / EAGAIN read() answers on the /dev/urandom fallback x {randombytes_buf of 10 "
        "sizes, randombytes_random, crypto_secretbox_keygen}: output = exactly the served counter bytes in order, every pre-filled byte overwritten.")

META = {
    "engine": "E-env", "level": "exploration",
    "technique": "exhaustive enumeration of environment answers (scripted random-source draws) with a deviation bound on the real code; replay and per-byte perturbation of every generating API",
    "text": "The random source is the only nondeterminism and is owned by the harness: every sequence of draws over a threshold-centred "
            "alphabet with up to 3/4 rejections is executed for every bound, and every generator is run under replayed and single-byte-"
            "perturbed streams, which decides 'derived only from, and from all of, the requested bytes' within the scripts.",
    "note": "Draw values outside the threshold alphabet are not enumerated (the decision r < min only depends on the order relation to "
            "min, which the alphabet straddles). Key pairs are compared with the library's own seed_keypair/scalarmult_base (C05/C06 tie "
            "those to the RFCs).",
}


def prepare(tier):
    pass


def main(tier):
    from vf import build
    ref = os.path.join(common.VERIF, "ref")
    # value oracle for the DEFAULT source's fd fallback (harness shared with C12, which runs it under ASan): native build, read()/getrandom() scripted
    exe = os.path.join(build.build("native"), "h_c18sysrandom")
    build.link_harness("native", exe, [os.path.join(common.VERIF, "harness", "c12_sysrandom.c")], wraps=("getrandom", "read"))
    sysr = common.run([exe], env={"VERIF_TIER": tier}, label="c18-sysrandom-fallback", timeout=1800)

    def extra(r):
        r.merge(sysr)
        return {"uniform_scripts": r.stat("uniform_scripts"), "generator_perturbations": r.stat("perturbations"),
                "sysrandom_fallback_read_scripts": sysr.stat("evaluations")}
    common.simple_check("C18", tier, "exploration", ["c18.c", os.path.join(ref, "ref_stream.c")], ["native"], RULE,
                        ["draw alphabet centred on the rejection threshold", "custom source without its own uniform()"],
                        wraps=("getrandom", "getentropy", "arc4random", "arc4random_buf"),
                        extra_cov=extra)
