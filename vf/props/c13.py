"""C13 overlapping buffers: every length x every offset -80..+80 (and exact aliasing) against the disjoint-buffer result."""
import os
from vf import common, configs

RULE = ("(a) exact aliasing c == m: 8 stream xor functions + 2 xor_ic, and every construction of the AEAD table in combined, detached and every "
        "extra call form (encrypt and decrypt), EVERY length 0..1200 and isolated large lengths {4095..4097, 8193, 16385, 65535, 65537, 131073, 2^20+1}; (b) arbitrary overlap: secretbox and box (both ciphers) easy, "
        "open_easy, detached, open_detached and their afternm forms, crypto_sign, crypto_sign_open: EVERY length 0..330 (thorough "
        "0..1200) x EVERY offset (out - in) in -80..+80. Oracle: equals the output of the same call on disjoint buffers (which C01 "
        "ties to the reference). One process per backend configuration. Each (api, len, offset, cfg) is run once; all non-trivial.")

META = {
    "engine": "E-shape", "level": "exploration",
    "technique": "exhaustive enumeration of (API, length, overlap offset, backend configuration) on the real code, differential against the disjoint-buffer run",
    "text": "All lengths up to past 2 vector strides at every relative offset in [-80,+80] drive every overlap-tolerant entry point on every "
            "stream/AEAD backend; the overlapping run must reproduce the disjoint run byte for byte.",
    "note": "Offsets limited to +-80 as in the property; NaCl zero-padded forms only with c == m (their contract).",
}
VARIANTS = ["native", "noasm", "generic"]


def prepare(tier):
    pass


def main(tier):
    ref = os.path.join(common.VERIF, "ref")
    common.simple_check("C13", tier, "exploration", ["c13.c", os.path.join(ref, "ref_hash.c"), os.path.join(ref, "ref_stream.c")],
                        VARIANTS, RULE, ["one content pattern per length"], configs=configs.aead)
