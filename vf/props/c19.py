"""C19 thread safety: exhaustive preemption-bounded schedule exploration on the real code + free-running TSan complement."""
import os, time
from vf import build, common

WRAPS = ("pthread_mutex_lock", "pthread_mutex_unlock", "memcpy", "memmove", "memset", "getrandom")
RULE = ("E-sched: libsodium compiled with -fsanitize=thread instrumentation but linked against /verif/sched/rt.c instead of the TSan runtime; "
        "every load/store of the executable's .data/.bss, every pthread_mutex_lock/unlock and every memcpy/memset/getrandom touching "
        ".data/.bss is a scheduling point (loads of bytes that no store ever touches in a sequential profiling run of init + every operation are "
        "skipped - a load can only conflict with a store; stores outside that profile are counted and must be 0); real pthreads serialised by futex hand-off; each execution in a forked child; stateless DFS "
        "over 'which enabled thread runs next' with replay prefixes, default = keep running. Harness A: N threads each r = sodium_init(); then "
        "10 observations (feature flags + GCM availability, RNG name, guarded allocation incl. canary, generichash, onetimeauth, "
        "chacha20, salsa20, scalarmult_base, aegis128l, randombytes_buf): N=2 with <= 2 preemptions and N=3 with <= 1 (thorough: N=2 "
        "<= 3, N=3 <= 2, N=4 <= 1); invariants: every return in {0,1}, exactly one 0, every observation equals the sequentially initialised "
        "library's, no abort/assert, no deadlock, no horizon. Harness B: ordered pairs of 83 operations (every API family in both directions: encrypt and decrypt/open/verify, "
        "multipart, codecs, padding, curve/scalar/hash-to-curve, password hashing and strings, default RNG, guarded allocation, mprotect, "
        "mlock, set_misuse_handler, sodium_init again) in two threads after initialisation: quick = 'core' pairs (every operation with "
        "itself, with two neighbours and with allocation / RNG / init / misuse-handler in both orders, ~780 pairs) with <= 1 preemption; "
        "thorough = all 65x65 pairs with <= 1 and the core pairs with <= 2: results equal sequential results. Data race = two co-enabled threads whose "
        "pending accesses overlap with at least one write, checked at every choice point of every explored schedule. Complement "
        "(sampled, reported separately): same bodies free-running under the real ThreadSanitizer runtime with 2/4/8/16 threads."
        " Non-default backends: every operation against itself under the CPU-feature masks -avx512f, -avx2, -sse41, none (thorough: every mask of the chain, also -aesni/pclmul), <= 1 preemption.")

META = {
    "engine": "E-sched", "level": "model_checking",
    "technique": "stateless model checking of the real multithreaded code: exhaustive preemption-bounded enumeration of thread schedules under a controlled serialising scheduler hooked at shared-memory accesses and mutex operations, with co-enabledness race detection; free-running ThreadSanitizer pass as a complement",
    "text": "Every interleaving of the hooked shared accesses with at most k preemptions is executed on the real sodium_init and API code "
            "and judged (exactly-once, no partially initialised library visible after return, sequential results, no race/deadlock/abort). "
            "The bound completed is reported; nothing is sampled inside it.",
    "note": "Sequentially consistent interleavings only; assembly backends and libc internals are opaque to the access hooks (their shared "
            "reads are the dispatch pointers, which are hooked) - the free-running TSan complement covers those in the sampled sense only. "
            "Scope per the property: default sysrandom generator.",
}


def exes():
    d = build.build("tsan")
    return os.path.join(d, "h_c19"), os.path.join(d, "h_c19free")


def prepare(tier):
    e1, e2 = exes()
    h = os.path.join(common.VERIF, "harness")
    build.link_harness("tsan", e1, [os.path.join(h, "c19.c"), os.path.join(common.VERIF, "sched", "rt.c")], no_san=True, cc="clang", wraps=WRAPS)
    build.link_harness("tsan", e2, [os.path.join(h, "c19_free.c")], cc="clang", opt=("-O1",))


def main(tier):
    t0 = time.time()
    prepare(tier)
    e1, e2 = exes()
    res = common.Result()
    runs = [["init", "2", "2"], ["init", "3", "1"], ["pairs", "1", "core"]] if tier == "quick" else \
           [["init", "2", "3"], ["init", "3", "2"], ["init", "4", "1"], ["pairs", "1", "all"], ["pairs", "2", "core"]]
    bounds = []
    for a in runs:
        r = common.run([e1] + a, label="c19-" + "-".join(a), timeout=6 * 3600)
        bounds.append("%s: %d executions" % (" ".join(a), r.stat("executions")))
        res.merge(r)
    # the non-default backends (selected when CPU features are masked through the start-up hook) have their own code and their own scratch
    # storage: every operation against itself under each masked configuration
    from vf import configs as _cfg
    for cfg in (_cfg.CHAIN[1], _cfg.CHAIN[2], _cfg.CHAIN[4], _cfg.NONE) if tier == "quick" else tuple(_cfg.CHAIN[1:]) + (_cfg.NONE, _cfg.NOAES):
        a = ["pairs", "1", "self"]
        r = common.run([e1] + a, env={"SODIUM_VERIF_CPU_DISABLE": cfg}, label="c19-self-" + cfg.replace(",", "_"), timeout=6 * 3600)
        bounds.append("%s [-%s]: %d executions" % (" ".join(a), cfg, r.stat("executions")))
        for f in r.fails: f[2].setdefault("env", {})["SODIUM_VERIF_CPU_DISABLE"] = cfg
        r.fails = [(k + "/cpu-mask=" + cfg, d, o) for k, d, o in r.fails]
        res.merge(r)
    comp = common.Result()
    for nt, reps in ((2, 10), (4, 10), (8, 10), (16, 10)) if tier == "quick" else ((2, 50), (4, 50), (8, 50), (16, 50)):
        comp.merge(common.run([e2, str(nt), str(reps)], env={"TSAN_OPTIONS": "halt_on_error=1 exitcode=66 report_signal_unsafe=0"},
                              label="c19-free-%d" % nt, timeout=3600))
    res.fails += comp.fails
    outcomes = sorted(set(i for i in res.infos if i.startswith("outcome")))
    cov = {"states": res.stat("choice_points"), "transitions": res.stat("choice_points"),
           "traces_validated_against_impl": res.stat("executions"),
           "evaluations": res.stat("executions"), "distinct_nontrivial": res.stat("executions"),
           "schedules_executed": res.stat("executions"), "choice_points_visited": res.stat("choice_points"),
           "max_choice_points_in_one_schedule": res.stat("max_points"),
           "bounds_completed": bounds, "distinct_init_outcomes": outcomes, "races_found": res.stat("races"), "stores_outside_written_location_profile": res.stat("profile_misses"),
           "complement_runs": comp.stat("complement_runs"), "rule": RULE, "exhaustive": True}
    common.finish("C19", tier, "model_checking", res, cov,
                  ["sequentially consistent interleavings at hooked accesses only",
                   "stateless exploration: 'states' counts choice points visited, every schedule is a distinct execution of the implementation"], t0)
