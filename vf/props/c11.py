"""C11 secret independence of branches and addresses: exhaustive 2-safety pair enumeration over a secret alphabet on traced builds."""
import os
from vf import common, configs

RULE = ("55 operations {crypto_verify_16/32/64, sodium_memcmp/compare/is_zero (len 0..70), bin2hex, bin2base64 x4, sodium_unpad (every pad "
        "position), sodium_pad (every unpadded length in a block), X25519 scalarmult/base/box_beforenm, sign seed_keypair/detached/sk_to_curve25519, "
        "scalarmult_ed25519 (+noclamp, base, base_noclamp), scalarmult_ristretto255 (+base), 7 scalar operations, ChaCha20/IETF/XChaCha20/"
        "Salsa20/XSalsa20 xor, Poly1305 (+verify), HMAC-SHA-512-256/256 (+verify), SHA-256/512, keyed BLAKE2b, SipHash, kdf, ChaCha20-"
        "Poly1305 / XChaCha20-Poly1305 encrypt, forged decrypt, secretbox, secretstream push, AES-256-GCM and AEGIS-128L/256 (AES-NI)} x "
        "public lengths {0,1,15,16,17,31,32,33,63,64,65,100,127,128,129,130} (thorough every 0..130 / 0..70) x secret alphabet: bases "
        "{all-zero, all-ff, R1, R2} (comparison helpers: also equal pairs) and for each base EVERY single-bit flip of the secret (key and "
        "message / both operands / scalar / seed), EVERY byte set to 00, ff, 80, and one unrelated pattern; each member's hash of the "
        "full sequence of CFG edges and load/store addresses must equal its base's (same process, same buffers, after a warm-up call). "
        "Secrets that change a public status (zero scalar for the noclamp/ristretto multiplications) are left out. Builds: clang "
        "SanitizerCoverage trace-pc/loads/stores on native x {all, -avx2, -avx (ref10 X25519), none}, no-asm and generic.")

META = {
    "engine": "E-trace", "level": "exploration",
    "technique": "exhaustive enumeration of secret pairs (2-safety) with full branch/address trace comparison on compiler-instrumented real code",
    "text": "Constant-time is a 2-safety property; for every listed operation and public shape, the complete single-bit and single-byte "
            "neighbourhood of four base secrets is executed and each trace (every CFG edge and every load/store address) is compared "
            "with the base's, which catches every leak that is a function of one secret bit or byte (table index, early exit, if(bit)).",
    "note": "Bounded by the secret alphabet: this is NOT the taint analysis over all values the property's quantifier mentions (a different "
            "family). Observes clang -O2 IR-level accesses: selects turned into branches by another compiler's back end, the two .S "
            "backends (sandy2x, salsa20 xmm6: not instrumentable; their portable counterparts are traced instead) and micro-"
            "architectural effects are out of scope. memcpy/memset inside libc are not traced.",
}


def cfgs(v):
    if v == "trace":
        return ["", configs.CHAIN[2], configs.CHAIN[3], configs.NONE]
    return [""]


def prepare(tier):
    pass


def main(tier):
    rt = os.path.join(common.VERIF, "trace", "rt.c")
    common.simple_check("C11", tier, "exploration", ["c11.c", rt], ["trace", "trace_noasm", "trace_generic"], RULE,
                        ["secret alphabet = 4 bases x all 1-bit and 1-byte neighbours", "clang -O2 instrumented binary, not the shipped gcc binary"],
                        configs=cfgs, timeout=3 * 3600,
                        extra_cov=lambda r: {"operation_shapes": r.stat("operation_shapes"), "longest_trace_events": r.stat("max_points")})
