"""C11 secret independence of branches and addresses: exhaustive 2-safety pair enumeration over a secret alphabet on traced builds."""
import os
from vf import common, configs

RULE = ("55 operations {crypto_verify_16/32/64, sodium_memcmp/compare/is_zero (len 0..70), bin2hex, bin2base64 x4, sodium_unpad (every pad "
        "position), sodium_pad (every unpadded length in a block), X25519 scalarmult/base/box_beforenm, sign seed_keypair/detached/sk_to_curve25519, "
        "scalarmult_ed25519 (+noclamp, base, base_noclamp), scalarmult_ristretto255 (+base), 7 scalar operations, ChaCha20/IETF/XChaCha20/"
        "Salsa20/XSalsa20 xor, Poly1305 (+verify), HMAC-SHA-512-256/256 (+verify), SHA-256/512, keyed BLAKE2b, SipHash, kdf, ChaCha20-"
        "Poly1305 / XChaCha20-Poly1305 encrypt, forged decrypt, secretbox, secretstream push, AES-256-GCM and AEGIS-128L/256 (AES-NI)} x "
        "public lengths {0,1,15,16,17,31,32,33,63,64,65,100,127,128,129,130} (thorough every 0..130 / 0..70) x secret alphabet: bases "
        "{all-zero, all-ff, R1, R2} (comparison helpers: also equal pairs) and for each base EVERY single-bit flip of the secret (key and "
        "message / both operands / scalar / seed), EVERY byte set to 00, ff, 80, and one unrelated pattern; each member's hash of the "
        "full sequence of CFG edges and load/store addresses must equal its base's (same process, same buffers, after a warm-up call). "
        "Secrets that change a public status (zero scalar for the noclamp/ristretto multiplications) are left out. Builds: clang "
        "SanitizerCoverage trace-pc/loads/stores on native x {all, -avx2, -avx (ref10 X25519), none}, no-asm and generic. Machine-code pass: "
        "the uninstrumented gcc-compiled native binary incl. the assembly backends (sandy2x ladder.S / ladder_base.S, salsa20 xmm6 .S, "
        "SSE2 Poly1305; thorough also XSalsa20, Ed25519 signing and scalar multiplication) under valgrind lackey: 13 secrets per operation "
        "in one process, the instruction-address and data-address streams between marker stores must all be identical.")

META = {
    "engine": "E-trace", "level": "exploration",
    "technique": "exhaustive enumeration of secret pairs (2-safety) with full branch/address trace comparison on compiler-instrumented real code",
    "text": "Constant-time is a 2-safety property; for every listed operation and public shape, the complete single-bit and single-byte "
            "neighbourhood of four base secrets is executed and each trace (every CFG edge and every load/store address) is compared "
            "with the base's, which catches every leak that is a function of one secret bit or byte (table index, early exit, if(bit)).",
    "note": "Bounded by the secret alphabet: this is NOT the taint analysis over all values the property's quantifier mentions (a different "
            "family). The main pass observes clang -O2 IR-level accesses; the gcc binary and the two .S backends are covered by the valgrind-"
            "lackey pass with a 13-secret alphabet only. Micro-architectural effects are out of scope; memcpy/memset inside libc are "
            "not traced by the main pass (they are by lackey).",
}


def cfgs(v):
    if v == "trace":
        return ["", configs.CHAIN[2], configs.CHAIN[3], configs.NONE]
    return [""]


def prepare(tier):
    pass


LACKEY_OPS = [("x25519", "avx512f", "sandy2x ladder.S"), ("x25519_base", "avx512f", "sandy2x ladder_base.S"), ("salsa20_xor", "avx512f,avx2", "salsa20 xmm6 .S"),
              ("poly1305", "avx512f", "gcc binary, SSE2"), ("mac_verify", "avx512f", "gcc binary + libc: all MAC verify wrappers"), ("secretbox_open", "avx512f", "gcc binary: forged box"), ("xsalsa20_xor", "avx512f,avx2", "salsa20 xmm6 .S"), ("sign", "avx512f", "gcc binary, ref10"),
              ("ed25519_mult", "avx512f", "gcc binary, ref10")]


def lackey_one(args):
    """one operation under valgrind lackey: all secrets in one process; every marker-delimited segment must hash alike"""
    import hashlib, subprocess
    exe, op, cfg, what = args
    env = dict(os.environ); env["SODIUM_VERIF_CPU_DISABLE"] = cfg      # Valgrind cannot decode AVX-512
    log = os.path.join(common.VERIF, "build", "lackey-%s-%d.log" % (op, os.getpid()))
    r = subprocess.run(["valgrind", "--tool=lackey", "--trace-mem=yes", "--log-file=" + log, exe, op], env=env, capture_output=True, text=True, timeout=3600)
    if r.returncode != 0:
        return op, what, None, "valgrind/harness exited %d: %s" % (r.returncode, r.stderr[-300:])
    marker = [l for l in r.stdout.splitlines() if l.startswith("MARKER")][0].split()[1][2:].encode().lstrip(b"0")
    segs, cur, n = [], None, 0
    with open(log, "rb") as f:
        for line in f:
            if line.startswith(b" S ") and line[3:].split(b",")[0].lstrip(b"0") == marker:
                if cur is None:
                    cur, n = hashlib.blake2b(digest_size=16), 0
                else:
                    segs.append((cur.hexdigest(), n)); cur = None
                continue
            if cur is not None:
                cur.update(line); n += 1
    os.remove(log)
    return op, what, segs, r.stdout.splitlines()[2] if len(r.stdout.splitlines()) > 2 else ""


def lackey_pass(tier):
    from concurrent.futures import ThreadPoolExecutor
    from vf import build
    res = common.Result()
    exe = os.path.join(build.build("native"), "h_c11asm")
    build.link_harness("native", exe, [os.path.join(common.VERIF, "harness", "c11_asm.c")])
    ops = LACKEY_OPS[:6] if tier == "quick" else LACKEY_OPS
    with ThreadPoolExecutor(max_workers=len(ops)) as ex:
        outs = list(ex.map(lackey_one, [(exe, o, c, w) for o, c, w in ops]))
    summary = []
    for op, what, segs, info in outs:
        origin = {"cmd": ["valgrind", "--tool=lackey", "--trace-mem=yes", exe, op], "env": {}}
        if segs is None:
            common.infra("lackey pass failed for %s: %s" % (op, info))
        if len(segs) < 3:
            common.infra("lackey pass: no segments for %s" % op)
        res.stats["evaluations"] = res.stats.get("evaluations", 0) + len(segs) - 1
        res.stats["nontrivial"] = res.stats.get("nontrivial", 0) + len(segs) - 1
        if segs[0] != segs[1]:
            common.infra("lackey pass: warm-up and first run of the same secret differ for %s (nondeterministic trace)" % op)
        base = segs[1]
        for k, sg in enumerate(segs[2:], start=1):
            if sg != base:
                res.fails.append(("secret-dependent-trace/machine-code/%s/secret=%d" % (op, k),
                                  "instruction/data-address stream of the compiled binary (%s) differs from the base secret's: %d vs %d trace records" % (what, sg[1], base[1]), origin))
                break
        summary.append("%s (%s): %d secrets, %d trace records each, %s" % (op, what, len(segs) - 1, base[1], info))
    res.samples.append("valgrind lackey: crypto_scalarmult on the sandy2x assembly ladder, 13 secrets in one process, instruction+data address streams between marker stores must be identical")
    return res, summary


def main(tier):
    from vf.props import c04 as _c04
    _c04.poly_cases()
    rt = os.path.join(common.VERIF, "trace", "rt.c")
    lres, lsummary = lackey_pass(tier)

    def extra(r):
        r.merge(lres)
        return {"operation_shapes": r.stat("operation_shapes"), "longest_trace_events": r.stat("max_points"), "machine_code_pass(valgrind lackey)": lsummary}
    common.simple_check("C11", tier, "exploration", ["c11.c", rt], ["trace", "trace_noasm", "trace_generic"], RULE,
                        ["secret alphabet = 4 bases x all 1-bit and 1-byte neighbours", "clang -O2 instrumented binary, not the shipped gcc binary"],
                        configs=cfgs, timeout=3 * 3600,
                        extra_cov=extra)
