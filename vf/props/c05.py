"""C05 X25519 = RFC 7748 on every backend; key agreement APIs derive matching, documented secrets."""
import hashlib, multiprocessing as mp, os, sys, time
from vf import common, configs, pylib

sys.path.insert(0, os.path.join(common.VERIF, "ref"))

P = 2**255 - 19
L = 2**252 + 27742317777372353535851937790883648493
BACKENDS = [("native", ""), ("native", configs.CHAIN[3]), ("noti", ""), ("noti", configs.NONE), ("generic", "")]

RULE = ("X25519: full cross product of a scalar alphabet (0,1,2,7,8,2^254,2^254+8,2^255-1,all-ones, every combination of the five clamp "
        "bits on two bases, L, L+-1, 8k, 2 seeded) x a point alphabet (0,1,2,9, both order-8 u, p-1, p, p+1..p+18, 2^255-20..2^255-1, "
        "each also with bit 255 set, saturated-limb values for radix 2^51 and 2^25.5 one limb at a time / all / alternating, 2^248..2^254, "
        "1+k*2^248, twist points, 9*k public keys, 2 seeded) on 5 backend configurations (sandy2x AVX asm, ref10 fe51, ref10 fe25.5 "
        "with and without SSE, generic); oracle = RFC 7748 ladder on Python integers: return -1 iff the shared point is zero, output "
        "equal otherwise; scalarmult_base = X25519(n, 9). Key agreement: 24x24 key pairs: both directions equal the reference, "
        "box_beforenm = HSalsa20(q,0), xchacha beforenm = HChaCha20(q,0), kx session keys cross-equal and = BLAKE2b-512(q||cpk||spk), "
        "low-order peer keys refused; structured SECRET keys at the box/kx layer: the whole scalar alphabet x 9 peer public keys (5 honest keys with known "
        "secret keys, u=2, a bit-255 encoding, low-order 0 and p-1): both beforenm variants, box_easy/open_easy (both variants, both parties) and kx "
        "client/server session keys succeed iff the reference shared point is non-zero and equal HSalsa20/HChaCha20(q,0), secretbox_easy under that "
        "key, BLAKE2b-512(q||cpk||spk); ~120 (scalar, point) pairs constructed backwards so that the SHARED SECRET has exactly one non-zero byte at each "
        "byte position / one non-zero word / is 1..4 or p-1..p-3 (must be returned, and accepted by box_beforenm); box/kx seed_keypair = documented hash of the seed for 6 seed patterns x lengths. Every "
        "(scalar, point, backend) is one distinct case compared with the reference. Prefix alphabet: the base point 9 with every value of the last byte, and 0, 1, p-1 and both order-8 u with 16 last bytes, x 4 scalars. Call forms with the result written over the point / the "
        "scalar. Field seam (harness/c05_fe.c): the tree's fe25519 code in both radices on (element, element, op) for ~100^2 (thorough 130^2) structured "
        "elements x 20 operation shapes (decode, one lazy add/sub, mul/sq/sq2/mul32/neg/invert/cmov/cswap, full reduction) vs Python integers. Dense differential family: 2^21 (thorough 2^24) declared counter-generated (scalar, point) pairs through the sandy2x, fe51 and "
        "fe25.5 ladders, per-block digests compared, differing cases judged by the reference (a bounded deterministic family, not a class "
        "argument: it reaches limb-carry coincidences of probability down to about 2^-19 per call).")

META = {
    "engine": "E-shape", "level": "exploration",
    "technique": "exhaustive cross-product enumeration of structured scalar x point alphabets on every ladder backend vs an RFC 7748 big-integer reference",
    "text": "The alphabets contain every boundary the implementations distinguish (clamp bits, non-canonical and low-order encodings with "
            "either top bit, limb saturation for both radices); their full product is run on each ladder and compared with exact "
            "integer arithmetic.",
    "note": "Trusted: ref/ec25519.py (self-tested on RFC 7748 vectors in setup), hashlib, ref_stream.c for HSalsa20/HChaCha20. Values "
            "outside the alphabets are not covered.",
}


def pat(idt, n, salt=0):
    if idt == "Z": return bytes(n)
    if idt == "F": return bytes([0xff]) * n
    if idt == "C": return bytes((i + salt) % 251 for i in range(n))
    if idt == "H": return bytes(0x80 | ((i + salt) & 0x7f) for i in range(n))
    seed = int(os.environ.get("VERIF_SEED", "1") or 1)
    return hashlib.shake_256(b"%s-%d-%d" % (idt.encode(), seed, salt)).digest(n)


def le(x, n=32):
    return (x % (1 << (8 * n))).to_bytes(n, "little")


def scalar_alphabet():
    S = [le(0), le(1), le(2), le(7), le(8), le(2**254), le(2**254 + 8), le(2**255 - 1), b"\xff" * 32, le(L), le(L - 1), le(L + 1), le(8 * 12345), le(8 * L)]
    for base in (pat("R1", 32, 1), pat("C", 32, 2)):
        for m in range(32):   # every combination of the five clamp bits (bits 0,1,2 of byte 0; bits 6,7 of byte 31)
            b = bytearray(base)
            b[0] = (b[0] & 0xf8) | (m & 7)
            b[31] = (b[31] & 0x3f) | (((m >> 3) & 1) << 6) | (((m >> 4) & 1) << 7)
            S.append(bytes(b))
    S += [pat("R1", 32, 3), pat("R2", 32, 4)]
    return list(dict.fromkeys(S))


def point_alphabet():
    import ec25519 as ec
    vals = [0, 1, 2, 9, 325606250916557431795983626356110631294008115727848805560023387167927233504,
            39382357235489614581723060781553021112529911719440698176882885853963445705823, P - 1, P]
    vals += [P + k for k in range(1, 19)] + [2**255 - k for k in range(1, 21)]
    vals += [2**k for k in range(248, 255)] + [1 + k * 2**248 for k in range(1, 8)] + [2**254 - 20]
    # saturated limbs: radix 2^51 (5 limbs) and radix 2^25.5 (10 limbs of 26/25 bits)
    for i in range(5):
        vals.append(((1 << 51) - 1) << (51 * i))
    vals.append(sum(((1 << 51) - 1) << (51 * i) for i in range(0, 5, 2)))
    widths = [26, 25] * 5
    pos = 0
    for w in widths:
        vals.append(((1 << w) - 1) << pos); pos += w
    pos = 0; alt = 0
    for j, w in enumerate(widths):
        if j % 2 == 0: alt |= ((1 << w) - 1) << pos
        pos += w
    vals.append(alt); vals.append((1 << 255) - 1 - alt)
    enc = []
    for v in vals:
        v &= (1 << 255) - 1
        enc.append(le(v)); enc.append(le(v | (1 << 255)))
    # twist points and honest public keys
    cnt = 0; u = 2
    while cnt < 6:
        rhs = (u * u * u + 486662 * u * u + u) % P
        if pow(rhs, (P - 1) // 2, P) == P - 1:
            enc.append(le(u)); cnt += 1
        u += 1
    for k in (1, 2, 3, 12345, L - 1):
        enc.append(ec.x25519(le(8 * k), le(9)))
    enc += [pat("R1", 32, 5), pat("R2", 32, 6), pat("F", 32), pat("H", 32, 7)]
    return list(dict.fromkeys(enc))


def prefix_alphabet():
    """points that share their first 31 bytes with a distinguished encoding (base point 9, 0, 1, p-1 and the two order-8 u) and differ only in
    the last byte: every value of the last byte for the base point, 16 values for the others - a comparison that looks at a prefix only
    (fast paths, block lists) treats them as the distinguished point"""
    out = []
    specials = [9, 0, 1, P - 1, 325606250916557431795983626356110631294008115727848805560023387167927233504,
                39382357235489614581723060781553021112529911719440698176882885853963445705823]
    for si, u in enumerate(specials):
        low = le(u)[:31]
        for top in (range(256) if si == 0 else (0, 1, 2, 0x0f, 0x10, 0x3f, 0x40, 0x57, 0x7e, 0x7f, 0x80, 0x81, 0xb8, 0xc0, 0xfe, 0xff)):
            out.append(low + bytes([top]))
    return list(dict.fromkeys(out))


L_TWIST = 2**253 - 55484635554744707071703875581767296995      # prime factor of the twist order 4*L_TWIST


def structured_outputs():
    """(scalar, point, expected) triples whose SHARED SECRET is structured: exactly one non-zero byte at every byte position, one
    non-zero 64-/32-bit word, 1, and values just below p. Built backwards: pick the target u, check that its point has prime order
    (curve: L, twist: L_TWIST; a clamped scalar is a multiple of the cofactor, so only such points are reachable), then
    point = [n^-1 mod order] target. Exercises the all-zero test of the result with near-zero outputs."""
    import ec25519 as ec
    out = []
    scalars = [pat("R1", 32, 21), pat("C", 32, 22)]
    targets = []
    for j in range(32):
        for k in (1, 2, 0x80, 0xff, 3, 5, 7, 11):
            targets.append((k << (8 * j)) % (1 << 255))
    for w in range(4):
        targets += [((1 << 64) - 1) << (64 * w) & ((1 << 255) - 1), 0x0123456789abcdef << (64 * w) & ((1 << 255) - 1)]
    for w in range(8):
        targets.append(0xdeadbeef << (32 * w) & ((1 << 255) - 1))
    targets += [P - 1, P - 2, P - 3, 1, 2, 3, 4]
    # results on the boundaries of the final reduction ("freeze") in radix 2^51 / 2^64: upper limbs all ones with the low limb just below
    # 2^51-19, with its low 32 bits just below 2^32 (a 32-bit comparison would misjudge it), with low 32 bits zero; every single limb saturated
    # with the others zero / all ones; p - k for k <= 64.  Each class is a generator of candidates: the first two prime-order members are used.
    M51 = (1 << 51) - 1
    classes = []
    classes.append([P - k for k in range(4, 65)])
    classes.append([(1 << 255) - (1 << 51) + (x << 32) + lo for x in range(1, 40) for lo in range(0xffffffed, 0x100000000)])
    classes.append([(1 << 255) - (1 << 51) + (x << 32) for x in range(1, 200)])
    classes.append([(1 << 255) - (1 << 51) + M51 - 19 - k for k in range(1, 200)])
    classes.append([(1 << 255) - (1 << 51) + (1 << 31) + k for k in range(0, 200)])
    classes.append([(1 << 255) - (1 << 64) + k for k in range(0, 200)])
    classes.append([(1 << 255) - (1 << 64) + (1 << 64) - 19 - (1 << 13) * k - 1 for k in range(0, 200)])
    for i in range(5):
        classes.append([(M51 << (51 * i)) + k * (1 << ((51 * i + 60) % 250)) for k in range(0, 60)])
        classes.append([(((1 << 255) - 1) ^ (M51 << (51 * i))) - 19 - k - (k << 200 if i == 0 else 0) for k in range(1, 60)])
    # "value >= p" decided limb by limb: low limb >= 2^51-19 and all other limbs all ones EXCEPT one (the value is below p; a chain that forgets
    # to look at that limb subtracts p wrongly) - for each of the limbs 1..4, and the same with two limbs not all ones
    for i in range(1, 5):
        classes.append([(((1 << 255) - 1) ^ (x << (51 * i))) - j for x in range(1, 40) for j in (0, 7, 18)])
        classes.append([(((1 << 255) - 1) ^ (M51 << (51 * i))) - j + (x << (51 * i)) for x in range(0, 40) for j in (0, 18)])
    for i in range(1, 4):
        classes.append([(((1 << 255) - 1) ^ (x << (51 * i)) ^ (3 << (51 * (i + 1)))) - 5 for x in range(1, 60)])
    class_targets = []
    for cl in classes:
        got = 0
        for t in cl:
            t %= P
            if t == 0: continue
            rhs = (t * t * t + 486662 * t * t + t) % P
            order = L if pow(rhs, (P - 1) // 2, P) == 1 else L_TWIST
            if ec.mont_ladder(order - 1, t, 255) != t: continue
            class_targets.append(t); got += 1
            if got >= 2: break
    seen_pos = {}
    for t in targets:
        t %= P
        if t == 0:
            continue
        rhs = (t * t * t + 486662 * t * t + t) % P
        order = L if pow(rhs, (P - 1) // 2, P) == 1 else L_TWIST
        # prime-order test: [order-1]T must have T's u-coordinate (the ladder's 0 cannot tell infinity from the 2-torsion point (0,0))
        if ec.mont_ladder(order - 1, t, 255) != t:    # not in the prime-order subgroup: unreachable with a clamped scalar
            continue
        key = t.bit_length() // 8 if bin(t).count("1") <= 8 else None
        if key is not None and seen_pos.get(key, 0) >= 2:
            continue
        if key is not None: seen_pos[key] = seen_pos.get(key, 0) + 1
        for s in scalars:
            n = ec.clamp(s)
            pt = ec.mont_ladder(pow(n, -1, order), t, 255)
            out.append((s, le(pt), le(t)))
    for t in class_targets:
        rhs = (t * t * t + 486662 * t * t + t) % P
        order = L if pow(rhs, (P - 1) // 2, P) == 1 else L_TWIST
        for s in scalars:
            n = ec.clamp(s)
            out.append((s, le(ec.mont_ladder(pow(n, -1, order), t, 255)), le(t)))
    return out


def _ref_row(args):
    import ec25519 as ec
    s, pts = args
    return [ec.x25519(s, p) for p in pts]


def _backend_worker(args):
    variant, cfg, S, Pts, ref, kpairs, struct = args
    import ctypes
    lib = pylib.load_sodium(variant, cfg)
    vref = pylib.load_ref()
    feats = pylib.features(lib)
    fails, n = [], 0
    q = pylib.buf(32); k1b = pylib.buf(32)
    tag = "%s[%s]" % (variant, "-" + cfg if cfg else "all")
    for i, s in enumerate(S):
        for j, p in enumerate(Pts):
            r = lib.crypto_scalarmult(q, s, p)
            want = ref[i][j]
            n += 1
            if want == bytes(32):
                if r != -1:
                    fails.append(("crypto_scalarmult/%s/n=%s/p=%s" % (tag, s.hex(), p.hex()), "shared point is zero but the call returned %d" % r))
            elif r != 0 or q.raw != want:
                fails.append(("crypto_scalarmult/%s/n=%s/p=%s" % (tag, s.hex(), p.hex()), "ret %d got %s want %s" % (r, q.raw.hex(), want.hex())))
            # the same call with the result written over the point / over the scalar (callers replace the peer key by the shared secret)
            if (i + j) % 3 == 0 and want != bytes(32):
                for form in ("q==p", "q==n"):
                    ctypes.memmove(q, p if form == "q==p" else s, 32)
                    r = lib.crypto_scalarmult(q, s, q) if form == "q==p" else lib.crypto_scalarmult(q, q, p)
                    n += 1
                    if r != 0 or q.raw != want:
                        fails.append(("crypto_scalarmult/%s/%s/n=%s/p=%s" % (form, tag, s.hex(), p.hex()), "ret %d got %s want %s" % (r, q.raw.hex(), want.hex())))
        # base point
        r = lib.crypto_scalarmult_base(q, s)
        import ec25519 as ec
        want = ec.x25519_base_via_edwards(s) if hasattr(ec, "x25519_base_via_edwards") else ec.x25519(s, le(9))
        n += 1
        if want == bytes(32):
            if r == 0 and q.raw != want:
                fails.append(("crypto_scalarmult_base/%s/n=%s" % (tag, s.hex()), "got %s want zero" % q.raw.hex()))
        elif r != 0 or q.raw != want:
            fails.append(("crypto_scalarmult_base/%s/n=%s" % (tag, s.hex()), "ret %d got %s want %s" % (r, q.raw.hex(), want.hex())))
        if len(fails) > 20:
            break
    # structured shared secrets (near-zero outputs): must be returned, not mistaken for the all-zero point
    for s, p, want in struct:
        r = lib.crypto_scalarmult(q, s, p); n += 1
        if r != 0 or q.raw != want:
            fails.append(("crypto_scalarmult-structured-output/%s/n=%s/p=%s" % (tag, s.hex(), p.hex()), "ret %d got %s want %s (non-zero shared secret)" % (r, q.raw.hex(), want.hex())))
        if lib.crypto_box_beforenm(k1b, p, s) != 0:
            fails.append(("crypto_box_beforenm-structured-output/%s/n=%s/p=%s" % (tag, s.hex(), p.hex()), "valid peer key refused (shared secret %s)" % want.hex()))
    # key agreement on the key-pair table
    zero16 = bytes(16); k1 = pylib.buf(32); k2 = pylib.buf(32); rx = pylib.buf(32); tx = pylib.buf(32); rx2 = pylib.buf(32); tx2 = pylib.buf(32)
    exp = pylib.buf(32)
    for a, (ska, pka) in enumerate(kpairs):
        for b, (skb, pkb) in enumerate(kpairs):
            import ec25519 as ec
            shared = ec.x25519(ska, pkb)
            key = "%s/pair=%d,%d" % (tag, a, b)
            n += 1
            r1 = lib.crypto_scalarmult(q, ska, pkb); qa = q.raw
            r2 = lib.crypto_scalarmult(q, skb, pka); qb = q.raw
            if r1 != 0 or r2 != 0 or qa != shared or qb != shared:
                fails.append(("key-agreement/" + key, "the two directions / the reference disagree")); continue
            lib.crypto_box_beforenm(k1, pkb, ska); vref.ref_hsalsa20(exp, zero16, shared, None)
            if k1.raw != exp.raw: fails.append(("crypto_box_beforenm/" + key, "not HSalsa20(q, 0)"))
            lib.crypto_box_curve25519xchacha20poly1305_beforenm(k1, pkb, ska); vref.ref_hchacha20(exp, zero16, shared, None)
            if k1.raw != exp.raw: fails.append(("crypto_box_xchacha_beforenm/" + key, "not HChaCha20(q, 0)"))
            # kx: a = client, b = server
            rc = lib.crypto_kx_client_session_keys(rx, tx, pka, ska, pkb); rs = lib.crypto_kx_server_session_keys(rx2, tx2, pkb, skb, pka)
            h = hashlib.blake2b(shared + pka + pkb, digest_size=64).digest()
            if rc != 0 or rs != 0 or rx.raw != tx2.raw or tx.raw != rx2.raw or rx.raw != h[:32] or tx.raw != h[32:]:
                fails.append(("crypto_kx_session_keys/" + key, "not cross-equal / not BLAKE2b-512(q||client_pk||server_pk)"))
    # structured SECRET keys at the box / kx layer: the whole scalar alphabet x a handful of peer public keys (honest keys with known secret
    # keys, u = 2, a bit-255 encoding, two low-order points).  Every API must succeed exactly when the reference shared point is
    # non-zero and derive from it: beforenm = HSalsa20 / HChaCha20(q, 0), box_easy = secretbox_easy under that key and opens on the other
    # side (both directions, both cipher variants), kx session keys = BLAKE2b-512(q||client_pk||server_pk) in either role.
    import ec25519 as ec
    ULL = ctypes.c_ulonglong
    honest = [(le(8 * k), ec.x25519(le(8 * k), le(9))) for k in (1, 2, 3, 12345, L - 1)]
    peers = [(pk_, sk_) for sk_, pk_ in honest] + [(le(2), None), (le(P - 1), None), (le(0), None), (honest[1][1][:31] + bytes([honest[1][1][31] | 0x80]), None)]
    pidx = {p_: j for j, p_ in enumerate(Pts)}; j9 = pidx[le(9)]
    msg = pat("C", 33, 41); nonce = pat("R1", 24, 42); cb = pylib.buf(33 + 16); cw = pylib.buf(33 + 16); mb = pylib.buf(33)
    BOXV = [("crypto_box", lib.crypto_box_beforenm, lib.crypto_box_easy, lib.crypto_box_open_easy, lib.crypto_secretbox_easy, vref.ref_hsalsa20),
            ("crypto_box_xchacha", lib.crypto_box_curve25519xchacha20poly1305_beforenm, lib.crypto_box_curve25519xchacha20poly1305_easy,
             lib.crypto_box_curve25519xchacha20poly1305_open_easy, lib.crypto_secretbox_xchacha20poly1305_easy, vref.ref_hchacha20)]
    for i, s in enumerate(S):
        pka = ref[i][j9]                                   # the public key that belongs to the structured secret key (reference)
        for pkb, skb in peers:
            want = ref[i][pidx[pkb]] if pkb in pidx else ec.x25519(s, pkb)
            key = "%s/sk=%s/peer=%s" % (tag, s.hex(), pkb.hex())
            for name, bnm, easy, open_easy, sbx_easy, hfn in BOXV:
                n += 1
                ctypes.memset(k1, 0xA5, 32); r = bnm(k1, pkb, s)
                if want == bytes(32):
                    if r == 0: fails.append(("%s_beforenm-structured-sk/%s" % (name, key), "shared point is zero but the call succeeded"))
                    if easy(cb, msg, ULL(33), nonce, pkb, s) == 0: fails.append(("%s_easy-structured-sk/%s" % (name, key), "shared point is zero but the call succeeded"))
                    continue
                hfn(exp, zero16, want, None)
                if r != 0 or k1.raw != exp.raw:
                    fails.append(("%s_beforenm-structured-sk/%s" % (name, key), "ret %d key %s, want 0 and %s (derived from the RFC 7748 shared point %s)" % (r, k1.raw.hex(), exp.raw.hex(), want.hex()))); continue
                sbx_easy(cw, msg, ULL(33), nonce, exp)
                r = easy(cb, msg, ULL(33), nonce, pkb, s); n += 1
                if r != 0 or cb.raw != cw.raw: fails.append(("%s_easy-structured-sk/%s" % (name, key), "ret %d; not secretbox_easy under the documented key" % r))
                r = open_easy(mb, cw, ULL(33 + 16), nonce, pkb, s); n += 1
                if r != 0 or mb.raw != msg: fails.append(("%s_open_easy-structured-sk/%s" % (name, key), "ret %d: a box made for this key pair does not open" % r))
                if skb is not None and pka != bytes(32):   # the peer's side, with the public key of the structured secret key
                    r = easy(cb, msg, ULL(33), nonce, pka, skb); n += 1
                    if r != 0 or cb.raw != cw.raw: fails.append(("%s_easy-structured-sk-peer/%s" % (name, key), "ret %d; the two parties derive different keys" % r))
                    ctypes.memset(mb, 0, 33); r2 = open_easy(mb, cb, ULL(33 + 16), nonce, pkb, s)
                    if r == 0 and (r2 != 0 or mb.raw != msg): fails.append(("%s_open_easy-structured-sk-peer/%s" % (name, key), "ret %d: the box sent by the peer does not open" % r2))
            if pka == bytes(32): continue
            n += 2
            rc = lib.crypto_kx_client_session_keys(rx, tx, pka, s, pkb); h = hashlib.blake2b(want + pka + pkb, digest_size=64).digest()
            if (want == bytes(32) and rc == 0) or (want != bytes(32) and (rc != 0 or rx.raw != h[:32] or tx.raw != h[32:])):
                fails.append(("crypto_kx_client_session_keys-structured-sk/" + key, "ret %d; must succeed iff the shared point is non-zero with keys BLAKE2b-512(q||client_pk||server_pk)" % rc))
            rs = lib.crypto_kx_server_session_keys(rx2, tx2, pka, s, pkb); h2 = hashlib.blake2b(want + pkb + pka, digest_size=64).digest()
            if (want == bytes(32) and rs == 0) or (want != bytes(32) and (rs != 0 or tx2.raw != h2[:32] or rx2.raw != h2[32:])):
                fails.append(("crypto_kx_server_session_keys-structured-sk/" + key, "ret %d; must succeed iff the shared point is non-zero with keys BLAKE2b-512(q||client_pk||server_pk)" % rs))
        if len(fails) > 40:
            break
    # peer keys in other encodings of the same point (bit 255 set; u + p where u < 19 does not occur for honest keys): RFC 7748 ignores the bit, so
    # every key-agreement API must succeed and derive from the same shared point; kx hashes the public keys as given
    import ec25519 as ec
    for i in range(min(6, len(kpairs))):
        ska, pka = kpairs[i]; skb, pkb = kpairs[(i + 1) % len(kpairs)]
        pkb_hi = pkb[:31] + bytes([pkb[31] | 0x80]); pka_hi = pka[:31] + bytes([pka[31] | 0x80])
        shared = ec.x25519(ska, pkb); n += 4
        if lib.crypto_scalarmult(q, ska, pkb_hi) != 0 or q.raw != shared: fails.append(("crypto_scalarmult/%s/peer-key-bit255/pair=%d" % (tag, i), "differs from the result for the same point without the bit"))
        lib.crypto_box_beforenm(k1, pkb, ska); r = lib.crypto_box_beforenm(k2, pkb_hi, ska)
        if r != 0 or k1.raw != k2.raw: fails.append(("crypto_box_beforenm/%s/peer-key-bit255/pair=%d" % (tag, i), "ret %d or different key" % r))
        lib.crypto_box_curve25519xchacha20poly1305_beforenm(k1, pkb, ska); r = lib.crypto_box_curve25519xchacha20poly1305_beforenm(k2, pkb_hi, ska)
        if r != 0 or k1.raw != k2.raw: fails.append(("crypto_box_xchacha_beforenm/%s/peer-key-bit255/pair=%d" % (tag, i), "ret %d or different key" % r))
        rc = lib.crypto_kx_client_session_keys(rx, tx, pka, ska, pkb_hi); h = hashlib.blake2b(shared + pka + pkb_hi, digest_size=64).digest()
        if rc != 0 or rx.raw != h[:32] or tx.raw != h[32:]: fails.append(("crypto_kx_client_session_keys/%s/server-key-bit255/pair=%d" % (tag, i), "ret %d; keys must be BLAKE2b-512(q||client_pk||server_pk as given)" % rc))
        sh2 = ec.x25519(skb, pka)
        rs = lib.crypto_kx_server_session_keys(rx2, tx2, pkb, skb, pka_hi); h2 = hashlib.blake2b(sh2 + pka_hi + pkb, digest_size=64).digest()
        if rs != 0 or tx2.raw != h2[:32] or rx2.raw != h2[32:]: fails.append(("crypto_kx_server_session_keys/%s/client-key-bit255/pair=%d" % (tag, i), "ret %d; keys must be BLAKE2b-512(q||client_pk as given||server_pk)" % rs))
    # low-order peers are refused by box_beforenm and kx
    for lo in (le(0), le(1), le(325606250916557431795983626356110631294008115727848805560023387167927233504), le(P - 1), le(P), le(P + 1)):
        ska, pka = kpairs[0]
        n += 1
        if lib.crypto_box_beforenm(k1, lo, ska) == 0: fails.append(("crypto_box_beforenm/%s/low-order=%s" % (tag, lo.hex()), "accepted a low-order public key"))
        if lib.crypto_kx_client_session_keys(rx, tx, pka, ska, lo) == 0: fails.append(("crypto_kx_client/%s/low-order=%s" % (tag, lo.hex()), "accepted a low-order public key"))
        if lib.crypto_kx_server_session_keys(rx, tx, pka, ska, lo) == 0: fails.append(("crypto_kx_server/%s/low-order=%s" % (tag, lo.hex()), "accepted a low-order public key"))
    # seeded key pairs
    pk = pylib.buf(32); sk = pylib.buf(32)
    for idt in ("Z", "F", "C", "H", "R1", "R2"):
        seed = pat(idt, 32, 9); n += 2
        lib.crypto_box_seed_keypair(pk, sk, seed)
        wsk = hashlib.sha512(seed).digest()[:32]
        if sk.raw != wsk or pk.raw != ec.x25519(wsk, le(9)): fails.append(("crypto_box_seed_keypair/%s/seed=%s" % (tag, idt), "not (X25519(SHA-512(seed)[:32], 9), SHA-512(seed)[:32])"))
        lib.crypto_box_curve25519xchacha20poly1305_seed_keypair(pk, sk, seed)
        if sk.raw != wsk or pk.raw != ec.x25519(wsk, le(9)): fails.append(("crypto_box_xchacha_seed_keypair/%s/seed=%s" % (tag, idt), "wrong"))
        lib.crypto_kx_seed_keypair(pk, sk, seed)
        wsk = hashlib.blake2b(seed, digest_size=32).digest()
        if sk.raw != wsk or pk.raw != ec.x25519(wsk, le(9)): fails.append(("crypto_kx_seed_keypair/%s/seed=%s" % (tag, idt), "not (X25519(BLAKE2b-256(seed), 9), BLAKE2b-256(seed))"))
    return tag, feats, n, fails[:20]


FE_OPS = "MmSsqDd34nNxyabijcwz"
def _fe_expect(op, a, b):
    a &= (1 << 255) - 1; b &= (1 << 255) - 1
    A, B, X, Y = a % P, b % P, (a + b) % P, (a - b) % P
    if op == "M": return A * B % P
    if op == "m": return X * Y % P
    if op == "S": return A * A % P
    if op == "s": return X * X % P
    if op == "q": return Y * Y % P
    if op == "D": return 2 * A * A % P
    if op == "d": return 2 * Y * Y % P
    if op == "3": return 121666 * Y % P
    if op == "4": return 121666 * X % P
    if op == "n": return (-Y) % P
    if op == "N": return (-A) % P
    if op == "x": return X
    if op == "y": return Y
    if op == "a": return (A * B + A) % P
    if op == "b": return (A * B - B) % P
    if op == "i": return pow(A, P - 2, P)
    if op == "j": return pow(Y, P - 2, P)
    if op == "c": return B if (a & 1) else A
    if op == "w": return B if (b & 1) else A
    if op == "z": return (1 if Y == 0 else 0) | (Y & 1) << 8 | (1 if A == 0 else 0) << 16 | (X & 1) << 24
    raise ValueError(op)

def _fe_worker(args):
    variant, elems = args
    import subprocess
    from vf import build
    d = build.build(variant); exe = os.path.join(d, "h_c05fe")
    cc, flags = build.variant_flags(variant)
    build.link_harness(variant, exe, [os.path.join(common.VERIF, "harness", "c05_fe.c")], extra_flags=[f for f in flags if f.startswith("-D")])
    recs = [(op, a, b) for op in FE_OPS for a in elems for b in elems]
    inp = b"".join(op.encode() + a + b for op, a, b in recs)
    o = subprocess.run([exe], input=inp, capture_output=True, timeout=900)
    if o.returncode != 0 or len(o.stdout) != 32 * len(recs):
        return variant, 0, [("field-seam/%s/driver" % variant, "driver exited %d with %d output bytes" % (o.returncode, len(o.stdout)))]
    fails = []
    for i, (op, a, b) in enumerate(recs):
        got = int.from_bytes(o.stdout[32 * i:32 * i + 32], "little"); want = _fe_expect(op, int.from_bytes(a, "little"), int.from_bytes(b, "little"))
        if got != want and len(fails) < 20:
            fails.append(("field-seam/%s/op=%s/a=%s/b=%s" % (variant, op, a.hex(), b.hex()), "got %064x want %064x (op codes: see harness/c05_fe.c)" % (got, want)))
    return variant, len(recs), fails

def field_seam(tier, Pts, res):
    """field arithmetic as the ladders use it (decode, <= 1 lazy add/sub, multiply-class op, full reduction) on the whole point alphabet squared,
    both limb radices"""
    elems = Pts if tier == "thorough" else Pts[:96] + Pts[-8:]
    n = 0
    for variant, cnt, fails in pylib.pool_map(_fe_worker, [("native", elems), ("noti", elems)], 2):
        n += cnt
        for k, d in fails:
            res.fails.append((k, d, {"cmd": ["python3", "vf/check.py", "C05"], "env": {}}))
    return n


DENSE = [("native", ""), ("native", configs.CHAIN[3]), ("noti", "")]       # sandy2x AVX assembly, ref10 on 51-bit limbs, ref10 on 25.5-bit limbs

def dense_family(tier, res):
    """2^21 (thorough 2^24) declared pseudo-random (scalar, point) pairs through every ladder; digests per 4096-case block must agree, differing
    cases are judged with the big-integer reference.  Returns the number of evaluations."""
    import subprocess
    import ec25519 as ec
    from vf import build
    nblk = 512 if tier == "quick" else 4096
    exes = {}
    for v in sorted(set(v for v, _ in DENSE)):
        exes[v] = os.path.join(build.build(v), "h_c05dense")
        build.link_harness(v, exes[v], [os.path.join(common.VERIF, "harness", "c05_dense.c")])
    def run(v, c, dump=None):
        env = dict(os.environ); env.pop("SODIUM_VERIF_CPU_DISABLE", None); env.pop("VERIF_DENSE_DUMP", None)
        if c: env["SODIUM_VERIF_CPU_DISABLE"] = c
        if dump is not None: env["VERIF_DENSE_DUMP"] = str(dump)
        o = subprocess.run([exes[v], str(nblk)], env=env, capture_output=True, text=True, timeout=3000)
        if o.returncode != 0: common.infra("dense X25519 driver failed for %s[%s]: %s" % (v, c, o.stderr[:300]))
        return o.stdout.splitlines()
    digs = {}
    for v, c in DENSE:
        d = {}
        for l in run(v, c):
            if l.startswith("DIG "): _, b, h = l.split(); d[int(b)] = h
        if len(d) != nblk: common.infra("dense X25519 driver: %d of %d block digests for %s[%s]" % (len(d), nblk, v, c))
        digs[(v, c)] = d
    bad = sorted(b for b in range(nblk) if len(set(digs[k][b] for k in digs)) > 1)
    for b in bad[:3]:
        cases = {}
        for v, c in DENSE:
            for l in run(v, c, dump=b):
                if l.startswith("CASE "):
                    _, i, r, n_, p_, q_ = l.split(); cases.setdefault(int(i), {})[(v, c)] = (int(r), n_, p_, q_)
        for i, per in sorted(cases.items()):
            if len(set((r, q) for r, _, _, q in per.values())) > 1:
                n_, p_ = next(iter(per.values()))[1:3]
                want = ec.x25519(bytes.fromhex(n_), bytes.fromhex(p_))
                for (v, c), (r, _, _, q) in per.items():
                    ok = (r == -1) if want == bytes(32) else (r == 0 and q == want.hex())
                    if not ok:
                        res.fails.append(("crypto_scalarmult/dense/%s[%s]/n=%s/p=%s" % (v, "-" + c if c else "all", n_, p_), "ret %d got %s want %s (block %d case %d of the declared family)" % (r, q, want.hex(), b, i),
                                          {"cmd": ["python3", "vf/check.py", "C05"], "env": {}}))
                break
    if bad and not res.fails: common.infra("dense X25519 family: block digests differ but no differing case was found")
    return nblk * 4096 * len(DENSE)


def prepare(tier):
    pass


def main(tier):
    t0 = time.time()
    import ec25519 as ec
    S, Pts = scalar_alphabet(), point_alphabet()
    PtsX = [p_ for p_ in prefix_alphabet() if p_ not in Pts]; S_X = [S[i] for i in (5, 9, 20, 33)] if len(S) > 33 else S[:4]
    with mp.Pool(16) as pool:
        ref = pool.map(_ref_row, [(s, Pts) for s in S])
    nk = 24 if tier == "quick" else 40
    kpairs = []
    for i in range(nk):
        sk = pat("R1", 32, 100 + i) if i % 3 else pat("C", 32, 100 + i)
        kpairs.append((sk, ec.x25519(sk, le(9))))
    res = common.Result()
    from vf import build
    for v in sorted(set(v for v, _ in BACKENDS)):
        build.build(v)                      # build in the parent: the workers must only load
    pylib.load_ref()
    struct = structured_outputs()
    for s_, p_, w_ in struct:                     # the construction itself is validated against the plain RFC 7748 ladder
        assert ec.x25519(s_, p_) == w_, "structured-output construction is wrong"
    for s_ in S_X:                                # prefix alphabet: evaluated like the structured outputs (non-zero shared secrets must be returned)
        for p_ in PtsX:
            w_ = ec.x25519(s_, p_)
            if w_ != bytes(32): struct.append((s_, p_, w_))
    outs = pylib.pool_map(_backend_worker, [(v, c, S, Pts, ref, kpairs, struct) for v, c in BACKENDS], len(BACKENDS))
    total = 0; tags = []
    for tag, feats, n, fails in outs:
        total += n; tags.append("%s avx=%d sse2=%d" % (tag, feats["avx"], feats["sse2"]))
        for k, d in fails:
            res.fails.append((k, d, {"cmd": ["python3", "vf/check.py", "C05"], "env": {}}))
    dense_n = dense_family(tier, res); total += dense_n
    fe_n = field_seam(tier, Pts, res); total += fe_n
    zero = sum(1 for row in ref for x in row if x == bytes(32))
    res.samples = ["crypto_scalarmult n=%s p=%s -> %s" % (S[5].hex(), Pts[9].hex(), ref[5][9].hex()),
                   "crypto_scalarmult n=%s p=%s (low order) -> must return -1" % (S[3].hex(), Pts[0].hex()),
                   "crypto_scalarmult n=%s p=%s (p+2 with bit 255 set: reduced to 2, top bit ignored) -> %s" % (S[20].hex(), le((P + 2) | 1 << 255).hex(), ec.x25519(S[20], le((P + 2) | 1 << 255)).hex())]
    cov = {"evaluations": total, "distinct_nontrivial": total, "rule": RULE, "exhaustive": True, "scalars": len(S), "points": len(Pts),
           "reference_zero_results": zero, "key_pairs": nk, "structured_output_cases": len(struct), "box_kx_structured_secret_key_cases": len(S) * 9, "dense_differential_cases": dense_n, "field_seam_cases": fe_n, "backends": tags}
    common.finish("C05", tier, "exploration", res, cov,
                  ["values outside the structured alphabets are not covered", "reference: ref/ec25519.py RFC 7748 ladder"], t0)
