"""C14 constant-time helpers are exact: exhaustive shape enumeration on native / noasm / generic."""
import os, time
from vf import build, common

VARIANTS = ["native", "noasm", "generic"]


def exe(v):
    return os.path.join(build.build(v), "h_c14")

META = {
    "engine": "E-shape", "level": "exploration",
    "technique": "exhaustive bounded enumeration of input shapes on the real code vs reference model (bounded model checking of the input space by explicit enumeration)",
    "text": "Every length 0..130 and every operand family named in the property (each single bit, each byte, every carry/borrow "
            "run (start,length), all 1-byte pairs, 2-byte pairs) is executed on the real helpers in three builds and compared "
            "with a schoolbook reference; the space is finite and walked completely, so within the bound nothing is sampled.",
    "note": "Trusted: the byte-wise reference in harness/c14.c, gcc's code for it. Not covered: operand contents outside the families, lengths > 130 (memzero to 4400).",
}


def prepare(tier):
    for v in VARIANTS:
        build.link_harness(v, exe(v), [os.path.join(common.VERIF, "harness", "c14.c")])


def main(tier):
    t0 = time.time()
    prepare(tier)
    res = common.Result()
    for v in VARIANTS:
        res.merge(common.run([exe(v)], env={"VERIF_TIER": tier}, label="c14-" + v))
    cov = {
        "evaluations": res.stat("evaluations"),
        "distinct_nontrivial": res.stat("nontrivial"),
        "rule": "nested exhaustive loops: every len 0..130 x families {equal, all 36 pattern pairs, every single-bit "
                "difference on 3 bases, every single-byte +1/-1/^0x80, every pair (i<j) of opposite differences, "
                "carry/borrow run of every (start,length), a+~a, a-a, single byte {01,7f,80,ff} at every position} x "
                "operand alignment offsets 0..15 (4 offsets for the bit/byte families in quick, all 16 in thorough); all 2^16 "
                "1-byte pairs; 2-byte pairs over {00,01,7f,80,fe,ff}^4 (quick) or all 2^32 (thorough); memzero every len "
                "0..130 x 16 alignments in a canary-bracketed buffer. Each loop tuple is generated once, so every case is "
                "distinct; non-trivial = len > 0 and the result was compared with the schoolbook reference.",
        "exhaustive": True,
        "builds": VARIANTS,
    }
    common.finish("C14", tier, "exploration", res, cov,
                  ["contents outside the stated families are not covered",
                   "schoolbook byte-wise reference (harness/c14.c) is the oracle"], t0)
