"""C07 Edwards25519 / Ristretto255 group and scalar arithmetic are exact and validated; hash-to-group = RFC 9380 / RFC 9496.

Structured alphabets (points, Ristretto encodings, scalars, uniform strings, (context, message) pairs) are enumerated in full
cross products on every field-arithmetic variant (native = radix 2^51, noti = radix 2^25.5, generic = portable) and every
output / return code is compared with exact integer arithmetic (ref/ec25519.py).

What libsodium feeds to expand_message_xmd (found by reading core_h2c.c, core_ed25519.c, core_ristretto255.c; the reference is
fed the same bytes):
  * the DST is exactly the bytes of the NUL-terminated `ctx` argument, nothing is prepended or appended by the library: there is
    no built-in suite string. ctx == NULL is treated as the empty DST (ctx_len = 0), i.e. NULL and "" give identical outputs.
  * DST_prime = DST || I2OSP(len(DST), 1); Z_pad = one hash block; l_i_b_str = 00 || h_len (h_len <= 255).
  * crypto_core_ed25519_from_string    = encode_to_curve (NU): 48 bytes, big-endian -> field element, Elligator 2 with the RFC 9380
    sign rule (sgn0(y) = 1 iff gx1 is square), Appendix D.1 rational map, cofactor 8.
  * crypto_core_ed25519_from_string_ro = hash_to_curve (RO): 96 bytes, two maps (each already multiplied by 8), one addition.
  * crypto_core_ristretto255_from_string and _from_string_ro are the same function: 64 bytes of expand_message_xmd, then the
    RFC 9496 4.3.4 one-way map (= RFC 9380 Appendix B hash_to_ristretto255).
  * hash_alg 1 = SHA-256 (b = 32, s = 64), 2 = SHA-512 (b = 64, s = 128).
  * a context longer than 255 bytes is replaced by H("H2C-OVERSIZE-DST-" || ctx) (RFC 9380 5.3.3) - but the digest is stored in
    the buffer u0 that afterwards receives b_0, so b_1.. are computed with DST = b_0 instead of the digest (suspected finding F6;
    the oracle is RFC 9380 5.3.3, whose Appendix K.2 vectors the reference reproduces in its self-test).
  * crypto_core_ed25519_from_uniform is not an RFC construction: bit 255 of the input selects the sign of the Edwards x, the low
    255 bits are the Elligator 2 input; reference variant "sign-x" of ec25519.map_to_curve_elligator2_from_uniform32.
"""
import hashlib, multiprocessing as mp, os, sys, time
from vf import common, configs, pylib

sys.path.insert(0, os.path.join(common.VERIF, "ref"))

P = 2**255 - 19
L = 2**252 + 27742317777372353535851937790883648493
M255 = 2**255 - 1
BACKENDS = [("native", ""), ("noti", ""), ("generic", "")]
ORIGIN = {"cmd": ["python3", "vf/check.py", "C07"], "env": {}}
CAP = 4          # recorded failures per (function, input class, backend); the totals are reported as INFO

RULE = ("Edwards point alphabet: k*B for k in {1,2,3,L-1,2^252,seeded} plus each of the 8 torsion points (prime-order, order 2L/4L/8L) and "
        "their negations, all 14 small-order encodings incl. non-canonical and negative-zero aliases, y and y+p for every y in 0..40 / "
        "p-20..p-1 / p..p+18 / 2^248..2^254 / one-limb, all-limb and alternating saturated limbs for radix 2^51 and 2^25.5, each with "
        "both sign bits, seeded strings, seeded prime-order points. Ristretto alphabet: encodings of k*B (the four coset "
        "representatives P+T4 must encode identically in the model), their negations p-s, s with bit 255, p+k for k in 0..18, "
        "the 30 RFC 9496 bad encodings, s-values derived from valid ones (1/s, i/s, i*s), encodings of the odd coset k*B+T8, every even "
        "s in 0..400 and p-1-2k, the whole Edwards alphabet, seeded; each classified by the model (valid / s>=p / negative s / "
        "non-square / t<0 / y=0). Scalar alphabet: 0,1,2,3,7,8,L-2..L+1,2L-1..2L+1,4L,7L,8L,15L,2^252+-k,2^253,2^254,2^255+-k,2^256-1, "
        "each saturated 21-bit limb, even/odd limbs, (L+-1)/2, seeded, with 64-byte versions (zero-extended, shifted by 2^256, L^2+-1, "
        "L*2^256+-1, saturated limbs, all-ones). Checks (each (function, input tuple, variant) is one case compared with exact integer "
        "arithmetic): ed25519 is_valid_point on every encoding; add/sub on every point x column set (quick: 40-point core, thorough: all); "
        "scalarmult, scalarmult_noclamp on every scalar x every encoding, base and base_noclamp on every scalar; ristretto255 "
        "is_valid_point on every encoding, add/sub on every encoding x column set, scalarmult on every scalar x encoding, "
        "scalarmult_base on every scalar; scalar add/sub on all reduced pairs, mul on all pairs, negate/complement/invert/"
        "is_canonical on every scalar, reduce on every 64-byte scalar, same for the ristretto255_scalar_* aliases; "
        "ed25519_from_uniform on points+scalars+seeded strings; ristretto255_from_hash on 64-byte scalars, pairs of field boundary "
        "values and seeded strings; from_string/from_string_ro for both groups x {SHA-256, SHA-512} x contexts {NULL, empty, the two "
        "RFC 9380 J.5 DSTs, 255 bytes, the RFC K.2 256-byte DST, 300 bytes} x messages (quick: 44 lengths in 0..200 around the "
        "block/padding boundaries, thorough: every length 0..200; plus the 5 RFC 9380 messages) vs RFC 9380 encode_to_curve / "
        "hash_to_curve / hash_to_ristretto255; every map output must be in the prime-order (sub)group.")

RULE = RULE + ' Fixed-base multiplications additionally on a base-only scalar alphabet (~1100 scalars: adjacent 32-bit word pairs over the nibble-carry alphabet at every word position, 0x77-rows with one deviating byte; thorough also 64-bit word pairs).'

META = {
    "engine": "E-shape", "level": "exploration",
    "technique": "exhaustive cross-product enumeration of structured point / encoding / scalar / context alphabets on both field radices "
                 "and the portable build vs a big-integer model of edwards25519, ristretto255 (RFC 9496), arithmetic mod L and RFC 9380",
    "text": "The alphabets contain every class of input the decoders and reducers distinguish (canonical / non-canonical y, negative zero, "
            "off-curve, small / mixed / prime order, the RFC 9496 rejection classes, scalars around 0, L, 2L, 2^252, 2^255, 2^256 and with "
            "saturated limbs, contexts on both sides of the 255-byte DST limit, messages across hash block boundaries); their cross "
            "products are run through the public API of each build and every output and return code is compared with exact arithmetic.",
    "note": "Trusted: ref/ec25519.py (self-tested in setup on RFC 7748/8032/9496/9380 vectors incl. Appendix K.2 long-DST and J.5), hashlib. "
            "crypto_core_ed25519_add/sub accepting non-canonical / small-order / mixed-order inputs is allowed (only exact results are "
            "required); scalar_invert of a non-reduced multiple of L is recorded, not judged. *_random under the scripted RNG belongs to "
            "C18. Values outside the alphabets are not covered.",
}

RFC9496_BAD = """
00ffffffffffffffffffffffffffffffffffffffffffffffffffffffffffffff ffffffffffffffffffffffffffffffffffffffffffffffffffffffffffffff7f
f3ffffffffffffffffffffffffffffffffffffffffffffffffffffffffffff7f edffffffffffffffffffffffffffffffffffffffffffffffffffffffffffff7f
0100000000000000000000000000000000000000000000000000000000000080 0100000000000000000000000000000000000000000000000000000000000000
01ffffffffffffffffffffffffffffffffffffffffffffffffffffffffffff7f ed57ffd8c914fb201471d1c3d245ce3c746fcbe63a3679d51b6a516ebebe0e20
c34c4e1826e5d403b78e246e88aa051c36ccf0aafebffe137d148a2bf9104562 c940e5a4404157cfb1628b108db051a8d439e1a421394ec4ebccb9ec92a8ac78
47cfc5497c53dc8e61c91d17fd626ffb1c49e2bca94eed052281b510b1117a24 f1c6165d33367351b0da8f6e4511010c68174a03b6581212c71c0e1d026c3c72
87260f7a2f12495118360f02c26a470f450dadf34a413d21042b43b9d93e1309 26948d35ca62e643e26a83177332e6b6afeb9d08e4268b650f1f5bbd8d81d371
4eac077a713c57b4f4397629a4145982c661f48044dd3f96427d40b147d9742f de6a7b00deadc788eb6b6c8d20c0ae96c2f2019078fa604fee5b87d6e989ad7b
bcab477be20861e01e4a0e295284146a510150d9817763caf1a6f4b422d67042 2a292df7e32cababbd9de088d1d1abec9fc0440f637ed2fba145094dc14bea08
f4a9e534fc0d216c44b218fa0c42d99635a0127ee2e53c712f70609649fdff22 8268436f8c4126196cf64b3c7ddbda90746a378625f9813dd9b8457077256731
2810e5cbc2cc4d4eece54f61c6f69758e289aa7ab440b3cbeaa21995c2f4232b 3eb858e78f5a7254d8c9731174a94f76755fd3941c0ac93735c07ba14579630e
a45fdc55c76448c049a1ab33f17023edfb2be3581e9c7aade8a6125215e04220 d483fe813c6ba647ebbfd3ec41adca1c6130c2beeee9d9bf065c8d151c5f396e
8a2e1d30050198c65a54483123960ccc38aef6848e1ec8f5f780e8523769ba32 32888462f8b486c68ad7dd9610be5192bbeaf3b443951ac1a8118419d9fa097b
227142501b9d4355ccba290404bde41575b037693cef1f438c47f8fbf35d1165 5c37cc491da847cfeb9281d407efc41e15144c876e0170b499a96a22ed31e01e
445425117cb8c90edcbc7c1cc0e74f747f2c1efa5630a967c64f287792a48a4b ecffffffffffffffffffffffffffffffffffffffffffffffffffffffffffff7f
""".split()

NU_DST = b"QUUX-V01-CS02-with-edwards25519_XMD:SHA-512_ELL2_NU_"
RO_DST = b"QUUX-V01-CS02-with-edwards25519_XMD:SHA-512_ELL2_RO_"
K2_DST = b"QUUX-V01-CS02-with-expander-SHA256-128-long-DST-" + b"1" * 208
HASHES = [(1, "sha256"), (2, "sha512")]
H2C_FUNCS = ["crypto_core_ed25519_from_string", "crypto_core_ed25519_from_string_ro",
             "crypto_core_ristretto255_from_string", "crypto_core_ristretto255_from_string_ro"]


def pat(idt, n, salt=0):
    if idt == "Z": return bytes(n)
    if idt == "F": return bytes([0xff]) * n
    if idt == "C": return bytes((i + salt) % 251 for i in range(n))
    seed = int(os.environ.get("VERIF_SEED", "1") or 1)
    return hashlib.shake_256(b"c07-%s-%d-%d" % (idt.encode(), seed, salt)).digest(n)


def le(x, n=32):
    return (x % (1 << (8 * n))).to_bytes(n, "little")


def uniq(xs):
    return list(dict.fromkeys(xs))


# ---------------------------------------------------------------- alphabets

def saturated_field_values():
    vals = []
    for i in range(5):
        vals.append(((1 << 51) - 1) << (51 * i))
    vals.append(sum(((1 << 51) - 1) << (51 * i) for i in range(0, 5, 2)))
    vals.append(sum(((1 << 51) - 1) << (51 * i) for i in range(1, 5, 2)))
    widths = [26, 25] * 5
    pos = 0; alt = 0
    for j, w in enumerate(widths):
        vals.append(((1 << w) - 1) << pos)
        if j % 2 == 0: alt |= ((1 << w) - 1) << pos
        pos += w
    vals += [alt, M255 - alt, M255]
    return vals


def family_scalars():
    return [1, 2, 3, L - 1, 2**252, int.from_bytes(pat("R1", 32, 1), "little") % L]


def point_alphabet(tier):
    """-> (encodings, indices of the 40-point core used as add/sub columns in the quick tier)"""
    import ec25519 as ec
    fam = []
    for k in family_scalars():
        Q = ec.scalar_mult(k, ec.B)
        for T in ec.TORSION:
            e = ec.point_encode(ec.point_add(Q, T))
            fam.append(e)
            fam.append(bytes(e[:31]) + bytes([e[31] ^ 0x80]))         # the negated point
    small = ec.small_order_encodings()
    ys = list(range(0, 41)) + [P - k for k in range(1, 21)] + [P + k for k in range(0, 19)] + [2**k for k in range(248, 255)]
    ys += saturated_field_values()
    yenc = []
    for y in ys:
        y &= M255
        yenc.append(le(y)); yenc.append(le(y | (1 << 255)))
        if y + P <= M255:                                             # the non-canonical alias of a small y
            yenc.append(le(y + P)); yenc.append(le((y + P) | (1 << 255)))
    extra = []
    for i in range(6 if tier == "quick" else 32):                     # more prime-order points for the scalarmult products
        extra.append(ec.point_encode(ec.scalar_mult(int.from_bytes(pat("R2", 32, 10 + i), "little") % L, ec.B)))
    seeded = [pat("R1", 32, 40 + i) for i in range(8)] + [pat("F", 32), pat("C", 32, 3)]
    E = uniq(fam + small + yenc + extra + seeded)
    pos = {e: i for i, e in enumerate(E)}
    core = [fam[16 * j] for j in range(6)]                             # 6 prime-order points
    core += [fam[2], fam[4], fam[8], fam[12], fam[16 + 2], fam[32 + 10], fam[48 + 3], fam[64 + 14]]   # mixed order
    core += small                                                      # 14 small-order encodings incl. aliases
    core += [le(2), le(P + 3), le((P + 3) | 1 << 255), le(3), le(3 | 1 << 255), le(P - 2), le(M255), le(((1 << 51) - 1) << 51),
             le(4), le(4 | 1 << 255), extra[0], seeded[0]]
    core = uniq(core)[:40]
    return E, [pos[e] for e in core]


def ristretto_class(b):
    """why the RFC 9496 decoder rejects `b` (reporting only; the verdict is ec.ristretto_decode)"""
    import ec25519 as ec
    s = int.from_bytes(b, "little")
    if s >> 255: return "bit255"
    if s >= P: return "s>=p"
    if s & 1: return "negative-s"
    ss = s * s % P; u1 = (1 - ss) % P; u2 = (1 + ss) % P; u2s = u2 * u2 % P
    v = (-(ec.D * u1 % P * u1) - u2s) % P
    ws, isq = ec.sqrt_ratio_m1(1, v * u2s % P)
    dx = isq * u2 % P; dy = isq * dx % P * v % P
    x = ec.fe_abs(2 * s * dx % P); y = u1 * dy % P
    if not ws: return "non-square"
    if (x * y % P) & 1: return "negative-t"
    if y == 0: return "y=0"
    return "valid"


def ristretto_alphabet(tier, E):
    """-> (encodings, class of each, core column indices, number of coset-representative identities checked in the model)"""
    import ec25519 as ec
    valid = []; coset_checks = 0; odd = []
    ks = [0] + family_scalars() + [int.from_bytes(pat("R2", 32, 60 + i), "little") % L for i in range(4 if tier == "quick" else 24)]
    for k in ks:
        Q = ec.scalar_mult(k, ec.B)
        e = ec.ristretto_encode(Q)
        for T in ec.TORSION[:4]:                                       # the four representatives of the coset encode identically
            if ec.ristretto_encode(ec.point_add(Q, T)) != e:
                raise AssertionError("reference model: ristretto_encode is not constant on the coset of %d*B" % k)
            coset_checks += 1
        valid.append(e)
        valid.append(ec.ristretto_encode(ec.point_neg(Q)))
        if k in family_scalars():
            for T in ec.TORSION[4:6]:                                  # not in 2E: whatever the encoder produces, classify it
                odd.append(ec.ristretto_encode(ec.point_add(Q, T)))
    valid = uniq(valid)
    derived = []
    for e in valid:
        s = int.from_bytes(e, "little")
        derived += [le(P - s), le(s | 1 << 255), le((P - s) | 1 << 255)]
        if s:
            si = ec.inv(s)
            for c in (si, ec.SQRT_M1 * si % P, ec.SQRT_M1 * s % P, ec.SQRT_M1 * (P - si) % P):
                derived += [le(ec.fe_abs(c)), le(P - ec.fe_abs(c))]
    small = [le(k) for k in range(0, 401, 2)] + [le(k) for k in (1, 3, 5, 19)] + [le(P - 1 - 2 * k) for k in range(0, 12)] + [le(P - 2 * k) for k in range(1, 6)]
    alias = []
    for k in range(0, 19):
        alias += [le(P + k), le((P + k) | 1 << 255)]
    sat = []
    for v in saturated_field_values():
        sat += [le(v & ~1 & M255), le(v & M255)]
    bad = [bytes.fromhex(h) for h in RFC9496_BAD]
    seeded = [pat("R1", 32, 80 + i) for i in range(8)] + [bytes([x & 0xfe]) + y for x, y in ((pat("R1", 1, 90 + i)[0], pat("R1", 31, 95 + i)) for i in range(8))]
    R = uniq(valid + derived + odd + small + alias + sat + bad + seeded + list(E))
    cls = [ristretto_class(b) for b in R]
    for b, c in zip(R, cls):
        if (c == "valid") != (ec.ristretto_decode(b) is not None):
            raise AssertionError("reference model: classification and ristretto_decode disagree on %s" % b.hex())
    pos = {e: i for i, e in enumerate(R)}
    core = valid[:16]
    for want in ("bit255", "s>=p", "negative-s", "non-square", "negative-t", "y=0"):
        core += [b for b, c in zip(R, cls) if c == want][:4]
    core = uniq(core)[:40]
    return R, cls, [pos[e] for e in core], coset_checks


def scalar_alphabet(tier):
    v = [0, 1, 2, 3, 7, 8, L - 2, L - 1, L, L + 1, 2 * L - 1, 2 * L, 2 * L + 1, 4 * L, 7 * L, 8 * L, 8 * L + 1, 15 * L, 2**253, 2**254, 2**254 + 8,
         2**256 - 1, (L - 1) // 2, (L + 1) // 2, 2**128, 2**255 - 19, 2**255 + L, 2**255 + 7 * L, 3 * L, 5 * L, 6 * L, 4 * L + 4, L + 2, 16, 2**251, 2**253 - 1,
         2**253 + 1, 2**254 - 1, 2**255 - 20, 2**255 + L - 1, 2**256 - 2, 2**256 - L, 2**252 + L, 2**64 - 1, 2**64, 2**192]
    for k in range(0, 4):
        v += [2**252 + k, 2**252 - k, 2**255 + k, 2**255 - k]
    ev = od = 0
    for i in range(12):
        limb = ((1 << (21 if i < 11 else 25)) - 1) << (21 * i)
        v.append(limb)
        if i % 2: od |= limb
        else: ev |= limb
    v += [ev, od]
    for i in range(4 if tier == "quick" else 64):
        r = int.from_bytes(pat("R1", 32, 200 + i), "little")
        v += [r, r % L] if i < 2 else [r if i % 2 else r % L]
    return uniq(le(x) for x in v)


def base_scalar_alphabet(tier):
    """Scalars used for the fixed-base multiplications only (signed radix-16 recoding / window carries): every pair of adjacent 32-bit words
    (and, thorough, 64-bit words) drawn from the nibble-carry alphabet - digits 7/8 are where the signed recoding carries, 0xf.. where a
    carry ripples - on a zero and on a pseudo-random background, plus every single-byte position of 0x77/0x78/0x87/0x88/0xf8 rows."""
    words = [0x77777777, 0x77777778, 0x88888888, 0x87777777, 0xffffffff, 0x78888888, 0x00000008, 0xf7777777]
    bg = [0, int.from_bytes(pat("R1", 32, 777), "little")]
    v = []
    for i in range(1, 8):
        for hi in words:
            for lo in words:
                for b in bg:
                    x = (b & ~(((1 << 64) - 1) << (32 * (i - 1)))) | (lo << (32 * (i - 1))) | (hi << (32 * i))
                    v.append(x & ((1 << 256) - 1))
    for fill in (0x77, 0x78, 0x87, 0x88, 0xf8, 0x7f, 0x80):
        v.append(int.from_bytes(bytes([fill]) * 32, "little"))
        for j in range(32):
            v.append(int.from_bytes(bytes([0x77] * j + [fill] + [0x77] * (31 - j)), "little"))
    if tier != "quick":
        w64 = [0x7777777777777777, 0x7777777777777778, 0x8888888888888888, 0xffffffffffffffff, 0x8777777777777777]
        for i in range(1, 4):
            for hi in w64:
                for lo in w64:
                    v.append((lo << (64 * (i - 1))) | (hi << (64 * i)))
    return uniq(le(x) for x in v)


def scalar64_alphabet(tier, S):
    v = [int.from_bytes(s, "little") for s in S]
    v += [x << 256 for x in v[:24]]
    v += [2**512 - 1, L << 256, (L << 256) + 1, (L << 256) - 1, L * L, L * L + 1, L * L - 1, 2**504, 2**511, (2**256 - 1) * (2**256 - 1)]
    ev = od = 0
    for i in range(24):
        limb = ((1 << (21 if i < 23 else 29)) - 1) << (21 * i)
        v.append(limb)
        if i % 2: od |= limb
        else: ev |= limb
    v += [ev, od]
    v += [int.from_bytes(pat("R1", 64, 300 + i), "little") for i in range(4 if tier == "quick" else 64)]
    return uniq(le(x, 64) for x in v)


def uniform32_alphabet(tier, E, S):
    return uniq(list(E) + list(S) + [pat("R2", 32, 400 + i) for i in range(64 if tier == "quick" else 1024)])


def uniform64_alphabet(tier, S64):
    import ec25519 as ec
    fe = [0, 1, 2, P - 1, P, P + 1, M255, 2**255, 2**256 - 1, ec.SQRT_M1, P - ec.SQRT_M1, ((1 << 51) - 1) << 51]
    pairs = [le(a) + le(b) for a in fe for b in fe]
    return uniq(list(S64) + pairs + [pat("R2", 64, 500 + i) for i in range(32 if tier == "quick" else 512)])


def contexts():
    """(label, ctx argument (None = NULL), DST bytes the reference is fed)"""
    c255 = bytes(0x21 + (i * 7) % 94 for i in range(255))
    c300 = bytes(0x21 + (i * 11) % 94 for i in range(300))
    return [("NULL/ctxlen=0", None, b""), ("empty/ctxlen=0", b"", b""), ("rfc9380-nu/ctxlen=52", NU_DST, NU_DST),
            ("rfc9380-ro/ctxlen=52", RO_DST, RO_DST), ("printable/ctxlen=255", c255, c255), ("rfc9380-k2/ctxlen=256", K2_DST, K2_DST),
            ("printable/ctxlen=300", c300, c300)]


def messages(tier):
    if tier == "quick":
        lens = [0, 1, 2, 3, 15, 16, 31, 32, 33, 47, 48, 49, 52, 53, 54, 55, 56, 57, 60, 61, 63, 64, 65, 100, 108, 109, 110, 111, 112, 113, 119, 120, 121,
                124, 125, 126, 127, 128, 129, 150, 183, 184, 199, 200]
    else:
        lens = list(range(0, 201))
    out = [("msglen=%d" % n, bytes((i * 7 + n) & 0xff for i in range(n))) for n in lens]
    out += [("msg=rfc-empty", b""), ("msg=rfc-abc", b"abc"), ("msg=rfc-abcdef0123456789", b"abcdef0123456789"),
            ("msg=rfc-q128", b"q128_" + b"q" * 128), ("msg=rfc-a512", b"a512_" + b"a" * 512)]
    return out


# ---------------------------------------------------------------- reference jobs (parent pool, fork)

def _ref_job(job):
    import ec25519 as ec
    kind = job[0]
    if kind == "pinfo":
        enc = job[1]
        v = int.from_bytes(enc, "little")
        pt = ec.point_decode(enc)                                      # lenient: y >= p reduced, negative zero accepted
        noncanon = (v & M255) >= P or (pt is not None and pt[0] == 0 and (v >> 255) == 1)
        if pt is None:
            cls = "off-curve"
        elif ec.has_small_order(pt):
            cls = "small-order-%d" % ec.point_order(pt)
        else:
            o = ec.point_order(ec.scalar_mult(L, pt))
            cls = "prime-order" if o == 1 else "order-%dL" % o
        if noncanon: cls = "noncanonical-" + cls
        valid = bool(ec.is_valid_point(enc))
        if valid != (cls == "prime-order"):
            raise AssertionError("reference model: is_valid_point and the order classification disagree on %s" % enc.hex())
        return cls, valid, pt
    if kind == "addsub":
        p, cols = job[1], job[2]
        return [(ec.point_encode(ec.point_add(p, q)), ec.point_encode(ec.point_sub(p, q))) for q in cols]
    if kind == "smul":
        p, S = job[1], job[2]
        out = []
        for s in S:
            a = ec.scalar_mult(ec.clamp(s), p); b = ec.scalar_mult(int.from_bytes(s, "little") & M255, p)
            out.append((None if ec.is_identity(a) else ec.point_encode(a), None if ec.is_identity(b) else ec.point_encode(b)))
        return out
    if kind == "base":
        out = []
        for s in job[1]:
            a = ec.scalar_mult(ec.clamp(s), ec.B); b = ec.scalar_mult(int.from_bytes(s, "little") & M255, ec.B)
            out.append((None if ec.is_identity(a) else ec.point_encode(a), None if ec.is_identity(b) else ec.point_encode(b), ec.ristretto_encode(b)))
        return out
    if kind == "raddsub":
        p, cols = job[1], job[2]
        return [(ec.ristretto_encode(ec.point_add(p, q)), ec.ristretto_encode(ec.point_sub(p, q))) for q in cols]
    if kind == "rsmul":
        p, S = job[1], job[2]
        return [ec.ristretto_encode(ec.scalar_mult(int.from_bytes(s, "little") & M255, p)) for s in S]
    if kind == "u32":
        out = []
        for r in job[1]:
            a = ec.map_to_curve_elligator2_from_uniform32(r, "sign-x")
            out.append((a, ec.in_prime_subgroup(ec.point_decode(a, allow_noncanonical=False))))
        return out
    if kind == "u64":
        out = []
        for h in job[1]:
            e = ec.ristretto_from_uniform_bytes(h)
            out.append((e, ec.ristretto_decode(e) is not None))
        return out
    if kind == "h2c":
        out = []
        for fi, hn, dst, msg in job[1]:
            if fi == 0:
                pt = ec.encode_to_curve_point(msg, dst, hn); out.append((ec.point_encode(pt), ec.in_prime_subgroup(pt)))
            elif fi == 1:
                pt = ec.hash_to_curve_point(msg, dst, hn); out.append((ec.point_encode(pt), ec.in_prime_subgroup(pt)))
            else:
                e = ec.ristretto_hash_to_group(msg, dst, hn); out.append((e, ec.ristretto_decode(e) is not None))
        return out
    raise ValueError(kind)


def _chunks(xs, n):
    return [xs[i:i + n] for i in range(0, len(xs), n)]


def build_plan(tier):
    import ec25519 as ec
    E, ecore = point_alphabet(tier)
    S = scalar_alphabet(tier)
    S64 = scalar64_alphabet(tier, S)
    SB = [x for x in base_scalar_alphabet(tier) if x not in set(S)]
    R, rcls, rcore, coset_checks = ristretto_alphabet(tier, E)
    U32 = uniform32_alphabet(tier, E, S)
    U64 = uniform64_alphabet(tier, S64)
    ctxs, msgs = contexts(), messages(tier)
    with mp.Pool(16) as pool:
        einfo = pool.map(_ref_job, [("pinfo", e) for e in E], chunksize=4)
        epts = [x[2] for x in einfo]
        rpts = [ec.ristretto_decode(b) if c == "valid" else None for b, c in zip(R, rcls)]
        ecols = ecore if tier == "quick" else list(range(len(E)))
        rcols = rcore if tier == "quick" else list(range(len(R)))
        ecols_ok = [j for j in ecols if epts[j] is not None]
        rcols_ok = [j for j in rcols if rpts[j] is not None]
        jobs = []; tags = []
        for i, p in enumerate(epts):
            if p is not None:
                jobs.append(("addsub", p, [epts[j] for j in ecols_ok])); tags.append(("addsub", i))
        for i, x in enumerate(einfo):
            if x[1]:
                jobs.append(("smul", epts[i], S)); tags.append(("smul", i))
        for ch in _chunks(list(range(len(S))), 8):
            jobs.append(("base", [S[i] for i in ch])); tags.append(("base", ch))
        for ch in _chunks(list(range(len(SB))), 8):
            jobs.append(("base", [SB[i] for i in ch])); tags.append(("baseB", ch))
        for i, p in enumerate(rpts):
            if p is not None:
                jobs.append(("raddsub", p, [rpts[j] for j in rcols_ok])); tags.append(("raddsub", i))
                jobs.append(("rsmul", p, S)); tags.append(("rsmul", i))
        for ch in _chunks(list(range(len(U32))), 16):
            jobs.append(("u32", [U32[i] for i in ch])); tags.append(("u32", ch))
        for ch in _chunks(list(range(len(U64))), 16):
            jobs.append(("u64", [U64[i] for i in ch])); tags.append(("u64", ch))
        hcases = []                                                    # (function index, alg index, context index, message index)
        for fi in range(3):                                            # ristretto _ro is the same map: shares the reference of index 2
            for ai in range(2):
                for ci in range(len(ctxs)):
                    for mi in range(len(msgs)):
                        hcases.append((fi, ai, ci, mi))
        for ch in _chunks(list(range(len(hcases))), 16):
            jobs.append(("h2c", [(hcases[i][0], HASHES[hcases[i][1]][1], ctxs[hcases[i][2]][2], msgs[hcases[i][3]][1]) for i in ch])); tags.append(("h2c", ch))
        order = sorted(range(len(jobs)), key=lambda i: -len(jobs[i][-1]) if jobs[i][0] in ("smul", "rsmul", "addsub", "raddsub") else 0)
        outs_sorted = pool.map(_ref_job, [jobs[i] for i in order], chunksize=1)
        outs = [None] * len(jobs)
        for i, o in zip(order, outs_sorted):
            outs[i] = o
    baseB = [None] * len(SB)
    addsub = {}; smul = {}; base = [None] * len(S); raddsub = {}; rsmul = {}
    u32 = [None] * len(U32); u64 = [None] * len(U64); h2c = {}
    for (kind, ref), o in zip(tags, outs):
        if kind == "addsub":
            for j, v in zip(ecols_ok, o): addsub[(ref, j)] = v
        elif kind == "smul":
            smul[ref] = o
        elif kind == "base":
            for i, v in zip(ref, o): base[i] = v
        elif kind == "baseB":
            for i, v in zip(ref, o): baseB[i] = v
        elif kind == "raddsub":
            for j, v in zip(rcols_ok, o): raddsub[(ref, j)] = v
        elif kind == "rsmul":
            rsmul[ref] = o
        elif kind == "u32":
            for i, v in zip(ref, o): u32[i] = v
        elif kind == "u64":
            for i, v in zip(ref, o): u64[i] = v
        elif kind == "h2c":
            for i, v in zip(ref, o): h2c[hcases[i]] = v
    return {"tier": tier, "E": E, "einfo": [(c, v, p is not None) for c, v, p in einfo], "ecols": ecols, "addsub": addsub, "smul": smul, "base": base + baseB,
            "S": S, "SB": SB, "S64": S64, "R": R, "rcls": rcls, "rcols": rcols, "raddsub": raddsub, "rsmul": rsmul, "U32": U32, "u32": u32, "U64": U64, "u64": u64,
            "ctxs": ctxs, "msgs": msgs, "h2c": h2c, "coset_checks": coset_checks, "struct": structured_point_outputs()}


def structured_point_outputs():
    """(kind, scalar, point_encoding, expected_encoding): inputs built BACKWARDS so that the RESULT of the scalar multiplication is a
    near-identity / near-zero encoding (identity + one byte, one non-zero byte at every position, ...). The identity tests on the result
    (crypto_scalarmult_ed25519: 01 00..00; ristretto255: all-zero) must not mistake these valid results for the identity."""
    import ec25519 as ec
    out = []
    scal = pat("R1", 32, 77)
    n_clamped = ec.clamp(scal); n_raw = int.from_bytes(scal, "little") & ((1 << 255) - 1)
    inv_c, inv_r = pow(n_clamped, -1, L), pow(n_raw % L, -1, L)
    # Edwards: target y = 1 + k*256^j (the identity is y = 1) and y = k*256^j
    seen = {}
    for j in range(32):
        for k in (1, 2, 3, 5, 7, 0x10, 0x80, 0xfe):
            for base in (1, 0):
                y = (base + (k << (8 * j))) % (1 << 255)
                if y >= P or seen.get((j, base), 0) >= 1: continue
                for sign in (0, 1):
                    enc = le(y | (sign << 255))
                    pt = ec.point_decode(enc, allow_noncanonical=False)
                    if pt is None or not ec.in_prime_subgroup(pt) or ec.is_identity(pt): continue
                    seen[(j, base)] = seen.get((j, base), 0) + 1
                    out.append(("ed25519", scal, ec.point_encode(ec.scalar_mult(inv_c, pt)), enc))
                    out.append(("ed25519_noclamp", scal, ec.point_encode(ec.scalar_mult(inv_r, pt)), enc))
                    break
    # Ristretto: target encoding s = k*256^j (all-zero is the identity)
    seen = {}
    for j in range(32):
        for k in (2, 4, 6, 8, 0x10, 0x80, 0xfe, 1, 3):
            s_ = (k << (8 * j)) % (1 << 255)
            if s_ == 0 or s_ >= P or seen.get(j, 0) >= 1: continue
            enc = le(s_)
            pt = ec.ristretto_decode(enc)
            if pt is None: continue
            seen[j] = 1
            src = ec.ristretto_encode(ec.ristretto_scalar_mult(inv_r, pt))
            if ec.ristretto_encode(ec.ristretto_scalar_mult(n_raw % L, ec.ristretto_decode(src))) != enc: continue
            out.append(("ristretto255", scal, src, enc))
    return out


# ---------------------------------------------------------------- one (variant, cfg) = one spawned process

def _f6_emulation(msg, ctx, n, hn):
    """expand_message_xmd as core_h2c.c computes it for len(ctx) > 255: b_0 with DST = H(prefix||ctx), b_i with DST = b_0.
    Only used to annotate a mismatch in the failure detail, never for the verdict."""
    H, blk = (hashlib.sha256, 64) if hn == "sha256" else (hashlib.sha512, 128)
    d = H(b"H2C-OVERSIZE-DST-" + ctx).digest()
    b0 = H(bytes(blk) + msg + bytes([0, n, 0]) + d + bytes([len(d)])).digest()
    out = b""; ux = bytes(len(d)); i = 0
    while len(out) < n:
        i += 1
        ux = H(bytes(a ^ b for a, b in zip(ux, b0)) + bytes([i]) + b0 + bytes([len(d)])).digest()
        out += ux
    return out[:n]


def _backend_worker(args):
    variant, cfg, plan = args
    import ctypes as C
    import ec25519 as ec
    lib = pylib.load_sodium(variant, cfg)
    feats = pylib.features(lib)
    tag = variant if not cfg else "%s[-%s]" % (variant, cfg)
    for f in H2C_FUNCS:
        getattr(lib, f).argtypes = [C.c_char_p, C.c_char_p, C.c_char_p, C.c_size_t, C.c_int]
    fails = []; capcount = {}; totals = {}; info = {}
    st = {"n": 0, "nt": 0}

    def fail(func, cls, rest, detail):
        k = (func, cls)
        totals["%s | %s" % k] = totals.get("%s | %s" % k, 0) + 1
        capcount[k] = capcount.get(k, 0) + 1
        if capcount[k] <= CAP:
            fails.append(("%s/%s/%s" % (func, tag, rest), detail))

    def note(k):
        info[k] = info.get(k, 0) + 1

    E, einfo, S, S64, R, rcls = plan["E"], plan["einfo"], plan["S"], plan["S64"], plan["R"], plan["rcls"]
    q = pylib.buf(32); q2 = pylib.buf(32)
    zero32 = bytes(32)

    # ---- 1. crypto_core_ed25519_is_valid_point on every encoding
    for e, (cls, valid, dec) in zip(E, einfo):
        r = lib.crypto_core_ed25519_is_valid_point(e)
        st["n"] += 1; st["nt"] += valid
        if r != (1 if valid else 0):
            fail("crypto_core_ed25519_is_valid_point", cls, "p=%s/class=%s" % (e.hex(), cls),
                 "returned %d, the model says %s: the encoding is a %s point%s" % (r, "valid" if valid else "not valid", cls,
                 "" if valid or not dec else "; L*P = %s" % ec.point_encode(ec.scalar_mult(L, ec.point_decode(e))).hex()))

    # ---- 2. crypto_core_ed25519_add / _sub
    addsub = plan["addsub"]
    for i, e in enumerate(E):
        for j in plan["ecols"]:
            f = E[j]
            want = addsub.get((i, j))
            for name, fn, k in (("crypto_core_ed25519_add", lib.crypto_core_ed25519_add, 0), ("crypto_core_ed25519_sub", lib.crypto_core_ed25519_sub, 1)):
                r = fn(q, e, f)
                st["n"] += 1
                if want is None:
                    if r != -1:
                        fail(name, "undecodable", "p=%s/q=%s/class=%s,%s" % (e.hex(), f.hex(), einfo[i][0], einfo[j][0]),
                             "an input decodes to no curve point but the call returned %d (%s)" % (r, q.raw.hex()))
                else:
                    st["nt"] += 1
                    if r != 0:
                        note("%s: rejected inputs that decode to curve points (allowed, not judged)" % name)
                    elif q.raw != want[k]:
                        fail(name, "wrong-result", "p=%s/q=%s/class=%s,%s" % (e.hex(), f.hex(), einfo[i][0], einfo[j][0]), "got %s want %s" % (q.raw.hex(), want[k].hex()))
                    elif einfo[i][0] != "prime-order" or einfo[j][0] != "prime-order":
                        note("%s: accepted non-canonical / small-order / mixed-order inputs with the exact result (allowed)" % name)

    # ---- 3. crypto_scalarmult_ed25519 (_noclamp) on scalars x points, _base (_noclamp) on scalars
    smul = plan["smul"]
    for pi, e in enumerate(E):
        cls, valid, dec = einfo[pi]
        for si, s in enumerate(S):
            for name, fn, k in (("crypto_scalarmult_ed25519", lib.crypto_scalarmult_ed25519, 0), ("crypto_scalarmult_ed25519_noclamp", lib.crypto_scalarmult_ed25519_noclamp, 1)):
                r = fn(q, s, e)
                st["n"] += 1
                rest = "n=%s/p=%s/class=%s" % (s.hex(), e.hex(), cls)
                if not valid:
                    if r != -1:
                        fail(name, cls, rest, "the point must be refused (%s) but the call returned %d (%s)" % (cls, r, q.raw.hex()))
                    continue
                want = smul[pi][si][k]
                if s == zero32 or want is None:
                    if r != -1:
                        fail(name, "identity-or-zero", rest, "n is zero / the product is the identity but the call returned %d" % r)
                else:
                    st["nt"] += 1
                    if r != 0 or q.raw != want:
                        fail(name, "wrong-result", rest, "ret %d got %s want %s" % (r, q.raw.hex(), want.hex()))
    for si, s in enumerate(S + plan["SB"]):
        for name, fn, k in (("crypto_scalarmult_ed25519_base", lib.crypto_scalarmult_ed25519_base, 0), ("crypto_scalarmult_ed25519_base_noclamp", lib.crypto_scalarmult_ed25519_base_noclamp, 1)):
            r = fn(q, s)
            st["n"] += 1
            want = plan["base"][si][k]
            if s == zero32 or want is None:
                if r != -1:
                    fail(name, "identity-or-zero", "n=%s" % s.hex(), "n is zero / the product is the identity but the call returned %d" % r)
            else:
                st["nt"] += 1
                if r != 0 or q.raw != want:
                    fail(name, "wrong-result", "n=%s" % s.hex(), "ret %d got %s want %s" % (r, q.raw.hex(), want.hex()))

    # ---- 4. ristretto255: is_valid_point, add, sub, scalarmult, scalarmult_base
    for b, c in zip(R, rcls):
        r = lib.crypto_core_ristretto255_is_valid_point(b)
        st["n"] += 1; st["nt"] += c == "valid"
        if r != (1 if c == "valid" else 0):
            fail("crypto_core_ristretto255_is_valid_point", c, "p=%s/class=%s" % (b.hex(), c), "returned %d, RFC 9496 decoding says: %s" % (r, c))
    raddsub = plan["raddsub"]
    for i, e in enumerate(R):
        for j in plan["rcols"]:
            f = R[j]
            want = raddsub.get((i, j))
            for name, fn, k in (("crypto_core_ristretto255_add", lib.crypto_core_ristretto255_add, 0), ("crypto_core_ristretto255_sub", lib.crypto_core_ristretto255_sub, 1)):
                r = fn(q, e, f)
                st["n"] += 1
                rest = "p=%s/q=%s/class=%s,%s" % (e.hex(), f.hex(), rcls[i], rcls[j])
                if want is None:
                    if r != -1:
                        fail(name, "invalid-input", rest, "an input is not a valid encoding but the call returned %d (%s)" % (r, q.raw.hex()))
                else:
                    st["nt"] += 1
                    if r != 0 or q.raw != want[k]:
                        fail(name, "wrong-result", rest, "ret %d got %s want %s" % (r, q.raw.hex(), want[k].hex()))
    rsmul = plan["rsmul"]
    for pi, e in enumerate(R):
        for si, s in enumerate(S):
            r = lib.crypto_scalarmult_ristretto255(q, s, e)
            st["n"] += 1
            rest = "n=%s/p=%s/class=%s" % (s.hex(), e.hex(), rcls[pi])
            if rcls[pi] != "valid":
                if r != -1:
                    fail("crypto_scalarmult_ristretto255", rcls[pi], rest, "invalid encoding (%s) but the call returned %d" % (rcls[pi], r))
                continue
            want = rsmul[pi][si]
            if want == zero32:
                if r != -1:
                    fail("crypto_scalarmult_ristretto255", "identity", rest, "the product is the identity but the call returned %d" % r)
            else:
                st["nt"] += 1
                if r != 0 or q.raw != want:
                    fail("crypto_scalarmult_ristretto255", "wrong-result", rest, "ret %d got %s want %s" % (r, q.raw.hex(), want.hex()))
    for si, s in enumerate(S + plan["SB"]):
        r = lib.crypto_scalarmult_ristretto255_base(q, s)
        st["n"] += 1
        want = plan["base"][si][2]
        if want == zero32:
            if r != -1:
                fail("crypto_scalarmult_ristretto255_base", "identity", "n=%s" % s.hex(), "the product is the identity but the call returned %d" % r)
        else:
            st["nt"] += 1
            if r != 0 or q.raw != want:
                fail("crypto_scalarmult_ristretto255_base", "wrong-result", "n=%s" % s.hex(), "ret %d got %s want %s" % (r, q.raw.hex(), want.hex()))

    # ---- 5. scalars mod L (ed25519 and the ristretto255 aliases)
    Si = [int.from_bytes(s, "little") for s in S]
    red = uniq([le(x % L) for x in Si])
    for grp in ("ed25519", "ristretto255"):
        pre = "crypto_core_%s_scalar_" % grp
        fadd, fsub, fmul = getattr(lib, pre + "add"), getattr(lib, pre + "sub"), getattr(lib, pre + "mul")
        fneg, fcomp, finv, fred, fcan = (getattr(lib, pre + x) for x in ("negate", "complement", "invert", "reduce", "is_canonical"))
        for f in (fadd, fsub, fmul, fneg, fcomp, fred):
            f.restype = None
        for a in red:
            ai = int.from_bytes(a, "little")
            for b in red:
                bi = int.from_bytes(b, "little")
                fadd(q, a, b); fsub(q2, a, b)
                st["n"] += 2; st["nt"] += 2
                if q.raw != le((ai + bi) % L):
                    fail(pre + "add", "reduced-pair", "x=%s/y=%s" % (a.hex(), b.hex()), "got %s want %s" % (q.raw.hex(), le((ai + bi) % L).hex()))
                if q2.raw != le((ai - bi) % L):
                    fail(pre + "sub", "reduced-pair", "x=%s/y=%s" % (a.hex(), b.hex()), "got %s want %s" % (q2.raw.hex(), le((ai - bi) % L).hex()))
        # the comparison with L at every distance 2^k on both sides (a word-wise or limb-wise comparison decides on the first differing word),
        # and with single words of L replaced by 0 / all ones
        cmpv = [L + (1 << k) for k in range(256) if L + (1 << k) < (1 << 256)] + [L - (1 << k) for k in range(253) if L - (1 << k) >= 0]
        cmpv += [L | (1 << k) for k in range(256)] + [L & ~(1 << k) for k in range(253)]
        for w in range(4):
            cmpv += [L & ~(((1 << 64) - 1) << (64 * w)), (L | (((1 << 64) - 1) << (64 * w))) & ((1 << 256) - 1)]
        for ci in sorted(set(cmpv)):
            st["n"] += 1; st["nt"] += 1
            r = fcan(le(ci))
            if r != (1 if ci < L else 0):
                fail(pre + "is_canonical", "distance", "s=%s" % le(ci).hex(), "returned %d, s %s L" % (r, "<" if ci < L else ">="))
            fred32 = getattr(lib, pre + "negate")
        for a, ai in zip(S, Si):
            for b, bi in zip(S, Si):
                fmul(q, a, b)
                st["n"] += 1; st["nt"] += 1
                if q.raw != le(ai * bi % L):
                    fail(pre + "mul", "pair", "x=%s/y=%s" % (a.hex(), b.hex()), "got %s want %s" % (q.raw.hex(), le(ai * bi % L).hex()))
            st["n"] += 4; st["nt"] += 4
            fneg(q, a)
            if q.raw != le((-ai) % L):
                fail(pre + "negate", "any", "s=%s" % a.hex(), "got %s want %s" % (q.raw.hex(), le((-ai) % L).hex()))
            fcomp(q, a)
            if q.raw != le((1 - ai) % L):
                fail(pre + "complement", "any", "s=%s" % a.hex(), "got %s want %s" % (q.raw.hex(), le((1 - ai) % L).hex()))
            r = fcan(a)
            if r != (1 if ai < L else 0):
                fail(pre + "is_canonical", "any", "s=%s" % a.hex(), "returned %d, s %s L" % (r, "<" if ai < L else ">="))
            r = finv(q, a)
            if ai == 0:
                if r != -1:
                    fail(pre + "invert", "zero", "s=%s" % a.hex(), "invert(0) returned %d" % r)
            elif ai % L == 0:
                note("%sinvert: non-reduced multiple of L (no inverse exists) returned %d, output %s (recorded, not judged)" % (pre, r, q.raw.hex()))
            elif r != 0 or q.raw != le(pow(ai, -1, L)):
                fail(pre + "invert", "any", "s=%s" % a.hex(), "ret %d got %s want %s" % (r, q.raw.hex(), le(pow(ai, -1, L)).hex()))
        for a in S64:
            fred(q, a)
            st["n"] += 1; st["nt"] += 1
            w = le(int.from_bytes(a, "little") % L)
            if q.raw != w:
                fail(pre + "reduce", "any", "s=%s" % a.hex(), "got %s want %s" % (q.raw.hex(), w.hex()))

    # ---- 6. maps: from_uniform, from_hash, from_string(_ro)
    for r32, (want, insub) in zip(plan["U32"], plan["u32"]):
        r = lib.crypto_core_ed25519_from_uniform(q, r32)
        st["n"] += 1; st["nt"] += 1
        if not insub:
            fail("reference-selfcheck/from_uniform", "ref", "r=%s" % r32.hex(), "the reference output is not in the prime-order subgroup")
        if r != 0 or q.raw != want:
            got = q.raw
            pt = ec.point_decode(got, allow_noncanonical=False)
            fail("crypto_core_ed25519_from_uniform", "mismatch", "r=%s" % r32.hex(),
                 "ret %d got %s want %s (Elligator 2, bit 255 = sign of x, times 8); output %s; equals the rfc-sign variant: %s" %
                 (r, got.hex(), want.hex(), "is not a canonical curve point" if pt is None else ("is in the prime-order subgroup" if ec.in_prime_subgroup(pt) else "is NOT in the prime-order subgroup"),
                  got == ec.map_to_curve_elligator2_from_uniform32(r32, "rfc-sign")))
    for h64, (want, ok) in zip(plan["U64"], plan["u64"]):
        r = lib.crypto_core_ristretto255_from_hash(q, h64)
        st["n"] += 1; st["nt"] += 1
        if not ok:
            fail("reference-selfcheck/from_hash", "ref", "r=%s" % h64.hex(), "the reference output does not decode")
        if r != 0 or q.raw != want:
            fail("crypto_core_ristretto255_from_hash", "mismatch", "r=%s" % h64.hex(), "ret %d got %s want %s; output is %s" %
                 (r, q.raw.hex(), want.hex(), "a valid element" if ec.ristretto_decode(q.raw) is not None else "NOT a valid ristretto255 encoding"))
    ctxs, msgs, h2c = plan["ctxs"], plan["msgs"], plan["h2c"]
    for fi, fname in enumerate(H2C_FUNCS):
        fn = getattr(lib, fname)
        for ai, (alg, hn) in enumerate(HASHES):
            for ci, (clabel, carg, dst) in enumerate(ctxs):
                for mi, (mlabel, msg) in enumerate(msgs):
                    want, ok = h2c[(min(fi, 2), ai, ci, mi)]
                    r = fn(q, carg, msg, len(msg), alg)
                    st["n"] += 1; st["nt"] += 1
                    rest = "alg=%s/ctx=%s/%s" % (hn, clabel, mlabel)
                    if not ok:
                        fail("reference-selfcheck/" + fname, "ref", rest, "the reference output is not in the prime-order group")
                    if r == 0 and q.raw == want:
                        continue
                    got = q.raw
                    if fi < 2:
                        pt = ec.point_decode(got, allow_noncanonical=False)
                        member = "not a canonical curve point" if pt is None else ("in the prime-order subgroup" if ec.in_prime_subgroup(pt) else "NOT in the prime-order subgroup")
                    else:
                        member = "a valid ristretto255 element" if ec.ristretto_decode(got) is not None else "NOT a valid ristretto255 encoding"
                    why = ""
                    if len(dst) > 255:
                        n = (48, 96, 64, 64)[fi]
                        u = _f6_emulation(msg, dst, n, hn)
                        if fi < 2:
                            pts = [ec.clear_cofactor(ec.map_to_curve_elligator2_edwards25519(int.from_bytes(u[48 * k:48 * k + 48], "big") % P)) for k in range(n // 48)]
                            emu = ec.point_encode(pts[0] if fi == 0 else ec.point_add(pts[0], pts[1]))
                        else:
                            emu = ec.ristretto_from_uniform_bytes(u)
                        why = "; the output %s what RFC 9380 gives when b_1.. are computed with DST = b_0 instead of H(\"H2C-OVERSIZE-DST-\"||ctx)" % ("EQUALS" if emu == got else "does not equal")
                        # the known finding F6 is exactly this deviation: anything else with an oversized context is a different violation
                        rest += "/deviation=f6-dst-is-b0" if (emu == got and r == 0) else "/deviation=other"
                    fail(fname, "%s/%s" % (hn, clabel), rest, "ret %d got %s want %s (%s, DST = %d context bytes); output is %s%s" %
                         (r, got.hex(), want.hex(), ("encode_to_curve", "hash_to_curve", "hash_to_ristretto255", "hash_to_ristretto255")[fi], len(dst), member, why))
    # ---- structured results: near-identity outputs must be returned, not reported as the identity
    for kind, n_, src, want in plan.get("struct", []):
        f = {"ed25519": lib.crypto_scalarmult_ed25519, "ed25519_noclamp": lib.crypto_scalarmult_ed25519_noclamp, "ristretto255": lib.crypto_scalarmult_ristretto255}[kind]
        r = f(q, n_, src); st["n"] += 1; st["nt"] += 1
        if r != 0 or q.raw != want:
            fail("crypto_scalarmult_%s" % kind, "structured-result", "n=%s/p=%s/class=structured-result" % (n_.hex(), src.hex()),
                 "ret %d got %s, the exact result is the valid non-identity element %s" % (r, q.raw.hex(), want.hex()))
    return tag, feats, st["n"], st["nt"], fails, totals, info


# ---------------------------------------------------------------- driver

def prepare(tier):
    pass


def main(tier):
    t0 = time.time()
    import ec25519 as ec
    plan = build_plan(tier)
    t_ref = time.time() - t0
    res = common.Result()
    from vf import build
    for v in sorted(set(v for v, _ in BACKENDS)):
        build.build(v)                      # build in the parent: the workers must only load
    ctx = mp.get_context("spawn")
    outs = pylib.pool_map(_backend_worker, [(v, c, plan) for v, c in BACKENDS], len(BACKENDS))
    total = nontrivial = 0; tags = []; fam = {}
    for tag, feats, n, nt, fails, totals, info in outs:
        total += n; nontrivial += nt; tags.append(tag)
        for k, d in fails:
            res.fails.append((k, d, ORIGIN))
        for f, c in totals.items():
            fam[f] = fam.get(f, 0) + c
        for k, c in sorted(info.items()):
            res.infos.append("%s: %s x%d" % (tag, k, c))
    for f, c in sorted(fam.items()):
        print("INFO failing: %s: %d cases over %d variants (at most %d per variant are listed)" % (f, c, len(BACKENDS), CAP))
    for line in sorted(set(x.split(": ", 1)[1] for x in res.infos)):
        print("INFO " + line)
    E, S, R = plan["E"], plan["S"], plan["R"]
    ecls = {}; rc = {}
    for c, _, _ in plan["einfo"]: ecls[c] = ecls.get(c, 0) + 1
    for c in plan["rcls"]: rc[c] = rc.get(c, 0) + 1
    B2 = ec.point_encode(ec.scalar_mult(2, ec.B)); Benc = ec.point_encode(ec.B)
    f1 = ec.point_encode(ec.point_add(ec.B, ec.TORSION[1]))
    res.samples = [
        "crypto_core_ed25519_add(%s, %s) -> 0, %s" % (Benc.hex(), Benc.hex(), B2.hex()),
        "crypto_core_ed25519_is_valid_point(%s = B + (0,-1), order 2L) -> must be 0" % f1.hex(),
        "crypto_core_ed25519_is_valid_point(%s = y = p+1, alias of the identity) -> must be 0; crypto_core_ed25519_add accepts it as (0,1)" % le(P + 1).hex(),
        "crypto_scalarmult_ed25519_noclamp(n=%s = L, B) -> must return -1 (identity)" % le(L).hex(),
        "crypto_scalarmult_ed25519_base(n=%s) -> %s" % (S[1].hex(), plan["base"][1][0].hex()),
        "crypto_core_ristretto255_is_valid_point(%s = p+1, even low byte, s >= p) -> must be 0" % le(P + 1).hex(),
        "crypto_scalarmult_ristretto255_base(n=%s) -> %s" % (S[2].hex(), plan["base"][2][2].hex()),
        "crypto_core_ed25519_scalar_mul(L-1, L-1) -> %s" % le(1).hex(),
        "crypto_core_ed25519_scalar_invert(0) -> must return -1",
        "crypto_core_ed25519_from_string(ctx=%r, msg='abc', SHA-512) -> %s (RFC 9380 J.5.2)" % (NU_DST.decode(), ec.encode_to_curve(b"abc", NU_DST).hex()),
        "crypto_core_ed25519_from_string_ro(ctx=NULL, msg='', SHA-256) -> %s (DST = empty string)" % ec.hash_to_curve(b"", b"", "sha256").hex(),
        "crypto_core_ristretto255_from_string(ctx = RFC 9380 K.2 256-byte DST, msg='abc', SHA-256) -> %s (DST replaced by SHA-256(\"H2C-OVERSIZE-DST-\"||ctx) in b_0 and every b_i)" % ec.ristretto_hash_to_group(b"abc", K2_DST, "sha256").hex(),
    ]
    cov = {"evaluations": total, "distinct_nontrivial": nontrivial, "rule": RULE, "exhaustive": True,
           "edwards_encodings": len(E), "ristretto_encodings": len(R), "scalars": len(S), "base_only_scalars": len(plan["SB"]), "scalars64": len(plan["S64"]),
           "addsub_columns": len(plan["ecols"]), "ristretto_addsub_columns": len(plan["rcols"]),
           "uniform32_inputs": len(plan["U32"]), "uniform64_inputs": len(plan["U64"]),
           "contexts": len(plan["ctxs"]), "messages": len(plan["msgs"]), "h2c_cases_per_variant": 4 * 2 * len(plan["ctxs"]) * len(plan["msgs"]),
           "model_coset_identities_checked": plan["coset_checks"], "structured_result_cases": len(plan["struct"]), "edwards_classes": ecls, "ristretto_classes": rc,
           "failing_cases_by_function_and_input_class": fam, "reference_seconds": round(t_ref, 1), "backends": tags,
           "distinct_nontrivial_definition": "cases (function, inputs, variant) for which the model predicts acceptance / a value (not a refusal)"}
    common.finish("C07", tier, "exploration", res, cov,
                  ["values outside the structured alphabets are not covered", "reference: ref/ec25519.py (big-integer edwards25519, RFC 9496, RFC 9380)",
                   "ed25519 field arithmetic has no run-time CPU dispatch: one configuration per build variant (radix 2^51, radix 2^25.5, portable)"], t0)
