#ifndef VF_TRACE_RT_H
#define VF_TRACE_RT_H
#include <stddef.h>
#include <stdint.h>
typedef struct { uint8_t kind; uint64_t pc, addr; } vt_event;   /* kind 1 = edge, 2 = load, 3 = store; pc relative to the executable base */
extern vt_event *vt_log; extern size_t vt_logcap, vt_lognum;
void vt_begin(int log);
void vt_end(uint64_t out[3]);
#endif
