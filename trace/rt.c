/* E-trace runtime: SanitizerCoverage callbacks (trace-pc, trace-loads, trace-stores) folded into an order-sensitive hash of every
 * control-flow edge and every load/store address executed between vt_begin() and vt_end(). NOT instrumented itself. */
#include <stddef.h>
#include <stdint.h>
#include "rt.h"

static int recording, logging;
static uint64_t h1, h2, nev;
vt_event *vt_log; size_t vt_logcap, vt_lognum;
extern char __executable_start[];

static inline void ev(uint64_t kind, uint64_t pc, uint64_t addr)
{
    uint64_t x = kind * 0x9E3779B97F4A7C15ULL ^ pc * 0xC2B2AE3D27D4EB4FULL ^ addr;
    h1 = (h1 ^ x) * 0x100000001b3ULL; h2 = (h2 + x) * 0xff51afd7ed558ccdULL; h2 ^= h2 >> 31; nev++;
    if (logging && vt_lognum < vt_logcap) { vt_log[vt_lognum].kind = (uint8_t) kind; vt_log[vt_lognum].pc = pc - (uint64_t) (uintptr_t) __executable_start; vt_log[vt_lognum].addr = addr; vt_lognum++; }
}
#define PC ((uint64_t) (uintptr_t) __builtin_return_address(0))
void __sanitizer_cov_trace_pc(void) { if (recording) ev(1, PC, 0); }
#define LD(n) void __sanitizer_cov_load##n(void *a) { if (recording) ev(2, PC, (uint64_t) (uintptr_t) a); }
#define ST(n) void __sanitizer_cov_store##n(void *a) { if (recording) ev(3, PC, (uint64_t) (uintptr_t) a); }
LD(1) LD(2) LD(4) LD(8) LD(16) ST(1) ST(2) ST(4) ST(8) ST(16)
void __sanitizer_cov_trace_pc_guard(uint32_t *g) { (void) g; }
void __sanitizer_cov_trace_pc_guard_init(uint32_t *a, uint32_t *b) { (void) a; (void) b; }

void vt_begin(int log) { h1 = 0xcbf29ce484222325ULL; h2 = 0x9ae16a3b2f90404fULL; nev = 0; logging = log; vt_lognum = 0; recording = 1; }
void vt_end(uint64_t out[3]) { recording = 0; out[0] = h1; out[1] = h2; out[2] = nev; }
