/*
 * ref_stream_selftest.c - checks every function of ref_stream.c against
 * published test vectors.  Does not call (or link) the implementation under
 * test.
 *
 * Sources of the vectors:
 *   [RFC8439]  RFC 8439 sections 2.3.2, 2.4.2, 2.5.2, 2.6.2, 2.8.2, A.1, A.3
 *   [XCHACHA]  draft-irtf-cfrg-xchacha sections 2.2.1 and A.3.1
 *   [AGL]      draft-agl-tls-chacha20poly1305-04 section 7 (original
 *              ChaCha20 keystreams and original AEAD vector)
 *   [SALSA]    Bernstein, "Salsa20 specification", sections 8 and 9
 *   [NACL]     Bernstein, "Cryptography in NaCl" sections 8-10 and the NaCl
 *              tests core1..core6, stream2..stream4, onetimeauth, secretbox
 *   [ESTREAM]  eSTREAM Salsa20/20 256-bit verified test vectors, set 1 #0
 *   [RFC7914]  RFC 7914 section 8 (Salsa20/8 core)
 *   [SODIUM]   expected outputs transcribed from the libsodium test-suite
 *              files test/default/{chacha20,xchacha20,core3,stream,
 *              aead_chacha20poly1305,aead_xchacha20poly1305}.{c,exp}
 *              (data only; many of these are themselves copies of the
 *              vectors above).
 */
#include <stdint.h>
#include <stdio.h>
#include <stdlib.h>
#include <string.h>

#include "ref_stream.h"

static int n_vectors;
static int n_fail;

/* ------------------------------------------------------------------------ */
/* helpers                                                                  */
/* ------------------------------------------------------------------------ */

static int
hexval(char ch)
{
    if (ch >= '0' && ch <= '9') {
        return ch - '0';
    }
    if (ch >= 'a' && ch <= 'f') {
        return ch - 'a' + 10;
    }
    if (ch >= 'A' && ch <= 'F') {
        return ch - 'A' + 10;
    }
    return -1;
}

/* Decode hex (spaces / colons ignored) into a fresh buffer; *len = bytes. */
static uint8_t *
unhex(const char *hex, size_t *len)
{
    size_t   cap = strlen(hex) / 2 + 1;
    uint8_t *buf = (uint8_t *) malloc(cap);
    size_t   n   = 0;
    int      hi  = -1;

    if (buf == NULL) {
        abort();
    }
    for (; *hex != 0; hex++) {
        int v = hexval(*hex);

        if (v < 0) {
            if (*hex == ' ' || *hex == ':' || *hex == '\n') {
                continue;
            }
            fprintf(stderr, "bad hex digit in test data\n");
            abort();
        }
        if (hi < 0) {
            hi = v;
        } else {
            buf[n++] = (uint8_t) (hi * 16 + v);
            hi       = -1;
        }
    }
    if (hi >= 0) {
        fprintf(stderr, "odd number of hex digits in test data\n");
        abort();
    }
    *len = n;
    return buf;
}

/* Decode hex that must be exactly `want` bytes long into out. */
static void
unhex_fixed(uint8_t *out, size_t want, const char *hex)
{
    size_t   n;
    uint8_t *b = unhex(hex, &n);

    if (n != want) {
        fprintf(stderr, "test data has wrong length (%lu != %lu)\n",
                (unsigned long) n, (unsigned long) want);
        abort();
    }
    if (want > 0) {
        memcpy(out, b, want);
    }
    free(b);
}

static void
dump(const char *label, const uint8_t *p, size_t n)
{
    size_t i;

    printf("    %s:", label);
    for (i = 0; i < n; i++) {
        printf("%02x", p[i]);
    }
    printf("\n");
}

/* Compare got[0..len) with the expected hex string; one "vector". */
static void
expect(const char *name, const uint8_t *got, size_t len, const char *hex)
{
    size_t   elen;
    uint8_t *e = unhex(hex, &elen);

    n_vectors++;
    if (elen != len || (len > 0 && memcmp(e, got, len) != 0)) {
        n_fail++;
        printf("FAIL: %s\n", name);
        dump("got ", got, len);
        dump("want", e, elen);
    }
    free(e);
}

/* A consistency check that is not a published vector. */
static void
require(const char *name, int cond)
{
    if (!cond) {
        n_fail++;
        printf("FAIL (consistency): %s\n", name);
    }
}

static uint8_t *
xmalloc(size_t n)
{
    uint8_t *p = (uint8_t *) malloc(n + 1);

    if (p == NULL) {
        abort();
    }
    memset(p, 0, n + 1);
    return p;
}

/* ------------------------------------------------------------------------ */
/* SHA-256 (FIPS 180-4), only used to compare long keystreams against the   */
/* published digests of the NaCl test-suite                                 */
/* ------------------------------------------------------------------------ */

static uint32_t
ror32(uint32_t x, int n)
{
    return (uint32_t) ((x >> n) | (x << (32 - n)));
}

static void
sha256(uint8_t digest[32], const uint8_t *msg, size_t len)
{
    static const uint32_t K[64] = {
        0x428a2f98, 0x71374491, 0xb5c0fbcf, 0xe9b5dba5, 0x3956c25b, 0x59f111f1,
        0x923f82a4, 0xab1c5ed5, 0xd807aa98, 0x12835b01, 0x243185be, 0x550c7dc3,
        0x72be5d74, 0x80deb1fe, 0x9bdc06a7, 0xc19bf174, 0xe49b69c1, 0xefbe4786,
        0x0fc19dc6, 0x240ca1cc, 0x2de92c6f, 0x4a7484aa, 0x5cb0a9dc, 0x76f988da,
        0x983e5152, 0xa831c66d, 0xb00327c8, 0xbf597fc7, 0xc6e00bf3, 0xd5a79147,
        0x06ca6351, 0x14292967, 0x27b70a85, 0x2e1b2138, 0x4d2c6dfc, 0x53380d13,
        0x650a7354, 0x766a0abb, 0x81c2c92e, 0x92722c85, 0xa2bfe8a1, 0xa81a664b,
        0xc24b8b70, 0xc76c51a3, 0xd192e819, 0xd6990624, 0xf40e3585, 0x106aa070,
        0x19a4c116, 0x1e376c08, 0x2748774c, 0x34b0bcb5, 0x391c0cb3, 0x4ed8aa4a,
        0x5b9cca4f, 0x682e6ff3, 0x748f82ee, 0x78a5636f, 0x84c87814, 0x8cc70208,
        0x90befffa, 0xa4506ceb, 0xbef9a3f7, 0xc67178f2
    };
    uint32_t h[8] = { 0x6a09e667, 0xbb67ae85, 0x3c6ef372, 0xa54ff53a,
                      0x510e527f, 0x9b05688c, 0x1f83d9ab, 0x5be0cd19 };
    size_t   padded_len = ((len + 8) / 64 + 1) * 64;
    uint8_t *p          = xmalloc(padded_len);
    uint64_t bits       = (uint64_t) len * 8;
    size_t   off;
    int      i;

    if (len > 0) {
        memcpy(p, msg, len);
    }
    p[len] = 0x80;
    for (i = 0; i < 8; i++) {
        p[padded_len - 1 - (size_t) i] = (uint8_t) ((bits >> (8 * i)) & 0xff);
    }
    for (off = 0; off < padded_len; off += 64) {
        uint32_t w[64];
        uint32_t a, b, c, d, e, f, g, hh;

        for (i = 0; i < 16; i++) {
            const uint8_t *q = p + off + 4 * (size_t) i;

            w[i] = ((uint32_t) q[0] << 24) | ((uint32_t) q[1] << 16) |
                   ((uint32_t) q[2] << 8) | (uint32_t) q[3];
        }
        for (i = 16; i < 64; i++) {
            uint32_t s0 = ror32(w[i - 15], 7) ^ ror32(w[i - 15], 18) ^
                          (w[i - 15] >> 3);
            uint32_t s1 = ror32(w[i - 2], 17) ^ ror32(w[i - 2], 19) ^
                          (w[i - 2] >> 10);

            w[i] = w[i - 16] + s0 + w[i - 7] + s1;
        }
        a = h[0]; b = h[1]; c = h[2]; d = h[3];
        e = h[4]; f = h[5]; g = h[6]; hh = h[7];
        for (i = 0; i < 64; i++) {
            uint32_t S1  = ror32(e, 6) ^ ror32(e, 11) ^ ror32(e, 25);
            uint32_t ch  = (e & f) ^ (~e & g);
            uint32_t t1  = hh + S1 + ch + K[i] + w[i];
            uint32_t S0  = ror32(a, 2) ^ ror32(a, 13) ^ ror32(a, 22);
            uint32_t maj = (a & b) ^ (a & c) ^ (b & c);
            uint32_t t2  = S0 + maj;

            hh = g; g = f; f = e; e = d + t1;
            d = c; c = b; b = a; a = t1 + t2;
        }
        h[0] += a; h[1] += b; h[2] += c; h[3] += d;
        h[4] += e; h[5] += f; h[6] += g; h[7] += hh;
    }
    for (i = 0; i < 8; i++) {
        digest[4 * i + 0] = (uint8_t) (h[i] >> 24);
        digest[4 * i + 1] = (uint8_t) ((h[i] >> 16) & 0xff);
        digest[4 * i + 2] = (uint8_t) ((h[i] >> 8) & 0xff);
        digest[4 * i + 3] = (uint8_t) (h[i] & 0xff);
    }
    free(p);
}

/* ------------------------------------------------------------------------ */
/* shared test data                                                         */
/* ------------------------------------------------------------------------ */

static const char SUNSCREEN[] =
    "Ladies and Gentlemen of the class of '99: If I could offer you "
    "only one tip for the future, sunscreen would be it.";

static const char KEY_00_1F[] =
    "000102030405060708090a0b0c0d0e0f101112131415161718191a1b1c1d1e1f";
static const char KEY_80_9F[] =
    "808182838485868788898a8b8c8d8e8f909192939495969798999a9b9c9d9e9f";

/* [NACL] "firstkey", nonce, and the 131-byte message of the NaCl tests */
static const char NACL_FIRSTKEY[] =
    "1b27556473e985d462cd51197a9a46c76009549eac6474f206c4ee0844f68389";
static const char NACL_SECONDKEY[] =
    "dc908dda0b9344a953629b733820778880f3ceb421bb61b91cbd4c3e66256ce4";
static const char NACL_NONCE[] =
    "69696ee955b62b73cd62bda875fc73d68219e0036b7a0b37";
static const char NACL_M[] =
        "be075fc53c81f2d5cf141316ebeb0c7b5228c52a4c62cbd44b66849b64244ffc"
        "e5ecbaaf33bd751a1ac728d45e6c61296cdc3c01233561f41db66cce314adb31"
        "0e3be8250c46f06dceea3a7fa1348057e2f6556ad6b1318a024a838f21af1fde"
        "048977eb48f59ffd4924ca1c60902e52f0a089bc76897040e082f93776384864"
        "5e0705";

/* ------------------------------------------------------------------------ */
/* ChaCha20                                                                 */
/* ------------------------------------------------------------------------ */

/* [AGL]/[SODIUM chacha20.exp lines 1-5]: 160 bytes of keystream */
static const struct { const char *key; const char *nonce; const char *out; } chacha_orig_tv[] = {
    {
        "0000000000000000000000000000000000000000000000000000000000000000",
        "0000000000000000",
        "76b8e0ada0f13d90405d6ae55386bd28bdd219b8a08ded1aa836efcc8b770dc7"
        "da41597c5157488d7724e03fb8d84a376a43b8f41518a11cc387b669b2ee6586"
        "9f07e7be5551387a98ba977c732d080dcb0f29a048e3656912c6533e32ee7aed"
        "29b721769ce64e43d57133b074d839d531ed1f28510afb45ace10a1f4b794d6f"
        "2d09a0e663266ce1ae7ed1081968a0758e718e997bd362c6b0c34634a9a0b35d"
    },
    {
        "0000000000000000000000000000000000000000000000000000000000000001",
        "0000000000000000",
        "4540f05a9f1fb296d7736e7b208e3c96eb4fe1834688d2604f450952ed432d41"
        "bbe2a0b6ea7566d2a5d1e7e20d42af2c53d792b1c43fea817e9ad275ae546963"
        "3aeb5224ecf849929b9d828db1ced4dd832025e8018b8160b82284f3c949aa5a"
        "8eca00bbb4a73bdad192b5c42f73f2fd4e273644c8b36125a64addeb006c13a0"
        "96d68b9ff7b57e7090f880392effd5b297a83bbaf2fbe8cf5d4618965e3dc776"
    },
    {
        "0000000000000000000000000000000000000000000000000000000000000000",
        "0000000000000001",
        "de9cba7bf3d69ef5e786dc63973f653a0b49e015adbff7134fcb7df137821031"
        "e85a050278a7084527214f73efc7fa5b5277062eb7a0433e445f41e31afab757"
        "283547e3d3d30ee0371c1e6025ff4c91b794a291cf7568d48ff84b37329e2730"
        "b12738a072a2b2c7169e326fe4893a7b2421bb910b79599a7ce4fbaee86be427"
        "c5ee0e8225eb6f48231fd504939d59eac8bd106cc138779b893c54da8758f62a"
    },
    {
        "0000000000000000000000000000000000000000000000000000000000000000",
        "0100000000000000",
        "ef3fdfd6c61578fbf5cf35bd3dd33b8009631634d21e42ac33960bd138e50d32"
        "111e4caf237ee53ca8ad6426194a88545ddc497a0b466e7d6bbdb0041b2f586b"
        "5305e5e44aff19b235936144675efbe4409eb7e8e5f1430f5f5836aeb49bb532"
        "8b017c4b9dc11f8a03863fa803dc71d5726b2b6b31aa32708afe5af1d6b69058"
        "4d58792b271e5fdb92c486051c48b79a4d48a109bb2d0477956e74c25e93c3c2"
    },
    {
        "000102030405060708090a0b0c0d0e0f101112131415161718191a1b1c1d1e1f",
        "0001020304050607",
        "f798a189f195e66982105ffb640bb7757f579da31602fc93ec01ac56f85ac3c1"
        "34a4547b733b46413042c9440049176905d3be59ea1c53f15916155c2be8241a"
        "38008b9a26bc35941e2444177c8ade6689de95264986d95889fb60e84629c9bd"
        "9a5acb1cc118be563eb9b3a4a472f82e09a7e778492b562ef7130e88dfe031c7"
        "9db9d4f7c7a899151b9a475032b63fc385245fe054e3dd5a97a5f576fe064025"
    },
};

/* [RFC8439 A.1 #1-#5, 2.3.2]/[SODIUM chacha20.exp lines 32-38] */
static const struct { const char *key; const char *nonce; const char *ic; const char *out; } chacha_ietf_tv[] = {
    {
        "0000000000000000000000000000000000000000000000000000000000000000",
        "000000000000000000000000",
        "0",
        "76b8e0ada0f13d90405d6ae55386bd28bdd219b8a08ded1aa836efcc8b770dc7"
        "da41597c5157488d7724e03fb8d84a376a43b8f41518a11cc387b669b2ee6586"
        "9f07e7be5551387a98ba977c732d080dcb0f29a048e3656912c6533e32ee7aed"
        "29b721769ce64e43d57133b074d839d531ed1f28510afb45ace10a1f4b794d6f"
        "2d09a0e663266ce1ae7ed1081968a0758e718e997bd362c6b0c34634a9a0b35d"
    },
    {
        "0000000000000000000000000000000000000000000000000000000000000000",
        "000000000000000000000000",
        "1",
        "9f07e7be5551387a98ba977c732d080dcb0f29a048e3656912c6533e32ee7aed"
        "29b721769ce64e43d57133b074d839d531ed1f28510afb45ace10a1f4b794d6f"
        "2d09a0e663266ce1ae7ed1081968a0758e718e997bd362c6b0c34634a9a0b35d"
        "012737681f7b5d0f281e3afde458bc1e73d2d313c9cf94c05ff3716240a248f2"
        "1320a058d7b3566bd520daaa3ed2bf0ac5b8b120fb852773c3639734b45c91a4"
    },
    {
        "0000000000000000000000000000000000000000000000000000000000000001",
        "000000000000000000000000",
        "1",
        "3aeb5224ecf849929b9d828db1ced4dd832025e8018b8160b82284f3c949aa5a"
        "8eca00bbb4a73bdad192b5c42f73f2fd4e273644c8b36125a64addeb006c13a0"
        "96d68b9ff7b57e7090f880392effd5b297a83bbaf2fbe8cf5d4618965e3dc776"
        "cd430d9b4e7eda8a767fb0e860319aadb5fd96a855de1fbfc92cb0489190cfdd"
        "87da6dbf1f736a2d499941ca097e5170bd685578611323120cebf296181ed4f5"
    },
    {
        "00ff000000000000000000000000000000000000000000000000000000000000",
        "000000000000000000000000",
        "2",
        "72d54dfbf12ec44b362692df94137f328fea8da73990265ec1bbbea1ae9af0ca"
        "13b25aa26cb4a648cb9b9d1be65b2c0924a66c54d545ec1b7374f4872e99f096"
        "bf74dbd52cc4fc95ceb6097fe5e65358c9dbc0a5ecbf7894a132a9a54ae3e951"
        "f2e9f209aa9c3d9a877ac9dab62433d2961a17d103e455dfb7337c90f6857aad"
        "233065955a212b5c7a8eab4dc8a629e5b6b8ba914afd06de7177054b33d21c96"
    },
    {
        "0000000000000000000000000000000000000000000000000000000000000000",
        "000000000000000000000002",
        "0",
        "c2c64d378cd536374ae204b9ef933fcd1a8b2288b3dfa49672ab765b54ee27c7"
        "8a970e0e955c14f3a88e741b97c286f75f8fc299e8148362fa198a39531bed6d"
        "1a91288c874ec254f322c2a197340c55bb3e9b3998f7de2309486a0bb494abd2"
        "0c9c5ef99c1370d61e77f408ac5514f49202bcc6828d45409d2d1416f8ae106b"
        "06ebd2541256264fa415bd54cb12e1d4449ed85299a1b7a249b75ff6c89b2e3f"
    },
    {
        "000102030405060708090a0b0c0d0e0f101112131415161718191a1b1c1d1e1f",
        "000000090000004a00000000",
        "1",
        "10f1e7e4d13b5915500fdd1fa32071c4c7d1f4c733c068030422aa9ac3d46c4e"
        "d2826446079faa0914c2d705d98b02a2b5129cd1de164eb9cbd083e8a2503c4e"
        "0a88837739d7bf4ef8ccacb0ea2bb9d69d56c394aa351dfda5bf459f0a2e9fe8"
        "e721f89255f9c486bf21679c683d4f9c5cf2fa27865526005b06ca374c86af3b"
        "dcbfbdcb83be65862ed5c20eae5a43241d6a92da6dca9a156be25297f51c2718"
    },
    {
        "000102030405060708090a0b0c0d0e0f101112131415161718191a1b1c1d1e1f",
        "000000090000004a00000000",
        "4278190079",
        "75924bad7831b25662dbac54b46827990b6168ae990e7bd7e1fd2ad282bf23ef"
        "052c7d1a0a6c1ef862070943a0d4da24705fbc006dfb85e2af18c0a264d772a4"
        "4c70fbedac9d6a6867ff6be0a32826507f2c784101583211c9e2453d4cc8b283"
        "d5e86682bd4bf511271b91dbd351415f5a009d1f78b64085a9a4341be7d42e26"
        "79d57e2747097f0129950e2c9e9ca1356022d45da252af71ac37f351a2e77911"
    },
};

static void
test_chacha20(void)
{
    uint8_t key[32], n8[8], n12[12];
    uint8_t out[256];
    uint8_t out2[256];
    size_t  i;

    for (i = 0; i < sizeof chacha_orig_tv / sizeof chacha_orig_tv[0]; i++) {
        unhex_fixed(key, 32, chacha_orig_tv[i].key);
        unhex_fixed(n8, 8, chacha_orig_tv[i].nonce);
        ref_chacha20_xor(out, NULL, 160, key, n8, 0);
        expect("chacha20 (original) keystream", out, 160,
               chacha_orig_tv[i].out);
    }
    for (i = 0; i < sizeof chacha_ietf_tv / sizeof chacha_ietf_tv[0]; i++) {
        unhex_fixed(key, 32, chacha_ietf_tv[i].key);
        unhex_fixed(n12, 12, chacha_ietf_tv[i].nonce);
        ref_chacha20_ietf_xor(out, NULL, 160, key, n12,
                              (uint32_t) strtoul(chacha_ietf_tv[i].ic, NULL,
                                                 10));
        expect("chacha20-ietf keystream", out, 160, chacha_ietf_tv[i].out);
    }

    /* [RFC8439 2.3.2] block function */
    unhex_fixed(key, 32, KEY_00_1F);
    unhex_fixed(n12, 12, "000000090000004a00000000");
    ref_chacha20_ietf_xor(out, NULL, 64, key, n12, 1);
    expect("RFC 8439 2.3.2 block", out, 64,
           "10f1e7e4d13b5915500fdd1fa32071c4c7d1f4c733c068030422aa9ac3d46c4e"
           "d2826446079faa0914c2d705d98b02a2b5129cd1de164eb9cbd083e8a2503c4e");

    /* [RFC8439 2.4.2] encryption, counter 1 */
    unhex_fixed(n12, 12, "000000000000004a00000000");
    ref_chacha20_ietf_xor(out, (const uint8_t *) SUNSCREEN, 114, key, n12, 1);
    expect("RFC 8439 2.4.2 encryption", out, 114,
           "6e2e359a2568f98041ba0728dd0d6981e97e7aec1d4360c20a27afccfd9fae0b"
           "f91b65c5524733ab8f593dabcd62b3571639d624e65152ab8f530c359f0861d8"
           "07ca0dbf500d6a6156a38e088a22b65e52bc514d16ccf806818ce91ab7793736"
           "5af90bbf74a35be6b40b8eedf2785e42874d");

    /* [RFC8439 2.6.2] Poly1305 key generation = first 32 bytes of block 0 */
    unhex_fixed(key, 32, KEY_80_9F);
    unhex_fixed(n12, 12, "000000000001020304050607");
    ref_chacha20_ietf_xor(out, NULL, 32, key, n12, 0);
    expect("RFC 8439 2.6.2 poly1305 key generation", out, 32,
           "8ad5a08b905f81cc815040274ab29471a833b637e3fd0da508dbb8e2fdd1a646");

    /* consistency: the IETF variant with a zero first nonce word equals the
     * original variant while the counter stays below 2^32 */
    unhex_fixed(key, 32, KEY_00_1F);
    unhex_fixed(n12, 12, "000000000001020304050607");
    ref_chacha20_ietf_xor(out, NULL, 200, key, n12, 7);
    ref_chacha20_xor(out2, NULL, 200, key, n12 + 4, 7);
    require("ietf == original below 2^32", memcmp(out, out2, 200) == 0);

    /* consistency: 32-bit counter wraps to 0 without touching the nonce */
    unhex_fixed(n12, 12, "000000090000004a00000000");
    ref_chacha20_ietf_xor(out, NULL, 128, key, n12, 0xffffffffu);
    ref_chacha20_ietf_xor(out2, NULL, 64, key, n12, 0);
    require("ietf counter wraps mod 2^32", memcmp(out + 64, out2, 64) == 0);

    /* consistency: 64-bit counter carries into word 13 and wraps mod 2^64 */
    ref_chacha20_xor(out, NULL, 128, key, n12 + 4, 0xffffffffu);
    ref_chacha20_xor(out2, NULL, 64, key, n12 + 4, (uint64_t) 1 << 32);
    require("original counter carries into word 13",
            memcmp(out + 64, out2, 64) == 0);
    {
        /* word 13 of the original layout is word 13 of the IETF layout */
        uint8_t n12b[12];

        unhex_fixed(n12b, 12, "010000000000000000000000");
        memcpy(n12b + 4, n12 + 4, 8);
        ref_chacha20_ietf_xor(out2, NULL, 64, key, n12b, 0);
        require("original counter high word is state word 13",
                memcmp(out + 64, out2, 64) == 0);
    }
    ref_chacha20_xor(out, NULL, 128, key, n12 + 4, ~(uint64_t) 0);
    ref_chacha20_xor(out2, NULL, 64, key, n12 + 4, 0);
    require("original counter wraps mod 2^64",
            memcmp(out + 64, out2, 64) == 0);

    /* consistency: xor with a message, odd lengths, len 0 */
    ref_chacha20_xor(out, NULL, 131, key, n12 + 4, 3);
    memset(out2, 0xa5, sizeof out2);
    ref_chacha20_xor(out2, out2, 131, key, n12 + 4, 3);
    for (i = 0; i < 131; i++) {
        out2[i] ^= 0xa5;
    }
    require("xor in place == keystream ^ m", memcmp(out, out2, 131) == 0);
    require("no write past len", out2[131] == 0xa5);
    ref_chacha20_xor(NULL, NULL, 0, key, n12 + 4, 0);
    ref_chacha20_ietf_xor(NULL, NULL, 0, key, n12, 0);
}

/* ------------------------------------------------------------------------ */
/* HChaCha20 / XChaCha20                                                    */
/* ------------------------------------------------------------------------ */

/* [SODIUM xchacha20.c] */
static const struct { const char *key; const char *in; const char *out; } hchacha_tv[] = {
    {
        "24f11cce8a1b3d61e441561a696c1c1b7e173d084fd4812425435a8896a013dc",
        "d9660c5900ae19ddad28d6e06e45fe5e",
        "5966b3eec3bff1189f831f06afe4d4e3be97fa9235ec8c20d08acfbbb4e851e3"
    },
    {
        "80a5f6272031e18bb9bcd84f3385da65e7731b7039f13f5e3d475364cd4d42f7",
        "c0eccc384b44c88e92c57eb2d5ca4dfa",
        "6ed11741f724009a640a44fce7320954c46e18e0d7ae063bdbc8d7cf372709df"
    },
    {
        "cb1fc686c0eec11a89438b6f4013bf110e7171dace3297f3a657a309b3199629",
        "fcd49b93e5f8f299227e64d40dc864a3",
        "84b7e96937a1a0a406bb7162eeaad34308d49de60fd2f7ec9dc6a79cbab2ca34"
    },
    {
        "6640f4d80af5496ca1bc2cfff1fefbe99638dbceaabd7d0ade118999d45f053d",
        "31f59ceeeafdbfe8cae7914caeba90d6",
        "9af4697d2f5574a44834a2c2ae1a0505af9f5d869dbe381a994a18eb374c36a0"
    },
    {
        "0693ff36d971225a44ac92c092c60b399e672e4cc5aafd5e31426f123787ac27",
        "3a6293da061da405db45be1731d5fc4d",
        "f87b38609142c01095bfc425573bb3c698f9ae866b7e4216840b9c4caf3b0865"
    },
    {
        "809539bd2639a23bf83578700f055f313561c7785a4a19fc9114086915eee551",
        "780c65d6a3318e479c02141d3f0b3918",
        "902ea8ce4680c09395ce71874d242f84274243a156938aaa2dd37ac5be382b42"
    },
    {
        "1a170ddf25a4fd69b648926e6d794e73408805835c64b2c70efddd8cd1c56ce0",
        "05dbee10de87eb0c5acb2b66ebbe67d3",
        "a4e20b634c77d7db908d387b48ec2b370059db916e8ea7716dc07238532d5981"
    },
    {
        "3b354e4bb69b5b4a1126f509e84cad49f18c9f5f29f0be0c821316a6986e15a6",
        "d8a89af02f4b8b2901d8321796388b6c",
        "9816cb1a5b61993735a4b161b51ed2265b696e7ded5309c229a5a99f53534fbc"
    },
    {
        "4b9a818892e15a530db50dd2832e95ee192e5ed6afffb408bd624a0c4e12a081",
        "a9079c551de70501be0286d1bc78b045",
        "ebc5224cf41ea97473683b6c2f38a084bf6e1feaaeff62676db59d5b719d999b"
    },
    {
        "c49758f00003714c38f1d4972bde57ee8271f543b91e07ebce56b554eb7fa6a7",
        "31f0204e10cf4f2035f9e62bb5ba7303",
        "0dd8cc400f702d2c06ed920be52048a287076b86480ae273c6d568a2e9e7518c"
    },
};

static const struct { const char *key; const char *nonce; const char *out; } xchacha_tv[] = {
    {
        "79c99798ac67300bbb2704c95c341e3245f3dcb21761b98e52ff45b24f304fc4",
        "b33ffd3096479bcfbc9aee49417688a0a2554f8d95389419",
        "c6e9758160083ac604ef90e712ce6e75d7797590744e0cf060f013739c"
    },
    {
        "ddf7784fee099612c40700862189d0397fcc4cc4b3cc02b5456b3a97d1186173",
        "a9a04491e7bf00c3ca91ac7c2d38a777d88993a7047dfcc4",
        "2f289d371f6f0abc3cb60d11d9b7b29adf6bc5ad843e8493e928448d"
    },
    {
        "3d12800e7b014e88d68a73f0a95b04b435719936feba60473f02a9e61ae60682",
        "56bed2599eac99fb27ebf4ffcb770a64772dec4d5849ea2d",
        "a2c3c1406f33c054a92760a8e0666b84f84fa3a618f0"
    },
    {
        "5f5763ff9a30c95da5c9f2a8dfd7cc6efd9dfb431812c075aa3e4f32e04f53e4",
        "a5fa890efa3b9a034d377926ce0e08ee6d7faccaee41b771",
        "8a1a5ba898bdbcff602b1036e469a18a5e45789d0e8d9837d81a2388a52b0b6a"
        "0f51891528f424c4a7f492a8dd7bce8bac19fbdbe1fb379ac0"
    },
    {
        "eadc0e27f77113b5241f8ca9d6f9a5e7f09eee68d8a5cf30700563bf01060b4e",
        "a171a4ef3fde7c4794c5b86170dc5a099b478f1b852f7b64",
        "23839f61795c3cdbcee2c749a92543baeeea3cbb721402aa42e6cae140447575"
        "f2916c5d71108e3b13357eaf86f060cb"
    },
    {
        "91319c9545c7c804ba6b712e22294c386fe31c4ff3d278827637b959d3dbaab2",
        "410e854b2a911f174aaf1a56540fc3855851f41c65967a4e",
        "cbe7d24177119b7fdfa8b06ee04dade4256ba7d35ffda6b89f014e479faef6"
    },
    {
        "6a6d3f412fc86c4450fc31f89f64ed46baa3256ffcf8616e8c23a06c422842b6",
        "6b7773fce3c2546a5db4829f53a9165f41b08faae2fb72d5",
        "8b23e35b3cdd5f3f75525fc37960ec2b68918e8c046d8a832b9838f1546be662"
        "e54feb1203e2"
    },
    {
        "d45e56368ebc7ba9be7c55cfd2da0feb633c1d86cab67cd5627514fd20c2b391",
        "fd37da2db31e0c738754463edadc7dafb0833bd45da497fc",
        "47950efa8217e3dec437454bd6b6a80a287e2570f0a48b3fa1ea3eb868be3d48"
        "6f6516606d85e5643becc473b370871ab9ef8e2a728f73b92bd98e6e26ea7c8f"
        "f96ec5a9e8de95e1eee9300c"
    },
    {
        "aface41a64a9a40cbc604d42bd363523bd762eb717f3e08fe2e0b4611eb4dcf3",
        "6906e0383b895ab9f1cf3803f42f27c79ad47b681c552c63",
        "a5fa7c0190792ee17675d52ad7570f1fb0892239c76d6e802c26b5b3544d1315"
        "1e67513b8aaa1ac5af2d7fd0d5e4216964324838"
    },
    {
        "9d23bd4149cb979ccf3c5c94dd217e9808cb0e50cd0f67812235eaaf601d6232",
        "c047548266b7c370d33566a2425cbf30d82d1eaf5294109e",
        "a21209096594de8c5667b1d13ad93f744106d054df210e4782cd396fec692d35"
        "15a20bf351eec011a92c367888bc464c32f0807acd6c203a247e0db854148468"
        "e9f96bee4cf718d68d5f637cbd5a376457788e6fae90fc31097cfc"
    },
};

static void
test_xchacha20(void)
{
    uint8_t  key[32], in[16], c16[16], n24[24], out[32];
    uint8_t *buf;
    size_t   i, len;

    /* [XCHACHA 2.2.1] */
    unhex_fixed(key, 32, KEY_00_1F);
    unhex_fixed(in, 16, "000000090000004a0000000031415927");
    ref_hchacha20(out, in, key, NULL);
    expect("draft-xchacha 2.2.1 HChaCha20", out, 32,
           "82413b4227b27bfed30e42508a877d73a0f9e4d58a74a853c12ec41326d3ecdc");

    for (i = 0; i < sizeof hchacha_tv / sizeof hchacha_tv[0]; i++) {
        unhex_fixed(key, 32, hchacha_tv[i].key);
        unhex_fixed(in, 16, hchacha_tv[i].in);
        ref_hchacha20(out, in, key, NULL);
        expect("HChaCha20", out, 32, hchacha_tv[i].out);
    }
    /* [SODIUM xchacha20.c] explicit constant, key/in of the last vector */
    unhex_fixed(c16, 16, "0d29b795c1ca70c1652e823364d32417");
    ref_hchacha20(out, in, key, c16);
    expect("HChaCha20 with explicit constant", out, 32,
           "934d941d78eb9bfc2f0376f7ccd4a11ecf0c6a44104618a9749ef47fe97037a2");
    /* consistency: NULL constant == sigma */
    {
        uint8_t out2[32];

        ref_hchacha20(out, in, key, NULL);
        ref_hchacha20(out2, in, key, (const uint8_t *) "expand 32-byte k");
        require("HChaCha20 NULL constant is sigma",
                memcmp(out, out2, 32) == 0);
    }

    for (i = 0; i < sizeof xchacha_tv / sizeof xchacha_tv[0]; i++) {
        unhex_fixed(key, 32, xchacha_tv[i].key);
        unhex_fixed(n24, 24, xchacha_tv[i].nonce);
        len = strlen(xchacha_tv[i].out) / 2;
        buf = xmalloc(len);
        ref_xchacha20_xor(buf, NULL, len, key, n24, 0);
        expect("XChaCha20 keystream", buf, len, xchacha_tv[i].out);
        free(buf);
    }
    /* [SODIUM xchacha20.exp] last key/nonce, 192 bytes from counter 2^32-1 */
    buf = xmalloc(192);
    ref_xchacha20_xor(buf, NULL, 192, key, n24, ((uint64_t) 1 << 32) - 1);
    expect("XChaCha20 keystream across counter 2^32", buf, 192,
        "3e34c160a966ddfbd52d38f6a440a77256c1134ad54653db427dfdfc72f0f995"
        "768039052ec2ec4e6fe02c655d7d95681fabd417c087ad17f177510ba09d4cfe"
        "7beb8f7c9b8330d746310f9e29583e9ef240156015faafeb24a4d002d6337b7b"
        "cec8b54a64ef704e1ae3247d79625d267cbacd1c90e4a2df2f72d4090babf88c"
        "90e65a086c464ec1753c49d3b8ad02f2a3c0808e1695c5d77cec6f6f12578ae4"
        "ed077a2046e06644d14af65ae90f2869a6f1f910b83a7a3cfec8dd390621a511");
    free(buf);
}

/* ------------------------------------------------------------------------ */
/* Salsa20 family                                                           */
/* ------------------------------------------------------------------------ */

/* Feed a raw 64-byte Salsa20 input block through ref_salsa20_core by
 * splitting it into its (constant, key, input) positions. */
static void
salsa_core_raw(uint8_t out[64], const uint8_t blk[64], int rounds)
{
    uint8_t c[16], k[32], in[16];

    memcpy(c + 0, blk + 0, 4);
    memcpy(k + 0, blk + 4, 16);
    memcpy(c + 4, blk + 20, 4);
    memcpy(in, blk + 24, 16);
    memcpy(c + 8, blk + 40, 4);
    memcpy(k + 16, blk + 44, 16);
    memcpy(c + 12, blk + 60, 4);
    ref_salsa20_core(out, in, k, c, rounds);
}

static void
test_salsa20(void)
{
    static const uint8_t sigma[16] = { 101, 120, 112, 97,  110, 100, 32, 51,
                                       50,  45,  98,  121, 116, 101, 32, 107 };
    uint8_t  key[32], in[16], n8[8], n24[24], blk[64], out[64], h[32];
    uint8_t  zero16[16];
    uint8_t *big;
    uint8_t *msg;
    size_t   big_len = 4194304;
    size_t   pos, mlen;
    int      i, j;
    int      r;

    memset(zero16, 0, sizeof zero16);

    /* [SALSA section 9] Salsa20_k(n) with k = 1..16,201..216, n = 101..116
     * (= NaCl core4) */
    for (i = 0; i < 16; i++) {
        key[i]      = (uint8_t) (1 + i);
        key[16 + i] = (uint8_t) (201 + i);
        in[i]       = (uint8_t) (101 + i);
    }
    ref_salsa20_core(out, in, key, sigma, 20);
    expect("Salsa20 spec section 9 / NaCl core4", out, 64,
        "45254427290f6bc1ff8b7a06aae9d9625990b66a1533c841ef31de22d772287e"
        "68c507e1c5991f02664e4cb054f5f6b8b1a0858206489577c0c384ecea67f64a");
    ref_salsa20_core(blk, in, key, NULL, 20);
    require("salsa20 core NULL constant is sigma", memcmp(out, blk, 64) == 0);

    /* [SALSA section 8] Salsa20 hash function examples */
    memset(blk, 0, 64);
    salsa_core_raw(out, blk, 20);
    expect("Salsa20 spec section 8 example 1 (zero)", out, 64,
           "0000000000000000000000000000000000000000000000000000000000000000"
           "0000000000000000000000000000000000000000000000000000000000000000");
    {
        static const uint8_t ex_in[64] = {
            211, 159, 13,  115, 76,  55,  82,  183, 3,   117, 222, 37,  191,
            187, 234, 136, 49,  237, 179, 48,  1,   106, 178, 219, 175, 199,
            166, 48,  86,  16,  179, 207, 31,  240, 32,  63,  15,  83,  93,
            161, 116, 147, 48,  113, 238, 55,  204, 36,  79,  201, 235, 79,
            3,   81,  156, 47,  203, 26,  244, 243, 88,  118, 104, 54
        };
        static const uint8_t ex_out[64] = {
            109, 42,  178, 168, 156, 240, 248, 238, 168, 196, 190, 203, 26,
            110, 170, 154, 29,  29,  150, 26,  150, 30,  235, 249, 190, 163,
            251, 48,  69,  144, 51,  57,  118, 40,  152, 157, 180, 57,  27,
            94,  107, 42,  236, 35,  27,  111, 114, 114, 219, 236, 232, 135,
            111, 155, 110, 18,  24,  232, 95,  158, 179, 19,  48,  202
        };

        salsa_core_raw(out, ex_in, 20);
        n_vectors++;
        if (memcmp(out, ex_out, 64) != 0) {
            n_fail++;
            printf("FAIL: Salsa20 spec section 8 example 2\n");
            dump("got ", out, 64);
            dump("want", ex_out, 64);
        }
    }

    /* [RFC7914 section 8] Salsa20/8 core */
    unhex_fixed(blk, 64,
                "7e879a214f3ec9867ca940e641718f26baee555b8c61c1b50df846116dcd3b1d"
                "ee24f319df9b3d8514121e4b5ac5aa3276021d2909c74829edebc68db8b8c25e");
    salsa_core_raw(out, blk, 8);
    expect("RFC 7914 section 8 Salsa20/8 core", out, 64,
           "a41f859c6608cc993b81cacb020cef05044b2181a2fd337dfd7b1c6396682f29"
           "b4393168e3c9e6bcfe6bc5b7a06d96bae424cc102c91745c24ad673dc7618f81");

    /* [NACL core1, core2, core5] HSalsa20 */
    unhex_fixed(key, 32,
                "4a5d9d5ba4ce2de1728e3bf480350f25e07e21c947d19e3376f09b3c1e161742");
    ref_hsalsa20(out, zero16, key, sigma);
    expect("NaCl core1 HSalsa20(shared, 0)", out, 32,
        "1b27556473e985d462cd51197a9a46c76009549eac6474f206c4ee0844f68389");
    unhex_fixed(key, 32, NACL_FIRSTKEY);
    unhex_fixed(n24, 24, NACL_NONCE);
    ref_hsalsa20(out, n24, key, NULL);
    expect("NaCl core2 HSalsa20(firstkey, nonceprefix)", out, 32,
        "dc908dda0b9344a953629b733820778880f3ceb421bb61b91cbd4c3e66256ce4");
    unhex_fixed(key, 32,
                "ee304fca27008d8c126f90027901d80f7f1d8b8dc936cf3b9f819692827e5777");
    unhex_fixed(in, 16, "81918ef2a5e0da9b3e9060521e4bb352");
    ref_hsalsa20(out, in, key, sigma);
    expect("NaCl core5 HSalsa20", out, 32,
        "bc1b30fc072cc14075e4baa731b5a845ea9b11e9a5191f94e18cba8fd821a7cd");
    /* [NACL core6] HSalsa20 output = selected words of Salsa20 core output
     * minus the corresponding input words (constant, in) */
    {
        static const int cpos[4] = { 0, 20, 40, 60 };
        uint8_t          core[64], hs[32], derived[32];
        uint32_t         a, b, d;

        ref_salsa20_core(core, in, key, sigma, 20);
        ref_hsalsa20(hs, in, key, sigma);
        for (i = 0; i < 4; i++) {
            a = (uint32_t) core[cpos[i]] | ((uint32_t) core[cpos[i] + 1] << 8) |
                ((uint32_t) core[cpos[i] + 2] << 16) |
                ((uint32_t) core[cpos[i] + 3] << 24);
            b = (uint32_t) sigma[4 * i] | ((uint32_t) sigma[4 * i + 1] << 8) |
                ((uint32_t) sigma[4 * i + 2] << 16) |
                ((uint32_t) sigma[4 * i + 3] << 24);
            d = a - b;
            for (j = 0; j < 4; j++) {
                derived[4 * i + j] = (uint8_t) ((d >> (8 * j)) & 0xff);
            }
            a = (uint32_t) core[24 + 4 * i] |
                ((uint32_t) core[24 + 4 * i + 1] << 8) |
                ((uint32_t) core[24 + 4 * i + 2] << 16) |
                ((uint32_t) core[24 + 4 * i + 3] << 24);
            b = (uint32_t) in[4 * i] | ((uint32_t) in[4 * i + 1] << 8) |
                ((uint32_t) in[4 * i + 2] << 16) |
                ((uint32_t) in[4 * i + 3] << 24);
            d = a - b;
            for (j = 0; j < 4; j++) {
                derived[16 + 4 * i + j] = (uint8_t) ((d >> (8 * j)) & 0xff);
            }
        }
        require("NaCl core6 relation between Salsa20 core and HSalsa20",
                memcmp(derived, hs, 32) == 0);
    }

    /* [NACL core3] / [SODIUM core3.exp]: SHA-256 of 65536 consecutive core
     * outputs (secondkey, noncesuffix || 16-bit little-endian counter);
     * the /20 digest is the one published in "Cryptography in NaCl", the
     * /12 and /8 digests are libsodium's expected outputs. */
    big = xmalloc(big_len);
    unhex_fixed(key, 32, NACL_SECONDKEY);
    for (r = 0; r < 3; r++) {
        static const int rounds[3] = { 20, 12, 8 };

        memset(in, 0, 16);
        memcpy(in, n24 + 16, 8);
        pos = 0;
        for (i = 0; i < 256; i++) {
            for (j = 0; j < 256; j++) {
                in[8] = (uint8_t) j;
                in[9] = (uint8_t) i;
                ref_salsa20_core(big + pos, in, key, sigma, rounds[r]);
                pos += 64;
            }
        }
        sha256(h, big, big_len);
        if (r == 0) {
            expect("NaCl core3 sha256(4 MiB Salsa20/20 core outputs)", h, 32,
        "662b9d0e3463029156069b12f918691a98f7dfb2ca0393c96bbfc6b1fbd630a2");
        } else if (r == 1) {
            expect("core3 sha256(4 MiB Salsa20/12 core outputs)", h, 32,
        "a4e3147dddd2ba7775939b50208a22eb3277d4e4bad8a1cfbc999c6bd392b638");
        } else {
            expect("core3 sha256(4 MiB Salsa20/8 core outputs)", h, 32,
        "017421baa9959cbe894bd003ec87938254f47c1e757eb66cf89c353d0c2b68de");
        }
        /* the same 4 MiB must come out of the stream function */
        {
            uint8_t *big2 = xmalloc(big_len);

            ref_salsa20_xor(big2, NULL, big_len, key, n24 + 16, 0, rounds[r]);
            require("salsa20 stream == concatenated core outputs",
                    memcmp(big, big2, big_len) == 0);
            free(big2);
        }
    }

    /* [NACL stream2] Salsa20 stream, secondkey, noncesuffix */
    memcpy(n8, n24 + 16, 8);
    ref_salsa20_xor(big, NULL, big_len, key, n8, 0, 20);
    sha256(h, big, big_len);
    expect("NaCl stream2 sha256(4 MiB Salsa20 stream)", h, 32,
        "662b9d0e3463029156069b12f918691a98f7dfb2ca0393c96bbfc6b1fbd630a2");
    /* [SODIUM stream2.exp #2]: first 4000 bytes replaced by the keystream
     * that starts at block counter 1 */
    ref_salsa20_xor(big, NULL, 4000, key, n8, 1, 20);
    sha256(h, big, big_len);
    expect("stream2 sha256 with initial counter 1 prefix", h, 32,
        "0cc9ffaf60a99d221b548e9762385a231121ab226d1c610d2661ced26b6ad5ee");

    /* [NACL stream] XSalsa20 stream, firstkey, nonce: same digest because
     * HSalsa20(firstkey, nonceprefix) = secondkey */
    unhex_fixed(key, 32, NACL_FIRSTKEY);
    ref_xsalsa20_xor(big, NULL, big_len, key, n24, 0);
    sha256(h, big, big_len);
    expect("NaCl stream sha256(4 MiB XSalsa20 stream)", h, 32,
        "662b9d0e3463029156069b12f918691a98f7dfb2ca0393c96bbfc6b1fbd630a2");
    free(big);

    /* [NACL stream3] first 32 bytes of the XSalsa20 stream */
    ref_xsalsa20_xor(out, NULL, 32, key, n24, 0);
    expect("NaCl stream3 XSalsa20 first 32 bytes", out, 32,
        "eea6a7251c1e72916d11c2cb214d3c252539121d8e234e652d651fa4c8cff880");

    /* [NACL stream4] XSalsa20 xor of 32 zero bytes || message */
    msg = unhex(NACL_M, &mlen);
    require("NaCl message length", mlen == 131);
    big = xmalloc(32 + mlen);
    memcpy(big + 32, msg, mlen);
    ref_xsalsa20_xor(big, big, 32 + mlen, key, n24, 0);
    expect("NaCl stream4 XSalsa20 xor", big + 32, mlen,
        "8e993b9f48681273c29650ba32fc76ce48332ea7164d96a4476fb8c531a1186a"
        "c0dfc17c98dce87b4da7f011ec48c97271d2c20f9b928fe2270d6fb863d51738"
        "b48eeee314a7cc8ab932164548e526ae90224368517acfeabd6bb3732bc0e9da"
        "99832b61ca01b6de56244a9e88d5f9b37973f622a43d14a6599b1f654cb45a74"
        "e355a5");
    free(big);
    free(msg);

    /* [SODIUM stream.exp line 67] 192 bytes from block counter 2^32-1:
     * exercises the carry from counter word 8 into word 9 */
    big = xmalloc(192);
    ref_xsalsa20_xor(big, NULL, 192, key, n24, ((uint64_t) 1 << 32) - 1);
    expect("XSalsa20 keystream across counter 2^32", big, 192,
        "b46af0bf761b78533e01a0dd7e07216c9710ef35f09a28d1e5fa469b602472ca"
        "5085f6dbcc6a6b51fb89986f8feca85658d05701f5677d0bb340a1f2c7695472"
        "19f5420c62ffff7d1304dad82b6dec2bdc59ec12a9e18a774eed128c2c90610a"
        "9d4c75c0817d64817a76bbc12746971ae897af210a072c1bc9fb044e086b7bfe"
        "85fad95d5c2bbb28c12de5755b1ccde63e93cc892b4d2bcbd7dc0706b094c249"
        "2e329e3b9a98a9cbc7d01031cf1d5861f576e1291df6286c28146b0b4df9ad44");
    free(big);

    /* [ESTREAM] Salsa20/20, 256-bit key, set 1 vector 0: key = 80 00 ...,
     * IV = 0, stream[0..63] */
    memset(key, 0, 32);
    key[0] = 0x80;
    memset(n8, 0, 8);
    ref_salsa20_xor(out, NULL, 64, key, n8, 0, 20);
    expect("eSTREAM Salsa20/20 256-bit set 1 vector 0", out, 64,
           "e3be8fdd8beca2e3ea8ef9475b29a6e7003951e1097a5c38d23b7a5fad9f6844"
           "b22c97559e2723c7cbbd3fe4fc8d9a0744652a83e72a9c461876af4d7ef1a117");

    /* consistency: 64-bit counter wraps */
    {
        uint8_t a[128], b[64];

        ref_salsa20_xor(a, NULL, 128, key, n8, ~(uint64_t) 0, 20);
        ref_salsa20_xor(b, NULL, 64, key, n8, 0, 20);
        require("salsa20 counter wraps mod 2^64", memcmp(a + 64, b, 64) == 0);
        ref_salsa20_xor(NULL, NULL, 0, key, n8, 0, 12);
    }
}

/* ------------------------------------------------------------------------ */
/* Poly1305                                                                 */
/* ------------------------------------------------------------------------ */

static void
poly_case(const char *name, const char *key_hex, const uint8_t *msg,
          size_t len, const char *tag_hex)
{
    uint8_t key[32], tag[16];

    unhex_fixed(key, 32, key_hex);
    ref_poly1305(tag, msg, len, key);
    expect(name, tag, 16, tag_hex);
}

static void
poly_case_hex(const char *name, const char *key_hex, const char *msg_hex,
              const char *tag_hex)
{
    size_t   len;
    uint8_t *msg = unhex(msg_hex, &len);

    poly_case(name, key_hex, msg, len, tag_hex);
    free(msg);
}

static void
test_poly1305(void)
{
    static const char ietf_text[] =
        "Any submission to the IETF intended by the Contributor for "
        "publication as all or part of an IETF Internet-Draft or RFC and "
        "any statement made within the context of an IETF activity is "
        "considered an \"IETF Contribution\". Such statements include oral "
        "statements in IETF sessions, as well as written and electronic "
        "communications made at any time or place, which are addressed to";
    static const char jabberwocky[] =
        "'Twas brillig, and the slithy toves\nDid gyre and gimble in the "
        "wabe:\nAll mimsy were the borogoves,\nAnd the mome raths outgrabe.";
    uint8_t zeros[64];

    memset(zeros, 0, sizeof zeros);

    /* [RFC8439 2.5.2] */
    poly_case("RFC 8439 2.5.2",
              "85d6be7857556d337f4452fe42d506a80103808afb0db2fd4abff6af4149f51b",
              (const uint8_t *) "Cryptographic Forum Research Group", 34,
              "a8061dc1305136c6c22b8baf0c0127a9");

    /* [RFC8439 A.3] */
    require("A.3 text lengths",
            sizeof ietf_text - 1 == 375 && sizeof jabberwocky - 1 == 127);
    poly_case("RFC 8439 A.3 #1",
              "0000000000000000000000000000000000000000000000000000000000000000",
              zeros, 64, "00000000000000000000000000000000");
    poly_case("RFC 8439 A.3 #2",
              "0000000000000000000000000000000036e5f6b5c5e06070f0efca96227a863e",
              (const uint8_t *) ietf_text, 375,
              "36e5f6b5c5e06070f0efca96227a863e");
    poly_case("RFC 8439 A.3 #3",
              "36e5f6b5c5e06070f0efca96227a863e00000000000000000000000000000000",
              (const uint8_t *) ietf_text, 375,
              "f3477e7cd95417af89a6b8794c310cf0");
    poly_case("RFC 8439 A.3 #4",
              "1c9240a5eb55d38af333888604f6b5f0473917c1402b80099dca5cbc207075c0",
              (const uint8_t *) jabberwocky, 127,
              "4541669a7eaaee61e708dc7cbcc5eb62");
    /* #5: if one uses 130-bit partial reduction, does the code handle the
     * case where partially reduced final result is not fully reduced? */
    poly_case_hex("RFC 8439 A.3 #5",
                  "0200000000000000000000000000000000000000000000000000000000000000",
                  "ffffffffffffffffffffffffffffffff",
                  "03000000000000000000000000000000");
    /* #6: what happens if addition of s overflows modulo 2^128? */
    poly_case_hex("RFC 8439 A.3 #6",
                  "02000000000000000000000000000000ffffffffffffffffffffffffffffffff",
                  "02000000000000000000000000000000",
                  "03000000000000000000000000000000");
    /* #7: what happens if data limb is all ones and there is carry from the
     * lower limb? */
    poly_case_hex("RFC 8439 A.3 #7",
                  "0100000000000000000000000000000000000000000000000000000000000000",
                  "ffffffffffffffffffffffffffffffff"
                  "f0ffffffffffffffffffffffffffffff"
                  "11000000000000000000000000000000",
                  "05000000000000000000000000000000");
    /* #8: what happens if final result from polynomial part is exactly
     * 2^130-5? */
    poly_case_hex("RFC 8439 A.3 #8",
                  "0100000000000000000000000000000000000000000000000000000000000000",
                  "ffffffffffffffffffffffffffffffff"
                  "fbfefefefefefefefefefefefefefefe"
                  "01010101010101010101010101010101",
                  "00000000000000000000000000000000");
    /* #9: what happens if final result from polynomial part is exactly
     * 2^130-6? */
    poly_case_hex("RFC 8439 A.3 #9",
                  "0200000000000000000000000000000000000000000000000000000000000000",
                  "fdffffffffffffffffffffffffffffff",
                  "faffffffffffffffffffffffffffffff");
    /* #10: what happens if 5*H+L-type reduction produces 131-bit result? */
    poly_case_hex("RFC 8439 A.3 #10",
                  "0100000000000000040000000000000000000000000000000000000000000000",
                  "e33594d7505e43b90000000000000000"
                  "3394d7505e4379cd0100000000000000"
                  "00000000000000000000000000000000"
                  "01000000000000000000000000000000",
                  "14000000000000005500000000000000");
    /* #11: what happens if 5*H+L-type reduction produces 131-bit final
     * result? */
    poly_case_hex("RFC 8439 A.3 #11",
                  "0100000000000000040000000000000000000000000000000000000000000000",
                  "e33594d7505e43b90000000000000000"
                  "3394d7505e4379cd0100000000000000"
                  "00000000000000000000000000000000",
                  "13000000000000000000000000000000");

    /* [NACL onetimeauth]: key = first 32 bytes of the XSalsa20 stream
     * (stream3), message = stream4 ciphertext */
    poly_case_hex("NaCl onetimeauth",
        "eea6a7251c1e72916d11c2cb214d3c252539121d8e234e652d651fa4c8cff880",
        "8e993b9f48681273c29650ba32fc76ce48332ea7164d96a4476fb8c531a1186a"
        "c0dfc17c98dce87b4da7f011ec48c97271d2c20f9b928fe2270d6fb863d51738"
        "b48eeee314a7cc8ab932164548e526ae90224368517acfeabd6bb3732bc0e9da"
        "99832b61ca01b6de56244a9e88d5f9b37973f622a43d14a6599b1f654cb45a74"
        "e355a5",
        "f3ffc7703f9400e52a7dfb4b3d3305d9");

    /* consistency: empty message => tag = s; NULL message pointer allowed */
    {
        uint8_t key[32], tag[16];
        int     i;

        for (i = 0; i < 32; i++) {
            key[i] = (uint8_t) (0xf0 + i);
        }
        ref_poly1305(tag, NULL, 0, key);
        require("poly1305 of empty message is s",
                memcmp(tag, key + 16, 16) == 0);
    }
}

/* ------------------------------------------------------------------------ */
/* AEAD                                                                     */
/* ------------------------------------------------------------------------ */

static void
test_aead(void)
{
    uint8_t key[32], n8[8], n12[12], n24[24], ad[12], tag[16];
    uint8_t c[130], m[16];

    /* [AGL section 7] original construction */
    unhex_fixed(key, 32,
                "4290bcb154173531f314af57f3be3b5006da371ece272afa1b5dbdd1100a1007");
    unhex_fixed(m, 10, "86d09974840bded2a5ca");
    unhex_fixed(n8, 8, "cd7cf67be39c794a");
    unhex_fixed(ad, 10, "87e229d4500845a079c0");
    ref_aead_chacha20poly1305(c, c + 10, m, 10, ad, 10, n8, key);
    expect("draft-agl-tls-chacha20poly1305-04 AEAD", c, 26,
        "e3e446f7ede9a19b62a4677dabf4e3d24b876bb284753896e1d6");
    /* [SODIUM aead_chacha20poly1305.exp #2] same with empty AD (NULL) */
    ref_aead_chacha20poly1305(c, c + 10, m, 10, NULL, 0, n8, key);
    expect("original AEAD, empty AD", c, 26,
        "e3e446f7ede9a19b62a469e7789bcd954e658ed38423e23161dc");

    /* [RFC8439 2.8.2] */
    unhex_fixed(key, 32, KEY_80_9F);
    unhex_fixed(n12, 12, "070000004041424344454647");
    unhex_fixed(ad, 12, "50515253c0c1c2c3c4c5c6c7");
    ref_chacha20_ietf_xor(c, NULL, 32, key, n12, 0);
    expect("RFC 8439 2.8.2 poly1305 key", c, 32,
           "7bac2b252db447af09b67a55a4e955840ae1d6731075d9eb2a9375783ed553ff");
    ref_aead_chacha20poly1305_ietf(c, c + 114, (const uint8_t *) SUNSCREEN,
                                   114, ad, 12, n12, key);
    expect("RFC 8439 2.8.2 AEAD ciphertext || tag", c, 130,
        "d31a8d34648e60db7b86afbc53ef7ec2a4aded51296e08fea9e2b5a736ee62d6"
        "3dbea45e8ca9671282fafb69da92728b1a71de0a9e060b2905d6a5b67ecd3b36"
        "92ddbd7f2d778b8c9803aee328091b58fab324e4fad675945585808b4831d7bc"
        "3ff4def08e4b7a9de576d26586cec64b61161ae10b594f09e26a7e902ecbd060"
        "0691");
    expect("RFC 8439 2.8.2 AEAD tag", c + 114, 16,
           "1ae10b594f09e26a7e902ecbd0600691");

    /* [XCHACHA A.3.1] */
    unhex_fixed(n24, 24, "404142434445464748494a4b4c4d4e4f5051525354555657");
    ref_aead_xchacha20poly1305_ietf(c, tag, (const uint8_t *) SUNSCREEN, 114,
                                    ad, 12, n24, key);
    expect("draft-xchacha A.3.1 ciphertext", c, 114,
           "bd6d179d3e83d43b9576579493c0e939572a1700252bfaccbed2902c21396cbb"
           "731c7f1b0b4aa6440bf3a82f4eda7e39ae64c6708c54c216cb96b72e1213b452"
           "2f8c9ba40db5d945b11b69b982c1bb9e3f3fac2bc369488f76b2383565d3fff9"
           "21f9664c97637da9768812f615c68b13b52e");
    expect("draft-xchacha A.3.1 tag", tag, 16,
           "c0875924c1c7987947deafd8780acf49");

    /* [SODIUM aead_xchacha20poly1305.exp #1] */
    unhex_fixed(n24, 24, "07000000404142434445464748494a4b4c4d4e4f50515253");
    ref_aead_xchacha20poly1305_ietf(c, c + 114, (const uint8_t *) SUNSCREEN,
                                    114, ad, 12, n24, key);
    expect("libsodium XChaCha20-Poly1305 vector", c, 130,
        "f8ebea4875044066fc162a0604e171feecfb3d20425248563bcfd5a155dcc47b"
        "bda70b86e5ab9b55002bd1274c02db35321acd7af8b2e2d25015e136b7679458"
        "e9f43243bf719d639badb5feac03f80a19a96ef10cb1d15333a837b90946ba38"
        "54ee74da3f2585efc7e1e170e17e15e563e77601f4f85cafa8e5877614e143e6"
        "8420");

    /* empty everything, NULL pointers */
    ref_aead_chacha20poly1305(NULL, tag, NULL, 0, NULL, 0, n8, key);
    ref_aead_chacha20poly1305_ietf(NULL, tag, NULL, 0, NULL, 0, n12, key);
    ref_aead_xchacha20poly1305_ietf(NULL, tag, NULL, 0, NULL, 0, n24, key);
}

/* ------------------------------------------------------------------------ */
/* secretbox                                                                */
/* ------------------------------------------------------------------------ */

/* [SODIUM xchacha20.c] out = tag || ciphertext */
static const struct { const char *key; const char *nonce; const char *m; const char *out; } sbx_tv[] = {
    {
        "065ff46a9dddb1ab047ee5914d6d575a828b8cc1f454b24e8cd0f57efdc49a34",
        "f83262646ce01293b9923a65a073df78c54b2e799cd6c4e5",
        "",
        "4c72340416339dcdea01b760db5adaf7"
    },
    {
        "d3c71d54e6b13506e07aa2e7b412a17a7a1f34df3d3148cd3f45b91ccaa5f4d9",
        "943b454a853aa514c63cf99b1e197bbb99da24b2e2d93e47",
        "76bd706e07741e713d90efdb34ad202067263f984942aae8bda159f30dfccc72"
        "200f8093520b85c5ad124ff7c8b2d920946e5cfff4b819abf84c7b35a6205ca7"
        "2c9f8747c3044dd73fb4bebda1b476",
        "0384276f1cfa5c82c3e58f0f2acc1f821c6f526d2c19557cf8bd270fcde43fba"
        "1d88890663f7b2f5c6b1d7deccf5c91b4df5865dc55cc7e04d6793fc2db8f9e3"
        "b418f95cb796d67a7f3f7e097150cb607c435dacf82eac3d669866e5092ace"
    },
    {
        "9498fdb922e0596e32af7f8108def2068f5a32a5ac70bd33ade371701f3d98d0",
        "a0056f24be0d20106fe750e2ee3684d4457cbdcb3a74e566",
        "b1bc9cfedb340fb06a37eba80439189e48aa0cfd37020eec0afa09165af12864"
        "671b3fbddbbb20ac18f586f2f66d13b3ca40c9a7e21c4513a5d87a95319f8ca3"
        "c2151e2a1b8b86a35653e77f90b9e63d2a84be9b9603876a89d60fd708edcd64"
        "b41be1064b8ad1046553aaeb51dc70b8112c9915d94f2a5dad1e14e7009db6c7"
        "03c843a4f64b77d44b179b9579ac497dac2d33",
        "4918790d46893fa3dca74d8abc57eef7fca2c6393d1beef5efa845ac20475db3"
        "8d1a068debf4c5dbd8614eb072877c565dc52bd40941f0b590d2079a5028e426"
        "bf50bcbaadcbebf278bddceedc578a5e31379523dee15026ec82d34e56f2871f"
        "df13255db199ac48f163d5ee7e4f4e09a39451356959d9242a39aea33990ab96"
        "0a4c25346e3d9397fc5e7cb6266c2476411cd331f2bcb4486750c746947ec640"
        "1865d5"
    },
    {
        "fa2d915e044d0519248150e7c815b01f0f2a691c626f8d22c3ef61e7f16eea47",
        "c946065dc8befa9cc9f292ea2cf28f0256285565051792b7",
        "d5be1a24c7872115dc5c5b4234dbee35a6f89ae3a91b3e33d75249a0aecfed25"
        "2341295f49296f7ee14d64de1ea6355cb8facd065052d869aeb1763cda7e418a"
        "7e33b6f7a81327181df6cd4de3a126d9df1b5e8b0b1a6b281e63f2",
        "6d32e3571afec58b0acabb54a287118b3ed6691f56cc8ead12d735352c9a050c"
        "2ca173c78b6092f9ad4b7c21c36fb0ce18560956395bab3099c54760a743051a"
        "c6a898a0b0034b5e953340c975cf7a873c56b27e66bca2bff1dd977addefc793"
        "5bb7550753dd13d1f1a43d"
    },
    {
        "6f149c2ec27af45176030c8dd7ab0e1e488f5803f26f75045d7a56f59a587a85",
        "952aff2f39bc70016f04ac7fb8b55fd22764ba16b56e255d",
        "8fde598c4bde5786abdc6ab83fce66d59782b6ce36afe028c447ad4086a74876"
        "4afa88a520e837a9d56d0b7693b0476649f24c2aa44b94615a1efc75",
        "9bccf07974836fa4609d32d9527d928d184d9c6c0823af2f703e0e257a162d26"
        "d3678fa15ab1c4db76ac42084d32cefca8efaf77814c199b310999e327a3e3da"
        "a2e235b175979504ede87b58"
    },
    {
        "b964b7fdf442efbcc2cd3e4cd596035bdfb05ed7d44f7fd4dce2d5614af5c8c4",
        "2886fbfa4b35b68f28d31df6243a4fbc56475b69e24820a4",
        "",
        "b83fbdd112bf0f7d62eff96c9faa8850"
    },
    {
        "10c0ad4054b48d7d1de1d9ab6f782ca883d886573e9d18c1d47b6ee6b5208189",
        "977edf57428d0e0247a3c88c9a9ec321bbaae1a4da8353b5",
        "518e4a27949812424b2a381c3efea6055ee5e75eff",
        "0c801a037c2ed0500d6ef68e8d195eceb05a15f8edb68b35773e81ac2aca18e9"
        "be53416f9a"
    },
    {
        "7db0a81d01699c86f47a3ec76d46aa32660adad7f9ac72cf8396419f789f6bb1",
        "e7cb57132ce954e28f4470cca1dbda20b534cdf32fbe3658",
        "ee6511d403539e611ab312205f0c3b8f36a33d36f1dc44bb33d6836f0ab93b9f"
        "1747167bf0150f045fcd12a39479641d8bdde6fe01475196e8fe2c435e834e30"
        "a59f6aaa01ebcd",
        "ae8b1d4df4f982b2702626feca07590fedd0dfa7ae34e6a098372a1aa32f9fbf"
        "0ce2a88b5c16a571ef48f3c9fda689ce8ebb9947c9e2a28e01b1191efc81ad2c"
        "e0ed6e6fc7c164b1fc7f3d50b7f5e47a895db3c1fc46c0"
    },
    {
        "7b043dd27476cf5a2baf2907541d8241ecd8b97d38d08911737e69b0846732fb",
        "74706a2855f946ed600e9b453c1ac372520b6a76a3c48a76",
        "dbf165bb8352d6823991b99f3981ba9c8153635e5695477cba54e96a2a8c4dc5"
        "f9dbe817887d7340e3f48a",
        "ce57261afba90a9598de15481c43f26f7b8c8cb2806c7c977752dba898dc51b9"
        "2a3f1a62ebf696747bfccf72e0edda97f2ccd6d496f55aefbb3ec2"
    },
    {
        "e588e418d658df1b2b1583122e26f74ca3506b425087bea895d81021168f8164",
        "4f4d0ffd699268cd841ce4f603fe0cd27b8069fcf8215fbb",
        "f91bcdcf4d08ba8598407ba8ef661e66c59ca9d89f3c0a3542e47246c777091e"
        "4864e63e1e3911dc01257255e551527a53a34481be",
        "22dc88de7cacd4d9ce73359f7d6e16e74caeaa7b0d1ef2bb10fda4e79c3d5a9a"
        "a04b8b03575fd27bc970c9ed0dc80346162469e0547030ddccb8cdc959814009"
        "07c87c9442"
    },
};

static void
test_secretbox(void)
{
    uint8_t  key[32], n24[24];
    uint8_t *m;
    uint8_t *boxed;
    size_t   mlen, i;

    /* [NACL secretbox] expected = tag || ciphertext */
    unhex_fixed(key, 32, NACL_FIRSTKEY);
    unhex_fixed(n24, 24, NACL_NONCE);
    m     = unhex(NACL_M, &mlen);
    boxed = xmalloc(16 + mlen);
    ref_secretbox_xsalsa20poly1305(boxed + 16, boxed, m, mlen, n24, key);
    expect("NaCl secretbox", boxed, 16 + mlen,
        "f3ffc7703f9400e52a7dfb4b3d3305d98e993b9f48681273c29650ba32fc76ce"
        "48332ea7164d96a4476fb8c531a1186ac0dfc17c98dce87b4da7f011ec48c972"
        "71d2c20f9b928fe2270d6fb863d51738b48eeee314a7cc8ab932164548e526ae"
        "90224368517acfeabd6bb3732bc0e9da99832b61ca01b6de56244a9e88d5f9b3"
        "7973f622a43d14a6599b1f654cb45a74e355a5");
    /* in place */
    memcpy(boxed + 16, m, mlen);
    ref_secretbox_xsalsa20poly1305(boxed + 16, boxed, boxed + 16, mlen, n24,
                                   key);
    expect("NaCl secretbox (in place)", boxed, 16 + mlen,
        "f3ffc7703f9400e52a7dfb4b3d3305d98e993b9f48681273c29650ba32fc76ce"
        "48332ea7164d96a4476fb8c531a1186ac0dfc17c98dce87b4da7f011ec48c972"
        "71d2c20f9b928fe2270d6fb863d51738b48eeee314a7cc8ab932164548e526ae"
        "90224368517acfeabd6bb3732bc0e9da99832b61ca01b6de56244a9e88d5f9b3"
        "7973f622a43d14a6599b1f654cb45a74e355a5");
    free(boxed);
    free(m);

    for (i = 0; i < sizeof sbx_tv / sizeof sbx_tv[0]; i++) {
        unhex_fixed(key, 32, sbx_tv[i].key);
        unhex_fixed(n24, 24, sbx_tv[i].nonce);
        m     = unhex(sbx_tv[i].m, &mlen);
        boxed = xmalloc(16 + mlen);
        ref_secretbox_xchacha20poly1305(boxed + 16, boxed, m, mlen, n24, key);
        expect("secretbox_xchacha20poly1305", boxed, 16 + mlen,
               sbx_tv[i].out);
        free(boxed);
        free(m);
    }
}

/* ------------------------------------------------------------------------ */
/* secretstream chunk                                                       */
/* ------------------------------------------------------------------------ */

/* There are no published known-answer vectors for a single secretstream
 * chunk (libsodium's own test uses random keys).  The chunk is, however,
 * RFC 8439 AEAD encryption of (64-byte tag block || m) whenever libsodium's
 * padding quirk coincides with pad16, i.e. for mlen mod 16 in {0, 8}: there
 * (16 - 64 + mlen) & 15 == (-(64 + mlen)) & 15.  For those lengths the chunk
 * must agree with ref_aead_chacha20poly1305_ietf, which is vector-checked
 * above; for the other lengths ciphertext must agree and the MAC must
 * differ. */
static void
test_secretstream(void)
{
    uint8_t key[32], n12[12], ad[40];
    uint8_t pt[64 + 200], ct[64 + 200], tag[16];
    uint8_t m[200], out[200 + 17];
    size_t  mlen, adlen;
    int     i;
    int     agree = 0, differ = 0;

    for (i = 0; i < 32; i++) {
        key[i] = (uint8_t) (0x30 + 7 * i);
    }
    for (i = 0; i < 12; i++) {
        n12[i] = (uint8_t) (0xa0 + i);
    }
    for (i = 0; i < 40; i++) {
        ad[i] = (uint8_t) (0x55 ^ (3 * i));
    }
    for (i = 0; i < 200; i++) {
        m[i] = (uint8_t) (i * i + 1);
    }
    for (adlen = 0; adlen <= 40; adlen += (adlen < 18) ? 1 : 11) {
        for (mlen = 0; mlen <= 200; mlen++) {
            uint8_t chunk_tag = (uint8_t) (mlen & 3);

            ref_secretstream_chunk(out, (mlen > 0) ? m : NULL, mlen,
                                   (adlen > 0) ? ad : NULL, adlen, chunk_tag,
                                   key, n12);
            memset(pt, 0, 64);
            pt[0] = chunk_tag;
            memcpy(pt + 64, m, mlen);
            ref_aead_chacha20poly1305_ietf(ct, tag, pt, 64 + mlen, ad, adlen,
                                           n12, key);
            require("secretstream tag byte", out[0] == ct[0]);
            require("secretstream ciphertext",
                    memcmp(out + 1, ct + 64, mlen) == 0);
            if (mlen % 16 == 0 || mlen % 16 == 8) {
                require("secretstream MAC == RFC 8439 MAC when pads coincide",
                        memcmp(out + 1 + mlen, tag, 16) == 0);
                agree++;
            } else {
                require("secretstream MAC != RFC 8439 MAC when pads differ",
                        memcmp(out + 1 + mlen, tag, 16) != 0);
                differ++;
            }
        }
    }
    require("secretstream coverage", agree > 0 && differ > 0);
}

int
main(void)
{
    test_chacha20();
    test_xchacha20();
    test_salsa20();
    test_poly1305();
    test_aead();
    test_secretbox();
    test_secretstream();

    if (n_fail != 0) {
        printf("ref_stream selftest FAILED (%d failures, %d vectors)\n",
               n_fail, n_vectors);
        return 1;
    }
    printf("ref_stream selftest OK (%d vectors)\n", n_vectors);
    return 0;
}
