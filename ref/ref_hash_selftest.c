/*
 * ref_hash_selftest.c - known-answer tests for the reference models in
 * ref_hash.c.  Does not call or include libsodium.
 *
 * GENERATED ONCE, then kept as a plain source file.  Vector provenance:
 *   SHA-2 ........ FIPS 180-4 / NIST example values ("", "abc", the 448- and
 *                  896-bit messages, one million 'a')
 *   HMAC ......... RFC 4231 test cases 1,2,3,4,6,7 (5 is a truncation test);
 *                  HMAC-SHA-512-256 = first 32 bytes of the SHA-512 value
 *   HKDF ......... RFC 5869 A.1-A.3 (SHA-256); for SHA-512 (no RFC vectors)
 *                  the expected output of libsodium's own test-suite file
 *                  test/default/kdf_hkdf.exp (PRK and the 98-byte expand),
 *                  also for SHA-256
 *   BLAKE2b ...... RFC 7693 appendix A ("abc"), RFC 7693 appendix E
 *                  self-test (keyed + unkeyed, grand hash), and the 256
 *                  official keyed KAT values (blake2b-kat.txt, as carried in
 *                  test/default/generichash.c; inputs regenerated here)
 *   SipHash ...... the 64 vectors of the SipHash paper / reference vectors.h
 *                  (64-bit) and the 64 128-bit vectors of vectors.h, as
 *                  carried in test/default/shorthash.exp, siphashx24.exp
 *   AES-256 ...... FIPS 197 C.3, SP 800-38A F.1.5 block #1
 *   AES-256-GCM .. McGrew/Viega GCM spec test cases 13-16, plus a subset of
 *                  the NIST CAVS gcmEncryptExtIV256 vectors carried in
 *                  test/default/aead_aes256gcm.c (one per (mlen, adlen))
 *   AEGIS ........ draft-irtf-cfrg-aegis-aead appendix A test vectors 1-5 for
 *                  AEGIS-128L and AEGIS-256 (128- and 256-bit tags), plus the
 *                  64+64 vectors of test/default/aead_aegis128l.c and
 *                  aead_aegis256.c (256-bit tags)
 */
#include <stdio.h>
#include <stdlib.h>
#include <string.h>

#include "ref_hash.h"

static unsigned n_vectors = 0; /* known-answer comparisons */
static unsigned n_aux     = 0; /* auxiliary checks (return codes, NULL/0) */
static unsigned n_fail    = 0;

static int
hexval(int ch)
{
    if (ch >= '0' && ch <= '9') {
        return ch - '0';
    }
    if (ch >= 'a' && ch <= 'f') {
        return ch - 'a' + 10;
    }
    if (ch >= 'A' && ch <= 'F') {
        return ch - 'A' + 10;
    }
    fprintf(stderr, "bad hex digit\n");
    exit(2);
}

/* returns a malloc'd buffer (never NULL, even for ""), length in *len */
static uint8_t *
unhex(const char *hex, size_t *len)
{
    size_t   n = strlen(hex) / 2;
    uint8_t *p = (uint8_t *) malloc(n + 1);
    size_t   i;

    if (p == NULL || strlen(hex) % 2 != 0) {
        fprintf(stderr, "unhex failure\n");
        exit(2);
    }
    for (i = 0; i < n; i++) {
        p[i] = (uint8_t) (hexval(hex[2 * i]) * 16 + hexval(hex[2 * i + 1]));
    }
    *len = n;
    return p;
}

static void
check(const char *what, unsigned idx, const uint8_t *got, size_t gotlen,
      const char *expected_hex)
{
    size_t   elen;
    uint8_t *e = unhex(expected_hex, &elen);
    size_t   i;

    n_vectors++;
    if (elen != gotlen || (gotlen > 0 && memcmp(got, e, gotlen) != 0)) {
        n_fail++;
        printf("FAIL %s #%u\n  expected %s\n  got      ", what, idx,
               expected_hex);
        for (i = 0; i < gotlen; i++) {
            printf("%02x", got[i]);
        }
        printf("\n");
    }
    free(e);
}

static void
check_true(const char *what, int cond)
{
    n_aux++;
    if (!cond) {
        n_fail++;
        printf("FAIL %s\n", what);
    }
}
/* ---------------- SHA-2 ---------------- */
static void
test_sha2(void)
{
    uint8_t  h256[32], h512[64];
    uint8_t *big;
    ref_sha256(h256, (const uint8_t *) "", 0);
    check("sha256", 0, h256, 32,
      "e3b0c44298fc1c149afbf4c8996fb92427ae41e4649b934ca495991b7852b855");
    ref_sha256(h256, (const uint8_t *) "abc", 3);
    check("sha256", 1, h256, 32,
      "ba7816bf8f01cfea414140de5dae2223b00361a396177a9cb410ff61f20015ad");
    ref_sha256(h256, (const uint8_t *) "abcdbcdecdefdefgefghfghighijhijkijkljklmklmnlmnomnopnopq", 56);
    check("sha256", 2, h256, 32,
      "248d6a61d20638b8e5c026930c3e6039a33ce45964ff2167f6ecedd419db06c1");
    ref_sha512(h512, (const uint8_t *) "", 0);
    check("sha512", 0, h512, 64,
      "cf83e1357eefb8bdf1542850d66d8007d620e4050b5715dc83f4a921d36ce9ce"
      "47d0d13c5d85f2b0ff8318d2877eec2f63b931bd47417a81a538327af927da3e");
    ref_sha512(h512, (const uint8_t *) "abc", 3);
    check("sha512", 1, h512, 64,
      "ddaf35a193617abacc417349ae20413112e6fa4e89a97ea20a9eeee64b55d39a"
      "2192992a274fc1a836ba3c23a3feebbd454d4423643ce80e2a9ac94fa54ca49f");
    ref_sha512(h512, (const uint8_t *) "abcdefghbcdefghicdefghijdefghijkefghijklfghijklmghijklmnhijklmnoijklmnopjklmnopqklmnopqrlmnopqrsmnopqrstnopqrstu", 112);
    check("sha512", 2, h512, 64,
      "8e959b75dae313da8cf4f72814fc143f8f7779c6eb9f7fa17299aeadb6889018"
      "501d289e4900f7e4331b99dec4b5433ac7d329eeb6dd26545e96e55b874be909");
    /* NULL + length 0 */
    ref_sha256(h256, NULL, 0);
    check("sha256 NULL", 0, h256, 32,
      "e3b0c44298fc1c149afbf4c8996fb92427ae41e4649b934ca495991b7852b855");
    ref_sha512(h512, NULL, 0);
    check("sha512 NULL", 0, h512, 64,
      "cf83e1357eefb8bdf1542850d66d8007d620e4050b5715dc83f4a921d36ce9ce"
      "47d0d13c5d85f2b0ff8318d2877eec2f63b931bd47417a81a538327af927da3e");
    /* one million 'a' */
    big = (uint8_t *) malloc(1000000);
    if (big == NULL) {
        exit(2);
    }
    memset(big, 'a', 1000000);
    ref_sha256(h256, big, 1000000);
    check("sha256 million a", 0, h256, 32,
      "cdc76e5c9914fb9281a1c7e284d73e67f1809a48a497200e046d39ccc7112cd0");
    ref_sha512(h512, big, 1000000);
    check("sha512 million a", 0, h512, 64,
      "e718483d0ce769644e2e42c7bc15b4638e1f98b13b2044285632a803afa973eb"
      "de0ff244877ea60a4cb0432ce577c31beb009c5c2c49aa2e4eadb217ad8cc09b");
    free(big);
}
/* ---------------- HMAC (RFC 4231) ---------------- */
static const struct {
    unsigned    tc;
    const char *key;
    const char *data;
    const char *sha256;
    const char *sha512;
} hmac_tv[] = {
    { 1,
      "0b0b0b0b0b0b0b0b0b0b0b0b0b0b0b0b0b0b0b0b",
      "4869205468657265",
      "b0344c61d8db38535ca8afceaf0bf12b881dc200c9833da726e9376c2e32cff7",
      "87aa7cdea5ef619d4ff0b4241a1d6cb02379f4e2ce4ec2787ad0b30545e17cde"
      "daa833b7d6b8a702038b274eaea3f4e4be9d914eeb61f1702e696c203a126854" },
    { 2,
      "4a656665",
      "7768617420646f2079612077616e7420666f72206e6f7468696e673f",
      "5bdcc146bf60754e6a042426089575c75a003f089d2739839dec58b964ec3843",
      "164b7a7bfcf819e2e395fbe73b56e0a387bd64222e831fd610270cd7ea250554"
      "9758bf75c05a994a6d034f65f8f0e6fdcaeab1a34d4a6b4b636e070a38bce737" },
    { 3,
      "aaaaaaaaaaaaaaaaaaaaaaaaaaaaaaaaaaaaaaaa",
      "dddddddddddddddddddddddddddddddddddddddddddddddddddddddddddddddd"
      "dddddddddddddddddddddddddddddddddddd",
      "773ea91e36800e46854db8ebd09181a72959098b3ef8c122d9635514ced565fe",
      "fa73b0089d56a284efb0f0756c890be9b1b5dbdd8ee81a3655f83e33b2279d39"
      "bf3e848279a722c806b485a47e67c807b946a337bee8942674278859e13292fb" },
    { 4,
      "0102030405060708090a0b0c0d0e0f10111213141516171819",
      "cdcdcdcdcdcdcdcdcdcdcdcdcdcdcdcdcdcdcdcdcdcdcdcdcdcdcdcdcdcdcdcd"
      "cdcdcdcdcdcdcdcdcdcdcdcdcdcdcdcdcdcd",
      "82558a389a443c0ea4cc819899f2083a85f0faa3e578f8077a2e3ff46729665b",
      "b0ba465637458c6990e5a8c5f61d4af7e576d97ff94b872de76f8050361ee3db"
      "a91ca5c11aa25eb4d679275cc5788063a5f19741120c4f2de2adebeb10a298dd" },
    { 6,
      "aaaaaaaaaaaaaaaaaaaaaaaaaaaaaaaaaaaaaaaaaaaaaaaaaaaaaaaaaaaaaaaa"
      "aaaaaaaaaaaaaaaaaaaaaaaaaaaaaaaaaaaaaaaaaaaaaaaaaaaaaaaaaaaaaaaa"
      "aaaaaaaaaaaaaaaaaaaaaaaaaaaaaaaaaaaaaaaaaaaaaaaaaaaaaaaaaaaaaaaa"
      "aaaaaaaaaaaaaaaaaaaaaaaaaaaaaaaaaaaaaaaaaaaaaaaaaaaaaaaaaaaaaaaa"
      "aaaaaa",
      "54657374205573696e67204c6172676572205468616e20426c6f636b2d53697a"
      "65204b6579202d2048617368204b6579204669727374",
      "60e431591ee0b67f0d8a26aacbf5b77f8e0bc6213728c5140546040f0ee37f54",
      "80b24263c7c1a3ebb71493c1dd7be8b49b46d1f41b4aeec1121b013783f8f352"
      "6b56d037e05f2598bd0fd2215d6a1e5295e64f73f63f0aec8b915a985d786598" },
    { 7,
      "aaaaaaaaaaaaaaaaaaaaaaaaaaaaaaaaaaaaaaaaaaaaaaaaaaaaaaaaaaaaaaaa"
      "aaaaaaaaaaaaaaaaaaaaaaaaaaaaaaaaaaaaaaaaaaaaaaaaaaaaaaaaaaaaaaaa"
      "aaaaaaaaaaaaaaaaaaaaaaaaaaaaaaaaaaaaaaaaaaaaaaaaaaaaaaaaaaaaaaaa"
      "aaaaaaaaaaaaaaaaaaaaaaaaaaaaaaaaaaaaaaaaaaaaaaaaaaaaaaaaaaaaaaaa"
      "aaaaaa",
      "5468697320697320612074657374207573696e672061206c6172676572207468"
      "616e20626c6f636b2d73697a65206b657920616e642061206c61726765722074"
      "68616e20626c6f636b2d73697a6520646174612e20546865206b6579206e6565"
      "647320746f20626520686173686564206265666f7265206265696e6720757365"
      "642062792074686520484d414320616c676f726974686d2e",
      "9b09ffa71b942fcb27635fbcd5b0e944bfdc63644f0713938a7f51535c3a35e2",
      "e37b6a775dc87dbaa4dfa9f96e5e3ffddebd71f8867289865df5a32d20cdc944"
      "b6022cac3c4982b10d5eeb55c3e4de15134676fb6de0446065c97440fa8c6a58" },
};

static void
test_hmac(void)
{
    uint8_t  o32[32], o64[64];
    char     trunc[65];
    size_t   i, klen, dlen;
    uint8_t *k, *d;

    for (i = 0; i < sizeof hmac_tv / sizeof hmac_tv[0]; i++) {
        k = unhex(hmac_tv[i].key, &klen);
        d = unhex(hmac_tv[i].data, &dlen);
        ref_hmac_sha256(o32, k, klen, d, dlen);
        check("hmac-sha256 RFC4231 tc", hmac_tv[i].tc, o32, 32, hmac_tv[i].sha256);
        ref_hmac_sha512(o64, k, klen, d, dlen);
        check("hmac-sha512 RFC4231 tc", hmac_tv[i].tc, o64, 64, hmac_tv[i].sha512);
        memcpy(trunc, hmac_tv[i].sha512, 64);
        trunc[64] = 0;
        ref_hmac_sha512256(o32, k, klen, d, dlen);
        check("hmac-sha512-256 RFC4231 tc", hmac_tv[i].tc, o32, 32, trunc);
        free(k);
        free(d);
    }
    /* NULL key / NULL message with length 0 must equal the empty-string case */
    {
        uint8_t a[64], b[64], dummy = 0;

        ref_hmac_sha256(a, NULL, 0, NULL, 0);
        ref_hmac_sha256(b, &dummy, 0, &dummy, 0);
        check_true("hmac-sha256 NULL/0", memcmp(a, b, 32) == 0);
        ref_hmac_sha512(a, NULL, 0, NULL, 0);
        ref_hmac_sha512(b, &dummy, 0, &dummy, 0);
        check_true("hmac-sha512 NULL/0", memcmp(a, b, 64) == 0);
    }
}
/* ---------------- HKDF ---------------- */
static const struct {
    unsigned    tc;
    const char *ikm;
    const char *salt;
    const char *info;
    const char *prk;
    const char *okm;
} hkdf256_tv[] = {
    { 1,
      "0b0b0b0b0b0b0b0b0b0b0b0b0b0b0b0b0b0b0b0b0b0b",
      "000102030405060708090a0b0c",
      "f0f1f2f3f4f5f6f7f8f9",
      "077709362c2e32df0ddc3f0dc47bba6390b6c73bb50f9c3122ec844ad7c2b3e5",
      "3cb25f25faacd57a90434f64d0362f2a2d2d0a90cf1a5a4c5db02d56ecc4c5bf"
      "34007208d5b887185865" },
    { 2,
      "000102030405060708090a0b0c0d0e0f101112131415161718191a1b1c1d1e1f"
      "202122232425262728292a2b2c2d2e2f303132333435363738393a3b3c3d3e3f"
      "404142434445464748494a4b4c4d4e4f",
      "606162636465666768696a6b6c6d6e6f707172737475767778797a7b7c7d7e7f"
      "808182838485868788898a8b8c8d8e8f909192939495969798999a9b9c9d9e9f"
      "a0a1a2a3a4a5a6a7a8a9aaabacadaeaf",
      "b0b1b2b3b4b5b6b7b8b9babbbcbdbebfc0c1c2c3c4c5c6c7c8c9cacbcccdcecf"
      "d0d1d2d3d4d5d6d7d8d9dadbdcdddedfe0e1e2e3e4e5e6e7e8e9eaebecedeeef"
      "f0f1f2f3f4f5f6f7f8f9fafbfcfdfeff",
      "06a6b88c5853361a06104c9ceb35b45cef760014904671014a193f40c15fc244",
      "b11e398dc80327a1c8e7f78c596a49344f012eda2d4efad8a050cc4c19afa97c"
      "59045a99cac7827271cb41c65e590e09da3275600c2f09b8367793a9aca3db71"
      "cc30c58179ec3e87c14c01d5c1f3434f1d87" },
    { 3,
      "0b0b0b0b0b0b0b0b0b0b0b0b0b0b0b0b0b0b0b0b0b0b",
      "",
      "",
      "19ef24a32c717b167f33a91d6f648bdf96596776afdb6377ac434c1c293ccb04",
      "8da4e775a563c18f715f802a063c5a31b8a11f5c5ee1879ec3454e5f3c738d2d"
      "9d201395faa4b61a96c8" },
};

static void
test_hkdf(void)
{
    uint8_t  prk[64];
    uint8_t  okm[99];
    uint8_t  master[66], salt77[77], ctx[88];
    uint8_t *ikm, *salt, *info;
    uint8_t *big;
    size_t   ikmlen, saltlen, infolen, okmlen;
    size_t   i;

    for (i = 0; i < sizeof hkdf256_tv / sizeof hkdf256_tv[0]; i++) {
        ikm    = unhex(hkdf256_tv[i].ikm, &ikmlen);
        salt   = unhex(hkdf256_tv[i].salt, &saltlen);
        info   = unhex(hkdf256_tv[i].info, &infolen);
        okmlen = strlen(hkdf256_tv[i].okm) / 2;
        ref_hkdf_sha256_extract(prk, saltlen ? salt : NULL, saltlen, ikm, ikmlen);
        check("hkdf-sha256 RFC5869 PRK tc", hkdf256_tv[i].tc, prk, 32, hkdf256_tv[i].prk);
        check_true("hkdf-sha256 expand ret",
                   ref_hkdf_sha256_expand(okm, okmlen, infolen ? info : NULL,
                                          infolen, prk) == 0);
        check("hkdf-sha256 RFC5869 OKM tc", hkdf256_tv[i].tc, okm, okmlen, hkdf256_tv[i].okm);
        free(ikm);
        free(salt);
        free(info);
    }

    /* parameters of libsodium test/default/kdf_hkdf.c, expected output from
     * kdf_hkdf.exp (last expand line: 98 bytes, context[0] = 98) */
    for (i = 0; i < sizeof master; i++) {
        master[i] = (uint8_t) i;
    }
    for (i = 0; i < sizeof salt77; i++) {
        salt77[i] = (uint8_t) ~i;
    }
    for (i = 0; i < sizeof ctx; i++) {
        ctx[i] = (uint8_t) (i + 111);
    }
    ctx[0] = 98;
    ref_hkdf_sha256_extract(prk, salt77, sizeof salt77, master, sizeof master);
    check("hkdf-sha256 kdf_hkdf.exp PRK", 0, prk, 32,
      "8c3725c0ea8e14106d8c342887ccd1218cc205acecd8095ae1efc099ec195e7e");
    check_true("hkdf-sha256 expand ret", ref_hkdf_sha256_expand(okm, 98, ctx, sizeof ctx, prk) == 0);
    check("hkdf-sha256 kdf_hkdf.exp OKM", 0, okm, 98,
      "a1245e0117a0e7c3cfbcd3d3eeb21a5aa7f2a73aea4465f4d83c8d0c6237c5c0"
      "93ada99ada6ad75dcf18d1eb58982c7316d5c366ce5128a832d433c960e6bf7b"
      "e42e4dce2747e3cc78101ed44aebcdbbf6bcd42f5160ca40784ea3ee3dd6be53"
      "7475");
    ref_hkdf_sha512_extract(prk, salt77, sizeof salt77, master, sizeof master);
    check("hkdf-sha512 kdf_hkdf.exp PRK", 0, prk, 64,
      "2502bc897dc1b23f9f2d8c35d519c5280ea960bf9154ebb07d377a12a81a4794"
      "ea8bdc0cb6ec59ab3303f5cbd713027825715f8af2ac0203e560fd2e55f4ff2b");
    check_true("hkdf-sha512 expand ret", ref_hkdf_sha512_expand(okm, 98, ctx, sizeof ctx, prk) == 0);
    check("hkdf-sha512 kdf_hkdf.exp OKM", 0, okm, 98,
      "db14a6d9c6311aadd73d9fb5b38b654bf306e0ea3880d22a12032971115d22dc"
      "38f9bf03ac83a177a0e36be7f710d4a903934601d15911942f11364692d77958"
      "be02be75eb6c697e3d963f6ca2c26449272bd05cd3ec41b884a6a97381f57f19"
      "d70c");

    /* length limits: 255*HashLen accepted, one more rejected; 0 accepted */
    big = (uint8_t *) malloc(255 * 64 + 1);
    if (big == NULL) {
        exit(2);
    }
    check_true("hkdf-sha256 expand 0", ref_hkdf_sha256_expand(NULL, 0, NULL, 0, prk) == 0);
    check_true("hkdf-sha256 expand max", ref_hkdf_sha256_expand(big, 255 * 32, NULL, 0, prk) == 0);
    check_true("hkdf-sha256 expand max+1", ref_hkdf_sha256_expand(big, 255 * 32 + 1, NULL, 0, prk) == -1);
    check_true("hkdf-sha512 expand 0", ref_hkdf_sha512_expand(NULL, 0, NULL, 0, prk) == 0);
    check_true("hkdf-sha512 expand max", ref_hkdf_sha512_expand(big, 255 * 64, NULL, 0, prk) == 0);
    check_true("hkdf-sha512 expand max+1", ref_hkdf_sha512_expand(big, 255 * 64 + 1, NULL, 0, prk) == -1);
    free(big);
}
/* ---------------- BLAKE2b ---------------- */
/* official keyed KAT: key = 00..3f, input i = 00 01 .. (i-1), 64-byte output */
static const char *const blake2b_keyed_kat[256] = {
    "10ebb67700b1868efb4417987acf4690ae9d972fb7a590c2f02871799aaa4786"
    "b5e996e8f0f4eb981fc214b005f42d2ff4233499391653df7aefcbc13fc51568",
    "961f6dd1e4dd30f63901690c512e78e4b45e4742ed197c3c5e45c549fd25f2e4"
    "187b0bc9fe30492b16b0d0bc4ef9b0f34c7003fac09a5ef1532e69430234cebd",
    "da2cfbe2d8409a0f38026113884f84b50156371ae304c4430173d08a99d9fb1b"
    "983164a3770706d537f49e0c916d9f32b95cc37a95b99d857436f0232c88a965",
    "33d0825dddf7ada99b0e7e307104ad07ca9cfd9692214f1561356315e784f3e5"
    "a17e364ae9dbb14cb2036df932b77f4b292761365fb328de7afdc6d8998f5fc1",
    "beaa5a3d08f3807143cf621d95cd690514d0b49efff9c91d24b59241ec0eefa5"
    "f60196d407048bba8d2146828ebcb0488d8842fd56bb4f6df8e19c4b4daab8ac",
    "098084b51fd13deae5f4320de94a688ee07baea2800486689a8636117b46c1f4"
    "c1f6af7f74ae7c857600456a58a3af251dc4723a64cc7c0a5ab6d9cac91c20bb",
    "6044540d560853eb1c57df0077dd381094781cdb9073e5b1b3d3f6c7829e1206"
    "6bbaca96d989a690de72ca3133a83652ba284a6d62942b271ffa2620c9e75b1f",
    "7a8cfe9b90f75f7ecb3acc053aaed6193112b6f6a4aeeb3f65d3de541942deb9"
    "e2228152a3c4bbbe72fc3b12629528cfbb09fe630f0474339f54abf453e2ed52",
    "380beaf6ea7cc9365e270ef0e6f3a64fb902acae51dd5512f84259ad2c91f4bc"
    "4108db73192a5bbfb0cbcf71e46c3e21aee1c5e860dc96e8eb0b7b8426e6abe9",
    "60fe3c4535e1b59d9a61ea8500bfac41a69dffb1ceadd9aca323e9a625b64da5"
    "763bad7226da02b9c8c4f1a5de140ac5a6c1124e4f718ce0b28ea47393aa6637",
    "4fe181f54ad63a2983feaaf77d1e7235c2beb17fa328b6d9505bda327df19fc3"
    "7f02c4b6f0368ce23147313a8e5738b5fa2a95b29de1c7f8264eb77b69f585cd",
    "f228773ce3f3a42b5f144d63237a72d99693adb8837d0e112a8a0f8ffff2c362"
    "857ac49c11ec740d1500749dac9b1f4548108bf3155794dcc9e4082849e2b85b",
    "962452a8455cc56c8511317e3b1f3b2c37df75f588e94325fdd77070359cf63a"
    "9ae6e930936fdf8e1e08ffca440cfb72c28f06d89a2151d1c46cd5b268ef8563",
    "43d44bfa18768c59896bf7ed1765cb2d14af8c260266039099b25a603e4ddc50"
    "39d6ef3a91847d1088d401c0c7e847781a8a590d33a3c6cb4df0fab1c2f22355",
    "dcffa9d58c2a4ca2cdbb0c7aa4c4c1d45165190089f4e983bb1c2cab4aaeff1f"
    "a2b5ee516fecd780540240bf37e56c8bcca7fab980e1e61c9400d8a9a5b14ac6",
    "6fbf31b45ab0c0b8dad1c0f5f4061379912dde5aa922099a030b725c73346c52"
    "4291adef89d2f6fd8dfcda6d07dad811a9314536c2915ed45da34947e83de34e",
    "a0c65bddde8adef57282b04b11e7bc8aab105b99231b750c021f4a735cb1bcfa"
    "b87553bba3abb0c3e64a0b6955285185a0bd35fb8cfde557329bebb1f629ee93",
    "f99d815550558e81eca2f96718aed10d86f3f1cfb675cce06b0eff02f617c5a4"
    "2c5aa760270f2679da2677c5aeb94f1142277f21c7f79f3c4f0cce4ed8ee62b1",
    "95391da8fc7b917a2044b3d6f5374e1ca072b41454d572c7356c05fd4bc1e0f4"
    "0b8bb8b4a9f6bce9be2c4623c399b0dca0dab05cb7281b71a21b0ebcd9e55670",
    "04b9cd3d20d221c09ac86913d3dc63041989a9a1e694f1e639a3ba7e451840f7"
    "50c2fc191d56ad61f2e7936bc0ac8e094b60caeed878c18799045402d61ceaf9",
    "ec0e0ef707e4ed6c0c66f9e089e4954b058030d2dd86398fe84059631f9ee591"
    "d9d77375355149178c0cf8f8e7c49ed2a5e4f95488a2247067c208510fadc44c",
    "9a37cce273b79c09913677510eaf7688e89b3314d3532fd2764c39de022a2945"
    "b5710d13517af8ddc0316624e73bec1ce67df15228302036f330ab0cb4d218dd",
    "4cf9bb8fb3d4de8b38b2f262d3c40f46dfe747e8fc0a414c193d9fcf753106ce"
    "47a18f172f12e8a2f1c26726545358e5ee28c9e2213a8787aafbc516d2343152",
    "64e0c63af9c808fd893137129867fd91939d53f2af04be4fa268006100069b2d"
    "69daa5c5d8ed7fddcb2a70eeecdf2b105dd46a1e3b7311728f639ab489326bc9",
    "5e9c93158d659b2def06b0c3c7565045542662d6eee8a96a89b78ade09fe8b3d"
    "cc096d4fe48815d88d8f82620156602af541955e1f6ca30dce14e254c326b88f",
    "7775dff889458dd11aef417276853e21335eb88e4dec9cfb4e9edb4982008855"
    "1a2ca60339f12066101169f0dfe84b098fddb148d9da6b3d613df263889ad64b",
    "f0d2805afbb91f743951351a6d024f9353a23c7ce1fc2b051b3a8b968c233f46"
    "f50f806ecb1568ffaa0b60661e334b21dde04f8fa155ac740eeb42e20b60d764",
    "86a2af316e7d7754201b942e275364ac12ea8962ab5bd8d7fb276dc5fbffc8f9"
    "a28cae4e4867df6780d9b72524160927c855da5b6078e0b554aa91e31cb9ca1d",
    "10bdf0caa0802705e706369baf8a3f79d72c0a03a80675a7bbb00be3a45e5164"
    "24d1ee88efb56f6d5777545ae6e27765c3a8f5e493fc308915638933a1dfee55",
    "b01781092b1748459e2e4ec178696627bf4ebafebba774ecf018b79a68aeb849"
    "17bf0b84bb79d17b743151144cd66b7b33a4b9e52c76c4e112050ff5385b7f0b",
    "c6dbc61dec6eaeac81e3d5f755203c8e220551534a0b2fd105a91889945a6385"
    "50204f44093dd998c076205dffad703a0e5cd3c7f438a7e634cd59fededb539e",
    "eba51acffb4cea31db4b8d87e9bf7dd48fe97b0253ae67aa580f9ac4a9d941f2"
    "bea518ee286818cc9f633f2a3b9fb68e594b48cdd6d515bf1d52ba6c85a203a7",
    "86221f3ada52037b72224f105d7999231c5e5534d03da9d9c0a12acb68460cd3"
    "75daf8e24386286f9668f72326dbf99ba094392437d398e95bb8161d717f8991",
    "5595e05c13a7ec4dc8f41fb70cb50a71bce17c024ff6de7af618d0cc4e9c32d9"
    "570d6d3ea45b86525491030c0d8f2b1836d5778c1ce735c17707df364d054347",
    "ce0f4f6aca89590a37fe034dd74dd5fa65eb1cbd0a41508aaddc09351a3cea6d"
    "18cb2189c54b700c009f4cbf0521c7ea01be61c5ae09cb54f27bc1b44d658c82",
    "7ee80b06a215a3bca970c77cda8761822bc103d44fa4b33f4d07dcb997e36d55"
    "298bceae12241b3fa07fa63be5576068da387b8d5859aeab701369848b176d42",
    "940a84b6a84d109aab208c024c6ce9647676ba0aaa11f86dbb7018f9fd2220a6"
    "d901a9027f9abcf935372727cbf09ebd61a2a2eeb87653e8ecad1bab85dc8327",
    "2020b78264a82d9f4151141adba8d44bf20c5ec062eee9b595a11f9e84901bf1"
    "48f298e0c9f8777dcdbc7cc4670aac356cc2ad8ccb1629f16f6a76bcefbee760",
    "d1b897b0e075ba68ab572adf9d9c436663e43eb3d8e62d92fc49c9be214e6f27"
    "873fe215a65170e6bea902408a25b49506f47babd07cecf7113ec10c5dd31252",
    "b14d0c62abfa469a357177e594c10c194243ed2025ab8aa5ad2fa41ad318e0ff"
    "48cd5e60bec07b13634a711d2326e488a985f31e31153399e73088efc86a5c55",
    "4169c5cc808d2697dc2a82430dc23e3cd356dc70a94566810502b8d655b39abf"
    "9e7f902fe717e0389219859e1945df1af6ada42e4ccda55a197b7100a30c30a1",
    "258a4edb113d66c839c8b1c91f15f35ade609f11cd7f8681a4045b9fef7b0b24"
    "c82cda06a5f2067b368825e3914e53d6948ede92efd6e8387fa2e537239b5bee",
    "79d2d8696d30f30fb34657761171a11e6c3f1e64cbe7bebee159cb95bfaf812b"
    "4f411e2f26d9c421dc2c284a3342d823ec293849e42d1e46b0a4ac1e3c86abaa",
    "8b9436010dc5dee992ae38aea97f2cd63b946d94fedd2ec9671dcde3bd4ce956"
    "4d555c66c15bb2b900df72edb6b891ebcadfeff63c9ea4036a998be7973981e7",
    "c8f68e696ed28242bf997f5b3b34959508e42d613810f1e2a435c96ed2ff560c"
    "7022f361a9234b9837feee90bf47922ee0fd5f8ddf823718d86d1e16c6090071",
    "b02d3eee4860d5868b2c39ce39bfe81011290564dd678c85e8783f29302dfc13"
    "99ba95b6b53cd9ebbf400cca1db0ab67e19a325f2d115812d25d00978ad1bca4",
    "7693ea73af3ac4dad21ca0d8da85b3118a7d1c6024cfaf557699868217bc0c2f"
    "44a199bc6c0edd519798ba05bd5b1b4484346a47c2cadf6bf30b785cc88b2baf",
    "a0e5c1c0031c02e48b7f09a5e896ee9aef2f17fc9e18e997d7f6cac7ae316422"
    "c2b1e77984e5f3a73cb45deed5d3f84600105e6ee38f2d090c7d0442ea34c46d",
    "41daa6adcfdb69f1440c37b596440165c15ada596813e2e22f060fcd551f24de"
    "e8e04ba6890387886ceec4a7a0d7fc6b44506392ec3822c0d8c1acfc7d5aebe8",
    "14d4d40d5984d84c5cf7523b7798b254e275a3a8cc0a1bd06ebc0bee726856ac"
    "c3cbf516ff667cda2058ad5c3412254460a82c92187041363cc77a4dc215e487",
    "d0e7a1e2b9a447fee83e2277e9ff8010c2f375ae12fa7aaa8ca5a6317868a26a"
    "367a0b69fbc1cf32a55d34eb370663016f3d2110230eba754028a56f54acf57c",
    "e771aa8db5a3e043e8178f39a0857ba04a3f18e4aa05743cf8d222b0b0958253"
    "50ba422f63382a23d92e4149074e816a36c1cd28284d146267940b31f8818ea2",
    "feb4fd6f9e87a56bef398b3284d2bda5b5b0e166583a66b61e538457ff058487"
    "2c21a32962b9928ffab58de4af2edd4e15d8b35570523207ff4e2a5aa7754caa",
    "462f17bf005fb1c1b9e671779f665209ec2873e3e411f98dabf240a1d5ec3f95"
    "ce6796b6fc23fe171903b502023467dec7273ff74879b92967a2a43a5a183d33",
    "d3338193b64553dbd38d144bea71c5915bb110e2d88180dbc5db364fd6171df3"
    "17fc7268831b5aef75e4342b2fad8797ba39eddcef80e6ec08159350b1ad696d",
    "e1590d585a3d39f7cb599abd479070966409a6846d4377acf4471d065d5db941"
    "29cc9be92573b05ed226be1e9b7cb0cabe87918589f80dadd4ef5ef25a93d28e",
    "f8f3726ac5a26cc80132493a6fedcb0e60760c09cfc84cad178175986819665e"
    "76842d7b9fedf76dddebf5d3f56faaad4477587af21606d396ae570d8e719af2",
    "30186055c07949948183c850e9a756cc09937e247d9d928e869e20bafc3cd972"
    "1719d34e04a0899b92c736084550186886efba2e790d8be6ebf040b209c439a4",
    "f3c4276cb863637712c241c444c5cc1e3554e0fddb174d035819dd83eb700b4c"
    "e88df3ab3841ba02085e1a99b4e17310c5341075c0458ba376c95a6818fbb3e2",
    "0aa007c4dd9d5832393040a1583c930bca7dc5e77ea53add7e2b3f7c8e231368"
    "043520d4a3ef53c969b6bbfd025946f632bd7f765d53c21003b8f983f75e2a6a",
    "08e9464720533b23a04ec24f7ae8c103145f765387d738777d3d343477fd1c58"
    "db052142cab754ea674378e18766c53542f71970171cc4f81694246b717d7564",
    "d37ff7ad297993e7ec21e0f1b4b5ae719cdc83c5db687527f27516cbffa82288"
    "8a6810ee5c1ca7bfe3321119be1ab7bfa0a502671c8329494df7ad6f522d440f",
    "dd9042f6e464dcf86b1262f6accfafbd8cfd902ed3ed89abf78ffa482dbdeeb6"
    "969842394c9a1168ae3d481a017842f660002d42447c6b22f7b72f21aae021c9",
    "bd965bf31e87d70327536f2a341cebc4768eca275fa05ef98f7f1b71a0351298"
    "de006fba73fe6733ed01d75801b4a928e54231b38e38c562b2e33ea1284992fa",
    "65676d800617972fbd87e4b9514e1c67402b7a331096d3bfac22f1abb95374ab"
    "c942f16e9ab0ead33b87c91968a6e509e119ff07787b3ef483e1dcdccf6e3022",
    "939fa189699c5d2c81ddd1ffc1fa207c970b6a3685bb29ce1d3e99d42f2f7442"
    "da53e95a72907314f4588399a3ff5b0a92beb3f6be2694f9f86ecf2952d5b41c",
    "c516541701863f91005f314108ceece3c643e04fc8c42fd2ff556220e616aaa6"
    "a48aeb97a84bad74782e8dff96a1a2fa949339d722edcaa32b57067041df88cc",
    "987fd6e0d6857c553eaebb3d34970a2c2f6e89a3548f492521722b80a1c21a15"
    "3892346d2cba6444212d56da9a26e324dccbc0dcde85d4d2ee4399eec5a64e8f",
    "ae56deb1c2328d9c4017706bce6e99d41349053ba9d336d677c4c27d9fd50ae6"
    "aee17e853154e1f4fe7672346da2eaa31eea53fcf24a22804f11d03da6abfc2b",
    "49d6a608c9bde4491870498572ac31aac3fa40938b38a7818f72383eb040ad39"
    "532bc06571e13d767e6945ab77c0bdc3b0284253343f9f6c1244ebf2ff0df866",
    "da582ad8c5370b4469af862aa6467a2293b2b28bd80ae0e91f425ad3d47249fd"
    "f98825cc86f14028c3308c9804c78bfeeeee461444ce243687e1a50522456a1d",
    "d5266aa3331194aef852eed86d7b5b2633a0af1c735906f2e13279f14931a9fc"
    "3b0eac5ce9245273bd1aa92905abe16278ef7efd47694789a7283b77da3c70f8",
    "2962734c28252186a9a1111c732ad4de4506d4b4480916303eb7991d659ccda0"
    "7a9911914bc75c418ab7a4541757ad054796e26797feaf36e9f6ad43f14b35a4",
    "e8b79ec5d06e111bdfafd71e9f5760f00ac8ac5d8bf768f9ff6f08b8f026096b"
    "1cc3a4c973333019f1e3553e77da3f98cb9f542e0a90e5f8a940cc58e59844b3",
    "dfb320c44f9d41d1efdcc015f08dd5539e526e39c87d509ae6812a969e5431bf"
    "4fa7d91ffd03b981e0d544cf72d7b1c0374f8801482e6dea2ef903877eba675e",
    "d88675118fdb55a5fb365ac2af1d217bf526ce1ee9c94b2f0090b2c58a06ca58"
    "187d7fe57c7bed9d26fca067b4110eefcd9a0a345de872abe20de368001b0745",
    "b893f2fc41f7b0dd6e2f6aa2e0370c0cff7df09e3acfcc0e920b6e6fad0ef747"
    "c40668417d342b80d2351e8c175f20897a062e9765e6c67b539b6ba8b9170545",
    "6c67ec5697accd235c59b486d7b70baeedcbd4aa64ebd4eef3c7eac189561a72"
    "6250aec4d48cadcafbbe2ce3c16ce2d691a8cce06e8879556d4483ed7165c063",
    "f1aa2b044f8f0c638a3f362e677b5d891d6fd2ab0765f6ee1e4987de057ead35"
    "7883d9b405b9d609eea1b869d97fb16d9b51017c553f3b93c0a1e0f1296fedcd",
    "cbaa259572d4aebfc1917acddc582b9f8dfaa928a198ca7acd0f2aa76a134a90"
    "252e6298a65b08186a350d5b7626699f8cb721a3ea5921b753ae3a2dce24ba3a",
    "fa1549c9796cd4d303dcf452c1fbd5744fd9b9b47003d920b92de34839d07ef2"
    "a29ded68f6fc9e6c45e071a2e48bd50c5084e96b657dd0404045a1ddefe282ed",
    "5cf2ac897ab444dcb5c8d87c495dbdb34e1838b6b629427caa51702ad0f96885"
    "25f13bec503a3c3a2c80a65e0b5715e8afab00ffa56ec455a49a1ad30aa24fcd",
    "9aaf80207bace17bb7ab145757d5696bde32406ef22b44292ef65d4519c3bb2a"
    "d41a59b62cc3e94b6fa96d32a7faadae28af7d35097219aa3fd8cda31e40c275",
    "af88b163402c86745cb650c2988fb95211b94b03ef290eed9662034241fd51cf"
    "398f8073e369354c43eae1052f9b63b08191caa138aa54fea889cc7024236897",
    "48fa7d64e1ceee27b9864db5ada4b53d00c9bc7626555813d3cd6730ab3cc06f"
    "f342d727905e33171bde6e8476e77fb1720861e94b73a2c538d254746285f430",
    "0e6fd97a85e904f87bfe85bbeb34f69e1f18105cf4ed4f87aec36c6e8b5f68bd"
    "2a6f3dc8a9ecb2b61db4eedb6b2ea10bf9cb0251fb0f8b344abf7f366b6de5ab",
    "06622da5787176287fdc8fed440bad187d830099c94e6d04c8e9c954cda70c8b"
    "b9e1fc4a6d0baa831b9b78ef6648681a4867a11da93ee36e5e6a37d87fc63f6f",
    "1da6772b58fabf9c61f68d412c82f182c0236d7d575ef0b58dd22458d643cd1d"
    "fc93b03871c316d8430d312995d4197f0874c99172ba004a01ee295abac24e46",
    "3cd2d9320b7b1d5fb9aab951a76023fa667be14a9124e394513918a3f44096ae"
    "4904ba0ffc150b63bc7ab1eeb9a6e257e5c8f000a70394a5afd842715de15f29",
    "04cdc14f7434e0b4be70cb41db4c779a88eaef6accebcb41f2d42fffe7f32a8e"
    "281b5c103a27021d0d08362250753cdf70292195a53a48728ceb5844c2d98bab",
    "9071b7a8a075d0095b8fb3ae5113785735ab98e2b52faf91d5b89e44aac5b5d4"
    "ebbf91223b0ff4c71905da55342e64655d6ef8c89a4768c3f93a6dc0366b5bc8",
    "ebb30240dd96c7bc8d0abe49aa4edcbb4afdc51ff9aaf720d3f9e7fbb0f9c6d6"
    "571350501769fc4ebd0b2141247ff400d4fd4be414edf37757bb90a32ac5c65a",
    "8532c58bf3c8015d9d1cbe00eef1f5082f8f3632fbe9f1ed4f9dfb1fa79e8283"
    "066d77c44c4af943d76b300364aecbd0648c8a8939bd204123f4b56260422dec",
    "fe9846d64f7c7708696f840e2d76cb4408b6595c2f81ec6a28a7f2f20cb88cfe"
    "6ac0b9e9b8244f08bd7095c350c1d0842f64fb01bb7f532dfcd47371b0aeeb79",
    "28f17ea6fb6c42092dc264257e29746321fb5bdaea9873c2a7fa9d8f53818e89"
    "9e161bc77dfe8090afd82bf2266c5c1bc930a8d1547624439e662ef695f26f24",
    "ec6b7d7f030d4850acae3cb615c21dd25206d63e84d1db8d957370737ba0e984"
    "67ea0ce274c66199901eaec18a08525715f53bfdb0aacb613d342ebdceeddc3b",
    "b403d3691c03b0d3418df327d5860d34bbfcc4519bfbce36bf33b208385fadb9"
    "186bc78a76c489d89fd57e7dc75412d23bcd1dae8470ce9274754bb8585b13c5",
    "31fc79738b8772b3f55cd8178813b3b52d0db5a419d30ba9495c4b9da0219fac"
    "6df8e7c23a811551a62b827f256ecdb8124ac8a6792ccfecc3b3012722e94463",
    "bb2039ec287091bcc9642fc90049e73732e02e577e2862b32216ae9bedcd730c"
    "4c284ef3968c368b7d37584f97bd4b4dc6ef6127acfe2e6ae2509124e66c8af4",
    "f53d68d13f45edfcb9bd415e2831e938350d5380d3432278fc1c0c381fcb7c65"
    "c82dafe051d8c8b0d44e0974a0e59ec7bf7ed0459f86e96f329fc79752510fd3",
    "8d568c7984f0ecdf7640fbc483b5d8c9f86634f6f43291841b309a350ab9c113"
    "7d24066b09da9944bac54d5bb6580d836047aac74ab724b887ebf93d4b32eca9",
    "c0b65ce5a96ff774c456cac3b5f2c4cd359b4ff53ef93a3da0778be4900d1e8d"
    "a1601e769e8f1b02d2a2f8c5b9fa10b44f1c186985468feeb008730283a6657d",
    "4900bba6f5fb103ece8ec96ada13a5c3c85488e05551da6b6b33d988e611ec0f"
    "e2e3c2aa48ea6ae8986a3a231b223c5d27cec2eadde91ce07981ee652862d1e4",
    "c7f5c37c7285f927f76443414d4357ff789647d7a005a5a787e03c346b57f49f"
    "21b64fa9cf4b7e45573e23049017567121a9c3d4b2b73ec5e9413577525db45a",
    "ec7096330736fdb2d64b5653e7475da746c23a4613a82687a28062d323636428"
    "4ac01720ffb406cfe265c0df626a188c9e5963ace5d3d5bb363e32c38c2190a6",
    "82e744c75f4649ec52b80771a77d475a3bc091989556960e276a5f9ead92a03f"
    "718742cdcfeaee5cb85c44af198adc43a4a428f5f0c2ddb0be36059f06d7df73",
    "2834b7a7170f1f5b68559ab78c1050ec21c919740b784a9072f6e5d69f828d70"
    "c919c5039fb148e39e2c8a52118378b064ca8d5001cd10a5478387b966715ed6",
    "16b4ada883f72f853bb7ef253efcab0c3e2161687ad61543a0d2824f91c1f813"
    "47d86be709b16996e17f2dd486927b0288ad38d13063c4a9672c39397d3789b6",
    "78d048f3a69d8b54ae0ed63a573ae350d89f7c6cf1f3688930de899afa037697"
    "629b314e5cd303aa62feea72a25bf42b304b6c6bcb27fae21c16d925e1fbdac3",
    "0f746a48749287ada77a82961f05a4da4abdb7d77b1220f836d09ec814359c0e"
    "c0239b8c7b9ff9e02f569d1b301ef67c4612d1de4f730f81c12c40cc063c5caa",
    "f0fc859d3bd195fbdc2d591e4cdac15179ec0f1dc821c11df1f0c1d26e6260aa"
    "a65b79fafacafd7d3ad61e600f250905f5878c87452897647a35b995bcadc3a3",
    "2620f687e8625f6a412460b42e2cef67634208ce10a0cbd4dff7044a41b78800"
    "77e9f8dc3b8d1216d3376a21e015b58fb279b521d83f9388c7382c8505590b9b",
    "227e3aed8d2cb10b918fcb04f9de3e6d0a57e08476d93759cd7b2ed54a1cbf02"
    "39c528fb04bbf288253e601d3bc38b21794afef90b17094a182cac557745e75f",
    "1a929901b09c25f27d6b35be7b2f1c4745131fdebca7f3e2451926720434e0db"
    "6e74fd693ad29b777dc3355c592a361c4873b01133a57c2e3b7075cbdb86f4fc",
    "5fd7968bc2fe34f220b5e3dc5af9571742d73b7d60819f2888b629072b96a9d8"
    "ab2d91b82d0a9aaba61bbd39958132fcc4257023d1eca591b3054e2dc81c8200",
    "dfcce8cf32870cc6a503eadafc87fd6f78918b9b4d0737db6810be996b5497e7"
    "e5cc80e312f61e71ff3e9624436073156403f735f56b0b01845c18f6caf772e6",
    "02f7ef3a9ce0fff960f67032b296efca3061f4934d690749f2d01c35c81c14f3"
    "9a67fa350bc8a0359bf1724bffc3bca6d7c7bba4791fd522a3ad353c02ec5aa8",
    "64be5c6aba65d594844ae78bb022e5bebe127fd6b6ffa5a13703855ab63b624d"
    "cd1a363f99203f632ec386f3ea767fc992e8ed9686586aa27555a8599d5b808f",
    "f78585505c4eaa54a8b5be70a61e735e0ff97af944ddb3001e35d86c4e2199d9"
    "76104b6ae31750a36a726ed285064f5981b503889fef822fcdc2898dddb7889a",
    "e4b5566033869572edfd87479a5bb73c80e8759b91232879d96b1dda36c01207"
    "6ee5a2ed7ae2de63ef8406a06aea82c188031b560beafb583fb3de9e57952a7e",
    "e1b3e7ed867f6c9484a2a97f7715f25e25294e992e41f6a7c161ffc2adc6daae"
    "b7113102d5e6090287fe6ad94ce5d6b739c6ca240b05c76fb73f25dd024bf935",
    "85fd085fdc12a080983df07bd7012b0d402a0f4043fcb2775adf0bad174f9b08"
    "d1676e476985785c0a5dcc41dbff6d95ef4d66a3fbdc4a74b82ba52da0512b74",
    "aed8fa764b0fbff821e05233d2f7b0900ec44d826f95e93c343c1bc3ba5a2437"
    "4b1d616e7e7aba453a0ada5e4fab5382409e0d42ce9c2bc7fb39a99c340c20f0",
    "7ba3b2e297233522eeb343bd3ebcfd835a04007735e87f0ca300cbee6d416565"
    "162171581e4020ff4cf176450f1291ea2285cb9ebffe4c56660627685145051c",
    "de748bcf89ec88084721e16b85f30adb1a6134d664b5843569babc5bbd1a15ca"
    "9b61803c901a4fef32965a1749c9f3a4e243e173939dc5a8dc495c671ab52145",
    "aaf4d2bdf200a919706d9842dce16c98140d34bc433df320aba9bd429e549aa7"
    "a3397652a4d768277786cf993cde2338673ed2e6b66c961fefb82cd20c93338f",
    "c408218968b788bf864f0997e6bc4c3dba68b276e2125a4843296052ff93bf57"
    "67b8cdce7131f0876430c1165fec6c4f47adaa4fd8bcfacef463b5d3d0fa61a0",
    "76d2d819c92bce55fa8e092ab1bf9b9eab237a25267986cacf2b8ee14d214d73"
    "0dc9a5aa2d7b596e86a1fd8fa0804c77402d2fcd45083688b218b1cdfa0dcbcb",
    "72065ee4dd91c2d8509fa1fc28a37c7fc9fa7d5b3f8ad3d0d7a25626b57b1b44"
    "788d4caf806290425f9890a3a2a35a905ab4b37acfd0da6e4517b2525c9651e4",
    "64475dfe7600d7171bea0b394e27c9b00d8e74dd1e416a79473682ad3dfdbb70"
    "6631558055cfc8a40e07bd015a4540dcdea15883cbbf31412df1de1cd4152b91",
    "12cd1674a4488a5d7c2b3160d2e2c4b58371bedad793418d6f19c6ee385d70b3"
    "e06739369d4df910edb0b0a54cbff43d54544cd37ab3a06cfa0a3ddac8b66c89",
    "60756966479dedc6dd4bcff8ea7d1d4ce4d4af2e7b097e32e3763518441147cc"
    "12b3c0ee6d2ecabf1198cec92e86a3616fba4f4e872f5825330adbb4c1dee444",
    "a7803bcb71bc1d0f4383dde1e0612e04f872b715ad30815c2249cf34abb8b024"
    "915cb2fc9f4e7cc4c8cfd45be2d5a91eab0941c7d270e2da4ca4a9f7ac68663a",
    "b84ef6a7229a34a750d9a98ee2529871816b87fbe3bc45b45fa5ae82d5141540"
    "211165c3c5d7a7476ba5a4aa06d66476f0d9dc49a3f1ee72c3acabd498967414",
    "fae4b6d8efc3f8c8e64d001dabec3a21f544e82714745251b2b4b393f2f43e0d"
    "a3d403c64db95a2cb6e23ebb7b9e94cdd5ddac54f07c4a61bd3cb10aa6f93b49",
    "34f7286605a122369540141ded79b8957255da2d4155abbf5a8dbb89c8eb7ede"
    "8eeef1daa46dc29d751d045dc3b1d658bb64b80ff8589eddb3824b13da235a6b",
    "3b3b48434be27b9eababba43bf6b35f14b30f6a88dc2e750c358470d6b3aa3c1"
    "8e47db4017fa55106d8252f016371a00f5f8b070b74ba5f23cffc5511c9f09f0",
    "ba289ebd6562c48c3e10a8ad6ce02e73433d1e93d7c9279d4d60a7e879ee11f4"
    "41a000f48ed9f7c4ed87a45136d7dccdca482109c78a51062b3ba4044ada2469",
    "022939e2386c5a37049856c850a2bb10a13dfea4212b4c732a8840a9ffa5faf5"
    "4875c5448816b2785a007da8a8d2bc7d71a54e4e6571f10b600cbdb25d13ede3",
    "e6fec19d89ce8717b1a087024670fe026f6c7cbda11caef959bb2d351bf856f8"
    "055d1c0ebdaaa9d1b17886fc2c562b5e99642fc064710c0d3488a02b5ed7f6fd",
    "94c96f02a8f576aca32ba61c2b206f907285d9299b83ac175c209a8d43d53bfe"
    "683dd1d83e7549cb906c28f59ab7c46f8751366a28c39dd5fe2693c9019666c8",
    "31a0cd215ebd2cb61de5b9edc91e6195e31c59a5648d5c9f737e125b2605708f"
    "2e325ab3381c8dce1a3e958886f1ecdc60318f882cfe20a24191352e617b0f21",
    "91ab504a522dce78779f4c6c6ba2e6b6db5565c76d3e7e7c920caf7f757ef9db"
    "7c8fcf10e57f03379ea9bf75eb59895d96e149800b6aae01db778bb90afbc989",
    "d85cabc6bd5b1a01a5afd8c6734740da9fd1c1acc6db29bfc8a2e5b668b028b6"
    "b3154bfb8703fa3180251d589ad38040ceb707c4bad1b5343cb426b61eaa49c1",
    "d62efbec2ca9c1f8bd66ce8b3f6a898cb3f7566ba6568c618ad1feb2b65b76c3"
    "ce1dd20f7395372faf28427f61c9278049cf0140df434f5633048c86b81e0399",
    "7c8fdc6175439e2c3db15bafa7fb06143a6a23bc90f449e79deef73c3d492a67"
    "1715c193b6fea9f036050b946069856b897e08c00768f5ee5ddcf70b7cd6d0e0",
    "58602ee7468e6bc9df21bd51b23c005f72d6cb013f0a1b48cbec5eca299299f9"
    "7f09f54a9a01483eaeb315a6478bad37ba47ca1347c7c8fc9e6695592c91d723",
    "27f5b79ed256b050993d793496edf4807c1d85a7b0a67c9c4fa99860750b0ae6"
    "6989670a8ffd7856d7ce411599e58c4d77b232a62bef64d15275be46a68235ff",
    "3957a976b9f1887bf004a8dca942c92d2b37ea52600f25e0c9bc5707d0279c00"
    "c6e85a839b0d2d8eb59c51d94788ebe62474a791cadf52cccf20f5070b6573fc",
    "eaa2376d55380bf772ecca9cb0aa4668c95c707162fa86d518c8ce0ca9bf7362"
    "b9f2a0adc3ff59922df921b94567e81e452f6c1a07fc817cebe99604b3505d38",
    "c1e2c78b6b2734e2480ec550434cb5d613111adcc21d475545c3b1b7e6ff1244"
    "4476e5c055132e2229dc0f807044bb919b1a5662dd38a9ee65e243a3911aed1a",
    "8ab48713389dd0fcf9f965d3ce66b1e559a1f8c58741d67683cd971354f452e6"
    "2d0207a65e436c5d5d8f8ee71c6abfe50e669004c302b31a7ea8311d4a916051",
    "24ce0addaa4c65038bd1b1c0f1452a0b128777aabc94a29df2fd6c7e2f85f8ab"
    "9ac7eff516b0e0a825c84a24cfe492eaad0a6308e46dd42fe8333ab971bb30ca",
    "5154f929ee03045b6b0c0004fa778edee1d139893267cc84825ad7b36c63de32"
    "798e4a166d24686561354f63b00709a1364b3c241de3febf0754045897467cd4",
    "e74e907920fd87bd5ad636dd11085e50ee70459c443e1ce5809af2bc2eba39f9"
    "e6d7128e0e3712c316da06f4705d78a4838e28121d4344a2c79c5e0db307a677",
    "bf91a22334bac20f3fd80663b3cd06c4e8802f30e6b59f90d3035cc9798a217e"
    "d5a31abbda7fa6842827bdf2a7a1c21f6fcfccbb54c6c52926f32da816269be1",
    "d9d5c74be5121b0bd742f26bffb8c89f89171f3f934913492b0903c271bbe2b3"
    "395ef259669bef43b57f7fcc3027db01823f6baee66e4f9fead4d6726c741fce",
    "50c8b8cf34cd879f80e2faab3230b0c0e1cc3e9dcadeb1b9d97ab923415dd9a1"
    "fe38addd5c11756c67990b256e95ad6d8f9fedce10bf1c90679cde0ecf1be347",
    "0a386e7cd5dd9b77a035e09fe6fee2c8ce61b5383c87ea43205059c5e4cd4f44"
    "08319bb0a82360f6a58e6c9ce3f487c446063bf813bc6ba535e17fc1826cfc91",
    "1f1459cb6b61cbac5f0efe8fc487538f42548987fcd56221cfa7beb22504769e"
    "792c45adfb1d6b3d60d7b749c8a75b0bdf14e8ea721b95dca538ca6e25711209",
    "e58b3836b7d8fedbb50ca5725c6571e74c0785e97821dab8b6298c10e4c079d4"
    "a6cdf22f0fedb55032925c16748115f01a105e77e00cee3d07924dc0d8f90659",
    "b929cc6505f020158672deda56d0db081a2ee34c00c1100029bdf8ea98034fa4"
    "bf3e8655ec697fe36f40553c5bb46801644a627d3342f4fc92b61f03290fb381",
    "72d353994b49d3e03153929a1e4d4f188ee58ab9e72ee8e512f29bc773913819"
    "ce057ddd7002c0433ee0a16114e3d156dd2c4a7e80ee53378b8670f23e33ef56",
    "c70ef9bfd775d408176737a0736d68517ce1aaad7e81a93c8c1ed967ea214f56"
    "c8a377b1763e676615b60f3988241eae6eab9685a5124929d28188f29eab06f7",
    "c230f0802679cb33822ef8b3b21bf7a9a28942092901d7dac3760300831026cf"
    "354c9232df3e084d9903130c601f63c1f4a4a4b8106e468cd443bbe5a734f45f",
    "6f43094cafb5ebf1f7a4937ec50f56a4c9da303cbb55ac1f27f1f1976cd96bed"
    "a9464f0e7b9c54620b8a9fba983164b8be3578425a024f5fe199c36356b88972",
    "3745273f4c38225db2337381871a0c6aafd3af9b018c88aa02025850a5dc3a42"
    "a1a3e03e56cbf1b0876d63a441f1d2856a39b8801eb5af325201c415d65e97fe",
    "c50c44cca3ec3edaae779a7e179450ebdda2f97067c690aa6c5a4ac7c30139bb"
    "27c0df4db3220e63cb110d64f37ffe078db72653e2daacf93ae3f0a2d1a7eb2e",
    "8aef263e385cbc61e19b28914243262af5afe8726af3ce39a79c27028cf3ecd3"
    "f8d2dfd9cfc9ad91b58f6f20778fd5f02894a3d91c7d57d1e4b866a7f364b6be",
    "28696141de6e2d9bcb3235578a66166c1448d3e905a1b482d423be4bc5369bc8"
    "c74dae0acc9cc123e1d8ddce9f97917e8c019c552da32d39d2219b9abf0fa8c8",
    "2fb9eb2085830181903a9dafe3db428ee15be7662224efd643371fb25646aee7"
    "16e531eca69b2bdc8233f1a8081fa43da1500302975a77f42fa592136710e9dc",
    "66f9a7143f7a3314a669bf2e24bbb35014261d639f495b6c9c1f104fe8e320ac"
    "a60d4550d69d52edbd5a3cdeb4014ae65b1d87aa770b69ae5c15f4330b0b0ad8",
    "f4c4dd1d594c3565e3e25ca43dad82f62abea4835ed4cd811bcd975e46279828"
    "d44d4c62c3679f1b7f7b9dd4571d7b49557347b8c5460cbdc1bef690fb2a08c0",
    "8f1dc9649c3a84551f8f6e91cac68242a43b1f8f328ee92280257387fa7559aa"
    "6db12e4aeadc2d26099178749c6864b357f3f83b2fb3efa8d2a8db056bed6bcc",
    "3139c1a7f97afd1675d460ebbc07f2728aa150df849624511ee04b743ba0a833"
    "092f18c12dc91b4dd243f333402f59fe28abdbbbae301e7b659c7a26d5c0f979",
    "06f94a2996158a819fe34c40de3cf0379fd9fb85b3e363ba3926a0e7d960e3f4"
    "c2e0c70c7ce0ccb2a64fc29869f6e7ab12bd4d3f14fce943279027e785fb5c29",
    "c29c399ef3eee8961e87565c1ce263925fc3d0ce267d13e48dd9e732ee67b0f6"
    "9fad56401b0f10fcaac119201046cca28c5b14abdea3212ae65562f7f138db3d",
    "4cec4c9df52eef05c3f6faaa9791bc7445937183224ecc37a1e58d0132d35617"
    "531d7e795f52af7b1eb9d147de1292d345fe341823f8e6bc1e5badca5c656108",
    "898bfbae93b3e18d00697eab7d9704fa36ec339d076131cefdf30edbe8d9cc81"
    "c3a80b129659b163a323bab9793d4feed92d54dae966c77529764a09be88db45",
    "ee9bd0469d3aaf4f14035be48a2c3b84d9b4b1fff1d945e1f1c1d38980a951be"
    "197b25fe22c731f20aeacc930ba9c4a1f4762227617ad350fdabb4e80273a0f4",
    "3d4d3113300581cd96acbf091c3d0f3c310138cd6979e6026cde623e2dd1b24d"
    "4a8638bed1073344783ad0649cc6305ccec04beb49f31c633088a99b65130267",
    "95c0591ad91f921ac7be6d9ce37e0663ed8011c1cfd6d0162a5572e94368bac0"
    "2024485e6a39854aa46fe38e97d6c6b1947cd272d86b06bb5b2f78b9b68d559d",
    "227b79ded368153bf46c0a3ca978bfdbef31f3024a5665842468490b0ff748ae"
    "04e7832ed4c9f49de9b1706709d623e5c8c15e3caecae8d5e433430ff72f20eb",
    "5d34f3952f0105eef88ae8b64c6ce95ebfade0e02c69b08762a8712d2e4911ad"
    "3f941fc4034dc9b2e479fdbcd279b902faf5d838bb2e0c6495d372b5b7029813",
    "7f939bf8353abce49e77f14f3750af20b7b03902e1a1e7fb6aaf76d0259cd401"
    "a83190f15640e74f3e6c5a90e839c7821f6474757f75c7bf9002084ddc7a62dc",
    "062b61a2f9a33a71d7d0a06119644c70b0716a504de7e5e1be49bd7b86e7ed68"
    "17714f9f0fc313d06129597e9a2235ec8521de36f7290a90ccfc1ffa6d0aee29",
    "f29e01eeae64311eb7f1c6422f946bf7bea36379523e7b2bbaba7d1d34a22d5e"
    "a5f1c5a09d5ce1fe682cced9a4798d1a05b46cd72dff5c1b355440b2a2d476bc",
    "ec38cd3bbab3ef35d7cb6d5c914298351d8a9dc97fcee051a8a02f58e3ed6184"
    "d0b7810a5615411ab1b95209c3c810114fdeb22452084e77f3f847c6dbaafe16",
    "c2aef5e0ca43e82641565b8cb943aa8ba53550caef793b6532fafad94b816082"
    "f0113a3ea2f63608ab40437ecc0f0229cb8fa224dcf1c478a67d9b64162b92d1",
    "15f534efff7105cd1c254d074e27d5898b89313b7d366dc2d7d87113fa7d53aa"
    "e13f6dba487ad8103d5e854c91fdb6e1e74b2ef6d1431769c30767dde067a35c",
    "89acbca0b169897a0a2714c2df8c95b5b79cb69390142b7d6018bb3e3076b099"
    "b79a964152a9d912b1b86412b7e372e9cecad7f25d4cbab8a317be36492a67d7",
    "e3c0739190ed849c9c962fd9dbb55e207e624fcac1eb417691515499eea8d826"
    "7b7e8f1287a63633af5011fde8c4ddf55bfdf722edf88831414f2cfaed59cb9a",
    "8d6cf87c08380d2d1506eee46fd4222d21d8c04e585fbfd08269c98f702833a1"
    "56326a0724656400ee09351d57b440175e2a5de93cc5f80db6daf83576cf75fa",
    "da24bede383666d563eeed37f6319baf20d5c75d1635a6ba5ef4cfa1ac95487e"
    "96f8c08af600aab87c986ebad49fc70a58b4890b9c876e091016daf49e1d322e",
    "f9d1d1b1e87ea7ae753a029750cc1cf3d0157d41805e245c5617bb934e732f0a"
    "e3180b78e05bfe76c7c3051e3e3ac78b9b50c05142657e1e03215d6ec7bfd0fc",
    "11b7bc1668032048aa43343de476395e814bbbc223678db951a1b03a021efac9"
    "48cfbe215f97fe9a72a2f6bc039e3956bfa417c1a9f10d6d7ba5d3d32ff323e5",
    "b8d9000e4fc2b066edb91afee8e7eb0f24e3a201db8b6793c0608581e628ed0b"
    "cc4e5aa6787992a4bcc44e288093e63ee83abd0bc3ec6d0934a674a4da13838a",
    "ce325e294f9b6719d6b61278276ae06a2564c03bb0b783fafe785bdf89c7d5ac"
    "d83e78756d301b445699024eaeb77b54d477336ec2a4f332f2b3f88765ddb0c3",
    "29acc30e9603ae2fccf90bf97e6cc463ebe28c1b2f9b4b765e70537c25c702a2"
    "9dcbfbf14c99c54345ba2b51f17b77b5f15db92bbad8fa95c471f5d070a137cc",
    "3379cbaae562a87b4c0425550ffdd6bfe1203f0d666cc7ea095be407a5dfe61e"
    "e91441cd5154b3e53b4f5fb31ad4c7a9ad5c7af4ae679aa51a54003a54ca6b2d",
    "3095a349d245708c7cf550118703d7302c27b60af5d4e67fc978f8a4e60953c7"
    "a04f92fcf41aee64321ccb707a895851552b1e37b00bc5e6b72fa5bcef9e3fff",
    "07262d738b09321f4dbccec4bb26f48cb0f0ed246ce0b31b9a6e7bc683049f1f"
    "3e5545f28ce932dd985c5ab0f43bd6de0770560af329065ed2e49d34624c2cbb",
    "b6405eca8ee3316c87061cc6ec18dba53e6c250c63ba1f3bae9e55dd3498036a"
    "f08cd272aa24d713c6020d77ab2f3919af1a32f307420618ab97e73953994fb4",
    "7ee682f63148ee45f6e5315da81e5c6e557c2c34641fc509c7a5701088c38a74"
    "756168e2cd8d351e88fd1a451f360a01f5b2580f9b5a2e8cfc138f3dd59a3ffc",
    "1d263c179d6b268f6fa016f3a4f29e943891125ed8593c81256059f5a7b44af2"
    "dcb2030d175c00e62ecaf7ee96682aa07ab20a611024a28532b1c25b86657902",
    "106d132cbdb4cd2597812846e2bc1bf732fec5f0a5f65dbb39ec4e6dc64ab2ce"
    "6d24630d0f15a805c3540025d84afa98e36703c3dbee713e72dde8465bc1be7e",
    "0e79968226650667a8d862ea8da4891af56a4e3a8b6d1750e394f0dea76d640d"
    "85077bcec2cc86886e506751b4f6a5838f7f0b5fef765d9dc90dcdcbaf079f08",
    "521156a82ab0c4e566e5844d5e31ad9aaf144bbd5a464fdca34dbd5717e8ff71"
    "1d3ffebbfa085d67fe996a34f6d3e4e60b1396bf4b1610c263bdbb834d560816",
    "1aba88befc55bc25efbce02db8b9933e46f57661baeabeb21cc2574d2a518a3c"
    "ba5dc5a38e49713440b25f9c744e75f6b85c9d8f4681f676160f6105357b8406",
    "5a9949fcb2c473cda968ac1b5d08566dc2d816d960f57e63b898fa701cf8ebd3"
    "f59b124d95bfbbedc5f1cf0e17d5eaed0c02c50b69d8a402cabcca4433b51fd4",
    "b0cead09807c672af2eb2b0f06dde46cf5370e15a4096b1a7d7cbb36ec31c205"
    "fbefca00b7a4162fa89fb4fb3eb78d79770c23f44e7206664ce3cd931c291e5d",
    "bb6664931ec97044e45b2ae420ae1c551a8874bc937d08e969399c3964ebdba8"
    "346cdd5d09caafe4c28ba7ec788191ceca65ddd6f95f18583e040d0f30d0364d",
    "65bc770a5faa3792369803683e844b0be7ee96f29f6d6a35568006bd5590f9a4"
    "ef639b7a8061c7b0424b66b60ac34af3119905f33a9d8c3ae18382ca9b689900",
    "ea9b4dca333336aaf839a45c6eaa48b8cb4c7ddabffea4f643d6357ea6628a48"
    "0a5b45f2b052c1b07d1fedca918b6f1139d80f74c24510dcbaa4be70eacc1b06",
    "e6342fb4a780ad975d0e24bce149989b91d360557e87994f6b457b895575cc02"
    "d0c15bad3ce7577f4c63927ff13f3e381ff7e72bdbe745324844a9d27e3f1c01",
    "3e209c9b33e8e461178ab46b1c64b49a07fb745f1c8bc95fbfb94c6b87c69516"
    "651b264ef980937fad41238b91ddc011a5dd777c7efd4494b4b6ecd3a9c22ac0",
    "fd6a3d5b1875d80486d6e69694a56dbb04a99a4d051f15db2689776ba1c4882e"
    "6d462a603b7015dc9f4b7450f05394303b8652cfb404a266962c41bae6e18a94",
    "951e27517e6bad9e4195fc8671dee3e7e9be69cee1422cb9fecfce0dba875f7b"
    "310b93ee3a3d558f941f635f668ff832d2c1d033c5e2f0997e4c66f147344e02",
    "8eba2f874f1ae84041903c7c4253c82292530fc8509550bfdc34c95c7e2889d5"
    "650b0ad8cb988e5c4894cb87fbfbb19612ea93ccc4c5cad17158b9763464b492",
    "16f712eaa1b7c6354719a8e7dbdfaf55e4063a4d277d947550019b38dfb56483"
    "0911057d50506136e2394c3b28945cc964967d54e3000c2181626cfb9b73efd2",
    "c39639e7d5c7fb8cdd0fd3e6a52096039437122f21c78f1679cea9d78a734c56"
    "ecbeb28654b4f18e342c331f6f7229ec4b4bc281b2d80a6eb50043f31796c88c",
    "72d081af99f8a173dcc9a0ac4eb3557405639a29084b54a40172912a2f8a3951"
    "29d5536f0918e902f9e8fa6000995f4168ddc5f893011be6a0dbc9b8a1a3f5bb",
    "c11aa81e5efd24d5fc27ee586cfd8847fbb0e27601ccece5ecca0198e3c77653"
    "93bb74457c7e7a27eb9170350e1fb53857177506be3e762cc0f14d8c3afe9077",
    "c28f2150b452e6c0c424bcde6f8d72007f9310fed7f2f87de0dbb64f4479d6c1"
    "441ba66f44b2accee61609177ed340128b407ecec7c64bbe50d63d22d8627727",
    "f63d88122877ec30b8c8b00d22e89000a966426112bd44166e2f525b769ccbe9"
    "b286d437a0129130dde1a86c43e04bedb594e671d98283afe64ce331de9828fd",
    "348b0532880b88a6614a8d7408c3f913357fbb60e995c60205be9139e74998ae"
    "de7f4581e42f6b52698f7fa1219708c14498067fd1e09502de83a77dd281150c",
    "5133dc8bef725359dff59792d85eaf75b7e1dcd1978b01c35b1b85fcebc63388"
    "ad99a17b6346a217dc1a9622ebd122ecf6913c4d31a6b52a695b86af00d741a0",
    "2753c4c0e98ecad806e88780ec27fccd0f5c1ab547f9e4bf1659d192c23aa2cc"
    "971b58b6802580baef8adc3b776ef7086b2545c2987f348ee3719cdef258c403",
    "b1663573ce4b9d8caefc865012f3e39714b9898a5da6ce17c25a6a47931a9ddb"
    "9bbe98adaa553beed436e89578455416c2a52a525cf2862b8d1d49a2531b7391",
    "64f58bd6bfc856f5e873b2a2956ea0eda0d6db0da39c8c7fc67c9f9feefcff30"
    "72cdf9e6ea37f69a44f0c61aa0da3693c2db5b54960c0281a088151db42b11e8",
    "0764c7be28125d9065c4b98a69d60aede703547c66a12e17e1c618994132f5ef"
    "82482c1e3fe3146cc65376cc109f0138ed9a80e49f1f3c7d610d2f2432f20605",
    "f748784398a2ff03ebeb07e155e66116a839741a336e32da71ec696001f0ad1b"
    "25cd48c69cfca7265eca1dd71904a0ce748ac4124f3571076dfa7116a9cf00e9",
    "3f0dbc0186bceb6b785ba78d2a2a013c910be157bdaffae81bb6663b1a73722f"
    "7f1228795f3ecada87cf6ef0078474af73f31eca0cc200ed975b6893f761cb6d",
    "d4762cd4599876ca75b2b8fe249944dbd27ace741fdab93616cbc6e425460feb"
    "51d4e7adcc38180e7fc47c89024a7f56191adb878dfde4ead62223f5a2610efe",
    "cd36b3d5b4c91b90fcbba79513cfee1907d8645a162afd0cd4cf4192d4a5f4c8"
    "92183a8eacdb2b6b6a9d9aa8c11ac1b261b380dbee24ca468f1bfd043c58eefe",
    "98593452281661a53c48a9d8cd790826c1a1ce567738053d0bee4a91a3d5bd92"
    "eefdbabebe3204f2031ca5f781bda99ef5d8ae56e5b04a9e1ecd21b0eb05d3e1",
    "771f57dd2775ccdab55921d3e8e30ccf484d61fe1c1b9c2ae819d0fb2a12fab9"
    "be70c4a7a138da84e8280435daade5bbe66af0836a154f817fb17f3397e725a3",
    "c60897c6f828e21f16fbb5f15b323f87b6c8955eabf1d38061f707f608abdd99"
    "3fac3070633e286cf8339ce295dd352df4b4b40b2f29da1dd50b3a05d079e6bb",
    "8210cd2c2d3b135c2cf07fa0d1433cd771f325d075c6469d9c7f1ba0943cd4ab"
    "09808cabf4acb9ce5bb88b498929b4b847f681ad2c490d042db2aec94214b06b",
    "1d4edfffd8fd80f7e4107840fa3aa31e32598491e4af7013c197a65b7f36dd3a"
    "c4b478456111cd4309d9243510782fa31b7c4c95fa951520d020eb7e5c36e4ef",
    "af8e6e91fab46ce4873e1a50a8ef448cc29121f7f74deef34a71ef89cc00d927"
    "4bc6c2454bbb3230d8b2ec94c62b1dec85f3593bfa30ea6f7a44d7c09465a253",
    "29fd384ed4906f2d13aa9fe7af905990938bed807f1832454a372ab412eea1f5"
    "625a1fcc9ac8343b7c67c5aba6e0b1cc4644654913692c6b39eb9187ceacd3ec",
    "a268c7885d9874a51c44dffed8ea53e94f78456e0b2ed99ff5a3924760813826"
    "d960a15edbedbb5de5226ba4b074e71b05c55b9756bb79e55c02754c2c7b6c8a",
    "0cf8545488d56a86817cd7ecb10f7116b7ea530a45b6ea497b6c72c997e09e3d"
    "0da8698f46bb006fc977c2cd3d1177463ac9057fdd1662c85d0c126443c10473",
    "b39614268fdd8781515e2cfebf89b4d5402bab10c226e6344e6b9ae000fb0d6c"
    "79cb2f3ec80e80eaeb1980d2f8698916bd2e9f747236655116649cd3ca23a837",
    "74bef092fc6f1e5dba3663a3fb003b2a5ba257496536d99f62b9d73f8f9eb3ce"
    "9ff3eec709eb883655ec9eb896b9128f2afc89cf7d1ab58a72f4a3bf034d2b4a",
    "3a988d38d75611f3ef38b8774980b33e573b6c57bee0469ba5eed9b44f29945e"
    "7347967fba2c162e1c3be7f310f2f75ee2381e7bfd6b3f0baea8d95dfb1dafb1",
    "58aedfce6f67ddc85a28c992f1c0bd0969f041e66f1ee88020a125cbfcfebcd6"
    "1709c9c4eba192c15e69f020d462486019fa8dea0cd7a42921a19d2fe546d43d",
    "9347bd291473e6b4e368437b8e561e065f649a6d8ada479ad09b1999a8f26b91"
    "cf6120fd3bfe014e83f23acfa4c0ad7b3712b2c3c0733270663112ccd9285cd9",
    "b32163e7c5dbb5f51fdc11d2eac875efbbcb7e7699090a7e7ff8a8d50795af5d"
    "74d9ff98543ef8cdf89ac13d0485278756e0ef00c817745661e1d59fe38e7537",
    "1085d78307b1c4b008c57a2e7e5b234658a0a82e4ff1e4aaac72b312fda0fe27"
    "d233bc5b10e9cc17fdc7697b540c7d95eb215a19a1a0e20e1abfa126efd568c7",
    "4e5c734c7dde011d83eac2b7347b373594f92d7091b9ca34cb9c6f39bdf5a8d2"
    "f134379e16d822f6522170ccf2ddd55c84b9e6c64fc927ac4cf8dfb2a17701f2",
    "695d83bd990a1117b3d0ce06cc888027d12a054c2677fd82f0d4fbfc93575523"
    "e7991a5e35a3752e9b70ce62992e268a877744cdd435f5f130869c9a2074b338",
    "a6213743568e3b3158b9184301f3690847554c68457cb40fc9a4b8cfd8d4a118"
    "c301a07737aeda0f929c68913c5f51c80394f53bff1c3e83b2e40ca97eba9e15",
    "d444bfa2362a96df213d070e33fa841f51334e4e76866b8139e8af3bb3398be2"
    "dfaddcbc56b9146de9f68118dc5829e74b0c28d7711907b121f9161cb92b69a9",
    "142709d62e28fcccd0af97fad0f8465b971e82201dc51070faa0372aa43e9248"
    "4be1c1e73ba10906d5d1853db6a4106e0a7bf9800d373d6dee2d46d62ef2a461",
};

/* RFC 7693 appendix E: deterministic sequence generator */
static void
selftest_seq(uint8_t *out, size_t len, uint32_t seed)
{
    size_t   i;
    uint32_t t, a, b;

    a = 0xDEAD4BADU * seed;
    b = 1;
    for (i = 0; i < len; i++) {
        t      = a + b;
        a      = b;
        b      = t;
        out[i] = (uint8_t) ((t >> 24) & 0xFF);
    }
}

static void
test_blake2b(void)
{
    static const size_t b2b_md_len[4] = { 20, 32, 48, 64 };
    static const size_t b2b_in_len[6] = { 0, 3, 128, 129, 255, 1024 };
    uint8_t  in[1024], md[64], key[64];
    uint8_t  acc[4 * 6 * 2 * 64]; /* concatenation of all digests */
    size_t   acclen = 0;
    uint8_t  out[64];
    size_t   i, j;

    check_true("blake2b abc ret",
               ref_blake2b(out, 64, (const uint8_t *) "abc", 3, NULL, 0, NULL, NULL) == 0);
    check("blake2b-512 abc (RFC 7693 A)", 0, out, 64,
      "ba80a53f981c4d0d6a2797b69f12f6e94c212f14685ac4b74b12bb6fdbffa2d1"
      "7d87c5392aab792dc252d5de4533cc9518d38aa8dbf1925ab92386edd4009923");
    check_true("blake2b empty ret", ref_blake2b(out, 64, NULL, 0, NULL, 0, NULL, NULL) == 0);
    check("blake2b-512 empty", 0, out, 64,
      "786a02f742015903c6c6fd852552d272912f4740e15847618a86e217f71f5419"
      "d25e1031afee585313896444934eb04b903a685b1448b755d56f701afe9be2ce");

    /* RFC 7693 appendix E self-test */
    for (i = 0; i < 4; i++) {
        size_t outlen = b2b_md_len[i];

        for (j = 0; j < 6; j++) {
            size_t inlen = b2b_in_len[j];

            selftest_seq(in, inlen, (uint32_t) inlen);
            ref_blake2b(md, outlen, in, inlen, NULL, 0, NULL, NULL);
            memcpy(acc + acclen, md, outlen);
            acclen += outlen;
            selftest_seq(key, outlen, (uint32_t) outlen);
            ref_blake2b(md, outlen, in, inlen, key, outlen, NULL, NULL);
            memcpy(acc + acclen, md, outlen);
            acclen += outlen;
        }
    }
    ref_blake2b(md, 32, acc, acclen, NULL, 0, NULL, NULL);
    check("blake2b RFC 7693 appendix E grand hash", 0, md, 32,
      "c23a7800d98123bd10f506c61e29da5603d763b8bbad2e737f5e765a7bccd475");

    /* keyed KAT */
    for (i = 0; i < 64; i++) {
        key[i] = (uint8_t) i;
    }
    for (i = 0; i < 256; i++) {
        in[i] = (uint8_t) i;
    }
    for (i = 0; i < 256; i++) {
        ref_blake2b(out, 64, in, i, key, 64, NULL, NULL);
        check("blake2b keyed KAT", (unsigned) i, out, 64, blake2b_keyed_kat[i]);
    }

    /* explicit all-zero salt/personal == NULL salt/personal */
    {
        uint8_t z[16], o2[64];

        memset(z, 0, sizeof z);
        ref_blake2b(out, 40, in, 200, key, 17, NULL, NULL);
        ref_blake2b(o2, 40, in, 200, key, 17, z, z);
        check_true("blake2b zero salt/personal == NULL", memcmp(out, o2, 40) == 0);
        z[15] = 1;
        ref_blake2b(o2, 40, in, 200, key, 17, z, NULL);
        check_true("blake2b salt changes output", memcmp(out, o2, 40) != 0);
        ref_blake2b(o2, 40, in, 200, key, 17, NULL, z);
        check_true("blake2b personal changes output", memcmp(out, o2, 40) != 0);
    }

    /* range checks */
    check_true("blake2b outlen 0", ref_blake2b(out, 0, in, 1, NULL, 0, NULL, NULL) == -1);
    check_true("blake2b outlen 65", ref_blake2b(out, 65, in, 1, NULL, 0, NULL, NULL) == -1);
    check_true("blake2b keylen 65", ref_blake2b(out, 64, in, 1, in, 65, NULL, NULL) == -1);
    check_true("blake2b outlen 1", ref_blake2b(out, 1, in, 1, NULL, 0, NULL, NULL) == 0);
    check_true("blake2b keylen 64", ref_blake2b(out, 64, in, 1, in, 64, NULL, NULL) == 0);
}
/* ---------------- SipHash-2-4 ---------------- */
/* key = 00..0f, input i = 00 01 .. (i-1) */
static const char *const siphash24_tv[64] = {
    "310e0edd47db6f72", "fd67dc93c539f874", "5a4fa9d909806c0d", "2d7efbd796666785",
    "b7877127e09427cf", "8da699cd64557618", "cee3fe586e46c9cb", "37d1018bf50002ab",
    "6224939a79f5f593", "b0e4a90bdf82009e", "f3b9dd94c5bb5d7a", "a7ad6b22462fb3f4",
    "fbe50e86bc8f1e75", "903d84c02756ea14", "eef27a8e90ca23f7", "e545be4961ca29a1",
    "db9bc2577fcc2a3f", "9447be2cf5e99a69", "9cd38d96f0b3c14b", "bd6179a71dc96dbb",
    "98eea21af25cd6be", "c7673b2eb0cbf2d0", "883ea3e395675393", "c8ce5ccd8c030ca8",
    "94af49f6c650adb8", "eab8858ade92e1bc", "f315bb5bb835d817", "adcf6b0763612e2f",
    "a5c91da7acaa4dde", "716595876650a2a6", "28ef495c53a387ad", "42c341d8fa92d832",
    "ce7cf2722f512771", "e37859f94623f3a7", "381205bb1ab0e012", "ae97a10fd434e015",
    "b4a31508beff4d31", "81396229f0907902", "4d0cf49ee5d4dcca", "5c73336a76d8bf9a",
    "d0a704536ba93e0e", "925958fcd6420cad", "a915c29bc8067318", "952b79f3bc0aa6d4",
    "f21df2e41d4535f9", "87577519048f53a9", "10a56cf5dfcd9adb", "eb75095ccd986cd0",
    "51a9cb9ecba312e6", "96afadfc2ce666c7", "72fe52975a4364ee", "5a1645b276d592a1",
    "b274cb8ebf87870a", "6f9bb4203de7b381", "eaecb2a30b22a87f", "9924a43cc1315724",
    "bd838d3aafbf8db7", "0b1a2a3265d51aea", "135079a3231ce660", "932b2846e4d70666",
    "e1915f5cb1eca46c", "f325965ca16d629f", "575ff28e60381be5", "724506eb4c328a95",
};

static const char *const siphashx24_tv[64] = {
    "a3817f04ba25a8e66df67214c7550293", "da87c1d86b99af44347659119b22fc45",
    "8177228da4a45dc7fca38bdef60affe4", "9c70b60c5267a94e5f33b6b02985ed51",
    "f88164c12d9c8faf7d0f6e7c7bcd5579", "1368875980776f8854527a07690e9627",
    "14eeca338b208613485ea0308fd7a15e", "a1f1ebbed8dbc153c0b84aa61ff08239",
    "3b62a9ba6258f5610f83e264f31497b4", "264499060ad9baabc47f8b02bb6d71ed",
    "00110dc378146956c95447d3f3d0fbba", "0151c568386b6677a2b4dc6f81e5dc18",
    "d626b266905ef35882634df68532c125", "9869e247e9c08b10d029934fc4b952f7",
    "31fcefac66d7de9c7ec7485fe4494902", "5493e99933b0a8117e08ec0f97cfc3d9",
    "6ee2a4ca67b054bbfd3315bf85230577", "473d06e8738db89854c066c47ae47740",
    "a426e5e423bf4885294da481feaef723", "78017731cf65fab074d5208952512eb1",
    "9e25fc833f2290733e9344a5e83839eb", "568e495abe525a218a2214cd3e071d12",
    "4a29b54552d16b9a469c10528eff0aae", "c9d184ddd5a9f5e0cf8ce29a9abf691c",
    "2db479ae78bd50d8882a8a178a6132ad", "8ece5f042d5e447b5051b9eacb8d8f6f",
    "9c0b53b4b3c307e87eaee08678141f66", "abf248af69a6eae4bfd3eb2f129eeb94",
    "0664da1668574b88b935f3027358aef4", "aa4b9dc4bf337de90cd4fd3c467c6ab7",
    "ea5c7f471faf6bde2b1ad7d4686d2287", "2939b0183223fafc1723de4f52c43d35",
    "7c3956ca5eeafc3e363e9d556546eb68", "77c6077146f01c32b6b69d5f4ea9ffcf",
    "37a6986cb8847edf0925f0f1309b54de", "a705f0e69da9a8f907241a2e923c8cc8",
    "3dc47d1f29c448461e9e76ed904f6711", "0d62bf01e6fc0e1a0d3c4751c5d3692b",
    "8c03468bca7c669ee4fd5e084bbee7b5", "528a5bb93baf2c9c4473cce5d0d22bd9",
    "df6a301e95c95dad97ae0cc8c6913bd8", "801189902c857f39e73591285e70b6db",
    "e617346ac9c231bb3650ae34ccca0c5b", "27d93437efb721aa401821dcec5adf89",
    "89237d9ded9c5e78d8b1c9b166cc7342", "4a6d8091bf5e7d651189fa94a250b14c",
    "0e33f96055e7ae893ffc0e3dcf492902", "e61c432b720b19d18ec8d84bdc63151b",
    "f7e5aef549f782cf379055a608269b16", "438d030fd0b7a54fa837f2ad201a6403",
    "a590d3ee4fbf04e3247e0d27f286423f", "5fe2c1a172fe93c4b15cd37caef9f538",
    "2c97325cbd06b36eb2133dd08b3a017c", "92c814227a6bca949ff0659f002ad39e",
    "dce850110bd8328cfbd50841d6911d87", "67f14984c7da791248e32bb5922583da",
    "1938f2cf72d54ee97e94166fa91d2a36", "74481e9646ed49fe0f6224301604698e",
    "57fca5de98a9d6d8006438d0583d8a1d", "9fecde1cefdc1cbed4763674d9575359",
    "e3040c00eb28f15366ca73cbd872e740", "7697009a6a831dfecca91c5993670f7a",
    "5853542321f567a005d547a4f04759bd", "5150d1772f50834a503e069a973fbd7c",
};

static void
test_siphash(void)
{
    uint8_t in[64], k[16], o8[8], o16[16], p8[8], p16[16];
    size_t  i;

    for (i = 0; i < 16; i++) {
        k[i] = (uint8_t) i;
    }
    for (i = 0; i < 64; i++) {
        in[i] = (uint8_t) i;
        ref_siphash24(o8, in, i, k);
        check("siphash24", (unsigned) i, o8, 8, siphash24_tv[i]);
        ref_siphashx24(o16, in, i, k);
        check("siphashx24", (unsigned) i, o16, 16, siphashx24_tv[i]);
    }
    ref_siphash24(o8, in, 0, k);
    ref_siphash24(p8, NULL, 0, k);
    check_true("siphash24 NULL/0", memcmp(o8, p8, 8) == 0);
    ref_siphashx24(o16, in, 0, k);
    ref_siphashx24(p16, NULL, 0, k);
    check_true("siphashx24 NULL/0", memcmp(o16, p16, 16) == 0);
}
/* ---------------- AES-256 and AES-256-GCM ---------------- */
static const struct {
    const char *name;
    const char *key;
    const char *iv;
    const char *pt;
    const char *ad;
    const char *ct;
    const char *tag;
} gcm_tv[] = {
    { "GCM spec test case 13",
      "0000000000000000000000000000000000000000000000000000000000000000",
      "000000000000000000000000",
      "",
      "",
      "",
      "530f8afbc74536b9a963b4f1c4cb738b" },
    { "GCM spec test case 14",
      "0000000000000000000000000000000000000000000000000000000000000000",
      "000000000000000000000000",
      "00000000000000000000000000000000",
      "",
      "cea7403d4d606b6e074ec5d3baf39d18",
      "d0d1c8a799996bf0265b98b5d48ab919" },
    { "GCM spec test case 15",
      "feffe9928665731c6d6a8f9467308308feffe9928665731c6d6a8f9467308308",
      "cafebabefacedbaddecaf888",
      "d9313225f88406e5a55909c5aff5269a86a7a9531534f7da2e4c303d8a318a72"
      "1c3c0c95956809532fcf0e2449a6b525b16aedf5aa0de657ba637b391aafd255",
      "",
      "522dc1f099567d07f47f37a32a84427d643a8cdcbfe5c0c97598a2bd2555d1aa"
      "8cb08e48590dbb3da7b08b1056828838c5f61e6393ba7a0abcc9f662898015ad",
      "b094dac5d93471bdec1a502270e3cc6c" },
    { "GCM spec test case 16",
      "feffe9928665731c6d6a8f9467308308feffe9928665731c6d6a8f9467308308",
      "cafebabefacedbaddecaf888",
      "d9313225f88406e5a55909c5aff5269a86a7a9531534f7da2e4c303d8a318a72"
      "1c3c0c95956809532fcf0e2449a6b525b16aedf5aa0de657ba637b39",
      "feedfacedeadbeeffeedfacedeadbeefabaddad2",
      "522dc1f099567d07f47f37a32a84427d643a8cdcbfe5c0c97598a2bd2555d1aa"
      "8cb08e48590dbb3da7b08b1056828838c5f61e6393ba7a0abcc9f662",
      "76fc6ece0f4e1768cddf8853bb2d551b" },
    { "NIST CAVS gcmEncryptExtIV256 (mlen 0, adlen 0)",
      "b52c505a37d78eda5dd34f20c22540ea1b58963cf8e5bf8ffa85f9f2492505b4",
      "516c33929df5a3284ff463d7",
      "",
      "",
      "",
      "bdc1ac884d332457a1d2664f168c76f0" },
    { "NIST CAVS gcmEncryptExtIV256 (mlen 0, adlen 16)",
      "78dc4e0aaf52d935c3c01eea57428f00ca1fd475f5da86a49c8dd73d68c8e223",
      "d79cf22d504cc793c3fb6c8a",
      "",
      "b96baa8c1c75a671bfb2d08d06be5f36",
      "",
      "3e5d486aa2e30b22e040b85723a06e76" },
    { "NIST CAVS gcmEncryptExtIV256 (mlen 0, adlen 20)",
      "886cff5f3e6b8d0e1ad0a38fcdb26de97e8acbe79f6bed66959a598fa5047d65",
      "3a8efa1cd74bbab5448f9945",
      "",
      "519fee519d25c7a304d6c6aa1897ee1eb8c59655",
      "",
      "f6d47505ec96c98a42dc3ae719877b87" },
    { "NIST CAVS gcmEncryptExtIV256 (mlen 0, adlen 48)",
      "f4069bb739d07d0cafdcbc609ca01597f985c43db63bbaaa0debbb04d384e49c",
      "d25ff30fdc3d464fe173e805",
      "",
      "3e1449c4837f0892f9d55127c75c4b25d69be334baf5f19394d2d8bb460cbf21"
      "20e14736d0f634aa792feca20e455f11",
      "",
      "805ec2931c2181e5bfb74fa0a975f0cf" },
    { "NIST CAVS gcmEncryptExtIV256 (mlen 0, adlen 90)",
      "03ccb7dbc7b8425465c2c3fc39ed0593929ffd02a45ff583bd89b79c6f646fe9",
      "fd119985533bd5520b301d12",
      "",
      "98e68c10bf4b5ae62d434928fc6405147c6301417303ef3a703dcfd2c0c339a4"
      "d0a89bd29fe61fecf1066ab06d7a5c31a48ffbfed22f749b17e9bd0dc1c6f8fb"
      "d6fd4587184db964d5456132106d782338c3f117ec05229b0899",
      "",
      "cf54e7141349b66f248154427810c87a" },
    { "NIST CAVS gcmEncryptExtIV256 (mlen 16, adlen 0)",
      "31bdadd96698c204aa9ce1448ea94ae1fb4a9a0b3c9d773b51bb1822666b8f22",
      "0d18e06c7c725ac9e362e1ce",
      "2db5168e932556f8089a0622981d017d",
      "",
      "fa4362189661d163fcd6a56d8bf0405a",
      "d636ac1bbedd5cc3ee727dc2ab4a9489" },
    { "NIST CAVS gcmEncryptExtIV256 (mlen 16, adlen 16)",
      "92e11dcdaa866f5ce790fd24501f92509aacf4cb8b1339d50c9c1240935dd08b",
      "ac93a1a6145299bde902f21a",
      "2d71bcfa914e4ac045b2aa60955fad24",
      "1e0889016f67601c8ebea4943bc23ad6",
      "8995ae2e6df3dbf96fac7b7137bae67f",
      "eca5aa77d51d4a0a14d9c51e1da474ab" },
    { "NIST CAVS gcmEncryptExtIV256 (mlen 16, adlen 20)",
      "83688deb4af8007f9b713b47cfa6c73e35ea7a3aa4ecdb414dded03bf7a0fd3a",
      "0b459724904e010a46901cf3",
      "33d893a2114ce06fc15d55e454cf90c3",
      "794a14ccd178c8ebfd1379dc704c5e208f9d8424",
      "cc66bee423e3fcd4c0865715e9586696",
      "0fb291bd3dba94a1dfd8b286cfb97ac5" },
    { "NIST CAVS gcmEncryptExtIV256 (mlen 16, adlen 48)",
      "e4fed339c7b0cd267305d11ab0d5c3273632e8872d35bdc367a1363438239a35",
      "0365882cf75432cfd23cbd42",
      "fff39a087de39a03919fbd2f2fa5f513",
      "8a97d2af5d41160ac2ff7dd8ba098e7aa4d618f0f455957d6a6d0801796747ba"
      "57c32dfbaaaf15176528fe3a0e4550c9",
      "8d9e68f03f7e5f4a0ffaa7650d026d08",
      "3554542c478c0635285a61d1b51f6afa" },
    { "NIST CAVS gcmEncryptExtIV256 (mlen 16, adlen 90)",
      "80d755e24d129e68a5259ec2cf618e39317074a83c8961d3768ceb2ed8d5c3d7",
      "7598c07ba7b16cd12cf50813",
      "5e7fd1298c4f15aa0f1c1e47217aa7a9",
      "0e94f4c48fd0c9690c853ad2a5e197c5de262137b69ed0cdfa28d8d12413e4ff"
      "ff15374e1cccb0423e8ed829a954a335ed705a272ad7f9abd1057c849bb0d54b"
      "768e9d79879ec552461cc04adb6ca0040c5dd5bc733d21a93702",
      "5762a38cf3f2fdf3645d2f6696a7eead",
      "8a6708e69468915c5367573924fe1ae3" },
    { "NIST CAVS gcmEncryptExtIV256 (mlen 13, adlen 0)",
      "82c4f12eeec3b2d3d157b0f992d292b237478d2cecc1d5f161389b97f999057a",
      "7b40b20f5f397177990ef2d1",
      "982a296ee1cd7086afad976945",
      "",
      "ec8e05a0471d6b43a59ca5335f",
      "113ddeafc62373cac2f5951bb9165249" },
    { "NIST CAVS gcmEncryptExtIV256 (mlen 13, adlen 16)",
      "dad89d9be9bba138cdcf8752c45b579d7e27c3dbb40f53e771dd8cfd500aa2d5",
      "cfb2aec82cfa6c7d89ee72ff",
      "b526ba1050177d05b0f72f8d67",
      "6e43784a91851a77667a02198e28dc32",
      "8b29e66e924ecae84f6d8f7d68",
      "1e365805c8f28b2ed8a5cadfd9079158" },
    { "NIST CAVS gcmEncryptExtIV256 (mlen 13, adlen 20)",
      "69b458f2644af9020463b40ee503cdf083d693815e2659051ae0d039e606a970",
      "8d1da8ab5f91ccd09205944b",
      "f3e0e09224256bf21a83a5de8d",
      "036ad5e5494ef817a8af2f5828784a4bfedd1653",
      "c0a62d77e6031bfdc6b13ae217",
      "a794a9aaee48cd92e47761bf1baff0af" },
    { "NIST CAVS gcmEncryptExtIV256 (mlen 13, adlen 48)",
      "5f671466378f470ba5f5160e2209f3d95a48b7e560625d5a08654414de23aee2",
      "6b3c08a663d04132243dd96c",
      "c428592d9f8a7f107ec4d0df05",
      "12965559c31d538f937bda6eee9c93b0387318dc5d9496fb1c3a0b9b978dbfeb"
      "ff2a5823974ee9d679834dbe59f7ec51",
      "1d8d7fe4357080c817303ce19c",
      "e88d6b566fdc7b4fd62106bd2eb806ec" },
    { "NIST CAVS gcmEncryptExtIV256 (mlen 13, adlen 90)",
      "ff9506b4d46ba54128876fadfcc673a4c927c618ea7d95cfcaa508cbc8f7fc66",
      "3742ad2208a0484345eee1be",
      "7fd0d6cadc92cad27bb2d7d8c8",
      "f1360a27fdc244be8739d85af6491c762a693aafe668c449515fdeeedb6a90ae"
      "ee3891bbc8b69adc6a6426cb12fcdebc32c9f58c5259d128b91efa28620a3a9a"
      "0168b0ff5e76951cb41647ba4aa1f87fac0d97ac580e42cffc7e",
      "bdb8346b28eb4d7226493611a6",
      "7484d827b767647f44c7f94a39f8175c" },
    { "NIST CAVS gcmEncryptExtIV256 (mlen 32, adlen 0)",
      "268ed1b5d7c9c7304f9cae5fc437b4cd3aebe2ec65f0d85c3918d3d3b5bba89b",
      "9ed9d8180564e0e945f5e5d4",
      "fe29a40d8ebf57262bdb87191d01843f4ca4b2de97d88273154a0b7d9e2fdb80",
      "",
      "791a4a026f16f3a5ea06274bf02baab469860abde5e645f3dd473a5acddeecfc",
      "05b2b74db0662550435ef1900e136b15" },
    { "NIST CAVS gcmEncryptExtIV256 (mlen 32, adlen 16)",
      "37ccdba1d929d6436c16bba5b5ff34deec88ed7df3d15d0f4ddf80c0c731ee1f",
      "5c1b21c8998ed6299006d3f9",
      "ad4260e3cdc76bcc10c7b2c06b80b3be948258e5ef20c508a81f51e96a518388",
      "22ed235946235a85a45bc5fad7140bfa",
      "3b335f8b08d33ccdcad228a74700f1007542a4d1e7fc1ebe3f447fe71af29816",
      "1fbf49cc46f458bf6e88f6370975e6d4" },
    { "NIST CAVS gcmEncryptExtIV256 (mlen 32, adlen 20)",
      "5853c020946b35f2c58ec427152b840420c40029636adcbb027471378cfdde0f",
      "eec313dd07cc1b3e6b068a47",
      "ce7458e56aef9061cb0c42ec2315565e6168f5a6249ffd31610b6d17ab64935e",
      "1389b522c24a774181700553f0246bbabdd38d6f",
      "eadc3b8766a77ded1a58cb727eca2a9790496c298654cda78febf0da16b6903b",
      "3d49a5b32fde7eafcce90079217ffb57" },
    { "NIST CAVS gcmEncryptExtIV256 (mlen 32, adlen 48)",
      "dc776f0156c15d032623854b625c61868e5db84b7b6f9fbd3672f12f0025e0f6",
      "67130951c4a57f6ae7f13241",
      "9378a727a5119595ad631b12a5a6bc8a91756ef09c8d6eaa2b718fe86876da20",
      "fd0920faeb7b212932280a009bac969145e5c316cf3922622c3705c3457c4e9f"
      "124b2076994323fbcfb523f8ed16d241",
      "6d958c20870d401a3c1f7a0ac092c97774d451c09f7aae992a8841ff0ab9d60d",
      "b876831b4ecd7242963b040aa45c4114" },
    { "NIST CAVS gcmEncryptExtIV256 (mlen 32, adlen 90)",
      "26bf255bee60ef0f653769e7034db95b8c791752754e575c761059e9ee8dcf78",
      "cecd97ab07ce57c1612744f5",
      "96983917a036650763aca2b4e927d95ffc74339519ed40c4336dba91edfbf9ad",
      "afebbe9f260f8c118e52b84d8880a34622675faef334cdb41be9385b7d059b79"
      "c0f8a432d25f8b71e781b177fce4d4c57ac5734543e85d7513f96382ff4b2d4b"
      "95b2f1fdbaf9e78bbd1db13a7dd26e8a4ac83a3e8ab42d1d545f",
      "e34b1540a769f7913331d66796e00bdc3ee0f258cf244eb7663375cc5ad6c658",
      "3841f02beb7a7fca7e578922d0a2f80c" },
    { "NIST CAVS gcmEncryptExtIV256 (mlen 51, adlen 0)",
      "1fded32d5999de4a76e0f8082108823aef60417e1896cf4218a2fa90f632ec8a",
      "1f3afa4711e9474f32e70462",
      "06b2c75853df9aeb17befd33cea81c630b0fc53667ff45199c629c8e15dce41e"
      "530aa792f796b8138eeab2e86c7b7bee1d40b0",
      "",
      "91fbd061ddc5a7fcc9513fcdfdc9c3a7c5d4d64cedf6a9c24ab8a77c36eefbf1"
      "c5dc00bc50121b96456c8cd8b6ff1f8b3e480f",
      "30096d340f3d5c42d82a6f475def23eb" },
    { "NIST CAVS gcmEncryptExtIV256 (mlen 51, adlen 16)",
      "5fe01c4baf01cbe07796d5aaef6ec1f45193a98a223594ae4f0ef4952e82e330",
      "bd587321566c7f1a5dd8652d",
      "881dc6c7a5d4509f3c4bd2daab08f165ddc204489aa8134562a4eac3d0bcad79"
      "65847b102733bb63d1e5c598ece0c3e5dadddd",
      "9013617817dda947e135ee6dd3653382",
      "16e375b4973b339d3f746c1c5a568bc7526e909ddff1e19c95c94a6ccff210c9"
      "a4a40679de5760c396ac0e2ceb1234f9f5fe26",
      "abd3d26d65a6275f7a4f56b422acab49" },
    { "NIST CAVS gcmEncryptExtIV256 (mlen 51, adlen 20)",
      "24501ad384e473963d476edcfe08205237acfd49b5b8f33857f8114e863fec7f",
      "9ff18563b978ec281b3f2794",
      "27f348f9cdc0c5bd5e66b1ccb63ad920ff2219d14e8d631b3872265cf117ee86"
      "757accb158bd9abb3868fdc0d0b074b5f01b2c",
      "adb5ec720ccf9898500028bf34afccbcaca126ef",
      "eb7cb754c824e8d96f7c6d9b76c7d26fb874ffbf1d65c6f64a698d839b0b0614"
      "5dae82057ad55994cf59ad7f67c0fa5e85fab8",
      "bc95c532fecc594c36d1550286a7a3f0" },
    { "NIST CAVS gcmEncryptExtIV256 (mlen 51, adlen 48)",
      "463b412911767d57a0b33969e674ffe7845d313b88c6fe312f3d724be68e1fca",
      "611ce6f9a6880750de7da6cb",
      "e7d1dcf668e2876861940e012fe52a98dacbd78ab63c08842cc9801ea581682a"
      "d54af0c34d0d7f6f59e8ee0bf4900e0fd85042",
      "0a682fbc6192e1b47a5e0868787ffdafe5a50cead3575849990cdd2ea9b35977"
      "49403efb4a56684f0c6bde352d4aeec5",
      "8886e196010cb3849d9c1a182abe1eeab0a5f3ca423c3669a4a8703c0f146e8e"
      "956fb122e0d721b869d2b6fcd4216d7d4d3758",
      "2469cecd70fd98fec9264f71df1aee9a" },
    { "NIST CAVS gcmEncryptExtIV256 (mlen 51, adlen 90)",
      "148579a3cbca86d5520d66c0ec71ca5f7e41ba78e56dc6eebd566fed547fe691",
      "b08a5ea1927499c6ecbfd4e0",
      "9d0b15fdf1bd595f91f8b3abc0f7dec927dfd4799935a1795d9ce00c9b879434"
      "420fe42c275a7cd7b39d638fb81ca52b49dc41",
      "e4f963f015ffbb99ee3349bbaf7e8e8e6c2a71c230a48f9d59860a29091d2747"
      "e01a5ca572347e247d25f56ba7ae8e05cde2be3c97931292c02370208ecd097e"
      "f692687fecf2f419d3200162a6480a57dad408a0dfeb492e2c5d",
      "2097e372950a5e9383c675e89eea1c314f999159f5611344b298cda45e628437"
      "16f215f82ee663919c64002a5c198d7878fd3f",
      "adbecdb0d5c2224d804d2886ff9a5760" },
    { "NIST CAVS gcmEncryptExtIV256 (mlen 0, adlen 81)",
      "83C093B58DE7FFE1C0DA926AC43FB3609AC1C80FEE1B624497EF942E2F79A823",
      "7CFDE9F9E33724C68932D612",
      "",
      "84C5D513D2AAF6E5BBD2727788E523008932D6127CFDE9F9E33724C608000F10"
      "1112131415161718191A1B1C1D1E1F202122232425262728292A2B2C2D2E2F30"
      "3132333435363738393A3B3C3D3E3F0005",
      "",
      "6EE160E8FAECA4B36C86B234920CA975" },
    { "NIST CAVS gcmEncryptExtIV256 (mlen 63, adlen 20)",
      "4C973DBC7364621674F8B5B89E5C15511FCED9216490FB1C1A2CAA0FFE0407E5",
      "7AE8E2CA4EC500012E58495C",
      "08000F101112131415161718191A1B1C1D1E1F202122232425262728292A2B2C"
      "2D2E2F303132333435363738393A3B3C3D3E3F404142434445464748490008",
      "68F2E77696CE7AE8E2CA4EC588E54D002E58495C",
      "BA8AE31BC506486D6873E4FCE460E7DC57591FF00611F31C3834FE1C04AD80B6"
      "6803AFCF5B27E6333FA67C99DA47C2F0CED68D531BD741A943CFF7A6713BD0",
      "2611CD7DAA01D61C5C886DC1A8170107" },
    { "NIST CAVS gcmEncryptExtIV256 (mlen 0, adlen 128)",
      "0000000000000000000000000000000000000000000000000000000000000000",
      "000000000000000000000000",
      "",
      "d9313225f88406e5a55909c5aff5269a86a7a9531534f7da2e4c303d8a318a72"
      "1c3c0c95956809532fcf0e2449a6b525b16aedf5aa0de657ba637b391aafd255"
      "522dc1f099567d07f47f37a32a84427d643a8cdcbfe5c0c97598a2bd2555d1aa"
      "8cb08e48590dbb3da7b08b1056828838c5f61e6393ba7a0abcc9f662898015ad",
      "",
      "f4c58f80a3a1a9cd52755214bdbb6ad0" },
    { "NIST CAVS gcmEncryptExtIV256 (mlen 48, adlen 0)",
      "0000000000000000000000000000000000000000000000000000000000000000",
      "000000000000000000000000",
      "0000000000000000000000000000000000000000000000000000000000000000"
      "00000000000000000000000000000000",
      "",
      "cea7403d4d606b6e074ec5d3baf39d18726003ca37a62a74d1a2f58e7506358e"
      "dd4ab1284d4ae17b41e85924470c36f7",
      "0eb41c52b074ecacb213f6de062f7897" },
    { "NIST CAVS gcmEncryptExtIV256 (mlen 128, adlen 0)",
      "0000000000000000000000000000000000000000000000000000000000000000",
      "000000000000000000000000",
      "0000000000000000000000000000000000000000000000000000000000000000"
      "0000000000000000000000000000000000000000000000000000000000000000"
      "0000000000000000000000000000000000000000000000000000000000000000"
      "0000000000000000000000000000000000000000000000000000000000000000",
      "",
      "cea7403d4d606b6e074ec5d3baf39d18726003ca37a62a74d1a2f58e7506358e"
      "dd4ab1284d4ae17b41e85924470c36f74741cbe181bb7f30617c1de3ab0c3a1f"
      "d0c48f7321a82d376095ace0419167a0bcaf49b0c0cea62de6bc1c66545e1dad"
      "abfa77cd6e85da245fb0bdc5e52cfc29ba0ae1ab2837e0f36387b70e93176012",
      "ae1753b346fd6971d20cb69a2d6148bc" },
    { "NIST CAVS gcmEncryptExtIV256 (mlen 129, adlen 13)",
      "0000000000000000000000000000000000000000000000000000000000000000",
      "ffffffffffffffffffffffff",
      "0100000000000000000000000000000000000000000000000000000000000000"
      "0000000000000000000000000000000000000000000000000000000000000000"
      "0000000000000000000000000000000000000000000000000000000000000000"
      "0000000000000000000000000000000000000000000000000000000000000000"
      "02",
      "0102030405060708090a0b0c0d",
      "d3b089dead85b8b6874327390d0fff1575051e2a96243ab8ca0927447f58d705"
      "3d99918491eeeee470cd929077ccb404ef140354241e12e2e36e3aea89a06e79"
      "c064479d7cdd711220dff6059ab913a1ea3ba7bcdb2d5b8746a990ec54cf2aab"
      "55c11c9c849ab552fc03cc4425db4e54b13d334e9ef145805c73680d7899b64b"
      "ab",
      "c9ee768b5473f678ac00203affa6a34e" },
    { "NIST CAVS gcmEncryptExtIV256 (mlen 80, adlen 32)",
      "843ffcf5d2b72694d19ed01d01249412d5cb4a08f134d246513633e84d006bbb",
      "dbcca32ebf9b804617c3aa9e",
      "000102030405060708090a0b0c0d0e0f101112131415161718191a1b1c1d1e1f"
      "202122232425262728292a2b2c2d2e2f303132333435363738393a3b3c3d3e3f"
      "404142434445464748494a4b4c4d4e4f",
      "00000000000000000000000000000000101112131415161718191a1b1c1d1e1f",
      "3847bb9e60181f62ba36beae09cc3cfeb5958a16e37c72e87add8be814ee6dbb"
      "b98c0727709c84d26a6adf5e7b4e17cdfd84977b328d3eda489a30ff8d1875b5"
      "30239d4abaf15a5903f516cac0c91b3a",
      "39fa8fc1c78405e86326c97d428cd1c6" },
};

static void
test_aes(void)
{
    uint8_t  out[16];
    uint8_t *k, *in, *iv, *pt, *ad, *ct;
    uint8_t  tag[16];
    size_t   klen, inlen, ivlen, ptlen, adlen;
    size_t   i;

    k  = unhex("000102030405060708090a0b0c0d0e0f101112131415161718191a1b1c1d1e1f", &klen);
    in = unhex("00112233445566778899aabbccddeeff", &inlen);
    ref_aes256_encrypt_block(out, in, k);
    check("aes256 FIPS-197 C.3", 0, out, 16, "8ea2b7ca516745bfeafc49904b496089");
    free(k);
    free(in);
    k  = unhex("603deb1015ca71be2b73aef0857d77811f352c073b6108d72d9810a30914dff4", &klen);
    in = unhex("6bc1bee22e409f96e93d7e117393172a", &inlen);
    ref_aes256_encrypt_block(out, in, k);
    check("aes256 SP800-38A F.1.5", 0, out, 16, "f3eed1bdb5d2a03c064b5a7e3db181f8");
    free(k);
    free(in);

    for (i = 0; i < sizeof gcm_tv / sizeof gcm_tv[0]; i++) {
        k  = unhex(gcm_tv[i].key, &klen);
        iv = unhex(gcm_tv[i].iv, &ivlen);
        pt = unhex(gcm_tv[i].pt, &ptlen);
        ad = unhex(gcm_tv[i].ad, &adlen);
        ct = (uint8_t *) malloc(ptlen + 1);
        if (ct == NULL || klen != 32 || ivlen != 12) {
            exit(2);
        }
        /* pass NULL for empty inputs to exercise the NULL/0 contract */
        ref_aes256gcm_encrypt(ptlen ? ct : NULL, tag, ptlen ? pt : NULL, ptlen,
                              adlen ? ad : NULL, adlen, iv, k);
        check(gcm_tv[i].name, (unsigned) i, ct, ptlen, gcm_tv[i].ct);
        check(gcm_tv[i].name, (unsigned) i, tag, 16, gcm_tv[i].tag);
        free(k);
        free(iv);
        free(pt);
        free(ad);
        free(ct);
    }
}
/* ---------------- AEGIS ---------------- */
static const struct {
    const char *key;
    const char *nonce;
    const char *ad;
    const char *msg;
    const char *ct;
    const char *tag128;
    const char *tag256;
} aegis128l_draft_tv[] = {
    { "10010000000000000000000000000000",
      "10000200000000000000000000000000",
      "",
      "00000000000000000000000000000000",
      "c1c0e58bd913006feba00f4b3cc3594e",
      "abe0ece80c24868a226a35d16bdae37a",
      "25835bfbb21632176cf03840687cb968cace4617af1bd0f7d064c639a5c79ee4" },
    { "10010000000000000000000000000000",
      "10000200000000000000000000000000",
      "",
      "",
      "",
      "c2b879a67def9d74e6c14f708bbcc9b4",
      "1360dc9db8ae42455f6e5b6a9d488ea4f2184c4e12120249335c4ee84bafe25d" },
    { "10010000000000000000000000000000",
      "10000200000000000000000000000000",
      "0001020304050607",
      "000102030405060708090a0b0c0d0e0f101112131415161718191a1b1c1d1e1f",
      "79d94593d8c2119d7e8fd9b8fc77845c5c077a05b2528b6ac54b563aed8efe84",
      "cc6f3372f6aa1bb82388d695c3962d9a",
      "022cb796fe7e0ae1197525ff67e309484cfbab6528ddef89f17d74ef8ecd82b3" },
    { "10010000000000000000000000000000",
      "10000200000000000000000000000000",
      "0001020304050607",
      "000102030405060708090a0b0c0d",
      "79d94593d8c2119d7e8fd9b8fc77",
      "5c04b3dba849b2701effbe32c7f0fab7",
      "86f1b80bfb463aba711d15405d094baf4a55a15dbfec81a76f35ed0b9c8b04ac" },
    { "10010000000000000000000000000000",
      "10000200000000000000000000000000",
      "000102030405060708090a0b0c0d0e0f101112131415161718191a1b1c1d1e1f"
      "20212223242526272829",
      "101112131415161718191a1b1c1d1e1f202122232425262728292a2b2c2d2e2f"
      "3031323334353637",
      "b31052ad1cca4e291abcf2df3502e6bdb1bfd6db36798be3607b1f94d34478aa"
      "7ede7f7a990fec10",
      "7542a745733014f9474417b337399507",
      "b91e2947a33da8bee89b6794e647baf0fc835ff574aca3fc27c33be0db2aff98" },
};

static const struct {
    const char *key;
    const char *nonce;
    const char *ad;
    const char *msg;
    const char *ct;
    const char *tag128;
    const char *tag256;
} aegis256_draft_tv[] = {
    { "1001000000000000000000000000000000000000000000000000000000000000",
      "1000020000000000000000000000000000000000000000000000000000000000",
      "",
      "00000000000000000000000000000000",
      "754fc3d8c973246dcc6d741412a4b236",
      "3fe91994768b332ed7f570a19ec5896e",
      "1181a1d18091082bf0266f66297d167d2e68b845f61a3b0527d31fc7b7b89f13" },
    { "1001000000000000000000000000000000000000000000000000000000000000",
      "1000020000000000000000000000000000000000000000000000000000000000",
      "",
      "",
      "",
      "e3def978a0f054afd1e761d7553afba3",
      "6a348c930adbd654896e1666aad67de989ea75ebaa2b82fb588977b1ffec864a" },
    { "1001000000000000000000000000000000000000000000000000000000000000",
      "1000020000000000000000000000000000000000000000000000000000000000",
      "0001020304050607",
      "000102030405060708090a0b0c0d0e0f101112131415161718191a1b1c1d1e1f",
      "f373079ed84b2709faee373584585d60accd191db310ef5d8b11833df9dec711",
      "8d86f91ee606e9ff26a01b64ccbdd91d",
      "b7d28d0c3c0ebd409fd22b44160503073a547412da0854bfb9723020dab8da1a" },
    { "1001000000000000000000000000000000000000000000000000000000000000",
      "1000020000000000000000000000000000000000000000000000000000000000",
      "0001020304050607",
      "000102030405060708090a0b0c0d",
      "f373079ed84b2709faee37358458",
      "c60b9c2d33ceb058f96e6dd03c215652",
      "8c1cc703c81281bee3f6d9966e14948b4a175b2efbdc31e61a98b4465235c2d9" },
    { "1001000000000000000000000000000000000000000000000000000000000000",
      "1000020000000000000000000000000000000000000000000000000000000000",
      "000102030405060708090a0b0c0d0e0f101112131415161718191a1b1c1d1e1f"
      "20212223242526272829",
      "101112131415161718191a1b1c1d1e1f202122232425262728292a2b2c2d2e2f"
      "3031323334353637",
      "57754a7d09963e7c787583a2e7b859bb24fa1e04d49fd550b2511a358e3bca25"
      "2a9b1b8b30cc4a67",
      "ab8a7d53fd0e98d727accca94925e128",
      "a3aca270c006094d71c20e6910b5161c0826df233d08919a566ec2c05990f734" },
};

/* field order: key, nonce, message, ad, ciphertext, 32-byte tag */
static const struct {
    const char *key;
    const char *nonce;
    const char *msg;
    const char *ad;
    const char *ct;
    const char *tag256;
} aegis128l_repo_tv[] = {
    { "54662e55bb4771f9711fe5301d7412fe",
      "e51d417ab10a2931d8d22a9fffb98e3a",
      "04f672f8cdb3e71d032d52c064bc33ecf8aad3d40c41d5806cc306766c057c50"
      "b500af5c550d076d34cc3a74a2b4bed195ffa3e8eddf953aefe9aed2bc14349c"
      "700ab7e4cb974fb31615a9ff70fb44307055523ab378b133fefc883013ce23bb"
      "01b23aeda15f85e65cdf02a291a0454900cb261872d5205737fd7410",
      "3b762e3ab5d06cb2896b852ea70303f289f2775401b7808e30272f",
      "d6736371f35eb067244dd7963ad2e0cd3949452cbd4c220be55082498ed3b230"
      "f579d78844311652a9958e82f172bb8072c4b1114ec531a6ccb340ddd86caf32"
      "a0d4c9c45738e9ec9c0d9154612f7d90465f3a277bebd667c0af0edb6935d8df"
      "fbdee96c1a96e4c4318f5d3bc90c1c8d5729e1a402f765bdc9b26b08",
      "ee9595bb3f1b32000578ffb751b508655b3cae8fecaf44f40d740fa0347e283a" },
    { "46a5c72e03d900b48f829df00ecb88b9",
      "b25187e4b77b6770c35c7a962584597d",
      "fc8083311b38a80c04e57d069661b273264310906781eb7e4e44c6416f733626"
      "7674a44a7c54ed6361b43ef9500514e5d9e71f8b5c33aece756b64f3ed011922"
      "facbec7c3ffd27d01a853435bde551372806bd0c",
      "b73c81239e01cd81b0de13247ca4e3528b87f3078e2b674a667430b1dbdc3e93"
      "657131e654a4182b4c4ab01a33b36e946f1fcc55aab06fc6f56d",
      "51189448af53ae3630c06a167ceefe6b9b5eba746fb9b53f4b3104d2b15b6020"
      "fa8998e182eb9c9d6b6463939e50723780f983733206ae6f11b986d95abe8355"
      "5e64f8d3242d7e8055fcb8e2df8e41d318f06728",
      "caf8957f9ebc9a88469c04089962487a3c77040b82661616c5d5c83e974eae1e" },
    { "e343d75de99e6d73543968437d3dcf6a",
      "317a5808ed5debf6f527a780e0896b2d",
      "247045cb40dea9c514a885444c526ac867b1b80e4728a23b63f596",
      "323094c01e",
      "18cb5d2fc5e27bdda5ba16f1320da42049759368548e5bd96f2dbc",
      "5d3e88816daf20f11018456b58b2614050b93b222f03be079b39a9bb2de49f47" },
    { "7db9c2721a03931c880f9e714bbf2211",
      "27f642398299ada7fdda1895ee4589f0",
      "dc5180954df0c3391a60b44cbf70aee72b7dbb2addc90a0bf2ceac6113287eb5"
      "01fe1ea9f4c51822664b82fe0279b039f4",
      "6dd5e43033fa6f021059a353edaf1f870387693054d0a2360fd1f6941a68f48b"
      "a972a1bc0816a446a6186e4a9a2f9df556bf709470137b8e60d9daa2",
      "c8a7d9131cebfa5388003cc30deac523aa9b09d148affff06ba40400e09ca900"
      "db770e07cedf5cd0647f6723c810ffcb59",
      "2c17a7022f6500450e86c8afdd60d3da535c2322fdf84f3dc67429e6ad92673f" },
    { "bef8a47bbf0ffc4ab56ad5d9899f42b6",
      "3a2195a5196a0d785e04b38dd62f056d",
      "5aa0dc37e4db1de35789398b25dc656d05cdc6737de4e30ce944b304ec752bbd"
      "10ebfa51feff99dfcfe26b8526cc9b0cf1ba3d1685fb26cfc0c8888fd3cdf555"
      "77a516328b289eebda2e14f15eeb1d0f4207efebe3803618d43d99688e6c",
      "a4a290a0d719b1aaf58f24152402b2f36957f44ea8a2d76b045390f5e0a3559a"
      "8ec5b2f871fc6095152183b7be7565d4953b593f854b8477e29ce0cdddce5cf8"
      "739ab56288c26c81921f1fbae38b90b287b4622ca8b5b6c0b4b02196e73ee56a"
      "f6ae427ca7ae3ca0",
      "0ead975179d64f2b927440bf9ef666ab921e7a3b0832949f31315c2931451c5d"
      "df810c17ad0330073922c07a18eb665aca01c05de58f7d159a74884f9d90cc10"
      "dc8c017ab61b820fc3dd32be52f3f7265e3a7a912a230b2a7ed19992e693",
      "f61ace25382fc3f88ec63eab23a6f9f6d1be65d149428bbb778a77428f909863" },
    { "01f1cea5b7e20db64a67502bb4715033",
      "7336701bbc2d766167b57c452d010f02",
      "b3669d31ef8040dd6f462624977d69cfd1869fb19946595759b7265eb98b51f5"
      "79fddce4bd38452fe3",
      "d007e9ce654ec9a8b44e3655dcac889176fbf8012b133c4effe70b716eff4326"
      "4d67d84a3d8504858c01002957cac6eb75d94635fb708343a18e20615e4ecb96"
      "3bd98a8e7bee66520fba5c2991541c1e7863c1c97ae7ba6c3c34f1161518097b"
      "6e75dcfb3aa3e93995eb39",
      "4e643f7a1b8c0d595c8ff2b00c0145deb5bfa13d8a1b75d7a731f2258b690e1a"
      "3b2ce2cbacc6d05c42",
      "8f33c6494f971462bcf82a508f341905b8febf9a9d25363ce853d59230d5e60b" },
    { "76d53860e1c45cf60d76d8336948e337",
      "579c0f0993f13470fa301cd4c6fbe99a",
      "d0f5d2b3b824fe01ca36d00d47434519b2112195093a06d9d07d7f4f9c5b8f2a"
      "4c68668265c40d6edd6e12b5a350e4af11f1ee6226bf307a1a6c25318c0d3aa0"
      "421edf565ad42d524f69d0fef06c236c1f0d0e50261e205f381c3e1196dd8827"
      "b9990d674288f8250596",
      "a7a77cc847afdfb9dc8ceccc621462302f31233a830b3827ca68618e604c95ba"
      "8615f6ebb5ff1c2c66727e70c038554619f96f79d08902fc70111f853766a2db"
      "04e51d",
      "def4fcb75110820298f08a8a4941434deccb952dec01215f5e7f5a2509fcb9e2"
      "a994a77d5eaa617da9cf2f03483faff5831506e5617707b88e08195b6a993219"
      "898c3ead769ebaa002934d3c80023833d7ce4a7a989596de6fe78eb0237e8caa"
      "b0a9fcd2625af80caad6",
      "a4a60bf81cb2ce55df3c5864eac4c93d7748010a1adb6e5110d389e0501d7004" },
    { "cd05e08e14686623fd334780439c4ae3",
      "d05ba5a655bf7b1be7500f205c9c80b9",
      "021c20518825c167a746a728578a0f470b2035c7b39c75f3e492bcc2e6e96035"
      "c4fff65dfbfa93cbc7a37828a0cd62bf1b20b3bb89425ae647e021cde586f652"
      "eb98c98b1ac1018c6fe3e046f41545bbfdbf94dca48e465aaed8efb7eab5ea14"
      "3e5b95b72a078f8fb58d8ecfdd9a3a968e2468b6",
      "be9255f750498ce672c877285e649318bd5bf07cdc5902b7de61a8415b6fbf20"
      "b1e432ebc9f8f9c8e3094ff6dffd1b1e0c3cc5",
      "faa851ddfe54b01cf1a3caf34815c6db0145ddebd1f34ca9edd479bd4a3bb4ba"
      "c21c2b5d365ff4d389a764bcc1436e51267ed3e4f225b7cda1fbf25d221d91b5"
      "9aed0b4d20f71859f41e85e15a02e2bcd59913d8ae019d1f01ede317b4ff94ed"
      "2b05650259a705c3b2be2c2a9c82a4809dab7b03",
      "83b60061bc457578effce5462091e0a2b1f8ee35dbdb6a6b17e4e6179df6eb18" },
    { "6870a5652199e2f17407185bd7cf18eb",
      "942988922482351c317244b26587c560",
      "49b2f6765f7f552f8704671271d703b3b02157f71ed84e64481be8bbd4f3493b"
      "fd3f313ac62ba4e9a7d86288533a7bc7a4257cad5db04bb80d6574e473519ecc"
      "d15cd2",
      "6cc34a81ee984b436947b31574473e0a849a341db0ebc67f64efb39c9e118f65"
      "cfb25d1d898b4ee8052f700cb43cbe744d70b71d2086a89ad12dd67feceacb09"
      "2a861ba80e41808c625fbdce017d51916e1fb5b38b0beebb27478d8390ec79b3"
      "f3902a4ac22d79",
      "82d3ae3aea3870e40fa48da698adcb596eb43fb063866f6231bb744b687e32e7"
      "2117a03da08a635e4ed0f255f28f3db6f0b8a7238d0244994a507fe75ddd1713"
      "8b0605",
      "a3feae07a737428751dc2c92301bc012b0d5c9c41a7543d248d6213a90343565" },
    { "15a87aee858f5723beb477b2cc039d14",
      "6ce71c763784e59fba852ae39b25de3a",
      "25d1d38a8e9e8c34564abbfcba69035ce2f78df8626543e7639f2f23d742853e"
      "34880e7bc6d684ed3075abdfb91e36076242dc53d60513333f59d139e680aa24"
      "6b0e7e6092e8d4e6ab471459068c2a83b07e8b7969c911e3bff7558caf02b3f3"
      "e6de7ae9122d533558868d993b8242b2328834a88cd656a941",
      "26fde5885fd22bdcba8b5c1b5f66d09c7da7bfef2790e6dd2a98a35105604449"
      "5fe4",
      "2e241f3f96e8bde7d2b5cfad94461d6c7282405c77918a2a8731711175211814"
      "e20e72ce01139643f58a2336c05cc27458f042ff063bc73fbee2ca8c099ff1f3"
      "fbe8517fce6cd3d54567220218cc67b4ef52767f75fe514e8ec49013d9fa7876"
      "85a5a81efe550248f342eaade9cd61fb5037634f2bf621c944",
      "694a5b5ae2081becf4d38b2958d3557438b9f04dbefbe649baa91924e17e4d88" },
    { "23e2250df6b870b6eebbce928cd1a80f",
      "279f73beda18846d7170c29414590029",
      "9cdd4e34495b4a03ca2c5bef9074c1",
      "f306eb122b1907b4b6bccc77984ea7be4a28f9ca3615135d4c84ad74d7469efe"
      "fbbff997bb495806a3d9ab274b4228cb894fceeb24c4905e121efbd3ce8be668"
      "dfee4f9e38584ba6c3374337d3c884cdaddcd96f63df225ddc879e0ba4bce012"
      "5dd0",
      "8821c6d2c36ae97bef1b9d78c1afba",
      "155b5b0c92176ed1a2248bc86b04570620e97a2a601a3d730d53236f43696c28" },
    { "82f02cd289d07f40acf9a1d2b1cf7f06",
      "09162f09c3893bd2c5e4f2c8f6ec9930",
      "29f1d0e8aef96c9936eb5bcb32b0f751b25a7a46d4cc5a33d5f96dcaea757b2b",
      "4ccb0ba7f1b2eecbe3dc3ba47f797201ca656ab04e5b38df9b95ef24ba02a5ef"
      "04a9a8122f954048581d275e",
      "6b8f329fa3e905b7c0df490f18a13ab3b6be6701cba59a1ee7c12d054c500e58",
      "8c97a1010a25a9e9047d4dded0235450f488d3c18b460316e5ef5517edc82e3b" },
    { "a28c7a79d3d7d7b372c5cb4eb66201ba",
      "3c27d1ca6e8fd19cbf2dbd81c87d2ac0",
      "0ff33640432edcf34a2df2527ca13a0340d5adcae1d10589edbc89701f5093ef"
      "eaf6d7d3f97a778052a76a6efe7b37021a4fbc8205f26f17dbd0c68b60c6403c"
      "4160985255aeac23c3bc88b1d8c11fd4197ba366962c",
      "96bec6c8014708e9142a8ea0fd496f89f5a2414f4296ae0a185b13f362f2",
      "f20be34587afaa4300683655ea16a292bfc7f2779cb771e520c6b0952e41a2b8"
      "9e45f6c4b571779d573f1383b5e311f71ca89379b8a3eb9d9cde72b16e0f7820"
      "58e9bb4df4731cbd7c67af1c459061ccff149da3bcdc",
      "d9dd91cdfc19da4a95fca7229f296a74aafc0d78b2b398e7dc089cfc6309d281" },
    { "24d66092958836e491cf974f34ee7ca9",
      "1c04e8166ef37a2a5d34b4462a7ca8bd",
      "01a77fb558d8d94c16eccc82b49f53823597272de8e6df070fefd202042665ef"
      "5788bab86c70dc3e571e3b372654494e552ef00462bf0f7fdeca8efbaa51f3da"
      "63e6f18fd13a4668b7fb1a89464a09a17d9ce709b0b8f079d6bf93ed4871c0",
      "3c082dae68ee1cd6b8d1ef79593132e68e373eec746d13583f28d42730bfa18e"
      "d77ee83ad6c3db24bcda6d5e2925970dc01d1968b744cf3753e597ef831dcab7"
      "28ce66ef3da0ab872cb0dedf77922a57abfb",
      "47ec41abfe34c4ece7ff8f3ba179238f38f3e527d97d7f3f6ada79a9609e715c"
      "d0acec31f0a0df25c7ac0bb894fe791cc467a098710e92af75a14e68d9241c16"
      "0d4587f7da279deaa9cc9d9c5a6e97b231021ab2ba9c63473cf269ef294d1b",
      "807d350484ead90c1470efc0c6e334999b204444034151c3b80961faa4b821d3" },
    { "78f67aada609c94a7c79f2fe9bf9c82e",
      "9ad46b00946c799b17b683ed3d920896",
      "3fc884334f762cede042a56b4a89ad9eaf474459371f2daf7c157a352cd5ae6d"
      "45662593bd3eaba7bf59ed569429c52153599f02e3263b2784be00e52e30d034"
      "7553fe8aa70a071c3f2e34593d1e78692f9a194800571eaaeedcf29707844269"
      "59e0",
      "80bb105971fd223f89efae15ae1b5e252c7e1c761b6abd5509d8354adbbb5007"
      "928763e715aad67b2109ac60afc73e386a75084c77a5af1021ddb4bc636c32a7"
      "0ee95c6ef5eea9cba0d1c944754f328208ff78f7b0718899bacdf5d6e603e1b0"
      "98acbffc83a86a0e122078338e0bd5",
      "325ce1b0bb065488f9f74f779bdc433da58412b3834005b4661491e7d9d6c2a3"
      "71560ca7d649093a7ab2475548edb37b425c23f75eb1bf79b972714469174fc8"
      "5665dbe2af774719d803c2426f067ae68da1ae0783ae376970055cc28d484eca"
      "e2e3",
      "5f755de0d9a033967a9d23e3357332ad9640983fc121cc9104c8e79b37a9ea6d" },
    { "ba4c7e6a36e4684631fa5ede07b678cf",
      "ed722d3769b33d82626ce89bb4d212d9",
      "ae106ad8029d73ff984de16db70772ca9adec5f2bffb1d92e12412b6f76f8554"
      "63f47f1739d6e9a1fab5a9b7ff3ead419efd7fd7b31a0c5b9b992aa8d0ad754c"
      "b5ba371adfc60a5cdbcae37c4653b9cf5f46b015d31a03e10e2882567d2c4425"
      "5c30f1",
      "1955a221ff4b3f271876a4bc04cfb41449881f6ff3a7e9aacaa1e992a5218af3"
      "294027709c1ec594bf863000ddb7d561ca4c3f42340ee932e71eb8efd1b7dbd1"
      "9f6ef0de28d437355b2b4cd1527cee849a315fc9a35ecb6e458e4af4df07a9e1"
      "08a0",
      "aa24653b20af5925a19e486d0b28e3bafdb240aa984c8b365792443a5411c838"
      "5c8197d0a13f1a8a7686c02cc0f7adbe1230736362afeb3c0ada988dec6d35fd"
      "298768866f64aac8dd560250e27bb1007a3fd4c312a8ce3af4af9ed27d5859ae"
      "56a3ac",
      "b06f562123bfc9c4e36e2299da0d6987c2c191c2486ac2ff9e2baa156ce6cb81" },
    { "639668e0b0fbb192b83f870048d29c1c",
      "48ed7de6da13ba38a1e748eb9ea57529",
      "1ceca7",
      "604b7b904ba56e1f2d17556236150e5bd19ba125f92e9adef0f75b38356fc9a1"
      "851ba34105805cae7e99dc7bdcf8744c44f06e709c345cadcffde348d2d55c5c"
      "36cf5ee1f288509e7a878dc00daa3d9593afafd7a0d94fa78960b3ca9fdb2b7d"
      "5746d1f4702080fadaf0cd6785373a16ceed056641aa4afe725e",
      "0f5286",
      "b6b24c01ae14d452da68d75693fe772340ee1310d329281370c6c54231372be2" },
    { "94b94725497880ff10d89572b62d1029",
      "bbdb56d8112d298fd5686b93787e0011",
      "f062bbe085b5f49ae4064f9ffd",
      "de189cbb1821775cb97888f25d4781ddb82d4664634f41",
      "d317f2a31eaa3f23e84fc3eaa9",
      "5098967201169e8ab8242b8e09322165127ef2155795f62fc1e55e6a72363fac" },
    { "8e6f1217eaf84aee8e5897f5860f184c",
      "a4e099068ad0b67f28b6902a40921dca",
      "53c939f8d167e49980f8fd3ccc4a2ae3",
      "4bb7fccecf15f0b32be37860507fc53812713194e2844855894ef916abbf9b5d",
      "92e47292a4f02cc22d3392d1b6a089ce",
      "a3eb3e03808499409b00f0bb635c6fbf12062469edb45f5bb252c08748e131ed" },
    { "6968acc00e83184e6024167672c5df8a",
      "2d5b193c93e8aa5302fb5bb20cd59504",
      "bd6b6830",
      "7f4e725f4b0f84454e823b8193f1d8b39d78a8b12f1a2250beb0def895dd0aef"
      "8960652c071a82d9ad89910d97287e72848fba1623f441d4955a019f5c1a955b"
      "054db858722b1f15210c3a752fdbd2bd631620cc56c2c30d78ccb16272eeeea1",
      "c01c9b02",
      "9910104c7d6d91e99c167d027c4190701a21c2fcadc9874b1744cfda7b75b8c6" },
    { "1e7e0ef737799bb1e00ccd4e31da5ff9",
      "9d1111da7d3d329ab5d824404e4bdd60",
      "76cbec797c2364c6ed70901db527c6a3471a84f8d297c64c9dbffd7c3204503c"
      "a6e51c8c88757500ed503ba86d7367baf6b9f3f5f2b69308bef97232e67698ae"
      "10896ed70a66a7c40115770f3192b9168f66a359270c753bfffc549658fc7aba"
      "3d3943221e125a6f88e025cc024b753693",
      "7e6c97d0fee9f249c7510c2a0abf9530ac49cecfffe2ae37c9d38ba60cd012d3"
      "e00b696ee54591",
      "b04070df9cc5d032d1914eb69f9afeda61559ed98c7e5fbeb81930b242cd30cf"
      "097e4130b0cc45b3e3178ba5ff2598493e1d1fe22fd14f3cc2de08fd8cbb3539"
      "d4c71c606adb7826c2a9e05ac36a6795293cdfab6d07fcfdedac099f1ab9bfec"
      "63a32f7633e424e684ca8744b4ad2288ed",
      "a0b933e1a706046c38967971e50c0ce9ececaabd188092313c654e9f297cf18a" },
    { "6dbf15415dae57093e6774f4a1b7e4d8",
      "bba38b490d740d7b3df0c9283d4a530c",
      "fafe1562e69a0f5149e0ee65d14b42098a8a53a58d2cf07fd86f6c64cc4e67d9"
      "b5cf3655b5ed7f722d2073a3e9cc8372efd9620a32d6443a328436dd5ae39470"
      "0ddc171bef8cb0674b1fab87b3e93aa426aee92c7ff733c33f9e4e49f614043a"
      "7fb42cf657e4e3c2",
      "c742a929d2a766dde0fb0ce2d0faf790bd6c5feb63cb3126402aac7ef7c9ddfd"
      "408cd22bc6928a9b67426e20c3d9b340cd7231f87ffbc29a8e6c23602b9dc434"
      "f5ab06bb8c049803b45cf088b919e8584091ecfca7259e0d130ddf4ca45d4429"
      "1024446f58f1271f",
      "d8dda53eeb8b375930698379836e64014c22bd885b5b5cafb4dc65ed00aa947a"
      "cb2792c46dfed8ecd155b21cfc98ff163b403e3a9961805436678fd349423540"
      "94bc47663165341ed0b949c0ecb4da5499c1c8c87eab99ddfd0fc2d80a9a5204"
      "61e3dc402c3d4b4f",
      "f8e4c1f827d4c5dbe00e7794effc567089b8128a5b11e3c6c2e5e36414b4618a" },
    { "a6d38f5cebee041a0afe035caad48443",
      "cb7e7813c7018b25782f77e0ae7c84c7",
      "6ef6c5d92f3acf78b3e2c8334038f364a51193e4e559b1458dd74c44269e69a7"
      "a6af22f531680c63270b22ee71547d72abc9b87bc5639a1b3a13f8613ad4d174"
      "2e8209ab",
      "d536bed277bbb5a9",
      "457fff7d0e1b61def59fbe99e81c08bc370bcac0240c9cec6d6a0de2c37f9950"
      "f5b2d12b8b21126af18d757c743a2a9bf451ebcba235f9f48c31a63674f0e8a1"
      "c5af5094",
      "269ee12821b981d794399bb759d233db2d60c1dcbc3a9a87dbb068551b032f1d" },
    { "753eb1d49c102d1e3a9bcfbcb1cfa369",
      "0e0cc4395844d363ceccc8a07a92a2d8",
      "5166ac0bdba2b660af164fc847e4ad300675cda9f0acda47567f7952eea70848"
      "32f6dbfa0aae9f403a5bbbe307ad40845cb08347588063ad3f1df766790c023f"
      "160ce21bdf372fb48e0f7e2ced50cb3f86c2fb257ad7863fadc5fe6992bf1c45"
      "08308b259480007a628aacee94c258c91cd847f3d05251dadb96",
      "5f590a65034eba433e57a9d089b2924f5f8482db6a467ea435478afc",
      "f2fa7ed4fccf0388b7bb291977d2214d03dd30c4f81bab2df8f2c1cfaa46ff2f"
      "d14733cd7b8fefb6dd020ecab3eb478d1fe0b849e057512fe7b897b171771a2b"
      "68d7fe6d9b70dcfbb6307dacba5409b7fdafc49752e4392111474388afb6d79e"
      "d21a60c59234bafad676f88f7653765b4dc758c9fd930b2632a0",
      "352c935b482696f9a4f40de117ac4efe5c38952c8a45e23242a86c66e79f7f4d" },
    { "711a437629429db2e14058e2a826dcbf",
      "eb036d6e483a212ff6ee25d970fe1ac3",
      "29937c0efb36ed27fe7709d7179b4f38a2fc191b5e8d9616b58f6dc9ba2ab74e"
      "13bbdcd233e8726d90f7ded06c3861582f27158732f997df9091446befe75855"
      "ab05b348d68f96e45445f44c31e9ba3e4d7be96d9c8e806535e79079139c71fc"
      "c599fea8701e0c2edf606986eff1535afdfa51d1be2dfdee",
      "",
      "4a61f5d6b8e746bf6fb49ca2b16c22f4e9ffcdc89a3137b39bf5445fb6b989d5"
      "200f0c8d5538891a5e8979b5cd8c734128b4e4ad98b0cd598c40ec9be74725db"
      "ca84c65a52f17ac983330b0b74e4193540f6357c3bcde4e8d8fc6942314ba681"
      "15bf2a682756e3c42008803a81532708a0e7b5e3b8436145",
      "4af113e2b6165247c2760ab445c6985306c81fb9ccebb8df0e57b0b044c52736" },
    { "a26d6028473bf7de23851d00d514455b",
      "05b87c16ebee8bb62365d265ac6818a2",
      "baeef99e6d4d15be9ff68a5d94aee7afa3d898cf42f94ad572b0896597086585"
      "34d198dd3fba47a48611e8d78dad",
      "5d77dd8066d3cea3b0762602ba6ae3d1ae1c27d1ebe70bfcdc068912def54536"
      "2a5bd2",
      "e4365eac2e7b5d02e7fc6c110895bcf193a0ebe28e81d0f6128a95e3e9183582"
      "ebb964d666972bd7fff8cd3870ca",
      "515045f7ad90ab569a6c8b90808d64346334e71d03db18d07d19f40b2b94fc7d" },
    { "9bb0e363275374f1771ababb7b96851c",
      "08cf3a6355ffbe621ea874e917729d4e",
      "b380355f794d31e6e85fc81a49fdc2af2104471609692f94c994a710be5cabdc"
      "9c9a61b94fc3f76927c1cd5c9a5355a0e8ec55a69ef114b3963ec95137b9ff84"
      "240c2a71d3b3459056d1a183eae21cc5a7c109e937faf8f61b6232fa30951f03"
      "0047d7555b60f85a318833afcea80ee4d88a98",
      "a7fc199cb07b6e5e498dbe590af4a4d95d35b043a97d52e11cc1092c70250112"
      "e070e49fcb8a3e7bbfca3d0c4467ba332c0dad277a997f2a603fd2d016979c24"
      "b3870a",
      "f8ec2722a9aa97d0cab77f7833e6bddc9570bb79a159feec2dac9d2366e7eabe"
      "b9d74ab53a846fd8ad052a740dba39801b681e4da903939387ac3578eec4547d"
      "c97c43a8824db11cdae4e7ca8330c9a2d4249853a7285c54498e59d645546a5b"
      "b5858b8ddfe37a14242d9750b02ccb41b92bbf",
      "1f6822430a2fea84595ad870c833951814a0792cce0cd414bf9f744bfa7c9f72" },
    { "7458fcb1fa1a886924a044eccab9c5b2",
      "30565643aa9bae844b87bd459628d093",
      "4227dc17d3e0ec8363c84b989f72d235d3991e57ebe8a6fcbcab1053edf3b323"
      "cbf5f5f45aa142494ab0afe78c",
      "d07afef73f3cabbed475b69fa30aac8af674b74448cfd4d6ecb0c5c1b5b58d0c"
      "7173eaee440be65715d780d61d346dede7c52724bd76207ada9a3707c1326dff"
      "efd04fb29321db617d12b4a607452a5b197460bc524a40672628e5b9d45f821a"
      "5b",
      "50c568868de4b49df40d33e6b25abd6b2dfd2f22bdc12a18ee2407dfe82cd3bf"
      "a2fc344c91ba6544e079446073",
      "5d9f885ee5dafd1ef4a2d0a951941f1d03acf8adc3652ec34e5b6ca4bf7ed18b" },
    { "68df4e697e83c55c822bb3637bb52d54",
      "1b0df23e69aa907856ccb9ca4d6c51b5",
      "59242d6e2d7e612d2aee7e8c08f53f172e0f93d57b0c08e7cffda90da5b2703e"
      "ed8192511f6f1bd59e9ae781b4f1156ae06ec38b5bc1f5dddefee49f561d692f"
      "832030f7a1b506c0ebe26447b3eab68172e7e7810b13d425f6c78e1d6591cb4a"
      "24a61c5f9554a083283485175c18cf5df4ecf2f87c98615de9ccb3",
      "fe9643236be4e7aa3998f44b4336a4c1f8fec28e17",
      "46e15eda413037249e584ea1e3007166d70bf9c998ca2a8386bdb8efde70f3bd"
      "35a9b0877e333451f7789f4d8b4e797170445eef5f818bd321574e66b7881cdb"
      "546eb5528dce75cdd1683e715b2ac7ad259954bca62d8f0f0066fa6adf50f9e1"
      "3dbe3ca1e503957cb5f8a2dfce0ca7377ca51989e3d8e5275893ab",
      "6afa564c9f5a650cdd7284589134c6c1379fb798af9330bec354ab1221539e86" },
    { "a4b06bbf87393d2b921dcba697274f07",
      "5c14d51c52d95ac040e1060a0ffa21eb",
      "8c85ddd8d3f446608e656052062f0cd58e6d58",
      "847d3b95895426225d08865cc9a329f6f14e63bc5a66fb6f2a05bf8eb9bc8166"
      "e6fef29e1d573acdb4c3bc699daeadff7df5d6e8dbe2ef713008afcf9b6e97ce"
      "6cab4d90594fa4430ecba5bb62a7938f03d57869",
      "cf6c47fec422ee29226b6cbc5092bf670b5434",
      "0d57758c68a9524557fd6f6742d24a00467846456a5bbb1271e2a5e8c3ccbea3" },
    { "50034800a878a3e570364540fc862b77",
      "bc92f50c2630f7fe354399fa9a6fc48f",
      "23a93e636d1924a60f3461de1020b73ba18fc3854c9dc9f166d7d4d1912503bd"
      "f1",
      "23d5009057b76a00d92db6b280a3a30ba08ba3afec6312197f06ee01dc4a22d7"
      "3ea010e02b65af7968d8977f9762ff5a6dde278d8b351d3b8efb32cf7cc8a70a"
      "7a8b3d79",
      "2cf9f00b66c63518354ea59510c178d75499866218eb5a031a0dc4d743ac8c05"
      "c9",
      "7681550d340ca003acb18bde30e7a26b23022f9e71dc0d7801ea6e9e569784f3" },
    { "d68448b73ae9bd161c9f1f36dbf6163d",
      "3345d820331958c63dd7a129d3ea0de1",
      "ffa236070dc5b464eb034a9332041a014cd7852b498be2dc498dcdab4151d71f"
      "47c7a6b17a176c5999a7574fab5ff469cd02226492a38693eb2296a4a7cc2857"
      "b28b5b61",
      "c790bb04036883e6e4a6912a9b0afc36607e12b0d457d4b5f6c120cf0c009caa"
      "087fc2710439",
      "1474d60067d082706bb0cd823b22582ddc0fd68412ea0e399b03988e616ac5ca"
      "0a7a8da6e6fe29292b57046c289ad8a52360ecd19655bb801c6eaa2ccd66ccb1"
      "4c4c3748",
      "a1d80340487279787a1dcfd1082fe04d557c072f9b558cc78c956c1b06a0683b" },
    { "519fee7049473c7c41f3bcf7b2f63a69",
      "be227d2bb97f2eef62d5fd9203cb63a9",
      "0c121fbcfb4f4f8f150281140e49d71dc5ed82ac4a30263a6b2d92c55ac6fe4f"
      "43f64c0f526d3df642c04a5c51e58703c381701b1f4618cf66e27c60dd5e6558"
      "b48028d5fb11339c4f2547a3aefd8100",
      "9ebb3c33eda54164b54bf95d4fbe113333edb0fdd62c24532fbd4cb91b11e08b"
      "1e74487dbb0f3daaa08c566e759d53ea3974cc3685ec460e608f7d01fd2dc23d"
      "9bc283c73ab492bc9fa2ff458d268667504cd47e585826",
      "c0e22cc3aa610bda350a2ebe8f530c05cafa19e7060b064c276a06f0bb430b79"
      "839c51e6b22aabf429616480382c86f8c04ea397c976bb08caf8f35c38208e47"
      "6787ce229a7a300c5411471548b15d9a",
      "7891d41aa7d6f935761dc0454a7919d511f629fdc3f38f4932eb0148d870a24f" },
    { "58bd2c73aedb31baca592e42d614c68a",
      "bbf76585731b6334fd314e771d9e404f",
      "d238c5f0677c86c001e66691ea9eb8aee429fc490d38abccfed3a546b5f05398"
      "288e7232880fa3d485fe3862c5469f980d9ff4caced1cbbe7f97adc15b691987"
      "6b8cbdd35320a20eda8a1ad6e853164b0e0ffb2f702e1d6a0eae8b27577bdd4e"
      "5a17e6d8",
      "86147d2debc30111b82c1ccc41a13dab1aff144bf2810695a40d02bdeaf51966"
      "9a1b81864edf",
      "94fccab0dce48d5aaf42ef59764cba95b42410e2d6b2c87c95d8dbc15421c45d"
      "7a556e25296df9167cd46def7d10602aeebd0e7e909c52ab7a22f833e976fb76"
      "b9b39b1c2889587582d44ad8f484f0382804d7481f1a8d6c903b13190c213102"
      "ae273378",
      "67a012ae5452dc293645179c0fbe23d2f79ecf435e4fa09208ddf8bbd8bf8b37" },
    { "a27d07b0976574c43edba5619b3c1f27",
      "879f4114bf61f1d7b487bcdff6c90778",
      "302994dba80c2268f5b1c77bfad0b780a9be6437a07dcf1fee61e8e72f7fd3ce"
      "ac24a01be486a2eddc901a19a0f10eaa94cf46b604f98a90c0f62fa6476d27a3"
      "38bd046fffc26570",
      "b97a43027c5dcb8a95",
      "633c76783dcb88ff677a6f567685ada02d787eb9aa3a527a45fd415180f1fc19"
      "cfddcb90583621c2609558703c7c5ed548650c98e591fac7a692b1f921284ebd"
      "8b86d3a1f26f1ad2",
      "1f54a298784b2ad47bdbe5c982b51b2eb5f8c96bc4b46a57dd703dbd7e1b199a" },
    { "d55658dd1f27af02885d0f431fb2ebb2",
      "0aba0b9dfc9831aef0203bc61a601176",
      "05805491b667d9ff38147d96493db29441e188243f72668c7ba61b",
      "df403489e3bb67eeae8440569f6fbc1ae072305f5047c5105a7e4e5349d3732d"
      "75572298253f60e3821c721941c02dd761edfb081d09b3c7528a0e786a6fcbab"
      "709727e7d614ecc604def19c78fe061040bd636d842b16e96158db07d6c2521a"
      "d54778acc78f12b450db0474ef700dfd547f9c5b",
      "2e8adbea0e9ef5068fc3abb39ccef59616420d4fa038e2f35b560c",
      "d1f27edf1046f8ad30e9900c43a317744dadc934e6ceeb63184e0663ba80df77" },
    { "adff46e4d7d78b3db5c74c712534db37",
      "c54185637dd281ebf672393cf9bad28f",
      "b3850ad942e221753e4bf30140eb5569cfd9972246b9a6a35f7a8512db333aec"
      "59d380973d6a6505d99cb004dd47b33e32f4f238b1342e6756d3619414c31bde"
      "45",
      "59bc7a834189b930c8cbff769ef63b5e1a08c352ed779853b36bcd3d0ca7b4e3"
      "5bd6cdaf2538ebf0e3a0d7cbcf3bcd2b66b910967c226a1da42f84c4a8f81e19"
      "161c6593e2c0a0fdddd3c6ab3a864037fbf976e8aebd33d4450be9893da2e37e"
      "728916b663944e3fa6ba543d1010",
      "5cc93a30fd8f71befd87fc50112c156b53abfc97466f36e3315915a7d4147f0b"
      "3641177b9d08ec13e7315957d078ec73eb0a93a3b7a51e3db63a396e6ea2adfb"
      "a7",
      "9c14e5bcf26a00fa0bb04256cc32736d0f2300ea93a51f8e4ba69d15ff11121a" },
    { "4a5d7c201ddae018edc9783413dd0329",
      "eb7e038948d3bf61d2cd29d2fe722603",
      "3e6a17d47db58690b895619128645a2782d17e9a3735c1450a7c8e13a9f21220"
      "8fcf256f",
      "65b8cebd83d3197118fe81dddce22b3947653e04a48d05b4a2dbc42a89e62b0d"
      "6b61d5f31487af",
      "a1a858d13540281e1d0a9a82e3caef64ff742e51b1f7476d318729508a68840b"
      "371fd300",
      "62b25795c2cfc4d7f8c1058256ed2d0e73374f8e33a106319a67778387150217" },
    { "83190fd90c68cf63648dbc5daa442e3e",
      "3c3683fb5d3f1446f8c0d0127fc59d5f",
      "a5136deb0a795dccc18889c23e9bb21640864981a4ecd903e8fb62",
      "13066ef4f97501fe1854da6e2d57ed43e4c074ad45b7218536e7dd8368a4ee8c"
      "6f2b63199fc0a9a679e2b198bd3a43e6e8bbd6",
      "0c8cc3bde1f4933729293718686301b1ce50f5e7521655016f8432",
      "cbfa761976091ca1ffaadb4278f141f83bd6b5270f78cbcdf61018a744ae2fe4" },
    { "05bed4c00afcb8ecacda8daba02585a1",
      "ed014d4e9eb504c70d5d3153473dc146",
      "6fab5ff04c5a74a0a96948501de9167597a42fde4c50ab27719dd1e2b0e0fc0f"
      "e6e48e97c79d2a71fcb5e7ef60c67a32bf865decb39bf5ac17969177b2fac849"
      "a38e08bbaa3be0d6dcee9ff685ba97e9b54514624d51c270065508c03e96f286"
      "67e3c79f6a68859a85048301779da7e2254b1bd1662ae3ea15e0332c",
      "ebb614315ba4b7d69632656d5a4d2810112862ea3e443148100bf2e89d059bc9"
      "e2d9563bf34b823c57108ca9a88e4b07441f0ceca4713e2af56f40f35d6f2223"
      "d37e9eeb61739a65933712763104a67488d2022a5e033e240969a4d33966b452"
      "7035eef0970c69660ab3ee5c00ac815a9ee52d767b0a937b",
      "6edcebf7ac2cd10be8a9a595a00e68e2d3127f5de640323791229141caded658"
      "e99fa59539077027ed7b7a433a794bd523ec59f504978964d3e17eb388956e43"
      "395ec89b252a93b317c64580426d1ab0b633a972524084be5d4886458718ed42"
      "f47967eddabdf7b2f440818e0aab9d932c10a4c7283d05b84ef74a6b",
      "7be2b003c341d5a7d1a7fbbefd6170d8be25e785230bb6adb70785416eabb281" },
    { "53e1b8de6176c05e04f5a4787e733b3e",
      "574de8c0f914115c9267f7852280fbe8",
      "0ef099d6995b41d4e9227c3aa59da313160afaa32e1753422c1eb45bf102e806"
      "aa996a54606c78320e85da74deb39e8b0059bffe32780ec784abf6bd540d3c01"
      "e9f13c4209bec2",
      "3d9ca3718f31b4f37f988ec676fc3b5492a44792d1a4f8fd7cc4726fae899f10"
      "2841e7f5c04b2ae2c5f9eb204c5b74222d89c2bd36b1500b2dd81e9643142bec"
      "ec1b88aa7a0d7ea4c81fb7e8fb37ec1a58e0383e",
      "5cf9292077dbcc9557a1cef51de815facf02a89c9e29ac62098c8e4d0cb49c4f"
      "55ed55dd9dc9c36a634ceb8f4dd475837582b9be1c17030c0546b335be95fded"
      "1c416e4599851e",
      "782baaaec2b50b6bcb07d00c6eacb7fa8ac084113bad5a1d6dbe8c80340443e8" },
    { "81118e9376e515a93dbdda15e58ff387",
      "75a0f02a8e78a0d2d0097cee863aa576",
      "f30c353db4dcb2320ba5fba118e50526800fda7ebabef05bdf15aee5d9b70f2a"
      "b697937d77a01bb4bb460fcc4233acc3b970f4f434e9ea85f30aed7d247115fc"
      "5db1c333ac6a008dfe65ee02b930ea097d046f2923bf84785d47f382b1965194"
      "8d69a6e4b861a7112c4e1804f6435f70",
      "6f75857a795e6aff71994dacae41c2b2d9d6d7e67fbaed6d2e20bf89da461f50"
      "9ef3d284341a8a2059ef1b97e9e6820f1a72ad703e71999be36fd7156d3e3f35"
      "663eb4db44a858e08bceb154af51360feadf3bca8f20",
      "0376339c7324168426dbc1f36ee91603f844352817b575ffb25ca6a75e2d0f0d"
      "77d853230b7e5a4823195c406298bc3781b40df001d9cfdff16de970df4ffd0a"
      "a652fc7732c6311e2665daad93bb2576d43e1a58837513c62a8b74cde75901f9"
      "520a29a10e4dad9e4aa981c5e72d6cc0",
      "d5db09ad858cbf4f860e527aac44bafedcfb01653818baeabfc8efeec0e3a9e5" },
    { "2d60824c89bbeb4e2b72434aa0356587",
      "20ad2c51679a7246ca6d0a47ba7292e8",
      "17aa9ed83ff674f959085ecde2a6c5026325265a143d2c772337056a3c66abb5"
      "d742f33be39697194fb1",
      "283fa29dc399d07116e43c85eec0adc8a76221669a9bba6554f8e828b680",
      "40fddfe3b15925fe189b25aeb6616538958d43f0c64806f6286a5efc8a4faee9"
      "8d02314eace7619bd2a3",
      "4d9f99a5248b8c7ed7ecac6397969bb92799a3e206239bcfbca54ca2b2325f9a" },
    { "e2e2a29db958c6a3f68a52825b844c2a",
      "3210fe0cede911318435fefee1d921d9",
      "45f5fc3a",
      "91209d1202574e",
      "2067b789",
      "8869621138c4b08670fd8b6ede57933e4036e9c2a635e367f12a4dd7b19e1d73" },
    { "24affb4e364dfcb9be823bda04cdf045",
      "d7db8f0fd20b87ea4ad5e85e026b4b42",
      "296e2b8040a3907fbd8789f660f85f3b49c6050092029a2b",
      "42f31798f0016547fc9126a6919c14fdee91bc68f839dabb24d2249ff5e001b6"
      "a2308b57bfa6baa84e635123e8c2110c",
      "3af391d72e60751b10d3f009814673d64cb86a0dc998cbf5",
      "388f9d6b3b3765f7361cf130f3418f1d81f3c4220b37046d82ba47ba252424d6" },
    { "e8d14e976fed8be59625b034419fde86",
      "1d3a06b7b80217caa5a4e237c2b94549",
      "fa2d4f764e7399bd346f60f1cee797a9624809373daa3803cdb12717fb485032"
      "63b21ab1d99dfde20d588458993d8c33384e897973a9dd74bb7e308c8fdd6a46"
      "a9",
      "8c0c2e14cf2ed5c7147d8c50b4c28b232a80247344f21a61dfe4065fdc559200"
      "b7a0046e58606e3a3615ff54bb605e7a5f001d215de255ba75366f6be3dd1fd4"
      "858aa9e8904ca99647387b1a17c7ff",
      "9427f3a18a22e801a3d7d863cccf4fc8dfc23a51bffab61235e2bdbae311ecc3"
      "21db38128730818cec04f51ba5f0c3e6b7327402a2a63c95c184f7946756f2c9"
      "4e",
      "70a800b87eeed41887887449465656d777659f183f9cb335d2a253fe09816cfe" },
    { "73e9b0ca8fb59181dac10130454e3a7c",
      "81c9a08c95fb942c42003aff680b11ea",
      "971adb65be3d885bc115724cc33a0f53aa47606e7bd5",
      "03cc2f305af325f4fa14de7ae8e89a03d040e812f0f4a7f82d72441d83b85a42"
      "4f3ebc34ad",
      "18ff36eaf9e6f49530db6f886fd85a77d55289d85fcd",
      "0bde31d7323ac029d9900c897aca4b0d42f33d46bab1974affe35a4095139184" },
    { "59f15a1479f5dbd9c1b879475de9d2e7",
      "060ac95c956235bcc003dfdc92da5d89",
      "a17b5ffce4cc08b23a8b8cd7735e11822f9672691b4dac380835729694f39da3"
      "77e4d3fd23ef7b8b40a355e271bbfbb8cd632481c7cdb67d99d314609174b10c"
      "f370fd9b9ab872346c631127f873573ef61776bb8e154b55bab6d84544cd8fe5"
      "f7611840a057",
      "9faf2f97e14d2be029",
      "3a4986b25ac4ebbdf8c62e74790e79f860c5c131f68b540a7a9f0504cbbc36b7"
      "484fe76713a53f354f4970613a976a4cc55ed7480d5c5acf876977b74e622926"
      "c8309b65a5edd3ea2ad7c2805f2859ce1e2805577d409760b2cf8e84cda70974"
      "78491bab3fd9",
      "81ab6e4c949f5f8552f8a5f067073a0563a4ea6a9ae83810d76937e1a370cda1" },
    { "5dc5206e6145ce81ffbce717cb425955",
      "a7a6fda319439a67cb679b3cc6076dd7",
      "4244fc95829a69089920",
      "92f48b403ce97f87118605d24314981ec34b958ca0036f0b6acef5e20bfddee3"
      "70e13bb2cc676dd8d4547668aacc7dfde6af12727789f6ef811e63b391cfa9c4"
      "a68ca89e6bd978f38f9228dd9c24e968c4e59e3d34963d6ee942f788e0b5625a"
      "d95bd3eb6ae67ffcaf2e4ee9a9cbbd15c40385ae",
      "adc2915b7813f367bd80",
      "30cff01d2431cc61bacb6445d7e3e604de19ea532a2db3adcc1a978d9cdf3dcf" },
    { "8d88268afada2ee19bdc754147d6b04f",
      "119588763bcbdec984a226e9dff179ce",
      "04deb10354489349a273c5cd5d02ee1d71cbda2a20743bdc2cbc48788b9da779"
      "ad2f3f1dec4cceb3132b2e4a1c4302c8f9ecd1d37fef",
      "0f32a44fb0edff2f0d2334029e59715f5fe2b8e896068b8488f43b567c0d6fa3"
      "de5bfa99c6c8f055e3889309e08822eea3a683d6907675b6f0072438be",
      "bda6c7381492f48849c00a86ba72c8162c09981f593547682b88b7bc6e051a9a"
      "b9fa1602e879b8f1e5145bb6192530e7faa76be34dc2",
      "dac7ad31ca2f77427665d8255bb24e7604403434770869ee202598e649950dae" },
    { "0049493db4ab12f83fe50f0fb2a88961",
      "fd0dd2556a03ebe50b41446250d56e52",
      "1d3139deaf1046e234189942c2249a7aee9d644f934e6a203a8a69e768355755"
      "1dfade301cef8abb29d7308c5a2893a52ce6b1493bf2232606e79c0ae51b0a55"
      "cfc0434f2e669cbc56fe7176fd04a1278918c14791e00f88de41d563d3",
      "4c92be6ed0634323014b9ae5c9401f751c5b710c12df357a694c1c25d906ab3b"
      "eb5bbaa002208e787f448dd0cef84d3d",
      "dc3bb7e4baadeb7c32f70cef3144d04ad199ec429ca6b695f87f997c6e5db58e"
      "9d60b34d89ccfe49d5e62c267a871ab7818137f523cde68036ad1d8f7db0b802"
      "86ceda9734b32ad73f7f0eaf8d19c80fe74866c1cf785f44513b918a24",
      "51a9d0fb861eca8a334632ade9f37e319a283d7b33cf0894b2e4e545d01afe75" },
    { "b6279f439261d1dfa4b85151caa60e75",
      "d0b003ce641633d48413bf3bbcde6b5c",
      "39ee6f13a66b4ee74cda034a3bfed3fcf36f101f1e5b646d1c93e019174e4bd8"
      "50417fcd5755264476124a5ee8e68cf2fcb9fba50f872fb1d33a025f8c572b4b"
      "5ff034d9ad77ecd33981bdfe3e9554253522",
      "c635cbbf8eace8f911d093544536f38fcfa14b78b1e1eb069c42a351cbc70b7d"
      "1f5e93bceacadaf0c9198d3b2ffe54db45cfac70c05d4aecb0c801194642cc07"
      "0ed223a9e3b65b735af796373db7fb6e3285ee3fd3579dd74be0cd2937f6f825"
      "dc3bd77ff7674b06a9ac",
      "9787ff29777e12f86c7281c57c5a345278fa96d8fc6ed949be284bb79f97b34d"
      "a9f256a6be673ab93829492159e7ba1a19dc727e16ec57e388447c6616626c6a"
      "f3412cc70432c3dbeafa35b044e7e53456c1",
      "9fb598560f6e1085c32baaeb48e643f0ae1b5a2c3a8ffbc0a9d88821c893330f" },
    { "81d8c7bf41cb0e54fa51899660637877",
      "044d29eb40264aa36b976a766108ac88",
      "4712680db09039894cd72e86db111d63c4bcb62058f84f83ef419cc21e36f216"
      "9ca340375ff69f9280fa60c99d86a03dec4673901a7029784be2cdae3f63590d"
      "a312a448d24eef063304545e553fd01ce6ee088e43c8b02c51b155bada983ea1"
      "aca4bad804406aad3c92ac75ce4c",
      "897f0ea8d69b962913a9a59ca36b65aa7aefe39d3a",
      "1d5cff8679946302451dc9aed1c601ce46a6f31ef17a53af6ab130605cc2a41d"
      "a08c932a13b72983ba8cc58376040cc17e3182993dd593f4fc8f296582517365"
      "6325942e97db98c584ff0bc913633888a0812ea7675d130d690f9fe8d6eb7f16"
      "55de1938fa0163b02c50c8a122df",
      "96887b58e80e7c7716cfc5ef37c2b5a6bffb401733b82a0bd31510613f033a05" },
    { "8d35dc035a1039af8f3dc653857cef8c",
      "a0df1b717a186cfe86a0ac8343e80217",
      "572bf5295915e7b2f817bd137a6608e09fcb7bad29887b9209eb29e944f2d323"
      "1717f9a112e68756948c1fc71dcf6245a0130bbffeef74ccf3ff3860ca5a2375"
      "3f7539b7a268fb08434b73ba9adc385e6f9ccbfd213f812d7b64d8d6d7bfce1e"
      "236c5fd857",
      "94714396e2dc4bc13a6d628563b0db14e189695810a4925a90826de63327942d"
      "b0508e7453",
      "6f2364c357e257e9b412018a1c702f0d0c1170751393b1f73999f77927d4ec14"
      "54e78eda131af56b1b46e348f8775e6a022a746b31ee135651bb2a14e21cbc3f"
      "333c13df02a3de6d5128ff1145514605d98e984c28dfa89cbfd2f0d8bc41af3e"
      "4c73e7ddc0",
      "8df601cc113253733da78d2f06eaba71d45d2026e77c30918ff8c176b54f75a5" },
    { "4666ffed66ee2dc3ed18e6345384e828",
      "8c5c38610ee79b818c18e95ed2baf026",
      "dd2baf24c168f99d1868712a43dfda4717650c26c36378127800d8cf",
      "196a5357a0d6c588acc29f85cf38b78b61e0810feefb965d",
      "a58828aa09a6f25e7d4775ba7a2b303085bd5fb43cd61bcd19c8bb8a",
      "3f54d97c03f05417d44d62925d9a0e2c457fcc8befd1c388499c3e38bf89e163" },
    { "2d5464646342ceb3039a9d2fa406b90a",
      "8f045fec196343f938902e1bf706e34b",
      "260ab30c42d3356dc39837b28f6f387accc2527aa853dd58f54426d52cdb9ffc"
      "0a5ca5a5c00761a7299e72d48874b46ffe18dfaf38f19cfad76d7c9cb4a4cd77"
      "84cfb125a58673972b4bb8c894da2a8969f68cb27fab746f8d62fef606649008"
      "33dfca7e0be03eb5908f12e74bacda9d35b06e",
      "d4aa5263a31fcc8ccc9e1127f7ba6ea2d3ccc72cd7e98e442890ad3f8763856d"
      "90e362",
      "51ede001d1e4ca8a3de43186651a011cd14f4bf93e9375e910a8974ea411343b"
      "68e8f6ce80cfc945ae7d9c5adf76e1c0f93de8f5dc48f36b82b65886776f1298"
      "b36a2f012140da048da77e09e4d57426abe2b894c425aeb2050b0eea2d8f8255"
      "b733bb814abf3ef3d530d87dd7e1504bd683f4",
      "890d5d33a9dfa3807e5e20e4824d13fdce5f7ccaeee1f3448a4b21a085277370" },
    { "723efa25ce1bf1748d86d9da611be9b1",
      "aff260690905ed2e8618c20963e4b7c9",
      "f7e3eb593d3966c015d63ea0e9211beceb8fa6d9a202bb4fd4128c3177c5",
      "3950b62147fc16429392d41cc4188d5c82537204e93edc7abfe7ce3404f9aa14"
      "74ebc4acd8e18aa652a87ee99c2415f9214963becd44720684f67aa814903cde",
      "9d7ee643a2cec28c467d2cc88aa539341dfbc82f72b5d940feecd11d4a7d",
      "eadd8931af484ec1f3c3e18f7acc0dacec73dd80836e03957b595b2022c8ac21" },
    { "784197d89800aad00105ff7487b6e5df",
      "fdded94dfbb72c77ad81b2ccaaa2de2e",
      "b14ad4fc08d08cb0601289a7ff9127f26c4036606a50bdd2921baadffbc75749"
      "b8ca33ddf7b6ac",
      "b82cbea4eaf532d52046bf0bfaf22ec2",
      "a625b4da553686296d5c6f5ce526c4f84c4af779c67cd328c16a7985c9a28737"
      "130da855b1f3aa",
      "1807d55856630efb2794c74810522703b71bed188d5d918b8d265fb12a8bdc9b" },
    { "4dda1ff559520020513e0a8e554da28e",
      "8b183c7e23130aade134ff8e539d8053",
      "e56d6364a87fb7f40af02b672fd337705ab8a02a5fbf2c2a639a872da1689577"
      "4d90658269437160cd22d7370ab0fd3e81d746",
      "675b6d9e6c4c479798038b06561f1ac0dba2ce54988efa3393cb6265d901df1f"
      "815937a6e42db8c64c76dae0c8aba0ee20",
      "0b2f31b8b15ec535c7e8c732e91f4e119bca192b1fe2eaabdac037dd1568e4a8"
      "d786c7048c16ebd4c513324b18ac9ee0281fac",
      "4809fc5e0e21e6344364f0dd59d380740c36c1b1d22e22de5c1190c0044a98fa" },
    { "66dbe969ec0adfbe1b99874de53417d8",
      "13ee71e9dc02d592700c04ca0bcc6344",
      "fb420a6751909185796656a952759b4b794bd4eb98c82456af4f596093f56159"
      "62e62a9ce3fd9c4e0cb31a649cb5c17d30f66ad3d52e16589b174102cb5ad997"
      "3ce03f44cd3776e0d9c538d255ffe81ddff81e06cff8e4d8adef4f08cca416d5"
      "2ee3aade52341e5cfb5de80c71",
      "db499d6cf13840accc40e3d14733662885768f7541b2615138c498b087e51b20"
      "f1c0c373a589b510de546d372a40cad0f92ac3f6f7bc1b85290c4553c83b",
      "7a7786b03d18c1f2edb2d9015da13a327f364895751c32b8ab840079b08e4787"
      "0b4ecb49474d2da2bc0a53977aeb4d63f3b4e56f6a3d22ccd64fbe098fb9b27e"
      "b5e5b1f179ac69eb3d57175bf9ee37345e6f48161adcaa27bfb5363889e38cf7"
      "297b3fb9b41a0d61e751ca5184",
      "18d7dd7f471d491883ad31f046ff3451d02dbc85fe59f43c5b67c53c21cd9f19" },
    { "3a00ee1e8877248065cd26e3b9a857de",
      "950529b19697df5b0ce43a3f429e9509",
      "d6fdd1746e8e7c7b84adef010951f60fd19b5aa74b1a8ab1ef2dbd5487318fdf"
      "7844b436dd1063f10e609bc58604ada5c41ae2ea1b5303f84c",
      "30a5f3a4e4543dca2b4d53a59a6a11b97a7d",
      "06ffcb4a0da10ae1a5a1c5b6205ccf4882a9c796370e7793d9b3ff3a857c156b"
      "3285e3dcc2181d8c0df26167ab4f8709db6870c9e10e75b90f",
      "6127c870f1aad279a83c79ce8226147782f709fe81f8c8740eb47bea34c2a558" },
    { "b611b23912f0c44c8f0a452e181016a3",
      "aa0321dae967b75f958a3949fa08fda2",
      "16320a4eabdcbbb1e600058d308cd8aa650ec35985906489d1ed3210ad402589"
      "b33de4a68088cec878461e54ce60ebac399457d4f4ffaea77fef304f9363817f"
      "d797afac854d0ca313321fbaca4b0f",
      "d0b0ea43a3fcbcf70e5d4b21ad115e503ada6f43a74a0585481b249db3c00645"
      "f06005b1b3da91600a14a40ae5c045127cf8cb6bcb",
      "39f3258b852471d9b9a289027f26c3a7e49fa8cb61983c429b3b306edb1f0d34"
      "d9718774005d71ef2e89212c6c538f647335d85a2d0b4c72b97a7eee96d5b697"
      "6a602d82a294bc2a4887b16aa327f6",
      "411aac7435b623d80d284a1a6533dba99d7a44e4de22bbb22b09a4812c6f27e5" },
    { "2ed2ab0c5548c1e97879a6c3ec7ebadc",
      "3e15d94c7dd22593caa8be653b6d59d2",
      "76b1d92662d472c87ba9b27e2756cf62513ec190f709996e",
      "f1e64c14a92e952036305ceef2535f65295b2803f7396a5e88f2ac993e201782"
      "e2f1edba92011a1530278b6d3d1c9a",
      "8c9fe2da6b58f0a9d40609bfd9ac6855badaef814588ebc8",
      "b212a9d7ef27a5228e1c02ba78cc92068c2251c162348e1d87da2afc53616571" },
    { "37263267c4f24129d9db09a2a96d7c14",
      "39e5c4f2b36c9ed5077765b89cea1bed",
      "3581b4424c",
      "6ea6a9f99350a38601162f2e24928ee2",
      "9ace0569f7",
      "746536436bc496acc8bab10e6ae17d5d1d6113b3fad96df462107c3b4b6bf96e" },
};

/* field order: key, nonce, message, ad, ciphertext, 32-byte tag */
static const struct {
    const char *key;
    const char *nonce;
    const char *msg;
    const char *ad;
    const char *ct;
    const char *tag256;
} aegis256_repo_tv[] = {
    { "7083505997f52fdf86548d86ee87c1429ed91f108cd56384dc840269ef7fdd73",
      "18cd778e6f5b1d35d4ca975fd719a17aaf22c3eba01928b6a78bac5810c92c75",
      "5d6691271eb1b2261d1b34fa7560e274b83373343c2e49b2b6a82bc0f20cee85"
      "cd608d195c1a16679d720441c95fae86631f3f2cd27f38f71cedc79aaca7fddd"
      "bd4da4eeb97632366db65ca21acd85b41fd1a9de688bddff433a4757eb084e68"
      "16dbc8ff93f5995804",
      "af5b16a480e6a1400be15c8e6b194c2aca175e3b5c3f3fbbeca865f9390a",
      "0943a3e659b86e267ffea969ddd6d6d63aa35d1a1f31fb6f47205104b132da65"
      "799cc64cc9f66ffa5ec479550c2c5dfa006f827ef02e3ab4dae3446bf93ccb5c"
      "17e1ec0393f161fca94f2944d041f162e9c964558b6b57d3bb393b9743b1f833"
      "8ff878a154800fd16c",
      "480091eb823480e8b29c7aa96ffd55a026ac3d7fa16787c36c25865131a639a4" },
    { "c88bb05b2aec1218e1a5026511e6d44de7bd502588e9e2a01591b39c5ead76ff",
      "4a485f226a73f0c4e16242e8234841cdf6af1771eb278e7f35428d03eb5b4cf0",
      "2a4c06941ec356390542d7d7833fd68fc85a00c0452281f87dee6f10180d0218"
      "2791232c7007fde35dfd5a901afa896296f9f344db717994d078fbd3a4cec8d7"
      "82d2bdc205f3709827b776fd5c863a952fea97a14a6c2ee3f20432b8baa08447"
      "0179078bd6a83597478b2fd9ae00ecb424822cb0d61e9a55a4",
      "38a9809dbdd2579010d38bf5314f255b",
      "b8565db06c2fa493e09b6764f4d09296422095eb6e9890f606654713bfee6f36"
      "2a123688b61f254f315f18b20bcc5ed8b0b4f2224de9f498e3ef03532a8bcddb"
      "361f5ace8ff491bab8b3d06550496501264f9f48ebad277e7492146789d0fc1a"
      "3b1e3e81598370a4183683d1fee25a9a1fe359c836932746b9",
      "5d5d35e0299dea47956a2e2143cdace4de8d228784d6717ae5a6bf5ea6b3ed04" },
    { "77b473865175ebd5ddf9c382bac227029c25bdb836e683a138e4618cc964488b",
      "f183d8de1e6dd4ccefa79fe22fabfda58e68dd29116d13408042f0713a4ee5f8",
      "9888b8ee03c3217a777b7558a31e331909570ea196f02c8cffad2c8dc6499b81"
      "25363c06a71c057842666bfb5c6acc937d2eecd960330c2361abdd88a4b19155"
      "7ddf5102de75ddc7e09aee9862f32e24f1db3847a5f5b379fb32e2ef7ffb0d3a"
      "60",
      "0679fd74a846965e33e558676115d843e440fa37092fbd5c57c82fd914210fcf"
      "948f911b04632d66be46248d772b3eb9f55b537e54b1ec751b63f035c8",
      "3464d835302583ade6ed99e23333e865d3308f31a6cb65bcefdc9a1b9b4d0e0f"
      "75513188480dac4a64922af4441324ce7de74eb9f7f4e414f6177a4814edc963"
      "13694b99ff8dd36b2f7f79c7ecd70ec475abe1c1909238767f172fd6b95e92c0"
      "25",
      "33527e829a3db1929cd643d5251ee19482aab7f2d74635cbf8370f1e1621ecdf" },
    { "b8c6e8cea59ca9fd2922530ee61911c1ed1c5af98be8fb03cbb449adcea0ed83",
      "af5bc1abe7bafadee790390277874cdfcc1ac1955f249d1131555d345832f555",
      "b6c15f560be043d06aa27e15d8c901af6b19db7a15e1",
      "d899366a0b4e4d86cce5ba61aca2a84349c8de5757e008e94e7d7a3703",
      "4c8496dfa6c419ef3c4867769a9014bd17118c22eef5",
      "f81ceacaaae6263c33f836fa26d92b0f08eb0796135c7fe312c93add6a208e8a" },
    { "d4ed0fe94cda2be7e50d57833158c84180b4cb7dec95d5ba774b6b5e1b0597bd",
      "cae41ba20bfd124270b76c13d61c1dffd7a42017731546d41aa071c22b9967cc",
      "1cd4b85fa6c14d5adea84ed3167479c1cd18e77792cca73a540aa16a00e50ba6"
      "2ddd12a62911b21d3ee1086516937f33ed7756c7ec93b3",
      "35564745c05bc961994ea03764eb02044f9e7b2f6130d6d1f041580d6b3ea7ad"
      "e2b6e231dacc5e97db01",
      "a1f64f45985a89303d1fdacf6f31ad745a8015350f1afe63d6ecc26677f661ad"
      "dd3c229ed76f4c627b1e902f8ce8c42fd08baef481e86e",
      "c706b2f13d4e76b4e024a2d72540637a8d9ff5e626d6bffeb7801c58ccab0c2e" },
    { "d755d9d980e8cb221955b63c19f3989eecce945f61307a0593bd7cbea6577e1d",
      "9f83666d787e5ceb0e17fc1b084b3734dc3ea88dda73b1b7ed53be7491f4637f",
      "d1093941fdb3d9710cfcbe504be2434c17296d0b7e0f4e4058e79062f2b2cf3c"
      "be2007ae2e5d391ebf3fc1e07e4ee7d1705044c9bc2bf08e97a4d8",
      "f2a1432fba86dc01b3bfbf3206943bfa3dc66e9f54b576c57f61ad515555b0c3"
      "71dcfcec45eaa58ca06654b6cd476aaaaf1b2602c03f9e41a2cefc265d10f19d"
      "42bda0b07aac8e86",
      "58e044943cf3b73e48ce75c048464fedb0445b02bffc00c1998b212f48f48c93"
      "e89dbfbf36cfade1112629e8deb267c55118c10ab67b7ef2740fc2",
      "0179f0edd217214881e90c1be3b513170d1292603c484a55499e1bc70970d5ed" },
    { "152f15933e4ae26192bd3aaecea29daf77e9b2bcd97e7eae7637025de8a3d3ac",
      "e177be02348efb533fc2e9d5a259cef80aabeec97da50c937e8d5f7c6eeb32ce",
      "ef86da6d5b0dab27a444a95ef5c237baa5819b863dcf0232d0162dceda8f180e"
      "1b9c6b9d94ccc0692eb52923783ef9de17497f1da62d6524bbf432aa6c3bbc1e"
      "851310218a03ef97ac6676eb6ec30ba6ab131802b992a11417cd00e6270ac73d"
      "ec8dad88ecc3cba25734ef7de3b8e3cceb5d19778d6808",
      "221b1875425844e48c2111fa59b6df729a924a43b3869ab64f8291dca8f12be3"
      "4d62d11ac94f9f308e0744d5d5f4564fe9fc1e014cefee3cf7706ace4643871d"
      "41f1ad5c616adbcc1e9701a3b4",
      "dc48260eb047397f41c4d0a0ffe394557aaff8b149cf4b16e7c22754095f51b6"
      "26ded66e3db9d4cbd98421ee9d8e7c6eb72b607cd462f1fb3ab0c41b2cc84ad3"
      "20c781ccda9aefa1a68ff5d280500a17c7959e869f45f97bf09cd0bf2c4c068d"
      "2b9603710ca8f71f82acd47faefdebdd0abc9b45c83388",
      "97191234839a54c00143463e8e8c863f5710e520ee9d9b9ce051076696bc8b52" },
    { "873edbe818233d0f51bcfc1d5340cc4712c909de36f963e6157f128b8a71e3a8",
      "16e7637700a6fc10539c056663d12ec85bd529f1e6adb131a3853578f5d27c12",
      "db38cdcecbd99003978832d29cf6a34acb4d0e6293e37d2795fcded538ba37d6"
      "a11ed41430dc9f4c0cfd27587d607846f42aa30682bcc295097053821b80b586"
      "9b4a0b852ba7ac1d7b784ea0e76b2d033678011889a5adbf7e091cdbb9754f82"
      "8b7519f1179e2426ca6bf80a509e34729c854a5052e61adf8d",
      "0b0bd264fb5030f84da620f07099f42dfbad57c314102a1f7fc0b452ebb7966a"
      "d4b88ea773aa07",
      "de67a4eb8821625d4451734993d93e0fafd2c55c761afb097bfccba898e6d634"
      "be975d5f2ce8d456785a089c9b40724d8ea41095c1cc80f070c3ababc9258e5e"
      "ea504831b034baccff61d8f73c220d5bdb1244c8a675f2d6081abea8f59088b9"
      "9583cae22f8bd37fa030f94d5bfe1c9e799aa71bb41874b17f",
      "8665ecac1758be7eea0b5f482ce8024ce3c78b3f51af3ee4e0b440f24db2f451" },
    { "b04b735c74d2286302e5994e126a8a8f52af38d6cb094279ac883b560a52a6a6",
      "6af57ad705792ac2f71a61bcea9ab38a9a5acc510de7995b66f3ae4cd2079aa4",
      "1c052ab52a21894287fa7f763b12f49b2edd6a0cd266e93207573d08d75ec31b"
      "294d171f0098f804020cc12056c60f8d396ec94d97eae1c07a874849e39a3302"
      "e8c3b538de6c9e268fb922f6875ee5bbc264137035a76d9ceb269dc0988517a3"
      "02c2bace2fb6efc4ffaa2c1455a16b6cd0",
      "52618046f112a5a35780e370c713987e24609c38157e5fd5d51ed36324359b06"
      "15af70f801b05a98ceb1",
      "7183180c37ab14f38ed084bdd2aaa4e8d8e8442b526214f594054e0379a2aba6"
      "992804afa8c63bb1e580d7d905d0c46536970e98bf7cb921e95db8faf388e7c9"
      "8cc08496a7036b90a2e4efdfbcf79610edbc9f905067358b13934825c0ed2e3c"
      "3d1f03f7ceb812945f77fcb7731f805b1c",
      "483a6b3a7d5de797f0911d2a514350d5ae5af89aefe1245cb08cf8c7487eb99a" },
    { "5bd7cbff6b469c03643cabb99dc50f905091fc9cfcd6d8f28e74ac1a33fd0198",
      "3b458a51fdb6b9d5a7071a22825a79f2844c5ac7ae91014ed7862499dcf10461",
      "4eda7997fa3b9e12e39eb00b209b43af9949c017660e523e78d0e483f23e9113"
      "b662f42a164db3511d",
      "808d8a8523a983a2afb2f9daed913efdc19a3c1ca3315382ffe757426e7ef65b"
      "c1d83d8e6af95191f3c30de298065be1e5d14d0dba8f82281aa2fde67684cf7e"
      "b6f32ca4de7a116caa796f2b27222f93b9275f4b95f08c4a4e8d6b13cd326c16"
      "daf232c8",
      "98959acc116ede75df052f4028783105408022ed6db9516e8a27f18c2b4d59f1"
      "bcaa7163e0811203a2",
      "edff06bd132fd3031cfa5a47803d5169289a29d304f7091b20dec2b284a0e271" },
    { "1bc0dea26d8583e51cece0df7021522adb9336450929715fecb497c43cfba717",
      "7cced62d655e703f54824f4e2ceb6e5af1507e2000f1bfec9e50eb87328c2218",
      "edeb537b66dc39d20ef6ca5647e6f34df0f5dce2964d227b0c444613f951edbb"
      "c532b5576735e9dbf39177ccf8071e5fe9fa011bf8ab7fe9f716acd50847f7a9"
      "ce35262b22f04486f1e956e09005249b5ed70e68ca9896802c4ff9b8019fab05"
      "7bbd5ecddaebb6a079e57cb6e39c95f6748b22cf3703e30a5e",
      "36febc6e0763391b6b1031478fd485b54d427b88d06d3582c10263",
      "5f75548b3bdc53e80c61fe8659f2b90350a59dff4477fad24764621dbc35ebbb"
      "6d71f80c556a825a2bba962561a9db3360311438d4b3eb7452926dc5ec88d451"
      "be66eeaa491cc21837ec202b3e71b3ec2d0ed2f53ec59da253fc9920482545f5"
      "70e3b2e4ecb3629757f3c721fc462a380504aa8fa9fc8880fa",
      "9e46a21c41a40101ca413017cadc2fed4fc3ff390a57fc0643784871af07492f" },
    { "230bf249a043d34effa31974328fce207daf3ce10b42e5b44073b70e9566b1bf",
      "de67af72aa00fe1798e8b41be2528f36a45aeb3d957bbcc5c01490e4a786437d",
      "12403a1905c9da8bd546946612e7d4ddab1c716a533cbd5898240b4c68c675c2"
      "f18b72dd40c218bc6f7599edb573f89af867ab3c05fcef8c78b9bd0a267e8db3"
      "d9ab1dd04dd14a11f9c9e0",
      "77fe28a72f7029da86bfbcddcb819f7068afc07a249e207ae80f0acb90",
      "e9f1c7e28b1581f25448b1e21de4fe67c3ff432338b2f7364460b6b1f666a2dd"
      "b5b9cc896c3f410445d00c146952180ad1a36944aad13956e6ff95449bcf8bb6"
      "cdb1b3e87112507663441c",
      "7174e0d47bd83c1a8cf9cb14127d26bad67bf413e146bdfceab4e79b7ef13c70" },
    { "c9675c6e2c0d8cf9f45f17faff568943e4a9038df4472908dd631c5ba8a29c2f",
      "bc07c8de4778d50f5dbf324e3f9e377b82e6defdb84163bc9447f156bb70beb7",
      "d2c4c2773ac5fcbfe43869bafa8278709a32dc395be3df8360562184d4767513"
      "3ff716c620fe4d18902dfb41d09b205c87a9a2acd268f9d5662c9e4b12c50181"
      "d93ec7b676cb7afd0639f2b3c1154f7489cdf926a85f51c62eb16c47b1bde2b4"
      "6df56ffc9438b395",
      "88a976fd2e7ab25e492f90a1901d7d3982b678217d4b248066c6d8e7a97af0aa"
      "93d04300eb0fc0be23a5db41b1c562efc21c6057c57cd723894d9735d3a65124"
      "0c6c30e7afc2be2192081c4622ff1d7390e81182642a4d532dda34e2ed45994c"
      "e50e1524ce",
      "15f5a70290975933cbb70f830200fdd876732952577ef9c0bce0293e78c0525a"
      "1209eba2531d9c58cb742ecb4555d4c9cb6bbe69c62a0910e633d14351d3b8f0"
      "c3c6734ed9adc384c294bc4935d0026fcd50d513750826da12ecb5f46b7c6595"
      "550547b963de030e",
      "da44d1dc3de8523cb2dc0b3d5012f0920ef4665fb676bd4ff66fd6662db058ea" },
    { "c4de2cc53d61339da13f360f88ae40b1895067680a7a9d28b3d281bb2a7d2f34",
      "29428c6b06edddd68e8f4973fc2a698fc49c71230bb97da4fbcdafb7f945c9de",
      "e9d1f0438a405d57816cf8eb37d3bbada217837db578d7c8e26355ecffc3b497"
      "732a54ae509fe8402f30239dca959b0aa7bd436f23c31e2b9cec889f3bc82d4a"
      "d2d4af9c6f978a14b1a8dd325d8976368af2d3f04b83ee343a0bea470bf8d569"
      "13986121402a49ed4a68c6526cb53d41ac",
      "74",
      "f1bc93dc853b7989e79d34615742488c52221d9d277560406fae0dca1a086ec0"
      "9ae034a37424556922cd6661bb01a389aa00823fe3e2fb84e9811a078bdcbb4d"
      "a5e949fefd45988131846259c64b45b279b7cce15ad2b1ba0b52db1de7d39b07"
      "458bba7b26a4a4081fa3b0b6aa53b73d6d",
      "ff4527b7c136c8c92b151e0658ff456262fe74a07747f9437445d9336919939a" },
    { "0d0b70db983f4afeac46cb5e042ca51a6a85cdc500f2dfb2f97282d2f96d3235",
      "a1280a20ba18cf8977c63450318ff1f6c4303b20c111fc733212e37e11cbd38e",
      "d9db68a084a6aaacdbfa1cfd7ab1f9b4fde06f18ff093d9f5a04afb9f1a23a57"
      "3125906fbe126e8fc0f51e65465a09c1167bb6fbb623f311fe07f564ad4216a0"
      "1b597d4d756acfc736b905a26dcbad3c6aae8bb7043039d06561ff597924d623"
      "767105024c170113b6",
      "0a9d9525935e346ede23c3eee268c24f1070959d392d1aa1c4234cc19cce7807"
      "c477ac8e9062ff302015952aa9106de9db40c8d20e022f3617",
      "2f517ff86b32f3841fd9cfd34fbbf2bfb77b190dd2bdb74f438914d95809d52d"
      "20f07af6fa7a03913a517a6cf3dc591045eb4fd7fa0b55d80ca54d48ee85d568"
      "41fd44db7585e5d0ad8f27264751157be2190b85f224623a40c4c821cc8c7c68"
      "0c548204e7f742d749",
      "054df03cbd4f45572ecee0a8fe80b37eeca1f17881bd12c42ad6575a5ef304c5" },
    { "8011b1043674d753172302aa123478a121640daf4317957545749d0be6a91698",
      "57bd1ac0f3db407989f88a762f60b3eabd03d3bc3bae577f3818b15c0974ae9c",
      "be1833fd169fd745acaa7d8584c457657433e6a3237225a086d4780680412061"
      "3d78344e097ecc6a5f869d07",
      "",
      "e34dff511e16bf12570a6828843c414b8fdced120db36ea0223e8700f57bea4c"
      "9dfbec5d3195caa633d52ee8",
      "0ac3f0459608a7f38b5b77c3f38c73f9ebc48253b316830b9583bcd51ba5c995" },
    { "d4af433d4d7598a8bf02f3e34ba9014a85f92e7ff946d51ea7fa9a4f5cab09dc",
      "4fa45413eca04bccc3c732e18fc6442646e5d809afc00e1e749a8b8f84d6926c",
      "b867dea7593a03b7b7762052e58b18483163c0828f5ebecb8cbbe4d55c7f1a4c"
      "eadf55f4c3a979e619763377cfba4f88e9e692c2794ee862b2aed63902879e11"
      "c5ee167ea4fc266a4556fbb54357ad243f92418a1d13c987f5b260ed",
      "ee4ff169ca",
      "e2e12b2510c72d2d59ad8bf30235d14f3e85824e19b09f4e84eed629325b5a53"
      "68178dc94dac13b9aa262f12592f8748bbed8581dad74895fe73dac4cc3a5f17"
      "ba480903ab86d349d68cfa0e4dcedea3321ffe1023b092cc77853a07",
      "07a59bb7b8f5805195197a01bf6f628c689024dd64218f0a2a9b77aa5cd6b357" },
    { "2eb12f163119cd1262e0dbb26338486bc75c183026cbc71bed601f6cde324bb7",
      "c59654bef68ff95760ce8fdd39f480a3655c650647d00e49620b9938f917535d",
      "9cf103fd377ee14f1fd775530b5153eb31789755382697aef6008f59b0404bcf"
      "3fe34509835308cfac8cfed2678f523815615423831317ad7770ef74145db7a7"
      "2ca9462ecd50d7b19a0d50e894bdadbb0f63d6624c80c85836bfabf44359f700"
      "fe04b5e6bf1db1b4ded24fe9054e7318",
      "a3fb893a7baf646371e92f3c34c6700e6a9306bd7e905a25be4bd7d6239416ca"
      "94a1a31b59068729",
      "22139c2d9bedf4a0535c22de56fe441df6752a692a99c10c186b439fde9954e8"
      "15d6e81d0bfa0a7c3caf608083433e9b8d32321392f41ae03e5b67cd7801362c"
      "371223a98989b00c79fb42d4b25cc222ef6a4fe415654030e67ec50644bbc93f"
      "e83c20e1a30259a14ae1ec82ac4759d8",
      "83b054697569ad69e55ee1b1491b9353255c4cef4c0f31a0db8090b7dd06ce0b" },
    { "553928dbf68b2dfdacd75bacda2cbb4fb33d81f55731f8ac6615631ed4169784",
      "92e86bd57fafd57c88a090397a72f7af5967fb623eec8892b358abd1665f88ac",
      "b305ac06529bc8483fdc6d765a535ccbc8125a27b8d72fa2450053ad4be45bee"
      "de300f87e035a05538b3",
      "1f80c2c7694a35f5653ab2fc2cc93614d959f2136bd4cf2918d2a20d6440e8ae"
      "73a652e08b7987d1df8c",
      "4885419082270c83c03f5d4869adc63cd2f940bf527e8474c7c61a748fc883b7"
      "4e5ffbd8b0cd3e780a92",
      "ef4b2bbe41b9c4e58e207fe9fdbb0e9aed224989d9b9a77e78003b1c2fd7bc31" },
    { "4d6ffdfc693ab2d94d760163bb9b31728a2762c26236f04859b7b31b98c0e159",
      "e412d9b3b1b40c740ce56cdc0bec430c0ba4f95f5d83124244cebae8295b31c5",
      "ff03d03191d459d57a628a8d69d398214699bf88c2ce8694e2dcbe6d9c987056"
      "a50319ef387363b6266fb8d3e15afe3b2eeb964800799c0686c3d6f0b27d9523"
      "592690ba7d765e9a21d62e113788076267cb50193d64b43156b3683e7ab0758e",
      "78c96946f355a8153659dd06b41b75b8109b0c31c0d6ff2feb90c875a3b211f0"
      "1061f73a88a9d42550c807676dd3a405516da1d2639395cb4df526e046d621ec"
      "997c1c4fc858b60ff9051f2ee093fc8f032f367bf25b3f32361d8aec5c0e239d"
      "bb129316411e96da198d6fb512",
      "4c3083ed17c2de0981fcfd38bc244c6e6d0756fa3c23b22fe770c0c952159b6e"
      "112c6f4b6686aef4bbd0be98bcb2c32c44af09425f70cbe031d08798ef258a82"
      "0dcd3029d2b0a857615a939e2a008ef14b949f5bd4ccb4607c8a8a4fc5f1236e",
      "bfa101aea1676baa3b5205d45b572425ef7da415984796d2b76f01fe5e37e919" },
    { "c9bde00bad3334e5792b5c1e5a8fda8ea7f7eed152c0a3feceb565208017af73",
      "2ee41bb5c473206ec00ec597548161573e8c2adf7387f88e4fcf64c84a2f5905",
      "b7dac21337a4029b80ae0ce7578eb0eb45c76eb84d68c4dde73690162b377118"
      "237fd1f466ce1d7d7638945779e0b148047c61b63c7e05c877f75f4a52865efe"
      "94fb65ee99e4b0d79242c69c3aad1c425d017a71eb26adc2594a6a5216eb72b7"
      "36f40a91001b13c91d13d5b057ff05ea883ccff3eb6033679b7b41a62f",
      "26b1dbda8f99f9492955fab6891c3de81e4535ed525fdc6d98beebef67067fef"
      "b1674359525cacb2119d016876feb5dd",
      "6249b44800c9d47ca20cfc1726563befbedf20639735d441917f52cbcc7ef72d"
      "5b095c6a15a7bf1239f8b93a62d9bd5e7f47b05ab9f12b4da72392ab4ba093de"
      "150fb8b7b61ea92e6a3204b178e2e1c066102ea9aea6241749ebdfba4b307ab0"
      "a5471d1d43fc930dc29a1ed5e687d41883c69d0de38ffdd25ce4d8ea33",
      "53bf7cee58474076330dc64d1eeff748df909700dd942d8d59da2447b9f84fec" },
    { "6466a65e9fe920b026739645b446cafb70919a5d03a7e890537bf88c620c5bdf",
      "db812442fcc36f2deb4b04a9c32354579abd8a57c185654dc8ce5af21f5e5463",
      "39917090786a9532f0700bbdd94d960491d89b68b2b9b1425ef8db67b735ff08"
      "d73cb171d911eb94eda3354e252bee238408ced860a8c1657fdf8c9afea4f4bd"
      "041173ae22f236c238d38e469c89b2b2bc73d3ec88cda3753036293934732295"
      "e29dda",
      "34c8b124c1e26a893aeee4b228214ce840cd9e49f1ab7bbfbb4d90c808215be9"
      "9c9da5d0d426d5933f6aaf9d1af578c1a6f2b56e6b4c2ef41f6fa67e7f2693f3"
      "6b3e21223a5428a8a24d2db24d",
      "e1d4206c53b1072c317a494b43323a65d4f17afd6f02f865d94c425f80153add"
      "9d611175e9f0bb45c51d7f46927210bfeafdcbf29cf3e1de3c01f4fc3fa94848"
      "af52293e3f48be11d1efa5d6e2aefb62385c97ab1dc7aaa96bd0210baf8a7c73"
      "2386b8",
      "bb406b111937304d1ede67719247747cb082efa5e8743364b763ef0e9af1059b" },
    { "be69e13f684ade9206fc567da10871fa4bface67e86e23b9bab7da87f5c2f39c",
      "d8b143fd6fe42e1ddf4460592c2c3239e2dd97bad39066b86d121b658395bdce",
      "4f7c016b4ad5d4822e125851ea3cff387ed83933c6e20965225c34e5da784ba3"
      "6585e38293c6508eca322e9a9bfb21b3d5b5b0866c2d32b850072abfebf5417f"
      "9cf7c1b3e995338b99cab418b9812863c051fd03131c82b999bfa107bb987a83"
      "528931e75a5f4ca0de75f0",
      "0d32bb65ce4936e3c9eed5cea33bec6cdc7c4e105c132a2dd663bb2cb0fa2ca6"
      "2fa1fd55ee46ba39853c04655a84fcb4eec40e5a810e8ecc01063420cae63259"
      "ed33cb3fac23b343cbfaa7d9bb30ea45f824d0eaff4d836845baf6756564c66e"
      "3aef9457baa1c70e3a9b6cf4",
      "4cb6bb6308675a9a03f72d1fbf1d2b7b092bb4743e6f8e6d4f8bc176e1778eb2"
      "26efd8b33a14c3bf0a554d7cd64880dff4adf7fe622d8b2a51d5a3becc06f770"
      "46eb98f6f8b7e4c9a9cbf24eb7a384f87912146662a065f22b984e9f11bbba92"
      "9183d4152c2dd607f87714",
      "c06e27543c2dad50440824ab41013fa2fb34bc1c47222e5a157fe2a8d8324c18" },
    { "e365b446bd38e82eec6f10ef0ab21ee388ad485f08935ab5b27d812c77c8c2eb",
      "b5d1efebc38b831ef46617bfc282e47e20a844c326c35981b0af5e97cf151cef",
      "a04e8c9a01dcc73001fc6a53",
      "c6064f3f164594ab4bfe65c76c753d81e110a255d3cd9e512c3ef38d54",
      "bca8a253d89f09d92b364671",
      "4ef59bdf41cb393aada19b052ed31e568855c6edb37d286078ea3c8b8969061b" },
    { "f6c8e88d9e0da3770d3499977a5b9f9d071731244c6b0ccac921261ca799c4ca",
      "de6b3d103cf9efc4cb7d60dd3458e7c5a348692ab63a87c8ff611a336f0bf63b",
      "5eda6f7400227d5f0c4f8910c621dcd6ef0c4f9d2d9fb3feab68b3b162fc3db3"
      "62acfb61c55b06febf04546a3bb002dd6f3b9e2f531cafb7a6b1d31c29483526"
      "b2958eddbc9f2eab5717e1",
      "0dff4615b2084f8e01dce6ecf3edfc785f1cc51361f32f29b7e5c49c82f96664"
      "54f2143b9fffaac5ad9ef9fc0aabe91245cc050d5e21dd3d31bb508072d8a23d"
      "3e289aede9e95bef1bc8c8dd6d1401409234237f7e4df6db44cf9290ebca5ee8"
      "a69768eb6dc29dcc5aabde",
      "50c1b3be72fed8b6feeeeac72b999bf7f24bec747d30dee62f91753e7a26fdb4"
      "666cbea2f437232e57edb331ef327119b8b41572e8a6198fd4377e6657520d6e"
      "833fac4b2b2b1ea4c01923",
      "342804e54894f812c0879615dd7d4b8959d36f00b03c3e183148ebba41d34d88" },
    { "c9268f6053542789747187da6140b7566024b623dc9691a534bd730764b20a63",
      "b0cd1ad38a01130f0b312be85a9dd570937c0fa1050ec7c3aa31befc400b8283",
      "60bf644abf31501722",
      "3091f60cfb9fa8946e8a06b1a663e60b54a24f2e5f8eb5282d980a21878c794e"
      "faa2f6f699300e3facc64197c5",
      "a3bdd452eecc7c431d",
      "32d6f160b3c802fc4a92344f6edd6bd47cc83630ac76b3f7d2d8ea38bf1d8886" },
    { "491c6c8be1926521f6abfdaff5f95c5fc6ee07a800fffb4715e36c5de167e8f3",
      "747cf6c78d7462846364b00f21a26b18c49d7bc3878f478af38a7dedf86c9ab1",
      "9ca6b63dce33c54e7122ef72a5bec5552b1cd8099596ed8917ff694390e97024"
      "8f1ef672e985121c",
      "3d545120992929ab79fbe41da239705bbd20ab461daeb3f13b74069b0797b026"
      "99abe360382669e6752564f6525c349b0bf6a8833445d14ad99d2cfa1212e208"
      "74603760682769ec1abdf33186de04d33621d8",
      "f5a2cf25a6e22b71786ebf2adeb78d0675d08711b0cc9f1bbc6b065f056f1948"
      "570ebf4dc8df1574",
      "8c7250ec14c5e10239d1d8d275059a09dce220b496a4869f82718258f52d004f" },
    { "512cb5bfea47aa81a414e0e9c866daa1f2f7d7562a9ff7616ca182642695e9c2",
      "39f87cc65699610a3a5b84abaf4d8333e1f83f640b7673ba630d53eb608f3c57",
      "371b10a048dc329eadda98b1ab87a8fbcf817eac1fc0a40f5a8c3e34e1b735dd"
      "4bf2f185964a",
      "96fdeb760af9a39b819676fbd7cf6e025de97d9a735012b0fc2aaf2f845b4d76"
      "e97220920b7beb1b7f920e0795cde96ff923865a5eec1a08fd88c837b2ac0b38"
      "e860b1ac5d5054e46c6538fd916f46e8bb17751cf152a3dd531762a8abbafe38"
      "198dfbd35ce232ec1927b8f47d1833db9bdebf6f7d92eb029056835ae0",
      "dfa26829a13b2383e59180b896920d0a8dc02d11ab91fcea5e004416517cbb46"
      "5f951447237b",
      "7325d446ad6af8023893386201dc1a8c7b3d603d13241a5bbc33f6248d42cd48" },
    { "f2ffec87944d3061075de87038cfed1797276d8c6857433c9458677f67e090b8",
      "7aef11906a27ec49ace7193bf61183e4c67835c9c26b50381c7ec18b81e4bac4",
      "1460c5acbb61d26d0af31b565d3696e50d6dc022c528f11569dde0ad691b32fb"
      "20538236028d51b98d441ba5ef527ace9a59ee9784c9ff14e8a1d03b2450bb75"
      "aba2a91ddf1827c14ef131",
      "d95e3d49c922e70c4c34edbde880239eec5bad1c13158a07d6a13462a8978158"
      "cadb13ee5f2cc95a21673b6ce25d7c30f0c8acdfa55c259c6d03a4b25d22fa65",
      "bfb8d129ab8a3898eb71aa46e2d976c44d790803420ce1b6c77c399ac19842b1"
      "486339571b82d84a0461a946664a68e6387b4bec56ee0acc08bec0100175d670"
      "ebdb6a9c36fcd13126762a",
      "2956d57d9089e44a5c34400b411210dd35c261a9354f6ef1d07235224f2f3b85" },
    { "5c2b46c8c5e5a4661c26ad19be10a781cb845c824a403a6bb708c738e90d9c46",
      "b80e79dc4b26bb75d284f0346697816efd98b0412549d4ab09e5453b14a1362f",
      "ead1a7d4f2a4d5d5a979e16cdbd32005a5b5506968e18d68a598ba5c0fe28638"
      "39ecb029450b0b2d0966558a890caf2b2c5ee750be7784f583b6d3e0bed0cb5d"
      "4fa6f7fd098dbe05ba8416c400faf2034c3074dc1ef7d7ee63ea1cfed18526d3"
      "94c445848a959fee",
      "9aa44ce6a70328ac8455e5648a34176e",
      "09633b3761e956bca7602b876d9b5429e64e56c2b39ee00484ce92ffa7395751"
      "cfd43f6c46ac3b0552fbc2280404df446cdd8632a41fc7989c4d603b3f6b7efb"
      "d075aaceeb3e01bbe60ef88b696ac22f41fec3d7b65b35c0c45d8bfb0cc99d80"
      "316b913968089e28",
      "2e1954215e5487ac78177f851a580067ff75de270b664e962240f38a42f67150" },
    { "05fead6fb5a0f2be62533e0a29377010bac0a25c753155d56de340a094e7c426",
      "aa6663a20646cdcc620fcf23c31deac51ef80b68bc8c5df1f91197066763eb39",
      "5e9162142770449251a541fcb7798ee6a59ef56c518a96742b4186f3d27e3a8e"
      "f9855dd5c0c586cf957725726a5d9518919c54b07b87630c8f5079b49aa656d0"
      "3b0a10ae7aa498c1eaf4bf0660ff999c8080524843ff8a8137d95921b8425ff6"
      "a3cbac4f52c198f9932af067ef734ca00b682f6ad0ef0e",
      "08fffcc594bc5d08a1f6473b604289aa885d9b199c2acbc56493cbd740a5127e"
      "d1e218a719076a310301954e54f38b682eb9f50cb05d2335e7d82bb88487f333",
      "211957354e5bd50bc25009e2cdb0adbad870d25aa02c3759bebb29ea2de74afd"
      "194aa82edf530086b07569588e5fbc3618f762712d63844c8177d7d24b2d9d5f"
      "6be5ff98cf7ea678ac7022a15c17430c20213ef276284ceb7f35e00f2b33a124"
      "a88d9aa6ca5eb37afa4076b051f94e2c2018cd90bfb499",
      "79edf8d61edd0c8d23e2337c3cc7db00a622215540796800dd4c01be03958587" },
    { "96cfab5f246dfcf8b33a9e80fb15f90a089a9078dabacbe767082da806cb4fc9",
      "6a0ad0d16594d33730b03a7b40b86581fda3661264ea17f3a4327160a30f181d",
      "61b0d79387c11ac4a87c37a9b3",
      "a62d02eac118d047cae4ebd58ce97a7c99ed90f4a4bee9a442",
      "d0762aa4c8d20934e91a999ca5",
      "c0dc96d5ad1cdff9445e163c0df739880bb4dd741f4ca70eef655b213b53773e" },
    { "4206ea8a06c8fdfa6aa47e76e317c3108169d142f6de50927345a2825767a7db",
      "b9c7d7ce4503a4ca01b8762ff383f0c13c240d0c9ad691cabb61a73fb1ea7dd0",
      "0915f9ff74e3b4cc4d9faedd463176e8b4d259aca80b64fedb9427394fc5950d"
      "1db2ee8a57",
      "4b283f58f0938a62ba97144ac872b231bd93c8bc14c7bbe22f993598544d9099"
      "1d713e289cc3",
      "963202b6d18e7742621ccdefd04ba47457aa639ec78ea6ebc277d062117fcb7f"
      "7efbe926e7",
      "33d965ed6fff8369f9e2173f784c19795ba93776e9de83fe0292830c0ad52dc5" },
    { "7729253efc6935859e8e7cbb15850aeb37e0e3fbc017754c9583d7b4353d37f6",
      "8b66e8adf9bdc7907e2127485410c30bd8488901d0c75857b35c087eb9e21d18",
      "ea7d864e9e1b537c409601fa7b35ed10e66b71ad6a81aae70ab07cc69123a459"
      "b9020034dd165a46035ce9ab29e701d3622a76947e7adbf6c6fecfb4316f35e2"
      "4fb01a5f46cf57",
      "a3788e4450cd6edc283dc66866a7d03b1250b8868364bdfa6017cd9a51804630"
      "4c4e46f5203e547fbf9c5f41642941b198ea1f640ae2f6431caf544fff17a09f"
      "b288904fc3f1686c496f7c3dd47f9fe013a9",
      "01a5877237bc6b94f0597df25ff9482976a5ff545dd26759efa03b10280d5f9a"
      "058c7bb1c230be66977d463df1ae3ddc3d7ab02c10313320b5dab74a22dc0a6d"
      "9158cd3900a184",
      "7539465a447f836c3d2e6abfc53a8d9af7914d2fcb738735d64051f8f14d59c0" },
    { "d0c627cef866ebdab7a8030be47a9aae4e97311a3a1896de7971c78feba16dfa",
      "505b133a1f82a9eb4c57c485d139197fd3e59dbb07b9c8a02a32438f6502fd90",
      "206f537aac47c77eff924a9b3e74ea85623945e1c24490",
      "636238aea904adc5f4582d48a00357c4aa57ff1f822fdbf49cadf780f5e346f0"
      "153d8ecd353073517fe4f080",
      "c44ce4e69f32651596fc5fec1f9f59cfa62c7a44f7281f",
      "36d1db8dfadc687ed88ccedc2796b8aa76337ed49e999091186659586295b6a8" },
    { "e13e72cd7f25a23b4f605050771ce73980ac37ea3c2104a17a6dccfae70b795f",
      "3720f810b9d2fc0c01abe11477689b78ba6515488483b747fdf66f243f2bb387",
      "f2468d65f0c10f82d7989e84b500178f011bc98c199f0bc299c882644373f554"
      "ef4a6eb8ff008bf005aa8b40da21",
      "1041f65b724df64dd279659ade61cddf90672f490453aed4f019dd86fe5eee3c"
      "15c359b01d0f91a34a67bb67b4acf51e229ada29499a0503fcb6eff20be9f59b"
      "4ff57b73e173dcb1faddbb111e645149321883c02b7f2ec265009e1e8331905c"
      "ef72a24111fd80de344b420b51e4daa88e6b3b054dd96f4536f5",
      "79e9eb1f7879d2c2b27e52f3f00fa7c0e813da9bd741f1a3955ea9de04703a86"
      "24f6b7b91b0d720c95432bb57fda",
      "4071822c3d3d92142be2437266fba4701e5c28cab4c11e3ac32d245351b66135" },
    { "1caf2693aa463ae93d13f6b687d7a19fdf047c30d054c2fdb5e07e88b5ab5a08",
      "86603e8c83f17abf6af5d8571e4f78955440c1aa97bb6a6e146d787fcc1d4e50",
      "ea9eddcc4ac951c60afae654d012b307f21c823da4ca44b3276c7f7006ce82c0"
      "7d8caefa665636d6f5031e31bc77",
      "cfbaf3cac9237f19986571ec0e39ed09b1a5107cfde57bea24b3f5dba56bb7db"
      "7459c4fa82ade76f63ec59e9400f4f51188734811bb563131f49c2e2d7184133"
      "4b596a63470b2dfe3a421cc657129b449628e5c1ce39a57ff07f2130643a7256"
      "37014eeba27ff95146a99a06e2584cb9bb3f12",
      "de9912a8bec65989ba4c82daaeebb14aa21246bdcd52d01ae5d4e1aa3d70a122"
      "77651c75d62569349e0e4cebd80b",
      "7af7d1875ed73bf8db71707992f07ffb5fcaa82f5a821c0d3a9000443db1bc45" },
    { "cb1a72f1752672a7fc0ccaf10c76257c047fb767f42c3f23cabc78d35a8cae4d",
      "a48db1fa02317b85f1787ed869f1b13250d7f582304594fdf4a2899d50e22c3f",
      "25f09554ecaab85e2d00c6e76e31222a9ac91b79fe9eccadb6fd38bdb9485028"
      "49ea5ed30470d0d94335a64fbfe0d01f5a5b6afb95a40c5406c43e022520c2c7"
      "27d53f66846e35fa3fedb4c7efa44a16",
      "72c88fc1764d922dcc6f3a61e444213e6f7877ef585c65a57ab9814813c9ae73"
      "b5a4619b316a6cec5e34241ed2f3cc530d105de4e5ca356ad66cb95f2aef4ced"
      "ff42a0522f5f7d9d7a9f2fa54901e914a5b733791ef5236b78d065335477a5ea"
      "c9d626da94b36a76c3f702",
      "ca4afd213fa1a13a18e6ec57488012451cb648902e367edf72902944422f3ddd"
      "bfd4946f5b34292c39ddd84e5c7691afa22f359cec4dd14afd210a5df66a5799"
      "aea2bb57c17f29fcf9c3aeb9c528c260",
      "21ac240f5e13978f67a5a233e6ecadc5e555fa3c5637d29661ed9196556b231e" },
    { "34eeeed632897724c59cc20d82ec745af1a6b43665ac88290c11b9baeda6b80a",
      "562c76d4ff6201116aa3ba82056b43d8106565553efa4f65be2776ec7346156c",
      "485560e1c34a3f1068a77cfd144054f1add7ac802d013adf462fa1e112fef5ca"
      "2ee8b48c1a37f1d62c06",
      "26f75dda69bd27835c891b9d556fb7312ed524c8f4fed9029ad963eae7a43f85"
      "a6dec0146b919e195bcbcf7eeac009ac5aac9ec784175e0d18a25693",
      "4a7861fc50e5c17910876b4cc45b1249ca8b8ed3940e82f5f6bf6e0a161263c6"
      "6005ce91edd32f876c4c",
      "72b792ed7d8e1d5c044c452daab093029c63881044bfa97a819204f8fd87c499" },
    { "ffae6a920ea2fc5baea3c3278f8cbba1f1ab3f07f2499cc87eeb3df3858d67d4",
      "81a53e4c40e507e2071b7f9464914a273065ec7f24c5e6e5d0bb77f6fce20b76",
      "484672fe6dbd8223fa1cc097886e9b73e971a6120b9f909dec308cf1df8d0218"
      "1216b35ca756025dc50f6bfe3d192cc5531ad9bb4dccbc1687afc507539b5fd6"
      "259c80f55fb55cee1708485f78d013a03851e4e6ce28c0",
      "8bb27c47b62c7048b6117e0c631313d2e165c277742a2a1cdddd",
      "8027f08446e70cb72e52679809488940fe1965ec18bf1c56882cc412e41f7727"
      "efc55acd6c2b996b5fac79bf13bfddc7e03b3900f57589215a37ff34241329ca"
      "7b5da9ee238ed7fdaf5b1bbbb172e040d1dccc6acbd8ae",
      "d25734872533b137110dec26861bcb77fe062c0c41775a2a05ccb86365bcac09" },
    { "57f2386e011a547a48e5c8c170bdc2758e246d4fdb4b5f90f06945efb6bf6c9e",
      "8647b48a6ac27f0b6b68f09d9a264963b0b62c8cc8b454ccef9c503e6d568b33",
      "523120a8a391e743e7e2d60fa509345da8145db83631881bcf21c0c56b479909"
      "66ee08a36b361d2660268bfebaa22d4f5a8584c1c04a27693adfef76e910eeac"
      "0454c4c1aa3b",
      "e7b43a9582ba177e97df8725092ae30620a9066c1cdfa627dda1042f5a325a46"
      "496c4b200baff0e0709c52ed0ed82ab11af1efec1e05d044f50d25a38eaf6da2"
      "fc2709e609df95f2dc6500d30caca60e421a169ac0f1f69b1d774f375b942edf"
      "c4151e0c78",
      "a032008e9601e05f87694a001918c0389b66d13ea514f4c2d5c891591856a3e4"
      "5472f74b14c409376060ecd90de7b700b0048cd84bac232f5211768e4185086d"
      "7992103be87e",
      "ce7174bc583746a5183676f5af292df91213a864bae6e6783cc51543cd18e80c" },
    { "29f1e4ad600bc24f64d2a99669f7317add8e61d5d3a3dcda1968b398e7ab3a8d",
      "15190e8300313a59c0c6c4dcb0358cc88f7e856240091f1b1bc599a2ff3aca00",
      "b01d68b18df703fa9d166efd6aa3ac15fd48dc99f4ac806194f0f500be971560"
      "b3135ae422095a",
      "cf90cd99d137d5bb0203c0a97f5d4842f4c0ad975df8a5dd863269b37e94fbcd"
      "941f220736ea4987e9cfb73b17c939be601c40daa99133b9a0f98bdc4e4b77bc"
      "47d307354119a2fab2771285048a273aa859f99a4ceb6bcf5bae19d7b9d76652"
      "9d53e29a384304af8de07e",
      "321523038cedbe3da195d701835cf62941e6260c3c4ce5466e1fe14b36bccfc0"
      "bfcf4955f1f061",
      "75b72ea023300ea4fd27926d097e49d4955c6dd6747ea38d2c33bb21ca61e168" },
    { "4600adc836738547a6e1fb257d6a7c290d4895dcbff2e071dc38bac04f338a30",
      "ab2f8f6a728f1bab52541407027c51a1619c1db32985120f5ab40cef22e08edd",
      "f8cbb1362eab78f7",
      "7adb0527d13748950fc60a8f6879ec1116c73817e343958965359c8f7f7465b2"
      "6fe5da1f43112465be72751de684600456e97856aee757161f6157dafac3",
      "26baa1fd39aa3c33",
      "147f674a8345d803d23714b057bf8c030ffb002b6f9dac1a1a7d7582dd89b746" },
    { "01f560d41c4dcdb3906e687c5fe23c070b9a8a9653987706f3357037d7d512d2",
      "a47633929b3fbfafd2c29d25ab1e8e3b6402aeecff25d60761355ef44ace4cb0",
      "6e085d40606a8042e71fc16b720cec34e47d9bd5e0676f74b6be17f7c78b53ab"
      "910980ed7b0622c248006c0ff9e94b66b8944acfe6857f3241d0abdd8d70a4a8"
      "1eb0c0a86dde53849e34643b9f37e173ed218d88bea948a240",
      "d7631a8eea17f31555b3d4abf16439f763501827180a1f5e58389f796f1c0b46"
      "8f41ea3ff2e1c76cd02d180c9df1e19f6524b2a8d006f2f954f340a2f0a5a979"
      "46d39c34b935f5da5b081f18ecf457b6f0b33a37185ea8af64aa0ade40026580"
      "dafe1a5dfd2c4a7acfa8a8254897c7fd3b",
      "c309272b71ffd6ee1ed80b91ad22fe88d0488fa7c2dc4539f3452d6d6d1508c1"
      "62bb8df3ec1fa5ebbd8ab738387d5b0e649cfd83e17b3e943ccedf4548171c82"
      "cb8f0b2ae39c48d78df07e282cc40c3068dc70f1fc080114c1",
      "786061e81d76bc07550cab11bc1ba1765b41e2967bc8736e11029968cbd85ba4" },
    { "c440e9504cfb4544932adc72ff5fc1b657ba0aae703b1bff33805b7f9b81412d",
      "df08a05337a532382953728ef1e921b772d435803e671a02e9cdba82522714a1",
      "9dfa0945de0d4c2cb76aa55f8b55761911163b87993db7964760dc5e807f003b"
      "6875f74eb34cc160942f580bfba4d96d967d50b1b20b0643ae1a2c73691b6bfb"
      "64403350272686fc8bb3a8e3a5674761c2204ca240e37005",
      "0c9f5ad3e58b9bf021e09b83564c8d74b1b2bf7c8cba0dc8177084a4e1a07bb8"
      "4c30c3566103f538",
      "279ac5eb9bf6e01cd50a0eda161658f331226f4c8d43fdb793ae07f353e6fc2f"
      "2821a01a02be62f515af80633215a908aad8e5199c4ff23a38277ff8f16f1505"
      "8d69fca995718c0d837b6db3bbb5842dd21c07ca35b21bd4",
      "16f09ea8657c053e907bdf8f822936f2cac056af25e0240633c80ae0baf7ade2" },
    { "ca81440758e13fe0b847ea81be8037b1be4cf995f805d4f40c1f421c9864ab9d",
      "aed156910fd8af6af094c74c0ca0fba932b436bc282e0c5c910ffd3651777117",
      "fd83897f98974ac8",
      "64ff6ab0506574c5020e14c45a009192a7a17ffbf6761393e17a86aaf339264a"
      "5c72e9e2b7fd22832a999076dbd49c75145228ba6d36b0372042e22435f34577"
      "a2c3e1c89e2e1846dbc393d57064f016d0487d591fc6b7f8499701f825681820"
      "41929386c821b74a53232dd596b300a13fa09949939967e58b2c0cf2de5b8b",
      "cc1913d2e48750a0",
      "59db1143754b19f380fb1d1b9296fa992b7c2f5adc56f451349d1ff95cd2a1d9" },
    { "a657ee84d894bb98db137d57121d149eee96447353225f701b4c0c8bfc5d9497",
      "1edcd529feb85cd69e484c0989a9b60776437dd4dcf988e3bfcce5bead13f331",
      "4fd8a593ef021f81603e430e0c9eef2fa2e7cab56d86b13a9ecfee70fb96a7bb"
      "0cdc7b23df061ff73b96a289faf0c0756f0c2e4692489e58391eae3574539f40"
      "189fb8735735deda0c8d71ff361155a0d3a574b193a31746f0272001fbe8f840"
      "dbb4f16f522c90096ae5d76209af6eb2e423109d2bf0",
      "fd167c49f8e588d06df1ac5d94d61538e399d0c531aa0ac0f9a1c030dbd3e8b6"
      "49796917f4f8f8078b104352b1564a042ccffd30c19340e067d4f17b0bacc47e"
      "121a8808d06b1ea6bcc06ffbc1bdaed0999dca79212c8df6ec",
      "99f8a75bbaef042167ebfb927e6ff5bdc23e3a2084e539780ffbdc20d9be6d21"
      "e761381f23937f3179aeff80469ba65b8d2169c5695ad2dc64e39d165eb7e57d"
      "ed4ab07182ca59e516b41dc463c2093425d9dcf6a377312e4437d4416d063324"
      "d24945f86c57a060cdb4c182fb3c9094e6c43af38a8d",
      "977af18c47b4e1bf3f6ee45ae865d3e3dd6ebc953c4ee636c3e560beb433c5d6" },
    { "0cb4ac9b372daf29e69a698a434c67bf822f88eabe81c2fbd1869b151bec66ad",
      "b34c3f1d39ac43e9a10ed22019b858a679fc4c629b7554e4b205ec3f31d601d7",
      "40da148ae0cd9eb7d108fe5b04664e6369ac4f24465737a33f2a16164e67a84a"
      "403a66ea3f4166b4304f",
      "1559e36d745dd40b60d8006bfa6ad62f9f1a8a7992de66bbc71d8ddf18fd68ce"
      "01e7910a972a028334f686c3b214d725d3606eb3b762d69fb1460b95e949a724"
      "d09977c41b13fb094e16e186ddd429515e939e641cc38e5f6c492f3cf7495cbe"
      "2b474c48f1890e214edfb8580d1de07855084d69ae241b421ae6",
      "e2c7a3fcd1d66a1f71301dfcfc459ad8c3485f2586a4594a02e46d35dbc4e637"
      "e9562cee2e317adc7120",
      "feae706283fea438eaa7c20641bb8446e9695cd9a0292f99b3b3ed4609a28dee" },
    { "b38e1805f202898c64975134d2369d065b808ca28ac8562bef3dd97b96650b3c",
      "1bd55d1c60a6f84094c52906fb2f711aacb93831fee6dc27fb6a746f4c412012",
      "d4817734cb56d6bd3321c7a3dc4e23d5481703d72075ae6127f1f366a0624bc1"
      "e2ac175db9ee2fe4a9c0a016d1d9955c652970a05dbb4b16f7d2e7275b9a915b"
      "c39df5effea00190b77eeb6fd056cb2951cada1d8ef9c8e9ca0de03d7b2d659c"
      "947c9a82ab512641ae734f82",
      "1be672d193cec78c85db5636ebdfe4f087ab5a2fccff0885fb39b60f901e8d69"
      "21e4d285b5daa19dac9032d6b03a2a81740ba4ffd833e90a942253e607a800c1"
      "ff92",
      "5be3df33c976077a603612ee85cfdf388953e958e5ee0c53271058258dbcc1fa"
      "8e493e044467fd00229b643376448e9958dae478e59808839daa20c983159be8"
      "64a905f97e7e00bf82ac97bfd9d005f3282886b7c1df0b505f75741c518bedea"
      "91f800fcb135688940a38022",
      "5fe7fac48f68d44c9c8d8be7ac95025fb4bf890650af092d1228c4858a8c1a9f" },
    { "bdeb596ed2056c8a78eb1f33340d2b8b0789cc456d6e8db9bb45516233900e29",
      "7096012b1bf4f66f48c1f26ab48d8594d244be86426438993ed1cfad84376c90",
      "5f3638865cb87188951620dfbcf77c6da914372635542fca218b74f5808090f8"
      "ff72919975744dff1a6693a759da7579ee01c449246e12783546333d9201ddd0"
      "e9941acbedc6c1995b09",
      "186d83c27e4831ef0c472840230860513d15b0f3df6a27ce2decb7a53c15e38c"
      "3b043c8a",
      "399b4dbc243c979b481b18a29415fff5065c9da5367679a2bbe60b5864352fa0"
      "96c65cc51c9d5054844b8f0cdacbc638f8defdc81b7d80a9f5b1fa58201f0c51"
      "3dbb192ea93a05dda87f",
      "7f5644fb9adcbc68a86621c4d6d7b1b32a62cda6ccdbe2d5fa8e708a4de8a3f5" },
    { "42985b7c9c97ec16bba3c36bcf82e93205c35a57428262d9e45a7fd494a9020d",
      "be4b2dd3dde2e7a773f7b85f0acb48d65bdbf4d8bfc103eee72697c8834a5058",
      "6bfc05bc2457a43f50a7391a2c38627fb0429a446ac684e7552cd54c07b9608f"
      "716ceeb50d6bc0563247163213e62ca2bbb5067dd00b3d884795a11dab0c96e2"
      "3419ce7779554bf39c50edd6ae225998cf96d1effe70c81d348a938b116fcae5"
      "d402f35aa2900673376576",
      "a7f9f0d4a1cdeb5abf1d927f6968beab9c6ead6995f484c016",
      "985b208c4938d0fd9ac7b653e0d04445fd9666044e79a766c746354cf7c949e8"
      "724170dd76245f2af71ac34d379b0be203bcb863f40081564ba161087605a986"
      "3f5b39c2c7d0f7876c84b02d9131f5284ce5d837662575efedcbb3b012053e2c"
      "4b15ef4ee0010840552759",
      "ac55330373905d10205b0884596166370c6c9c52af6a358bbf09195b3e2f2626" },
    { "50034fdf7205a542055cf377ef546d1fe01ae8c7581806688c04279aeccf76de",
      "215de8afdde0916097f91dda6fecbd18c5e65bc685e10488e99a225a5887d92b",
      "dcd4b2ef9dd40e50adc8ce3fb674801d650e",
      "6f1ce70899b24793fd8ad89784d62ebc43b750faa9bc63fa44e707cb6877dc40"
      "0dbcb85500a386add1052bbf090c637c8c618428040226209023a0db954ac268"
      "24ce40ba5021bb19d1a65ee3e3c4261c9801bd85b9c282753072",
      "df3e9901518fa830aaacab9a5635c861aab5",
      "b2a32c41c181a42175cd9108135f815663981c51f43af547e7942f77ebdc46aa" },
    { "782358a4bf3258130b1ab345e76184bd37eeff55c6efe7b8489626e5ba01741b",
      "3ae5c450b1f426cedd3f5445ee785b6c2718d587f4239053cbad839e7e19f044",
      "454e",
      "bc5971d3c8a7284f6218685581fc0e67572e5f124405136021536da07ec4d443"
      "015de3a708e72eaa943f5b5fb8f485472a3999e95dc3ab7cf72ecba533006681"
      "a49f39b5d5768e9ed22e3cfc7d20d3744308a6518d46a0",
      "8a75",
      "d5cf51a52be53fc9b297efd9c0f3421e598143718f7f46fc3dd542f166a65e8f" },
    { "5958a371e26fff28efef8a6e71a0b81b4a14e3cf57ac75d215376e050468806b",
      "1293abdd7b6c43483f8caa43836922fb3a92feb4eb1476f4fa5ec4f06a0431f7",
      "06544eb4f4baafd8880df8a4e1da38d3111149aef41669b56ae2",
      "5f6cd8814bf4915f08cbf1",
      "e4b718de939d6fbb41e32b57098b08fa16bd39ccc085625d0546",
      "d1a48afe22b3c7d28e239f103b93b0a200428f4bb8e80fcb2e5110fd1ed780eb" },
    { "7bdcad0b011743f3dec12c999ac89b28f60e03564cd076fbf0183457846e606b",
      "e008a14a3fb5e56e89e02d5fec31b37b3fb6357682bc3db3368f25987f6205c2",
      "c2bc1a650114c6d522d2f928c6a65fb6abcca554336dfb70b51f61558a349387"
      "b35462bba19c3f8f13488fd4812f9d6d58d04a6ca93e8dad62a5f695a0834dd9"
      "9f876294",
      "18066e9f8cdd274090f075f3047a455ca6be1ec4d1672acb013f328a1d981bec"
      "e9b9c9f0f38dd25db8523b885b47cfaba4844d5bb3972591bdc2b68062e7fb0e"
      "08773506e7851a18fbc6cd29c29358a347ea195a10f5a7d874010909278395f2"
      "f9820ee8eb6655602b7b44c6c1642b9c157cc5c1a454e1b18b46",
      "bcf887985dc0e45a156b522f02c4b2adbf90a2b30f4a30ee68505df9c61d3857"
      "a6216a827c98d1d7df6dc664a52632b61361f4d86ca646c83f690015535b149c"
      "545efed3",
      "bd2cbde77f6ef4955e956d440226534942f7a41a659eb826647b3a99a57efa87" },
    { "21505992872622190e47da3d4a985ceaf356b35e096429bdff8e4a21fcbeccac",
      "8b4ab2427a4177cd205fda2b2b31f8f5ecc5ff591262791f88f54535f3054977",
      "1ceea40aba4d9328718e9939eaba25f5b558ed0df855e743cc958506b4d0c5e4"
      "4d0690b9637bf94a30e861ed9260e254d602be895f173453a7977236846c4687"
      "d2b38470f074b07e16e67721646989421cf5081555fa7bef42a830666e6c2c9b"
      "61ba14932210",
      "106f5b1fed2f5d3a102733ef6fbb7e190e508e7e8cb73766bf18fa4d50b87d6f"
      "83144f9b616dceef6c0b085f09e427f7f0985a535fd9edf3bc05aa8dbc0db601"
      "cb4f90761420164fba50a68c5a87322fecbe28c902b03035e88d499af758eb20"
      "49659f2561ee6c5210579f8c0c",
      "1562c0d501518e478b0c5561b32a79bbf5249d0eb8db411190454b4f3a458bfc"
      "200f65af91a22eb0fce63c726cb2b51023d294c9a35e0ff842da517d6f91b612"
      "6c0ecfccd72cfc35d7ef98f11ebbb4cd071c2eafeda598a5ccf4e09d8cff52ed"
      "583d968525a7",
      "1dfe935ef87488e515897c850bc899d4a9844d512969802e98be90c0343bc146" },
    { "337bd1641222ad96608b0928eb3e05fee02a6fb1e2f66cb4c9b698d1d96ee39b",
      "b532f2e6485513a5b21a6326beded2b3a74bc49c74db3f7a23e440e5bc864e7d",
      "9cdf9d6c42cff95ca0bf8d199962f55ce013348fb06d878b10a344ad5a7b2b29"
      "81b0e44ddb7dda1f74bcd24f3ff1bb63da249bb02234edf123305759780e45ac"
      "e82aac7a95adbd1c7e72741e374c82a4524146d13589ef28ee5936789e65724b"
      "10406aff6d19d0fee8289033c094bed67df3fd45b0bdd52fccc25492cd335a",
      "efa6fdd7e4c161a5cc2eb6d67b14d6d8f16ecd3c52e8c9720709c321de05973b"
      "51750a7286120a50b3039e54c4c5e09785f815ddb5eb528b43e972bf4c60e412"
      "52",
      "4616337212a9b1fb827ad8729cf40a8309330dcc958ac0d5f73c9e57279de692"
      "80065e13fd1309153243c1303cf116227392c9ce4b8ab505a580c06926587378"
      "c83f49c30021a1f4038180fedbe90259a9d468c87bdff827da1d01a123fbd5b0"
      "91d62d3b17e3ce7f4e83cba4510dc1e41b420c2ffc7544464befe9eb5a898d",
      "709914dea13632a2127159bf004a73349efc090a46bfecec911c63679a1540e6" },
    { "88f3c9cd7b2f27295c5defc7ba7071996ae5d558192c1a4788efe8a3bc3559d0",
      "d1ec8bbec1bd039825009a00b35522ad81c8de7bbfb698551f880b05319330c6",
      "5fc7d4fba7f9018c91533584a5e61be925559d1c8b1270621aaa2f0f51ec69ee"
      "7b14628841e2a234f3ed4279e589bc40339928d600f79a051db41699a98a2638"
      "64ae34909a7c37e9c833c106bc5e996c730879d7b94d18c87741a3e72bbbd30a"
      "5c7a",
      "9c",
      "efec904dfe14b42ca52b083ca46fc0ab80877b425e8cfbafdbcdf8600bcaa64a"
      "fa05119ebbdd0f8db82ae71236c24cac6cc53b9e0ec701f94ae4a9217f9f63ad"
      "426394793cebb1f0af7ba4bf0dc8ac621c48e2a435955afc79f095ba518e20bb"
      "e360",
      "1ed588fb6966a006fccc5f5a6e57949f9389f89c3e346bd8851610a0b159e958" },
    { "db7c3c7c7e5aa8a1c5cd5173bfb0d25958db4038a3d8deb705c102935fea8f21",
      "315686635d388d5b2ecf3b12a8450280d92555a6920f6ad3b48ba3b4f8ec5053",
      "939b319d85880267f8be72b69d2a22ba2460bbd7ce68cfc9398afce09c4f0005"
      "cf510db2aa894dcbf08120f07640255a9464056ec16765521f23d602b5af51ca"
      "b7133cf01123b3038cd7dc47fdd7801c46fd628de0aa",
      "b2da",
      "783dbc7d88eb43f69d7330326e58555f58df2e75a019586beb5e4a303a3b3e44"
      "39677fd7e00a6826372cb2bc15c25ab445bb0dfa8aae1f4d9b5d6ded219e6903"
      "7c161c7fd5911bf08e3179419dbef05d37df75fb19c2",
      "b96409a14cdac61218fcc2ece389e570ac6c665856f36d98fa01be4d767b960c" },
    { "cf1f1538739072f57ebf0fa4090a63c72cf8f5bb904effb6051073596ed1dd19",
      "41e11d23771626febef2435eaefddf0c93a484ea6c4c7fa0bfd48f93e50b646d",
      "a22ba67dac88efd1988863f8991bfc9dbb9dc1a34e3866b0a51e088671971225"
      "fed3bc0369b0bccb436249d6fa30e7",
      "80d7f1fc70203411f8827cd7eec9888f26e39e055d8fd1c2876e1e252b3b1436"
      "3f493100f157d8246c29b973a490338dfa0bcb52221d260875a65e22a56f655a"
      "55330933b35e2937c53a625a55bf40564fc58f742ecf54aed0536ca3f7c59f6d",
      "b3c76b03eb90c78ca281f178f30a92a98ed9966698ceb24f15f6c5ebf2e65ec4"
      "880543847005a58006a0829d2d00b3",
      "22f4354c7487a2db0c8c2249fe96909ea1cc9a053447b4a83ad396e3b3ec87ca" },
    { "38a7aa902690a3e1b285953e0121eae7304815e12a015fa98cbd227e6f7d73c1",
      "f23f9ac01c0b118b684f10031836f7c92e8a70eea0e916dba2952b685ae2c148",
      "995580acc337ee1216802b1a45daf0df12280eb94953ac61916d35eee038e5ea"
      "1d1f53da1c6a3e17d54dd1555e79c4ac988494f805715f59f2404eee2fdb592f"
      "a538928d",
      "6b726ca02fa44684e7d92ddb0b6e2f30d6a6e75b537f209d21bf2375718b4092"
      "286ea592f3c1750af21b12f649611370ee4bfac05e0281c9731242c507a56d9d"
      "6522c26e172fb406f3e61efbf3c346917988a1dc85c829d51d3954a0825d2ca4"
      "d0e2a784c78ea07bfc5973e80fe6b34ccfe72457",
      "c73f3832441f59ce54910fd16dca9e2bd59a168ccd658ba3eb87fbb1ba561f63"
      "ad73ecf9618481bc6e8c8020c60e8194cc65bdea155f0f6cc79adaf2334c0997"
      "93efba4a",
      "5c52422a24f79990f26224082d375bf81eaf5df242389c894cf89c4d0131d01e" },
    { "aa54db3f1c5e6405d443afcf4a463974448435f4002d64044a21a04c269759b9",
      "0711d3a79176e4c75ac8cc1ecdbadd4203a6a4b9eda4c2ef17150f493d645b8b",
      "5a80d351e6a2682a6ceeb374acf59de7e7",
      "171077e40c0a689d44003bd1ce56c08b81f6fa3c118cf448f5e8b6386328d5e3"
      "465132e5bdf4f73e60b1b1e6e021d05f6881fe7ec8be523ae7e6c57dd1b0af69"
      "39b79dc785d584400dfb71aabc336817e295a922aa1d46b873ad38633099ffbe"
      "cbf43527a1e64f98d82cf85a18",
      "5026a9cbdd2239c6a9abd45e36d5b46b14",
      "afe7bea6340c227c0f062e73a05e1be4aa63b93d35f2322322d3e855e0ef5887" },
    { "c3dddd6891c6081f6b478a6cf89574636c8905efbc8079ef1924b97036a050ef",
      "abc30e2892910e8c3fb83d4cb6f93eea614a7ff03b750e31ad5fc74ab77e0715",
      "079db15c3fc075189ca979ae738e72f0e5a35410b0b746d2d92874f58214cedd"
      "7e69a5337485ff038a44f18cbb6c9bb02bc396aa128b87e7888011e803fd9f43"
      "dd43494dfb2b58981d1f95820be9d37cec3bc4f779861cf59137f764dd88ea41"
      "cf044d9a",
      "56c59f42c3429832f9f2333099d2c422ea40cf36162b162e6cda56a9",
      "6910f3c047011cf301c6d8458ca4d1c40aafc129476a9c89da7b35ced9479edd"
      "3c7cbd5c1ae7a8fabff159cce121c170c1e1a884255b08758d640371d26eb031"
      "ae92d1deb7091f202bff0698ca059eae8ae572ada217b6d3df5d446aa5aef503"
      "eda02f5e",
      "f5d285ebf784c68df40ff4324bf79d0808d43f0739d297f4238b833a7cf9c013" },
    { "77716c56b9f0e158530b24ae8bc160f827eb4a11ee3b1bb3fbef3922e41d58c1",
      "f340f377c03ffca01829e013ba7a175b158ac51e5ec84e13dcc1a1974e157557",
      "2b9b2bf80c7c65d0a2d243cfac9d01ec9a0250b5e985d430f5eed4ca6aa62b31"
      "e3f5d4256a9c998fc588c69486ad41618d8b9094468f9e74b6",
      "d314a97f25ebbb16aa2d8a444c70474b5733fa18507c544515ac905450507c70"
      "8868a7c3847705fcc3b7651a72a215675a24d44aec160c562c1d68f859dcd4b9"
      "aa3569595e040ef6",
      "a58d41ed071ccfd12e01de4038783e6b23f84f55354dc0368a025cb9ceff0aa0"
      "1d9e77badba040fdbc5cd984f95f4c6c6ad1151f02b5687ffd",
      "f66ee48f6ab2bbdf3ebd292a11c997bfd6f81ef5a9b61f0c9c5f9e77d7fa2624" },
};

typedef void (*aegis_fn)(uint8_t *c, uint8_t *tag, const uint8_t *m, size_t mlen,
                         const uint8_t *ad, size_t adlen, const uint8_t *npub,
                         const uint8_t *k);

static void
aegis_one(const char *what, unsigned idx, aegis_fn fn, size_t taglen,
          size_t keybytes, size_t noncebytes, const char *key_hex,
          const char *nonce_hex, const char *ad_hex, const char *msg_hex,
          const char *ct_hex, const char *tag_hex)
{
    uint8_t *k, *n, *ad, *m, *c;
    uint8_t  tag[32];
    size_t   klen, nlen, adlen, mlen;

    k  = unhex(key_hex, &klen);
    n  = unhex(nonce_hex, &nlen);
    ad = unhex(ad_hex, &adlen);
    m  = unhex(msg_hex, &mlen);
    c  = (uint8_t *) malloc(mlen + 1);
    if (c == NULL || klen != keybytes || nlen != noncebytes) {
        exit(2);
    }
    fn(mlen ? c : NULL, tag, mlen ? m : NULL, mlen, adlen ? ad : NULL, adlen, n, k);
    check(what, idx, c, mlen, ct_hex);
    check(what, idx, tag, taglen, tag_hex);
    free(k);
    free(n);
    free(ad);
    free(m);
    free(c);
}

static void w128l_32(uint8_t *c, uint8_t *tag, const uint8_t *m, size_t mlen,
                     const uint8_t *ad, size_t adlen, const uint8_t *npub, const uint8_t *k)
{
    ref_aegis128l_encrypt(c, tag, m, mlen, ad, adlen, npub, k);
}
static void w128l_16(uint8_t *c, uint8_t *tag, const uint8_t *m, size_t mlen,
                     const uint8_t *ad, size_t adlen, const uint8_t *npub, const uint8_t *k)
{
    ref_aegis128l_encrypt_tag16(c, tag, m, mlen, ad, adlen, npub, k);
}
static void w256_32(uint8_t *c, uint8_t *tag, const uint8_t *m, size_t mlen,
                    const uint8_t *ad, size_t adlen, const uint8_t *npub, const uint8_t *k)
{
    ref_aegis256_encrypt(c, tag, m, mlen, ad, adlen, npub, k);
}
static void w256_16(uint8_t *c, uint8_t *tag, const uint8_t *m, size_t mlen,
                    const uint8_t *ad, size_t adlen, const uint8_t *npub, const uint8_t *k)
{
    ref_aegis256_encrypt_tag16(c, tag, m, mlen, ad, adlen, npub, k);
}

static void
test_aegis(void)
{
    size_t i;

    for (i = 0; i < sizeof aegis128l_draft_tv / sizeof aegis128l_draft_tv[0]; i++) {
        aegis_one("aegis128l draft tv (tag128)", (unsigned) i + 1, w128l_16, 16, 16, 16,
                  aegis128l_draft_tv[i].key, aegis128l_draft_tv[i].nonce,
                  aegis128l_draft_tv[i].ad, aegis128l_draft_tv[i].msg,
                  aegis128l_draft_tv[i].ct, aegis128l_draft_tv[i].tag128);
        aegis_one("aegis128l draft tv (tag256)", (unsigned) i + 1, w128l_32, 32, 16, 16,
                  aegis128l_draft_tv[i].key, aegis128l_draft_tv[i].nonce,
                  aegis128l_draft_tv[i].ad, aegis128l_draft_tv[i].msg,
                  aegis128l_draft_tv[i].ct, aegis128l_draft_tv[i].tag256);
    }
    for (i = 0; i < sizeof aegis256_draft_tv / sizeof aegis256_draft_tv[0]; i++) {
        aegis_one("aegis256 draft tv (tag128)", (unsigned) i + 1, w256_16, 16, 32, 32,
                  aegis256_draft_tv[i].key, aegis256_draft_tv[i].nonce,
                  aegis256_draft_tv[i].ad, aegis256_draft_tv[i].msg,
                  aegis256_draft_tv[i].ct, aegis256_draft_tv[i].tag128);
        aegis_one("aegis256 draft tv (tag256)", (unsigned) i + 1, w256_32, 32, 32, 32,
                  aegis256_draft_tv[i].key, aegis256_draft_tv[i].nonce,
                  aegis256_draft_tv[i].ad, aegis256_draft_tv[i].msg,
                  aegis256_draft_tv[i].ct, aegis256_draft_tv[i].tag256);
    }
    for (i = 0; i < sizeof aegis128l_repo_tv / sizeof aegis128l_repo_tv[0]; i++) {
        aegis_one("aegis128l test-suite tv", (unsigned) i, w128l_32, 32, 16, 16,
                  aegis128l_repo_tv[i].key, aegis128l_repo_tv[i].nonce,
                  aegis128l_repo_tv[i].ad, aegis128l_repo_tv[i].msg,
                  aegis128l_repo_tv[i].ct, aegis128l_repo_tv[i].tag256);
    }
    for (i = 0; i < sizeof aegis256_repo_tv / sizeof aegis256_repo_tv[0]; i++) {
        aegis_one("aegis256 test-suite tv", (unsigned) i, w256_32, 32, 32, 32,
                  aegis256_repo_tv[i].key, aegis256_repo_tv[i].nonce,
                  aegis256_repo_tv[i].ad, aegis256_repo_tv[i].msg,
                  aegis256_repo_tv[i].ct, aegis256_repo_tv[i].tag256);
    }
}

int
main(void)
{
    test_sha2();
    test_hmac();
    test_hkdf();
    test_blake2b();
    test_siphash();
    test_aes();
    test_aegis();
    if (n_fail != 0) {
        printf("ref_hash selftest FAILED (%u of %u checks)\n", n_fail,
               n_vectors + n_aux);
        return 1;
    }
    printf("%u auxiliary checks passed\n", n_aux);
    printf("ref_hash selftest OK (%u vectors)\n", n_vectors);
    return 0;
}
