/*
 * ref_stream_xcheck.c - cross-check of ref_stream.c against OpenSSL 3.x
 * libcrypto (a second, unrelated implementation):
 *
 *   ref_chacha20_ietf_xor           vs EVP_CIPHER "ChaCha20"
 *   ref_aead_chacha20poly1305_ietf  vs EVP_CIPHER "ChaCha20-Poly1305"
 *   ref_poly1305                    vs EVP_MAC    "POLY1305"
 *
 * for every length 0..300, several keys / nonces / counters / AD lengths.
 *
 * Build: gcc -O2 -Wall -Wextra -o xcheck ref_stream.c ref_stream_xcheck.c -lcrypto
 * Exit status 0 on full agreement.
 */
#include <stdint.h>
#include <stdio.h>
#include <stdlib.h>
#include <string.h>

#include <openssl/evp.h>

#include "ref_stream.h"

#define MAXLEN 300
#define NKEYS 4

static unsigned long n_cmp;
static int           n_fail;

static void
die(const char *what)
{
    fprintf(stderr, "OpenSSL call failed: %s\n", what);
    exit(2);
}

/* Small deterministic generator (xorshift64*) for test inputs only. */
static uint64_t rng_state = 0x9e3779b97f4a7c15ULL;

static uint8_t
rng_byte(void)
{
    rng_state ^= rng_state >> 12;
    rng_state ^= rng_state << 25;
    rng_state ^= rng_state >> 27;
    return (uint8_t) ((rng_state * 0x2545f4914f6cdd1dULL) >> 56);
}

static void
rng_fill(uint8_t *p, size_t n)
{
    size_t i;

    for (i = 0; i < n; i++) {
        p[i] = rng_byte();
    }
}

static void
report(const char *what, size_t len, size_t adlen, int keyno,
       const uint8_t *a, const uint8_t *b, size_t n)
{
    size_t i;

    n_fail++;
    printf("MISMATCH %s: len=%lu adlen=%lu key#%d\n  ref    :", what,
           (unsigned long) len, (unsigned long) adlen, keyno);
    for (i = 0; i < n; i++) {
        printf("%02x", a[i]);
    }
    printf("\n  openssl:");
    for (i = 0; i < n; i++) {
        printf("%02x", b[i]);
    }
    printf("\n");
}

static void
compare(const char *what, size_t len, size_t adlen, int keyno,
        const uint8_t *a, const uint8_t *b, size_t n)
{
    n_cmp++;
    if (n > 0 && memcmp(a, b, n) != 0) {
        report(what, len, adlen, keyno, a, b, n);
    }
}

/* OpenSSL ChaCha20: 16-byte IV = le32(counter) || 12-byte nonce */
static void
ossl_chacha20(uint8_t *out, const uint8_t *in, size_t len,
              const uint8_t key[32], const uint8_t nonce[12],
              uint32_t counter)
{
    EVP_CIPHER_CTX *ctx = EVP_CIPHER_CTX_new();
    uint8_t         iv[16];
    int             outl = 0, total = 0;

    if (ctx == NULL) {
        die("EVP_CIPHER_CTX_new");
    }
    iv[0] = (uint8_t) (counter & 0xff);
    iv[1] = (uint8_t) ((counter >> 8) & 0xff);
    iv[2] = (uint8_t) ((counter >> 16) & 0xff);
    iv[3] = (uint8_t) ((counter >> 24) & 0xff);
    memcpy(iv + 4, nonce, 12);
    if (EVP_EncryptInit_ex(ctx, EVP_chacha20(), NULL, key, iv) != 1) {
        die("EVP_EncryptInit_ex(chacha20)");
    }
    if (len > 0) {
        if (EVP_EncryptUpdate(ctx, out, &outl, in, (int) len) != 1) {
            die("EVP_EncryptUpdate(chacha20)");
        }
        total = outl;
    }
    if (EVP_EncryptFinal_ex(ctx, out + total, &outl) != 1) {
        die("EVP_EncryptFinal_ex(chacha20)");
    }
    total += outl;
    if ((size_t) total != len) {
        die("chacha20 output length");
    }
    EVP_CIPHER_CTX_free(ctx);
}

static void
ossl_chacha20poly1305(uint8_t *c, uint8_t tag[16], const uint8_t *m,
                      size_t mlen, const uint8_t *ad, size_t adlen,
                      const uint8_t nonce[12], const uint8_t key[32])
{
    EVP_CIPHER_CTX *ctx = EVP_CIPHER_CTX_new();
    int             outl = 0, total = 0;

    if (ctx == NULL) {
        die("EVP_CIPHER_CTX_new");
    }
    if (EVP_EncryptInit_ex(ctx, EVP_chacha20_poly1305(), NULL, NULL, NULL) !=
        1) {
        die("EVP_EncryptInit_ex(chacha20-poly1305)");
    }
    if (EVP_CIPHER_CTX_ctrl(ctx, EVP_CTRL_AEAD_SET_IVLEN, 12, NULL) != 1) {
        die("SET_IVLEN");
    }
    if (EVP_EncryptInit_ex(ctx, NULL, NULL, key, nonce) != 1) {
        die("EVP_EncryptInit_ex(key, nonce)");
    }
    if (adlen > 0) {
        if (EVP_EncryptUpdate(ctx, NULL, &outl, ad, (int) adlen) != 1) {
            die("EVP_EncryptUpdate(aad)");
        }
    }
    if (mlen > 0) {
        if (EVP_EncryptUpdate(ctx, c, &outl, m, (int) mlen) != 1) {
            die("EVP_EncryptUpdate(msg)");
        }
        total = outl;
    }
    if (EVP_EncryptFinal_ex(ctx, c + total, &outl) != 1) {
        die("EVP_EncryptFinal_ex");
    }
    total += outl;
    if ((size_t) total != mlen) {
        die("aead output length");
    }
    if (EVP_CIPHER_CTX_ctrl(ctx, EVP_CTRL_AEAD_GET_TAG, 16, tag) != 1) {
        die("GET_TAG");
    }
    EVP_CIPHER_CTX_free(ctx);
}

static void
ossl_poly1305(uint8_t tag[16], const uint8_t *msg, size_t len,
              const uint8_t key[32])
{
    EVP_MAC     *mac = EVP_MAC_fetch(NULL, "POLY1305", NULL);
    EVP_MAC_CTX *ctx;
    size_t       outl = 0;

    if (mac == NULL) {
        die("EVP_MAC_fetch(POLY1305)");
    }
    ctx = EVP_MAC_CTX_new(mac);
    if (ctx == NULL) {
        die("EVP_MAC_CTX_new");
    }
    if (EVP_MAC_init(ctx, key, 32, NULL) != 1) {
        die("EVP_MAC_init");
    }
    if (len > 0) {
        if (EVP_MAC_update(ctx, msg, len) != 1) {
            die("EVP_MAC_update");
        }
    }
    if (EVP_MAC_final(ctx, tag, &outl, 16) != 1 || outl != 16) {
        die("EVP_MAC_final");
    }
    EVP_MAC_CTX_free(ctx);
    EVP_MAC_free(mac);
}

int
main(void)
{
    static const uint32_t counters[] = { 0, 1, 2, 7, 0x12345678u,
                                         0xfffffff0u };
    static const size_t   adlens[]   = { 0, 1, 12, 15, 16, 17, 31, 32, 33,
                                         48, 63, 64, 65, 100 };
    uint8_t key[32], nonce[12], ad[100];
    uint8_t m[MAXLEN + 1], a[MAXLEN + 1], b[MAXLEN + 1];
    uint8_t taga[16], tagb[16];
    size_t  len, i, j;
    int     k;

    for (k = 0; k < NKEYS; k++) {
        switch (k) {
        case 0:
            memset(key, 0, sizeof key);
            memset(nonce, 0, sizeof nonce);
            break;
        case 1:
            memset(key, 0xff, sizeof key);
            memset(nonce, 0xff, sizeof nonce);
            break;
        default:
            rng_fill(key, sizeof key);
            rng_fill(nonce, sizeof nonce);
            break;
        }
        rng_fill(ad, sizeof ad);

        for (len = 0; len <= MAXLEN; len++) {
            if (k == 1) {
                memset(m, 0xff, sizeof m); /* all-ones Poly1305 blocks */
            } else {
                rng_fill(m, sizeof m);
            }

            /* ChaCha20-IETF, message and pure keystream (NULL input) */
            for (i = 0; i < sizeof counters / sizeof counters[0]; i++) {
                memset(a, 0xee, sizeof a);
                memset(b, 0xee, sizeof b);
                ref_chacha20_ietf_xor(a, m, len, key, nonce, counters[i]);
                ossl_chacha20(b, m, len, key, nonce, counters[i]);
                compare("chacha20-ietf xor", len, 0, k, a, b, len + 1);

                memset(a, 0xee, sizeof a);
                ref_chacha20_ietf_xor(a, NULL, len, key, nonce, counters[i]);
                for (j = 0; j < len; j++) {
                    a[j] ^= m[j];
                }
                compare("chacha20-ietf keystream", len, 0, k, a, b, len + 1);
            }

            /* Poly1305 */
            ref_poly1305(taga, m, len, key);
            ossl_poly1305(tagb, m, len, key);
            compare("poly1305", len, 0, k, taga, tagb, 16);

            /* AEAD */
            for (i = 0; i < sizeof adlens / sizeof adlens[0]; i++) {
                memset(a, 0xee, sizeof a);
                memset(b, 0xee, sizeof b);
                ref_aead_chacha20poly1305_ietf(a, taga, m, len, ad, adlens[i],
                                               nonce, key);
                ossl_chacha20poly1305(b, tagb, m, len, ad, adlens[i], nonce,
                                      key);
                compare("aead ciphertext", len, adlens[i], k, a, b, len + 1);
                compare("aead tag", len, adlens[i], k, taga, tagb, 16);
            }
        }
    }

    if (n_fail != 0) {
        printf("ref_stream xcheck FAILED: %d mismatches in %lu comparisons\n",
               n_fail, n_cmp);
        return 1;
    }
    printf("ref_stream xcheck OK (%lu comparisons against OpenSSL)\n", n_cmp);
    return 0;
}
