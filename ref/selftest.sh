#!/bin/sh
# Oracle validation (run by vf/setup.py): every reference model must pass its published vectors. A failure here makes setup
# fail; it never becomes a VIOLATION.
set -e
cd "$(dirname "$0")"
B=../build/refselftest; mkdir -p $B
python3 gen_box_table.py
gcc -O2 -o $B/st_stream ref_stream.c ref_stream_selftest.c && $B/st_stream
gcc -O2 -o $B/st_hash ref_hash.c ref_hash_selftest.c && $B/st_hash
if [ -d /root/miniconda/include/openssl ]; then   # OpenSSL >= 3.2 (Argon2 KDF) as a second opinion; the system libcrypto 3.0 has none
  gcc -O2 -I/root/miniconda/include -o $B/st_argon2 ref_argon2.c ref_argon2_selftest.c -L/root/miniconda/lib -Wl,-rpath,/root/miniconda/lib -lcrypto && REF_ARGON2_QUICK=${REF_ARGON2_QUICK-1} $B/st_argon2
else
  gcc -O2 -o $B/st_argon2 ref_argon2.c ref_argon2_selftest.c -lcrypto && { $B/st_argon2 || [ $? = 2 ]; }   # rc 2 = RFC vectors OK, OpenSSL grid unavailable
fi
if [ -f ec25519.py ]; then python3 ec25519.py; fi
python3 pwhash_str.py
if [ "${VERIF_XCHECK:-0}" = "1" ]; then
  gcc -O2 -o $B/xc_stream ref_stream.c ref_stream_xcheck.c -lcrypto && $B/xc_stream
  gcc -O2 -o $B/xc_hash ref_hash.c ref_hash_xcheck.c -lcrypto && $B/xc_hash
  python3 ref_hash_xcheck.py
fi
echo "reference self-tests OK"
