#!/usr/bin/python3
"""
ec25519.py - independent reference model for Curve25519 / edwards25519 /
ristretto255 / RFC 9380 hash-to-curve, written from the RFCs with Python big
integers.  Standard library only.  NOT constant time, NOT for production use:
this is a verification oracle.

Sources:  RFC 7748 (X25519), RFC 8032 (Ed25519), RFC 9496 (ristretto255),
          RFC 9380 (hash-to-curve, suites edwards25519_XMD:SHA-512_ELL2_{RO,NU}_).

Conventions
  * field elements are Python ints in [0, P)
  * Edwards points in the public API are affine tuples (x, y)
  * the ristretto255 "internal point" is also an affine Edwards tuple (x, y)
  * all byte strings are little-endian unless an RFC says otherwise
    (RFC 9380 hash_to_field uses big-endian OS2IP)

Run `python3 ec25519.py` for the self-test.
"""

import hashlib

# --------------------------------------------------------------------------
# constants
# --------------------------------------------------------------------------

P = 2**255 - 19
L = 2**252 + 27742317777372353535851937790883648493
MASK255 = 2**255 - 1


def inv(x):
    """Multiplicative inverse mod P; inv(0) == 0 (the RFC 9380 inv0 convention)."""
    x %= P
    if x == 0:
        return 0
    return pow(x, -1, P)


D = (-121665 * inv(121666)) % P
D2 = (2 * D) % P
SQRT_M1 = pow(2, (P - 1) // 4, P)

assert D == 37095705934669439343138083508754565189542113879843219016388785533085940283555
assert SQRT_M1 == 19681161376707505956807079304988542015446066515923890162744021073123829784752
assert (SQRT_M1 * SQRT_M1 + 1) % P == 0

# Montgomery curve25519 parameters
MONT_A = 486662
A24 = 121665  # (A - 2) / 4, as used by the RFC 7748 ladder

# --------------------------------------------------------------------------
# field helpers
# --------------------------------------------------------------------------


def is_negative(x):
    """RFC 9496 / RFC 8032 'sign': least significant bit of the canonical rep."""
    return (x % P) & 1


def fe_abs(x):
    x %= P
    return P - x if x & 1 else x


def fe_neg(x):
    return (-x) % P


def fe_from_bytes(b, mask_top_bit=True):
    """Little-endian 32 bytes -> int.  Not reduced."""
    assert len(b) == 32
    v = int.from_bytes(b, "little")
    if mask_top_bit:
        v &= MASK255
    return v


def fe_to_bytes(x):
    return (x % P).to_bytes(32, "little")


def is_square(x):
    x %= P
    return x == 0 or pow(x, (P - 1) // 2, P) == 1


def fe_sqrt(x):
    """Some square root of x mod P, or None.  (p = 5 mod 8, RFC 8032 5.1.3)"""
    x %= P
    r = pow(x, (P + 3) // 8, P)
    if (r * r - x) % P == 0:
        return r
    r = (r * SQRT_M1) % P
    if (r * r - x) % P == 0:
        return r
    return None


def sqrt_ratio_m1(u, v):
    """RFC 9496 section 4.2.  Returns (was_square, r) with r non-negative.
    r = sqrt(u/v) if u/v is square, else sqrt(SQRT_M1*u/v); (True,0) if u==0,
    (False,0) if v==0 and u!=0."""
    u %= P
    v %= P
    v3 = (v * v % P) * v % P
    v7 = (v3 * v3 % P) * v % P
    r = (u * v3 % P) * pow(u * v7 % P, (P - 5) // 8, P) % P
    check = v * (r * r % P) % P
    correct_sign = check == u
    flipped_sign = check == (-u) % P
    flipped_sign_i = check == ((-u) * SQRT_M1) % P
    r_prime = (SQRT_M1 * r) % P
    if flipped_sign or flipped_sign_i:
        r = r_prime
    r = fe_abs(r)
    was_square = correct_sign or flipped_sign
    return (was_square, r)


# --------------------------------------------------------------------------
# X25519 (RFC 7748)
# --------------------------------------------------------------------------


def clamp(k_bytes):
    """RFC 7748 decodeScalar25519 / RFC 8032 pruning.  Returns an int."""
    assert len(k_bytes) == 32
    k = bytearray(k_bytes)
    k[0] &= 248
    k[31] &= 127
    k[31] |= 64
    return int.from_bytes(k, "little")


def clamp_bytes(k_bytes):
    return clamp(k_bytes).to_bytes(32, "little")


def mont_ladder(k, u, bits=255):
    """RFC 7748 section 5 Montgomery ladder: x-coordinate of k*(u,?) for an
    integer k < 2**bits.  Returns the affine u (0 for the point at infinity)."""
    p = P
    x1 = u % p
    x2, z2, x3, z3 = 1, 0, x1, 1
    swap = 0
    for t in range(bits - 1, -1, -1):
        kt = (k >> t) & 1
        if swap ^ kt:
            x2, x3 = x3, x2
            z2, z3 = z3, z2
        swap = kt
        a = x2 + z2
        b = x2 - z2
        aa = a * a % p
        bb = b * b % p
        e = aa - bb
        da = (x3 - z3) * a % p
        cb = (x3 + z3) * b % p
        t1 = da + cb
        t2 = da - cb
        x3 = t1 * t1 % p
        z3 = x1 * (t2 * t2 % p) % p
        x2 = aa * bb % p
        z2 = e * (aa + A24 * e) % p
    if swap:
        x2, x3 = x3, x2
        z2, z3 = z3, z2
    return x2 * inv(z2) % p


def x25519(k_bytes, u_bytes):
    """RFC 7748 X25519(k, u): clamps k, masks bit 255 of u, accepts
    non-canonical u (reduced mod p).  Returns 32 bytes (may be all-zero for
    small-order inputs; RFC 7748 leaves that check to the caller)."""
    k = clamp(k_bytes)
    u = fe_from_bytes(u_bytes, mask_top_bit=True) % P
    return fe_to_bytes(mont_ladder(k, u, 255))


X25519_BASE = (9).to_bytes(32, "little")


def x25519_base(k_bytes):
    return x25519(k_bytes, X25519_BASE)


def x25519_base_via_edwards(k_bytes):
    """Same result as x25519_base, computed as the Montgomery u of clamp(k)*B
    on edwards25519 (independent path; faster because of the base table)."""
    return fe_to_bytes(ed_y_to_mont_u(_from_ext(_ext_base_mult(clamp(k_bytes)))[1]))


def x25519_checked(k_bytes, u_bytes):
    """x25519 but returns None when the shared secret is all-zero
    (RFC 7748 section 6.1 optional check)."""
    out = x25519(k_bytes, u_bytes)
    return None if out == bytes(32) else out


def x25519_noclamp(k_int, u_bytes):
    """Ladder with an arbitrary non-negative integer scalar (no clamping)."""
    u = fe_from_bytes(u_bytes, mask_top_bit=True) % P
    return fe_to_bytes(mont_ladder(k_int, u, max(k_int.bit_length(), 1)))


# --------------------------------------------------------------------------
# edwards25519: -x^2 + y^2 = 1 + d x^2 y^2
# --------------------------------------------------------------------------

IDENTITY = (0, 1)


def is_on_curve(pt):
    x, y = pt
    x %= P
    y %= P
    xx = x * x % P
    yy = y * y % P
    return (yy - xx - 1 - D * xx % P * yy) % P == 0


def is_identity(pt):
    return pt[0] % P == 0 and pt[1] % P == 1


def point_eq(p1, p2):
    return (p1[0] - p2[0]) % P == 0 and (p1[1] - p2[1]) % P == 0


def point_neg(pt):
    return ((-pt[0]) % P, pt[1] % P)


def point_add(p1, p2):
    """Affine complete twisted Edwards addition law (a = -1)."""
    x1, y1 = p1
    x2, y2 = p2
    k = D * x1 % P * x2 % P * y1 % P * y2 % P
    x3 = (x1 * y2 + x2 * y1) % P * inv(1 + k) % P
    y3 = (y1 * y2 + x1 * x2) % P * inv(1 - k) % P
    return (x3, y3)


def point_sub(p1, p2):
    return point_add(p1, point_neg(p2))


def point_double(pt):
    return point_add(pt, pt)


# ---- extended homogeneous coordinates (X:Y:Z:T), x=X/Z, y=Y/Z, xy=T/Z ----
# Formulas as given in RFC 8032 section 5.1.4.

_EXT_ID = (0, 1, 1, 0)


def _to_ext(pt):
    x, y = pt
    x %= P
    y %= P
    return (x, y, 1, x * y % P)


def _from_ext(e):
    X, Y, Z, _ = e
    zi = inv(Z)
    return (X * zi % P, Y * zi % P)


def _ext_add(e1, e2):
    X1, Y1, Z1, T1 = e1
    X2, Y2, Z2, T2 = e2
    p = P
    A = (Y1 - X1) * (Y2 - X2) % p
    B = (Y1 + X1) * (Y2 + X2) % p
    C = T1 * D2 % p * T2 % p
    Dd = 2 * Z1 * Z2 % p
    E = B - A
    F = Dd - C
    G = Dd + C
    H = B + A
    return (E * F % p, G * H % p, F * G % p, E * H % p)


def _ext_dbl(e):
    X1, Y1, Z1, _ = e
    p = P
    A = X1 * X1 % p
    B = Y1 * Y1 % p
    C = 2 * Z1 * Z1 % p
    H = A + B
    xy = X1 + Y1
    E = H - xy * xy % p
    G = A - B
    F = C + G
    return (E * F % p, G * H % p, F * G % p, E * H % p)


def _ext_dbl_n(e, n):
    """2^n * e (n >= 1).  The T coordinate is only needed by a following
    addition, so it is computed for the last doubling only."""
    X1, Y1, Z1, _ = e
    p = P
    while True:
        A = X1 * X1 % p
        B = Y1 * Y1 % p
        C = 2 * Z1 * Z1 % p
        H = A + B
        xy = X1 + Y1
        E = H - xy * xy % p
        G = A - B
        F = C + G
        n -= 1
        if n == 0:
            return (E * F % p, G * H % p, F * G % p, E * H % p)
        X1 = E * F % p
        Y1 = G * H % p
        Z1 = F * G % p


def _ext_neg(e):
    X, Y, Z, T = e
    return ((-X) % P, Y, Z, (-T) % P)


def _ext_is_identity(e):
    X, Y, Z, _ = e
    return X % P == 0 and (Y - Z) % P == 0 and Z % P != 0


def _ext_eq(e1, e2):
    X1, Y1, Z1, _ = e1
    X2, Y2, Z2, _ = e2
    return (X1 * Z2 - X2 * Z1) % P == 0 and (Y1 * Z2 - Y2 * Z1) % P == 0


def _ext_scalar_mult(n, e):
    """n*e, n any non-negative int; 4-bit fixed window, MSB first."""
    if n < 0:
        raise ValueError("negative scalar")
    if n == 0:
        return _EXT_ID
    if n < 16:
        r = _EXT_ID
        for t in range(n.bit_length() - 1, -1, -1):
            r = _ext_dbl(r)
            if (n >> t) & 1:
                r = _ext_add(r, e)
        return r
    tbl = [_EXT_ID, e]
    for i in range(2, 16):
        tbl.append(_ext_dbl(tbl[i // 2]) if i % 2 == 0 else _ext_add(tbl[i - 1], e))
    nibbles = (n.bit_length() + 3) // 4
    r = tbl[(n >> (4 * (nibbles - 1))) & 15]
    for i in range(nibbles - 2, -1, -1):
        r = _ext_dbl_n(r, 4)
        w = (n >> (4 * i)) & 15
        if w:
            r = _ext_add(r, tbl[w])
    return r


def scalar_mult(n, pt):
    """n*pt for any non-negative integer n (NOT reduced mod L: pt may have a
    torsion component).  Affine in, affine out."""
    if point_eq(pt, B) and n < (1 << 256):
        return _from_ext(_ext_base_mult(n))
    return _from_ext(_ext_scalar_mult(n, _to_ext(pt)))


def scalar_mult_simple(n, pt):
    """Slow affine double-and-add, used only to cross-check scalar_mult."""
    r = IDENTITY
    for t in range(n.bit_length() - 1, -1, -1):
        r = point_add(r, r)
        if (n >> t) & 1:
            r = point_add(r, pt)
    return r


def has_small_order(pt):
    """True iff 8*pt is the identity."""
    e = _ext_dbl(_ext_dbl(_ext_dbl(_to_ext(pt))))
    return _ext_is_identity(e)


def in_prime_subgroup(pt):
    """True iff L*pt is the identity (includes the identity itself)."""
    return _ext_is_identity(_ext_scalar_mult(L, _to_ext(pt)))


def point_order(pt):
    """Order of a torsion point (1,2,4,8), or None if not small order."""
    q = pt
    for o in (1, 2, 4, 8):
        if is_identity(q):
            return o
        q = point_add(q, q)
    return None


# ---- encoding / decoding (RFC 8032 5.1.2 / 5.1.3) ----


def point_encode(pt):
    x, y = pt
    x %= P
    y %= P
    return (y | ((x & 1) << 255)).to_bytes(32, "little")


def recover_x(y, sign):
    """x with x^2 = (y^2-1)/(d y^2+1) and lsb == sign; None if no such x.
    For x == 0 and sign == 1 returns None (RFC 8032 strict behaviour)."""
    y %= P
    yy = y * y % P
    u = (yy - 1) % P
    v = (D * yy + 1) % P
    # RFC 8032 5.1.3: candidate root x = u v^3 (u v^7)^((p-5)/8)
    v3 = v * v % P * v % P
    v7 = v3 * v3 % P * v % P
    x = u * v3 % P * pow(u * v7 % P, (P - 5) // 8, P) % P
    vxx = v * x % P * x % P
    if vxx == u:
        pass
    elif vxx == (-u) % P:
        x = x * SQRT_M1 % P
    else:
        return None
    if x == 0 and sign:
        return None
    if (x & 1) != sign:
        x = P - x
    return x


def point_decode(b, allow_noncanonical=True, reject_neg_zero=False):
    """32 bytes -> affine (x, y) or None.

    allow_noncanonical=True : a y field >= p is reduced mod p (what a lenient
                              "frombytes" does); False: such encodings -> None.
    reject_neg_zero=True    : RFC 8032 strict rule, x == 0 with sign bit 1 -> None;
                              False: treated as x = 0.
    Returns None when y is not the y-coordinate of any curve point."""
    if len(b) != 32:
        return None
    v = int.from_bytes(b, "little")
    sign = v >> 255
    y = v & MASK255
    if y >= P:
        if not allow_noncanonical:
            return None
        y -= P
    x = recover_x(y, 0)
    if x is None:
        return None
    if x == 0:
        if sign and reject_neg_zero:
            return None
        return (0, y)
    if (x & 1) != sign:
        x = P - x
    return (x, y)


def point_decode_strict(b):
    """RFC 8032 section 5.1.3 decoding, exactly."""
    return point_decode(b, allow_noncanonical=False, reject_neg_zero=True)


def is_canonical_y(b):
    """y field (low 255 bits) < p; ignores the sign bit."""
    return len(b) == 32 and (int.from_bytes(b, "little") & MASK255) < P


def is_canonical_encoding(b, reject_neg_zero=True):
    """y < p and (optionally) not one of the two 'negative zero' aliases
    (y = 1 or y = p-1 with the sign bit set).  Says nothing about whether the
    bytes decode to a curve point."""
    if len(b) != 32:
        return False
    v = int.from_bytes(b, "little")
    sign = v >> 255
    y = v & MASK255
    if y >= P:
        return False
    if reject_neg_zero and sign and (y == 1 or y == P - 1):
        return False
    return True


def is_valid_point(b):
    """Strict validity: canonical encoding, on curve, not small order, in the
    prime-order subgroup."""
    if not is_canonical_encoding(b):
        return False
    pt = point_decode(b, allow_noncanonical=False, reject_neg_zero=True)
    if pt is None or has_small_order(pt):
        return False
    return in_prime_subgroup(pt)


# ---- base point ----

_By = 4 * inv(5) % P
_Bx = recover_x(_By, 0)
B = (_Bx, _By)
assert _Bx == 15112221349535400772501151409588531511454012693041857206046113283949847762202
assert _By == 46316835694926478169428394003475163141307993866256225615783033603165251855960
assert is_on_curve(B)

_BASE_TABLE = None


def _base_table():
    """_BASE_TABLE[i][j] = j * 16^i * B in extended coordinates, i<64, j<16."""
    global _BASE_TABLE
    if _BASE_TABLE is None:
        tbl = []
        e = _to_ext(B)
        for _ in range(64):
            row = [_EXT_ID, e]
            for j in range(2, 16):
                row.append(_ext_add(row[j - 1], e))
            tbl.append(row)
            e = _ext_dbl(row[8])  # 16 * (16^i B)
        _BASE_TABLE = tbl
    return _BASE_TABLE


def _ext_base_mult(n):
    """n*B for 0 <= n < 2^256 (n is not reduced; B has order L so that is harmless)."""
    assert 0 <= n < (1 << 256)
    tbl = _base_table()
    r = _EXT_ID
    i = 0
    while n:
        w = n & 15
        if w:
            r = _ext_add(r, tbl[i][w])
        n >>= 4
        i += 1
    return r


def base_mult(n):
    return _from_ext(_ext_base_mult(n % L))


# ---- torsion subgroup ----


def _find_torsion():
    # deterministic search for a point whose L-multiple has order 8
    y = 2
    while True:
        x = recover_x(y, 0)
        if x is not None:
            t = scalar_mult_simple(L, (x, y))
            if point_order(t) == 8:
                break
        y += 1
    pts = [IDENTITY]
    for _ in range(7):
        pts.append(point_add(pts[-1], t))
    by_order = {1: [], 2: [], 4: [], 8: []}
    for q in pts:
        by_order[point_order(q)].append(q)
    for k in by_order:
        by_order[k].sort(key=lambda q: (q[1], q[0]))
    return by_order[1] + by_order[2] + by_order[4] + by_order[8]


TORSION = _find_torsion()
"""[ (0,1), (0,-1), two order-4 points (+-sqrt(-1),0), four order-8 points ]"""
assert TORSION[0] == (0, 1) and TORSION[1] == (0, P - 1)
assert {q[1] for q in TORSION[2:4]} == {0} and {q[0] for q in TORSION[2:4]} == {SQRT_M1, P - SQRT_M1}
assert len(set(TORSION)) == 8 and all(is_on_curve(q) for q in TORSION)


def small_order_encodings(include_noncanonical=True):
    """All 32-byte strings that decode (leniently) to a torsion point:
    canonical encodings, sign-bit aliases for x==0, and y+p aliases where they
    fit in 255 bits."""
    out = set()
    for (x, y) in TORSION:
        signs = (0, 1) if x == 0 else (x & 1,)
        ys = [y]
        if include_noncanonical and y + P <= MASK255:
            ys.append(y + P)
        for yy in ys:
            for s in (signs if include_noncanonical else (x & 1,)):
                out.add((yy | (s << 255)).to_bytes(32, "little"))
    return sorted(out)


# ---- birational maps ----


def ed_y_to_mont_u(y):
    """u = (1+y)/(1-y); y == 1 (identity) maps to 0 by the inv(0)=0 convention."""
    y %= P
    return (1 + y) * inv(1 - y) % P


def mont_u_to_ed_y(u):
    """y = (u-1)/(u+1); u == -1 maps to 0 by the inv(0)=0 convention."""
    u %= P
    return (u - 1) * inv(u + 1) % P


def ed_to_mont(pt):
    """Full (x,y) -> (u,v) map of RFC 7748 section 4.1:
    u = (1+y)/(1-y), v = sqrt(-486664)*u/x."""
    x, y = pt
    u = ed_y_to_mont_u(y)
    v = SQRT_M486664 * u % P * inv(x) % P
    return (u, v)


# --------------------------------------------------------------------------
# scalars mod L
# --------------------------------------------------------------------------


def sc_from_bytes32(b):
    """32 little-endian bytes -> int, NOT reduced."""
    assert len(b) == 32
    return int.from_bytes(b, "little")


def sc_from_bytes64(b):
    """64 little-endian bytes -> int reduced mod L."""
    assert len(b) == 64
    return int.from_bytes(b, "little") % L


def sc_reduce32(b):
    return int.from_bytes(b, "little") % L


def sc_to_bytes(s):
    return (s % L).to_bytes(32, "little")


def sc_is_canonical(b):
    return len(b) == 32 and int.from_bytes(b, "little") < L


def sc_add(a, b):
    return (a + b) % L


def sc_sub(a, b):
    return (a - b) % L


def sc_mul(a, b):
    return (a * b) % L


def sc_neg(a):
    return (-a) % L


def sc_complement(a):
    """1 - a mod L (so that a + complement(a) == 1)."""
    return (1 - a) % L


def sc_invert(a):
    """a^-1 mod L, or None for a == 0 mod L."""
    a %= L
    if a == 0:
        return None
    return pow(a, L - 2, L)


# --------------------------------------------------------------------------
# Ed25519 (RFC 8032)
# --------------------------------------------------------------------------

DOM2_PH = b"SigEd25519 no Ed25519 collisions" + b"\x01" + b"\x00"


def sha512(*parts):
    h = hashlib.sha512()
    for p_ in parts:
        h.update(p_)
    return h.digest()


def seed_to_keypair(seed):
    """-> (pk_bytes, a_scalar_int, prefix_bytes)  (RFC 8032 5.1.5)"""
    assert len(seed) == 32
    h = sha512(seed)
    a = clamp(h[:32])
    prefix = h[32:]
    pk = point_encode(_from_ext(_ext_base_mult(a)))
    return pk, a, prefix


def _sign(seed, msg, dom):
    pk, a, prefix = seed_to_keypair(seed)
    r = int.from_bytes(sha512(dom, prefix, msg), "little") % L
    Rb = point_encode(_from_ext(_ext_base_mult(r)))
    h = int.from_bytes(sha512(dom, Rb, pk, msg), "little") % L
    S = (r + h * a) % L
    return Rb + S.to_bytes(32, "little")


def sign(seed, msg):
    """Pure Ed25519 signature (64 bytes)."""
    return _sign(seed, msg, b"")


def sign_ph(seed, msg):
    """Ed25519ph with empty context."""
    return _sign(seed, sha512(msg), DOM2_PH)


def sign_with_expanded(a, prefix, pk, msg, ph=False):
    """Sign given already-expanded secret (a, prefix) and an arbitrary pk."""
    dom = DOM2_PH if ph else b""
    m = sha512(msg) if ph else msg
    r = int.from_bytes(sha512(dom, prefix, m), "little") % L
    Rb = point_encode(_from_ext(_ext_base_mult(r)))
    h = int.from_bytes(sha512(dom, Rb, pk, m), "little") % L
    return Rb + ((r + h * a) % L).to_bytes(32, "little")


def challenge_scalar(sig, msg, pk, ph=False):
    """h = SHA512(dom || R || A || M) mod L with the byte strings as given."""
    dom = DOM2_PH if ph else b""
    m = sha512(msg) if ph else msg
    return int.from_bytes(sha512(dom, sig[:32], pk, m), "little") % L


def verify_strict_predicate(sig, msg, pk, ph=False, require_canonical_R=False):
    """The acceptance predicate:
        S < L
        AND pk is a canonical encoding of a curve point not of small order
        AND R = sig[0:32] decodes to a curve point not of small order
        AND 8*(S*B - R - h*A) == identity,
            h = SHA512(dom || R_bytes || pk_bytes || M) mod L.
    R is decoded leniently (y >= p reduced, -0 accepted) unless
    require_canonical_R is set; either way a non-canonical R that survives
    must still not be of small order."""
    if len(sig) != 64 or len(pk) != 32:
        return False
    S = int.from_bytes(sig[32:], "little")
    if S >= L:
        return False
    if not is_canonical_encoding(pk, reject_neg_zero=True):
        return False
    A = point_decode(pk, allow_noncanonical=False, reject_neg_zero=True)
    if A is None:
        return False
    eA = _to_ext(A)
    if _ext_is_identity(_ext_dbl(_ext_dbl(_ext_dbl(eA)))):
        return False
    if require_canonical_R and not is_canonical_encoding(sig[:32]):
        return False
    R = point_decode(sig[:32], allow_noncanonical=True, reject_neg_zero=False)
    if R is None:
        return False
    eR = _to_ext(R)
    if _ext_is_identity(_ext_dbl(_ext_dbl(_ext_dbl(eR)))):
        return False
    h = challenge_scalar(sig, msg, pk, ph)
    sB = _ext_base_mult(S)
    hA = _ext_scalar_mult(h, eA)
    t = _ext_add(sB, _ext_neg(_ext_add(eR, hA)))
    t = _ext_dbl(_ext_dbl(_ext_dbl(t)))
    return _ext_is_identity(t)


def verify_cofactorless(sig, msg, pk, ph=False):
    """S*B == R + h*A with lenient decoding of A and R, S < L required.
    (No small-order / canonicity checks on the points.)"""
    if len(sig) != 64 or len(pk) != 32:
        return False
    S = int.from_bytes(sig[32:], "little")
    if S >= L:
        return False
    A = point_decode(pk)
    R = point_decode(sig[:32])
    if A is None or R is None:
        return False
    h = challenge_scalar(sig, msg, pk, ph)
    lhs = _ext_base_mult(S)
    rhs = _ext_add(_to_ext(R), _ext_scalar_mult(h, _to_ext(A)))
    return _ext_eq(lhs, rhs)


def verify_rfc8032(sig, msg, pk, ph=False):
    """RFC 8032 5.1.7 with strict decoding and the cofactored equation
    [8][S]B = [8]R + [8][h]A."""
    if len(sig) != 64 or len(pk) != 32:
        return False
    S = int.from_bytes(sig[32:], "little")
    if S >= L:
        return False
    A = point_decode_strict(pk)
    R = point_decode_strict(sig[:32])
    if A is None or R is None:
        return False
    h = challenge_scalar(sig, msg, pk, ph)
    t = _ext_add(_ext_base_mult(S), _ext_neg(_ext_add(_to_ext(R), _ext_scalar_mult(h, _to_ext(A)))))
    return _ext_is_identity(_ext_dbl(_ext_dbl(_ext_dbl(t))))


def ed25519_pk_to_curve25519(pk, require_prime_subgroup=True):
    """Edwards public key -> Montgomery u (32 bytes), or None when pk does not
    decode to a curve point, is of small order, or (by default) is not in the
    prime-order subgroup.  y >= p is reduced (lenient decode)."""
    if len(pk) != 32:
        return None
    A = point_decode(pk, allow_noncanonical=True, reject_neg_zero=False)
    if A is None or has_small_order(A):
        return None
    if require_prime_subgroup and not in_prime_subgroup(A):
        return None
    return fe_to_bytes(ed_y_to_mont_u(A[1]))


def ed25519_sk_to_curve25519(seed):
    """SHA-512(seed)[:32], clamped."""
    assert len(seed) == 32
    return clamp_bytes(sha512(seed)[:32])


# --------------------------------------------------------------------------
# ristretto255 (RFC 9496)
# --------------------------------------------------------------------------

ONE_MINUS_D_SQ = (1 - D * D) % P
D_MINUS_ONE_SQ = (D - 1) * (D - 1) % P
SQRT_AD_MINUS_ONE = 25063068953384623474111414158702152701244531502492656460079210482610430750235
INVSQRT_A_MINUS_D = 54469307008909316920995813868745141605393597292927456921205312896311721017578
assert (SQRT_AD_MINUS_ONE * SQRT_AD_MINUS_ONE - (-D - 1)) % P == 0          # sqrt(a*d - 1), a = -1
assert (INVSQRT_A_MINUS_D * INVSQRT_A_MINUS_D * (-1 - D) - 1) % P == 0      # 1/sqrt(a - d)
assert ONE_MINUS_D_SQ == 1159843021668779879193775521855586647937357759715417654439879720876111806838
assert D_MINUS_ONE_SQ == 40440834346308536858101042469323190826248399146238708352240133220865137265952

RISTRETTO_BASE = B
RISTRETTO_IDENTITY = IDENTITY


def ristretto_decode(b):
    """RFC 9496 4.3.1.  -> affine Edwards representative (x, y) or None."""
    if len(b) != 32:
        return None
    s = int.from_bytes(b, "little")
    if s >= P or (s & 1):  # non-canonical (incl. top bit set) or negative
        return None
    ss = s * s % P
    u1 = (1 - ss) % P
    u2 = (1 + ss) % P
    u2_sqr = u2 * u2 % P
    v = (-(D * u1 % P * u1) - u2_sqr) % P
    was_square, invsqrt = sqrt_ratio_m1(1, v * u2_sqr % P)
    den_x = invsqrt * u2 % P
    den_y = invsqrt * den_x % P * v % P
    x = fe_abs(2 * s * den_x % P)
    y = u1 * den_y % P
    t = x * y % P
    if (not was_square) or is_negative(t) or y == 0:
        return None
    return (x, y)


def ristretto_encode(pt):
    """RFC 9496 4.3.2 on the affine representative (Z = 1, T = x*y)."""
    x0, y0 = pt
    x0 %= P
    y0 %= P
    z0 = 1
    t0 = x0 * y0 % P
    u1 = (z0 + y0) * (z0 - y0) % P
    u2 = x0 * y0 % P
    _, invsqrt = sqrt_ratio_m1(1, u1 * u2 % P * u2 % P)
    den1 = invsqrt * u1 % P
    den2 = invsqrt * u2 % P
    z_inv = den1 * den2 % P * t0 % P
    ix0 = x0 * SQRT_M1 % P
    iy0 = y0 * SQRT_M1 % P
    enchanted_denominator = den1 * INVSQRT_A_MINUS_D % P
    rotate = is_negative(t0 * z_inv % P)
    if rotate:
        x, y, den_inv = iy0, ix0, enchanted_denominator
    else:
        x, y, den_inv = x0, y0, den2
    z = z0
    if is_negative(x * z_inv % P):
        y = (-y) % P
    s = fe_abs(den_inv * ((z - y) % P) % P)
    return s.to_bytes(32, "little")


def ristretto_eq(p1, p2):
    """RFC 9496 4.3.3: x1*y2 == y1*x2 or y1*y2 == x1*x2."""
    x1, y1 = p1
    x2, y2 = p2
    return (x1 * y2 - y1 * x2) % P == 0 or (y1 * y2 - x1 * x2) % P == 0


def ristretto_add(p1, p2):
    return point_add(p1, p2)


def ristretto_sub(p1, p2):
    return point_sub(p1, p2)


def ristretto_scalar_mult(n, pt):
    return scalar_mult(n, pt)


def ristretto_is_valid(b):
    return ristretto_decode(b) is not None


def _ristretto_map_fe(t):
    """RFC 9496 4.3.4 MAP on a field element -> affine Edwards point."""
    t %= P
    r = SQRT_M1 * t % P * t % P
    u = (r + 1) * ONE_MINUS_D_SQ % P
    v = (-1 - r * D) % P * ((r + D) % P) % P
    was_square, s = sqrt_ratio_m1(u, v)
    s_prime = (-fe_abs(s * t % P)) % P
    c = P - 1
    if not was_square:
        s = s_prime
        c = r
    N = (c * ((r - 1) % P) % P * D_MINUS_ONE_SQ - v) % P
    w0 = 2 * s * v % P
    w1 = N * SQRT_AD_MINUS_ONE % P
    w2 = (1 - s * s) % P
    w3 = (1 + s * s) % P
    return _from_ext((w0 * w3 % P, w2 * w1 % P, w1 * w3 % P, w0 * w2 % P))


def ristretto_map(b32):
    """Single Elligator MAP on 32 bytes: top bit masked, reduced mod p."""
    assert len(b32) == 32
    return _ristretto_map_fe((int.from_bytes(b32, "little") & MASK255) % P)


def ristretto_from_uniform(b64):
    """RFC 9496 4.3.4 one-way map: MAP(t1) + MAP(t2)."""
    assert len(b64) == 64
    return point_add(ristretto_map(b64[:32]), ristretto_map(b64[32:]))


def ristretto_from_uniform_bytes(b64):
    return ristretto_encode(ristretto_from_uniform(b64))


# --------------------------------------------------------------------------
# RFC 9380 hash-to-curve, edwards25519_XMD:SHA-512_ELL2_{RO,NU}_
# --------------------------------------------------------------------------

_HASHES = {
    "sha256": (hashlib.sha256, 32, 64),
    "sha512": (hashlib.sha512, 64, 128),
}


def expand_message_xmd(msg, dst, len_in_bytes, hashname="sha512"):
    """RFC 9380 section 5.3.1 (+ 5.3.3 for DSTs longer than 255 bytes: the DST is
    replaced by H("H2C-OVERSIZE-DST-" || DST) in *every* hash call, b_0 and all b_i;
    confirmed by the Appendix K.2 vectors in the self-test)."""
    H, b_in_bytes, s_in_bytes = _HASHES[hashname]
    if isinstance(dst, str):
        dst = dst.encode()
    if len(dst) > 255:
        dst = H(b"H2C-OVERSIZE-DST-" + dst).digest()
    ell = (len_in_bytes + b_in_bytes - 1) // b_in_bytes
    if ell > 255 or len_in_bytes > 65535 or len(dst) > 255:
        raise ValueError("expand_message_xmd: invalid length")
    dst_prime = dst + bytes([len(dst)])
    z_pad = bytes(s_in_bytes)
    l_i_b_str = len_in_bytes.to_bytes(2, "big")
    b0 = H(z_pad + msg + l_i_b_str + b"\x00" + dst_prime).digest()
    bi = H(b0 + b"\x01" + dst_prime).digest()
    out = bi
    for i in range(2, ell + 1):
        x = bytes(a ^ b for a, b in zip(b0, bi))
        bi = H(x + bytes([i]) + dst_prime).digest()
        out += bi
    return out[:len_in_bytes]


H2C_L = 48  # ceil((ceil(log2(p)) + k) / 8), k = 128


def hash_to_field(msg, count, dst, hashname="sha512"):
    """RFC 9380 section 5.2 for F_p, m = 1, L = 48.  Returns a list of ints."""
    uniform = expand_message_xmd(msg, dst, count * H2C_L, hashname)
    return [int.from_bytes(uniform[H2C_L * i:H2C_L * (i + 1)], "big") % P for i in range(count)]


def sgn0(x):
    return (x % P) & 1


# sqrt(-486664) with sgn0 == 0 (RFC 9380 Appendix D.1 / 6.8.2 sign convention)
SQRT_M486664 = fe_sqrt(-486664 % P)
if sgn0(SQRT_M486664) != 0:
    SQRT_M486664 = P - SQRT_M486664
assert SQRT_M486664 * SQRT_M486664 % P == (-486664) % P

ELL2_Z = 2  # RFC 9380 8.5: Z = 2 for curve25519


def _mont_g(x):
    return (x * x % P * x + MONT_A * x % P * x + x) % P


def map_to_curve_elligator2_curve25519(u):
    """RFC 9380 section 6.7.1 with J = 486662, K = 1, Z = 2.  -> (s, t) on
    curve25519 (never the point at infinity)."""
    u %= P
    x1 = (-MONT_A) * inv(1 + ELL2_Z * u % P * u) % P
    if x1 == 0:
        x1 = (-MONT_A) % P
    gx1 = _mont_g(x1)
    x2 = (-x1 - MONT_A) % P
    gx2 = _mont_g(x2)
    if is_square(gx1):
        x = x1
        y = fe_sqrt(gx1)
        if sgn0(y) != 1:
            y = (-y) % P
    else:
        x = x2
        y = fe_sqrt(gx2)
        assert y is not None
        if sgn0(y) != 0:
            y = (-y) % P
    return (x, y)


def mont_to_edwards_rfc9380(st):
    """RFC 9380 Appendix D.1 rational map curve25519 -> edwards25519:
    v = sqrt(-486664)*s/t, w = (s-1)/(s+1); exceptional cases -> (0, 1)."""
    s, t = st
    s %= P
    t %= P
    if t == 0 or (s + 1) % P == 0:
        return (0, 1)
    v = SQRT_M486664 * s % P * inv(t) % P
    w = (s - 1) * inv(s + 1) % P
    return (v, w)


def map_to_curve_elligator2_edwards25519(u):
    """RFC 9380 section 6.8.2."""
    return mont_to_edwards_rfc9380(map_to_curve_elligator2_curve25519(u))


def clear_cofactor(pt):
    return scalar_mult(8, pt)


def encode_to_curve_point(msg, dst, hashname="sha512"):
    u = hash_to_field(msg, 1, dst, hashname)
    q = map_to_curve_elligator2_edwards25519(u[0])
    return clear_cofactor(q)


def hash_to_curve_point(msg, dst, hashname="sha512"):
    u = hash_to_field(msg, 2, dst, hashname)
    q0 = map_to_curve_elligator2_edwards25519(u[0])
    q1 = map_to_curve_elligator2_edwards25519(u[1])
    return clear_cofactor(point_add(q0, q1))


def encode_to_curve(msg, dst, hashname="sha512"):
    """edwards25519_XMD:<hash>_ELL2_NU_ -> 32-byte Edwards encoding."""
    return point_encode(encode_to_curve_point(msg, dst, hashname))


def hash_to_curve(msg, dst, hashname="sha512"):
    """edwards25519_XMD:<hash>_ELL2_RO_ -> 32-byte Edwards encoding."""
    return point_encode(hash_to_curve_point(msg, dst, hashname))


def map_to_curve_elligator2_from_uniform32(r_bytes, variant="sign-x"):
    """libsodium-specific, best effort (NOT an RFC construction).

    Models crypto_core_ed25519_from_uniform as publicly documented: the 32
    input bytes are a little-endian field element r with bit 255 masked off;
    Elligator 2 (non-square 2) gives a Montgomery u; it is converted to
    Edwards, bit 255 of the input selects the sign of x, and the result is
    multiplied by the cofactor 8.  Returns the 32-byte Edwards encoding.

    variant:
      "sign-x"   : final x is negative iff input bit 255 is set (documented;
                   agreed with libsodium on 200/200 random inputs)
      "rfc-sign" : t sign chosen as in RFC 9380 (sgn0(t) = 1 iff gx1 square)
                   XOR input bit 255, then the Appendix D.1 map
    """
    assert len(r_bytes) == 32
    v = int.from_bytes(r_bytes, "little")
    hi = v >> 255
    r = (v & MASK255) % P
    s, t = map_to_curve_elligator2_curve25519(r)
    if variant == "sign-x":
        y = mont_u_to_ed_y(s)
        if (s + 1) % P == 0:
            pt = (0, 1)  # not reachable: u = -1 is not on curve25519
        else:
            x = SQRT_M486664 * s % P * inv(t) % P
            if (x & 1) != hi:
                x = (-x) % P
            pt = (x, y)
    elif variant == "rfc-sign":
        if hi:
            t = (-t) % P
        pt = mont_to_edwards_rfc9380((s, t))
    else:
        raise ValueError(variant)
    return point_encode(clear_cofactor(pt))


def ristretto_hash_to_group(msg, dst, hashname="sha512"):
    """RFC 9380 Appendix B hash_to_ristretto255 (suite ristretto255_XMD:SHA-512_R255MAP_RO_
    for hashname='sha512'): expand_message_xmd to 64 bytes, then the one-way map.
    Returns the 32-byte ristretto255 encoding."""
    return ristretto_from_uniform_bytes(expand_message_xmd(msg, dst, 64, hashname))


# --------------------------------------------------------------------------
# self-test
# --------------------------------------------------------------------------

_T1024_MSG_HEX = (
    "08b8b2b733424243760fe426a4b54908632110a66c2f6591eabd3345e3e4eb98fa6e264bf09efe12ee50f8f54e9f77b1e355f6c50544e23fb1433ddf73be84d8"
    "79de7c0046dc4996d9e773f4bc9efe5738829adb26c81b37c93a1b270b20329d658675fc6ea534e0810a4432826bf58c941efb65d57a338bbd2e26640f89ffbc"
    "1a858efcb8550ee3a5e1998bd177e93a7363c344fe6b199ee5d02e82d522c4feba15452f80288a821a579116ec6dad2b3b310da903401aa62100ab5d1a36553e"
    "06203b33890cc9b832f79ef80560ccb9a39ce767967ed628c6ad573cb116dbefefd75499da96bd68a8a97b928a8bbc103b6621fcde2beca1231d206be6cd9ec7"
    "aff6f6c94fcd7204ed3455c68c83f4a41da4af2b74ef5c53f1d8ac70bdcb7ed185ce81bd84359d44254d95629e9855a94a7c1958d1f8ada5d0532ed8a5aa3fb2"
    "d17ba70eb6248e594e1a2297acbbb39d502f1a8c6eb6f1ce22b3de1a1f40cc24554119a831a9aad6079cad88425de6bde1a9187ebb6092cf67bf2b13fd65f270"
    "88d78b7e883c8759d2c4f5c65adb7553878ad575f9fad878e80a0c9ba63bcbcc2732e69485bbc9c90bfbd62481d9089beccf80cfe2df16a2cf65bd92dd597b07"
    "07e0917af48bbb75fed413d238f5555a7a569d80c3414a8d0859dc65a46128bab27af87a71314f318c782b23ebfe808b82b0ce26401d2e22f04d83d1255dc51a"
    "ddd3b75a2b1ae0784504df543af8969be3ea7082ff7fc9888c144da2af58429ec96031dbcad3dad9af0dcbaaaf268cb8fcffead94f3c7ca495e056a9b47acdb7"
    "51fb73e666c6c655ade8297297d07ad1ba5e43f1bca32301651339e22904cc8c42f58c30c04aafdb038dda0847dd988dcda6f3bfd15c4b4c4525004aa06eeff8"
    "ca61783aacec57fb3d1f92b0fe2fd1a85f6724517b65e614ad6808d6f6ee34dff7310fdc82aebfd904b01e1dc54b2927094b2db68d6f903b68401adebf5a7e08"
    "d78ff4ef5d63653a65040cf9bfd4aca7984a74d37145986780fc0b16ac451649de6188a7dbdf191f64b5fc5e2ab47b57f7f7276cd419c17a3ca8e1b939ae49e4"
    "88acba6b965610b5480109c8b17b80e1b7b750dfc7598d5d5011fd2dcc5600a32ef5b52a1ecc820e308aa342721aac0943bf6686b64b2579376504ccc493d97e"
    "6aed3fb0f9cd71a43dd497f01f17c0e2cb3797aa2a2f256656168e6c496afc5fb93246f6b1116398a346f1a641f3b041e989f7914f90cc2c7fff357876e506b5"
    "0d334ba77c225bc307ba537152f3f1610e4eafe595f6d9d90d11faa933a15ef1369546868a7f3a45a96768d40fd9d03412c091c6315cf4fde7cb68606937380d"
    "b2eaaa707b4c4185c32eddcdd306705e4dc1ffc872eeee475a64dfac86aba41c0618983f8741c5ef68d3a101e8a3b8cac60c905c15fc910840b94c00a0b9d0"
)


def _selftest():
    import sys
    import time

    n = 0
    hx = bytes.fromhex

    def check(cond, what):
        nonlocal n
        if not cond:
            print("FAIL:", what)
            sys.exit(1)
        n += 1

    # ---------------- RFC 7748 section 5.2 ----------------
    for k, u, out in [
        ("a546e36bf0527c9d3b16154b82465edd62144c0ac1fc5a18506a2244ba449ac4",
         "e6db6867583030db3594c1a424b15f7c726624ec26b3353b10a903a6d0ab1c4c",
         "c3da55379de9c6908e94ea4df28d084f32eccf03491c71f754b4075577a28552"),
        ("4b66e9d4d1b4673c5ad22691957d6af5c11b6421e0ea01d42ca4169e7918ba0d",
         "e5210f12786811d3f4b7959d0538ae2c31dbe7106fc03c3efc4cd549c715a493",
         "95cbde9476e8907d7aade45cb4b873f88b595a68799fa152e6f8f7647aac7957"),
    ]:
        check(x25519(hx(k), hx(u)) == hx(out), "RFC7748 5.2 single")
    k = u = X25519_BASE
    for i in range(1, 1001):
        k, u = x25519(k, u), k
        if i == 1:
            check(k == hx("422c8e7a6227d7bca1350b3e2bb7279f7897b87bb6854b783c60e80311ae3079"), "RFC7748 iter 1")
    check(k == hx("684cf59ba83309552800ef566f2f4d3c1c3887c49360e3875f2eb94d99532c51"), "RFC7748 iter 1000")
    # RFC 7748 section 6.1 Diffie-Hellman
    ask = hx("77076d0a7318a57d3c16c17251b26645df4c2f87ebc0992ab177fba51db92c2a")
    bsk = hx("5dab087e624a8a4b79e17f8b83800ee66f3bb1292618b6fd1c2f8b27ff88e0eb")
    apk = hx("8520f0098930a754748b7ddcb43ef75a0dbf3a0d26381af4eba4a98eaa9b4e6a")
    bpk = hx("de9edb7d7b7dc1b4d35b61c2ece435373f8343c85b78674dadfc7e146f882b4f")
    shared = hx("4a5d9d5ba4ce2de1728e3bf480350f25e07e21c947d19e3376f09b3c1e161742")
    check(x25519_base(ask) == apk and x25519_base_via_edwards(ask) == apk, "RFC7748 6.1 alice pk")
    check(x25519_base(bsk) == bpk, "RFC7748 6.1 bob pk")
    check(x25519(ask, bpk) == shared and x25519(bsk, apk) == shared, "RFC7748 6.1 shared")
    # top bit of u ignored; small-order u gives zero
    apk2 = bytearray(apk); apk2[31] ^= 0x80
    check(x25519(bsk, bytes(apk2)) == shared, "x25519 ignores bit 255 of u")
    check(x25519(bsk, hx("e0eb7a7c3b41b8ae1656e3faf19fc46ada098deb9c32b1fd866205165f49b800")) == bytes(32),
          "x25519 order-8 u -> 0")
    # non-canonical u (u = p + 9 fits in 255 bits) behaves as u = 9
    check(x25519(ask, (P + 9).to_bytes(32, "little")) == apk, "x25519 non-canonical u reduced")
    # ladder agrees with Edwards arithmetic through the birational map
    for sc in (1, 2, 3, 8, L - 1, L + 5, 2**254 + 8 * 12345):
        e = scalar_mult(sc, B)
        check(mont_ladder(sc, 9, 256) == ed_y_to_mont_u(e[1]), "ladder vs edwards")

    # ---------------- group sanity ----------------
    check(is_identity(scalar_mult(L, B)) and in_prime_subgroup(B) and not has_small_order(B), "order of B")
    check(point_encode(B) == hx("5866666666666666666666666666666666666666666666666666666666666666"), "B encoding")
    for sc in (0, 1, 2, 15, 16, 17, 255, L - 1, L, L + 1, 2**255 - 1, 2**256 - 1, 2**300 + 12345):
        q = (sc * 7 + 3) % L
        Q = scalar_mult_simple(q, B)
        check(scalar_mult(sc, B) == scalar_mult_simple(sc, B), "base mult vs simple")
        check(scalar_mult(sc, Q) == scalar_mult_simple(sc, Q), "var mult vs simple")
    check(all(has_small_order(t) and is_on_curve(t) for t in TORSION), "torsion small order")
    check([point_order(t) for t in TORSION] == [1, 2, 4, 4, 8, 8, 8, 8], "torsion orders")
    o8 = {point_encode(t) for t in TORSION[4:]}
    check(hx("c7176a703d4dd84fba3c0b760d10670f2a2053fa2c39ccc64ec7fd7792ac037a") in o8
          and hx("26e8958fc2b227b045c3f489f2ef98f0d5dfac05d3c63339b13802886d53fc05") in o8, "known order-8 encodings")
    # order-8 Montgomery u from scalarmult test == map of an order-8 Edwards point
    u8 = int.from_bytes(hx("e0eb7a7c3b41b8ae1656e3faf19fc46ada098deb9c32b1fd866205165f49b800"), "little")
    check(u8 in {ed_y_to_mont_u(t[1]) for t in TORSION[4:]}, "order-8 u matches torsion")
    for t in TORSION:
        Q = point_add(scalar_mult(5, B), t)
        check(is_on_curve(Q) and (in_prime_subgroup(Q) == is_identity(t)) and not has_small_order(Q), "mixed-order")
        check(point_decode(point_encode(Q)) == Q, "encode/decode roundtrip")
    # decode strictness
    neg0_a = (1 | (1 << 255)).to_bytes(32, "little")
    neg0_b = ((P - 1) | (1 << 255)).to_bytes(32, "little")
    for enc, y in ((neg0_a, 1), (neg0_b, P - 1)):
        check(point_decode(enc) == (0, y), "lenient -0")
        check(point_decode(enc, reject_neg_zero=True) is None and point_decode_strict(enc) is None, "strict -0")
        check(not is_canonical_encoding(enc) and is_canonical_encoding(enc, reject_neg_zero=False), "canon -0")
    yp = (P + 1).to_bytes(32, "little")  # y = p+1 == 1
    check(point_decode(yp) == (0, 1) and point_decode(yp, allow_noncanonical=False) is None
          and not is_canonical_encoding(yp), "non-canonical y")
    check(point_decode((2).to_bytes(32, "little")) is None, "y=2 not on curve")
    check(len(small_order_encodings()) == 14 and len(small_order_encodings(False)) == 8, "small-order encodings count")
    check(all(has_small_order(point_decode(e)) for e in small_order_encodings()), "small-order encodings decode")

    # ---------------- RFC 8032 section 7.1 ----------------
    vec = [
        ("9d61b19deffd5a60ba844af492ec2cc44449c5697b326919703bac031cae7f60",
         "d75a980182b10ab7d54bfed3c964073a0ee172f3daa62325af021a68f707511a", "",
         "e5564300c360ac729086e2cc806e828a84877f1eb8e5d974d873e065224901555fb8821590a33bacc61e39701cf9b46bd25bf5f0595bbe24655141438e7a100b"),
        ("4ccd089b28ff96da9db6c346ec114e0f5b8a319f35aba624da8cf6ed4fb8a6fb",
         "3d4017c3e843895a92b70aa74d1b7ebc9c982ccf2ec4968cc0cd55f12af4660c", "72",
         "92a009a9f0d4cab8720e820b5f642540a2b27b5416503f8fb3762223ebdb69da085ac1e43e15996e458f3613d0f11d8c387b2eaeb4302aeeb00d291612bb0c00"),
        ("c5aa8df43f9f837bedb7442f31dcb7b166d38535076f094b85ce3a2e0b4458f7",
         "fc51cd8e6218a1a38da47ed00230f0580816ed13ba3303ac5deb911548908025", "af82",
         "6291d657deec24024827e69c3abe01a30ce548a284743a445e3680d7db5ac3ac18ff9b538d16f290ae67f760984dc6594a7c15e9716ed28dc027beceea1ec40a"),
        ("f5e5767cf153319517630f226876b86c8160cc583bc013744c6bf255f5cc0ee5",
         "278117fc144c72340f67d0f2316e8386ceffbf2b2428c9c51fef7c597f1d426e", _T1024_MSG_HEX,
         "0aab4c900501b3e24d7cdf4663326a3a87df5e4843b2cbdb67cbf6e460fec350aa5371b1508f9f4528ecea23c436d94b5e8fcd4f681e30a6ac00a9704a188a03"),
        ("833fe62409237b9d62ec77587520911e9a759cec1d19755b7da901b96dca3d42",
         "ec172b93ad5e563bf4932c70e1245034c35467ef2efd4d64ebf819683467e2bf",
         hashlib.sha512(b"abc").hexdigest(),
         "dc2a4459e7369633a52b1bf277839a00201009a3efbf3ecb69bea2186c26b58909351fc9ac90b3ecfdfbc7c66431e0303dca179c138ac17ad9bef1177331a704"),
    ]
    check(len(hx(_T1024_MSG_HEX)) == 1023, "TEST 1024 message length")
    for sk, pk, m, sg in vec:
        sk, pk, m, sg = hx(sk), hx(pk), hx(m), hx(sg)
        check(seed_to_keypair(sk)[0] == pk, "RFC8032 pk")
        check(sign(sk, m) == sg, "RFC8032 sig")
        check(verify_strict_predicate(sg, m, pk) and verify_cofactorless(sg, m, pk) and verify_rfc8032(sg, m, pk),
              "RFC8032 verify")
        bad = bytearray(sg); bad[7] ^= 1
        check(not verify_strict_predicate(bytes(bad), m, pk) and not verify_cofactorless(bytes(bad), m, pk),
              "RFC8032 verify rejects modified R")
        check(not verify_strict_predicate(sg, m + b"x", pk), "RFC8032 verify rejects modified msg")
        # S + L is rejected (malleability)
        S = int.from_bytes(sg[32:], "little") + L
        if S < 2**256:
            check(not verify_strict_predicate(sg[:32] + S.to_bytes(32, "little"), m, pk), "S >= L rejected")
    # Ed25519ph (RFC 8032 7.3)
    sk = hx("833fe62409237b9d62ec77587520911e9a759cec1d19755b7da901b96dca3d42")
    pk = hx("ec172b93ad5e563bf4932c70e1245034c35467ef2efd4d64ebf819683467e2bf")
    sg = hx("98a70222f0b8121aa9d30f813d683f809e462b469c7ff87639499bb94e6dae41"
            "31f85042463c2a355a2003d062adf5aaa10b8c61e636062aaad11c2a26083406")
    check(sign_ph(sk, b"abc") == sg, "Ed25519ph sig")
    check(verify_strict_predicate(sg, b"abc", pk, ph=True) and not verify_strict_predicate(sg, b"abc", pk),
          "Ed25519ph verify")
    # small-order pk / R rejected by the strict predicate but fine for cofactorless maths
    for enc in small_order_encodings():
        check(not verify_strict_predicate(enc + bytes(32), b"", enc), "small-order A/R rejected")
    # torsion-shifted signature: cofactored accepts, cofactorless rejects
    seed = hx("4ccd089b28ff96da9db6c346ec114e0f5b8a319f35aba624da8cf6ed4fb8a6fb")
    pk, a, prefix = seed_to_keypair(seed)
    msg = b"torsion"
    r = int.from_bytes(sha512(prefix, msg), "little") % L
    Rt = point_encode(point_add(scalar_mult(r, B), TORSION[4]))
    h = int.from_bytes(sha512(Rt, pk, msg), "little") % L
    sgt = Rt + ((r + h * a) % L).to_bytes(32, "little")
    check(verify_strict_predicate(sgt, msg, pk) and not verify_cofactorless(sgt, msg, pk), "torsion-shifted R")

    # ed25519 -> curve25519 conversion (published libsodium test values: seed 421151a4...)
    seed = hx("421151a459faeade3d247115f94aedae42318124095afabe4d1451a559faedee")
    pk = seed_to_keypair(seed)[0]
    cpk = ed25519_pk_to_curve25519(pk)
    csk = ed25519_sk_to_curve25519(seed)
    check(cpk == hx("f1814f0e8ff1043d8a44d25babff3cedcae6c22c3edaa48f857ae70de2baae50"), "pk_to_curve25519")
    check(csk == hx("8052030376d47112be7f73ed7a019293dd12ad910b654455798b4667d73de166"), "sk_to_curve25519")
    check(x25519_base(csk) == cpk, "converted keypair consistent")
    for bad in (0, 2, 5):
        check(ed25519_pk_to_curve25519(bad.to_bytes(32, "little")) is None, "pk_to_curve25519 rejects")

    # ---------------- RFC 9496 appendix A ----------------
    mult = """
0000000000000000000000000000000000000000000000000000000000000000
e2f2ae0a6abc4e71a884a961c500515f58e30b6aa582dd8db6a65945e08d2d76
6a493210f7499cd17fecb510ae0cea23a110e8d5b901f8acadd3095c73a3b919
94741f5d5d52755ece4f23f044ee27d5d1ea1e2bd196b462166b16152a9d0259
da80862773358b466ffadfe0b3293ab3d9fd53c5ea6c955358f568322daf6a57
e882b131016b52c1d3337080187cf768423efccbb517bb495ab812c4160ff44e
f64746d3c92b13050ed8d80236a7f0007c3b3f962f5ba793d19a601ebb1df403
44f53520926ec81fbd5a387845beb7df85a96a24ece18738bdcfa6a7822a176d
903293d8f2287ebe10e2374dc1a53e0bc887e592699f02d077d5263cdd55601c
02622ace8f7303a31cafc63f8fc48fdc16e1c8c8d234b2f0d6685282a9076031
20706fd788b2720a1ed2a5dad4952b01f413bcf0e7564de8cdc816689e2db95f
bce83f8ba5dd2fa572864c24ba1810f9522bc6004afe95877ac73241cafdab42
e4549ee16b9aa03099ca208c67adafcafa4c3f3e4e5303de6026e3ca8ff84460
aa52e000df2e16f55fb1032fc33bc42742dad6bd5a8fc0be0167436c5948501f
46376b80f409b29dc2b5f6f0c52591990896e5716f41477cd30085ab7f10301e
e0c418f7c8d9c4cdd7395b93ea124f3ad99021bb681dfc3302a9d99a2e53e64e
""".split()
    acc = IDENTITY
    for i, e in enumerate(mult):
        enc = ristretto_encode(scalar_mult(i, RISTRETTO_BASE))
        check(enc == hx(e), "ristretto multiples of generator %d" % i)
        check(ristretto_encode(acc) == hx(e), "ristretto multiples by addition %d" % i)
        d = ristretto_decode(hx(e))
        check(d is not None and ristretto_eq(d, acc) and ristretto_encode(d) == hx(e), "ristretto decode %d" % i)
        # encoding is invariant under the 4-torsion coset
        for t in TORSION[:4]:
            check(ristretto_encode(point_add(acc, t)) == hx(e), "ristretto coset invariance")
        acc = point_add(acc, RISTRETTO_BASE)
    bad = """
00ffffffffffffffffffffffffffffffffffffffffffffffffffffffffffffff
ffffffffffffffffffffffffffffffffffffffffffffffffffffffffffffff7f
f3ffffffffffffffffffffffffffffffffffffffffffffffffffffffffffff7f
edffffffffffffffffffffffffffffffffffffffffffffffffffffffffffff7f
0100000000000000000000000000000000000000000000000000000000000080
0100000000000000000000000000000000000000000000000000000000000000
01ffffffffffffffffffffffffffffffffffffffffffffffffffffffffffff7f
ed57ffd8c914fb201471d1c3d245ce3c746fcbe63a3679d51b6a516ebebe0e20
c34c4e1826e5d403b78e246e88aa051c36ccf0aafebffe137d148a2bf9104562
c940e5a4404157cfb1628b108db051a8d439e1a421394ec4ebccb9ec92a8ac78
47cfc5497c53dc8e61c91d17fd626ffb1c49e2bca94eed052281b510b1117a24
f1c6165d33367351b0da8f6e4511010c68174a03b6581212c71c0e1d026c3c72
87260f7a2f12495118360f02c26a470f450dadf34a413d21042b43b9d93e1309
26948d35ca62e643e26a83177332e6b6afeb9d08e4268b650f1f5bbd8d81d371
4eac077a713c57b4f4397629a4145982c661f48044dd3f96427d40b147d9742f
de6a7b00deadc788eb6b6c8d20c0ae96c2f2019078fa604fee5b87d6e989ad7b
bcab477be20861e01e4a0e295284146a510150d9817763caf1a6f4b422d67042
2a292df7e32cababbd9de088d1d1abec9fc0440f637ed2fba145094dc14bea08
f4a9e534fc0d216c44b218fa0c42d99635a0127ee2e53c712f70609649fdff22
8268436f8c4126196cf64b3c7ddbda90746a378625f9813dd9b8457077256731
2810e5cbc2cc4d4eece54f61c6f69758e289aa7ab440b3cbeaa21995c2f4232b
3eb858e78f5a7254d8c9731174a94f76755fd3941c0ac93735c07ba14579630e
a45fdc55c76448c049a1ab33f17023edfb2be3581e9c7aade8a6125215e04220
d483fe813c6ba647ebbfd3ec41adca1c6130c2beeee9d9bf065c8d151c5f396e
8a2e1d30050198c65a54483123960ccc38aef6848e1ec8f5f780e8523769ba32
32888462f8b486c68ad7dd9610be5192bbeaf3b443951ac1a8118419d9fa097b
227142501b9d4355ccba290404bde41575b037693cef1f438c47f8fbf35d1165
5c37cc491da847cfeb9281d407efc41e15144c876e0170b499a96a22ed31e01e
445425117cb8c90edcbc7c1cc0e74f747f2c1efa5630a967c64f287792a48a4b
ecffffffffffffffffffffffffffffffffffffffffffffffffffffffffffff7f
""".split()
    check(len(bad) == 30, "bad encodings list length")
    for e in bad:
        check(ristretto_decode(hx(e)) is None, "ristretto bad encoding " + e)
    h2g = [
        ("5d1be09e3d0c82fc538112490e35701979d99e06ca3e2b5b54bffe8b4dc772c14d98b696a1bbfb5ca32c436cc61c16563790306c79eaca7705668b47dffe5bb6",
         "3066f82a1a747d45120d1740f14358531a8f04bbffe6a819f86dfe50f44a0a46"),
        ("f116b34b8f17ceb56e8732a60d913dd10cce47a6d53bee9204be8b44f6678b270102a56902e2488c46120e9276cfe54638286b9e4b3cdb470b542d46c2068d38",
         "f26e5b6f7d362d2d2a94c5d0e7602cb4773c95a2e5c31a64f133189fa76ed61b"),
        ("8422e1bbdaab52938b81fd602effb6f89110e1e57208ad12d9ad767e2e25510c27140775f9337088b982d83d7fcf0b2fa1edffe51952cbe7365e95c86eaf325c",
         "006ccd2a9e6867e6a2c5cea83d3302cc9de128dd2a9a57dd8ee7b9d7ffe02826"),
        ("ac22415129b61427bf464e17baee8db65940c233b98afce8d17c57beeb7876c2150d15af1cb1fb824bbd14955f2b57d08d388aab431a391cfc33d5bafb5dbbaf",
         "f8f0c87cf237953c5890aec3998169005dae3eca1fbb04548c635953c817f92a"),
        ("165d697a1ef3d5cf3c38565beefcf88c0f282b8e7dbd28544c483432f1cec7675debea8ebb4e5fe7d6f6e5db15f15587ac4d4d4a1de7191e0c1ca6664abcc413",
         "ae81e7dedf20a497e10c304a765c1767a42d6e06029758d2d7e8ef7cc4c41179"),
        ("a836e6c9a9ca9f1e8d486273ad56a78c70cf18f0ce10abb1c7172ddd605d7fd2979854f47ae1ccf204a33102095b4200e5befc0465accc263175485f0e17ea5c",
         "e2705652ff9f5e44d3e841bf1c251cf7dddb77d140870d1ab2ed64f1a9ce8628"),
        ("2cdc11eaeb95daf01189417cdddbf95952993aa9cb9c640eb5058d09702c74622c9965a697a3b345ec24ee56335b556e677b30e6f90ac77d781064f866a3c982",
         "80bd07262511cdde4863f8a7434cef696750681cb9510eea557088f76d9e5065"),
    ]
    for inp, out in h2g:
        pt = ristretto_from_uniform(hx(inp))
        check(is_on_curve(pt) and ristretto_encode(pt) == hx(out), "ristretto one-way map")
    # RFC 9496 A.3: the first input is SHA-512 of this label
    check(hashlib.sha512(b"Ristretto is traditionally a short shot of espresso coffee").hexdigest() == h2g[0][0],
          "ristretto label hash")
    # RFC 9496 A.3 second group: inputs mapping to the same point (sign / high-bit handling of MAP)
    same = [
        "edffffffffffffffffffffffffffffffffffffffffffffffffffffffffffffff1200000000000000000000000000000000000000000000000000000000000000",
        "edffffffffffffffffffffffffffffffffffffffffffffffffffffffffffff7fffffffffffffffffffffffffffffffffffffffffffffffffffffffffffffffff",
        "0000000000000000000000000000000000000000000000000000000000000080ffffffffffffffffffffffffffffffffffffffffffffffffffffffffffffff7f",
        "00000000000000000000000000000000000000000000000000000000000000001200000000000000000000000000000000000000000000000000000000000080",
    ]
    outs = {ristretto_encode(ristretto_from_uniform(hx(s))) for s in same}
    check(outs == {hx("304282791023b73128d277bdcb5c7746ef2eac08dde9f2983379cb8e5ef0517f")}, "ristretto map masking vectors")

    # ---------------- RFC 9380 appendix K: expand_message_xmd ----------------
    q128 = b"q128_" + b"q" * 128
    a512 = b"a512_" + b"a" * 512
    msgs = [b"", b"abc", b"abcdef0123456789", q128, a512]
    k256_20 = [
        "68a985b87eb6b46952128911f2a4412bbc302a9d759667f87f7a21d803f07235",
        "d8ccab23b5985ccea865c6c97b6e5b8350e794e603b4b97902f53a8a0d605615",
        "eff31487c770a893cfb36f912fbfcbff40d5661771ca4b2cb4eafe524333f5c1",
        "b23a1d2b4d97b2ef7785562a7e8bac7eed54ed6e97e29aa51bfe3f12ddad1ff9",
        "4623227bcc01293b8c130bf771da8c298dede7383243dc0993d2d94823958c4c",
    ]
    k512_20 = [
        "6b9a7312411d92f921c6f68ca0b6380730a1a4d982c507211a90964c394179ba",
        "0da749f12fbe5483eb066a5f595055679b976e93abe9be6f0f6318bce7aca8dc",
        "087e45a86e2939ee8b91100af1583c4938e0f5fc6c9db4b107b83346bc967f58",
        "7336234ee9983902440f6bc35b348352013becd88938d2afec44311caf8356b3",
        "57b5f7e766d5be68a6bfe1768e3c2b7f1228b3e4b3134956dd73a59b954c66f4",
    ]
    for m, o in zip(msgs, k256_20):
        check(expand_message_xmd(m, b"QUUX-V01-CS02-with-expander-SHA256-128", 0x20, "sha256") == hx(o),
              "K.1 xmd sha256 len 0x20")
    for m, o in zip(msgs, k512_20):
        check(expand_message_xmd(m, b"QUUX-V01-CS02-with-expander-SHA512-256", 0x20, "sha512") == hx(o),
              "K.3 xmd sha512 len 0x20")
    check(expand_message_xmd(b"", b"QUUX-V01-CS02-with-expander-SHA256-128", 0x80, "sha256") == hx(
        "af84c27ccfd45d41914fdff5df25293e221afc53d8ad2ac06d5e3e29485dadbee0d121587713a3e0dd4d5e69e93eb7cd4f5df4cd103e188cf60cb02edc3edf18"
        "eda8576c412b18ffb658e3dd6ec849469b979d444cf7b26911a08e63cf31f9dcc541708d3491184472c2c29bb749d4286b004ceb5ee6b9a7fa5b646c993f0ced"),
        "K.1 xmd sha256 len 0x80")
    # K.2: SHA-256 with a 256-byte DST (exercises the H2C-OVERSIZE-DST- rule)
    k2_dst = b"QUUX-V01-CS02-with-expander-SHA256-128-long-DST-" + b"1" * 208
    check(len(k2_dst) == 256 and hashlib.sha256(b"H2C-OVERSIZE-DST-" + k2_dst).hexdigest()
          == "412717974da474d0f8c420f320ff81e8432adb7c927d9bd082b4fb4d16c0a236", "K.2 DST_prime")
    check(expand_message_xmd(b"", k2_dst, 0x20, "sha256")
          == hx("e8dc0c8b686b7ef2074086fbdd2f30e3f8bfbd3bdf177f73f04b97ce618a3ed3"), "K.2 xmd long DST msg=''")
    check(expand_message_xmd(b"abc", k2_dst, 0x20, "sha256")
          == hx("52dbf4f36cf560fca57dedec2ad924ee9c266341d8f3d6afe5171733b16bbb12"), "K.2 xmd long DST msg=abc")
    # structural properties of the long-DST rule
    long_dst = b"X" * 499
    check(expand_message_xmd(b"msg", long_dst, 48, "sha512")
          == expand_message_xmd(b"msg", hashlib.sha512(b"H2C-OVERSIZE-DST-" + long_dst).digest(), 48, "sha512"),
          "oversize DST rule")
    check(expand_message_xmd(b"msg", b"X" * 255, 48, "sha512")
          != expand_message_xmd(b"msg", hashlib.sha512(b"H2C-OVERSIZE-DST-" + b"X" * 255).digest(), 48, "sha512"),
          "255-byte DST used verbatim")

    # ---------------- RFC 9380 appendix J.5 ----------------
    nu_dst = b"QUUX-V01-CS02-with-edwards25519_XMD:SHA-512_ELL2_NU_"
    ro_dst = b"QUUX-V01-CS02-with-edwards25519_XMD:SHA-512_ELL2_RO_"
    nu_y = [
        "222e314d04a4d5725e9f2aff9fb2a6b69ef375a1214eb19021ceab2d687f0f9b",
        "67732d50f9a26f73111dd1ed5dba225614e538599db58ba30aaea1f5c827fa42",
        "2f8a6c24dd1adde73909cada6a4a137577b0f179d336685c4a955a0a8e1a86fb",
        "2af6ff6ef5ebba128b0774f4296cb4c2279a074658b083b8dcca91f57a603450",
        "2c90c3d39eb18ff291d33441b35f3262cdd307162cc97c31bfcc7a4245891a37",
    ]
    ro_y = [
        "09a6c8561a0b22bef63124c588ce4c62ea83a3c899763af26d795302e115dc21",
        "1a8395b88338f22e435bbd301183e7f20a5f9de643f11882fb237f88268a5531",
        "53060a3d140e7fbcda641ed3cf42c88a75411e648a1add71217f70ea8ec561a6",
        "2eca15e355fcfa39d2982f67ddb0eea138e2994f5956ed37b7f72eea5e89d2f7",
        "6dc2fc04f266c5c27f236a80b14f92ccd051ef1ff027f26a07f8c0f327d8f995",
    ]
    for m, y in zip(msgs, nu_y):
        pt = encode_to_curve_point(m, nu_dst)
        check(pt[1] == int(y, 16) and in_prime_subgroup(pt), "J.5.2 NU P.y")
        check(point_decode(encode_to_curve(m, nu_dst)) == pt, "NU encoding")
    for m, y in zip(msgs, ro_y):
        pt = hash_to_curve_point(m, ro_dst)
        check(pt[1] == int(y, 16) and in_prime_subgroup(pt), "J.5.1 RO P.y")
        check(point_decode(hash_to_curve(m, ro_dst)) == pt, "RO encoding")
    # x-coordinates / intermediate values for the empty message (RFC 9380 J.5.1, J.5.2)
    pt = hash_to_curve_point(b"", ro_dst)
    check(pt[0] == 0x3c3da6925a3c3c268448dcabb47ccde5439559d9599646a8260e47b1e4822fc6, "J.5.1 RO P.x msg=''")
    u = hash_to_field(b"", 2, ro_dst)
    check(u[0] == 0x03fef4813c8cb5f98c6eef88fae174e6e7d5380de2b007799ac7ee712d203f3a
          and u[1] == 0x780bdddd137290c8f589dc687795aafae35f6b674668d92bf92ae793e6a60c75, "J.5.1 RO u msg=''")
    pt = encode_to_curve_point(b"", nu_dst)
    check(pt[0] == 0x1ff2b70ecf862799e11b7ae744e3489aa058ce805dd323a936375a84695e76da, "J.5.2 NU P.x msg=''")
    # Elligator 2 / rational-map internal consistency
    for uu in (0, 1, 2, P - 1, SQRT_M1, 0x1234567890abcdef, hash_to_field(b"x", 1, b"d")[0]):
        s, t = map_to_curve_elligator2_curve25519(uu)
        check((t * t - _mont_g(s)) % P == 0, "elligator2 output on curve25519")
        e = map_to_curve_elligator2_edwards25519(uu)
        check(is_on_curve(e), "elligator2 output on edwards25519")
        if not is_identity(e):
            check(ed_y_to_mont_u(e[1]) == s and ed_to_mont(e) == (s, t), "rational map consistent with RFC 7748")
        for variant in ("sign-x", "rfc-sign"):
            pe = point_decode(map_to_curve_elligator2_from_uniform32(uu.to_bytes(32, "little"), variant))
            check(pe is not None and in_prime_subgroup(pe), "from_uniform32 in prime subgroup")
    # RFC 7748 section 4.1 prints V(P) = 1478...7401; erratum 4730 notes that under the
    # stated birational map B goes to (9, p - that) = (9, 4311...2548).
    v7748 = 14781619447589544791020593568409986887264606134616475288964881837755586237401
    check(ed_to_mont(B) == (9, P - v7748) and (v7748 * v7748 - _mont_g(9)) % P == 0,
          "B maps to RFC 7748 base point (9, -v) (erratum 4730)")

    # ---------------- timing ----------------
    def bench(f, reps):
        best = None
        for _ in range(5):  # best of 5 batches: the box may be loaded
            t0 = time.perf_counter()
            for _ in range(reps // 5):
                f()
            dt = (time.perf_counter() - t0) / (reps // 5) * 1e3
            best = dt if best is None or dt < best else best
        return best

    sk, pk, m, sg = (hx(v) for v in vec[2])
    t_x = bench(lambda: x25519(ask, bpk), 200)
    t_v = bench(lambda: verify_strict_predicate(sg, m, pk), 200)
    t_s = bench(lambda: sign(sk, m), 200)
    t_m = bench(lambda: scalar_mult(L - 2, (pt[0], pt[1])), 100)
    t_r = bench(lambda: ristretto_encode(ristretto_from_uniform(hx(h2g[0][0]))), 100)
    t_h = bench(lambda: hash_to_curve(b"abc", ro_dst), 100)
    print("timing (ms/op): x25519 %.3f  ed25519 verify %.3f  sign %.3f  scalar_mult %.3f  "
          "ristretto from_uniform+encode %.3f  h2c RO %.3f" % (t_x, t_v, t_s, t_m, t_r, t_h))
    print("ec25519 selftest OK (%d vectors)" % n)
    return 0


if __name__ == "__main__":
    raise SystemExit(_selftest())
