/*
 * ref_hash_xcheck.c - cross-check ref_hash.c against OpenSSL 3.x (libcrypto).
 *
 *   gcc -O2 -Wall -Wextra -o ref_hash_xcheck ref_hash_xcheck.c ref_hash.c -lcrypto
 *
 * Compared (no libsodium involved):
 *   AES-256 block ........ EVP aes-256-ecb, random keys/blocks
 *   AES-256-GCM .......... EVP aes-256-gcm, mlen 0..300 x adlen 0..40
 *   SipHash-2-4 .......... EVP_MAC "SIPHASH" (c=2, d=4), 8- and 16-byte
 *                          outputs, lengths 0..300
 *   HKDF-SHA-256/512 ..... EVP_KDF "HKDF", EXTRACT_ONLY and EXPAND_ONLY modes
 * Zero-length inputs are passed to the reference as NULL pointers.
 * Exit status 0 on full agreement, 1 otherwise.
 */
#include <stdio.h>
#include <stdlib.h>
#include <string.h>

#include <openssl/core_names.h>
#include <openssl/evp.h>
#include <openssl/kdf.h>
#include <openssl/params.h>

#include "ref_hash.h"

static unsigned long n_compared = 0;
static unsigned long n_fail     = 0;

static void
die(const char *what)
{
    fprintf(stderr, "OpenSSL failure: %s\n", what);
    exit(2);
}

/* deterministic byte generator (xorshift64*), only for test inputs */
static uint64_t prng_state = 0x9E3779B97F4A7C15ULL;

static uint8_t
prng_byte(void)
{
    prng_state ^= prng_state >> 12;
    prng_state ^= prng_state << 25;
    prng_state ^= prng_state >> 27;
    return (uint8_t) ((prng_state * 0x2545F4914F6CDD1DULL) >> 56);
}

static void
prng_fill(uint8_t *p, size_t n)
{
    size_t i;

    for (i = 0; i < n; i++) {
        p[i] = prng_byte();
    }
}

static void
compare(const char *what, size_t a, size_t b, const uint8_t *ref,
        const uint8_t *ossl, size_t len)
{
    size_t i;

    n_compared++;
    if (len > 0 && memcmp(ref, ossl, len) != 0) {
        n_fail++;
        if (n_fail <= 20) {
            printf("MISMATCH %s (%lu, %lu)\n  ref     ", what,
                   (unsigned long) a, (unsigned long) b);
            for (i = 0; i < len; i++) {
                printf("%02x", ref[i]);
            }
            printf("\n  openssl ");
            for (i = 0; i < len; i++) {
                printf("%02x", ossl[i]);
            }
            printf("\n");
        }
    }
}

#define NULL_IF_EMPTY(p, len) ((len) == 0 ? NULL : (p))

/* ------------------------------------------------------------------ */

static void
xcheck_aes_block(void)
{
    EVP_CIPHER_CTX *ctx = EVP_CIPHER_CTX_new();
    uint8_t         key[32], in[16], ref[16], ossl[32];
    int             outl;
    int             i;

    if (ctx == NULL) {
        die("EVP_CIPHER_CTX_new");
    }
    for (i = 0; i < 2000; i++) {
        prng_fill(key, sizeof key);
        prng_fill(in, sizeof in);
        if (i == 0) {
            memset(key, 0, sizeof key);
            memset(in, 0, sizeof in);
        } else if (i == 1) {
            memset(key, 0xff, sizeof key);
            memset(in, 0xff, sizeof in);
        }
        if (EVP_EncryptInit_ex(ctx, EVP_aes_256_ecb(), NULL, key, NULL) != 1 ||
            EVP_CIPHER_CTX_set_padding(ctx, 0) != 1 ||
            EVP_EncryptUpdate(ctx, ossl, &outl, in, 16) != 1 || outl != 16) {
            die("aes-256-ecb");
        }
        ref_aes256_encrypt_block(ref, in, key);
        compare("aes256 block", (size_t) i, 0, ref, ossl, 16);
    }
    EVP_CIPHER_CTX_free(ctx);
}

static void
xcheck_gcm(void)
{
    EVP_CIPHER_CTX *ctx = EVP_CIPHER_CTX_new();
    uint8_t         key[32], iv[12];
    uint8_t         m[300], ad[40];
    uint8_t         c_ref[300], c_ossl[300 + 16];
    uint8_t         t_ref[16], t_ossl[16];
    size_t          mlen, adlen;
    int             outl;

    if (ctx == NULL) {
        die("EVP_CIPHER_CTX_new");
    }
    for (mlen = 0; mlen <= 300; mlen++) {
        for (adlen = 0; adlen <= 40; adlen++) {
            prng_fill(key, sizeof key);
            prng_fill(iv, sizeof iv);
            prng_fill(m, mlen);
            prng_fill(ad, adlen);

            if (EVP_EncryptInit_ex(ctx, EVP_aes_256_gcm(), NULL, NULL, NULL) != 1 ||
                EVP_CIPHER_CTX_ctrl(ctx, EVP_CTRL_AEAD_SET_IVLEN, 12, NULL) != 1 ||
                EVP_EncryptInit_ex(ctx, NULL, NULL, key, iv) != 1) {
                die("gcm init");
            }
            if (adlen > 0 &&
                EVP_EncryptUpdate(ctx, NULL, &outl, ad, (int) adlen) != 1) {
                die("gcm aad");
            }
            if (mlen > 0 && (EVP_EncryptUpdate(ctx, c_ossl, &outl, m, (int) mlen) != 1 ||
                             (size_t) outl != mlen)) {
                die("gcm update");
            }
            if (EVP_EncryptFinal_ex(ctx, c_ossl + mlen, &outl) != 1 || outl != 0 ||
                EVP_CIPHER_CTX_ctrl(ctx, EVP_CTRL_AEAD_GET_TAG, 16, t_ossl) != 1) {
                die("gcm final");
            }

            ref_aes256gcm_encrypt(NULL_IF_EMPTY(c_ref, mlen), t_ref,
                                  NULL_IF_EMPTY(m, mlen), mlen,
                                  NULL_IF_EMPTY(ad, adlen), adlen, iv, key);
            compare("aes256gcm ciphertext", mlen, adlen, c_ref, c_ossl, mlen);
            compare("aes256gcm tag", mlen, adlen, t_ref, t_ossl, 16);
        }
    }
    EVP_CIPHER_CTX_free(ctx);
}

static void
ossl_siphash(uint8_t *out, size_t outlen, const uint8_t *m, size_t mlen,
             const uint8_t key[16])
{
    EVP_MAC     *mac = EVP_MAC_fetch(NULL, "SIPHASH", NULL);
    EVP_MAC_CTX *ctx = NULL;
    OSSL_PARAM   params[4];
    unsigned int size = (unsigned int) outlen;
    unsigned int c = 2, d = 4;
    size_t       got = 0;
    uint8_t      dummy = 0;

    if (mac == NULL || (ctx = EVP_MAC_CTX_new(mac)) == NULL) {
        die("EVP_MAC_fetch SIPHASH");
    }
    params[0] = OSSL_PARAM_construct_uint(OSSL_MAC_PARAM_SIZE, &size);
    params[1] = OSSL_PARAM_construct_uint(OSSL_MAC_PARAM_C_ROUNDS, &c);
    params[2] = OSSL_PARAM_construct_uint(OSSL_MAC_PARAM_D_ROUNDS, &d);
    params[3] = OSSL_PARAM_construct_end();
    if (EVP_MAC_init(ctx, key, 16, params) != 1 ||
        EVP_MAC_update(ctx, mlen ? m : &dummy, mlen) != 1 ||
        EVP_MAC_final(ctx, out, &got, outlen) != 1 || got != outlen) {
        die("SIPHASH");
    }
    EVP_MAC_CTX_free(ctx);
    EVP_MAC_free(mac);
}

static void
xcheck_siphash(void)
{
    uint8_t key[16], m[300];
    uint8_t r8[8], o8[8], r16[16], o16[16];
    size_t  mlen;

    for (mlen = 0; mlen <= 300; mlen++) {
        prng_fill(key, sizeof key);
        prng_fill(m, mlen);
        ref_siphash24(r8, NULL_IF_EMPTY(m, mlen), mlen, key);
        ossl_siphash(o8, 8, m, mlen, key);
        compare("siphash24", mlen, 0, r8, o8, 8);
        ref_siphashx24(r16, NULL_IF_EMPTY(m, mlen), mlen, key);
        ossl_siphash(o16, 16, m, mlen, key);
        compare("siphashx24", mlen, 0, r16, o16, 16);
    }
}

/* returns 1 on success, 0 if OpenSSL refused the parameters */
static int
ossl_hkdf(const char *digest, int mode, uint8_t *out, size_t outlen,
          const uint8_t *key, size_t keylen, const uint8_t *salt,
          size_t saltlen, const uint8_t *info, size_t infolen)
{
    EVP_KDF     *kdf = EVP_KDF_fetch(NULL, "HKDF", NULL);
    EVP_KDF_CTX *ctx = NULL;
    OSSL_PARAM   params[6];
    OSSL_PARAM  *p = params;
    uint8_t      dummy = 0;
    int          ok;

    if (kdf == NULL || (ctx = EVP_KDF_CTX_new(kdf)) == NULL) {
        die("EVP_KDF_fetch HKDF");
    }
    *p++ = OSSL_PARAM_construct_utf8_string(OSSL_KDF_PARAM_DIGEST,
                                            (char *) (uintptr_t) digest, 0);
    *p++ = OSSL_PARAM_construct_int(OSSL_KDF_PARAM_MODE, &mode);
    *p++ = OSSL_PARAM_construct_octet_string(
        OSSL_KDF_PARAM_KEY, (void *) (uintptr_t) (keylen ? key : &dummy), keylen);
    if (saltlen > 0) {
        *p++ = OSSL_PARAM_construct_octet_string(
            OSSL_KDF_PARAM_SALT, (void *) (uintptr_t) salt, saltlen);
    }
    if (infolen > 0) {
        *p++ = OSSL_PARAM_construct_octet_string(
            OSSL_KDF_PARAM_INFO, (void *) (uintptr_t) info, infolen);
    }
    *p = OSSL_PARAM_construct_end();
    ok = EVP_KDF_derive(ctx, out, outlen, params) == 1;
    EVP_KDF_CTX_free(ctx);
    EVP_KDF_free(kdf);
    return ok;
}

static void
xcheck_hkdf(void)
{
    static const size_t salt_lens[] = { 0, 1, 31, 32, 33, 63, 64, 65, 77,
                                        127, 128, 129, 200 };
    static const size_t info_lens[] = { 0, 1, 10, 63, 64, 88, 128, 300 };
    uint8_t  salt[200], ikm[300], info[300];
    uint8_t  prk_ref[64], prk_ossl[64];
    uint8_t *okm_ref, *okm_ossl;
    size_t   si, ii, ikmlen, outlen, hl;
    int      which;
    unsigned long refused = 0;

    okm_ref  = (uint8_t *) malloc(255 * 64 + 1);
    okm_ossl = (uint8_t *) malloc(255 * 64 + 1);
    if (okm_ref == NULL || okm_ossl == NULL) {
        exit(2);
    }
    for (which = 0; which < 2; which++) {
        const char *digest = which == 0 ? "SHA256" : "SHA512";

        hl = which == 0 ? 32 : 64;

        /* extract: salt lengths x ikm lengths 0..300 */
        for (si = 0; si < sizeof salt_lens / sizeof salt_lens[0]; si++) {
            size_t saltlen = salt_lens[si];

            for (ikmlen = 0; ikmlen <= 300; ikmlen++) {
                prng_fill(salt, saltlen);
                prng_fill(ikm, ikmlen);
                if (which == 0) {
                    ref_hkdf_sha256_extract(prk_ref, NULL_IF_EMPTY(salt, saltlen),
                                            saltlen, NULL_IF_EMPTY(ikm, ikmlen),
                                            ikmlen);
                } else {
                    ref_hkdf_sha512_extract(prk_ref, NULL_IF_EMPTY(salt, saltlen),
                                            saltlen, NULL_IF_EMPTY(ikm, ikmlen),
                                            ikmlen);
                }
                if (!ossl_hkdf(digest, EVP_KDF_HKDF_MODE_EXTRACT_ONLY, prk_ossl, hl,
                               ikm, ikmlen, salt, saltlen, NULL, 0)) {
                    refused++;
                    continue;
                }
                compare(which == 0 ? "hkdf-sha256 extract" : "hkdf-sha512 extract",
                        saltlen, ikmlen, prk_ref, prk_ossl, hl);
            }
        }

        /* expand: info lengths x output lengths 1..300 and every multiple of
         * the hash length +-1 up to the 255*HashLen limit */
        for (ii = 0; ii < sizeof info_lens / sizeof info_lens[0]; ii++) {
            size_t infolen = info_lens[ii];

            for (outlen = 1; outlen <= 255 * hl; outlen++) {
                int rc;

                if (outlen > 300 && outlen % hl > 1 && outlen % hl != hl - 1) {
                    continue;
                }
                if (outlen > 300 && ii % 3 != 0) {
                    continue;
                }
                prng_fill(prk_ref, hl);
                prng_fill(info, infolen);
                if (which == 0) {
                    rc = ref_hkdf_sha256_expand(okm_ref, outlen,
                                                NULL_IF_EMPTY(info, infolen),
                                                infolen, prk_ref);
                } else {
                    rc = ref_hkdf_sha512_expand(okm_ref, outlen,
                                                NULL_IF_EMPTY(info, infolen),
                                                infolen, prk_ref);
                }
                if (rc != 0) {
                    n_fail++;
                    printf("hkdf expand refused outlen %lu\n", (unsigned long) outlen);
                    continue;
                }
                if (!ossl_hkdf(digest, EVP_KDF_HKDF_MODE_EXPAND_ONLY, okm_ossl, outlen,
                               prk_ref, hl, NULL, 0, info, infolen)) {
                    refused++;
                    continue;
                }
                compare(which == 0 ? "hkdf-sha256 expand" : "hkdf-sha512 expand",
                        infolen, outlen, okm_ref, okm_ossl, outlen);
            }
            /* both sides must refuse 255*HashLen + 1 */
            n_compared++;
            if ((which == 0 ? ref_hkdf_sha256_expand(okm_ref, 255 * hl + 1, NULL, 0, prk_ref)
                            : ref_hkdf_sha512_expand(okm_ref, 255 * hl + 1, NULL, 0, prk_ref)) != -1 ||
                ossl_hkdf(digest, EVP_KDF_HKDF_MODE_EXPAND_ONLY, okm_ossl, 255 * hl + 1,
                          prk_ref, hl, NULL, 0, NULL, 0)) {
                n_fail++;
                printf("hkdf expand limit not enforced\n");
            }
        }
    }
    if (refused != 0) {
        printf("note: OpenSSL refused %lu HKDF parameter sets (not compared)\n",
               refused);
    }
    free(okm_ref);
    free(okm_ossl);
}

int
main(void)
{
    xcheck_aes_block();
    xcheck_gcm();
    xcheck_siphash();
    xcheck_hkdf();
    if (n_fail != 0) {
        printf("ref_hash_xcheck: %lu MISMATCHES out of %lu comparisons\n", n_fail,
               n_compared);
        return 1;
    }
    printf("ref_hash_xcheck OK (%lu comparisons against OpenSSL)\n", n_compared);
    return 0;
}
