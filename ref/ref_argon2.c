/*
 * ref_argon2.c - independent reference model of Argon2 v1.3 (version 0x13),
 * written from RFC 9106.  Section numbers in comments refer to that RFC.
 *
 * Self-contained: carries its own small BLAKE2b (RFC 7693), all private
 * symbols are static and prefixed a2_.  Endian-neutral, no SIMD, no threads.
 * Test oracle only: not constant time, no wiping of secrets.
 */
#include "ref_argon2.h"

#include <stdlib.h>
#include <string.h>

/* ------------------------------------------------------------------------ */
/* little helpers                                                           */
/* ------------------------------------------------------------------------ */

static uint64_t
a2_load64(const uint8_t *p)
{
    uint64_t v = 0;
    int      i;

    for (i = 7; i >= 0; i--) {
        v = (v << 8) | p[i];
    }
    return v;
}

static void
a2_store64(uint8_t *p, uint64_t v)
{
    int i;

    for (i = 0; i < 8; i++) {
        p[i] = (uint8_t) (v >> (8 * i));
    }
}

static void
a2_store32(uint8_t *p, uint32_t v)
{
    int i;

    for (i = 0; i < 4; i++) {
        p[i] = (uint8_t) (v >> (8 * i));
    }
}

static uint64_t
a2_rotr64(uint64_t x, unsigned n)
{
    return (x >> n) | (x << (64 - n));
}

/* ------------------------------------------------------------------------ */
/* BLAKE2b, unkeyed, variable output length 1..64 (RFC 7693)                */
/* ------------------------------------------------------------------------ */

typedef struct {
    uint64_t h[8];
    uint64_t t0, t1;   /* 128-bit byte counter */
    uint8_t  buf[128];
    size_t   buflen;
    size_t   outlen;
} a2_b2b;

static const uint64_t a2_b2b_iv[8] = {
    0x6a09e667f3bcc908ULL, 0xbb67ae8584caa73bULL, 0x3c6ef372fe94f82bULL,
    0xa54ff53a5f1d36f1ULL, 0x510e527fade682d1ULL, 0x9b05688c2b3e6c1fULL,
    0x1f83d9abfb41bd6bULL, 0x5be0cd19137e2179ULL
};

static const uint8_t a2_b2b_sigma[12][16] = {
    { 0, 1, 2, 3, 4, 5, 6, 7, 8, 9, 10, 11, 12, 13, 14, 15 },
    { 14, 10, 4, 8, 9, 15, 13, 6, 1, 12, 0, 2, 11, 7, 5, 3 },
    { 11, 8, 12, 0, 5, 2, 15, 13, 10, 14, 3, 6, 7, 1, 9, 4 },
    { 7, 9, 3, 1, 13, 12, 11, 14, 2, 6, 5, 10, 4, 0, 15, 8 },
    { 9, 0, 5, 7, 2, 4, 10, 15, 14, 1, 11, 12, 6, 8, 3, 13 },
    { 2, 12, 6, 10, 0, 11, 8, 3, 4, 13, 7, 5, 15, 14, 1, 9 },
    { 12, 5, 1, 15, 14, 13, 4, 10, 0, 7, 6, 3, 9, 2, 8, 11 },
    { 13, 11, 7, 14, 12, 1, 3, 9, 5, 0, 15, 4, 8, 6, 2, 10 },
    { 6, 15, 14, 9, 11, 3, 0, 8, 12, 2, 13, 7, 1, 4, 10, 5 },
    { 10, 2, 8, 4, 7, 6, 1, 5, 15, 11, 9, 14, 3, 12, 13, 0 },
    { 0, 1, 2, 3, 4, 5, 6, 7, 8, 9, 10, 11, 12, 13, 14, 15 },
    { 14, 10, 4, 8, 9, 15, 13, 6, 1, 12, 0, 2, 11, 7, 5, 3 }
};

#define A2_B2B_G(a, b, c, d, x, y)      \
    do {                                \
        v[a] = v[a] + v[b] + (x);       \
        v[d] = a2_rotr64(v[d] ^ v[a], 32); \
        v[c] = v[c] + v[d];             \
        v[b] = a2_rotr64(v[b] ^ v[c], 24); \
        v[a] = v[a] + v[b] + (y);       \
        v[d] = a2_rotr64(v[d] ^ v[a], 16); \
        v[c] = v[c] + v[d];             \
        v[b] = a2_rotr64(v[b] ^ v[c], 63); \
    } while (0)

static void
a2_b2b_compress(a2_b2b *S, const uint8_t block[128], int last)
{
    uint64_t m[16], v[16];
    int      i, r;

    for (i = 0; i < 16; i++) {
        m[i] = a2_load64(block + 8 * i);
    }
    for (i = 0; i < 8; i++) {
        v[i]     = S->h[i];
        v[i + 8] = a2_b2b_iv[i];
    }
    v[12] ^= S->t0;
    v[13] ^= S->t1;
    if (last) {
        v[14] = ~v[14];
    }
    for (r = 0; r < 12; r++) {
        const uint8_t *s = a2_b2b_sigma[r];

        A2_B2B_G(0, 4, 8, 12, m[s[0]], m[s[1]]);
        A2_B2B_G(1, 5, 9, 13, m[s[2]], m[s[3]]);
        A2_B2B_G(2, 6, 10, 14, m[s[4]], m[s[5]]);
        A2_B2B_G(3, 7, 11, 15, m[s[6]], m[s[7]]);
        A2_B2B_G(0, 5, 10, 15, m[s[8]], m[s[9]]);
        A2_B2B_G(1, 6, 11, 12, m[s[10]], m[s[11]]);
        A2_B2B_G(2, 7, 8, 13, m[s[12]], m[s[13]]);
        A2_B2B_G(3, 4, 9, 14, m[s[14]], m[s[15]]);
    }
    for (i = 0; i < 8; i++) {
        S->h[i] ^= v[i] ^ v[i + 8];
    }
}

static void
a2_b2b_init(a2_b2b *S, size_t outlen) /* 1 <= outlen <= 64 */
{
    int i;

    memset(S, 0, sizeof *S);
    for (i = 0; i < 8; i++) {
        S->h[i] = a2_b2b_iv[i];
    }
    /* parameter block: digest length, key length 0, fanout 1, depth 1 */
    S->h[0] ^= 0x01010000ULL ^ (uint64_t) outlen;
    S->outlen = outlen;
}

static void
a2_b2b_update(a2_b2b *S, const uint8_t *in, size_t inlen)
{
    while (inlen > 0) {
        size_t n;

        /* a full buffer is only compressed once we know more data follows,
         * because the last block needs the finalisation flag */
        if (S->buflen == 128) {
            S->t0 += 128;
            if (S->t0 < 128) {
                S->t1++;
            }
            a2_b2b_compress(S, S->buf, 0);
            S->buflen = 0;
        }
        n = 128 - S->buflen;
        if (n > inlen) {
            n = inlen;
        }
        memcpy(S->buf + S->buflen, in, n);
        S->buflen += n;
        in += n;
        inlen -= n;
    }
}

static void
a2_b2b_final(a2_b2b *S, uint8_t *out)
{
    uint8_t full[64];
    int     i;

    S->t0 += S->buflen;
    if (S->t0 < S->buflen) {
        S->t1++;
    }
    memset(S->buf + S->buflen, 0, 128 - S->buflen);
    a2_b2b_compress(S, S->buf, 1);
    for (i = 0; i < 8; i++) {
        a2_store64(full + 8 * i, S->h[i]);
    }
    memcpy(out, full, S->outlen);
}

/* ------------------------------------------------------------------------ */
/* H' - variable-length hash function (section 3.3)                         */
/* ------------------------------------------------------------------------ */

static void
a2_hprime(uint8_t *out, uint32_t T, const uint8_t *A, size_t Alen)
{
    a2_b2b  S;
    uint8_t le[4];
    uint8_t V[64];
    uint32_t r, i;

    a2_store32(le, T);
    if (T <= 64) {
        /* H'^T(A) = H^T(LE32(T) || A) */
        a2_b2b_init(&S, T);
        a2_b2b_update(&S, le, 4);
        a2_b2b_update(&S, A, Alen);
        a2_b2b_final(&S, out);
        return;
    }
    /* r = ceil(T/32) - 2 */
    r = (uint32_t) (((uint64_t) T + 31) / 32) - 2;

    /* V_1 = H^64(LE32(T) || A) */
    a2_b2b_init(&S, 64);
    a2_b2b_update(&S, le, 4);
    a2_b2b_update(&S, A, Alen);
    a2_b2b_final(&S, V);
    memcpy(out, V, 32); /* W_1 */
    out += 32;
    /* V_i = H^64(V_{i-1}), i = 2..r ; output W_i = first 32 bytes of V_i */
    for (i = 2; i <= r; i++) {
        a2_b2b_init(&S, 64);
        a2_b2b_update(&S, V, 64);
        a2_b2b_final(&S, V);
        memcpy(out, V, 32);
        out += 32;
    }
    /* V_{r+1} = H^(T-32r)(V_r), output in full */
    a2_b2b_init(&S, (size_t) (T - 32 * r));
    a2_b2b_update(&S, V, 64);
    a2_b2b_final(&S, out);
}

/* ------------------------------------------------------------------------ */
/* compression function G (section 3.5) and permutation P (section 3.6)     */
/* ------------------------------------------------------------------------ */

typedef struct {
    uint64_t v[128]; /* 1024 bytes as 128 little-endian 64-bit words */
} a2_block;

/* a + b + 2 * trunc(a) * trunc(b)  mod 2^64 */
static uint64_t
a2_blamka(uint64_t a, uint64_t b)
{
    return a + b + 2 * (uint64_t) (uint32_t) a * (uint64_t) (uint32_t) b;
}

#define A2_GB(a, b, c, d)                    \
    do {                                     \
        a = a2_blamka(a, b);                 \
        d = a2_rotr64(d ^ a, 32);            \
        c = a2_blamka(c, d);                 \
        b = a2_rotr64(b ^ c, 24);            \
        a = a2_blamka(a, b);                 \
        d = a2_rotr64(d ^ a, 16);            \
        c = a2_blamka(c, d);                 \
        b = a2_rotr64(b ^ c, 63);            \
    } while (0)

/* P on eight 16-byte registers = sixteen 64-bit words v0..v15,
 * register S_i = (v_{2i+1} || v_{2i}), i.e. the words in memory order */
static void
a2_P(uint64_t v[16])
{
    A2_GB(v[0], v[4], v[8], v[12]);
    A2_GB(v[1], v[5], v[9], v[13]);
    A2_GB(v[2], v[6], v[10], v[14]);
    A2_GB(v[3], v[7], v[11], v[15]);
    A2_GB(v[0], v[5], v[10], v[15]);
    A2_GB(v[1], v[6], v[11], v[12]);
    A2_GB(v[2], v[7], v[8], v[13]);
    A2_GB(v[3], v[4], v[9], v[14]);
}

/* dst = G(X, Y)            if !xor_into
 * dst = G(X, Y) XOR dst    if  xor_into   (passes > 0 in v1.3, section 3.2 step 6)
 * dst may alias X or Y. */
static void
a2_G(a2_block *dst, const a2_block *X, const a2_block *Y, int xor_into)
{
    a2_block R, Z;
    uint64_t col[16];
    int      i, k;

    for (i = 0; i < 128; i++) {
        R.v[i] = X->v[i] ^ Y->v[i];
    }
    Z = R;
    /* R is an 8x8 matrix of 16-byte registers R_0..R_63, row-major.
     * First P on every row: row i is registers 8i..8i+7 = words 16i..16i+15 */
    for (i = 0; i < 8; i++) {
        a2_P(&Z.v[16 * i]);
    }
    /* then P on every column: column i is registers i, i+8, ..., i+56;
     * register k of the column is words 16k+2i, 16k+2i+1 */
    for (i = 0; i < 8; i++) {
        for (k = 0; k < 8; k++) {
            col[2 * k]     = Z.v[16 * k + 2 * i];
            col[2 * k + 1] = Z.v[16 * k + 2 * i + 1];
        }
        a2_P(col);
        for (k = 0; k < 8; k++) {
            Z.v[16 * k + 2 * i]     = col[2 * k];
            Z.v[16 * k + 2 * i + 1] = col[2 * k + 1];
        }
    }
    /* output Z XOR R */
    if (xor_into) {
        for (i = 0; i < 128; i++) {
            dst->v[i] ^= Z.v[i] ^ R.v[i];
        }
    } else {
        for (i = 0; i < 128; i++) {
            dst->v[i] = Z.v[i] ^ R.v[i];
        }
    }
}

/* ------------------------------------------------------------------------ */
/* the memory-filling loop (sections 3.2, 3.4)                              */
/* ------------------------------------------------------------------------ */

#define A2_SL 4 /* number of slices (vertical), "SL" in the RFC */

typedef struct {
    a2_block *B;       /* p rows (lanes) of q columns: B[i][j] = B[i*q + j] */
    uint32_t  type;    /* y */
    uint32_t  t;       /* passes */
    uint32_t  p;       /* lanes */
    uint32_t  mprime;  /* m' blocks */
    uint32_t  q;       /* columns per lane = m'/p */
    uint32_t  seglen;  /* q / SL */
} a2_ctx;

/* data-independent addressing (section 3.4.1.2): block number `counter`
 * (starting at 1) of the (J1,J2) stream for a given (pass, lane, slice) */
static void
a2_address_block(const a2_ctx *c, a2_block *addr, uint32_t pass,
                 uint32_t lane, uint32_t slice, uint64_t counter)
{
    a2_block zero, in;

    memset(&zero, 0, sizeof zero);
    memset(&in, 0, sizeof in);
    /* Z = LE64(r) || LE64(l) || LE64(sl) || LE64(m') || LE64(t) || LE64(y),
     * then LE64(counter), then 968 zero bytes */
    in.v[0] = pass;
    in.v[1] = lane;
    in.v[2] = slice;
    in.v[3] = c->mprime;
    in.v[4] = c->t;
    in.v[5] = c->type;
    in.v[6] = counter;
    a2_G(addr, &zero, &in, 0);
    a2_G(addr, &zero, addr, 0);
}

static void
a2_fill_segment(const a2_ctx *c, uint32_t pass, uint32_t lane, uint32_t slice)
{
    a2_block addr;
    int      data_independent;
    int      have_addr = 0;
    uint32_t idx, start;

    if (c->type == REF_ARGON2_I) {
        data_independent = 1;
    } else if (c->type == REF_ARGON2_ID) {
        /* first pass, first two slices */
        data_independent = (pass == 0 && slice < A2_SL / 2);
    } else {
        data_independent = 0;
    }
    /* B[i][0] and B[i][1] of pass 0 are set directly from H0 */
    start = (pass == 0 && slice == 0) ? 2 : 0;

    for (idx = start; idx < c->seglen; idx++) {
        uint32_t  j    = slice * c->seglen + idx;        /* current column */
        uint32_t  prev = (j == 0) ? c->q - 1 : j - 1;    /* column j-1 mod q */
        a2_block *cur  = &c->B[(size_t) lane * c->q + j];
        const a2_block *pb = &c->B[(size_t) lane * c->q + prev];
        const a2_block *rb;
        uint64_t  J, J1, J2, W, x, y, zz, startpos;
        uint32_t  l, z;
        int       same_lane;

        if (data_independent) {
            /* one address block yields 128 (J1,J2) pairs; pair number idx of
             * the segment lives in address block idx/128 (counter from 1),
             * including the unused pairs 0 and 1 of the very first segment */
            if (!have_addr || idx % 128 == 0) {
                a2_address_block(c, &addr, pass, lane, slice,
                                 (uint64_t) idx / 128 + 1);
                have_addr = 1;
            }
            J = addr.v[idx % 128];
        } else {
            /* section 3.4.1.1: first two 32-bit words of B[i][j-1] */
            J = pb->v[0];
        }
        J1 = J & 0xffffffffULL;
        J2 = J >> 32;

        /* section 3.4.2: lane */
        if (pass == 0 && slice == 0) {
            l = lane;
        } else {
            l = (uint32_t) (J2 % c->p);
        }
        same_lane = (l == lane);

        /* size of the reference area W */
        if (pass == 0) {
            if (same_lane) {
                /* finished segments of this pass + this segment so far,
                 * minus B[i][j-1] */
                W = (uint64_t) slice * c->seglen + idx - 1;
            } else {
                W = (uint64_t) slice * c->seglen - (idx == 0 ? 1 : 0);
            }
        } else {
            if (same_lane) {
                W = (uint64_t) c->q - c->seglen + idx - 1;
            } else {
                W = (uint64_t) c->q - c->seglen - (idx == 0 ? 1 : 0);
            }
        }
        /* non-uniform mapping of J1 onto [0, W) */
        x  = (J1 * J1) >> 32;
        y  = (W * x) >> 32;
        zz = W - 1 - y;
        /* W is enumerated starting from the oldest block: column 0 in the
         * first pass, otherwise the start of the next slice */
        if (pass == 0 || slice == A2_SL - 1) {
            startpos = 0;
        } else {
            startpos = (uint64_t) (slice + 1) * c->seglen;
        }
        z  = (uint32_t) ((startpos + zz) % c->q);
        rb = &c->B[(size_t) l * c->q + z];

        a2_G(cur, pb, rb, pass > 0);
    }
}

int
ref_argon2(int type, uint8_t *out, uint32_t outlen,
           const uint8_t *pwd, uint32_t pwdlen,
           const uint8_t *salt, uint32_t saltlen,
           const uint8_t *secret, uint32_t secretlen,
           const uint8_t *ad, uint32_t adlen,
           uint32_t t_cost, uint32_t m_cost_kib, uint32_t lanes)
{
    a2_ctx   c;
    a2_b2b   S;
    a2_block C;
    uint8_t  le[4];
    uint8_t  h0[64 + 8];
    uint8_t  blk[1024];
    uint32_t i, pass, slice, lane;
    uint64_t nbytes;
    int      k;

    /* section 3.1 limits */
    if (type != REF_ARGON2_D && type != REF_ARGON2_I && type != REF_ARGON2_ID) {
        return -1;
    }
    if (out == NULL || outlen < 4) {
        return -1;
    }
    if (lanes < 1 || lanes > 0xffffffU) {
        return -1;
    }
    if (t_cost < 1) {
        return -1;
    }
    if ((uint64_t) m_cost_kib < 8 * (uint64_t) lanes) {
        return -1;
    }
    if ((pwd == NULL && pwdlen != 0) || (salt == NULL && saltlen != 0) ||
        (secret == NULL && secretlen != 0) || (ad == NULL && adlen != 0)) {
        return -1;
    }

    c.type   = (uint32_t) type;
    c.t      = t_cost;
    c.p      = lanes;
    c.mprime = 4 * lanes * (m_cost_kib / (4 * lanes));
    c.q      = c.mprime / lanes;
    c.seglen = c.q / A2_SL;

    nbytes = (uint64_t) c.mprime * sizeof(a2_block);
    if (nbytes > (uint64_t) SIZE_MAX) {
        return -1;
    }
    c.B = (a2_block *) malloc((size_t) nbytes);
    if (c.B == NULL) {
        return -1;
    }

    /* step 1: H0 = H^64(LE32(p) || LE32(T) || LE32(m) || LE32(t) || LE32(v)
     *              || LE32(y) || LE32(|P|) || P || LE32(|S|) || S
     *              || LE32(|K|) || K || LE32(|X|) || X)
     * note: the m hashed here is the caller's m, not m' */
    a2_b2b_init(&S, 64);
    a2_store32(le, lanes);       a2_b2b_update(&S, le, 4);
    a2_store32(le, outlen);      a2_b2b_update(&S, le, 4);
    a2_store32(le, m_cost_kib);  a2_b2b_update(&S, le, 4);
    a2_store32(le, t_cost);      a2_b2b_update(&S, le, 4);
    a2_store32(le, 0x13);        a2_b2b_update(&S, le, 4);
    a2_store32(le, c.type);      a2_b2b_update(&S, le, 4);
    a2_store32(le, pwdlen);      a2_b2b_update(&S, le, 4);
    if (pwdlen) a2_b2b_update(&S, pwd, pwdlen);
    a2_store32(le, saltlen);     a2_b2b_update(&S, le, 4);
    if (saltlen) a2_b2b_update(&S, salt, saltlen);
    a2_store32(le, secretlen);   a2_b2b_update(&S, le, 4);
    if (secretlen) a2_b2b_update(&S, secret, secretlen);
    a2_store32(le, adlen);       a2_b2b_update(&S, le, 4);
    if (adlen) a2_b2b_update(&S, ad, adlen);
    a2_b2b_final(&S, h0);

    /* steps 3,4: B[i][0] = H'^1024(H0 || LE32(0) || LE32(i)),
     *            B[i][1] = H'^1024(H0 || LE32(1) || LE32(i)) */
    for (i = 0; i < lanes; i++) {
        uint32_t j;

        for (j = 0; j < 2; j++) {
            a2_block *b = &c.B[(size_t) i * c.q + j];

            a2_store32(h0 + 64, j);
            a2_store32(h0 + 68, i);
            a2_hprime(blk, 1024, h0, sizeof h0);
            for (k = 0; k < 128; k++) {
                b->v[k] = a2_load64(blk + 8 * k);
            }
        }
    }

    /* steps 5,6: all passes; segments of one slice are independent of each
     * other, so lanes can be done sequentially inside a slice */
    for (pass = 0; pass < t_cost; pass++) {
        for (slice = 0; slice < A2_SL; slice++) {
            for (lane = 0; lane < lanes; lane++) {
                a2_fill_segment(&c, pass, lane, slice);
            }
        }
    }

    /* step 7: C = XOR of the last column */
    C = c.B[c.q - 1];
    for (i = 1; i < lanes; i++) {
        const a2_block *b = &c.B[(size_t) i * c.q + (c.q - 1)];

        for (k = 0; k < 128; k++) {
            C.v[k] ^= b->v[k];
        }
    }
    /* step 8: Tag = H'^T(C) */
    for (k = 0; k < 128; k++) {
        a2_store64(blk + 8 * k, C.v[k]);
    }
    a2_hprime(out, outlen, blk, sizeof blk);

    free(c.B);
    return 0;
}
