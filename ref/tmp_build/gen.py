#!/usr/bin/python3
# one-off generator for ref_hash_selftest.c (not a deliverable)
import re, sys, hashlib, hmac

def parse_tests(path):
    src = open(path).read()
    a = src.index("tests[] = {") + len("tests[] = {")
    b = src.index("};", a)
    body = src[a:b]
    entries = []; cur = None; field = None; i = 0
    while i < len(body):
        ch = body[i]
        if ch == '{':
            cur = []; field = None
        elif ch == '}':
            if field is not None: cur.append(field)
            entries.append(cur); cur = None; field = None
        elif ch == '"':
            j = body.index('"', i + 1)
            s = body[i+1:j]
            field = s if field is None else field + s
            i = j
        elif ch == ',':
            if cur is not None and field is not None:
                cur.append(field); field = None
        i += 1
    return entries

def cstr(h, indent="      "):
    if h == "": return '""'
    parts = [h[i:i+64] for i in range(0, len(h), 64)]
    return ("\n" + indent).join('"%s"' % p for p in parts)

out = []
w = out.append

# ---------------- recalled published vectors, transcription-checked ----------
def chk(name, recalled, computed):
    if recalled != computed:
        sys.stderr.write("TRANSCRIPTION MISMATCH %s\n  recalled %s\n  computed %s\n" % (name, recalled, computed))
        sys.exit(1)

sha256_v = [
 (b"", "e3b0c44298fc1c149afbf4c8996fb92427ae41e4649b934ca495991b7852b855"),
 (b"abc", "ba7816bf8f01cfea414140de5dae2223b00361a396177a9cb410ff61f20015ad"),
 (b"abcdbcdecdefdefgefghfghighijhijkijkljklmklmnlmnomnopnopq", "248d6a61d20638b8e5c026930c3e6039a33ce45964ff2167f6ecedd419db06c1"),
]
sha512_v = [
 (b"", "cf83e1357eefb8bdf1542850d66d8007d620e4050b5715dc83f4a921d36ce9ce47d0d13c5d85f2b0ff8318d2877eec2f63b931bd47417a81a538327af927da3e"),
 (b"abc", "ddaf35a193617abacc417349ae20413112e6fa4e89a97ea20a9eeee64b55d39a2192992a274fc1a836ba3c23a3feebbd454d4423643ce80e2a9ac94fa54ca49f"),
 (b"abcdefghbcdefghicdefghijdefghijkefghijklfghijklmghijklmnhijklmnoijklmnopjklmnopqklmnopqrlmnopqrsmnopqrstnopqrstu", "8e959b75dae313da8cf4f72814fc143f8f7779c6eb9f7fa17299aeadb6889018501d289e4900f7e4331b99dec4b5433ac7d329eeb6dd26545e96e55b874be909"),
]
for m, h in sha256_v: chk("sha256", h, hashlib.sha256(m).hexdigest())
for m, h in sha512_v: chk("sha512", h, hashlib.sha512(m).hexdigest())
sha256_million = "cdc76e5c9914fb9281a1c7e284d73e67f1809a48a497200e046d39ccc7112cd0"
sha512_million = "e718483d0ce769644e2e42c7bc15b4638e1f98b13b2044285632a803afa973ebde0ff244877ea60a4cb0432ce577c31beb009c5c2c49aa2e4eadb217ad8cc09b"
chk("sha256 1e6", sha256_million, hashlib.sha256(b"a"*1000000).hexdigest())
chk("sha512 1e6", sha512_million, hashlib.sha512(b"a"*1000000).hexdigest())

# RFC 4231 (test case 5 is a truncation test and is skipped)
rfc4231 = [
 (1, b"\x0b"*20, b"Hi There"),
 (2, b"Jefe", b"what do ya want for nothing?"),
 (3, b"\xaa"*20, b"\xdd"*50),
 (4, bytes(range(1, 26)), b"\xcd"*50),
 (6, b"\xaa"*131, b"Test Using Larger Than Block-Size Key - Hash Key First"),
 (7, b"\xaa"*131, b"This is a test using a larger than block-size key and a larger than block-size data. The key needs to be hashed before being used by the HMAC algorithm."),
]
recalled_4231_256 = {
 1: "b0344c61d8db38535ca8afceaf0bf12b881dc200c9833da726e9376c2e32cff7",
 2: "5bdcc146bf60754e6a042426089575c75a003f089d2739839dec58b964ec3843",
 3: "773ea91e36800e46854db8ebd09181a72959098b3ef8c122d9635514ced565fe",
 4: "82558a389a443c0ea4cc819899f2083a85f0faa3e578f8077a2e3ff46729665b",
 6: "60e431591ee0b67f0d8a26aacbf5b77f8e0bc6213728c5140546040f0ee37f54",
 7: "9b09ffa71b942fcb27635fbcd5b0e944bfdc63644f0713938a7f51535c3a35e2",
}
recalled_4231_512 = {
 1: "87aa7cdea5ef619d4ff0b4241a1d6cb02379f4e2ce4ec2787ad0b30545e17cdedaa833b7d6b8a702038b274eaea3f4e4be9d914eeb61f1702e696c203a126854",
 2: "164b7a7bfcf819e2e395fbe73b56e0a387bd64222e831fd610270cd7ea2505549758bf75c05a994a6d034f65f8f0e6fdcaeab1a34d4a6b4b636e070a38bce737",
}
hm = []
for tc, k, d in rfc4231:
    h256 = hmac.new(k, d, "sha256").hexdigest()
    h512 = hmac.new(k, d, "sha512").hexdigest()
    if tc in recalled_4231_256: chk("4231/256/%d" % tc, recalled_4231_256[tc], h256)
    if tc in recalled_4231_512: chk("4231/512/%d" % tc, recalled_4231_512[tc], h512)
    hm.append((tc, k.hex(), d.hex(), h256, h512))

# RFC 5869 A.1-A.3 (SHA-256)
def hkdf(hashname, salt, ikm, info, L):
    hl = hashlib.new(hashname).digest_size
    prk = hmac.new(salt if salt else b"\0"*hl, ikm, hashname).digest()
    t = b""; okm = b""; i = 1
    while len(okm) < L:
        t = hmac.new(prk, t + info + bytes([i]), hashname).digest(); okm += t; i += 1
    return prk, okm[:L]
rfc5869 = [
 (1, b"\x0b"*22, bytes(range(0x00, 0x0d)), bytes(range(0xf0, 0xfa)), 42,
  "077709362c2e32df0ddc3f0dc47bba6390b6c73bb50f9c3122ec844ad7c2b3e5",
  "3cb25f25faacd57a90434f64d0362f2a2d2d0a90cf1a5a4c5db02d56ecc4c5bf34007208d5b887185865"),
 (2, bytes(range(0x00, 0x50)), bytes(range(0x60, 0xb0)), bytes(range(0xb0, 0x100)), 82,
  "06a6b88c5853361a06104c9ceb35b45cef760014904671014a193f40c15fc244",
  "b11e398dc80327a1c8e7f78c596a49344f012eda2d4efad8a050cc4c19afa97c59045a99cac7827271cb41c65e590e09da3275600c2f09b8367793a9aca3db71cc30c58179ec3e87c14c01d5c1f3434f1d87"),
 (3, b"\x0b"*22, b"", b"", 42,
  "19ef24a32c717b167f33a91d6f648bdf96596776afdb6377ac434c1c293ccb04",
  "8da4e775a563c18f715f802a063c5a31b8a11f5c5ee1879ec3454e5f3c738d2d9d201395faa4b61a96c8"),
]
for tc, ikm, salt, info, L, prk, okm in rfc5869:
    p, o = hkdf("sha256", salt, ikm, info, L)
    chk("5869/%d prk" % tc, prk, p.hex()); chk("5869/%d okm" % tc, okm, o.hex())

# libsodium test-suite HKDF expected output (kdf_hkdf.exp): PRKs and the longest expands
exp = open("/repo/test/default/kdf_hkdf.exp").read().split("\n")
i256 = exp.index("HKDF/SHA-256:"); i512 = exp.index("HKDF/SHA-512:")
prk256_exp = exp[i256+1].split()[1]; okm256_exp = exp[i256+2+98]
prk512_exp = exp[i512+1].split()[1]; okm512_exp = exp[i512+2+98]
assert len(okm256_exp) == 196 and len(okm512_exp) == 196 and len(prk512_exp) == 128

# BLAKE2b
b2_abc = "ba80a53f981c4d0d6a2797b69f12f6e94c212f14685ac4b74b12bb6fdbffa2d17d87c5392aab792dc252d5de4533cc9518d38aa8dbf1925ab92386edd4009923"
chk("blake2b abc", b2_abc, hashlib.blake2b(b"abc").hexdigest())
b2_empty = "786a02f742015903c6c6fd852552d272912f4740e15847618a86e217f71f5419d25e1031afee585313896444934eb04b903a685b1448b755d56f701afe9be2ce"
chk("blake2b empty", b2_empty, hashlib.blake2b(b"").hexdigest())
kat = parse_tests("/repo/test/default/generichash.c")
assert len(kat) == 256
k64 = bytes(range(64))
for n, (i_hex, k_hex, o_hex) in enumerate(kat):
    assert bytes.fromhex(i_hex) == bytes(range(n)) and bytes.fromhex(k_hex) == k64
    chk("blake2b kat %d" % n, o_hex, hashlib.blake2b(bytes(range(n)), key=k64).hexdigest())

# SipHash
sip64 = open("/repo/test/default/shorthash.exp").read().split()
sip128 = open("/repo/test/default/siphashx24.exp").read().split()
assert len(sip64) == 64 and len(sip128) == 64
assert sip64[0] == "310e0edd47db6f72" and sip64[63] == "724506eb4c328a95", sip64[63]
assert sip128[0] == "a3817f04ba25a8e66df67214c7550293"

# GCM: classic McGrew/Viega test cases 13-16 + NIST CAVS subset from repo
K15 = "feffe9928665731c6d6a8f9467308308feffe9928665731c6d6a8f9467308308"
P15 = "d9313225f88406e5a55909c5aff5269a86a7a9531534f7da2e4c303d8a318a721c3c0c95956809532fcf0e2449a6b525b16aedf5aa0de657ba637b391aafd255"
C15 = "522dc1f099567d07f47f37a32a84427d643a8cdcbfe5c0c97598a2bd2555d1aa8cb08e48590dbb3da7b08b1056828838c5f61e6393ba7a0abcc9f662898015ad"
gcm = [
 ("GCM spec test case 13", "00"*32, "00"*12, "", "", "", "530f8afbc74536b9a963b4f1c4cb738b"),
 ("GCM spec test case 14", "00"*32, "00"*12, "00"*16, "", "cea7403d4d606b6e074ec5d3baf39d18", "d0d1c8a799996bf0265b98b5d48ab919"),
 ("GCM spec test case 15", K15, "cafebabefacedbaddecaf888", P15, "", C15, "b094dac5d93471bdec1a502270e3cc6c"),
 ("GCM spec test case 16", K15, "cafebabefacedbaddecaf888", P15[:120], "feedfacedeadbeeffeedfacedeadbeefabaddad2", C15[:120], "76fc6ece0f4e1768cddf8853bb2d551b"),
]
nist = parse_tests("/repo/test/default/aead_aes256gcm.c")
seen = set(); picked = []
for e in nist:
    if len(e) != 6: continue
    key = (len(e[2])//2, len(e[3])//2)
    if len(e[1]) != 24 or len(e[5]) != 32: continue
    if key in seen: continue
    seen.add(key); picked.append(e)
for n, e in enumerate(picked):
    gcm.append(("NIST CAVS gcmEncryptExtIV256 (mlen %d, adlen %d)" % (len(e[2])//2, len(e[3])//2), e[0], e[1], e[2], e[3], e[4], e[5]))

# AEGIS draft vectors (recalled from draft-irtf-cfrg-aegis-aead appendix A)
K128 = "10010000000000000000000000000000"; N128 = "10000200000000000000000000000000"
M32 = "000102030405060708090a0b0c0d0e0f101112131415161718191a1b1c1d1e1f"
AD42 = "000102030405060708090a0b0c0d0e0f101112131415161718191a1b1c1d1e1f20212223242526272829"
M40 = "101112131415161718191a1b1c1d1e1f202122232425262728292a2b2c2d2e2f3031323334353637"
aegis128l_draft = [
 (K128, N128, "", "00"*16, "c1c0e58bd913006feba00f4b3cc3594e", "abe0ece80c24868a226a35d16bdae37a", "25835bfbb21632176cf03840687cb968cace4617af1bd0f7d064c639a5c79ee4"),
 (K128, N128, "", "", "", "c2b879a67def9d74e6c14f708bbcc9b4", "1360dc9db8ae42455f6e5b6a9d488ea4f2184c4e12120249335c4ee84bafe25d"),
 (K128, N128, "0001020304050607", M32, "79d94593d8c2119d7e8fd9b8fc77845c5c077a05b2528b6ac54b563aed8efe84", "cc6f3372f6aa1bb82388d695c3962d9a", "022cb796fe7e0ae1197525ff67e309484cfbab6528ddef89f17d74ef8ecd82b3"),
 (K128, N128, "0001020304050607", M32[:28], "79d94593d8c2119d7e8fd9b8fc77", "5c04b3dba849b2701effbe32c7f0fab7", "86f1b80bfb463aba711d15405d094baf4a55a15dbfec81a76f35ed0b9c8b04ac"),
 (K128, N128, AD42, M40, "b31052ad1cca4e291abcf2df3502e6bdb1bfd6db36798be3607b1f94d34478aa7ede7f7a990fec10", "7542a745733014f9474417b337399507", "b91e2947a33da8bee89b6794e647baf0fc835ff574aca3fc27c33be0db2aff98"),
]
K256 = "1001" + "00"*30; N256 = "100002" + "00"*29
aegis256_draft = [
 (K256, N256, "", "00"*16, "754fc3d8c973246dcc6d741412a4b236", "3fe91994768b332ed7f570a19ec5896e", "1181a1d18091082bf0266f66297d167d2e68b845f61a3b0527d31fc7b7b89f13"),
 (K256, N256, "", "", "", "e3def978a0f054afd1e761d7553afba3", "6a348c930adbd654896e1666aad67de989ea75ebaa2b82fb588977b1ffec864a"),
 (K256, N256, "0001020304050607", M32, "f373079ed84b2709faee373584585d60accd191db310ef5d8b11833df9dec711", "8d86f91ee606e9ff26a01b64ccbdd91d", "b7d28d0c3c0ebd409fd22b44160503073a547412da0854bfb9723020dab8da1a"),
 (K256, N256, "0001020304050607", M32[:28], "f373079ed84b2709faee37358458", "c60b9c2d33ceb058f96e6dd03c215652", "8c1cc703c81281bee3f6d9966e14948b4a175b2efbdc31e61a98b4465235c2d9"),
 (K256, N256, AD42, M40, "57754a7d09963e7c787583a2e7b859bb24fa1e04d49fd550b2511a358e3bca252a9b1b8b30cc4a67", "ab8a7d53fd0e98d727accca94925e128", "a3aca270c006094d71c20e6910b5161c0826df233d08919a566ec2c05990f734"),
]
a128 = parse_tests("/repo/test/default/aead_aegis128l.c")
a256 = parse_tests("/repo/test/default/aead_aegis256.c")
assert len(a128) == 64 and len(a256) == 64 and all(len(e) == 6 for e in a128 + a256)

# ---------------------------------------------------------------- emit C
w('''/*
 * ref_hash_selftest.c - known-answer tests for the reference models in
 * ref_hash.c.  Does not call or include libsodium.
 *
 * GENERATED ONCE, then kept as a plain source file.  Vector provenance:
 *   SHA-2 ........ FIPS 180-4 / NIST example values ("", "abc", the 448- and
 *                  896-bit messages, one million 'a')
 *   HMAC ......... RFC 4231 test cases 1,2,3,4,6,7 (5 is a truncation test);
 *                  HMAC-SHA-512-256 = first 32 bytes of the SHA-512 value
 *   HKDF ......... RFC 5869 A.1-A.3 (SHA-256); for SHA-512 (no RFC vectors)
 *                  the expected output of libsodium's own test-suite file
 *                  test/default/kdf_hkdf.exp (PRK and the 98-byte expand),
 *                  also for SHA-256
 *   BLAKE2b ...... RFC 7693 appendix A ("abc"), RFC 7693 appendix E
 *                  self-test (keyed + unkeyed, grand hash), and the 256
 *                  official keyed KAT values (blake2b-kat.txt, as carried in
 *                  test/default/generichash.c; inputs regenerated here)
 *   SipHash ...... the 64 vectors of the SipHash paper / reference vectors.h
 *                  (64-bit) and the 64 128-bit vectors of vectors.h, as
 *                  carried in test/default/shorthash.exp, siphashx24.exp
 *   AES-256 ...... FIPS 197 C.3, SP 800-38A F.1.5 block #1
 *   AES-256-GCM .. McGrew/Viega GCM spec test cases 13-16, plus a subset of
 *                  the NIST CAVS gcmEncryptExtIV256 vectors carried in
 *                  test/default/aead_aes256gcm.c (one per (mlen, adlen))
 *   AEGIS ........ draft-irtf-cfrg-aegis-aead appendix A test vectors 1-5 for
 *                  AEGIS-128L and AEGIS-256 (128- and 256-bit tags), plus the
 *                  64+64 vectors of test/default/aead_aegis128l.c and
 *                  aead_aegis256.c (256-bit tags)
 */
#include <stdio.h>
#include <stdlib.h>
#include <string.h>

#include "ref_hash.h"

static unsigned n_vectors = 0; /* known-answer comparisons */
static unsigned n_aux     = 0; /* auxiliary checks (return codes, NULL/0) */
static unsigned n_fail    = 0;

static int
hexval(int ch)
{
    if (ch >= '0' && ch <= '9') {
        return ch - '0';
    }
    if (ch >= 'a' && ch <= 'f') {
        return ch - 'a' + 10;
    }
    if (ch >= 'A' && ch <= 'F') {
        return ch - 'A' + 10;
    }
    fprintf(stderr, "bad hex digit\\n");
    exit(2);
}

/* returns a malloc'd buffer (never NULL, even for ""), length in *len */
static uint8_t *
unhex(const char *hex, size_t *len)
{
    size_t   n = strlen(hex) / 2;
    uint8_t *p = (uint8_t *) malloc(n + 1);
    size_t   i;

    if (p == NULL || strlen(hex) % 2 != 0) {
        fprintf(stderr, "unhex failure\\n");
        exit(2);
    }
    for (i = 0; i < n; i++) {
        p[i] = (uint8_t) (hexval(hex[2 * i]) * 16 + hexval(hex[2 * i + 1]));
    }
    *len = n;
    return p;
}

static void
check(const char *what, unsigned idx, const uint8_t *got, size_t gotlen,
      const char *expected_hex)
{
    size_t   elen;
    uint8_t *e = unhex(expected_hex, &elen);
    size_t   i;

    n_vectors++;
    if (elen != gotlen || (gotlen > 0 && memcmp(got, e, gotlen) != 0)) {
        n_fail++;
        printf("FAIL %s #%u\\n  expected %s\\n  got      ", what, idx,
               expected_hex);
        for (i = 0; i < gotlen; i++) {
            printf("%02x", got[i]);
        }
        printf("\\n");
    }
    free(e);
}

static void
check_true(const char *what, int cond)
{
    n_aux++;
    if (!cond) {
        n_fail++;
        printf("FAIL %s\\n", what);
    }
}
''')

# ---- SHA
w('/* ---------------- SHA-2 ---------------- */\n')
w('static void\ntest_sha2(void)\n{\n    uint8_t  h256[32], h512[64];\n    uint8_t *big;\n')
for n, (m, h) in enumerate(sha256_v):
    w('    ref_sha256(h256, (const uint8_t *) "%s", %d);\n    check("sha256", %d, h256, 32,\n      %s);\n' % (m.decode(), len(m), n, cstr(h)))
for n, (m, h) in enumerate(sha512_v):
    w('    ref_sha512(h512, (const uint8_t *) "%s", %d);\n    check("sha512", %d, h512, 64,\n      %s);\n' % (m.decode(), len(m), n, cstr(h)))
w('''    /* NULL + length 0 */
    ref_sha256(h256, NULL, 0);
    check("sha256 NULL", 0, h256, 32,
      %s);
    ref_sha512(h512, NULL, 0);
    check("sha512 NULL", 0, h512, 64,
      %s);
    /* one million 'a' */
    big = (uint8_t *) malloc(1000000);
    if (big == NULL) {
        exit(2);
    }
    memset(big, 'a', 1000000);
    ref_sha256(h256, big, 1000000);
    check("sha256 million a", 0, h256, 32,
      %s);
    ref_sha512(h512, big, 1000000);
    check("sha512 million a", 0, h512, 64,
      %s);
    free(big);
}
''' % (cstr(sha256_v[0][1]), cstr(sha512_v[0][1]), cstr(sha256_million), cstr(sha512_million)))

# ---- HMAC
w('/* ---------------- HMAC (RFC 4231) ---------------- */\n')
w('static const struct {\n    unsigned    tc;\n    const char *key;\n    const char *data;\n    const char *sha256;\n    const char *sha512;\n} hmac_tv[] = {\n')
for tc, k, d, a, b in hm:
    w('    { %d,\n      %s,\n      %s,\n      %s,\n      %s },\n' % (tc, cstr(k), cstr(d), cstr(a), cstr(b)))
w('''};

static void
test_hmac(void)
{
    uint8_t  o32[32], o64[64];
    char     trunc[65];
    size_t   i, klen, dlen;
    uint8_t *k, *d;

    for (i = 0; i < sizeof hmac_tv / sizeof hmac_tv[0]; i++) {
        k = unhex(hmac_tv[i].key, &klen);
        d = unhex(hmac_tv[i].data, &dlen);
        ref_hmac_sha256(o32, k, klen, d, dlen);
        check("hmac-sha256 RFC4231 tc", hmac_tv[i].tc, o32, 32, hmac_tv[i].sha256);
        ref_hmac_sha512(o64, k, klen, d, dlen);
        check("hmac-sha512 RFC4231 tc", hmac_tv[i].tc, o64, 64, hmac_tv[i].sha512);
        memcpy(trunc, hmac_tv[i].sha512, 64);
        trunc[64] = 0;
        ref_hmac_sha512256(o32, k, klen, d, dlen);
        check("hmac-sha512-256 RFC4231 tc", hmac_tv[i].tc, o32, 32, trunc);
        free(k);
        free(d);
    }
    /* NULL key / NULL message with length 0 must equal the empty-string case */
    {
        uint8_t a[64], b[64], dummy = 0;

        ref_hmac_sha256(a, NULL, 0, NULL, 0);
        ref_hmac_sha256(b, &dummy, 0, &dummy, 0);
        check_true("hmac-sha256 NULL/0", memcmp(a, b, 32) == 0);
        ref_hmac_sha512(a, NULL, 0, NULL, 0);
        ref_hmac_sha512(b, &dummy, 0, &dummy, 0);
        check_true("hmac-sha512 NULL/0", memcmp(a, b, 64) == 0);
    }
}
''')

# ---- HKDF
w('/* ---------------- HKDF ---------------- */\n')
w('static const struct {\n    unsigned    tc;\n    const char *ikm;\n    const char *salt;\n    const char *info;\n    const char *prk;\n    const char *okm;\n} hkdf256_tv[] = {\n')
for tc, ikm, salt, info, L, prk, okm in rfc5869:
    w('    { %d,\n      %s,\n      %s,\n      %s,\n      %s,\n      %s },\n' % (tc, cstr(ikm.hex()), cstr(salt.hex()), cstr(info.hex()), cstr(prk), cstr(okm)))
w('''};

static void
test_hkdf(void)
{
    uint8_t  prk[64];
    uint8_t  okm[99];
    uint8_t  master[66], salt77[77], ctx[88];
    uint8_t *ikm, *salt, *info;
    uint8_t *big;
    size_t   ikmlen, saltlen, infolen, okmlen;
    size_t   i;

    for (i = 0; i < sizeof hkdf256_tv / sizeof hkdf256_tv[0]; i++) {
        ikm    = unhex(hkdf256_tv[i].ikm, &ikmlen);
        salt   = unhex(hkdf256_tv[i].salt, &saltlen);
        info   = unhex(hkdf256_tv[i].info, &infolen);
        okmlen = strlen(hkdf256_tv[i].okm) / 2;
        ref_hkdf_sha256_extract(prk, saltlen ? salt : NULL, saltlen, ikm, ikmlen);
        check("hkdf-sha256 RFC5869 PRK tc", hkdf256_tv[i].tc, prk, 32, hkdf256_tv[i].prk);
        check_true("hkdf-sha256 expand ret",
                   ref_hkdf_sha256_expand(okm, okmlen, infolen ? info : NULL,
                                          infolen, prk) == 0);
        check("hkdf-sha256 RFC5869 OKM tc", hkdf256_tv[i].tc, okm, okmlen, hkdf256_tv[i].okm);
        free(ikm);
        free(salt);
        free(info);
    }

    /* parameters of libsodium test/default/kdf_hkdf.c, expected output from
     * kdf_hkdf.exp (last expand line: 98 bytes, context[0] = 98) */
    for (i = 0; i < sizeof master; i++) {
        master[i] = (uint8_t) i;
    }
    for (i = 0; i < sizeof salt77; i++) {
        salt77[i] = (uint8_t) ~i;
    }
    for (i = 0; i < sizeof ctx; i++) {
        ctx[i] = (uint8_t) (i + 111);
    }
    ctx[0] = 98;
    ref_hkdf_sha256_extract(prk, salt77, sizeof salt77, master, sizeof master);
    check("hkdf-sha256 kdf_hkdf.exp PRK", 0, prk, 32,
      %s);
    check_true("hkdf-sha256 expand ret", ref_hkdf_sha256_expand(okm, 98, ctx, sizeof ctx, prk) == 0);
    check("hkdf-sha256 kdf_hkdf.exp OKM", 0, okm, 98,
      %s);
    ref_hkdf_sha512_extract(prk, salt77, sizeof salt77, master, sizeof master);
    check("hkdf-sha512 kdf_hkdf.exp PRK", 0, prk, 64,
      %s);
    check_true("hkdf-sha512 expand ret", ref_hkdf_sha512_expand(okm, 98, ctx, sizeof ctx, prk) == 0);
    check("hkdf-sha512 kdf_hkdf.exp OKM", 0, okm, 98,
      %s);

    /* length limits: 255*HashLen accepted, one more rejected; 0 accepted */
    big = (uint8_t *) malloc(255 * 64 + 1);
    if (big == NULL) {
        exit(2);
    }
    check_true("hkdf-sha256 expand 0", ref_hkdf_sha256_expand(NULL, 0, NULL, 0, prk) == 0);
    check_true("hkdf-sha256 expand max", ref_hkdf_sha256_expand(big, 255 * 32, NULL, 0, prk) == 0);
    check_true("hkdf-sha256 expand max+1", ref_hkdf_sha256_expand(big, 255 * 32 + 1, NULL, 0, prk) == -1);
    check_true("hkdf-sha512 expand 0", ref_hkdf_sha512_expand(NULL, 0, NULL, 0, prk) == 0);
    check_true("hkdf-sha512 expand max", ref_hkdf_sha512_expand(big, 255 * 64, NULL, 0, prk) == 0);
    check_true("hkdf-sha512 expand max+1", ref_hkdf_sha512_expand(big, 255 * 64 + 1, NULL, 0, prk) == -1);
    free(big);
}
''' % (cstr(prk256_exp), cstr(okm256_exp), cstr(prk512_exp), cstr(okm512_exp)))

# ---- BLAKE2b
w('/* ---------------- BLAKE2b ---------------- */\n')
w('/* official keyed KAT: key = 00..3f, input i = 00 01 .. (i-1), 64-byte output */\n')
w('static const char *const blake2b_keyed_kat[256] = {\n')
for e in kat:
    w('    %s,\n' % cstr(e[2], "    "))
w('''};

/* RFC 7693 appendix E: deterministic sequence generator */
static void
selftest_seq(uint8_t *out, size_t len, uint32_t seed)
{
    size_t   i;
    uint32_t t, a, b;

    a = 0xDEAD4BADU * seed;
    b = 1;
    for (i = 0; i < len; i++) {
        t      = a + b;
        a      = b;
        b      = t;
        out[i] = (uint8_t) ((t >> 24) & 0xFF);
    }
}

static void
test_blake2b(void)
{
    static const size_t b2b_md_len[4] = { 20, 32, 48, 64 };
    static const size_t b2b_in_len[6] = { 0, 3, 128, 129, 255, 1024 };
    uint8_t  in[1024], md[64], key[64];
    uint8_t  acc[4 * 6 * 2 * 64]; /* concatenation of all digests */
    size_t   acclen = 0;
    uint8_t  out[64];
    size_t   i, j;

    check_true("blake2b abc ret",
               ref_blake2b(out, 64, (const uint8_t *) "abc", 3, NULL, 0, NULL, NULL) == 0);
    check("blake2b-512 abc (RFC 7693 A)", 0, out, 64,
      %s);
    check_true("blake2b empty ret", ref_blake2b(out, 64, NULL, 0, NULL, 0, NULL, NULL) == 0);
    check("blake2b-512 empty", 0, out, 64,
      %s);

    /* RFC 7693 appendix E self-test */
    for (i = 0; i < 4; i++) {
        size_t outlen = b2b_md_len[i];

        for (j = 0; j < 6; j++) {
            size_t inlen = b2b_in_len[j];

            selftest_seq(in, inlen, (uint32_t) inlen);
            ref_blake2b(md, outlen, in, inlen, NULL, 0, NULL, NULL);
            memcpy(acc + acclen, md, outlen);
            acclen += outlen;
            selftest_seq(key, outlen, (uint32_t) outlen);
            ref_blake2b(md, outlen, in, inlen, key, outlen, NULL, NULL);
            memcpy(acc + acclen, md, outlen);
            acclen += outlen;
        }
    }
    ref_blake2b(md, 32, acc, acclen, NULL, 0, NULL, NULL);
    check("blake2b RFC 7693 appendix E grand hash", 0, md, 32,
      "c23a7800d98123bd10f506c61e29da5603d763b8bbad2e737f5e765a7bccd475");

    /* keyed KAT */
    for (i = 0; i < 64; i++) {
        key[i] = (uint8_t) i;
    }
    for (i = 0; i < 256; i++) {
        in[i] = (uint8_t) i;
    }
    for (i = 0; i < 256; i++) {
        ref_blake2b(out, 64, in, i, key, 64, NULL, NULL);
        check("blake2b keyed KAT", (unsigned) i, out, 64, blake2b_keyed_kat[i]);
    }

    /* explicit all-zero salt/personal == NULL salt/personal */
    {
        uint8_t z[16], o2[64];

        memset(z, 0, sizeof z);
        ref_blake2b(out, 40, in, 200, key, 17, NULL, NULL);
        ref_blake2b(o2, 40, in, 200, key, 17, z, z);
        check_true("blake2b zero salt/personal == NULL", memcmp(out, o2, 40) == 0);
        z[15] = 1;
        ref_blake2b(o2, 40, in, 200, key, 17, z, NULL);
        check_true("blake2b salt changes output", memcmp(out, o2, 40) != 0);
        ref_blake2b(o2, 40, in, 200, key, 17, NULL, z);
        check_true("blake2b personal changes output", memcmp(out, o2, 40) != 0);
    }

    /* range checks */
    check_true("blake2b outlen 0", ref_blake2b(out, 0, in, 1, NULL, 0, NULL, NULL) == -1);
    check_true("blake2b outlen 65", ref_blake2b(out, 65, in, 1, NULL, 0, NULL, NULL) == -1);
    check_true("blake2b keylen 65", ref_blake2b(out, 64, in, 1, in, 65, NULL, NULL) == -1);
    check_true("blake2b outlen 1", ref_blake2b(out, 1, in, 1, NULL, 0, NULL, NULL) == 0);
    check_true("blake2b keylen 64", ref_blake2b(out, 64, in, 1, in, 64, NULL, NULL) == 0);
}
''' % (cstr(b2_abc), cstr(b2_empty)))

# ---- SipHash
w('/* ---------------- SipHash-2-4 ---------------- */\n')
w('/* key = 00..0f, input i = 00 01 .. (i-1) */\n')
w('static const char *const siphash24_tv[64] = {\n')
for i in range(0, 64, 4): w('    ' + ', '.join('"%s"' % s for s in sip64[i:i+4]) + ',\n')
w('};\n\nstatic const char *const siphashx24_tv[64] = {\n')
for i in range(0, 64, 2): w('    ' + ', '.join('"%s"' % s for s in sip128[i:i+2]) + ',\n')
w('''};

static void
test_siphash(void)
{
    uint8_t in[64], k[16], o8[8], o16[16], p8[8], p16[16];
    size_t  i;

    for (i = 0; i < 16; i++) {
        k[i] = (uint8_t) i;
    }
    for (i = 0; i < 64; i++) {
        in[i] = (uint8_t) i;
        ref_siphash24(o8, in, i, k);
        check("siphash24", (unsigned) i, o8, 8, siphash24_tv[i]);
        ref_siphashx24(o16, in, i, k);
        check("siphashx24", (unsigned) i, o16, 16, siphashx24_tv[i]);
    }
    ref_siphash24(o8, in, 0, k);
    ref_siphash24(p8, NULL, 0, k);
    check_true("siphash24 NULL/0", memcmp(o8, p8, 8) == 0);
    ref_siphashx24(o16, in, 0, k);
    ref_siphashx24(p16, NULL, 0, k);
    check_true("siphashx24 NULL/0", memcmp(o16, p16, 16) == 0);
}
''')

# ---- AES + GCM
w('/* ---------------- AES-256 and AES-256-GCM ---------------- */\n')
w('static const struct {\n    const char *name;\n    const char *key;\n    const char *iv;\n    const char *pt;\n    const char *ad;\n    const char *ct;\n    const char *tag;\n} gcm_tv[] = {\n')
for name, k, iv, pt, ad, ct, tag in gcm:
    w('    { "%s",\n      %s,\n      %s,\n      %s,\n      %s,\n      %s,\n      %s },\n' % (name, cstr(k), cstr(iv), cstr(pt), cstr(ad), cstr(ct), cstr(tag)))
w('''};

static void
test_aes(void)
{
    uint8_t  out[16];
    uint8_t *k, *in, *iv, *pt, *ad, *ct;
    uint8_t  tag[16];
    size_t   klen, inlen, ivlen, ptlen, adlen;
    size_t   i;

    k  = unhex("000102030405060708090a0b0c0d0e0f101112131415161718191a1b1c1d1e1f", &klen);
    in = unhex("00112233445566778899aabbccddeeff", &inlen);
    ref_aes256_encrypt_block(out, in, k);
    check("aes256 FIPS-197 C.3", 0, out, 16, "8ea2b7ca516745bfeafc49904b496089");
    free(k);
    free(in);
    k  = unhex("603deb1015ca71be2b73aef0857d77811f352c073b6108d72d9810a30914dff4", &klen);
    in = unhex("6bc1bee22e409f96e93d7e117393172a", &inlen);
    ref_aes256_encrypt_block(out, in, k);
    check("aes256 SP800-38A F.1.5", 0, out, 16, "f3eed1bdb5d2a03c064b5a7e3db181f8");
    free(k);
    free(in);

    for (i = 0; i < sizeof gcm_tv / sizeof gcm_tv[0]; i++) {
        k  = unhex(gcm_tv[i].key, &klen);
        iv = unhex(gcm_tv[i].iv, &ivlen);
        pt = unhex(gcm_tv[i].pt, &ptlen);
        ad = unhex(gcm_tv[i].ad, &adlen);
        ct = (uint8_t *) malloc(ptlen + 1);
        if (ct == NULL || klen != 32 || ivlen != 12) {
            exit(2);
        }
        /* pass NULL for empty inputs to exercise the NULL/0 contract */
        ref_aes256gcm_encrypt(ptlen ? ct : NULL, tag, ptlen ? pt : NULL, ptlen,
                              adlen ? ad : NULL, adlen, iv, k);
        check(gcm_tv[i].name, (unsigned) i, ct, ptlen, gcm_tv[i].ct);
        check(gcm_tv[i].name, (unsigned) i, tag, 16, gcm_tv[i].tag);
        free(k);
        free(iv);
        free(pt);
        free(ad);
        free(ct);
    }
}
''')

# ---- AEGIS
def emit_aegis_draft(name, tv):
    w('static const struct {\n    const char *key;\n    const char *nonce;\n    const char *ad;\n    const char *msg;\n    const char *ct;\n    const char *tag128;\n    const char *tag256;\n} %s[] = {\n' % name)
    for e in tv:
        w('    { ' + ',\n      '.join(cstr(x) for x in e) + ' },\n')
    w('};\n\n')
def emit_aegis_repo(name, tv):
    w('/* field order: key, nonce, message, ad, ciphertext, 32-byte tag */\n')
    w('static const struct {\n    const char *key;\n    const char *nonce;\n    const char *msg;\n    const char *ad;\n    const char *ct;\n    const char *tag256;\n} %s[] = {\n' % name)
    for e in tv:
        w('    { ' + ',\n      '.join(cstr(x) for x in e) + ' },\n')
    w('};\n\n')
w('/* ---------------- AEGIS ---------------- */\n')
emit_aegis_draft("aegis128l_draft_tv", aegis128l_draft)
emit_aegis_draft("aegis256_draft_tv", aegis256_draft)
emit_aegis_repo("aegis128l_repo_tv", a128)
emit_aegis_repo("aegis256_repo_tv", a256)

w('''typedef void (*aegis_fn)(uint8_t *c, uint8_t *tag, const uint8_t *m, size_t mlen,
                         const uint8_t *ad, size_t adlen, const uint8_t *npub,
                         const uint8_t *k);

static void
aegis_one(const char *what, unsigned idx, aegis_fn fn, size_t taglen,
          size_t keybytes, size_t noncebytes, const char *key_hex,
          const char *nonce_hex, const char *ad_hex, const char *msg_hex,
          const char *ct_hex, const char *tag_hex)
{
    uint8_t *k, *n, *ad, *m, *c;
    uint8_t  tag[32];
    size_t   klen, nlen, adlen, mlen;

    k  = unhex(key_hex, &klen);
    n  = unhex(nonce_hex, &nlen);
    ad = unhex(ad_hex, &adlen);
    m  = unhex(msg_hex, &mlen);
    c  = (uint8_t *) malloc(mlen + 1);
    if (c == NULL || klen != keybytes || nlen != noncebytes) {
        exit(2);
    }
    fn(mlen ? c : NULL, tag, mlen ? m : NULL, mlen, adlen ? ad : NULL, adlen, n, k);
    check(what, idx, c, mlen, ct_hex);
    check(what, idx, tag, taglen, tag_hex);
    free(k);
    free(n);
    free(ad);
    free(m);
    free(c);
}

static void w128l_32(uint8_t *c, uint8_t *tag, const uint8_t *m, size_t mlen,
                     const uint8_t *ad, size_t adlen, const uint8_t *npub, const uint8_t *k)
{
    ref_aegis128l_encrypt(c, tag, m, mlen, ad, adlen, npub, k);
}
static void w128l_16(uint8_t *c, uint8_t *tag, const uint8_t *m, size_t mlen,
                     const uint8_t *ad, size_t adlen, const uint8_t *npub, const uint8_t *k)
{
    ref_aegis128l_encrypt_tag16(c, tag, m, mlen, ad, adlen, npub, k);
}
static void w256_32(uint8_t *c, uint8_t *tag, const uint8_t *m, size_t mlen,
                    const uint8_t *ad, size_t adlen, const uint8_t *npub, const uint8_t *k)
{
    ref_aegis256_encrypt(c, tag, m, mlen, ad, adlen, npub, k);
}
static void w256_16(uint8_t *c, uint8_t *tag, const uint8_t *m, size_t mlen,
                    const uint8_t *ad, size_t adlen, const uint8_t *npub, const uint8_t *k)
{
    ref_aegis256_encrypt_tag16(c, tag, m, mlen, ad, adlen, npub, k);
}

static void
test_aegis(void)
{
    size_t i;

    for (i = 0; i < sizeof aegis128l_draft_tv / sizeof aegis128l_draft_tv[0]; i++) {
        aegis_one("aegis128l draft tv (tag128)", (unsigned) i + 1, w128l_16, 16, 16, 16,
                  aegis128l_draft_tv[i].key, aegis128l_draft_tv[i].nonce,
                  aegis128l_draft_tv[i].ad, aegis128l_draft_tv[i].msg,
                  aegis128l_draft_tv[i].ct, aegis128l_draft_tv[i].tag128);
        aegis_one("aegis128l draft tv (tag256)", (unsigned) i + 1, w128l_32, 32, 16, 16,
                  aegis128l_draft_tv[i].key, aegis128l_draft_tv[i].nonce,
                  aegis128l_draft_tv[i].ad, aegis128l_draft_tv[i].msg,
                  aegis128l_draft_tv[i].ct, aegis128l_draft_tv[i].tag256);
    }
    for (i = 0; i < sizeof aegis256_draft_tv / sizeof aegis256_draft_tv[0]; i++) {
        aegis_one("aegis256 draft tv (tag128)", (unsigned) i + 1, w256_16, 16, 32, 32,
                  aegis256_draft_tv[i].key, aegis256_draft_tv[i].nonce,
                  aegis256_draft_tv[i].ad, aegis256_draft_tv[i].msg,
                  aegis256_draft_tv[i].ct, aegis256_draft_tv[i].tag128);
        aegis_one("aegis256 draft tv (tag256)", (unsigned) i + 1, w256_32, 32, 32, 32,
                  aegis256_draft_tv[i].key, aegis256_draft_tv[i].nonce,
                  aegis256_draft_tv[i].ad, aegis256_draft_tv[i].msg,
                  aegis256_draft_tv[i].ct, aegis256_draft_tv[i].tag256);
    }
    for (i = 0; i < sizeof aegis128l_repo_tv / sizeof aegis128l_repo_tv[0]; i++) {
        aegis_one("aegis128l test-suite tv", (unsigned) i, w128l_32, 32, 16, 16,
                  aegis128l_repo_tv[i].key, aegis128l_repo_tv[i].nonce,
                  aegis128l_repo_tv[i].ad, aegis128l_repo_tv[i].msg,
                  aegis128l_repo_tv[i].ct, aegis128l_repo_tv[i].tag256);
    }
    for (i = 0; i < sizeof aegis256_repo_tv / sizeof aegis256_repo_tv[0]; i++) {
        aegis_one("aegis256 test-suite tv", (unsigned) i, w256_32, 32, 32, 32,
                  aegis256_repo_tv[i].key, aegis256_repo_tv[i].nonce,
                  aegis256_repo_tv[i].ad, aegis256_repo_tv[i].msg,
                  aegis256_repo_tv[i].ct, aegis256_repo_tv[i].tag256);
    }
}

int
main(void)
{
    test_sha2();
    test_hmac();
    test_hkdf();
    test_blake2b();
    test_siphash();
    test_aes();
    test_aegis();
    if (n_fail != 0) {
        printf("ref_hash selftest FAILED (%u of %u checks)\\n", n_fail,
               n_vectors + n_aux);
        return 1;
    }
    printf("%u auxiliary checks passed\\n", n_aux);
    printf("ref_hash selftest OK (%u vectors)\\n", n_vectors);
    return 0;
}
''')
sys.stdout.write("".join(out))
sys.stderr.write("gcm vectors: %d\n" % len(gcm))
