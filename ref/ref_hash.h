/*
 * ref_hash.h - independent, deliberately naive reference models written from
 * the public specifications only:
 *
 *   SHA-256 / SHA-512 ......... FIPS 180-4
 *   HMAC ...................... RFC 2104 (FIPS 198-1)
 *   HKDF ...................... RFC 5869
 *   BLAKE2b ................... RFC 7693 (+ salt / personalisation words of
 *                               the parameter block, BLAKE2 paper sec. 2.8)
 *   SipHash-2-4 (64/128 bit) .. Aumasson & Bernstein, "SipHash: a fast
 *                               short-input PRF" + 128-bit reference variant
 *   AES-256 ................... FIPS 197
 *   AES-256-GCM ............... NIST SP 800-38D (96-bit IV only)
 *   AEGIS-128L / AEGIS-256 .... draft-irtf-cfrg-aegis-aead
 *
 * No code here is derived from, or includes, libsodium.
 *
 * All functions accept len == 0 together with a NULL data pointer.
 * Functions that need scratch memory call malloc() and abort() on failure.
 * The AES S-box is computed on first use (GF(2^8) inverse + affine map); the
 * computation is deterministic and idempotent.
 */
#ifndef REF_HASH_H
#define REF_HASH_H

#include <stddef.h>
#include <stdint.h>

#ifdef __cplusplus
extern "C" {
#endif

/* ---- FIPS 180-4 ---- */
void ref_sha256(uint8_t out[32], const uint8_t *m, size_t len);
void ref_sha512(uint8_t out[64], const uint8_t *m, size_t len);

/* ---- RFC 2104 ---- */
void ref_hmac_sha256(uint8_t out[32], const uint8_t *key, size_t keylen,
                     const uint8_t *m, size_t len);
void ref_hmac_sha512(uint8_t out[64], const uint8_t *key, size_t keylen,
                     const uint8_t *m, size_t len);
/* HMAC-SHA-512 truncated to its first 32 bytes */
void ref_hmac_sha512256(uint8_t out[32], const uint8_t *key, size_t keylen,
                        const uint8_t *m, size_t len);

/* ---- RFC 5869 ---- */
void ref_hkdf_sha256_extract(uint8_t prk[32], const uint8_t *salt,
                             size_t saltlen, const uint8_t *ikm,
                             size_t ikmlen);
/* returns -1 (and writes nothing) if outlen > 255*32, else 0 */
int ref_hkdf_sha256_expand(uint8_t *out, size_t outlen, const uint8_t *ctx,
                           size_t ctxlen, const uint8_t prk[32]);
void ref_hkdf_sha512_extract(uint8_t prk[64], const uint8_t *salt,
                             size_t saltlen, const uint8_t *ikm,
                             size_t ikmlen);
/* returns -1 (and writes nothing) if outlen > 255*64, else 0 */
int ref_hkdf_sha512_expand(uint8_t *out, size_t outlen, const uint8_t *ctx,
                           size_t ctxlen, const uint8_t prk[64]);

/* ---- RFC 7693 ----
 * outlen 1..64, keylen 0..64, salt/personal 16 bytes each or NULL (= zeros).
 * Sequential mode: fanout = depth = 1, everything else in the parameter
 * block zero.  Returns -1 (and writes nothing) if outlen or keylen is out of
 * range, or if keylen > 0 with key == NULL; else 0. */
int ref_blake2b(uint8_t *out, size_t outlen, const uint8_t *m, size_t mlen,
                const uint8_t *key, size_t keylen, const uint8_t salt[16],
                const uint8_t personal[16]);

/* ---- SipHash-2-4 ---- */
void ref_siphash24(uint8_t out[8], const uint8_t *m, size_t len,
                   const uint8_t k[16]);
void ref_siphashx24(uint8_t out[16], const uint8_t *m, size_t len,
                    const uint8_t k[16]);

/* ---- FIPS 197 ---- */
void ref_aes256_encrypt_block(uint8_t out[16], const uint8_t in[16],
                              const uint8_t key[32]);

/* ---- SP 800-38D, 96-bit IV, 128-bit tag ---- */
void ref_aes256gcm_encrypt(uint8_t *c, uint8_t tag[16], const uint8_t *m,
                           size_t mlen, const uint8_t *ad, size_t adlen,
                           const uint8_t npub[12], const uint8_t k[32]);

/* ---- draft-irtf-cfrg-aegis-aead ---- */
void ref_aegis128l_encrypt(uint8_t *c, uint8_t tag[32], const uint8_t *m,
                           size_t mlen, const uint8_t *ad, size_t adlen,
                           const uint8_t npub[16], const uint8_t k[16]);
void ref_aegis128l_encrypt_tag16(uint8_t *c, uint8_t tag[16],
                                 const uint8_t *m, size_t mlen,
                                 const uint8_t *ad, size_t adlen,
                                 const uint8_t npub[16], const uint8_t k[16]);
void ref_aegis256_encrypt(uint8_t *c, uint8_t tag[32], const uint8_t *m,
                          size_t mlen, const uint8_t *ad, size_t adlen,
                          const uint8_t npub[32], const uint8_t k[32]);
void ref_aegis256_encrypt_tag16(uint8_t *c, uint8_t tag[16], const uint8_t *m,
                                size_t mlen, const uint8_t *ad, size_t adlen,
                                const uint8_t npub[32], const uint8_t k[32]);

#ifdef __cplusplus
}
#endif

#endif
