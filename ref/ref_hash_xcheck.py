#!/usr/bin/python3
"""
ref_hash_xcheck.py - cross-check ref_hash.c against Python's hashlib / hmac.

Usage:  /usr/bin/python3 ref_hash_xcheck.py [path/to/libref_hash.so]

If no shared object is given, one is built from ref_hash.c (next to this
script) into a temporary directory with:
    gcc -O2 -Wall -Wextra -shared -fPIC -o libref_hash.so ref_hash.c

Compared (stdlib only, no libsodium):
  SHA-256, SHA-512 ............ message lengths 0..300
  HMAC-SHA-256/512/512-256 .... message lengths 0..300 x key lengths 0..200
  BLAKE2b ..................... message lengths 0..300 x outlen 1..64 (unkeyed,
                                and keyed with salt + personalisation), plus
                                keylen 0..64 x outlen 1..64 on boundary message
                                lengths, each with the four salt/person
                                NULL/non-NULL combinations
Zero-length inputs are passed as NULL pointers.
Exit status 0 on full agreement, 1 otherwise.
"""
import ctypes
import hashlib
import hmac
import os
import random
import subprocess
import sys
import tempfile

HERE = os.path.dirname(os.path.abspath(__file__))


def load_lib(argv):
    if len(argv) > 1:
        return ctypes.CDLL(os.path.abspath(argv[1]))
    tmpdir = tempfile.mkdtemp(prefix="ref_hash_xcheck_")
    so = os.path.join(tmpdir, "libref_hash.so")
    subprocess.check_call(["gcc", "-O2", "-Wall", "-Wextra", "-shared", "-fPIC",
                           "-o", so, os.path.join(HERE, "ref_hash.c")])
    lib = ctypes.CDLL(so)
    os.unlink(so)
    os.rmdir(tmpdir)
    return lib


lib = load_lib(sys.argv)

u8p = ctypes.c_char_p
sz = ctypes.c_size_t

lib.ref_sha256.argtypes = [u8p, u8p, sz]
lib.ref_sha256.restype = None
lib.ref_sha512.argtypes = [u8p, u8p, sz]
lib.ref_sha512.restype = None
for name in ("ref_hmac_sha256", "ref_hmac_sha512", "ref_hmac_sha512256"):
    f = getattr(lib, name)
    f.argtypes = [u8p, u8p, sz, u8p, sz]
    f.restype = None
lib.ref_blake2b.argtypes = [u8p, sz, u8p, sz, u8p, sz, u8p, u8p]
lib.ref_blake2b.restype = ctypes.c_int


def ptr(b):
    """zero-length inputs are passed as NULL"""
    return b if len(b) > 0 else None


def c_sha256(m):
    out = ctypes.create_string_buffer(32)
    lib.ref_sha256(out, ptr(m), len(m))
    return out.raw


def c_sha512(m):
    out = ctypes.create_string_buffer(64)
    lib.ref_sha512(out, ptr(m), len(m))
    return out.raw


def c_hmac(name, outlen, key, m):
    out = ctypes.create_string_buffer(outlen)
    getattr(lib, name)(out, ptr(key), len(key), ptr(m), len(m))
    return out.raw


def c_blake2b(outlen, m, key, salt, person):
    # two guard bytes to detect writes past outlen
    out = ctypes.create_string_buffer(b"\xa5" * (outlen + 2), outlen + 2)
    rc = lib.ref_blake2b(out, outlen, ptr(m), len(m), ptr(key), len(key),
                         salt, person)
    if rc != 0:
        return None
    if out.raw[outlen:] != b"\xa5\xa5":
        return b"OVERRUN"
    return out.raw[:outlen]


failures = 0
compared = 0


def expect(what, got, want):
    global failures, compared
    compared += 1
    if got != want:
        failures += 1
        if failures <= 20:
            print("MISMATCH %s\n  ref      %s\n  expected %s" %
                  (what, got.hex() if got is not None else None, want.hex()))


rng = random.Random(0x5EED)


def rnd(n):
    return bytes(rng.getrandbits(8) for _ in range(n))


# ---- SHA-2 -----------------------------------------------------------------
for mlen in range(0, 301):
    m = rnd(mlen)
    expect("sha256 len=%d" % mlen, c_sha256(m), hashlib.sha256(m).digest())
    expect("sha512 len=%d" % mlen, c_sha512(m), hashlib.sha512(m).digest())

# ---- HMAC ------------------------------------------------------------------
msgs = [rnd(mlen) for mlen in range(0, 301)]
for klen in range(0, 201):
    key = rnd(klen)
    for mlen in range(0, 301):
        m = msgs[mlen]
        w256 = hmac.new(key, m, hashlib.sha256).digest()
        w512 = hmac.new(key, m, hashlib.sha512).digest()
        expect("hmac-sha256 klen=%d mlen=%d" % (klen, mlen),
               c_hmac("ref_hmac_sha256", 32, key, m), w256)
        expect("hmac-sha512 klen=%d mlen=%d" % (klen, mlen),
               c_hmac("ref_hmac_sha512", 64, key, m), w512)
        expect("hmac-sha512256 klen=%d mlen=%d" % (klen, mlen),
               c_hmac("ref_hmac_sha512256", 32, key, m), w512[:32])

# ---- BLAKE2b ---------------------------------------------------------------
ZERO16 = b"\0" * 16


def b2_want(outlen, m, key, salt, person):
    return hashlib.blake2b(m, digest_size=outlen, key=key,
                           salt=salt if salt is not None else b"",
                           person=person if person is not None else b"").digest()


# (a) every message length x every output length
for mlen in range(0, 301):
    m = msgs[mlen]
    for outlen in range(1, 65):
        # unkeyed, no salt/person
        expect("blake2b mlen=%d outlen=%d unkeyed" % (mlen, outlen),
               c_blake2b(outlen, m, b"", None, None),
               b2_want(outlen, m, b"", None, None))
        # keyed, salted, personalised
        klen = 1 + (mlen * 7 + outlen) % 64
        key, salt, person = rnd(klen), rnd(16), rnd(16)
        expect("blake2b mlen=%d outlen=%d klen=%d salt+person" %
               (mlen, outlen, klen),
               c_blake2b(outlen, m, key, salt, person),
               b2_want(outlen, m, key, salt, person))

# (b) every key length x every output length on block-boundary messages,
#     with all NULL / non-NULL salt / person combinations
for mlen in (0, 1, 127, 128, 129, 255, 256, 257, 300):
    m = msgs[mlen]
    for klen in range(0, 65):
        key = rnd(klen)
        for outlen in range(1, 65):
            salt, person = rnd(16), rnd(16)
            for s, p in ((None, None), (salt, None), (None, person),
                         (salt, person)):
                expect("blake2b mlen=%d klen=%d outlen=%d salt=%s person=%s" %
                       (mlen, klen, outlen, s is not None, p is not None),
                       c_blake2b(outlen, m, key, s, p),
                       b2_want(outlen, m, key, s, p))
            # an explicit all-zero salt/person must equal NULL
            if outlen == 32:
                expect("blake2b zero salt/person mlen=%d klen=%d" % (mlen, klen),
                       c_blake2b(outlen, m, key, ZERO16, ZERO16),
                       b2_want(outlen, m, key, None, None))

# (c) out-of-range lengths are refused
for outlen, klen in ((0, 0), (65, 0), (64, 65), (0, 65)):
    compared += 1
    if c_blake2b(outlen, b"x", b"k" * klen, None, None) is not None:
        failures += 1
        print("blake2b accepted outlen=%d keylen=%d" % (outlen, klen))

if failures:
    print("ref_hash_xcheck.py: %d MISMATCHES out of %d comparisons" %
          (failures, compared))
    sys.exit(1)
print("ref_hash_xcheck.py OK (%d comparisons against hashlib/hmac)" % compared)
sys.exit(0)
