/*
 * ref_stream.h - independent, deliberately naive reference models for the
 * ChaCha20 / Salsa20 / Poly1305 family and the constructions built on them.
 *
 * Written from the public specifications only:
 *   - RFC 8439 (ChaCha20 and Poly1305 for IETF protocols)
 *   - draft-irtf-cfrg-xchacha (HChaCha20, XChaCha20, XChaCha20-Poly1305)
 *   - D. J. Bernstein, "ChaCha, a variant of Salsa20", "The Salsa20 family of
 *     stream ciphers" (Salsa20 specification), "Extending the Salsa20 nonce"
 *   - D. J. Bernstein, "Cryptography in NaCl" (secretbox)
 *   - libsodium documentation for the original chacha20poly1305 AEAD and the
 *     secretstream chunk layout
 *
 * No code from the implementation under test is used or included.
 *
 * Conventions: every `in`/`m` pointer may be NULL, meaning an all-zero input
 * of the given length (i.e. the raw keystream is produced).  Lengths may be 0.
 * `out` may alias `in` exactly (in-place) but must not otherwise overlap.
 */
#ifndef REF_STREAM_H
#define REF_STREAM_H

#include <stddef.h>
#include <stdint.h>

/* Original (djb) ChaCha20: 64-bit block counter in words 12,13 (wraps mod
 * 2^64), 8-byte nonce in words 14,15. */
void ref_chacha20_xor(uint8_t *out, const uint8_t *in, size_t len,
                      const uint8_t key[32], const uint8_t nonce[8],
                      uint64_t counter);

/* RFC 8439 ChaCha20: 32-bit block counter in word 12 (wraps mod 2^32 without
 * touching the nonce), 12-byte nonce in words 13,14,15. */
void ref_chacha20_ietf_xor(uint8_t *out, const uint8_t *in, size_t len,
                           const uint8_t key[32], const uint8_t nonce[12],
                           uint32_t counter);

/* HChaCha20; c = 16-byte constant, or NULL for "expand 32-byte k". */
void ref_hchacha20(uint8_t out[32], const uint8_t in[16],
                   const uint8_t key[32], const uint8_t *c);

/* XChaCha20: subkey = HChaCha20(key, nonce[0..16)), then original ChaCha20
 * with nonce[16..24) and a 64-bit counter. */
void ref_xchacha20_xor(uint8_t *out, const uint8_t *in, size_t len,
                       const uint8_t key[32], const uint8_t nonce[24],
                       uint64_t counter);

/* Salsa20/rounds, rounds in {20, 12, 8}; 64-bit block counter (wraps). */
void ref_salsa20_xor(uint8_t *out, const uint8_t *in, size_t len,
                     const uint8_t key[32], const uint8_t nonce[8],
                     uint64_t counter, int rounds);

/* The Salsa20 hash ("core") function with a 32-byte key: the 64-byte input
 * block is assembled from (c, key, in), `rounds` rounds are applied and the
 * input block is added back (feed-forward).  c = NULL means sigma. */
void ref_salsa20_core(uint8_t out[64], const uint8_t in[16],
                      const uint8_t key[32], const uint8_t *c, int rounds);

/* HSalsa20 (20 rounds, no feed-forward, words 0,5,10,15,6,7,8,9). */
void ref_hsalsa20(uint8_t out[32], const uint8_t in[16],
                  const uint8_t key[32], const uint8_t *c);

/* XSalsa20: subkey = HSalsa20(key, nonce[0..16)), then Salsa20/20 with
 * nonce[16..24) and a 64-bit counter. */
void ref_xsalsa20_xor(uint8_t *out, const uint8_t *in, size_t len,
                      const uint8_t key[32], const uint8_t nonce[24],
                      uint64_t counter);

/* Poly1305 one-time authenticator (RFC 8439 section 2.5). */
void ref_poly1305(uint8_t tag[16], const uint8_t *msg, size_t len,
                  const uint8_t key[32]);

/* ORIGINAL (pre-IETF) ChaCha20-Poly1305 AEAD, 8-byte nonce:
 * MAC input = ad || le64(adlen) || c || le64(mlen), no padding. */
void ref_aead_chacha20poly1305(uint8_t *c, uint8_t tag[16],
                               const uint8_t *m, size_t mlen,
                               const uint8_t *ad, size_t adlen,
                               const uint8_t npub[8], const uint8_t k[32]);

/* RFC 8439 section 2.8 AEAD_CHACHA20_POLY1305, 12-byte nonce. */
void ref_aead_chacha20poly1305_ietf(uint8_t *c, uint8_t tag[16],
                                    const uint8_t *m, size_t mlen,
                                    const uint8_t *ad, size_t adlen,
                                    const uint8_t npub[12],
                                    const uint8_t k[32]);

/* draft-irtf-cfrg-xchacha AEAD_XChaCha20_Poly1305, 24-byte nonce. */
void ref_aead_xchacha20poly1305_ietf(uint8_t *c, uint8_t tag[16],
                                     const uint8_t *m, size_t mlen,
                                     const uint8_t *ad, size_t adlen,
                                     const uint8_t npub[24],
                                     const uint8_t k[32]);

/* NaCl secretbox (detached form: ciphertext and tag returned separately). */
void ref_secretbox_xsalsa20poly1305(uint8_t *c, uint8_t tag[16],
                                    const uint8_t *m, size_t mlen,
                                    const uint8_t n[24], const uint8_t k[32]);

/* Same construction with XChaCha20 as the stream cipher. */
void ref_secretbox_xchacha20poly1305(uint8_t *c, uint8_t tag[16],
                                     const uint8_t *m, size_t mlen,
                                     const uint8_t n[24], const uint8_t k[32]);

/* One secretstream_xchacha20poly1305 chunk; out has mlen + 17 bytes:
 * out[0] = encrypted tag byte, out[1..1+mlen) = ciphertext, then 16-byte MAC.
 * k is the (already derived) 32-byte stream key, nonce12 the 12-byte
 * counter||inonce value used for this chunk. */
void ref_secretstream_chunk(uint8_t *out, const uint8_t *m, size_t mlen,
                            const uint8_t *ad, size_t adlen, uint8_t tag,
                            const uint8_t k[32], const uint8_t nonce12[12]);

#endif
