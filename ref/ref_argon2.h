/*
 * ref_argon2 - independent reference model of Argon2 version 0x13 (RFC 9106).
 *
 * Written from the RFC text only; plain portable C, no SIMD, no threads.
 * Not constant time, does not wipe memory: this is a test oracle, not a
 * production implementation.
 */
#ifndef REF_ARGON2_H
#define REF_ARGON2_H

#include <stdint.h>

#define REF_ARGON2_D  0
#define REF_ARGON2_I  1
#define REF_ARGON2_ID 2

/*
 * type      : 0 = Argon2d, 1 = Argon2i, 2 = Argon2id   (RFC 9106 "y")
 * out/outlen: tag, T bytes, 4 <= T
 * pwd       : message P,   any length (pointer may be NULL if length is 0)
 * salt      : nonce S,     any length (the RFC allows 0..2^32-1; note that the
 *             Argon2 reference implementation and OpenSSL additionally insist
 *             on >= 8 bytes - that is a policy of those libraries, not of the
 *             function, so it is NOT enforced here)
 * secret    : K, any length; ad: X, any length
 * t_cost    : number of passes t >= 1
 * m_cost_kib: memory m in KiB, m >= 8*lanes; m' = 4*p*floor(m/(4p)) blocks are
 *             actually used, but the *given* m goes into H0
 * lanes     : p, 1..2^24-1
 *
 * Returns 0 on success, -1 on invalid parameters or allocation failure
 * ("out" is not written in that case).
 */
int ref_argon2(int type, uint8_t *out, uint32_t outlen,
               const uint8_t *pwd, uint32_t pwdlen,
               const uint8_t *salt, uint32_t saltlen,
               const uint8_t *secret, uint32_t secretlen,
               const uint8_t *ad, uint32_t adlen,
               uint32_t t_cost, uint32_t m_cost_kib, uint32_t lanes);

#endif
