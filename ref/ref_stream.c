/*
 * ref_stream.c - naive reference models; see ref_stream.h.
 *
 * Style: clarity over speed.  Every block function builds the full 16-word
 * state from scratch, runs the rounds exactly as written in the specification
 * and serialises the result byte by byte.  MAC inputs of the composite
 * constructions are materialised as one contiguous heap buffer so that the
 * byte string being authenticated is literally the one the specification
 * describes.
 */
#include "ref_stream.h"

#include <stdlib.h>
#include <string.h>

/* ------------------------------------------------------------------------ */
/* small helpers                                                            */
/* ------------------------------------------------------------------------ */

static uint32_t
rotl32(uint32_t x, int n)
{
    return (uint32_t) ((x << n) | (x >> (32 - n)));
}

static uint32_t
load32_le(const uint8_t *p)
{
    return (uint32_t) p[0] | ((uint32_t) p[1] << 8) | ((uint32_t) p[2] << 16) |
           ((uint32_t) p[3] << 24);
}

static void
store32_le(uint8_t *p, uint32_t v)
{
    p[0] = (uint8_t) (v & 0xff);
    p[1] = (uint8_t) ((v >> 8) & 0xff);
    p[2] = (uint8_t) ((v >> 16) & 0xff);
    p[3] = (uint8_t) ((v >> 24) & 0xff);
}

static void
store64_le(uint8_t *p, uint64_t v)
{
    int i;

    for (i = 0; i < 8; i++) {
        p[i] = (uint8_t) ((v >> (8 * i)) & 0xff);
    }
}

/* "expand 32-byte k" */
static const uint8_t SIGMA[16] = { 'e', 'x', 'p', 'a', 'n', 'd', ' ', '3',
                                   '2', '-', 'b', 'y', 't', 'e', ' ', 'k' };

/* Allocate n bytes (n may be 0); abort on failure: a reference must never
 * silently produce a wrong answer. */
static uint8_t *
xalloc(size_t n)
{
    uint8_t *p = (uint8_t *) malloc(n + 1);

    if (p == NULL) {
        abort();
    }
    memset(p, 0, n + 1);
    return p;
}

/* Append n bytes (src == NULL means n zero bytes) at *pos in buf. */
static void
append(uint8_t *buf, size_t *pos, const uint8_t *src, size_t n)
{
    size_t i;

    for (i = 0; i < n; i++) {
        buf[*pos + i] = (src != NULL) ? src[i] : 0;
    }
    *pos += n;
}

static void
append_le64(uint8_t *buf, size_t *pos, uint64_t v)
{
    uint8_t tmp[8];

    store64_le(tmp, v);
    append(buf, pos, tmp, 8);
}

/* Number of zero bytes needed to reach a multiple of 16. */
static size_t
pad16_len(size_t n)
{
    return (16 - (n % 16)) % 16;
}

/* Plain byte copy that is well defined for n == 0 with any pointers. */
static void
copy_bytes(uint8_t *dst, const uint8_t *src, size_t n)
{
    size_t i;

    for (i = 0; i < n; i++) {
        dst[i] = src[i];
    }
}

/* out[i] = in[i] ^ ks[i], in == NULL meaning zero. */
static void
xor_bytes(uint8_t *out, const uint8_t *in, const uint8_t *ks, size_t n)
{
    size_t i;

    for (i = 0; i < n; i++) {
        out[i] = (uint8_t) (((in != NULL) ? in[i] : 0) ^ ks[i]);
    }
}

/* ------------------------------------------------------------------------ */
/* ChaCha20                                                                 */
/* ------------------------------------------------------------------------ */

/* RFC 8439 section 2.1 */
static void
chacha_quarterround(uint32_t x[16], int a, int b, int c, int d)
{
    x[a] += x[b]; x[d] ^= x[a]; x[d] = rotl32(x[d], 16);
    x[c] += x[d]; x[b] ^= x[c]; x[b] = rotl32(x[b], 12);
    x[a] += x[b]; x[d] ^= x[a]; x[d] = rotl32(x[d], 8);
    x[c] += x[d]; x[b] ^= x[c]; x[b] = rotl32(x[b], 7);
}

/* 20 rounds = 10 x (column round, diagonal round); RFC 8439 section 2.3 */
static void
chacha_20_rounds(uint32_t x[16])
{
    int i;

    for (i = 0; i < 10; i++) {
        chacha_quarterround(x, 0, 4, 8, 12);
        chacha_quarterround(x, 1, 5, 9, 13);
        chacha_quarterround(x, 2, 6, 10, 14);
        chacha_quarterround(x, 3, 7, 11, 15);
        chacha_quarterround(x, 0, 5, 10, 15);
        chacha_quarterround(x, 1, 6, 11, 12);
        chacha_quarterround(x, 2, 7, 8, 13);
        chacha_quarterround(x, 3, 4, 9, 14);
    }
}

/* block = serialize(rounds(state) + state) */
static void
chacha_block(uint8_t out[64], const uint32_t state[16])
{
    uint32_t x[16];
    int      i;

    for (i = 0; i < 16; i++) {
        x[i] = state[i];
    }
    chacha_20_rounds(x);
    for (i = 0; i < 16; i++) {
        store32_le(out + 4 * i, x[i] + state[i]);
    }
}

static void
chacha_init_const_key(uint32_t state[16], const uint8_t *c,
                      const uint8_t key[32])
{
    int i;

    if (c == NULL) {
        c = SIGMA;
    }
    for (i = 0; i < 4; i++) {
        state[i] = load32_le(c + 4 * i);
    }
    for (i = 0; i < 8; i++) {
        state[4 + i] = load32_le(key + 4 * i);
    }
}

void
ref_chacha20_xor(uint8_t *out, const uint8_t *in, size_t len,
                 const uint8_t key[32], const uint8_t nonce[8],
                 uint64_t counter)
{
    uint32_t state[16];
    uint8_t  block[64];
    size_t   off = 0;

    while (off < len) {
        size_t n = len - off;

        if (n > 64) {
            n = 64;
        }
        chacha_init_const_key(state, NULL, key);
        state[12] = (uint32_t) (counter & 0xffffffffu);
        state[13] = (uint32_t) (counter >> 32);
        state[14] = load32_le(nonce);
        state[15] = load32_le(nonce + 4);
        chacha_block(block, state);
        xor_bytes(out + off, (in != NULL) ? in + off : NULL, block, n);
        off += n;
        counter++; /* uint64_t: wraps mod 2^64 */
    }
}

void
ref_chacha20_ietf_xor(uint8_t *out, const uint8_t *in, size_t len,
                      const uint8_t key[32], const uint8_t nonce[12],
                      uint32_t counter)
{
    uint32_t state[16];
    uint8_t  block[64];
    size_t   off = 0;

    while (off < len) {
        size_t n = len - off;

        if (n > 64) {
            n = 64;
        }
        chacha_init_const_key(state, NULL, key);
        state[12] = counter;
        state[13] = load32_le(nonce);
        state[14] = load32_le(nonce + 4);
        state[15] = load32_le(nonce + 8);
        chacha_block(block, state);
        xor_bytes(out + off, (in != NULL) ? in + off : NULL, block, n);
        off += n;
        counter++; /* uint32_t: wraps mod 2^32, nonce untouched */
    }
}

/* draft-irtf-cfrg-xchacha section 2.2 */
void
ref_hchacha20(uint8_t out[32], const uint8_t in[16], const uint8_t key[32],
              const uint8_t *c)
{
    uint32_t x[16];
    int      i;

    chacha_init_const_key(x, c, key);
    for (i = 0; i < 4; i++) {
        x[12 + i] = load32_le(in + 4 * i);
    }
    chacha_20_rounds(x);
    /* first and last rows, no feed-forward */
    for (i = 0; i < 4; i++) {
        store32_le(out + 4 * i, x[i]);
        store32_le(out + 16 + 4 * i, x[12 + i]);
    }
}

void
ref_xchacha20_xor(uint8_t *out, const uint8_t *in, size_t len,
                  const uint8_t key[32], const uint8_t nonce[24],
                  uint64_t counter)
{
    uint8_t subkey[32];

    ref_hchacha20(subkey, nonce, key, NULL);
    ref_chacha20_xor(out, in, len, subkey, nonce + 16, counter);
}

/* ------------------------------------------------------------------------ */
/* Salsa20                                                                  */
/* ------------------------------------------------------------------------ */

/* Salsa20 specification section 3: (z0,z1,z2,z3) = quarterround(y0,y1,y2,y3),
 * applied in place on x[a],x[b],x[c],x[d]. */
static void
salsa_quarterround(uint32_t x[16], int a, int b, int c, int d)
{
    x[b] ^= rotl32(x[a] + x[d], 7);
    x[c] ^= rotl32(x[b] + x[a], 9);
    x[d] ^= rotl32(x[c] + x[b], 13);
    x[a] ^= rotl32(x[d] + x[c], 18);
}

/* Salsa20 specification section 5 */
static void
salsa_columnround(uint32_t x[16])
{
    salsa_quarterround(x, 0, 4, 8, 12);
    salsa_quarterround(x, 5, 9, 13, 1);
    salsa_quarterround(x, 10, 14, 2, 6);
    salsa_quarterround(x, 15, 3, 7, 11);
}

/* Salsa20 specification section 4 */
static void
salsa_rowround(uint32_t x[16])
{
    salsa_quarterround(x, 0, 1, 2, 3);
    salsa_quarterround(x, 5, 6, 7, 4);
    salsa_quarterround(x, 10, 11, 8, 9);
    salsa_quarterround(x, 15, 12, 13, 14);
}

/* doubleround(x) = rowround(columnround(x)); rounds/2 double rounds */
static void
salsa_rounds(uint32_t x[16], int rounds)
{
    int i;

    if (rounds != 20 && rounds != 12 && rounds != 8) {
        abort();
    }
    for (i = 0; i < rounds / 2; i++) {
        salsa_columnround(x);
        salsa_rowround(x);
    }
}

/* Salsa20 specification section 9 (32-byte key expansion):
 * block = (c0, k0, c1, n, c2, k1, c3) */
static void
salsa_init(uint32_t x[16], const uint8_t *c, const uint8_t key[32],
           const uint8_t in[16])
{
    if (c == NULL) {
        c = SIGMA;
    }
    x[0]  = load32_le(c + 0);
    x[1]  = load32_le(key + 0);
    x[2]  = load32_le(key + 4);
    x[3]  = load32_le(key + 8);
    x[4]  = load32_le(key + 12);
    x[5]  = load32_le(c + 4);
    x[6]  = load32_le(in + 0);
    x[7]  = load32_le(in + 4);
    x[8]  = load32_le(in + 8);
    x[9]  = load32_le(in + 12);
    x[10] = load32_le(c + 8);
    x[11] = load32_le(key + 16);
    x[12] = load32_le(key + 20);
    x[13] = load32_le(key + 24);
    x[14] = load32_le(key + 28);
    x[15] = load32_le(c + 12);
}

void
ref_salsa20_core(uint8_t out[64], const uint8_t in[16], const uint8_t key[32],
                 const uint8_t *c, int rounds)
{
    uint32_t init[16];
    uint32_t x[16];
    int      i;

    salsa_init(init, c, key, in);
    for (i = 0; i < 16; i++) {
        x[i] = init[i];
    }
    salsa_rounds(x, rounds);
    for (i = 0; i < 16; i++) {
        store32_le(out + 4 * i, x[i] + init[i]);
    }
}

/* "Extending the Salsa20 nonce" section 2 */
void
ref_hsalsa20(uint8_t out[32], const uint8_t in[16], const uint8_t key[32],
             const uint8_t *c)
{
    static const int pick[8] = { 0, 5, 10, 15, 6, 7, 8, 9 };
    uint32_t         x[16];
    int              i;

    salsa_init(x, c, key, in);
    salsa_rounds(x, 20);
    for (i = 0; i < 8; i++) {
        store32_le(out + 4 * i, x[pick[i]]);
    }
}

void
ref_salsa20_xor(uint8_t *out, const uint8_t *in, size_t len,
                const uint8_t key[32], const uint8_t nonce[8],
                uint64_t counter, int rounds)
{
    uint8_t block[64];
    uint8_t n16[16];
    size_t  off = 0;

    while (off < len) {
        size_t n = len - off;

        if (n > 64) {
            n = 64;
        }
        /* 16-byte core input = nonce || le64(block counter) */
        memcpy(n16, nonce, 8);
        store64_le(n16 + 8, counter);
        ref_salsa20_core(block, n16, key, NULL, rounds);
        xor_bytes(out + off, (in != NULL) ? in + off : NULL, block, n);
        off += n;
        counter++; /* wraps mod 2^64 */
    }
}

void
ref_xsalsa20_xor(uint8_t *out, const uint8_t *in, size_t len,
                 const uint8_t key[32], const uint8_t nonce[24],
                 uint64_t counter)
{
    uint8_t subkey[32];

    ref_hsalsa20(subkey, nonce, key, NULL);
    ref_salsa20_xor(out, in, len, subkey, nonce + 16, counter, 20);
}

/* ------------------------------------------------------------------------ */
/* Poly1305 with an explicit little big-number type                         */
/* ------------------------------------------------------------------------ */

/* Unsigned integers < 2^320 as ten 32-bit limbs, least significant first.
 * The largest value ever formed is (acc + block) * r < 2^131 * 2^128 = 2^259,
 * so nothing below can overflow. */
#define BN_LIMBS 10

typedef struct {
    uint32_t v[BN_LIMBS];
} bn;

static void
bn_zero(bn *a)
{
    int i;

    for (i = 0; i < BN_LIMBS; i++) {
        a->v[i] = 0;
    }
}

/* a = little-endian integer encoded by n <= 40 bytes */
static void
bn_from_le_bytes(bn *a, const uint8_t *p, size_t n)
{
    size_t i;

    bn_zero(a);
    for (i = 0; i < n; i++) {
        a->v[i / 4] |= (uint32_t) p[i] << (8 * (i % 4));
    }
}

/* r = a + b (aborts on overflow out of the type: cannot happen) */
static void
bn_add(bn *r, const bn *a, const bn *b)
{
    uint64_t carry = 0;
    int      i;

    for (i = 0; i < BN_LIMBS; i++) {
        uint64_t t = (uint64_t) a->v[i] + b->v[i] + carry;

        r->v[i] = (uint32_t) (t & 0xffffffffu);
        carry   = t >> 32;
    }
    if (carry != 0) {
        abort();
    }
}

/* r = a - b, requires a >= b */
static void
bn_sub(bn *r, const bn *a, const bn *b)
{
    uint64_t borrow = 0;
    int      i;

    for (i = 0; i < BN_LIMBS; i++) {
        uint64_t t = (uint64_t) a->v[i] - b->v[i] - borrow;

        r->v[i] = (uint32_t) (t & 0xffffffffu);
        borrow  = (t >> 32) & 1;
    }
    if (borrow != 0) {
        abort();
    }
}

/* -1, 0, 1 for a < b, a == b, a > b */
static int
bn_cmp(const bn *a, const bn *b)
{
    int i;

    for (i = BN_LIMBS - 1; i >= 0; i--) {
        if (a->v[i] < b->v[i]) {
            return -1;
        }
        if (a->v[i] > b->v[i]) {
            return 1;
        }
    }
    return 0;
}

/* r = a * b, schoolbook; aborts if the product does not fit */
static void
bn_mul(bn *r, const bn *a, const bn *b)
{
    bn  acc;
    int i, j;

    bn_zero(&acc);
    for (i = 0; i < BN_LIMBS; i++) {
        uint64_t carry = 0;

        if (a->v[i] == 0) {
            continue;
        }
        for (j = 0; j < BN_LIMBS; j++) {
            uint64_t t;

            if (i + j >= BN_LIMBS) {
                if (b->v[j] != 0) {
                    abort();
                }
                continue;
            }
            t = (uint64_t) a->v[i] * b->v[j] + acc.v[i + j] + carry;
            acc.v[i + j] = (uint32_t) (t & 0xffffffffu);
            carry        = t >> 32;
        }
        if (carry != 0) {
            abort();
        }
    }
    *r = acc;
}

/* r = floor(a / 2^130) */
static void
bn_shr130(bn *r, const bn *a)
{
    bn  t;
    int i;

    /* 130 = 4 * 32 + 2 */
    bn_zero(&t);
    for (i = 0; i + 4 < BN_LIMBS; i++) {
        uint32_t lo = a->v[i + 4] >> 2;
        uint32_t hi = (i + 5 < BN_LIMBS) ? (a->v[i + 5] << 30) : 0;

        t.v[i] = lo | hi;
    }
    *r = t;
}

/* r = a mod 2^130 */
static void
bn_low130(bn *r, const bn *a)
{
    bn  t;
    int i;

    bn_zero(&t);
    for (i = 0; i < 4; i++) {
        t.v[i] = a->v[i];
    }
    t.v[4] = a->v[4] & 0x3;
    *r = t;
}

/* r = a mod (2^130 - 5), fully reduced.  Uses 2^130 == 5 (mod p): write
 * a = hi * 2^130 + lo, replace by 5 * hi + lo until hi == 0, then subtract p
 * while the value is >= p. */
static void
bn_mod_p1305(bn *r, const bn *a)
{
    bn p, five, x, hi, lo, t;

    /* p = 2^130 - 5 */
    bn_zero(&p);
    p.v[0] = 0xfffffffbu;
    p.v[1] = 0xffffffffu;
    p.v[2] = 0xffffffffu;
    p.v[3] = 0xffffffffu;
    p.v[4] = 0x3;
    bn_zero(&five);
    five.v[0] = 5;

    x = *a;
    for (;;) {
        bn_shr130(&hi, &x);
        bn_zero(&t);
        if (bn_cmp(&hi, &t) == 0) {
            break;
        }
        bn_low130(&lo, &x);
        bn_mul(&t, &hi, &five);
        bn_add(&x, &lo, &t);
    }
    while (bn_cmp(&x, &p) >= 0) {
        bn_sub(&t, &x, &p);
        x = t;
    }
    *r = x;
}

/* RFC 8439 section 2.5.1 */
void
ref_poly1305(uint8_t tag[16], const uint8_t *msg, size_t len,
             const uint8_t key[32])
{
    uint8_t rbytes[16];
    uint8_t blk[17];
    bn      r, s, acc, n, t;
    size_t  off = 0;
    int     i;

    /* r = le_bytes_to_num(key[0..15]), clamped */
    memcpy(rbytes, key, 16);
    rbytes[3] &= 15;
    rbytes[7] &= 15;
    rbytes[11] &= 15;
    rbytes[15] &= 15;
    rbytes[4] &= 252;
    rbytes[8] &= 252;
    rbytes[12] &= 252;
    bn_from_le_bytes(&r, rbytes, 16);
    /* s = le_bytes_to_num(key[16..31]) */
    bn_from_le_bytes(&s, key + 16, 16);

    bn_zero(&acc);
    while (off < len) {
        size_t m = len - off;

        if (m > 16) {
            m = 16;
        }
        /* n = le_bytes_to_num(msg[off .. off+m) || 0x01) */
        copy_bytes(blk, msg + off, m);
        blk[m] = 1;
        bn_from_le_bytes(&n, blk, m + 1);
        /* acc = ((acc + n) * r) mod p */
        bn_add(&t, &acc, &n);
        bn_mul(&t, &t, &r);
        bn_mod_p1305(&acc, &t);
        off += m;
    }
    /* tag = (acc + s) mod 2^128, little-endian */
    bn_add(&t, &acc, &s);
    for (i = 0; i < 4; i++) {
        store32_le(tag + 4 * i, t.v[i]);
    }
}

/* ------------------------------------------------------------------------ */
/* AEAD constructions                                                       */
/* ------------------------------------------------------------------------ */

void
ref_aead_chacha20poly1305(uint8_t *c, uint8_t tag[16], const uint8_t *m,
                          size_t mlen, const uint8_t *ad, size_t adlen,
                          const uint8_t npub[8], const uint8_t k[32])
{
    uint8_t  block0[64];
    uint8_t *mac_in;
    size_t   pos = 0;

    /* one-time key: first 32 bytes of block 0 */
    ref_chacha20_xor(block0, NULL, 64, k, npub, 0);
    /* ciphertext: keystream from block 1 */
    ref_chacha20_xor(c, m, mlen, k, npub, 1);
    /* MAC input = ad || le64(adlen) || c || le64(mlen) */
    mac_in = xalloc(adlen + 8 + mlen + 8);
    append(mac_in, &pos, ad, adlen);
    append_le64(mac_in, &pos, (uint64_t) adlen);
    append(mac_in, &pos, c, mlen);
    append_le64(mac_in, &pos, (uint64_t) mlen);
    ref_poly1305(tag, mac_in, pos, block0);
    free(mac_in);
}

void
ref_aead_chacha20poly1305_ietf(uint8_t *c, uint8_t tag[16], const uint8_t *m,
                               size_t mlen, const uint8_t *ad, size_t adlen,
                               const uint8_t npub[12], const uint8_t k[32])
{
    uint8_t  block0[64];
    uint8_t *mac_in;
    size_t   pos = 0;

    /* RFC 8439 2.6: otk = first 32 bytes of chacha20_block(k, 0, nonce) */
    ref_chacha20_ietf_xor(block0, NULL, 64, k, npub, 0);
    /* RFC 8439 2.8: ciphertext = chacha20_encrypt(k, 1, nonce, plaintext) */
    ref_chacha20_ietf_xor(c, m, mlen, k, npub, 1);
    /* mac_data = aad | pad16(aad) | ct | pad16(ct) | le64(aadlen) | le64(ctlen) */
    mac_in = xalloc(adlen + 16 + mlen + 16 + 16);
    append(mac_in, &pos, ad, adlen);
    append(mac_in, &pos, NULL, pad16_len(adlen));
    append(mac_in, &pos, c, mlen);
    append(mac_in, &pos, NULL, pad16_len(mlen));
    append_le64(mac_in, &pos, (uint64_t) adlen);
    append_le64(mac_in, &pos, (uint64_t) mlen);
    ref_poly1305(tag, mac_in, pos, block0);
    free(mac_in);
}

void
ref_aead_xchacha20poly1305_ietf(uint8_t *c, uint8_t tag[16], const uint8_t *m,
                                size_t mlen, const uint8_t *ad, size_t adlen,
                                const uint8_t npub[24], const uint8_t k[32])
{
    uint8_t subkey[32];
    uint8_t nonce12[12];

    /* draft-irtf-cfrg-xchacha 2.3 */
    ref_hchacha20(subkey, npub, k, NULL);
    memset(nonce12, 0, 4);
    memcpy(nonce12 + 4, npub + 16, 8);
    ref_aead_chacha20poly1305_ietf(c, tag, m, mlen, ad, adlen, nonce12,
                                   subkey);
}

/* ------------------------------------------------------------------------ */
/* secretbox                                                                */
/* ------------------------------------------------------------------------ */

typedef void (*xstream_fn)(uint8_t *out, const uint8_t *in, size_t len,
                           const uint8_t key[32], const uint8_t nonce[24],
                           uint64_t counter);

/* "Cryptography in NaCl" section 9/10: stream = S(k, n) of length 32 + mlen;
 * poly key = stream[0..32); c = m xor stream[32..); tag = Poly1305(c). */
static void
secretbox_generic(xstream_fn stream_xor, uint8_t *c, uint8_t tag[16],
                  const uint8_t *m, size_t mlen, const uint8_t n[24],
                  const uint8_t k[32])
{
    uint8_t *padded_in  = xalloc(32 + mlen);
    uint8_t *padded_out = xalloc(32 + mlen);
    size_t   pos        = 0;

    /* 32 zero bytes followed by the message, encrypted from stream offset 0 */
    append(padded_in, &pos, NULL, 32);
    append(padded_in, &pos, m, mlen);
    stream_xor(padded_out, padded_in, 32 + mlen, k, n, 0);
    copy_bytes(c, padded_out + 32, mlen);
    ref_poly1305(tag, padded_out + 32, mlen, padded_out);
    free(padded_in);
    free(padded_out);
}

void
ref_secretbox_xsalsa20poly1305(uint8_t *c, uint8_t tag[16], const uint8_t *m,
                               size_t mlen, const uint8_t n[24],
                               const uint8_t k[32])
{
    secretbox_generic(ref_xsalsa20_xor, c, tag, m, mlen, n, k);
}

void
ref_secretbox_xchacha20poly1305(uint8_t *c, uint8_t tag[16], const uint8_t *m,
                                size_t mlen, const uint8_t n[24],
                                const uint8_t k[32])
{
    secretbox_generic(ref_xchacha20_xor, c, tag, m, mlen, n, k);
}

/* ------------------------------------------------------------------------ */
/* secretstream chunk                                                       */
/* ------------------------------------------------------------------------ */

void
ref_secretstream_chunk(uint8_t *out, const uint8_t *m, size_t mlen,
                       const uint8_t *ad, size_t adlen, uint8_t tag,
                       const uint8_t k[32], const uint8_t nonce12[12])
{
    uint8_t  block0[64];
    uint8_t  tagblock[64];
    uint8_t  enc_tagblock[64];
    uint8_t  mac[16];
    uint8_t *ct;
    uint8_t *mac_in;
    size_t   pos = 0;
    size_t   quirk_pad;

    /* Poly1305 key: first 32 bytes of the counter-0 block */
    ref_chacha20_ietf_xor(block0, NULL, 64, k, nonce12, 0);

    /* 64-byte block {tag, 0, ..., 0} encrypted with the counter-1 block */
    memset(tagblock, 0, sizeof tagblock);
    tagblock[0] = tag;
    ref_chacha20_ietf_xor(enc_tagblock, tagblock, 64, k, nonce12, 1);

    /* message encrypted with the keystream starting at counter 2 */
    ct = xalloc(mlen);
    ref_chacha20_ietf_xor(ct, m, mlen, k, nonce12, 2);

    /* Documented quirk: the padding after (block || c) is computed as
     * (0x10 - 64 + mlen) & 0xf in unsigned 64-bit arithmetic, which equals
     * mlen mod 16 rather than the usual (-(64 + mlen)) mod 16. */
    quirk_pad = (size_t) (((uint64_t) 0x10 - (uint64_t) 64 + (uint64_t) mlen) &
                          (uint64_t) 0xf);

    mac_in = xalloc(adlen + 16 + 64 + mlen + 16 + 16);
    append(mac_in, &pos, ad, adlen);
    append(mac_in, &pos, NULL, pad16_len(adlen));
    append(mac_in, &pos, enc_tagblock, 64);
    append(mac_in, &pos, ct, mlen);
    append(mac_in, &pos, NULL, quirk_pad);
    append_le64(mac_in, &pos, (uint64_t) adlen);
    append_le64(mac_in, &pos, (uint64_t) 64 + (uint64_t) mlen);
    ref_poly1305(mac, mac_in, pos, block0);

    out[0] = enc_tagblock[0];
    copy_bytes(out + 1, ct, mlen);
    memcpy(out + 1 + mlen, mac, 16);

    free(mac_in);
    free(ct);
}
