#!/usr/bin/env python3
"""Poly1305 cases built backwards from the value the accumulator must have before the final reduction, and for keys whose precomputed
powers r^2 / r^4 sit on the boundary of partial reduction (harness/poly_keys.h).  Big-integer arithmetic only (the definition:
tag = ((sum_i (m_i + 2^(8 len_i)) r^(n-i+1)) mod 2^130-5) + s mod 2^128).  Output: records key[32] len[2] msg[len] tag[16] kind[24]."""
import hashlib, os, re, struct, sys
P = (1 << 130) - 5
CLAMP = 0x0ffffffc0ffffffc0ffffffc0fffffff
HERE = os.path.dirname(os.path.abspath(__file__))

def rnd(tag, n):
    seed = int(os.environ.get("VERIF_SEED", "1") or 1)
    return hashlib.shake_256(b"polycases-%d-%s" % (seed, tag.encode())).digest(n)

def poly(key, msg):
    r = int.from_bytes(key[:16], "little") & CLAMP; s = int.from_bytes(key[16:], "little"); h = 0
    for i in range(0, len(msg), 16):
        blk = msg[i:i + 16]; h = (h + int.from_bytes(blk, "little") + (1 << (8 * len(blk)))) * r % P
    return h, ((h + s) & ((1 << 128) - 1)).to_bytes(16, "little")

def targets():
    """accumulator values (mod p) with limb-boundary structure for the 44/44/42 and 5x26 radices"""
    cuts = [26, 44, 52, 78, 88, 104]; T = set()
    for k in range(0, 24): T.add(k); T.add(P - 1 - k)
    mids = [0, None, -1]           # zero, random, all ones between the two cuts
    for hi in cuts + [130]:
        for lo in cuts:
            if lo >= hi: continue
            for above in (0, 1):
                for mi, mid in enumerate(mids):
                    for low in list(range(0, 6)) + [(1 << lo) - k for k in range(1, 8)]:
                        top = ((1 << 130) - (1 << hi)) if above else 0
                        m = 0 if mid == 0 else ((1 << hi) - (1 << lo)) if mid == -1 else (int.from_bytes(rnd("mid%d%d%d" % (hi, lo, low), 17), "little") % (1 << (hi - lo))) << lo
                        v = top | m | low
                        if v < P: T.add(v)
    return sorted(T)

def craft(r, key, target, nprefix, tag):
    """message of nprefix random blocks + one final full block whose accumulator is exactly `target`"""
    rinv = pow(r, P - 2, P); x = target * rinv % P
    for attempt in range(200):
        pre = rnd("%s-%d-%d" % (tag, nprefix, attempt), 16 * nprefix) if nprefix or attempt == 0 else None
        if pre is None: break
        hp, _ = poly(key[:16] + bytes(16), pre) if nprefix else (0, None)
        v = (x - hp) % P
        if (1 << 128) <= v < (1 << 129):
            return pre + (v - (1 << 128)).to_bytes(16, "little")
    return None

def special_keys():
    out = []
    try:
        for m in re.finditer(r'\{ "([a-z0-9-]+)", (\d+)ULL, \{ ([0-9a-fx,]+) \} \}', open(os.path.join(HERE, "..", "harness", "poly_keys.h")).read()):
            out.append((m.group(1), bytes(int(b, 16) for b in m.group(3).split(","))))
    except OSError:
        pass
    return out

def main(out):
    recs = []
    def add(kind, key, msg):
        h, tag = poly(key, msg)
        recs.append(key + struct.pack("<H", len(msg)) + msg + tag + kind.encode()[:24].ljust(24, b"\0"))
        return h
    rs = [1, 2, 5, CLAMP, 1 << 123] + [int.from_bytes(rnd("r%d" % i, 16), "little") & CLAMP for i in range(3)]
    ss = [bytes(16), b"\xff" * 16, rnd("s", 16)]
    T = targets(); nt = 0
    for ri, r in enumerate(rs):
        for ti, t in enumerate(T):
            for npre in (0, 1, 4, 7, 12):
                key = r.to_bytes(16, "little") + ss[(ti + npre) % 3]
                msg = craft(r, key, t, npre, "t%d-%d" % (ri, ti))
                if msg is None: continue
                h = add("acc-target", key, msg); assert h == t; nt += 1
    sk = special_keys()
    for kind, r16 in sk:
        for si in range(3):
            key = r16 + ss[si]
            for ln in list(range(0, 100)) + [127, 128, 129, 255, 256, 257, 300]:
                add("key-" + kind, key, rnd("m%d" % ln, ln) if si else b"\xff" * ln)
    with open(out, "wb") as f:
        f.write(struct.pack("<I", len(recs))); f.write(b"".join(recs))
    print("poly cases: %d (accumulator targets %d of %d x %d keys x 5 prefixes, special keys %d)" % (len(recs), nt, len(T), len(rs), len(sk)))

if __name__ == "__main__":
    main(sys.argv[1])
