/*
 * ref_hash.c - independent, deliberately naive reference models.
 * See ref_hash.h for the list of specifications followed.
 *
 * Style rules followed throughout:
 *   - follow the pseudo-code of the specification literally, no tricks;
 *   - one-shot functions that build the complete padded input in a heap
 *     buffer, then walk it block by block;
 *   - bytes are combined into words with explicit shifts (no type punning,
 *     no dependence on host endianness or alignment);
 *   - no memcpy/memset on possibly-NULL pointers (len 0 + NULL is allowed).
 *
 * No code here is derived from, or includes, libsodium.
 */
#include "ref_hash.h"

#include <stdlib.h>

/* ------------------------------------------------------------------ */
/* small helpers                                                       */
/* ------------------------------------------------------------------ */

static uint8_t *
xmalloc(size_t n)
{
    uint8_t *p = (uint8_t *) malloc(n == 0 ? 1 : n);

    if (p == NULL) {
        abort();
    }
    return p;
}

static void
copy_bytes(uint8_t *dst, const uint8_t *src, size_t n)
{
    size_t i;

    for (i = 0; i < n; i++) {
        dst[i] = src[i];
    }
}

static void
zero_bytes(uint8_t *dst, size_t n)
{
    size_t i;

    for (i = 0; i < n; i++) {
        dst[i] = 0;
    }
}

static uint32_t
load32_be(const uint8_t *p)
{
    return ((uint32_t) p[0] << 24) | ((uint32_t) p[1] << 16) |
           ((uint32_t) p[2] << 8) | (uint32_t) p[3];
}

static void
store32_be(uint8_t *p, uint32_t v)
{
    p[0] = (uint8_t) (v >> 24);
    p[1] = (uint8_t) (v >> 16);
    p[2] = (uint8_t) (v >> 8);
    p[3] = (uint8_t) v;
}

static uint64_t
load64_be(const uint8_t *p)
{
    uint64_t v = 0;
    int      i;

    for (i = 0; i < 8; i++) {
        v = (v << 8) | p[i];
    }
    return v;
}

static void
store64_be(uint8_t *p, uint64_t v)
{
    int i;

    for (i = 0; i < 8; i++) {
        p[i] = (uint8_t) (v >> (56 - 8 * i));
    }
}

static uint64_t
load64_le(const uint8_t *p)
{
    uint64_t v = 0;
    int      i;

    for (i = 0; i < 8; i++) {
        v |= (uint64_t) p[i] << (8 * i);
    }
    return v;
}

static void
store64_le(uint8_t *p, uint64_t v)
{
    int i;

    for (i = 0; i < 8; i++) {
        p[i] = (uint8_t) (v >> (8 * i));
    }
}

static uint32_t
rotr32(uint32_t x, int n)
{
    return (x >> n) | (x << (32 - n));
}

static uint64_t
rotr64(uint64_t x, int n)
{
    return (x >> n) | (x << (64 - n));
}

static uint64_t
rotl64(uint64_t x, int n)
{
    return (x << n) | (x >> (64 - n));
}

/* ------------------------------------------------------------------ */
/* SHA-256 (FIPS 180-4 sections 4.1.2, 4.2.2, 5.1.1, 5.3.3, 6.2)       */
/* ------------------------------------------------------------------ */

/* first 32 bits of the fractional parts of the cube roots of the first 64
 * primes */
static const uint32_t SHA256_K[64] = {
    0x428a2f98U, 0x71374491U, 0xb5c0fbcfU, 0xe9b5dba5U,
    0x3956c25bU, 0x59f111f1U, 0x923f82a4U, 0xab1c5ed5U,
    0xd807aa98U, 0x12835b01U, 0x243185beU, 0x550c7dc3U,
    0x72be5d74U, 0x80deb1feU, 0x9bdc06a7U, 0xc19bf174U,
    0xe49b69c1U, 0xefbe4786U, 0x0fc19dc6U, 0x240ca1ccU,
    0x2de92c6fU, 0x4a7484aaU, 0x5cb0a9dcU, 0x76f988daU,
    0x983e5152U, 0xa831c66dU, 0xb00327c8U, 0xbf597fc7U,
    0xc6e00bf3U, 0xd5a79147U, 0x06ca6351U, 0x14292967U,
    0x27b70a85U, 0x2e1b2138U, 0x4d2c6dfcU, 0x53380d13U,
    0x650a7354U, 0x766a0abbU, 0x81c2c92eU, 0x92722c85U,
    0xa2bfe8a1U, 0xa81a664bU, 0xc24b8b70U, 0xc76c51a3U,
    0xd192e819U, 0xd6990624U, 0xf40e3585U, 0x106aa070U,
    0x19a4c116U, 0x1e376c08U, 0x2748774cU, 0x34b0bcb5U,
    0x391c0cb3U, 0x4ed8aa4aU, 0x5b9cca4fU, 0x682e6ff3U,
    0x748f82eeU, 0x78a5636fU, 0x84c87814U, 0x8cc70208U,
    0x90befffaU, 0xa4506cebU, 0xbef9a3f7U, 0xc67178f2U
};

/* first 32 bits of the fractional parts of the square roots of the first 8
 * primes */
static const uint32_t SHA256_H0[8] = {
    0x6a09e667U, 0xbb67ae85U, 0x3c6ef372U, 0xa54ff53aU,
    0x510e527fU, 0x9b05688cU, 0x1f83d9abU, 0x5be0cd19U
};

static uint32_t sha256_Ch(uint32_t x, uint32_t y, uint32_t z)
{
    return (x & y) ^ (~x & z);
}
static uint32_t sha256_Maj(uint32_t x, uint32_t y, uint32_t z)
{
    return (x & y) ^ (x & z) ^ (y & z);
}
static uint32_t sha256_S0(uint32_t x) /* capital sigma 0 */
{
    return rotr32(x, 2) ^ rotr32(x, 13) ^ rotr32(x, 22);
}
static uint32_t sha256_S1(uint32_t x) /* capital sigma 1 */
{
    return rotr32(x, 6) ^ rotr32(x, 11) ^ rotr32(x, 25);
}
static uint32_t sha256_s0(uint32_t x) /* small sigma 0 */
{
    return rotr32(x, 7) ^ rotr32(x, 18) ^ (x >> 3);
}
static uint32_t sha256_s1(uint32_t x) /* small sigma 1 */
{
    return rotr32(x, 17) ^ rotr32(x, 19) ^ (x >> 10);
}

void
ref_sha256(uint8_t out[32], const uint8_t *m, size_t len)
{
    uint32_t H[8];
    uint32_t W[64];
    uint32_t a, b, c, d, e, f, g, h, T1, T2;
    uint8_t *buf;
    size_t   padded_len;
    size_t   nblocks;
    size_t   i;
    int      t;

    /* 5.1.1: M || 0x80 || 0x00... || 64-bit big-endian bit length,
     * total length a multiple of 64 bytes */
    padded_len = len + 1 + 8;
    while (padded_len % 64 != 0) {
        padded_len++;
    }
    buf = xmalloc(padded_len);
    copy_bytes(buf, m, len);
    buf[len] = 0x80;
    zero_bytes(buf + len + 1, padded_len - 8 - (len + 1));
    store64_be(buf + padded_len - 8, (uint64_t) len * 8U);

    for (i = 0; i < 8; i++) {
        H[i] = SHA256_H0[i];
    }
    nblocks = padded_len / 64;
    for (i = 0; i < nblocks; i++) {
        const uint8_t *M = buf + 64 * i;

        for (t = 0; t < 16; t++) {
            W[t] = load32_be(M + 4 * t);
        }
        for (t = 16; t < 64; t++) {
            W[t] = sha256_s1(W[t - 2]) + W[t - 7] + sha256_s0(W[t - 15]) +
                   W[t - 16];
        }
        a = H[0]; b = H[1]; c = H[2]; d = H[3];
        e = H[4]; f = H[5]; g = H[6]; h = H[7];
        for (t = 0; t < 64; t++) {
            T1 = h + sha256_S1(e) + sha256_Ch(e, f, g) + SHA256_K[t] + W[t];
            T2 = sha256_S0(a) + sha256_Maj(a, b, c);
            h = g;
            g = f;
            f = e;
            e = d + T1;
            d = c;
            c = b;
            b = a;
            a = T1 + T2;
        }
        H[0] += a; H[1] += b; H[2] += c; H[3] += d;
        H[4] += e; H[5] += f; H[6] += g; H[7] += h;
    }
    for (i = 0; i < 8; i++) {
        store32_be(out + 4 * i, H[i]);
    }
    free(buf);
}

/* ------------------------------------------------------------------ */
/* SHA-512 (FIPS 180-4 sections 4.1.3, 4.2.3, 5.1.2, 5.3.5, 6.4)       */
/* ------------------------------------------------------------------ */

/* first 64 bits of the fractional parts of the cube roots of the first 80
 * primes */
static const uint64_t SHA512_K[80] = {
    0x428a2f98d728ae22ULL, 0x7137449123ef65cdULL,
    0xb5c0fbcfec4d3b2fULL, 0xe9b5dba58189dbbcULL,
    0x3956c25bf348b538ULL, 0x59f111f1b605d019ULL,
    0x923f82a4af194f9bULL, 0xab1c5ed5da6d8118ULL,
    0xd807aa98a3030242ULL, 0x12835b0145706fbeULL,
    0x243185be4ee4b28cULL, 0x550c7dc3d5ffb4e2ULL,
    0x72be5d74f27b896fULL, 0x80deb1fe3b1696b1ULL,
    0x9bdc06a725c71235ULL, 0xc19bf174cf692694ULL,
    0xe49b69c19ef14ad2ULL, 0xefbe4786384f25e3ULL,
    0x0fc19dc68b8cd5b5ULL, 0x240ca1cc77ac9c65ULL,
    0x2de92c6f592b0275ULL, 0x4a7484aa6ea6e483ULL,
    0x5cb0a9dcbd41fbd4ULL, 0x76f988da831153b5ULL,
    0x983e5152ee66dfabULL, 0xa831c66d2db43210ULL,
    0xb00327c898fb213fULL, 0xbf597fc7beef0ee4ULL,
    0xc6e00bf33da88fc2ULL, 0xd5a79147930aa725ULL,
    0x06ca6351e003826fULL, 0x142929670a0e6e70ULL,
    0x27b70a8546d22ffcULL, 0x2e1b21385c26c926ULL,
    0x4d2c6dfc5ac42aedULL, 0x53380d139d95b3dfULL,
    0x650a73548baf63deULL, 0x766a0abb3c77b2a8ULL,
    0x81c2c92e47edaee6ULL, 0x92722c851482353bULL,
    0xa2bfe8a14cf10364ULL, 0xa81a664bbc423001ULL,
    0xc24b8b70d0f89791ULL, 0xc76c51a30654be30ULL,
    0xd192e819d6ef5218ULL, 0xd69906245565a910ULL,
    0xf40e35855771202aULL, 0x106aa07032bbd1b8ULL,
    0x19a4c116b8d2d0c8ULL, 0x1e376c085141ab53ULL,
    0x2748774cdf8eeb99ULL, 0x34b0bcb5e19b48a8ULL,
    0x391c0cb3c5c95a63ULL, 0x4ed8aa4ae3418acbULL,
    0x5b9cca4f7763e373ULL, 0x682e6ff3d6b2b8a3ULL,
    0x748f82ee5defb2fcULL, 0x78a5636f43172f60ULL,
    0x84c87814a1f0ab72ULL, 0x8cc702081a6439ecULL,
    0x90befffa23631e28ULL, 0xa4506cebde82bde9ULL,
    0xbef9a3f7b2c67915ULL, 0xc67178f2e372532bULL,
    0xca273eceea26619cULL, 0xd186b8c721c0c207ULL,
    0xeada7dd6cde0eb1eULL, 0xf57d4f7fee6ed178ULL,
    0x06f067aa72176fbaULL, 0x0a637dc5a2c898a6ULL,
    0x113f9804bef90daeULL, 0x1b710b35131c471bULL,
    0x28db77f523047d84ULL, 0x32caab7b40c72493ULL,
    0x3c9ebe0a15c9bebcULL, 0x431d67c49c100d4cULL,
    0x4cc5d4becb3e42b6ULL, 0x597f299cfc657e2aULL,
    0x5fcb6fab3ad6faecULL, 0x6c44198c4a475817ULL
};

/* first 64 bits of the fractional parts of the square roots of the first 8
 * primes (also the BLAKE2b IV, RFC 7693 section 2.6) */
static const uint64_t SHA512_H0[8] = {
    0x6a09e667f3bcc908ULL, 0xbb67ae8584caa73bULL,
    0x3c6ef372fe94f82bULL, 0xa54ff53a5f1d36f1ULL,
    0x510e527fade682d1ULL, 0x9b05688c2b3e6c1fULL,
    0x1f83d9abfb41bd6bULL, 0x5be0cd19137e2179ULL
};

static uint64_t sha512_Ch(uint64_t x, uint64_t y, uint64_t z)
{
    return (x & y) ^ (~x & z);
}
static uint64_t sha512_Maj(uint64_t x, uint64_t y, uint64_t z)
{
    return (x & y) ^ (x & z) ^ (y & z);
}
static uint64_t sha512_S0(uint64_t x)
{
    return rotr64(x, 28) ^ rotr64(x, 34) ^ rotr64(x, 39);
}
static uint64_t sha512_S1(uint64_t x)
{
    return rotr64(x, 14) ^ rotr64(x, 18) ^ rotr64(x, 41);
}
static uint64_t sha512_s0(uint64_t x)
{
    return rotr64(x, 1) ^ rotr64(x, 8) ^ (x >> 7);
}
static uint64_t sha512_s1(uint64_t x)
{
    return rotr64(x, 19) ^ rotr64(x, 61) ^ (x >> 6);
}

void
ref_sha512(uint8_t out[64], const uint8_t *m, size_t len)
{
    uint64_t H[8];
    uint64_t W[80];
    uint64_t a, b, c, d, e, f, g, h, T1, T2;
    uint8_t *buf;
    size_t   padded_len;
    size_t   nblocks;
    size_t   i;
    int      t;

    /* 5.1.2: M || 0x80 || 0x00... || 128-bit big-endian bit length,
     * total length a multiple of 128 bytes */
    padded_len = len + 1 + 16;
    while (padded_len % 128 != 0) {
        padded_len++;
    }
    buf = xmalloc(padded_len);
    copy_bytes(buf, m, len);
    buf[len] = 0x80;
    zero_bytes(buf + len + 1, padded_len - 16 - (len + 1));
    /* bit length = len * 8 as a 128-bit number */
    store64_be(buf + padded_len - 16, (uint64_t) len >> 61);
    store64_be(buf + padded_len - 8, (uint64_t) len << 3);

    for (i = 0; i < 8; i++) {
        H[i] = SHA512_H0[i];
    }
    nblocks = padded_len / 128;
    for (i = 0; i < nblocks; i++) {
        const uint8_t *M = buf + 128 * i;

        for (t = 0; t < 16; t++) {
            W[t] = load64_be(M + 8 * t);
        }
        for (t = 16; t < 80; t++) {
            W[t] = sha512_s1(W[t - 2]) + W[t - 7] + sha512_s0(W[t - 15]) +
                   W[t - 16];
        }
        a = H[0]; b = H[1]; c = H[2]; d = H[3];
        e = H[4]; f = H[5]; g = H[6]; h = H[7];
        for (t = 0; t < 80; t++) {
            T1 = h + sha512_S1(e) + sha512_Ch(e, f, g) + SHA512_K[t] + W[t];
            T2 = sha512_S0(a) + sha512_Maj(a, b, c);
            h = g;
            g = f;
            f = e;
            e = d + T1;
            d = c;
            c = b;
            b = a;
            a = T1 + T2;
        }
        H[0] += a; H[1] += b; H[2] += c; H[3] += d;
        H[4] += e; H[5] += f; H[6] += g; H[7] += h;
    }
    for (i = 0; i < 8; i++) {
        store64_be(out + 8 * i, H[i]);
    }
    free(buf);
}

/* ------------------------------------------------------------------ */
/* HMAC (RFC 2104 section 2)                                           */
/*   H(K XOR opad, H(K XOR ipad, text))                                */
/* ------------------------------------------------------------------ */

typedef void (*ref_hash_fn)(uint8_t *out, const uint8_t *m, size_t len);

static void
sha256_untyped(uint8_t *out, const uint8_t *m, size_t len)
{
    ref_sha256(out, m, len);
}

static void
sha512_untyped(uint8_t *out, const uint8_t *m, size_t len)
{
    ref_sha512(out, m, len);
}

/* B = block size in bytes (64 or 128), L = hash output size (32 or 64) */
static void
hmac_generic(ref_hash_fn H, size_t B, size_t L, uint8_t *out,
             const uint8_t *key, size_t keylen, const uint8_t *m, size_t len)
{
    uint8_t  K[128]; /* key, zero padded to B bytes */
    uint8_t  inner[64];
    uint8_t *buf;
    size_t   i;

    zero_bytes(K, sizeof K);
    if (keylen > B) {
        /* "keys longer than B bytes are first hashed using H" */
        H(K, key, keylen);
    } else {
        copy_bytes(K, key, keylen);
    }

    /* inner = H((K xor ipad) || text) */
    buf = xmalloc(B + len);
    for (i = 0; i < B; i++) {
        buf[i] = K[i] ^ 0x36;
    }
    copy_bytes(buf + B, m, len);
    H(inner, buf, B + len);
    free(buf);

    /* out = H((K xor opad) || inner) */
    buf = xmalloc(B + L);
    for (i = 0; i < B; i++) {
        buf[i] = K[i] ^ 0x5c;
    }
    copy_bytes(buf + B, inner, L);
    H(out, buf, B + L);
    free(buf);
}

void
ref_hmac_sha256(uint8_t out[32], const uint8_t *key, size_t keylen,
                const uint8_t *m, size_t len)
{
    hmac_generic(sha256_untyped, 64, 32, out, key, keylen, m, len);
}

void
ref_hmac_sha512(uint8_t out[64], const uint8_t *key, size_t keylen,
                const uint8_t *m, size_t len)
{
    hmac_generic(sha512_untyped, 128, 64, out, key, keylen, m, len);
}

void
ref_hmac_sha512256(uint8_t out[32], const uint8_t *key, size_t keylen,
                   const uint8_t *m, size_t len)
{
    uint8_t full[64];

    ref_hmac_sha512(full, key, keylen, m, len);
    copy_bytes(out, full, 32);
}

/* ------------------------------------------------------------------ */
/* HKDF (RFC 5869 sections 2.2 and 2.3)                                */
/* ------------------------------------------------------------------ */

typedef void (*ref_hmac_fn)(uint8_t *out, const uint8_t *key, size_t keylen,
                            const uint8_t *m, size_t len);

static void
hmac_sha256_untyped(uint8_t *out, const uint8_t *key, size_t keylen,
                    const uint8_t *m, size_t len)
{
    ref_hmac_sha256(out, key, keylen, m, len);
}

static void
hmac_sha512_untyped(uint8_t *out, const uint8_t *key, size_t keylen,
                    const uint8_t *m, size_t len)
{
    ref_hmac_sha512(out, key, keylen, m, len);
}

/* PRK = HMAC-Hash(salt, IKM); "salt ... if not provided, it is set to a
 * string of HashLen zeros" */
static void
hkdf_extract_generic(ref_hmac_fn HMAC, size_t L, uint8_t *prk,
                     const uint8_t *salt, size_t saltlen, const uint8_t *ikm,
                     size_t ikmlen)
{
    uint8_t zeros[64];

    if (saltlen == 0) {
        zero_bytes(zeros, sizeof zeros);
        HMAC(prk, zeros, L, ikm, ikmlen);
    } else {
        HMAC(prk, salt, saltlen, ikm, ikmlen);
    }
}

/* N = ceil(L/HashLen); T(0) = empty; T(i) = HMAC(PRK, T(i-1) | info | i);
 * OKM = first L octets of T(1) | T(2) | ... | T(N) */
static int
hkdf_expand_generic(ref_hmac_fn HMAC, size_t L, uint8_t *out, size_t outlen,
                    const uint8_t *info, size_t infolen, const uint8_t *prk)
{
    uint8_t  T[64];
    uint8_t *buf;
    size_t   Tlen = 0;
    size_t   N;
    size_t   i;
    size_t   j;
    size_t   produced = 0;

    if (outlen > 255 * L) {
        return -1;
    }
    N   = (outlen + L - 1) / L;
    buf = xmalloc(L + infolen + 1);
    for (i = 1; i <= N; i++) {
        copy_bytes(buf, T, Tlen);
        copy_bytes(buf + Tlen, info, infolen);
        buf[Tlen + infolen] = (uint8_t) i;
        HMAC(T, prk, L, buf, Tlen + infolen + 1);
        Tlen = L;
        for (j = 0; j < L && produced < outlen; j++) {
            out[produced] = T[j];
            produced++;
        }
    }
    free(buf);
    return 0;
}

void
ref_hkdf_sha256_extract(uint8_t prk[32], const uint8_t *salt, size_t saltlen,
                        const uint8_t *ikm, size_t ikmlen)
{
    hkdf_extract_generic(hmac_sha256_untyped, 32, prk, salt, saltlen, ikm,
                         ikmlen);
}

int
ref_hkdf_sha256_expand(uint8_t *out, size_t outlen, const uint8_t *ctx,
                       size_t ctxlen, const uint8_t prk[32])
{
    return hkdf_expand_generic(hmac_sha256_untyped, 32, out, outlen, ctx,
                               ctxlen, prk);
}

void
ref_hkdf_sha512_extract(uint8_t prk[64], const uint8_t *salt, size_t saltlen,
                        const uint8_t *ikm, size_t ikmlen)
{
    hkdf_extract_generic(hmac_sha512_untyped, 64, prk, salt, saltlen, ikm,
                         ikmlen);
}

int
ref_hkdf_sha512_expand(uint8_t *out, size_t outlen, const uint8_t *ctx,
                       size_t ctxlen, const uint8_t prk[64])
{
    return hkdf_expand_generic(hmac_sha512_untyped, 64, out, outlen, ctx,
                               ctxlen, prk);
}

/* ------------------------------------------------------------------ */
/* BLAKE2b (RFC 7693 sections 2.5 - 3.3)                               */
/* ------------------------------------------------------------------ */

static const uint8_t BLAKE2B_SIGMA[10][16] = {
    { 0, 1, 2, 3, 4, 5, 6, 7, 8, 9, 10, 11, 12, 13, 14, 15 },
    { 14, 10, 4, 8, 9, 15, 13, 6, 1, 12, 0, 2, 11, 7, 5, 3 },
    { 11, 8, 12, 0, 5, 2, 15, 13, 10, 14, 3, 6, 7, 1, 9, 4 },
    { 7, 9, 3, 1, 13, 12, 11, 14, 2, 6, 5, 10, 4, 0, 15, 8 },
    { 9, 0, 5, 7, 2, 4, 10, 15, 14, 1, 11, 12, 6, 8, 3, 13 },
    { 2, 12, 6, 10, 0, 11, 8, 3, 4, 13, 7, 5, 15, 14, 1, 9 },
    { 12, 5, 1, 15, 14, 13, 4, 10, 0, 7, 6, 3, 9, 2, 8, 11 },
    { 13, 11, 7, 14, 12, 1, 3, 9, 5, 0, 15, 4, 8, 6, 2, 10 },
    { 6, 15, 14, 9, 11, 3, 0, 8, 12, 2, 13, 7, 1, 4, 10, 5 },
    { 10, 2, 8, 4, 7, 6, 1, 5, 15, 11, 9, 14, 3, 12, 13, 0 }
};

/* 3.1: mixing function G with (R1,R2,R3,R4) = (32,24,16,63) */
static void
blake2b_G(uint64_t v[16], int a, int b, int c, int d, uint64_t x, uint64_t y)
{
    v[a] = v[a] + v[b] + x;
    v[d] = rotr64(v[d] ^ v[a], 32);
    v[c] = v[c] + v[d];
    v[b] = rotr64(v[b] ^ v[c], 24);
    v[a] = v[a] + v[b] + y;
    v[d] = rotr64(v[d] ^ v[a], 16);
    v[c] = v[c] + v[d];
    v[b] = rotr64(v[b] ^ v[c], 63);
}

/* 3.2: compression function F; t = 128-bit offset counter (t_lo, t_hi),
 * f = final block flag */
static void
blake2b_F(uint64_t h[8], const uint8_t block[128], uint64_t t_lo,
          uint64_t t_hi, int f)
{
    uint64_t v[16];
    uint64_t m[16];
    int      i;
    int      r;

    for (i = 0; i < 16; i++) {
        m[i] = load64_le(block + 8 * i);
    }
    for (i = 0; i < 8; i++) {
        v[i]     = h[i];
        v[i + 8] = SHA512_H0[i]; /* BLAKE2b IV == SHA-512 IV */
    }
    v[12] ^= t_lo;
    v[13] ^= t_hi;
    if (f) {
        v[14] = ~v[14];
    }
    for (r = 0; r < 12; r++) {
        const uint8_t *s = BLAKE2B_SIGMA[r % 10];

        blake2b_G(v, 0, 4, 8, 12, m[s[0]], m[s[1]]);
        blake2b_G(v, 1, 5, 9, 13, m[s[2]], m[s[3]]);
        blake2b_G(v, 2, 6, 10, 14, m[s[4]], m[s[5]]);
        blake2b_G(v, 3, 7, 11, 15, m[s[6]], m[s[7]]);
        blake2b_G(v, 0, 5, 10, 15, m[s[8]], m[s[9]]);
        blake2b_G(v, 1, 6, 11, 12, m[s[10]], m[s[11]]);
        blake2b_G(v, 2, 7, 8, 13, m[s[12]], m[s[13]]);
        blake2b_G(v, 3, 4, 9, 14, m[s[14]], m[s[15]]);
    }
    for (i = 0; i < 8; i++) {
        h[i] ^= v[i] ^ v[i + 8];
    }
}

int
ref_blake2b(uint8_t *out, size_t outlen, const uint8_t *m, size_t mlen,
            const uint8_t *key, size_t keylen, const uint8_t salt[16],
            const uint8_t personal[16])
{
    uint8_t  P[64]; /* parameter block, RFC 7693 section 2.5 */
    uint8_t  hbytes[64];
    uint64_t h[8];
    uint8_t *d;     /* padded data blocks d[0..dd-1] */
    size_t   dlen;  /* unpadded length of key block || message */
    size_t   dd;    /* number of blocks */
    size_t   i;

    if (outlen < 1 || outlen > 64 || keylen > 64 ||
        (keylen > 0 && key == NULL)) {
        return -1;
    }

    /* parameter block */
    zero_bytes(P, sizeof P);
    P[0] = (uint8_t) outlen; /* digest length */
    P[1] = (uint8_t) keylen; /* key length */
    P[2] = 1;                /* fanout */
    P[3] = 1;                /* depth */
    /* bytes 4..7 leaf length, 8..15 node offset, 16 node depth,
     * 17 inner length, 18..31 reserved: all zero */
    if (salt != NULL) {
        copy_bytes(P + 32, salt, 16);
    }
    if (personal != NULL) {
        copy_bytes(P + 48, personal, 16);
    }

    /* h = IV xor parameter block */
    for (i = 0; i < 8; i++) {
        h[i] = SHA512_H0[i] ^ load64_le(P + 8 * i);
    }

    /* 3.3: if there is a key, it is zero-padded to a full block and
     * prepended; an empty unkeyed input is a single all-zero block */
    dlen = (keylen > 0 ? 128 : 0) + mlen;
    dd   = (dlen + 127) / 128;
    if (dd == 0) {
        dd = 1;
    }
    d = xmalloc(dd * 128);
    zero_bytes(d, dd * 128);
    if (keylen > 0) {
        copy_bytes(d, key, keylen);
        copy_bytes(d + 128, m, mlen);
    } else {
        copy_bytes(d, m, mlen);
    }

    /* all blocks but the last: counter = bytes consumed so far */
    for (i = 0; i + 1 < dd; i++) {
        blake2b_F(h, d + 128 * i, (uint64_t) (i + 1) * 128U, 0, 0);
    }
    /* last block: counter = total bytes (including the key block), final */
    blake2b_F(h, d + 128 * (dd - 1), (uint64_t) dlen, 0, 1);
    free(d);

    for (i = 0; i < 8; i++) {
        store64_le(hbytes + 8 * i, h[i]);
    }
    copy_bytes(out, hbytes, outlen);
    return 0;
}

/* ------------------------------------------------------------------ */
/* SipHash-2-4 (SipHash paper section 2; 128-bit variant as in the      */
/* authors' reference implementation)                                   */
/* ------------------------------------------------------------------ */

static void
sipround(uint64_t v[4])
{
    v[0] += v[1];
    v[2] += v[3];
    v[1] = rotl64(v[1], 13);
    v[3] = rotl64(v[3], 16);
    v[1] ^= v[0];
    v[3] ^= v[2];
    v[0] = rotl64(v[0], 32);
    v[2] += v[1];
    v[0] += v[3];
    v[1] = rotl64(v[1], 17);
    v[3] = rotl64(v[3], 21);
    v[1] ^= v[2];
    v[3] ^= v[0];
    v[2] = rotl64(v[2], 32);
}

static void
siphash_generic(uint8_t *out, int outlen, const uint8_t *m, size_t len,
                const uint8_t k[16])
{
    uint64_t v[4];
    uint64_t k0 = load64_le(k);
    uint64_t k1 = load64_le(k + 8);
    uint64_t mi;
    uint8_t  last[8];
    size_t   nfull = len / 8;
    size_t   rem   = len % 8;
    size_t   i;

    /* initialization: "somepseudorandomlygeneratedbytes" */
    v[0] = k0 ^ 0x736f6d6570736575ULL;
    v[1] = k1 ^ 0x646f72616e646f6dULL;
    v[2] = k0 ^ 0x6c7967656e657261ULL;
    v[3] = k1 ^ 0x7465646279746573ULL;
    if (outlen == 16) {
        v[1] ^= 0xee;
    }

    /* compression: c = 2 rounds per 8-byte little-endian word */
    for (i = 0; i < nfull; i++) {
        mi = load64_le(m + 8 * i);
        v[3] ^= mi;
        sipround(v);
        sipround(v);
        v[0] ^= mi;
    }
    /* final word: remaining bytes, zero padding, (len mod 256) in the top
     * byte */
    zero_bytes(last, 8);
    for (i = 0; i < rem; i++) {
        last[i] = m[8 * nfull + i];
    }
    last[7] = (uint8_t) (len % 256);
    mi      = load64_le(last);
    v[3] ^= mi;
    sipround(v);
    sipround(v);
    v[0] ^= mi;

    /* finalization: d = 4 rounds */
    if (outlen == 16) {
        v[2] ^= 0xee;
    } else {
        v[2] ^= 0xff;
    }
    sipround(v);
    sipround(v);
    sipround(v);
    sipround(v);
    store64_le(out, v[0] ^ v[1] ^ v[2] ^ v[3]);

    if (outlen == 16) {
        v[1] ^= 0xdd;
        sipround(v);
        sipround(v);
        sipround(v);
        sipround(v);
        store64_le(out + 8, v[0] ^ v[1] ^ v[2] ^ v[3]);
    }
}

void
ref_siphash24(uint8_t out[8], const uint8_t *m, size_t len,
              const uint8_t k[16])
{
    siphash_generic(out, 8, m, len, k);
}

void
ref_siphashx24(uint8_t out[16], const uint8_t *m, size_t len,
               const uint8_t k[16])
{
    siphash_generic(out, 16, m, len, k);
}

/* ------------------------------------------------------------------ */
/* AES-256 (FIPS 197)                                                  */
/* ------------------------------------------------------------------ */

static uint8_t aes_sbox[256];
static int     aes_sbox_ready = 0;

/* 4.2.1: multiplication by x modulo x^8 + x^4 + x^3 + x + 1 */
static uint8_t
gf256_xtime(uint8_t a)
{
    uint8_t r = (uint8_t) (a << 1);

    if (a & 0x80) {
        r ^= 0x1b;
    }
    return r;
}

/* 4.2: multiplication in GF(2^8), shift-and-add */
static uint8_t
gf256_mul(uint8_t a, uint8_t b)
{
    uint8_t r = 0;
    int     i;

    for (i = 0; i < 8; i++) {
        if (b & 1) {
            r ^= a;
        }
        a = gf256_xtime(a);
        b >>= 1;
    }
    return r;
}

static uint8_t
rotl8(uint8_t x, int n)
{
    return (uint8_t) ((x << n) | (x >> (8 - n)));
}

/* 5.1.1: S-box = affine transformation of the multiplicative inverse
 * (0 maps to 0).  b'_i = b_i ^ b_(i+4) ^ b_(i+5) ^ b_(i+6) ^ b_(i+7) ^ c_i
 * with c = 0x63, i.e. b ^ rotl(b,1) ^ rotl(b,2) ^ rotl(b,3) ^ rotl(b,4). */
static void
aes_sbox_init(void)
{
    int x;
    int y;

    if (aes_sbox_ready) {
        return;
    }
    for (x = 0; x < 256; x++) {
        uint8_t inv = 0;

        for (y = 1; y < 256; y++) {
            if (gf256_mul((uint8_t) x, (uint8_t) y) == 1) {
                inv = (uint8_t) y;
                break;
            }
        }
        aes_sbox[x] = (uint8_t) (inv ^ rotl8(inv, 1) ^ rotl8(inv, 2) ^
                                 rotl8(inv, 3) ^ rotl8(inv, 4) ^ 0x63);
    }
    aes_sbox_ready = 1;
}

/* The state is kept as the 16 bytes in input order: byte r + 4*c is row r,
 * column c (FIPS 197 section 3.4). */

static void
aes_SubBytes(uint8_t s[16])
{
    int i;

    for (i = 0; i < 16; i++) {
        s[i] = aes_sbox[s[i]];
    }
}

/* 5.1.2: row r is rotated left by r positions */
static void
aes_ShiftRows(uint8_t s[16])
{
    uint8_t t[16];
    int     r;
    int     c;

    for (r = 0; r < 4; r++) {
        for (c = 0; c < 4; c++) {
            t[r + 4 * c] = s[r + 4 * ((c + r) % 4)];
        }
    }
    copy_bytes(s, t, 16);
}

/* 5.1.3: each column multiplied by {03}x^3 + {01}x^2 + {01}x + {02} */
static void
aes_MixColumns(uint8_t s[16])
{
    int c;

    for (c = 0; c < 4; c++) {
        uint8_t s0 = s[4 * c + 0];
        uint8_t s1 = s[4 * c + 1];
        uint8_t s2 = s[4 * c + 2];
        uint8_t s3 = s[4 * c + 3];
        uint8_t d0 = gf256_xtime(s0); /* {02}*s0 */
        uint8_t d1 = gf256_xtime(s1);
        uint8_t d2 = gf256_xtime(s2);
        uint8_t d3 = gf256_xtime(s3);

        /* {03}*x = {02}*x ^ x */
        s[4 * c + 0] = (uint8_t) (d0 ^ (d1 ^ s1) ^ s2 ^ s3);
        s[4 * c + 1] = (uint8_t) (s0 ^ d1 ^ (d2 ^ s2) ^ s3);
        s[4 * c + 2] = (uint8_t) (s0 ^ s1 ^ d2 ^ (d3 ^ s3));
        s[4 * c + 3] = (uint8_t) ((d0 ^ s0) ^ s1 ^ s2 ^ d3);
    }
}

static void
aes_AddRoundKey(uint8_t s[16], const uint8_t rk[16])
{
    int i;

    for (i = 0; i < 16; i++) {
        s[i] ^= rk[i];
    }
}

/* 5.2: key expansion, Nk = 8, Nr = 14, Nb*(Nr+1) = 60 words = 240 bytes */
static void
aes256_key_expansion(uint8_t w[240], const uint8_t key[32])
{
    uint8_t temp[4];
    uint8_t t;
    uint8_t rcon = 0x01; /* Rcon[i/Nk] = x^(i/Nk - 1) */
    int     i;
    int     j;

    aes_sbox_init();
    for (i = 0; i < 32; i++) {
        w[i] = key[i];
    }
    for (i = 8; i < 60; i++) {
        for (j = 0; j < 4; j++) {
            temp[j] = w[4 * (i - 1) + j];
        }
        if (i % 8 == 0) {
            /* SubWord(RotWord(temp)) xor Rcon */
            t       = temp[0];
            temp[0] = aes_sbox[temp[1]];
            temp[1] = aes_sbox[temp[2]];
            temp[2] = aes_sbox[temp[3]];
            temp[3] = aes_sbox[t];
            temp[0] ^= rcon;
            rcon = gf256_xtime(rcon);
        } else if (i % 8 == 4) {
            /* Nk > 6: SubWord(temp) */
            for (j = 0; j < 4; j++) {
                temp[j] = aes_sbox[temp[j]];
            }
        }
        for (j = 0; j < 4; j++) {
            w[4 * i + j] = w[4 * (i - 8) + j] ^ temp[j];
        }
    }
}

/* 5.1: Cipher() with Nr = 14 */
static void
aes256_cipher(uint8_t out[16], const uint8_t in[16], const uint8_t w[240])
{
    uint8_t s[16];
    int     round;

    copy_bytes(s, in, 16);
    aes_AddRoundKey(s, w);
    for (round = 1; round <= 13; round++) {
        aes_SubBytes(s);
        aes_ShiftRows(s);
        aes_MixColumns(s);
        aes_AddRoundKey(s, w + 16 * round);
    }
    aes_SubBytes(s);
    aes_ShiftRows(s);
    aes_AddRoundKey(s, w + 16 * 14);
    copy_bytes(out, s, 16);
}

void
ref_aes256_encrypt_block(uint8_t out[16], const uint8_t in[16],
                         const uint8_t key[32])
{
    uint8_t w[240];

    aes256_key_expansion(w, key);
    aes256_cipher(out, in, w);
}

/* ------------------------------------------------------------------ */
/* AES-256-GCM (NIST SP 800-38D), len(IV) = 96, t = 128                 */
/* ------------------------------------------------------------------ */

/* 6.3, Algorithm 1: Z = X * Y in GF(2^128).  Blocks are held as two
 * big-endian 64-bit halves: bit 0 of the block (the leftmost bit, the
 * coefficient of x^0) is the most significant bit of hi.  R = 11100001 ||
 * 0^120. */
static void
gcm_mul(uint64_t *z_hi, uint64_t *z_lo, uint64_t x_hi, uint64_t x_lo,
        uint64_t y_hi, uint64_t y_lo)
{
    uint64_t Z_hi = 0, Z_lo = 0;
    uint64_t V_hi = y_hi, V_lo = y_lo;
    int      i;

    for (i = 0; i < 128; i++) {
        int xi; /* bit i of X, leftmost first */
        int lsb;

        if (i < 64) {
            xi = (int) ((x_hi >> (63 - i)) & 1);
        } else {
            xi = (int) ((x_lo >> (127 - i)) & 1);
        }
        if (xi) {
            Z_hi ^= V_hi;
            Z_lo ^= V_lo;
        }
        lsb  = (int) (V_lo & 1); /* rightmost bit of V */
        V_lo = (V_lo >> 1) | (V_hi << 63);
        V_hi = V_hi >> 1;
        if (lsb) {
            V_hi ^= 0xe100000000000000ULL;
        }
    }
    *z_hi = Z_hi;
    *z_lo = Z_lo;
}

/* 6.4, Algorithm 2: GHASH_H over a whole number of 16-byte blocks,
 * continuing from the running value Y */
static void
gcm_ghash_blocks(uint64_t *Y_hi, uint64_t *Y_lo, uint64_t H_hi, uint64_t H_lo,
                 const uint8_t *x, size_t nblocks)
{
    size_t i;

    for (i = 0; i < nblocks; i++) {
        uint64_t X_hi = load64_be(x + 16 * i);
        uint64_t X_lo = load64_be(x + 16 * i + 8);

        gcm_mul(Y_hi, Y_lo, *Y_hi ^ X_hi, *Y_lo ^ X_lo, H_hi, H_lo);
    }
}

/* 6.2: inc_32 - increment the rightmost 32 bits modulo 2^32 */
static void
gcm_inc32(uint8_t cb[16])
{
    uint32_t ctr = load32_be(cb + 12);

    ctr = ctr + 1U;
    store32_be(cb + 12, ctr);
}

void
ref_aes256gcm_encrypt(uint8_t *c, uint8_t tag[16], const uint8_t *m,
                      size_t mlen, const uint8_t *ad, size_t adlen,
                      const uint8_t npub[12], const uint8_t k[32])
{
    uint8_t  w[240];
    uint8_t  zero[16];
    uint8_t  Hblock[16];
    uint8_t  J0[16];
    uint8_t  CB[16];
    uint8_t  ks[16];
    uint8_t  lenblock[16];
    uint8_t  S[16];
    uint8_t *buf;
    uint64_t H_hi, H_lo;
    uint64_t Y_hi = 0, Y_lo = 0;
    size_t   ad_padded = (adlen + 15) / 16 * 16;
    size_t   c_padded  = (mlen + 15) / 16 * 16;
    size_t   i;
    size_t   j;

    aes256_key_expansion(w, k);

    /* 7.1 step 1: H = CIPH_K(0^128) */
    zero_bytes(zero, 16);
    aes256_cipher(Hblock, zero, w);
    H_hi = load64_be(Hblock);
    H_lo = load64_be(Hblock + 8);

    /* step 2: len(IV) = 96: J0 = IV || 0^31 || 1 */
    copy_bytes(J0, npub, 12);
    J0[12] = 0;
    J0[13] = 0;
    J0[14] = 0;
    J0[15] = 1;

    /* step 3: C = GCTR_K(inc32(J0), P)   (6.5, Algorithm 3) */
    copy_bytes(CB, J0, 16);
    for (i = 0; i < mlen; i += 16) {
        gcm_inc32(CB);
        aes256_cipher(ks, CB, w);
        for (j = 0; j < 16 && i + j < mlen; j++) {
            c[i + j] = m[i + j] ^ ks[j];
        }
    }

    /* steps 4-5: S = GHASH_H(A || 0^v || C || 0^u || [len(A)]64 ||
     * [len(C)]64), lengths in bits */
    buf = xmalloc(ad_padded + c_padded);
    zero_bytes(buf, ad_padded + c_padded);
    copy_bytes(buf, ad, adlen);
    copy_bytes(buf + ad_padded, c, mlen);
    gcm_ghash_blocks(&Y_hi, &Y_lo, H_hi, H_lo, buf,
                     (ad_padded + c_padded) / 16);
    free(buf);
    store64_be(lenblock, (uint64_t) adlen * 8U);
    store64_be(lenblock + 8, (uint64_t) mlen * 8U);
    gcm_ghash_blocks(&Y_hi, &Y_lo, H_hi, H_lo, lenblock, 1);
    store64_be(S, Y_hi);
    store64_be(S + 8, Y_lo);

    /* step 6: T = MSB_t(GCTR_K(J0, S)), t = 128 */
    aes256_cipher(ks, J0, w);
    for (j = 0; j < 16; j++) {
        tag[j] = S[j] ^ ks[j];
    }
}

/* ------------------------------------------------------------------ */
/* AEGIS (draft-irtf-cfrg-aegis-aead)                                  */
/* ------------------------------------------------------------------ */

/* AESRound(in, rk) = MixColumns(ShiftRows(SubBytes(in))) xor rk.
 * Works on a local copy, so out may alias in or rk. */
static void
aegis_AESRound(uint8_t out[16], const uint8_t in[16], const uint8_t rk[16])
{
    uint8_t s[16];

    copy_bytes(s, in, 16);
    aes_SubBytes(s);
    aes_ShiftRows(s);
    aes_MixColumns(s);
    aes_AddRoundKey(s, rk);
    copy_bytes(out, s, 16);
}

static void
xor16(uint8_t out[16], const uint8_t a[16], const uint8_t b[16])
{
    int i;

    for (i = 0; i < 16; i++) {
        out[i] = a[i] ^ b[i];
    }
}

static void
and16(uint8_t out[16], const uint8_t a[16], const uint8_t b[16])
{
    int i;

    for (i = 0; i < 16; i++) {
        out[i] = a[i] & b[i];
    }
}

/* Fibonacci-sequence constants */
static const uint8_t AEGIS_C0[16] = { 0x00, 0x01, 0x01, 0x02, 0x03, 0x05,
                                      0x08, 0x0d, 0x15, 0x22, 0x37, 0x59,
                                      0x90, 0xe9, 0x79, 0x62 };
static const uint8_t AEGIS_C1[16] = { 0xdb, 0x3d, 0x18, 0x55, 0x6d, 0xc2,
                                      0x2f, 0xf1, 0x20, 0x11, 0x31, 0x42,
                                      0x73, 0xb5, 0x28, 0xdd };

/* ZeroPad(x, n bytes): returns a fresh buffer, *padded_len its length */
static uint8_t *
aegis_zeropad(const uint8_t *x, size_t len, size_t n, size_t *padded_len)
{
    uint8_t *buf;
    size_t   plen = (len + n - 1) / n * n;

    buf = xmalloc(plen);
    zero_bytes(buf, plen);
    copy_bytes(buf, x, len);
    *padded_len = plen;
    return buf;
}

/* ---------------- AEGIS-128L ---------------- */

/* Update(M0, M1) */
static void
aegis128l_update(uint8_t S[8][16], const uint8_t M0[16], const uint8_t M1[16])
{
    uint8_t N[8][16];
    uint8_t t[16];
    int     i;

    xor16(t, S[0], M0);
    aegis_AESRound(N[0], S[7], t);
    aegis_AESRound(N[1], S[0], S[1]);
    aegis_AESRound(N[2], S[1], S[2]);
    aegis_AESRound(N[3], S[2], S[3]);
    xor16(t, S[4], M1);
    aegis_AESRound(N[4], S[3], t);
    aegis_AESRound(N[5], S[4], S[5]);
    aegis_AESRound(N[6], S[5], S[6]);
    aegis_AESRound(N[7], S[6], S[7]);
    for (i = 0; i < 8; i++) {
        copy_bytes(S[i], N[i], 16);
    }
}

static void
aegis128l_core(uint8_t *c, uint8_t *tag, size_t taglen, const uint8_t *m,
               size_t mlen, const uint8_t *ad, size_t adlen,
               const uint8_t nonce[16], const uint8_t key[16])
{
    uint8_t  S[8][16];
    uint8_t  z0[16], z1[16], t[16], u[16];
    uint8_t  out[32];
    uint8_t *buf;
    size_t   padded;
    size_t   i;
    size_t   j;

    aes_sbox_init();

    /* Init(key, nonce) */
    xor16(S[0], key, nonce);
    copy_bytes(S[1], AEGIS_C1, 16);
    copy_bytes(S[2], AEGIS_C0, 16);
    copy_bytes(S[3], AEGIS_C1, 16);
    xor16(S[4], key, nonce);
    xor16(S[5], key, AEGIS_C0);
    xor16(S[6], key, AEGIS_C1);
    xor16(S[7], key, AEGIS_C0);
    for (i = 0; i < 10; i++) {
        aegis128l_update(S, nonce, key);
    }

    /* Absorb(ZeroPad(ad, 256)) */
    buf = aegis_zeropad(ad, adlen, 32, &padded);
    for (i = 0; i < padded; i += 32) {
        aegis128l_update(S, buf + i, buf + i + 16);
    }
    free(buf);

    /* Enc(ZeroPad(msg, 256)), ciphertext truncated to |msg| */
    buf = aegis_zeropad(m, mlen, 32, &padded);
    for (i = 0; i < padded; i += 32) {
        /* z0 = S6 ^ S1 ^ (S2 & S3); z1 = S2 ^ S5 ^ (S6 & S7) */
        and16(t, S[2], S[3]);
        xor16(z0, S[6], S[1]);
        xor16(z0, z0, t);
        and16(t, S[6], S[7]);
        xor16(z1, S[2], S[5]);
        xor16(z1, z1, t);
        xor16(out, buf + i, z0);
        xor16(out + 16, buf + i + 16, z1);
        aegis128l_update(S, buf + i, buf + i + 16);
        for (j = 0; j < 32 && i + j < mlen; j++) {
            c[i + j] = out[j];
        }
    }
    free(buf);

    /* Finalize(ad_len_bits, msg_len_bits) */
    store64_le(u, (uint64_t) adlen * 8U);
    store64_le(u + 8, (uint64_t) mlen * 8U);
    xor16(t, S[2], u);
    for (i = 0; i < 7; i++) {
        aegis128l_update(S, t, t);
    }
    if (taglen == 16) {
        /* tag = S0 ^ S1 ^ S2 ^ S3 ^ S4 ^ S5 ^ S6 */
        copy_bytes(tag, S[0], 16);
        for (i = 1; i <= 6; i++) {
            xor16(tag, tag, S[i]);
        }
    } else {
        /* tag = (S0 ^ S1 ^ S2 ^ S3) || (S4 ^ S5 ^ S6 ^ S7) */
        copy_bytes(tag, S[0], 16);
        for (i = 1; i <= 3; i++) {
            xor16(tag, tag, S[i]);
        }
        copy_bytes(tag + 16, S[4], 16);
        for (i = 5; i <= 7; i++) {
            xor16(tag + 16, tag + 16, S[i]);
        }
    }
}

void
ref_aegis128l_encrypt(uint8_t *c, uint8_t tag[32], const uint8_t *m,
                      size_t mlen, const uint8_t *ad, size_t adlen,
                      const uint8_t npub[16], const uint8_t k[16])
{
    aegis128l_core(c, tag, 32, m, mlen, ad, adlen, npub, k);
}

void
ref_aegis128l_encrypt_tag16(uint8_t *c, uint8_t tag[16], const uint8_t *m,
                            size_t mlen, const uint8_t *ad, size_t adlen,
                            const uint8_t npub[16], const uint8_t k[16])
{
    aegis128l_core(c, tag, 16, m, mlen, ad, adlen, npub, k);
}

/* ---------------- AEGIS-256 ---------------- */

/* Update(M) */
static void
aegis256_update(uint8_t S[6][16], const uint8_t M[16])
{
    uint8_t N[6][16];
    uint8_t t[16];
    int     i;

    xor16(t, S[0], M);
    aegis_AESRound(N[0], S[5], t);
    aegis_AESRound(N[1], S[0], S[1]);
    aegis_AESRound(N[2], S[1], S[2]);
    aegis_AESRound(N[3], S[2], S[3]);
    aegis_AESRound(N[4], S[3], S[4]);
    aegis_AESRound(N[5], S[4], S[5]);
    for (i = 0; i < 6; i++) {
        copy_bytes(S[i], N[i], 16);
    }
}

static void
aegis256_core(uint8_t *c, uint8_t *tag, size_t taglen, const uint8_t *m,
              size_t mlen, const uint8_t *ad, size_t adlen,
              const uint8_t nonce[32], const uint8_t key[32])
{
    uint8_t        S[6][16];
    uint8_t        k0n0[16], k1n1[16];
    uint8_t        z[16], t[16], u[16];
    uint8_t        out[16];
    const uint8_t *k0 = key;
    const uint8_t *k1 = key + 16;
    const uint8_t *n0 = nonce;
    const uint8_t *n1 = nonce + 16;
    uint8_t       *buf;
    size_t         padded;
    size_t         i;
    size_t         j;

    aes_sbox_init();

    /* Init(key, nonce) */
    xor16(k0n0, k0, n0);
    xor16(k1n1, k1, n1);
    copy_bytes(S[0], k0n0, 16);
    copy_bytes(S[1], k1n1, 16);
    copy_bytes(S[2], AEGIS_C1, 16);
    copy_bytes(S[3], AEGIS_C0, 16);
    xor16(S[4], k0, AEGIS_C0);
    xor16(S[5], k1, AEGIS_C1);
    for (i = 0; i < 4; i++) {
        aegis256_update(S, k0);
        aegis256_update(S, k1);
        aegis256_update(S, k0n0);
        aegis256_update(S, k1n1);
    }

    /* Absorb(ZeroPad(ad, 128)) */
    buf = aegis_zeropad(ad, adlen, 16, &padded);
    for (i = 0; i < padded; i += 16) {
        aegis256_update(S, buf + i);
    }
    free(buf);

    /* Enc(ZeroPad(msg, 128)), ciphertext truncated to |msg| */
    buf = aegis_zeropad(m, mlen, 16, &padded);
    for (i = 0; i < padded; i += 16) {
        /* z = S1 ^ S4 ^ S5 ^ (S2 & S3) */
        and16(t, S[2], S[3]);
        xor16(z, S[1], S[4]);
        xor16(z, z, S[5]);
        xor16(z, z, t);
        xor16(out, buf + i, z);
        aegis256_update(S, buf + i);
        for (j = 0; j < 16 && i + j < mlen; j++) {
            c[i + j] = out[j];
        }
    }
    free(buf);

    /* Finalize(ad_len_bits, msg_len_bits) */
    store64_le(u, (uint64_t) adlen * 8U);
    store64_le(u + 8, (uint64_t) mlen * 8U);
    xor16(t, S[3], u);
    for (i = 0; i < 7; i++) {
        aegis256_update(S, t);
    }
    if (taglen == 16) {
        /* tag = S0 ^ S1 ^ S2 ^ S3 ^ S4 ^ S5 */
        copy_bytes(tag, S[0], 16);
        for (i = 1; i <= 5; i++) {
            xor16(tag, tag, S[i]);
        }
    } else {
        /* tag = (S0 ^ S1 ^ S2) || (S3 ^ S4 ^ S5) */
        copy_bytes(tag, S[0], 16);
        xor16(tag, tag, S[1]);
        xor16(tag, tag, S[2]);
        copy_bytes(tag + 16, S[3], 16);
        xor16(tag + 16, tag + 16, S[4]);
        xor16(tag + 16, tag + 16, S[5]);
    }
}

void
ref_aegis256_encrypt(uint8_t *c, uint8_t tag[32], const uint8_t *m,
                     size_t mlen, const uint8_t *ad, size_t adlen,
                     const uint8_t npub[32], const uint8_t k[32])
{
    aegis256_core(c, tag, 32, m, mlen, ad, adlen, npub, k);
}

void
ref_aegis256_encrypt_tag16(uint8_t *c, uint8_t tag[16], const uint8_t *m,
                           size_t mlen, const uint8_t *ad, size_t adlen,
                           const uint8_t npub[32], const uint8_t k[32])
{
    aegis256_core(c, tag, 16, m, mlen, ad, adlen, npub, k);
}
