/*
 * ref_argon2_selftest.c
 *
 *   1. RFC 9106 section 5 test vectors (Argon2d / Argon2i / Argon2id).
 *   2. Parameter validation of ref_argon2().
 *   3. Differential grid against OpenSSL's EVP_KDF ARGON2D/ARGON2I/ARGON2ID.
 *   4. Timing of a 1 MiB, t=3 hash.
 *
 * Build (OpenSSL >= 3.2 is needed for Argon2; here it is in /root/miniconda):
 *   cc -O2 -Wall -Wextra -I/root/miniconda/include ref_argon2.c \
 *      ref_argon2_selftest.c -L/root/miniconda/lib -Wl,-rpath,/root/miniconda/lib -lcrypto
 */
#include <stdio.h>
#include <stdlib.h>
#include <string.h>
#include <time.h>

#include <openssl/core_names.h>
#include <openssl/evp.h>
#include <openssl/kdf.h>
#include <openssl/params.h>

#include "ref_argon2.h"

/* Argon2 arrived in OpenSSL 3.2.  On this machine /usr/include/openssl is
 * 3.0.x while the 3.5 installation lives in /root/miniconda; allow compiling
 * against old headers (the fetch then fails at run time and we say so). */
#ifndef OSSL_KDF_PARAM_ARGON2_AD
# define OSSL_KDF_PARAM_ARGON2_AD "ad"
#endif
#ifndef OSSL_KDF_PARAM_ARGON2_LANES
# define OSSL_KDF_PARAM_ARGON2_LANES "lanes"
#endif
#ifndef OSSL_KDF_PARAM_ARGON2_MEMCOST
# define OSSL_KDF_PARAM_ARGON2_MEMCOST "memcost"
#endif
#ifndef OSSL_KDF_PARAM_ARGON2_VERSION
# define OSSL_KDF_PARAM_ARGON2_VERSION "version"
#endif
#ifndef OSSL_KDF_PARAM_THREADS
# define OSSL_KDF_PARAM_THREADS "threads"
#endif

static unsigned long n_cases  = 0;
static unsigned long n_skipped = 0;
static int           failed    = 0;

static void
hexdump(const char *label, const uint8_t *p, size_t n)
{
    size_t i;

    fprintf(stderr, "  %s: ", label);
    for (i = 0; i < n && i < 64; i++) {
        fprintf(stderr, "%02x", p[i]);
    }
    fprintf(stderr, "%s\n", n > 64 ? "..." : "");
}

/* ---------------------------------------------------------------------- */
/* RFC 9106 section 5                                                      */
/* ---------------------------------------------------------------------- */

static const uint8_t rfc_tag_d[32] = {
    0x51, 0x2b, 0x39, 0x1b, 0x6f, 0x11, 0x62, 0x97, 0x53, 0x71, 0xd3,
    0x09, 0x19, 0x73, 0x42, 0x94, 0xf8, 0x68, 0xe3, 0xbe, 0x39, 0x84,
    0xf3, 0xc1, 0xa1, 0x3a, 0x4d, 0xb9, 0xfa, 0xbe, 0x4a, 0xcb
};
static const uint8_t rfc_tag_i[32] = {
    0xc8, 0x14, 0xd9, 0xd1, 0xdc, 0x7f, 0x37, 0xaa, 0x13, 0xf0, 0xd7,
    0x7f, 0x24, 0x94, 0xbd, 0xa1, 0xc8, 0xde, 0x6b, 0x01, 0x6d, 0xd3,
    0x88, 0xd2, 0x99, 0x52, 0xa4, 0xc4, 0x67, 0x2b, 0x6c, 0xe8
};
static const uint8_t rfc_tag_id[32] = {
    0x0d, 0x64, 0x0d, 0xf5, 0x8d, 0x78, 0x76, 0x6c, 0x08, 0xc0, 0x37,
    0xa3, 0x4a, 0x8b, 0x53, 0xc9, 0xd0, 0x1e, 0xf0, 0x45, 0x2d, 0x75,
    0xb6, 0x5e, 0xb5, 0x25, 0x20, 0xe9, 0x6b, 0x01, 0xe6, 0x59
};

static void
test_rfc_vectors(void)
{
    uint8_t pwd[32], salt[16], secret[8], ad[12], out[32];
    static const struct {
        int            type;
        const char    *name;
        const uint8_t *tag;
    } tv[3] = { { REF_ARGON2_D, "Argon2d", rfc_tag_d },
                { REF_ARGON2_I, "Argon2i", rfc_tag_i },
                { REF_ARGON2_ID, "Argon2id", rfc_tag_id } };
    int i;

    memset(pwd, 1, sizeof pwd);
    memset(salt, 2, sizeof salt);
    memset(secret, 3, sizeof secret);
    memset(ad, 4, sizeof ad);
    for (i = 0; i < 3; i++) {
        memset(out, 0, sizeof out);
        if (ref_argon2(tv[i].type, out, 32, pwd, 32, salt, 16, secret, 8, ad,
                       12, 3, 32, 4) != 0 ||
            memcmp(out, tv[i].tag, 32) != 0) {
            fprintf(stderr, "FAIL: RFC 9106 vector %s\n", tv[i].name);
            hexdump("got ", out, 32);
            hexdump("want", tv[i].tag, 32);
            failed = 1;
        }
        n_cases++;
    }
}

/* ---------------------------------------------------------------------- */
/* parameter validation                                                    */
/* ---------------------------------------------------------------------- */

#define EXPECT(cond)                                                   \
    do {                                                               \
        n_cases++;                                                     \
        if (!(cond)) {                                                 \
            fprintf(stderr, "FAIL line %d: %s\n", __LINE__, #cond);    \
            failed = 1;                                                \
        }                                                              \
    } while (0)

static void
test_validation(void)
{
    uint8_t out[64], salt[16] = { 0 }, pwd[4] = { 1, 2, 3, 4 };
    uint8_t out2[64];

    EXPECT(ref_argon2(3, out, 32, pwd, 4, salt, 16, NULL, 0, NULL, 0, 1, 8, 1) == -1);
    EXPECT(ref_argon2(-1, out, 32, pwd, 4, salt, 16, NULL, 0, NULL, 0, 1, 8, 1) == -1);
    EXPECT(ref_argon2(2, out, 3, pwd, 4, salt, 16, NULL, 0, NULL, 0, 1, 8, 1) == -1);
    EXPECT(ref_argon2(2, out, 4, pwd, 4, salt, 16, NULL, 0, NULL, 0, 1, 8, 1) == 0);
    EXPECT(ref_argon2(2, out, 32, pwd, 4, salt, 16, NULL, 0, NULL, 0, 0, 8, 1) == -1);
    EXPECT(ref_argon2(2, out, 32, pwd, 4, salt, 16, NULL, 0, NULL, 0, 1, 7, 1) == -1);
    EXPECT(ref_argon2(2, out, 32, pwd, 4, salt, 16, NULL, 0, NULL, 0, 1, 15, 2) == -1);
    EXPECT(ref_argon2(2, out, 32, pwd, 4, salt, 16, NULL, 0, NULL, 0, 1, 16, 2) == 0);
    EXPECT(ref_argon2(2, out, 32, pwd, 4, salt, 16, NULL, 0, NULL, 0, 1, 8, 0) == -1);
    EXPECT(ref_argon2(2, out, 32, pwd, 4, salt, 16, NULL, 0, NULL, 0, 1, 0xffffffffU, 0x1000000U) == -1);
    EXPECT(ref_argon2(2, out, 32, NULL, 4, salt, 16, NULL, 0, NULL, 0, 1, 8, 1) == -1);
    EXPECT(ref_argon2(2, NULL, 32, pwd, 4, salt, 16, NULL, 0, NULL, 0, 1, 8, 1) == -1);
    /* NULL pointer with zero length is fine, and equals empty string */
    EXPECT(ref_argon2(2, out, 32, NULL, 0, salt, 16, NULL, 0, NULL, 0, 1, 8, 1) == 0);
    EXPECT(ref_argon2(2, out2, 32, pwd, 0, salt, 16, pwd, 0, pwd, 0, 1, 8, 1) == 0);
    EXPECT(memcmp(out, out2, 32) == 0);
    /* m and m+1..m+3 use the same m' but must hash differently (m is in H0) */
    EXPECT(ref_argon2(2, out, 32, pwd, 4, salt, 16, NULL, 0, NULL, 0, 1, 8, 1) == 0);
    EXPECT(ref_argon2(2, out2, 32, pwd, 4, salt, 16, NULL, 0, NULL, 0, 1, 9, 1) == 0);
    EXPECT(memcmp(out, out2, 32) != 0);
    /* a tag is not a prefix of a longer tag (T is hashed) */
    EXPECT(ref_argon2(2, out2, 64, pwd, 4, salt, 16, NULL, 0, NULL, 0, 1, 8, 1) == 0);
    EXPECT(memcmp(out, out2, 32) != 0);
}

/* ---------------------------------------------------------------------- */
/* OpenSSL differential                                                    */
/* ---------------------------------------------------------------------- */

static const char *ossl_names[3] = { "ARGON2D", "ARGON2I", "ARGON2ID" };
static EVP_KDF    *ossl_kdf[3];

/* returns 0 ok, -1 OpenSSL refused */
static int
ossl_argon2(int type, uint8_t *out, uint32_t outlen, const uint8_t *pwd,
            uint32_t pwdlen, const uint8_t *salt, uint32_t saltlen,
            const uint8_t *secret, uint32_t secretlen, const uint8_t *ad,
            uint32_t adlen, uint32_t t, uint32_t m, uint32_t lanes)
{
    EVP_KDF_CTX *kctx;
    OSSL_PARAM   params[12], *p = params;
    uint32_t     threads = 1, version = 0x13;
    int          ret;
    static uint8_t dummy[1];

    kctx = EVP_KDF_CTX_new(ossl_kdf[type]);
    if (kctx == NULL) {
        return -1;
    }
    *p++ = OSSL_PARAM_construct_octet_string(OSSL_KDF_PARAM_PASSWORD,
                                             pwdlen ? (void *) pwd : dummy, pwdlen);
    *p++ = OSSL_PARAM_construct_octet_string(OSSL_KDF_PARAM_SALT,
                                             (void *) salt, saltlen);
    if (secretlen) {
        *p++ = OSSL_PARAM_construct_octet_string(OSSL_KDF_PARAM_SECRET,
                                                 (void *) secret, secretlen);
    }
    if (adlen) {
        *p++ = OSSL_PARAM_construct_octet_string(OSSL_KDF_PARAM_ARGON2_AD,
                                                 (void *) ad, adlen);
    }
    *p++ = OSSL_PARAM_construct_uint32(OSSL_KDF_PARAM_ITER, &t);
    *p++ = OSSL_PARAM_construct_uint32(OSSL_KDF_PARAM_ARGON2_MEMCOST, &m);
    *p++ = OSSL_PARAM_construct_uint32(OSSL_KDF_PARAM_ARGON2_LANES, &lanes);
    *p++ = OSSL_PARAM_construct_uint32(OSSL_KDF_PARAM_THREADS, &threads);
    *p++ = OSSL_PARAM_construct_uint32(OSSL_KDF_PARAM_ARGON2_VERSION, &version);
    *p++ = OSSL_PARAM_construct_end();

    ret = EVP_KDF_derive(kctx, out, outlen, params);
    EVP_KDF_CTX_free(kctx);
    return ret == 1 ? 0 : -1;
}

static uint64_t rng_state = 0x9e3779b97f4a7c15ULL;

static void
fill_random(uint8_t *p, size_t n)
{
    size_t i;

    for (i = 0; i < n; i++) {
        /* splitmix64 */
        uint64_t z = (rng_state += 0x9e3779b97f4a7c15ULL);

        z    = (z ^ (z >> 30)) * 0xbf58476d1ce4e5b9ULL;
        z    = (z ^ (z >> 27)) * 0x94d049bb133111ebULL;
        p[i] = (uint8_t) ((z ^ (z >> 31)) >> 24);
    }
}

static int
test_openssl_grid(void)
{
    static const uint32_t outlens[] = { 4, 16, 32, 33, 63, 64, 65, 128, 1024 };
    static const uint32_t pwdlens[] = { 0, 1, 8, 64, 200 };
    static const uint32_t lanesv[]  = { 1, 2, 4 };
    uint32_t ms[64];
    size_t   nm = 0;
    uint32_t m;
    size_t   im, io, ip, il;
    uint32_t t;
    int      type;
    uint8_t  pwd[200], salt[16], secret[32], ad[40];
    uint8_t  a[1024], b[1024];
    unsigned long counter = 0;
    unsigned long refused_pwd0 = 0;
    /* REF_ARGON2_QUICK=1: run every 16th grid case only (about 1.5 s) */
    int           quick = getenv("REF_ARGON2_QUICK") != NULL;

    for (type = 0; type < 3; type++) {
        ossl_kdf[type] = EVP_KDF_fetch(NULL, ossl_names[type], NULL);
        if (ossl_kdf[type] == NULL) {
            fprintf(stderr,
                    "NOTE: OpenSSL EVP_KDF %s is unavailable in this build; "
                    "differential grid NOT run\n",
                    ossl_names[type]);
            return -1;
        }
    }
    for (m = 8; m <= 64; m++) {
        ms[nm++] = m;
    }
    ms[nm++] = 100;
    ms[nm++] = 128;
    ms[nm++] = 255;
    ms[nm++] = 256;

    for (type = 0; type < 3; type++)
    for (im = 0; im < nm; im++)
    for (t = 1; t <= 4; t++)
    for (io = 0; io < sizeof outlens / sizeof outlens[0]; io++)
    for (ip = 0; ip < sizeof pwdlens / sizeof pwdlens[0]; ip++)
    for (il = 0; il < sizeof lanesv / sizeof lanesv[0]; il++) {
        uint32_t outlen = outlens[io], pwdlen = pwdlens[ip], p = lanesv[il];
        uint32_t secretlen, adlen;
        int      r1, r2;

        m = ms[im];
        if (m < 8 * p) {
            continue; /* invalid for this lane count */
        }
        counter++;
        if (quick && counter % 16 != 0) {
            /* keep the random stream identical to the full run */
            fill_random(pwd, pwdlens[ip]);
            fill_random(salt, sizeof salt);
            fill_random(secret, (counter % 3 == 0) ? counter % 33 : 0);
            fill_random(ad, (counter % 5 == 0) ? counter % 41 : 0);
            continue;
        }
        /* exercise secret / AD on part of the grid */
        secretlen = (counter % 3 == 0) ? (uint32_t) (counter % 33) : 0;
        adlen     = (counter % 5 == 0) ? (uint32_t) (counter % 41) : 0;
        fill_random(pwd, pwdlen);
        fill_random(salt, sizeof salt);
        fill_random(secret, secretlen);
        fill_random(ad, adlen);

        memset(a, 0xaa, outlen);
        memset(b, 0xbb, outlen);
        r1 = ref_argon2(type, a, outlen, pwd, pwdlen, salt, 16, secret,
                        secretlen, ad, adlen, t, m, p);
        r2 = ossl_argon2(type, b, outlen, pwd, pwdlen, salt, 16, secret,
                         secretlen, ad, adlen, t, m, p);
        if (r2 != 0 && pwdlen == 0) {
            refused_pwd0++;
            n_skipped++;
            continue;
        }
        n_cases++;
        if (r1 != 0 || r2 != 0 || memcmp(a, b, outlen) != 0) {
            fprintf(stderr,
                    "FAIL: %s m=%u t=%u p=%u outlen=%u pwdlen=%u "
                    "secretlen=%u adlen=%u (ref rc=%d, openssl rc=%d)\n",
                    ossl_names[type], m, t, p, outlen, pwdlen, secretlen,
                    adlen, r1, r2);
            hexdump("ref    ", a, outlen);
            hexdump("openssl", b, outlen);
            failed = 1;
            return 0; /* stop at the first mismatch */
        }
    }
    if (refused_pwd0) {
        fprintf(stderr,
                "NOTE: OpenSSL refused %lu cases with an empty password; "
                "those were skipped\n",
                refused_pwd0);
    }
    for (type = 0; type < 3; type++) {
        EVP_KDF_free(ossl_kdf[type]);
    }
    return 0;
}

/* ---------------------------------------------------------------------- */

static double
now_ms(void)
{
    struct timespec ts;

    clock_gettime(CLOCK_MONOTONIC, &ts);
    return ts.tv_sec * 1e3 + ts.tv_nsec / 1e6;
}

int
main(void)
{
    uint8_t out[32], salt[16] = { 0 };
    double  t0, t1, tg0, tg1;
    int     have_ossl;

    test_rfc_vectors();
    test_validation();

    tg0       = now_ms();
    have_ossl = test_openssl_grid();
    tg1       = now_ms();

    t0 = now_ms();
    if (ref_argon2(REF_ARGON2_ID, out, 32, (const uint8_t *) "password", 8,
                   salt, 16, NULL, 0, NULL, 0, 3, 1024, 1) != 0) {
        failed = 1;
    }
    t1 = now_ms();
    fprintf(stderr, "timing: 1 MiB t=3 p=1 Argon2id: %.2f ms; grid: %.0f ms\n",
            t1 - t0, tg1 - tg0);

    if (failed) {
        printf("ref_argon2 selftest FAILED\n");
        return 1;
    }
    if (have_ossl != 0) {
        /* deliberately not "OK": the differential part did not happen */
        printf("ref_argon2 selftest PARTIAL (%lu cases, OpenSSL grid NOT run)\n",
               n_cases);
        return 2;
    }
    if (n_skipped) {
        fprintf(stderr, "skipped: %lu\n", n_skipped);
    }
    printf("ref_argon2 selftest OK (%lu cases)\n", n_cases);
    return 0;
}
