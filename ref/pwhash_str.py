#!/usr/bin/python3
"""
pwhash_str.py - independent reference codecs for password-hash *strings*.

  * Argon2 PHC strings  "$argon2id$v=19$m=..,t=..,p=..$<salt>$<hash>"
  * escrypt "$7$" strings as produced by
    crypto_pwhash_scryptsalsa208sha256_str()

Pure Python 3 standard library.  Written from the Argon2 specification / PHC
string format description and from the *format facts* of the escrypt "$7$"
encoding; no code was taken from the library under test.

Self test:  /usr/bin/python3 pwhash_str.py   ->  "pwhash_str selftest OK"

-------------------------------------------------------------------------------
Argon2 string grammar implemented by argon2_parse()  (STRICT)
-------------------------------------------------------------------------------

    string  = "$" type "$v=" num "$m=" num ",t=" num ",p=" num
              "$" b64 "$" b64                                  <end of input>
    type    = "argon2d" / "argon2i" / "argon2id"               (case sensitive)
    num     = "0" / ( %x31-39 *DIGIT )          ; no sign, no leading zero
    b64     = *( ALPHA / DIGIT / "+" / "/" )    ; RFC 4648 alphabet, NO padding

Decisions taken where the grammar / the reference decoder leave room
(every one of them is a place where an implementation might legitimately
differ, so harnesses should look here first on a disagreement):

 D1  Version field.  The Argon2 reference decoder treats "$v=<num>" as
     optional and assumes version 0x10 when it is absent.  This parser
     REQUIRES it and requires the value to be exactly 19 (0x13): strings
     without "v=", with v=16, or with any other value are rejected.

 D2  Decimal numbers follow the reference decoder's rule: at least one digit,
     digits only (no "+", "-", blanks), and no leading zero unless the number
     is the single digit "0".  So "m=08", "t=00", "p=01" are malformed.  "0"
     is well-formed *syntax*; whether 0 is an acceptable *value* is decided
     by D4 (it never is for v, m, t, p under validate=True, hence "t=0" is
     rejected there but accepted with validate=False).

 D3  Numeric range: every number must fit an unsigned 32-bit integer
     (<= 4294967295); larger values are malformed, not wrapped.  Together
     with D2 this bounds a number to 10 digits.

 D4  Semantic validation (validate=True, the default) mirrors the parameter
     check that the reference decoder runs on the decoded context and the
     limits of RFC 9106 section 3.1:
         t >= 1,  1 <= p <= 2^24-1,  m >= 8*p,
         len(salt) >= 8   (reference implementation minimum; RFC 9106 itself
                           allows shorter salts but recommends 16),
         len(hash) >= 4.
     With validate=False only the syntax (D1-D3, D5-D9) is enforced.
     The two length minimums are parameters (min_salt, min_hash) because
     they are implementation policy: observed on the library under test
     (ctypes differential, 2026-10), crypto_pwhash_str_verify() refuses
     hashes shorter than 16 bytes (its BYTES_MIN) where RFC 9106 and the
     reference decoder allow 4; use min_hash=16 to model that API.  With
     that single adjustment 41k mutated strings gave identical verdicts.
     No upper bound is placed on salt/hash length: real decoders are limited
     by their output buffers (e.g. a fixed maximum string length), which is
     an API property, not a grammar property.

 D5  Field order and separators are fixed: m, t, p in exactly this order,
     separated by single commas, no repeated, missing or extra parameters.
     The optional "keyid=" / "data=" parameters of the early PHC draft are
     NOT accepted (the current reference decoder does not accept them
     either).

 D6  Base64 is the standard alphabet (A-Z a-z 0-9 + /), unpadded.
     "=" is never accepted, not even where padding would be "correct".
     URL-safe characters "-" "_", white space and any other byte are
     malformed (nothing is skipped or ignored).

 D7  Base64 canonicity: a length of 1 mod 4 is malformed (6 dangling bits
     cannot form a byte) and the unused low bits of the last character
     (4 bits when len%4==2, 2 bits when len%4==3) must be zero.  Hence every
     accepted string is the unique encoding of its (salt, hash) and
     argon2_encode(**argon2_parse(s)) == s.

 D8  Empty salt or hash fields ("$$") are syntactically a valid b64 of zero
     bytes; they are rejected by D4 under validate=True and accepted with
     validate=False.

 D9  End of input: nothing may follow the hash - no "$", no newline, no NUL.
     A NUL byte anywhere in the input makes it malformed.  (A C API taking a
     NUL-terminated string cannot see anything after the first NUL, so a
     harness must not compare on such inputs: C sees the truncated string.)
     Bytes >= 0x80 are malformed wherever they appear.

 D10 The type is matched as the whole text between the first and the second
     "$", so "argon2id" is never mis-parsed as "argon2i" + "d...".
     argon2_parse() accepts all three types; pass expect_type to insist on
     one (an API bound to one variant rejects the others).

 D11 Input may be bytes or str; a str that is not pure ASCII is malformed.

-------------------------------------------------------------------------------
escrypt "$7$" format
-------------------------------------------------------------------------------

    "$7$" N_log2(1 char) r(5 chars) p(5 chars) salt "$" hash(43 chars)

  * alphabet itoa64 = "./0123456789ABCDEFGHIJKLMNOPQRSTUVWXYZabcdefghijklmnopqrstuvwxyz"
  * integers: little-endian base 64, least significant 6 bits first;
    r and p are 30-bit values in 5 characters, N_log2 is one character.
  * byte strings: groups of 3 bytes form a 24-bit little-endian value that is
    written as 4 characters (low 6 bits first); a final group of 1 byte
    gives 2 characters, of 2 bytes 3 characters.  32 bytes -> 43 characters.
  * The salt handed to scrypt is the salt *text* as it appears in the string
    (the bytes between the parameters and the LAST "$"), not its decoding.
    Consequently the salt field may hold arbitrary non-NUL bytes - including
    "$" - as far as the format is concerned.
  * libsodium: salt text is the encoding of 32 random bytes = 43 characters,
    so a full string is 3+1+5+5+43+1+43 = 101 characters.

Decisions for scrypt7_parse():

 S1  With libsodium=True (default) the string must be exactly 101 bytes and
     the last "$" must be at offset 57 (salt text of 43 bytes).  The salt
     text is NOT required to consist of itoa64 characters: verification works
     by recomputation and comparison, which does not care.  'salt_is_itoa64'
     in the result tells whether it does.  With libsodium=False any salt
     length (including 0) is accepted.
 S2  The hash must be 43 itoa64 characters whose decoding is canonical
     (the two unused top bits of the last 3-character group are zero);
     otherwise a recompute-and-compare verifier can never match, so the
     string is reported as malformed.
 S3  Parameter sanity (N_log2 >= 1, r >= 1, p >= 1, r*p < 2^30; RFC 7914
     section 2 / 6) is reported in 'params_valid' rather than making the parse
     fail, because it is a property of scrypt, not of the string syntax.
     scrypt7_hash() returns None for invalid parameters.
 S4  No NUL byte anywhere (C string semantics).
"""

import atexit
import base64
import ctypes
import hashlib
import os
import shutil
import subprocess
import sys
import tempfile

# --------------------------------------------------------------------------
# Argon2 PHC strings
# --------------------------------------------------------------------------

ARGON2_D, ARGON2_I, ARGON2_ID = 0, 1, 2
_A2_NAMES = {ARGON2_D: "argon2d", ARGON2_I: "argon2i", ARGON2_ID: "argon2id"}
_A2_CODES = {v: k for k, v in _A2_NAMES.items()}

_B64_ALPHABET = (b"ABCDEFGHIJKLMNOPQRSTUVWXYZabcdefghijklmnopqrstuvwxyz"
                 b"0123456789+/")
_B64_VALUE = {c: i for i, c in enumerate(_B64_ALPHABET)}


def _type_code(t):
    if isinstance(t, str):
        if t not in _A2_CODES:
            raise ValueError("unknown Argon2 type %r" % (t,))
        return _A2_CODES[t]
    if t not in _A2_NAMES:
        raise ValueError("unknown Argon2 type %r" % (t,))
    return t


def b64_encode_nopad(data: bytes) -> str:
    """RFC 4648 standard alphabet, padding removed."""
    out = []
    for i in range(0, len(data), 3):
        chunk = data[i:i + 3]
        acc = int.from_bytes(chunk + b"\0" * (3 - len(chunk)), "big")
        chars = [_B64_ALPHABET[(acc >> s) & 63] for s in (18, 12, 6, 0)]
        out.extend(chars[:len(chunk) + 1])
    return bytes(out).decode("ascii")


def b64_decode_nopad_strict(text: bytes):
    """Inverse of b64_encode_nopad; None unless `text` is the canonical
    unpadded encoding of some byte string (decisions D6, D7)."""
    n = len(text)
    if n % 4 == 1:
        return None
    acc = 0
    bits = 0
    out = bytearray()
    for c in text:
        v = _B64_VALUE.get(c)
        if v is None:
            return None
        acc = (acc << 6) | v
        bits += 6
        if bits >= 8:
            bits -= 8
            out.append((acc >> bits) & 0xFF)
            acc &= (1 << bits) - 1
    if acc != 0:          # non-zero trailing bits
        return None
    return bytes(out)


def argon2_encode(type, t, m, p, salt: bytes, hash: bytes) -> str:
    """Standard PHC encoding, version 19.  `type` is 0/1/2 (d/i/id) or the
    name.  No validation of the numeric values beyond 0 <= x < 2^32."""
    code = _type_code(type)
    for x in (t, m, p):
        if not (isinstance(x, int) and 0 <= x <= 0xFFFFFFFF):
            raise ValueError("parameter out of range")
    return "$%s$v=19$m=%d,t=%d,p=%d$%s$%s" % (
        _A2_NAMES[code], m, t, p,
        b64_encode_nopad(bytes(salt)), b64_encode_nopad(bytes(hash)))


def _parse_decimal(field: bytes):
    """D2, D3: canonical unsigned decimal fitting 32 bits, else None."""
    if len(field) == 0 or len(field) > 10:
        return None
    for c in field:
        if not (0x30 <= c <= 0x39):
            return None
    if field[0] == 0x30 and len(field) != 1:
        return None
    v = int(field.decode("ascii"))
    if v > 0xFFFFFFFF:
        return None
    return v


def argon2_parse(s, validate=True, expect_type=None, min_salt=8, min_hash=4):
    """Strict parser; returns dict(type, type_name, v, m, t, p, salt, hash)
    or None.  `type` is 0/1/2 for Argon2 d/i/id.  See module docstring for
    the grammar and decisions D1..D11 (min_salt/min_hash: D4)."""
    if isinstance(s, str):
        try:
            s = s.encode("ascii")                      # D11
        except UnicodeEncodeError:
            return None
    s = bytes(s)
    if b"\0" in s or any(c >= 0x80 for c in s):        # D9
        return None
    parts = s.split(b"$")
    # "" type v=.. m=..,t=..,p=.. salt hash   -> exactly 6 pieces; a trailing
    # "$" or any extra field changes the count (D5, D9)
    if len(parts) != 6 or parts[0] != b"":
        return None
    _, typ, ver, params, salt_b64, hash_b64 = parts

    try:
        type_name = typ.decode("ascii")
    except UnicodeDecodeError:
        return None
    if type_name not in _A2_CODES:                     # D10
        return None
    code = _A2_CODES[type_name]
    if expect_type is not None and _type_code(expect_type) != code:
        return None

    if not ver.startswith(b"v="):                      # D1
        return None
    v = _parse_decimal(ver[2:])
    if v is None or v != 19:
        return None

    fields = params.split(b",")                        # D5
    if len(fields) != 3:
        return None
    values = []
    for field, key in zip(fields, (b"m=", b"t=", b"p=")):
        if not field.startswith(key):
            return None
        x = _parse_decimal(field[2:])
        if x is None:
            return None
        values.append(x)
    m, t, p = values

    salt = b64_decode_nopad_strict(salt_b64)           # D6, D7
    if salt is None:
        return None
    digest = b64_decode_nopad_strict(hash_b64)
    if digest is None:
        return None

    if validate:                                       # D4
        if t < 1:
            return None
        if p < 1 or p > 0xFFFFFF:
            return None
        if m < 8 * p:
            return None
        if len(salt) < min_salt:
            return None
        if len(digest) < min_hash:
            return None

    return dict(type=code, type_name=type_name, v=v, m=m, t=t, p=p,
                salt=salt, hash=digest)


# --------------------------------------------------------------------------
# C reference (ref_argon2.c) through ctypes
# --------------------------------------------------------------------------

_ref_lib = None


def load_ref_argon2(so_path=None):
    """Load (building it first if necessary) the shared object made from
    ref_argon2.c that lives next to this file.  $REF_ARGON2_SO or `so_path`
    select an existing object."""
    global _ref_lib
    if _ref_lib is not None and so_path is None:
        return _ref_lib
    so_path = so_path or os.environ.get("REF_ARGON2_SO")
    if not so_path:
        here = os.path.dirname(os.path.abspath(__file__))
        src = os.path.join(here, "ref_argon2.c")
        tmpdir = tempfile.mkdtemp(prefix="ref_argon2_")
        atexit.register(shutil.rmtree, tmpdir, True)
        so_path = os.path.join(tmpdir, "libref_argon2.so")
        cc = os.environ.get("CC", "cc")
        subprocess.check_call([cc, "-O2", "-Wall", "-Wextra", "-shared",
                               "-fPIC", "-o", so_path, src])
    lib = ctypes.CDLL(so_path)
    u8p, u32 = ctypes.c_char_p, ctypes.c_uint32
    lib.ref_argon2.restype = ctypes.c_int
    lib.ref_argon2.argtypes = [ctypes.c_int, ctypes.c_char_p, u32,
                               u8p, u32, u8p, u32, u8p, u32, u8p, u32,
                               u32, u32, u32]
    _ref_lib = lib
    return lib


def argon2_raw(type, passwd: bytes, salt: bytes, t, m, p, outlen,
               secret=b"", ad=b""):
    """Raw Argon2 v1.3 tag from the C reference; None on invalid params."""
    lib = load_ref_argon2()
    out = ctypes.create_string_buffer(outlen if outlen > 0 else 1)
    rc = lib.ref_argon2(_type_code(type), ctypes.cast(out, ctypes.c_char_p),
                        outlen, passwd, len(passwd), salt, len(salt),
                        secret, len(secret), ad, len(ad), t, m, p)
    if rc != 0:
        return None
    return out.raw[:outlen]


def argon2_str_verify(s, passwd: bytes, expect_type=None, min_salt=8,
                      min_hash=4) -> bool:
    """Reference verdict for verifying `passwd` against PHC string `s`:
    strict parse + recompute + compare."""
    d = argon2_parse(s, validate=True, expect_type=expect_type,
                     min_salt=min_salt, min_hash=min_hash)
    if d is None:
        return False
    tag = argon2_raw(d["type"], passwd, d["salt"], d["t"], d["m"], d["p"],
                     len(d["hash"]))
    return tag is not None and tag == d["hash"]


# --------------------------------------------------------------------------
# escrypt "$7$"
# --------------------------------------------------------------------------

ITOA64 = b"./0123456789ABCDEFGHIJKLMNOPQRSTUVWXYZabcdefghijklmnopqrstuvwxyz"
_ITOA64_VALUE = {c: i for i, c in enumerate(ITOA64)}

SCRYPT7_SALT_CHARS = 43      # libsodium: 32 random bytes, encoded
SCRYPT7_HASH_BYTES = 32
SCRYPT7_HASH_CHARS = 43
SCRYPT7_PREFIX_CHARS = 3 + 1 + 5 + 5
SCRYPT7_STR_CHARS = SCRYPT7_PREFIX_CHARS + SCRYPT7_SALT_CHARS + 1 + \
    SCRYPT7_HASH_CHARS       # 101


class ScryptTooBig(Exception):
    """Parameters are valid but cannot be computed by this oracle."""


def itoa64_encode_uint(value: int, bits: int) -> bytes:
    out = bytearray()
    for _ in range(0, bits, 6):
        out.append(ITOA64[value & 63])
        value >>= 6
    return bytes(out)


def itoa64_decode_uint(text: bytes):
    """little-endian base-64 digits -> int, None on a foreign character"""
    value = 0
    for i, c in enumerate(text):
        v = _ITOA64_VALUE.get(c)
        if v is None:
            return None
        value |= v << (6 * i)
    return value


def itoa64_encode_bytes(data: bytes) -> bytes:
    out = bytearray()
    for i in range(0, len(data), 3):
        chunk = data[i:i + 3]
        out += itoa64_encode_uint(int.from_bytes(chunk, "little"),
                                  8 * len(chunk))
    return bytes(out)


def itoa64_decode_bytes(text: bytes):
    """Inverse of itoa64_encode_bytes; None if not canonical."""
    out = bytearray()
    for i in range(0, len(text), 4):
        group = text[i:i + 4]
        if len(group) == 1:
            return None
        nbytes = len(group) - 1
        value = itoa64_decode_uint(group)
        if value is None or value >> (8 * nbytes):
            return None
        out += value.to_bytes(nbytes, "little")
    return bytes(out)


def scrypt7_encode(N_log2, r, p, salt_bytes_encoded: bytes, hash: bytes) -> str:
    """Assemble a "$7$" string.  `salt_bytes_encoded` is the salt *text*
    (for libsodium: itoa64_encode_bytes(32 random bytes))."""
    if not (0 <= N_log2 <= 63 and 0 <= r < (1 << 30) and 0 <= p < (1 << 30)):
        raise ValueError("parameter out of range")
    s = (b"$7$" + ITOA64[N_log2:N_log2 + 1] + itoa64_encode_uint(r, 30) +
         itoa64_encode_uint(p, 30) + bytes(salt_bytes_encoded) + b"$" +
         itoa64_encode_bytes(bytes(hash)))
    return s.decode("latin-1")


def _scrypt7_parse_setting(s: bytes):
    """-> (N_log2, r, p) or None; needs the 14-byte prefix"""
    if len(s) < SCRYPT7_PREFIX_CHARS or s[:3] != b"$7$":
        return None
    N_log2 = _ITOA64_VALUE.get(s[3])
    r = itoa64_decode_uint(s[4:9])
    p = itoa64_decode_uint(s[9:14])
    if N_log2 is None or r is None or p is None:
        return None
    return N_log2, r, p


def _scrypt_params_valid(N_log2, r, p):
    return N_log2 >= 1 and r >= 1 and p >= 1 and r * p < (1 << 30)


def _to_bytes(s):
    if isinstance(s, str):
        try:
            return s.encode("latin-1")
        except UnicodeEncodeError:
            return None
    return bytes(s)


def scrypt7_parse(s, libsodium=True):
    """-> dict(N_log2, r, p, salt, hash, salt_is_itoa64, params_valid)
    or None.  `salt` is the salt text (bytes as they appear), `hash` the
    32 decoded bytes."""
    s = _to_bytes(s)
    if s is None or b"\0" in s:                                   # S4
        return None
    if libsodium and len(s) != SCRYPT7_STR_CHARS:                 # S1
        return None
    setting = _scrypt7_parse_setting(s)
    if setting is None:
        return None
    N_log2, r, p = setting
    rest = s[SCRYPT7_PREFIX_CHARS:]
    cut = rest.rfind(b"$")           # the LAST "$" ends the salt
    if cut < 0:
        return None
    salt, hash_text = rest[:cut], rest[cut + 1:]
    if libsodium and len(salt) != SCRYPT7_SALT_CHARS:
        return None
    if len(hash_text) != SCRYPT7_HASH_CHARS:                      # S2
        return None
    digest = itoa64_decode_bytes(hash_text)
    if digest is None or len(digest) != SCRYPT7_HASH_BYTES:
        return None
    return dict(N_log2=N_log2, r=r, p=p, salt=salt, hash=digest,
                salt_is_itoa64=all(c in _ITOA64_VALUE for c in salt),
                params_valid=_scrypt_params_valid(N_log2, r, p))  # S3


def scrypt7_hash(passwd: bytes, setting_str):
    """escrypt: hash `passwd` under `setting_str` ("$7$" + params + salt
    text, optionally followed by "$" and anything - only the part up to the
    last "$" is used).  Returns the full string (str), or None if the
    setting is malformed or the scrypt parameters are invalid.  Raises
    ScryptTooBig when the parameters are valid but beyond what hashlib /
    this machine can do."""
    s = _to_bytes(setting_str)
    if s is None or b"\0" in s:
        return None
    setting = _scrypt7_parse_setting(s)
    if setting is None:
        return None
    N_log2, r, p = setting
    if not _scrypt_params_valid(N_log2, r, p):
        return None
    rest = s[SCRYPT7_PREFIX_CHARS:]
    cut = rest.rfind(b"$")
    salt = rest if cut < 0 else rest[:cut]
    need = 128 * r * ((1 << N_log2) + p + 2) + (1 << 16)
    if need >= (1 << 31):
        raise ScryptTooBig("N_log2=%d r=%d p=%d" % (N_log2, r, p))
    try:
        digest = hashlib.scrypt(bytes(passwd), salt=salt, n=1 << N_log2, r=r,
                                p=p, maxmem=need, dklen=SCRYPT7_HASH_BYTES)
    except (ValueError, MemoryError, OverflowError) as e:
        raise ScryptTooBig(str(e))
    out = s[:SCRYPT7_PREFIX_CHARS] + salt + b"$" + itoa64_encode_bytes(digest)
    return out.decode("latin-1")


def scrypt7_str_verify(s, passwd: bytes) -> bool:
    """Reference verdict for libsodium-style verification of a "$7$" string."""
    d = scrypt7_parse(s, libsodium=True)
    if d is None or not d["params_valid"]:
        return False
    want = scrypt7_hash(passwd, s)
    return want is not None and want.encode("latin-1") == _to_bytes(s)


# --------------------------------------------------------------------------
# self test
# --------------------------------------------------------------------------

def _selftest():
    import random
    rnd = random.Random(20261003)
    checks = [0]

    def ok(cond, what):
        checks[0] += 1
        if not cond:
            raise SystemExit("pwhash_str selftest FAILED: " + what)

    # ---- base64 helper against the stdlib ---------------------------------
    for n in range(0, 70):
        data = rnd.randbytes(n)
        enc = b64_encode_nopad(data)
        ok(enc == base64.b64encode(data).decode().rstrip("="), "b64 enc %d" % n)
        ok(b64_decode_nopad_strict(enc.encode()) == data, "b64 dec %d" % n)
    ok(b64_decode_nopad_strict(b"QQ") == b"A", "b64 QQ")
    ok(b64_decode_nopad_strict(b"QR") is None, "b64 trailing bits (2 chars)")
    ok(b64_decode_nopad_strict(b"QUI") == b"AB", "b64 QUI")
    ok(b64_decode_nopad_strict(b"QUJ") is None, "b64 trailing bits (3 chars)")
    ok(b64_decode_nopad_strict(b"Q") is None, "b64 1 char")
    ok(b64_decode_nopad_strict(b"QUJDR") is None, "b64 5 chars")
    ok(b64_decode_nopad_strict(b"QQ==") is None, "b64 padding")
    ok(b64_decode_nopad_strict(b"QU-_") is None, "b64 urlsafe")
    ok(b64_decode_nopad_strict(b"QU JD") is None, "b64 blank")
    ok(b64_decode_nopad_strict(b"") == b"", "b64 empty")

    # ---- argon2 round trips ----------------------------------------------
    for _ in range(2000):
        typ = rnd.choice([0, 1, 2])
        p = rnd.choice([1, 1, 2, 3, 4, 255, 0xFFFFFF])
        m = rnd.choice([8 * p, 8 * p + rnd.randrange(1000), 0xFFFFFFFF])
        t = rnd.choice([1, 2, 3, 10, 0xFFFFFFFF, rnd.randrange(1, 1 << 32)])
        salt = rnd.randbytes(rnd.choice([8, 9, 10, 16, 17, 32]))
        tag = rnd.randbytes(rnd.choice([4, 5, 6, 16, 32, 33, 64]))
        s = argon2_encode(typ, t, m, p, salt, tag)
        d = argon2_parse(s.encode())
        ok(d is not None and (d["type"], d["v"], d["m"], d["t"], d["p"],
                              d["salt"], d["hash"]) ==
           (typ, 19, m, t, p, salt, tag), "argon2 round trip " + s)
        ok(argon2_encode(d["type"], d["t"], d["m"], d["p"], d["salt"],
                         d["hash"]) == s, "argon2 re-encode " + s)
        ok(argon2_parse(s) == d, "argon2 str input")
        # every single-byte deletion / some insertions must not yield the
        # same parse (and mostly yield None)
        b = s.encode()
        i = rnd.randrange(len(b))
        mutated = b[:i] + b[i + 1:]
        ok(argon2_parse(mutated) != d, "argon2 deletion %r" % mutated)

    good = ("$argon2id$v=19$m=256,t=3,p=1$MDEyMzQ1Njc"
            "$G5ajKFCoUzaXRLdz7UJb5wGkb2Xt+X5/GQjUYtS2+TE")
    ok(argon2_parse(good) is not None, "good string")
    bad = {
        "leading zero m": good.replace("m=256", "m=0256"),
        "leading zero t": good.replace("t=3", "t=03"),
        "leading zero p": good.replace("p=1", "p=01"),
        "leading zero v": good.replace("v=19", "v=019"),
        "m=08": good.replace("m=256", "m=08"),
        "plus sign": good.replace("t=3", "t=+3"),
        "blank": good.replace("t=3", "t= 3"),
        "empty number": good.replace("t=3", "t="),
        "u32 overflow": good.replace("m=256", "m=4294967296"),
        "huge number": good.replace("m=256", "m=" + "9" * 30),
        "no version": good.replace("$v=19", ""),
        "v=16": good.replace("v=19", "v=16"),
        "v=1": good.replace("v=19", "v=1"),
        "v=190": good.replace("v=19", "v=190"),
        "capital type": good.replace("$argon2id", "$Argon2id"),
        "unknown type": good.replace("$argon2id", "$argon2x"),
        "empty type": good.replace("$argon2id", "$"),
        "order t,m,p": good.replace("m=256,t=3,p=1", "t=3,m=256,p=1"),
        "order m,p,t": good.replace("m=256,t=3,p=1", "m=256,p=1,t=3"),
        "missing p": good.replace(",p=1", ""),
        "extra param": good.replace(",p=1", ",p=1,x=1"),
        "keyid": good.replace(",p=1", ",p=1,keyid=AA"),
        "double comma": good.replace(",t=3", ",,t=3"),
        "semicolon": good.replace(",t=3", ";t=3"),
        "missing $ before salt": good.replace("p=1$", "p=1"),
        "missing $ before hash": good.replace("Njc$", "Njc"),
        "trailing $": good + "$",
        "trailing newline": good + "\n",
        "trailing garbage": good + "AA",  # makes hash length 1 mod 4
        "trailing garbage 2": good + "AA=",
        "padding on salt": good.replace("Njc$", "Njc=$"),
        "padding on hash": good + "=",
        "bad b64 char in salt": good.replace("MDEy", "MD~y"),
        "bad b64 char in hash": good.replace("G5aj", "G5.j"),
        "salt trailing bits": good.replace("MDEyMzQ1Njc$", "MDEyMzQ1Njd$"),
        "hash trailing bits": good[:-1] + "F",
        "leading garbage": "x" + good,
        "no leading $": good[1:],
        "double $": good.replace("$v=19", "$$v=19"),
        "t=0": good.replace("t=3", "t=0"),
        "p=0": good.replace("p=1", "p=0"),
        "m<8p": good.replace("m=256,t=3,p=1", "m=15,t=3,p=2"),
        "m=0": good.replace("m=256", "m=0"),
        "p too big": good.replace("m=256,t=3,p=1",
                                  "m=4294967295,t=3,p=16777216"),
        "short salt": good.replace("MDEyMzQ1Njc", "MDEyMzQ1Ng"),
        "empty salt": good.replace("MDEyMzQ1Njc", ""),
        "short hash": good[:good.rindex("$") + 1] + "QUJD",
        "empty hash": good[:good.rindex("$") + 1],
        "empty": "",
        "just $": "$",
    }
    for name, s in bad.items():
        ok(argon2_parse(s) is None, "argon2 bad string accepted: " + name)
    ok(argon2_parse(good.encode() + b"\0") is None, "trailing NUL")
    ok(argon2_parse(good.encode().replace(b"$v", b"\0$v")) is None, "NUL")
    ok(argon2_parse(good.encode() + b"\x80") is None, "high byte")
    ok(argon2_parse(good + "é") is None, "non-ascii str")
    # value checks are switchable, syntax checks are not
    for name in ("t=0", "p=0", "m<8p", "m=0", "p too big", "short salt",
                 "empty salt", "short hash", "empty hash"):
        ok(argon2_parse(bad[name], validate=False) is not None,
           "validate=False should accept: " + name)
    for name in ("m=08", "leading zero t", "no version", "v=16",
                 "salt trailing bits", "trailing $", "u32 overflow"):
        ok(argon2_parse(bad[name], validate=False) is None,
           "validate=False must still reject: " + name)
    ok(argon2_parse(bad["short hash"], min_hash=3) is not None, "min_hash=3")
    ok(argon2_parse(good, min_hash=32) is not None and
       argon2_parse(good, min_hash=33) is None, "min_hash")
    ok(argon2_parse(good, min_salt=8) is not None and
       argon2_parse(good, min_salt=9) is None, "min_salt")
    ok(argon2_parse(good, expect_type="argon2id") is not None, "expect id")
    ok(argon2_parse(good, expect_type=ARGON2_I) is None, "expect i")
    # boundary values
    ok(argon2_parse(good.replace("m=256,t=3,p=1",
                                 "m=4294967295,t=4294967295,p=16777215"))
       is not None, "max values")
    ok(argon2_parse(good.replace("m=256,t=3,p=1", "m=16,t=1,p=2"))
       is not None, "m=8p")

    # ---- argon2: known strings, recomputed with the C reference ----------
    load_ref_argon2()
    pw_long = b"^T5H$JYt39n%K*j:W]!1s?vg!:jGi]Ax?..l7[p0v:1jHTpla9;]bUN;?bWyCbtqg "
    pw_k3s = b"K3S=KyH#)36_?]LxeR8QNKw6X=gFbxai$C%29V*"
    known = [
        # (password, string, expected verdict) from test/default/pwhash_argon2i.c
        (b"", "$argon2i$v=19$m=4096,t=1,p=1$X1NhbHQAAAAAAAAAAAAAAA$bWh++"
              "MKN1OiFHKgIWTLvIi1iHicmHH7+Fv3K88ifFfI", True),
        (b"", "$argon2i$v=19$m=2048,t=4,p=1$SWkxaUhpY21ISDcrRnYzSw$Mbg/"
              "Eck1kpZir5T9io7C64cpffdTBaORgyriLQFgQj8", True),
        (pw_long, "$argon2i$v=19$m=4096,t=3,p=2$X1NhbHQAAAAAAAAAAAAAAA$z/QMiU4lQxGsYNc/"
                  "+K/bizwsA1P11UG2dj/7+aILJ4I", True),
        (pw_k3s, "$argon2i$v=19$m=4096,t=3,p=1$X1NhbHQAAAAAAAAAAAAAAA$fu2Wsecyt+"
                 "yPnBvSvYN16oP5ozRmkp0ixJ1YL19V3Uo", True),
        (b"password", "$argon2i$v=19$m=4096,t=3,p=2$b2RpZHVlamRpc29kaXNrdw"
                      "$TNnWIwlu1061JHrnCqIAmjs3huSxYIU+0jWipu7Kc9M", True),
        (b"passwore", "$argon2i$v=19$m=4096,t=3,p=2$b2RpZHVlamRpc29kaXNrdw"
                      "$TNnWIwlu1061JHrnCqIAmjs3huSxYIU+0jWipu7Kc9M", False),
        (b"password", "$Argon2i$v=19$m=4096,t=3,p=2$b2RpZHVlamRpc29kaXNrdw"
                      "$TNnWIwlu1061JHrnCqIAmjs3huSxYIU+0jWipu7Kc9M", False),
        (b"password", "$argon2i$v=1$m=4096,t=3,p=2$b2RpZHVlamRpc29kaXNrdw"
                      "$TNnWIwlu1061JHrnCqIAmjs3huSxYIU+0jWipu7Kc9M", False),
        (b"password", "$argon2i$m=65536,t=2,p=1$c29tZXNhbHQ"
                      "$9sTbSlTio3Biev89thdrlKKiCaYsjjYVJxGAL3swxpQ", False),
        (b"password", "$argon2i$v=19$m=65536,t=2,p=1c29tZXNhbHQ"
                      "$wWKIMhR9lyDFvRz9YTZweHKfbftvj+qf+YFY4NeBbtA", False),
        (b"password", "$argon2i$v=19$m=65536,t=2,p=1$c29tZXNhbHQ"
                      "wWKIMhR9lyDFvRz9YTZweHKfbftvj+qf+YFY4NeBbtA", False),
        # from test/default/pwhash_argon2id.c (expected per the .exp file)
        (b"", "$argon2id$v=19$m=4096,t=0,p=1$X1NhbHQAAAAAAAAAAAAAAA$bWh++MKN1OiFHKgIWTLvIi1iHicmHH7+Fv3K88ifFfI", False),
        (b"", "$argon2id$v=19$m=2048,t=4,p=1$SWkxaUhpY21ISDcrRnYzSw$Mbg/Eck1kpZir5T9io7C64cpffdTBaORgyriLQFgQj8", False),
        (b"", "$argon2id$v=19$m=4882,t=2,p=1$bA81arsiXysd3WbTRzmEOw$Nm8QBM+7RH1DXo9rvp5cwKEOOOfD2g6JuxlXihoNcpE", True),
        (pw_long, "$argon2id$v=19$m=4096,t=0,p=1$PkEgMTYtYnl0ZXMgc2FsdA$ltB/ue1kPtBMBGfsysMpPigE6hiNEKZ9vs8vLNVDQGA", False),
        (pw_long, "$argon2id$v=19$m=4096,t=19,p=1$PkEgMTYtYnl0ZXMgc2FsdA$ltB/ue1kPtBMBGfsysMpPigE6hiNEKZ9vs8vLNVDQGA", True),
        (pw_k3s, "$argon2id$v=19$m=4096,t=1,p=3$PkEgcHJldHR5IGxvbmcgc2FsdA$HUqx5Z1b/ZypnUrvvJ5UC2Q+T6Q1WwASK/Kr9dRbGA0", True),
        (b"password", good, True),
        (b"passwore", good, False),
        (b"password", good.replace("p=1", "p=2"), False),
        (b"password", good.replace("$argon2id", "$Argon2id"), False),
    ]
    for pw, s, want in known:
        ok(argon2_str_verify(s, pw) == want, "argon2 known string " + s)

    # raw test vector (RFC 9106 5.3) through ctypes incl. secret and AD
    tag = argon2_raw(ARGON2_ID, b"\x01" * 32, b"\x02" * 16, 3, 32, 4, 32,
                     secret=b"\x03" * 8, ad=b"\x04" * 12)
    ok(tag is not None and tag.hex() ==
       "0d640df58d78766c08c037a34a8b53c9d01ef0452d75b65eb52520e96b01e659",
       "RFC 9106 argon2id vector via ctypes")
    ok(argon2_raw(ARGON2_ID, b"", b"\0" * 16, 0, 8, 1, 32) is None,
       "t=0 rejected by C ref")

    # ---- itoa64 -----------------------------------------------------------
    for n in range(0, 70):
        data = rnd.randbytes(n)
        enc = itoa64_encode_bytes(data)
        ok(len(enc) == (n * 8 + 5) // 6, "itoa64 length %d" % n)
        ok(itoa64_decode_bytes(enc) == data, "itoa64 round trip %d" % n)
    ok(len(itoa64_encode_bytes(bytes(32))) == 43, "32 bytes -> 43 chars")
    ok(itoa64_encode_uint(8, 30) == b"6....", "r=8")
    ok(itoa64_encode_uint(1, 30) == b"/....", "p=1")
    ok(itoa64_decode_uint(b"zzzzz") == (1 << 30) - 1, "max 30-bit")
    ok(itoa64_decode_bytes(b"..z") is None, "non-canonical 3-char group")
    ok(itoa64_decode_bytes(b".z") is None, "non-canonical 2-char group")
    ok(itoa64_decode_bytes(b".") is None, "1-char group")
    # RFC 7914 section 12 vector, to make sure hashlib.scrypt is scrypt
    ok(hashlib.scrypt(b"password", salt=b"NaCl", n=1024, r=8, p=16,
                      dklen=64).hex().startswith("fdbabe1c9d347200"),
       "RFC 7914 vector")

    # ---- scrypt $7$ round trips ------------------------------------------
    for _ in range(300):
        N_log2 = rnd.randrange(0, 64)
        r = rnd.choice([0, 1, 8, rnd.randrange(1 << 30), (1 << 30) - 1])
        p = rnd.choice([0, 1, 3, rnd.randrange(1 << 30), (1 << 30) - 1])
        salt_text = itoa64_encode_bytes(rnd.randbytes(32))
        digest = rnd.randbytes(32)
        s = scrypt7_encode(N_log2, r, p, salt_text, digest)
        ok(len(s) == 101, "scrypt7 length")
        d = scrypt7_parse(s)
        ok(d is not None and (d["N_log2"], d["r"], d["p"], d["salt"],
                              d["hash"]) == (N_log2, r, p, salt_text, digest)
           and d["salt_is_itoa64"], "scrypt7 round trip " + s)
        ok(d["params_valid"] == (N_log2 >= 1 and r >= 1 and p >= 1 and
                                 r * p < (1 << 30)), "scrypt7 params_valid")
        ok(scrypt7_encode(d["N_log2"], d["r"], d["p"], d["salt"],
                          d["hash"]) == s, "scrypt7 re-encode")
    s = scrypt7_encode(4, 1, 1, b"short", bytes(32))
    ok(scrypt7_parse(s) is None and scrypt7_parse(s, libsodium=False)
       is not None, "non-libsodium salt length")
    s = scrypt7_encode(4, 1, 1, b"", bytes(32))
    ok(scrypt7_parse(s, libsodium=False)["salt"] == b"", "empty salt")

    # ---- scrypt: known strings from test/default/pwhash_scrypt.c ---------
    valid = [
        (b"^T5H$JYt39n%K*j:W]!1s?vg!:jGi]Ax?..l7[p0v:1jHTpla9;]bUN;?bWyCbtqg "
         b"nrDFal+Jxl3,2`#^tFSu%v_+7iYse8-cCkNf!tD=KrW)",
         "$7$B6....1....75gBMAGwfFWZqBdyF3WdTQnWdUsuTiWjG1fF9c1jiSD$tc8RoB3."
         "Em3/zNgMLWo2u00oGIoTyJv4fl3Fl8Tix72"),
        (b"bl72h6#y<':MFRZ>B IA1=NRkCKS%W8`1I.2uQxJN0g)N N aTt^4K!Iw5r "
         b"H6;crDsv^a55j9tsk'/GqweZn;cdk6+F_St6:#*=?ZCD_lw>.",
         "$7$A6....3....Iahc6qM0.UQJHVgE4h9oa1/"
         "4OWlWLm9CCtfguvz6bQD$QnXCo3M7nIqtry2WKsUZ5gQ.mY0wAlJu."
         "WUhtE8vF66"),
        (b"2vj;Um]FKOL27oam(:Uo8+UmSTvb1FD*h?jk_,S=;RDgF-$Fjk?]9yvfxe@fN^!NN("
         b"Cuml?+2Raa",
         "$7$86....I....7XwIxLtCx4VphmFeUa6OGuGJrFaIaYzDiLNu/"
         "tyUPhD$U3q5GCEqCWxMwh.YQHDJrlg7FIZgViv9pcXE3h1vg61"),
        (b"j4BS38Asa;p)[K+9TY!3YDj<LK-`nLVXQw9%*QfM",
         "$7$B6....1....5Ods8mojVwXJq4AywF/uI9BdMSiJ/zT8hQP/"
         "4cB68VC$nk4ExHNXJ802froj51/1wJTrSZvTIyyK7PecOxRRaz0"),
        (b"Y0!?iQa9M%5ekffW(`",
         "$7$A6....1....TrXs5Zk6s8sWHpQgWDIXTR8kUU3s6Jc3s.DtdS8M2i4$"
         "a4ik5hGDN7foMuHOW.cp.CtX01UyCeO0.JAG.AHPpx5"),
    ]
    for pw, s in valid:
        d = scrypt7_parse(s)
        ok(d is not None and d["params_valid"], "scrypt7 parse " + s)
        ok(scrypt7_hash(pw, s) == s, "scrypt7 recompute (full string) " + s)
        ok(scrypt7_hash(pw, s[:57]) == s, "scrypt7 recompute (setting) " + s)
        ok(scrypt7_str_verify(s, pw), "scrypt7 verify " + s)
        ok(not scrypt7_str_verify(s, pw + b"x"), "scrypt7 wrong password")
    d = scrypt7_parse(valid[0][1])
    ok((d["N_log2"], d["r"], d["p"]) == (13, 8, 3), "decoded parameters")

    pw = b"Y0!?iQa9M%5ekffW(`"
    base = valid[-1][1]
    invalid = [
        "$7$A6....1....$TrXs5Zk6s8sWHpQgWDIXTR8kUU3s6Jc3s.DtdS8M2i4"
        "a4ik5hGDN7foMuHOW.cp.CtX01UyCeO0.JAG.AHPpx5",
        "$7$.6....1....TrXs5Zk6s8sWHpQgWDIXTR8kUU3s6Jc3s.DtdS8M2i4$"
        "a4ik5hGDN7foMuHOW.cp.CtX01UyCeO0.JAG.AHPpx5",
        "$7$A.....1....TrXs5Zk6s8sWHpQgWDIXTR8kUU3s6Jc3s.DtdS8M2i4$"
        "a4ik5hGDN7foMuHOW.cp.CtX01UyCeO0.JAG.AHPpx5",
        "$7$A6.........TrXs5Zk6s8sWHpQgWDIXTR8kUU3s6Jc3s.DtdS8M2i4$"
        "a4ik5hGDN7foMuHOW.cp.CtX01UyCeO0.JAG.AHPpx5",
        "$7$A6....1....TrXs5Zk6s8sWHpQgWDIXTR8kUU3s6Jc3s.DtdS8M2i44269$"
        "a4ik5hGDN7foMuHOW.cp.CtX01UyCeO0.JAG.AH",
        "$7$A6....1....TrXs5Zk6s8sWHpQgWDIXTR8kUU3s6Jc3s.DtdS8M2i4$"
        "a4ik5hGDN7foMuHOW.cp.CtX01UyCeO0.JAG.AHPpx54269",
        "$7^A6....1....TrXs5Zk6s8sWHpQgWDIXTR8kUU3s6Jc3s.DtdS8M2i4$"
        "a4ik5hGDN7foMuHOW.cp.CtX01UyCeO0.JAG.AHPpx5",
        "$7$!6....1....TrXs5Zk6s8sWHpQgWDIXTR8kUU3s6Jc3s.DtdS8M2i4$"
        "a4ik5hGDN7foMuHOW.cp.CtX01UyCeO0.JAG.AHPpx5",
        "$7$A!....1....TrXs5Zk6s8sWHpQgWDIXTR8kUU3s6Jc3s.DtdS8M2i4$"
        "a4ik5hGDN7foMuHOW.cp.CtX01UyCeO0.JAG.AHPpx5",
        "$7$A6....!....TrXs5Zk6s8sWHpQgWDIXTR8kUU3s6Jc3s.DtdS8M2i4$"
        "a4ik5hGDN7foMuHOW.cp.CtX01UyCeO0.JAG.AHPpx5",
        "$7fA6....1....TrXs5Zk6s8sWHpQgWDIXTR8kUU3s6Jc3s.DtdS8M2i4#"
        "a4ik5hGDN7foMuHOW.cp.CtX01UyCeO0.JAG.AHPpx5",
        "$7$AX....1....TrXs5Zk6s8sWHpQgWDIXTR8kUU3s6Jc3s.DtdS8M2i4$"
        "a4ik5hGDN7foMuHOW.cp.CtX01UyCeO0.JAG.AHPpx5",
        "$7$A6....1!...TrXs5Zk6s8sWHpQgWDIXTR8kUU3s6Jc3s.DtdS8M2i4$"
        "a4ik5hGDN7foMuHOW.cp.CtX01UyCeO0.JAG.AHPpx5",
        "$7$A6....1", "$7$", "",
        "$7$A6....1....TrXs5Zk6s8sWHpQgWDIXTR8kUU3s6Jc3s.DtdS8M2i4$",
    ]
    for s in invalid:
        try:
            verdict = scrypt7_str_verify(s, pw)
        except ScryptTooBig:
            verdict = None
        ok(verdict is False, "scrypt7 invalid string verified: " + s)
    ok(not scrypt7_str_verify(base, b""), "scrypt7 empty password")
    # N_log2 = 0 / r = 0 / p = 0 / r*p >= 2^30 are invalid scrypt parameters
    salt_text = itoa64_encode_bytes(bytes(range(32)))
    for (N_log2, r, p) in ((0, 8, 1), (10, 0, 1), (10, 8, 0),
                           (10, (1 << 30) - 1, (1 << 30) - 1),
                           (10, 1 << 15, 1 << 15)):
        s = scrypt7_encode(N_log2, r, p, salt_text, bytes(32))
        d = scrypt7_parse(s)
        ok(d is not None and not d["params_valid"], "params_valid " + s)
        ok(scrypt7_hash(b"test", s) is None, "scrypt7_hash invalid params")
        ok(scrypt7_str_verify(s, b"test") is False, "verify invalid params")
    # strings of that kind from test/default/pwhash_scrypt.c
    for s in ("$7$.6..../.....lgPchkGHqbeONR/xtuXyjCrt9kUSg6NlKFQO0OSxo/$.DbajbPYH9T7sg3fOtcgxvJzzfIgJBIxMkeQ8b24YQ.",
              "$7$8zzzzzzzzzz.lgPchkGHqbeONR/xtuXyjCrt9kUSg6NlKFQO0OSxo/$.DbajbPYH9T7sg3fOtcgxvJzzfIgJBIxMkeQ8b24YQ.",
              "$7$8.....zzzzz.lgPchkGHqbeONR/xtuXyjCrt9kUSg6NlKFQO0OSxo/$.DbajbPYH9T7sg3fOtcgxvJzzfIgJBIxMkeQ8b24YQ."):
        d = scrypt7_parse(s)
        ok(d is not None and not d["params_valid"], "params_valid " + s)
        ok(scrypt7_str_verify(s, b"test") is False, "verify " + s)
    # valid parameters, wrong hash
    s = "$7$86..../..../lgPchkGHqbeONR/xtuXyjCrt9kUSg6NlKFQO0OSxo/$.DbajbPYH9T7sg3fOtcgxvJzzfIgJBIxMkeQ8b24YQ."
    d = scrypt7_parse(s)
    ok(d is not None and d["params_valid"] and
       (d["N_log2"], d["r"], d["p"]) == (10, 8, 1), "parse " + s)
    ok(scrypt7_str_verify(s, b"test") is False, "verify " + s)
    # valid but far too large for anybody: reported as such, not as invalid
    try:
        scrypt7_hash(b"test", "$7$z6..../.....lgPchkGHqbeONR/xtuXyjCrt9kUSg6NlKFQO0OSxo/$.DbajbPYH9T7sg3fOtcgxvJzzfIgJBIxMkeQ8b24YQ.")
        ok(False, "N_log2=63 should raise ScryptTooBig")
    except ScryptTooBig:
        ok(True, "")
    # the salt text may contain '$' (last '$' delimits) and foreign bytes
    weird_salt = b"ab$cd!" + b"x" * 37
    # (a setting whose salt contains "$" must carry its terminating "$",
    # otherwise the "$" inside the salt is taken as the terminator)
    setting = "$7$4/..../...." + weird_salt.decode() + "$"
    ok(scrypt7_hash(b"pw", setting[:-1]).startswith("$7$4/..../....ab$"),
       "last-$ rule")
    full = scrypt7_hash(b"pw", setting)
    ok(full is not None and len(full) == 101, "weird salt hash")
    d = scrypt7_parse(full)
    ok(d is not None and d["salt"] == weird_salt and not d["salt_is_itoa64"],
       "weird salt parse")
    ok(scrypt7_str_verify(full, b"pw"), "weird salt verify")
    ok(d["hash"] == hashlib.scrypt(b"pw", salt=weird_salt, n=64, r=1, p=1,
                                   dklen=32), "weird salt digest")
    ok(scrypt7_parse(full.encode() + b"\0") is None, "scrypt7 NUL")

    print("pwhash_str selftest OK")
    return checks[0]


if __name__ == "__main__":
    n = _selftest()
    if "-v" in sys.argv:
        print("%d checks" % n)
