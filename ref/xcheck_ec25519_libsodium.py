#!/usr/bin/python3
"""Optional sanity cross-check of ec25519.py against a built libsodium.so (ctypes)
and the openssl CLI.  Not part of the reference; disagreements are REPORTED, the
reference is never adjusted to match."""
import ctypes, glob, os, random, subprocess, sys, hashlib
sys.path.insert(0, os.path.dirname(os.path.abspath(__file__)))
import ec25519 as E

so = sorted(glob.glob("/verif/build/native-*/libsodium.so"))[0]
S = ctypes.CDLL(so)
assert S.sodium_init() >= 0
S.crypto_core_ed25519_from_string.argtypes = [ctypes.c_char_p, ctypes.c_char_p, ctypes.c_char_p, ctypes.c_size_t, ctypes.c_int]
S.crypto_core_ed25519_from_string_ro.argtypes = S.crypto_core_ed25519_from_string.argtypes
S.crypto_core_ristretto255_from_string.argtypes = S.crypto_core_ed25519_from_string.argtypes
S.crypto_core_ristretto255_from_string_ro.argtypes = S.crypto_core_ed25519_from_string.argtypes
S.crypto_sign_detached.argtypes = [ctypes.c_char_p, ctypes.c_void_p, ctypes.c_char_p, ctypes.c_ulonglong, ctypes.c_char_p]
S.crypto_sign_verify_detached.argtypes = [ctypes.c_char_p, ctypes.c_char_p, ctypes.c_ulonglong, ctypes.c_char_p]

rng = random.Random(20261003)
rb = lambda n: bytes(rng.getrandbits(8) for _ in range(n))
buf = lambda n: ctypes.create_string_buffer(n)
N = int(sys.argv[1]) if len(sys.argv) > 1 else 300
dis = {}

def note(tag, *info):
    dis.setdefault(tag, []).append(info)

# --- X25519 ---
special_u = [bytes(32), (1).to_bytes(32, "little"), (E.P - 1).to_bytes(32, "little"), E.P.to_bytes(32, "little"),
             (E.P + 1).to_bytes(32, "little"), b"\xff" * 32,
             bytes.fromhex("e0eb7a7c3b41b8ae1656e3faf19fc46ada098deb9c32b1fd866205165f49b800"),
             bytes.fromhex("5f9c95bca3508c24b1d0b1559c83ef5b04445cc4581c8e86d8224eddd09f1157")]
for i in range(N):
    k = rb(32); u = special_u[i] if i < len(special_u) else rb(32)
    q = buf(32)
    rc = S.crypto_scalarmult(q, k, u)
    ref = E.x25519(k, u)
    if rc == 0:
        if q.raw != ref: note("x25519", k.hex(), u.hex(), q.raw.hex(), ref.hex())
    else:
        if ref != bytes(32): note("x25519-rc", k.hex(), u.hex(), ref.hex())
    S.crypto_scalarmult_base(q, k)
    if q.raw != E.x25519_base(k): note("x25519_base", k.hex())

# --- Ed25519 keypair / sign / verify ---
for i in range(N):
    seed = rb(32); m = rb(rng.randrange(0, 200))
    pk = buf(32); sk = buf(64); sig = buf(64)
    S.crypto_sign_seed_keypair(pk, sk, seed)
    rpk = E.seed_to_keypair(seed)[0]
    if pk.raw != rpk: note("keypair", seed.hex())
    S.crypto_sign_detached(sig, None, m, len(m), sk.raw)
    rs = E.sign(seed, m)
    if sig.raw != rs: note("sign", seed.hex(), m.hex())
    ok = S.crypto_sign_verify_detached(rs, m, len(m), rpk) == 0
    if not ok or not E.verify_strict_predicate(rs, m, rpk): note("verify-good", seed.hex())
    # mutated signatures / torsion-shifted: check accept => predicate
    for j in range(4):
        s2 = bytearray(rs)
        if j == 0: s2[rng.randrange(64)] ^= 1 << rng.randrange(8)
        elif j == 1:
            Sx = int.from_bytes(rs[32:], "little") + E.L
            s2[32:] = (Sx % 2**256).to_bytes(32, "little")
        elif j == 2:
            t = E.TORSION[rng.randrange(1, 8)]
            _, a, prefix = E.seed_to_keypair(seed)
            r = int.from_bytes(E.sha512(prefix, m), "little") % E.L
            Rt = E.point_encode(E.point_add(E.scalar_mult(r, E.B), t))
            h = int.from_bytes(E.sha512(Rt, rpk, m), "little") % E.L
            s2 = bytearray(Rt + ((r + h * a) % E.L).to_bytes(32, "little"))
        else:
            s2[:32] = E.small_order_encodings()[rng.randrange(14)]
        acc = S.crypto_sign_verify_detached(bytes(s2), m, len(m), rpk) == 0
        pred = E.verify_strict_predicate(bytes(s2), m, rpk)
        if acc and not pred: note("verify-accept-without-predicate", j, seed.hex(), bytes(s2).hex())
        if pred and not acc: dis.setdefault("info:predicate-true-but-rejected(j=%d)" % j, []).append(1)
    # ed25519 -> curve25519
    c = buf(32)
    rc = S.crypto_sign_ed25519_pk_to_curve25519(c, rpk)
    if rc != 0 or c.raw != E.ed25519_pk_to_curve25519(rpk): note("pk_to_curve", rpk.hex())
    S.crypto_sign_ed25519_sk_to_curve25519(c, sk.raw)
    if c.raw != E.ed25519_sk_to_curve25519(seed): note("sk_to_curve", seed.hex())
    # random 32 bytes as pk
    x = rb(32)
    rc = S.crypto_sign_ed25519_pk_to_curve25519(c, x)
    ref = E.ed25519_pk_to_curve25519(x)
    if (rc == 0) != (ref is not None) or (rc == 0 and c.raw != ref): note("pk_to_curve-random", x.hex(), rc, ref)
    v = S.crypto_core_ed25519_is_valid_point(x)
    if bool(v) != E.is_valid_point(x): note("is_valid_point", x.hex(), v)
    # torsion-shifted valid point
    Q = E.point_encode(E.point_add(E.point_decode(rpk), E.TORSION[rng.randrange(8)]))
    if bool(S.crypto_core_ed25519_is_valid_point(Q)) != E.is_valid_point(Q): note("is_valid_point-torsion", Q.hex())
for enc in E.small_order_encodings():
    if S.crypto_core_ed25519_is_valid_point(enc) != 0: note("is_valid_point-small", enc.hex())
    c = buf(32)
    if S.crypto_sign_ed25519_pk_to_curve25519(c, enc) == 0: note("pk_to_curve-small", enc.hex())

# Ed25519ph
class St(ctypes.Structure):
    _fields_ = [("b", ctypes.c_ubyte * 512)]
for i in range(20):
    seed = rb(32); m = rb(rng.randrange(0, 300))
    pk = buf(32); sk = buf(64); sig = buf(64); st = St()
    S.crypto_sign_seed_keypair(pk, sk, seed)
    S.crypto_sign_init(ctypes.byref(st)); S.crypto_sign_update(ctypes.byref(st), m, ctypes.c_ulonglong(len(m)))
    S.crypto_sign_final_create(ctypes.byref(st), sig, None, sk.raw)
    if sig.raw != E.sign_ph(seed, m): note("sign_ph", seed.hex())

# --- ristretto ---
for i in range(N):
    h = rb(64); p = buf(32)
    S.crypto_core_ristretto255_from_hash(p, h)
    if p.raw != E.ristretto_from_uniform_bytes(h): note("ristretto_from_hash", h.hex())
    x = rb(32)
    if bool(S.crypto_core_ristretto255_is_valid_point(x)) != E.ristretto_is_valid(x): note("ristretto_valid", x.hex())
    n = rb(32); q = buf(32)
    rc = S.crypto_scalarmult_ristretto255(q, n, p.raw)
    ni = int.from_bytes(n, "little") & (2**255 - 1)
    ref = E.ristretto_encode(E.scalar_mult(ni, E.ristretto_decode(p.raw)))
    if rc == 0 and q.raw != ref: note("ristretto_scalarmult", n.hex(), p.raw.hex())
    for hname, hid in (("sha256", 1), ("sha512", 2)):
        m = rb(rng.randrange(0, 100)); ctx = bytes(rng.randrange(1, 256) for _ in range(rng.randrange(0, 40)))
        ref = E.ristretto_hash_to_group(m, ctx, hname)
        a = buf(32); b = buf(32)
        S.crypto_core_ristretto255_from_string(a, ctx, m, len(m), hid)
        S.crypto_core_ristretto255_from_string_ro(b, ctx, m, len(m), hid)
        if a.raw != ref: dis.setdefault("info:ristretto_from_string!=RFC9380-appB(%s)" % hname, []).append(1)
        if b.raw != ref: dis.setdefault("info:ristretto_from_string_ro!=RFC9380-appB(%s)" % hname, []).append(1)

# --- RFC 9380 edwards25519 ---
for i in range(N):
    m = rb(rng.randrange(0, 150))
    ln = rng.choice([0, 1, 16, 40, 254, 255, 256, 300, 500]) if i % 3 == 0 else rng.randrange(0, 60)
    ctx = bytes(rng.randrange(1, 256) for _ in range(ln))  # C string: no NUL
    for hname, hid in (("sha256", 1), ("sha512", 2)):
        a = buf(32); b = buf(32)
        S.crypto_core_ed25519_from_string(a, ctx, m, len(m), hid)
        S.crypto_core_ed25519_from_string_ro(b, ctx, m, len(m), hid)
        if a.raw != E.encode_to_curve(m, ctx, hname): note("h2c_nu_" + hname, len(ctx), ctx.hex(), m.hex(), a.raw.hex(), E.encode_to_curve(m, ctx, hname).hex())
        if b.raw != E.hash_to_curve(m, ctx, hname): note("h2c_ro_" + hname, len(ctx), ctx.hex(), m.hex(), b.raw.hex(), E.hash_to_curve(m, ctx, hname).hex())
    r = rb(32); p = buf(32)
    S.crypto_core_ed25519_from_uniform(p, r)
    for variant in ("sign-x", "rfc-sign"):
        if p.raw != E.map_to_curve_elligator2_from_uniform32(r, variant):
            dis.setdefault("info:from_uniform!=" + variant, []).append((r.hex(), p.raw.hex()))

# --- openssl CLI ---
def der_priv(oid_last, seed):
    return bytes.fromhex("302e020100300506032b65" + oid_last + "04220420") + seed
for i in range(5):
    seed = rb(32); m = rb(50)
    open("/tmp/_k.der", "wb").write(der_priv("70", seed)); open("/tmp/_m.bin", "wb").write(m)
    pub = subprocess.run(["openssl", "pkey", "-inform", "DER", "-in", "/tmp/_k.der", "-pubout", "-outform", "DER"], capture_output=True).stdout[-32:]
    if pub != E.seed_to_keypair(seed)[0]: note("openssl-ed25519-pk", seed.hex())
    sg = subprocess.run(["openssl", "pkeyutl", "-sign", "-rawin", "-inkey", "/tmp/_k.der", "-keyform", "DER", "-in", "/tmp/_m.bin"], capture_output=True).stdout
    if sg != E.sign(seed, m): note("openssl-ed25519-sign", seed.hex(), sg.hex())
    open("/tmp/_k.der", "wb").write(der_priv("6e", seed))
    pub = subprocess.run(["openssl", "pkey", "-inform", "DER", "-in", "/tmp/_k.der", "-pubout", "-outform", "DER"], capture_output=True).stdout[-32:]
    if pub != E.x25519_base(seed): note("openssl-x25519-pk", seed.hex())
for f in ("/tmp/_k.der", "/tmp/_m.bin"):
    if os.path.exists(f): os.remove(f)

print("library:", so, " N =", N)
if not dis:
    print("no disagreements")
for k, v in sorted(dis.items()):
    print("%s: %d" % (k, len(v)))
    if not k.startswith("info:") or "from_uniform" in k:
        for x in v[:2]: print("   ", x)
