/* E-sched: serialising thread scheduler for exhaustive schedule exploration of the real (TSan-instrumented) libsodium objects.
 * The instrumented objects are linked against rt.c INSTEAD of the ThreadSanitizer runtime: every load/store they perform on the
 * executable's .data/.bss, and every pthread_mutex_lock/unlock (link-time --wrap), is a scheduling point. */
#ifndef VF_SCHED_RT_H
#define VF_SCHED_RT_H
#include <stddef.h>
#include <stdint.h>

#define SCH_MAXT 4
#define SCH_MAXPTS 40000
#define SCH_MAXOBS 48

enum { PK_NONE = 0, PK_ACCESS, PK_LOCK, PK_UNLOCK, PK_START, PK_RANGE };
enum { ST_OK = 0, ST_DEADLOCK = 1, ST_DIVERGED = 2, ST_HORIZON = 3, ST_RUNNING = 4 };

typedef struct {
    uint8_t nen, running, chosen_idx, enabled[SCH_MAXT];   /* enabled in canonical order: running first (if enabled) then ascending ids */
    uint8_t kind[SCH_MAXT], isw[SCH_MAXT]; uint16_t size[SCH_MAXT];
    uint32_t off[SCH_MAXT];                                 /* pending access offset from the start of .data (0 if none) */
} sch_point;

typedef struct {
    volatile int status; int npoints; int nthreads;
    int race; uint32_t race_off; uint8_t race_t1, race_t2, race_w1, race_w2; uintptr_t race_pc1, race_pc2; int race_point;
    int nobs[SCH_MAXT]; int64_t obs[SCH_MAXT][SCH_MAXOBS];
    uint64_t shared_hash; int profile_miss;
    sch_point pts[SCH_MAXPTS];
} sch_trace;

extern sch_trace *sch_tr;                 /* MAP_SHARED region set by the explorer before fork */
extern const uint8_t *sch_prefix; extern int sch_prefix_len;

void sch_init(int nthreads);
void sch_spawn(int tid, void (*fn)(int tid));
int  sch_run(void);                       /* returns status */
void sch_obs(int64_t v);                  /* record an observation for the calling controlled thread */
int  sch_self(void);
uintptr_t sch_data_base(void);
void sch_profile_alloc(void);             /* allocate the (MAP_SHARED) written-location map; call once before forking */
void sch_profile(int on);                 /* while on, every store to .data/.bss is recorded in the map (sequential profiling run) */
#endif
