/* E-sched runtime: replaces the ThreadSanitizer runtime for TSan-instrumented libsodium objects. NOT instrumented itself.
 * Real pthreads, serialised: exactly one controlled thread runs; hand-off by futex. Scheduling points:
 *   - every __tsan_read/write callback whose address lies in the executable's .data/.bss
 *   - pthread_mutex_lock / unlock (link-time --wrap), modelled: a thread waiting for a held mutex is disabled
 *   - memcpy/memmove/memset touching .data/.bss (link-time --wrap)
 * At every point with >= 2 enabled threads the choice comes from the replay prefix, else index 0 of the canonical order
 * (running thread first, then ascending ids). Co-enabled conflicting pending accesses are reported as data races. */
#define _GNU_SOURCE
#include "rt.h"
#include <errno.h>
#include <linux/futex.h>
#include <pthread.h>
#include <stdio.h>
#include <stdlib.h>
#include <string.h>
#include <sys/syscall.h>
#include <unistd.h>

extern char __data_start[], _end[];

sch_trace *sch_tr; const uint8_t *sch_prefix; int sch_prefix_len;

enum { TS_UNUSED = 0, TS_RUNNABLE, TS_BLOCKED, TS_DONE };
typedef struct { uint8_t kind, isw; uint16_t size; uint32_t off; uintptr_t pc; } pend_t;
static struct th { pthread_t pt; int turn; int state; void *waiting; void (*fn)(int); pend_t pend; } T[SCH_MAXT];
static int nthreads, running = -1, active, pos, main_turn;
static __thread int self = -1;
#define MAXMTX 8
static struct { void *addr; int owner; } MTX[MAXMTX]; static int nmtx;

static void fwait(int *w) { while (__atomic_load_n(w, __ATOMIC_ACQUIRE) == 0) syscall(SYS_futex, w, FUTEX_WAIT, 0, NULL, NULL, 0); __atomic_store_n(w, 0, __ATOMIC_RELAXED); }
static void fwake(int *w) { __atomic_store_n(w, 1, __ATOMIC_RELEASE); syscall(SYS_futex, w, FUTEX_WAKE, 1, NULL, NULL, 0); }

uintptr_t sch_data_base(void) { return (uintptr_t) __data_start; }
int sch_self(void) { return self; }
static int in_data(const void *a) { return (const char *) a >= __data_start && (const char *) a < _end; }

/* Written-location profile.  A load can only conflict with a store, so loads of locations that nothing ever stores to (constant tables that
 * the linker happens to place in .data, flags set before the threads start ...) need not be scheduling points.  The explorer records, in one
 * sequential run of sodium_init + set-up + every operation (sch_profile(1)), every .data/.bss byte written; afterwards loads of never-written
 * bytes are skipped.  Every store remains a scheduling point; a store to a byte outside the profile is counted (profile_miss) and the byte is
 * added, so the reduction can be audited: with zero misses the explored schedules are exactly those of the unreduced point set. */
#include <sys/mman.h>
static uint8_t *wmap; static int profiling;
void sch_profile_alloc(void) { size_t n = (size_t) (_end - __data_start); wmap = mmap(NULL, n, PROT_READ | PROT_WRITE, MAP_SHARED | MAP_ANONYMOUS, -1, 0); if (wmap == MAP_FAILED) wmap = NULL; }
void sch_profile(int on) { profiling = on; }
static void wmark(const void *a, size_t n) { size_t off = (size_t) ((const char *) a - __data_start), lim = (size_t) (_end - __data_start); if (wmap) { if (off + n > lim) n = lim - off; memset(wmap + off, 1, n); } }
static int wany(const void *a, size_t n) { size_t off = (size_t) ((const char *) a - __data_start), lim = (size_t) (_end - __data_start), i; if (!wmap) return 1; if (off + n > lim) n = lim - off; for (i = 0; i < n; i++) if (wmap[off + i]) return 1; return 0; }
static int wall(const void *a, size_t n) { size_t off = (size_t) ((const char *) a - __data_start), lim = (size_t) (_end - __data_start), i; if (!wmap) return 1; if (off + n > lim) n = lim - off; for (i = 0; i < n; i++) if (!wmap[off + i]) return 0; return 1; }
static void on_store(const void *a, size_t n) { if (profiling) wmark(a, n); else if (wmap && active && !wall(a, n)) { sch_tr->profile_miss++; wmark(a, n); } }

static void finish(int status) { sch_tr->status = status; sch_tr->npoints = pos; _exit(0); }

static int overlap(const pend_t *a, const pend_t *b) { return a->off < b->off + b->size && b->off < a->off + a->size; }

/* pick the next thread to run; returns -1 if none is enabled */
static int choose(void)
{
    int en[SCH_MAXT], n = 0, i, j, idx;
    if (running >= 0 && T[running].state == TS_RUNNABLE) en[n++] = running;
    for (i = 0; i < nthreads; i++) if (i != running && T[i].state == TS_RUNNABLE) en[n++] = i;
    if (n == 0) return -1;
    if (n == 1) return en[0];
    /* data race = two enabled threads whose pending accesses conflict (they are unordered: either could go first) */
    if (!sch_tr->race) for (i = 0; i < n; i++) for (j = i + 1; j < n; j++) {
        const pend_t *a = &T[en[i]].pend, *b = &T[en[j]].pend;
        if ((a->kind == PK_ACCESS || a->kind == PK_RANGE) && (b->kind == PK_ACCESS || b->kind == PK_RANGE) && (a->isw || b->isw) && overlap(a, b)) {
            sch_tr->race = 1; sch_tr->race_off = a->off; sch_tr->race_t1 = (uint8_t) en[i]; sch_tr->race_t2 = (uint8_t) en[j]; sch_tr->race_w1 = a->isw; sch_tr->race_w2 = b->isw;
            sch_tr->race_pc1 = a->pc; sch_tr->race_pc2 = b->pc; sch_tr->race_point = pos;
        }
    }
    if (pos >= SCH_MAXPTS) finish(ST_HORIZON);
    idx = pos < sch_prefix_len ? sch_prefix[pos] : 0;
    if (idx >= n) finish(ST_DIVERGED);
    { sch_point *p = &sch_tr->pts[pos]; p->nen = (uint8_t) n; p->running = (uint8_t) (running >= 0 && T[running].state == TS_RUNNABLE ? running : 255); p->chosen_idx = (uint8_t) idx;
      for (i = 0; i < n; i++) { p->enabled[i] = (uint8_t) en[i]; p->kind[i] = T[en[i]].pend.kind; p->isw[i] = T[en[i]].pend.isw; p->size[i] = T[en[i]].pend.size; p->off[i] = T[en[i]].pend.off; } }
    pos++; sch_tr->npoints = pos;       /* kept current so that a crashing schedule is still replayable */
    return en[idx];
}

static void switch_to(int next)
{
    int me = self;
    if (next == me) return;
    running = next;
    fwake(&T[next].turn);
    if (me >= 0 && T[me].state != TS_DONE) fwait(&T[me].turn);
}

static void yield_point(int kind, const void *addr, size_t size, int isw, uintptr_t pc)
{
    int next;
    if (!active || self < 0) return;
    T[self].pend.kind = (uint8_t) kind; T[self].pend.isw = (uint8_t) isw; T[self].pend.size = (uint16_t) (size > 65535 ? 65535 : size);
    T[self].pend.off = in_data(addr) ? (uint32_t) ((const char *) addr - __data_start) : 0; T[self].pend.pc = pc;
    next = choose();
    if (next != self) switch_to(next);
    T[self].pend.kind = PK_NONE;
}

/* ---------------- thread lifecycle ---------------- */
static void *tramp(void *arg)
{
    int id = (int) (intptr_t) arg, next;
    self = id;
    fwait(&T[id].turn);
    T[id].pend.kind = PK_NONE;
    T[id].fn(id);
    T[id].state = TS_DONE;
    next = choose();
    if (next < 0) {
        int i, alldone = 1; for (i = 0; i < nthreads; i++) if (T[i].state != TS_DONE) alldone = 0;
        if (!alldone) finish(ST_DEADLOCK);
        running = -1; fwake(&main_turn);
        return NULL;
    }
    running = next; fwake(&T[next].turn);
    return NULL;
}
void sch_init(int n) { nthreads = n; pos = 0; running = -1; nmtx = 0; sch_tr->nthreads = n; sch_tr->status = ST_RUNNING; }
void sch_spawn(int tid, void (*fn)(int))
{
    T[tid].fn = fn; T[tid].state = TS_RUNNABLE; T[tid].turn = 0; T[tid].pend.kind = PK_START; T[tid].pend.off = 0; T[tid].pend.size = 0; T[tid].pend.isw = 0;
    if (pthread_create(&T[tid].pt, NULL, tramp, (void *) (intptr_t) tid)) { perror("pthread_create"); _exit(2); }
}
int sch_run(void)
{
    int first, i;
    active = 1;
    first = choose();
    if (first < 0) finish(ST_DEADLOCK);
    running = first; fwake(&T[first].turn);
    fwait(&main_turn);
    active = 0;
    for (i = 0; i < nthreads; i++) pthread_join(T[i].pt, NULL);
    sch_tr->npoints = pos; sch_tr->status = ST_OK;
    return ST_OK;
}
void sch_obs(int64_t v) { if (self >= 0 && sch_tr->nobs[self] < SCH_MAXOBS) sch_tr->obs[self][sch_tr->nobs[self]++] = v; }

/* ---------------- modelled pthread mutex ---------------- */
int __real_pthread_mutex_lock(pthread_mutex_t *); int __real_pthread_mutex_unlock(pthread_mutex_t *);
static int mtx_slot(void *m) { int i; for (i = 0; i < nmtx; i++) if (MTX[i].addr == m) return i; if (nmtx >= MAXMTX) { fprintf(stderr, "too many mutexes\n"); _exit(2); } MTX[nmtx].addr = m; MTX[nmtx].owner = -1; return nmtx++; }
int __wrap_pthread_mutex_lock(pthread_mutex_t *m)
{
    int s;
    if (!active || self < 0) return __real_pthread_mutex_lock(m);
    yield_point(PK_LOCK, m, sizeof *m, 0, (uintptr_t) __builtin_return_address(0));
    s = mtx_slot(m);
    while (MTX[s].owner != -1) {
        int next;
        T[self].state = TS_BLOCKED; T[self].waiting = m; T[self].pend.kind = PK_LOCK;
        next = choose();
        if (next < 0) finish(ST_DEADLOCK);
        switch_to(next);
    }
    MTX[s].owner = self;
    return 0;
}
int __wrap_pthread_mutex_unlock(pthread_mutex_t *m)
{
    int s, i;
    if (!active || self < 0) return __real_pthread_mutex_unlock(m);
    s = mtx_slot(m);
    if (MTX[s].owner != self) return EPERM;
    MTX[s].owner = -1;
    for (i = 0; i < nthreads; i++) if (T[i].state == TS_BLOCKED && T[i].waiting == m) { T[i].state = TS_RUNNABLE; T[i].waiting = NULL; }
    yield_point(PK_UNLOCK, m, sizeof *m, 0, (uintptr_t) __builtin_return_address(0));
    return 0;
}

/* ---------------- instrumentation callbacks ---------------- */
#define PC ((uintptr_t) __builtin_return_address(0))
#define RD(n) void __tsan_read##n(void *a) { if (in_data(a) && wany(a, n)) yield_point(PK_ACCESS, a, n, 0, PC); } void __tsan_unaligned_read##n(void *a) { if (in_data(a) && wany(a, n)) yield_point(PK_ACCESS, a, n, 0, PC); }
#define WR(n) void __tsan_write##n(void *a) { if (in_data(a)) { on_store(a, n); yield_point(PK_ACCESS, a, n, 1, PC); } } void __tsan_unaligned_write##n(void *a) { if (in_data(a)) { on_store(a, n); yield_point(PK_ACCESS, a, n, 1, PC); } }
RD(1) RD(2) RD(4) RD(8) RD(16) WR(1) WR(2) WR(4) WR(8) WR(16)
void __tsan_init(void) {}
void __tsan_func_entry(void *pc) { (void) pc; }
void __tsan_func_exit(void) {}
void __tsan_atomic_thread_fence(int mo) { (void) mo; __atomic_thread_fence(__ATOMIC_SEQ_CST); }
void __tsan_read_range(void *a, unsigned long n) { if (in_data(a) && wany(a, n)) yield_point(PK_RANGE, a, n, 0, PC); }
void __tsan_write_range(void *a, unsigned long n) { if (in_data(a)) { on_store(a, n); yield_point(PK_RANGE, a, n, 1, PC); } }
void __tsan_vptr_update(void **a, void *b) { (void) a; (void) b; }
void __tsan_vptr_read(void **a) { (void) a; }

void *__real_memcpy(void *, const void *, size_t); void *__real_memmove(void *, const void *, size_t); void *__real_memset(void *, int, size_t);
void *__wrap_memcpy(void *d, const void *s, size_t n) { if (n && in_data(d)) on_store(d, n); if (active && self >= 0 && n) { if (in_data(s) && wany(s, n)) yield_point(PK_RANGE, s, n, 0, PC); if (in_data(d)) yield_point(PK_RANGE, d, n, 1, PC); } return __real_memcpy(d, s, n); }
void *__wrap_memmove(void *d, const void *s, size_t n) { if (n && in_data(d)) on_store(d, n); if (active && self >= 0 && n) { if (in_data(s) && wany(s, n)) yield_point(PK_RANGE, s, n, 0, PC); if (in_data(d)) yield_point(PK_RANGE, d, n, 1, PC); } return __real_memmove(d, s, n); }
void *__wrap_memset(void *d, int c, size_t n) { if (n && in_data(d)) on_store(d, n); if (active && self >= 0 && n && in_data(d)) yield_point(PK_RANGE, d, n, 1, PC); return __real_memset(d, c, n); }

/* ---------------- deterministic environment ---------------- */
ssize_t __wrap_getrandom(void *buf, size_t len, unsigned flags)
{
    size_t i; (void) flags;
    if (len && in_data(buf)) on_store(buf, len);
    if (active && self >= 0 && in_data(buf)) yield_point(PK_RANGE, buf, len, 1, PC);    /* the kernel writes the caller's buffer */
    for (i = 0; i < len; i++) ((unsigned char *) buf)[i] = (unsigned char) (0xC5 ^ (i * 29));
    return (ssize_t) len;
}
