/* C06 seam driver: S = (a*b + c) mod L as computed by the signing path (sc25519_muladd) and the 64-byte reduction used for r and H(R,A,M)
 * (sc25519_reduce).  stdin: records of 1 tag byte ('M': a[32] b[32] c[32] -> s[32]; 'R': x[64] -> s[32]); stdout: the 32-byte results. */
#include <stdio.h>
#include <string.h>
#include <sodium.h>
#include "private/ed25519_ref10.h"

int main(void)
{
    unsigned char rec[96], s[64]; int t;
    if (sodium_init() < 0) return 2;
    while ((t = getchar()) != EOF) {
        if (t == 'M') { if (fread(rec, 1, 96, stdin) != 96) return 3; sc25519_muladd(s, rec, rec + 32, rec + 64); }
        else if (t == 'R') { if (fread(s, 1, 64, stdin) != 64) return 3; sc25519_reduce(s); }
        else return 4;
        fwrite(s, 1, 32, stdout);
    }
    return 0;
}
