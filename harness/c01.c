/* C01: authenticated encryption equals the published constructions, round-trips, all call forms agree.
 * One process = one backend configuration. */
#include "common.h"
#include "sym_table.h"

static unsigned long long n_eval, n_nontriv;
static int thorough;

/* scripted RNG for sealed boxes */
static const unsigned char *rng_script; static size_t rng_left; static int rng_strict;
static const char *rng_name(void) { return "verif-script"; }
static void rng_buf(void *const buf, const size_t size)
{
    if (!rng_strict) { memset(buf, 0x42, size); return; }     /* draws outside a scripted call (sodium_init) */
    if (size > rng_left) { printf("FAIL seal/rng-overdraw | a sealed box drew more than the 32 scripted bytes\n"); memset(buf, 0, size); rng_left = 0; return; }
    memcpy(buf, rng_script, size); rng_script += size; rng_left -= size;
}
static uint32_t rng_random(void) { uint32_t v; rng_buf(&v, 4); return v; }
static struct randombytes_implementation rng_impl = { rng_name, rng_random, NULL, NULL, rng_buf, NULL };

static const size_t ADL[14] = { 0, 1, 15, 16, 17, 31, 32, 33, 63, 64, 65, 127, 128, 129 };
static const size_t MLB[16] = { 0, 1, 15, 16, 17, 63, 64, 65, 223, 224, 225, 255, 256, 257, 512, 513 };

#define BAD(form, what) do { char _k[200]; snprintf(_k, sizeof _k, "%s/%s/mlen=%zu/adlen=%zu/pat=%s", C->name, form, mlen, adlen, vf_patname[pat]); \
    vf_fail(_k, "%s", what); } while (0)

static void one_case(const cons *C, size_t mlen, size_t adlen, int pat)
{
    unsigned char kbuf[32], nonce[32], tag_ref[32], tag[32];
    unsigned char *m = malloc(mlen + 64), *ad = malloc(adlen + 64), *c_ref = malloc(mlen + 64), *c = malloc(mlen + 128), *out = malloc(mlen + 128), *dm = malloc(mlen + 64);
    keyctx kc; ull ol; int r, x; size_t T = C->tlen;
    const unsigned char *adp = adlen ? ad : NULL;
    cons_keys(C, &kc, kbuf, pat, (int) (mlen + adlen));
    vf_pat(nonce, C->nlen, pat, 202 + mlen); vf_pat(m, mlen, (pat + 1) % PAT_N, 203); vf_pat(ad, adlen, (pat + 2) % PAT_N, 204);
    C->ref(c_ref, tag_ref, m, mlen, adp, adlen, nonce, kc.k);
    n_eval++; n_nontriv++;
    if (mlen == 17 && adlen <= 16) VF_SAMPLE_CASE(5, "%s mlen=%zu adlen=%zu pattern %s: key=%s nonce=%s -> reference ciphertext=%s tag=%s; all %d call forms compared", C->name, mlen, adlen, vf_patname[pat], vf_hex(kc.k, C->klen), vf_hex(nonce, C->nlen), vf_hex(c_ref, mlen), vf_hex(tag_ref, T), 2 + C->nx);
    /* combined */
    memset(out, 0xA5, mlen + 128); ol = 12345;
    r = C->enc(out + 16, &ol, m, mlen, adp, adlen, nonce, &kc);
    if (r != 0) BAD("combined", "encrypt returned non-zero");
    else {
        const unsigned char *cc = C->tag_first ? out + 16 + T : out + 16, *tt = C->tag_first ? out + 16 : out + 16 + mlen;
        if (ol != mlen + T) BAD("combined", "reported ciphertext length wrong");
        if (memcmp(cc, c_ref, mlen)) BAD("combined", "ciphertext differs from the reference construction");
        if (memcmp(tt, tag_ref, T)) BAD("combined", "tag differs from the reference construction");
        if (out[15] != 0xA5 || out[16 + mlen + T] != 0xA5) BAD("combined", "wrote outside mlen+ABYTES");
        memset(dm, 0xA5, mlen + 64); ol = 777;
        r = C->dec(dm, &ol, out + 16, mlen + T, adp, adlen, nonce, &kc);
        if (r != 0 || ol != mlen || memcmp(dm, m, mlen) || dm[mlen] != 0xA5) BAD("combined", "decrypt of own output failed / wrong message / wrong length");
    }
    /* detached */
    memset(c, 0xA5, mlen + 64); memset(tag, 0, 32);
    r = C->encd(c, tag, m, mlen, adp, adlen, nonce, &kc);
    if (r != 0 || memcmp(c, c_ref, mlen) || memcmp(tag, tag_ref, T) || c[mlen] != 0xA5) BAD("detached", "detached encrypt differs from the reference (or bad maclen / overrun)");
    memset(dm, 0xA5, mlen + 64);
    r = C->decd(dm, c_ref, mlen, tag_ref, adp, adlen, nonce, &kc);
    if (r != 0 || memcmp(dm, m, mlen) || dm[mlen] != 0xA5) BAD("detached", "detached decrypt of the reference ciphertext failed");
    if (C->null_m_verify) { int x2; r = C->decd(NULL, c_ref, mlen, tag_ref, adp, adlen, nonce, &kc); if (r != 0) BAD("verify-only", "m=NULL verification of a valid ciphertext failed");
        for (x2 = 0; x2 < C->nx; x2++) if (!strstr(C->x[x2].name, "nacl")) { r = C->x[x2].dec(NULL, c_ref, mlen, tag_ref, adp, adlen, nonce, &kc); if (r != 0) BAD(C->x[x2].name, "m=NULL verification of a valid ciphertext failed"); } }
    /* zero-length arguments given as NULL pointers (allowed by the prototypes) must give the same result as non-NULL empty buffers */
    if (mlen == 0 && !C->is_box) {
        memset(out, 0xA5, 128); ol = 4321;
        r = C->enc(out + 16, &ol, NULL, 0, adp, adlen, nonce, &kc); n_eval++;
        if (r != 0 || ol != T || memcmp(out + 16, tag_ref, T)) BAD("combined(m=NULL,mlen=0)", "differs from the reference / the non-NULL form");
        memset(tag, 0, 32); r = C->encd(c, tag, NULL, 0, adp, adlen, nonce, &kc);
        if (r != 0 || memcmp(tag, tag_ref, T)) BAD("detached(m=NULL,mlen=0)", "differs from the reference / the non-NULL form");
        r = C->decd(dm, NULL, 0, tag_ref, adp, adlen, nonce, &kc);
        if (r != 0) BAD("detached-decrypt(c=NULL,clen=0)", "valid empty ciphertext rejected");
    }
    /* extra forms */
    for (x = 0; x < C->nx; x++) {
        memset(c, 0xA5, mlen + 64); memset(tag, 0, 32);
        r = C->x[x].enc(c, tag, m, mlen, adp, adlen, nonce, &kc); n_eval++; n_nontriv++;
        if (r != 0 || memcmp(c, c_ref, mlen) || memcmp(tag, tag_ref, T)) BAD(C->x[x].name, "encrypt form differs from the reference");
        memset(dm, 0xA5, mlen + 64);
        r = C->x[x].dec(dm, c_ref, mlen, tag_ref, adp, adlen, nonce, &kc);
        if (r != 0 || memcmp(dm, m, mlen)) BAD(C->x[x].name, "decrypt form failed on the reference ciphertext");
    }
    free(m); free(ad); free(c_ref); free(c); free(out); free(dm);
}

static void seal_case(int which /*0 xsalsa, 1 xchacha*/, size_t mlen, int pat, int row)
{
    static const unsigned char zero16[16] = { 0 };
    unsigned char *m = malloc(mlen + 16), *c = malloc(mlen + 128), *c_ref = malloc(mlen + 16), *dm = malloc(mlen + 16);
    unsigned char tag_ref[16], k[32], nonce[24], pks[64]; int r; char key[160]; size_t adlen = 0;
    const cons *C = &CONS[which ? 9 : 8];
    row %= BOX_TABLE_N;
    vf_pat(m, mlen, pat, 211);
    memcpy(pks, BOX_TABLE[row].pka, 32); memcpy(pks + 32, BOX_TABLE[row].pkb, 32);
    ref_blake2b(nonce, 24, pks, 64, NULL, 0, NULL, NULL);
    if (which) ref_hchacha20(k, zero16, BOX_TABLE[row].q, NULL); else ref_hsalsa20(k, zero16, BOX_TABLE[row].q, NULL);
    if (which) ref_secretbox_xchacha20poly1305(c_ref, tag_ref, m, mlen, nonce, k); else ref_secretbox_xsalsa20poly1305(c_ref, tag_ref, m, mlen, nonce, k);
    rng_script = BOX_TABLE[row].ska; rng_left = 32; rng_strict = 1;   /* the ephemeral secret key is the only thing drawn */
    memset(c, 0xA5, mlen + 128);
    r = which ? crypto_box_curve25519xchacha20poly1305_seal(c + 16, m, mlen, BOX_TABLE[row].pkb) : crypto_box_seal(c + 16, m, mlen, BOX_TABLE[row].pkb);
    n_eval++; n_nontriv++; rng_strict = 0;
    snprintf(key, sizeof key, "%s/mlen=%zu/pat=%s/row=%d", which ? "box_seal_xchacha" : "box_seal", mlen, vf_patname[pat], row);
    if (r != 0 || rng_left != 0) vf_fail(key, "seal returned %d, %zu scripted bytes unused", r, rng_left);
    else if (memcmp(c + 16, BOX_TABLE[row].pka, 32) || memcmp(c + 48, tag_ref, 16) || memcmp(c + 64, c_ref, mlen) || c[15] != 0xA5 || c[64 + mlen] != 0xA5)
        vf_fail(key, "sealed box differs from epk || box(m, nonce=BLAKE2b-192(epk||pk)) (or overrun)");
    else {
        r = which ? crypto_box_curve25519xchacha20poly1305_seal_open(dm, c + 16, mlen + 48, BOX_TABLE[row].pkb, BOX_TABLE[row].skb) : crypto_box_seal_open(dm, c + 16, mlen + 48, BOX_TABLE[row].pkb, BOX_TABLE[row].skb);
        if (r != 0 || memcmp(dm, m, mlen)) vf_fail(key, "seal_open failed on its own output");
    }
    /* the message inside the output buffer (sealing in place): m == c, m == c + 32 (where the box starts), m == c + 48 (where the ciphertext ends up),
     * and every other start in [c - 8, c + 56] for short messages; seal_open with the message recovered in place */
    if (mlen > 0 && (mlen <= 70 || mlen % 64 <= 1)) {
        unsigned char *arena = malloc(mlen + 256); int off, lo = mlen <= 70 ? -8 : 0, hi = mlen <= 70 ? 56 : 48;
        for (off = lo; off <= hi; off += (mlen <= 70 ? 1 : 16)) {
            unsigned char *cc = arena + 64, *mm = cc + off;
            memset(arena, 0xA5, mlen + 256); memcpy(mm, m, mlen);
            rng_script = BOX_TABLE[row].ska; rng_left = 32; rng_strict = 1;
            r = which ? crypto_box_curve25519xchacha20poly1305_seal(cc, mm, mlen, BOX_TABLE[row].pkb) : crypto_box_seal(cc, mm, mlen, BOX_TABLE[row].pkb);
            n_eval++; n_nontriv++; rng_strict = 0;
            if (r != 0 || memcmp(cc, BOX_TABLE[row].pka, 32) || memcmp(cc + 32, tag_ref, 16) || memcmp(cc + 48, c_ref, mlen)) {
                snprintf(key, sizeof key, "%s/in-place/mlen=%zu/message-at=c%+d/row=%d", which ? "box_seal_xchacha" : "box_seal", mlen, off, row); vf_fail(key, "sealing with the message inside the output buffer differs from epk || box(m)"); break; }
            memset(arena, 0xA5, 64); mm = cc + off;       /* open with the output placed at the same relative position */
            r = which ? crypto_box_curve25519xchacha20poly1305_seal_open(mm, cc, mlen + 48, BOX_TABLE[row].pkb, BOX_TABLE[row].skb) : crypto_box_seal_open(mm, cc, mlen + 48, BOX_TABLE[row].pkb, BOX_TABLE[row].skb);
            if (r != 0 || memcmp(mm, m, mlen)) { snprintf(key, sizeof key, "%s_open/in-place/mlen=%zu/message-at=c%+d/row=%d", which ? "box_seal_xchacha" : "box_seal", mlen, off, row); vf_fail(key, "opening with the message buffer inside the sealed box failed (ret %d)", r); break; }
        }
        free(arena);
    }
    (void) C; (void) adlen;
    free(m); free(c); free(c_ref); free(dm);
}

/* ---- bit-length carry family: one length is >= 2^29 bytes, so its BIT count (what the AEAD length blocks of AEGIS and GCM encode, and the
 * byte count the ChaCha20-Poly1305 ones encode next to it) no longer fits 32 bits. For every construction with AD (the ones whose tag absorbs
 * 64-bit lengths; the Poly1305 boxes have no length block): shape 0 = (adlen 2^29+3, mlen 5) in both tiers, shape 1 = (mlen 2^29+3, adlen 3)
 * in the thorough tier. Contents: a 65521-byte R1 block repeated, in one read-only mapping shared by the workers (message at offset 7).
 * Oracle: the independent reference construction. Its (tag, ciphertext digest) depends on (seed, construction, shape) only, so it is computed
 * by whichever process needs it first and kept in $VERIF_C01_BIGREF.<seed>.<shape>.<construction> (set by the driver; without it: recomputed). */
#define BIGLEN ((size_t) 536870912 + 3)
#define BIGPER ((size_t) 65521)
static unsigned char *big_src; static int nbig;
static void *big_map(size_t n) { void *p = mmap(NULL, n, PROT_READ | PROT_WRITE, MAP_PRIVATE | MAP_ANONYMOUS | MAP_NORESERVE, -1, 0); if (p == MAP_FAILED) { perror("mmap"); exit(2); } return p; }
static uint64_t big_digest(const unsigned char *p, size_t n)      /* FNV-1a over 64-bit words: any single differing word changes it */
{ uint64_t h = 0xcbf29ce484222325ULL, w; size_t i; for (i = 0; i + 8 <= n; i += 8) { memcpy(&w, p + i, 8); h = (h ^ w) * 0x100000001b3ULL; } for (; i < n; i++) h = (h ^ p[i]) * 0x100000001b3ULL; return h; }
static void big_ref(const cons *C, int ci, int shape, size_t mlen, size_t adlen, const unsigned char *nonce, const unsigned char *k, unsigned char tag[32], uint64_t *dig)
{
    const char *base = getenv("VERIF_C01_BIGREF"); char path[700], tmp[760]; unsigned char rec[48], *c_ref; FILE *f;
    path[0] = 0;
    if (base && *base) { snprintf(path, sizeof path, "%s.%llu.%d.%d", base, (unsigned long long) vf_seed, shape, ci);
        if ((f = fopen(path, "rb")) != NULL) { size_t n = fread(rec, 1, 48, f); fclose(f); if (n == 48 && !memcmp(rec, "C01BIG\1", 8)) { memcpy(tag, rec + 8, 32); memcpy(dig, rec + 40, 8); return; } } }
    c_ref = big_map(mlen + 64); memset(tag, 0, 32);
    C->ref(c_ref, tag, big_src + 7, mlen, big_src, adlen, nonce, k);
    *dig = big_digest(c_ref, mlen); munmap(c_ref, mlen + 64);
    if (path[0]) { snprintf(tmp, sizeof tmp, "%s.tmp%ld", path, (long) getpid()); memcpy(rec, "C01BIG\1", 8); memcpy(rec + 8, tag, 32); memcpy(rec + 40, dig, 8);
        if ((f = fopen(tmp, "wb")) != NULL) { size_t n = fwrite(rec, 1, 48, f); if (fclose(f) == 0 && n == 48) rename(tmp, path); else remove(tmp); } }
}
#define BIGBAD(form, what) do { char _k[200]; snprintf(_k, sizeof _k, "%s/bit-length-carry/%s/mlen=%zu/adlen=%zu", C->name, form, mlen, adlen); vf_fail(_k, "%s", what); } while (0)
static void big_case(int b)
{
    int ci = b % NCONS, shape = b / NCONS, r; const cons *C = &CONS[ci]; size_t mlen = shape ? BIGLEN : 5, adlen = shape ? 3 : BIGLEN, T = C->tlen;
    unsigned char kbuf[32], nonce[32], tag_ref[32], tag[32], out[64], dm[16]; uint64_t dig_ref; keyctx kc; ull ol;
    const unsigned char *m = big_src + 7, *ad = big_src;
    /* the software-AES AEGIS backend runs at ~20 MB/s (27 s per pass): exercised in the thorough tier only, shape 0, one (detached) pass, in the
     * unmasked configuration of the builds that select it (noasm, generic); the hardware-AES backend and all other constructions: always */
    int soft = !strncmp(C->name, "aead_aegis", 10) && !(sodium_runtime_has_aesni() & sodium_runtime_has_avx()) && !sodium_runtime_has_armcrypto();
    const char *mask = getenv("SODIUM_VERIF_CPU_DISABLE");
    if (!C->has_ad || !C->avail()) return;
    if (soft && (!thorough || shape != 0 || (mask && *mask))) return;
    cons_keys(C, &kc, kbuf, PAT_R1, 0); vf_pat(nonce, C->nlen, PAT_R1, 212 + shape);
    big_ref(C, ci, shape, mlen, adlen, nonce, kc.k, tag_ref, &dig_ref);
    if (shape == 0) {
        if (!soft) {
        memset(out, 0xA5, sizeof out); ol = 12345;
        r = C->enc(out + 8, &ol, m, mlen, ad, adlen, nonce, &kc); n_eval++; n_nontriv++;
        if (r != 0 || ol != mlen + T) BIGBAD("combined", "encrypt failed / reported length wrong");
        else if (big_digest(out + 8, mlen) != dig_ref) BIGBAD("combined", "ciphertext differs from the reference construction");
        else if (memcmp(out + 8 + mlen, tag_ref, T)) BIGBAD("combined", "tag differs from the reference construction");
        else { memset(dm, 0xA5, sizeof dm); ol = 777; r = C->dec(dm, &ol, out + 8, mlen + T, ad, adlen, nonce, &kc);
            if (r != 0 || ol != mlen || memcmp(dm, m, mlen) || dm[mlen] != 0xA5) BIGBAD("combined", "decrypt of own output failed / wrong message / wrong length"); }
        }
        memset(out, 0xA5, sizeof out); memset(tag, 0, 32);
        r = C->encd(out, tag, m, mlen, ad, adlen, nonce, &kc); n_eval++; n_nontriv++;
        if (r != 0 || big_digest(out, mlen) != dig_ref || memcmp(tag, tag_ref, T) || out[mlen] != 0xA5) BIGBAD("detached", "detached encrypt differs from the reference (or bad maclen / overrun)");
    } else {
        unsigned char *c = big_map(mlen + 64); memset(tag, 0, 32);
        r = C->encd(c, tag, m, mlen, ad, adlen, nonce, &kc); n_eval++; n_nontriv++;
        if (r != 0 || big_digest(c, mlen) != dig_ref) BIGBAD("detached", "ciphertext differs from the reference construction");
        else if (memcmp(tag, tag_ref, T)) BIGBAD("detached", "tag differs from the reference construction");
        else { r = C->decd(c, c, mlen, tag_ref, ad, adlen, nonce, &kc);       /* in place */
            if (r != 0 || memcmp(c, m, mlen)) BIGBAD("detached", "detached decrypt (in place) of the reference ciphertext failed"); }
        munmap(c, mlen + 64);
    }
}

static size_t MAXM;
static void do_mlen(long L)
{
    size_t mlen = (size_t) L; int ci, pat, a; size_t adlen;
    if (L < 0) { big_case((int) (-L - 1)); return; }
    if (mlen > MAXM + 15) {          /* windows around the lengths at which the low byte of a 16-byte-block counter wraps (block 254 + 256 j: bytes 4064 + 4096 j), which
                                        also cover 64-byte-block multiples of 4096: every length in [-48, +80] around them */
        size_t wi = mlen - MAXM - 16, j = wi / 129, d = wi % 129;
        mlen = 4064 + 4096 * j + d - 48;
        for (ci = 0; ci < NCONS; ci++) if (CONS[ci].avail()) { one_case(&CONS[ci], mlen, CONS[ci].has_ad ? (j & 1 ? 33 : 0) : 0, PAT_R1); }
        return;
    }
    if (mlen > MAXM) {               /* isolated large lengths */
        static const size_t BIG[] = { 1023, 1024, 1025, 2047, 2048, 2049, 4095, 4096, 4097, 65535, 65536, 65537, 1048575, 1048576, 1048577 };
        size_t bi = mlen - MAXM - 1;
        if (bi >= sizeof BIG / sizeof BIG[0] || BIG[bi] <= MAXM) return;
        if (BIG[bi] > 5000 && !thorough) return;
        mlen = BIG[bi];
        for (ci = 0; ci < NCONS; ci++) if (CONS[ci].avail()) { one_case(&CONS[ci], mlen, CONS[ci].has_ad ? 33 : 0, PAT_R1); }
        seal_case(0, mlen, PAT_R1, 3); seal_case(1, mlen, PAT_R1, 4);
        return;
    }
    for (ci = 0; ci < NCONS; ci++) {
        const cons *C = &CONS[ci];
        if (!C->avail()) continue;
        for (pat = 0; pat < PAT_N; pat++) {
            if (!thorough && !(pat == PAT_C || pat == PAT_R1 || pat == PAT_F)) continue;
            if (!C->has_ad) { one_case(C, mlen, 0, pat); continue; }
            for (a = 0; a < 14; a++) {
                if (pat != PAT_R1 && a % 3 != pat % 3) continue;    /* full AD set on R1, a third of it on the other patterns */
                one_case(C, mlen, ADL[a], pat);
            }
        }
        /* AD lengths 0..288 at the boundary message lengths */
        if (C->has_ad) { int b; for (b = 0; b < 16; b++) if (MLB[b] == mlen) for (adlen = 0; adlen <= (thorough ? 480 : 288); adlen++) one_case(C, mlen, adlen, PAT_R2); }
    }
    for (pat = 0; pat < (thorough ? PAT_N : 2); pat++) { seal_case(0, mlen, pat ? PAT_R1 : PAT_C, (int) mlen); seal_case(1, mlen, pat ? PAT_R1 : PAT_C, (int) mlen + 1); }
}

static void fin(void) { vf_stat("evaluations", n_eval); vf_stat("nontrivial", n_nontriv); n_eval = n_nontriv = 0; }

int main(void)
{
    int ci;
    vf_init_seed();
    thorough = vf_tier_thorough();
    MAXM = thorough ? 2304 : 640;
    randombytes_set_implementation(&rng_impl);
    if (sodium_init() < 0) return 2;
    printf("INFO features avx2=%d ssse3=%d sse2=%d aesni=%d pclmul=%d avx=%d gcm=%d\n", sodium_runtime_has_avx2(), sodium_runtime_has_ssse3(), sodium_runtime_has_sse2(),
           sodium_runtime_has_aesni(), sodium_runtime_has_pclmul(), sodium_runtime_has_avx(), crypto_aead_aes256gcm_is_available());
    for (ci = 0; ci < NCONS; ci++) printf("INFO construction %s available=%d forms=%d\n", CONS[ci].name, CONS[ci].avail(), 2 + CONS[ci].nx);
    nbig = NCONS * (thorough ? 2 : 1);
    big_src = big_map(BIGLEN + 64 + 2 * BIGPER); vf_pat(big_src, BIGPER, PAT_R1, 210);
    { size_t have = BIGPER, want = BIGLEN + 64; while (have < want) { size_t n = have < want - have ? have : want - have; memcpy(big_src + have, big_src, n); have += n; } }
    vf_parallel(16, -(long) nbig, (long) MAXM + 1 + 15 + 129 * (thorough ? 16 : 8), do_mlen, fin);
    vf_sample("aead_aes256gcm mlen=225 adlen=224 pattern R2: combined, detached, NULL-length-pointer and both afternm forms vs SP 800-38D reference");
    vf_sample("secretbox_xsalsa20poly1305 mlen=0: easy = 16-byte tag only; NaCl zero-padded form agrees");
    vf_sample("box_seal mlen=17 row=1: scripted RNG serves esk = ff*32; c = epk || tag || ct with nonce BLAKE2b-192(epk||pk)");
    vf_sample("aead_aegis256 mlen=65 adlen=33 pattern F: 32-byte tag vs draft-irtf-cfrg-aegis-aead reference");
    return 0;
}
