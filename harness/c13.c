/* C13: in-place and overlapping buffers give the same result as disjoint ones. One process = one backend configuration. */
#include "common.h"
#include "sym_table.h"

static unsigned long long n_eval, n_nontriv;
static int thorough; static size_t MAXL;

typedef int (*f_xor)(unsigned char *, const unsigned char *, unsigned long long, const unsigned char *, const unsigned char *);
static const struct { const char *name; f_xor fn; size_t nlen; } XORS[] = {
    { "stream_chacha20_xor", crypto_stream_chacha20_xor, 8 }, { "stream_chacha20_ietf_xor", crypto_stream_chacha20_ietf_xor, 12 },
    { "stream_xchacha20_xor", crypto_stream_xchacha20_xor, 24 }, { "stream_salsa20_xor", crypto_stream_salsa20_xor, 8 },
    { "stream_salsa2012_xor", crypto_stream_salsa2012_xor, 8 }, { "stream_salsa208_xor", crypto_stream_salsa208_xor, 8 },
    { "stream_xsalsa20_xor", crypto_stream_xsalsa20_xor, 24 }, { "crypto_stream_xor", crypto_stream_xor, 24 } };

/* rejected (forged) input: the in-place call must behave like the disjoint one - same return value and, where the disjoint call leaves a defined
 * output (the same bytes whatever the buffer held before), the same bytes; where the disjoint call does not touch its output, the shared buffer must be left as it was */
static void forged_inplace(const cons *C, keyctx *kc, const unsigned char *ct, const unsigned char *tag, size_t len, size_t T, const unsigned char *ad, size_t adlen, const unsigned char *nonce)
{
    unsigned char *d1 = malloc(len + 64), *d2 = malloc(len + 64), *a = malloc(len + 64), *cc = malloc(len + 64), t2[64]; int v, form, r1, r2, ra; char k[200]; size_t i;
    for (v = 0; v < 3; v++) {
        if (v == 2 && len == 0) break;
        memcpy(cc, ct, len); memcpy(t2, tag, T);
        if (v == 0) t2[0] ^= 1; else if (v == 1) t2[T - 1] ^= 0x80; else cc[len / 2] ^= 4;
        for (form = -1; form < C->nx; form++) {
            if (form >= 0 && (strstr(C->x[form].name, "nacl"))) continue;
            memset(d1, 0xaa, len); memset(d2, 0x55, len); memcpy(a, cc, len);
            if (form < 0) { r1 = C->decd(d1, cc, len, t2, ad, adlen, nonce, kc); r2 = C->decd(d2, cc, len, t2, ad, adlen, nonce, kc); ra = C->decd(a, a, len, t2, ad, adlen, nonce, kc); }
            else { r1 = C->x[form].dec(d1, cc, len, t2, ad, adlen, nonce, kc); r2 = C->x[form].dec(d2, cc, len, t2, ad, adlen, nonce, kc); ra = C->x[form].dec(a, a, len, t2, ad, adlen, nonce, kc); }
            n_eval++; n_nontriv++;
            snprintf(k, sizeof k, "%s/%s-forged-decrypt-inplace/len=%zu/variant=%d", C->name, form < 0 ? "detached" : C->x[form].name, len, v);
            if (r1 == 0 || r2 == 0) continue;          /* acceptance of forgeries is judged by C02, not here */
            if (ra != r1) { vf_fail(k, "in-place call returned %d, disjoint call %d", ra, r1); continue; }
            if (len == 0) continue;
            if (memcmp(d1, d2, len) == 0) { if (memcmp(a, d1, len)) vf_fail(k, "after a rejected call the shared buffer differs from what the disjoint call leaves in its output (first bytes %s vs %s)", vf_hex(a, len < 8 ? len : 8), vf_hex(d1, len < 8 ? len : 8)); }
            else { int untouched = 1; for (i = 0; i < len; i++) if (d1[i] != 0xaa || d2[i] != 0x55) untouched = 0;
                   if (untouched && memcmp(a, cc, len)) vf_fail(k, "the disjoint call leaves its output untouched on rejection but the in-place call modified the shared buffer"); }
        }
    }
    free(d1); free(d2); free(a); free(cc);
}

/* (a) exact aliasing c == m */
static void alias_len(long L)
{
    size_t len = (size_t) L, T; unsigned char key[32], nonce[32], kbuf[32]; unsigned i; int ci, x; char k[160];
    unsigned char *m = malloc(len + 64), *d = malloc(len + 128), *a = malloc(len + 128), tagd[32], taga[32];
    vf_pat(key, 32, PAT_R1, 401); vf_pat(nonce, 32, PAT_C, 402); vf_pat(m, len, PAT_R2, 403 + len);
    for (i = 0; i < sizeof XORS / sizeof XORS[0]; i++) {
        XORS[i].fn(d, m, len, nonce, key); memcpy(a + 16, m, len); XORS[i].fn(a + 16, a + 16, len, nonce, key); n_eval++; if (len) n_nontriv++;
        if (memcmp(a + 16, d, len)) { snprintf(k, sizeof k, "%s/inplace/len=%zu", XORS[i].name, len); vf_fail(k, "in-place result differs from the disjoint result"); }
    }
    { unsigned char *b2 = malloc(len + 64);
      crypto_stream_chacha20_xor_ic(d, m, len, nonce, 0xfffffffeULL, key); memcpy(b2, m, len); crypto_stream_chacha20_xor_ic(b2, b2, len, nonce, 0xfffffffeULL, key); n_eval++;
      if (memcmp(b2, d, len)) { snprintf(k, sizeof k, "stream_chacha20_xor_ic/inplace/len=%zu", len); vf_fail(k, "in-place differs"); }
      crypto_stream_salsa20_xor_ic(d, m, len, nonce, 0xfffffffeULL, key); memcpy(b2, m, len); crypto_stream_salsa20_xor_ic(b2, b2, len, nonce, 0xfffffffeULL, key); n_eval++;
      if (memcmp(b2, d, len)) { snprintf(k, sizeof k, "stream_salsa20_xor_ic/inplace/len=%zu", len); vf_fail(k, "in-place differs"); }
      free(b2); }
    for (ci = 0; ci < NCONS; ci++) {
        const cons *C = &CONS[ci]; keyctx kc; size_t adlen = C->has_ad ? 19 : 0; unsigned char ad[32]; ull ol;
        if (!C->avail()) continue;
        T = C->tlen; cons_keys(C, &kc, kbuf, PAT_R1, (int) len); vf_pat(ad, 32, PAT_H, 404);
        /* combined encrypt in place: for tag-last layouts c == m; for tag-first (easy) layouts the natural in-place form is c = buf, m = buf + T */
        C->enc(d, &ol, m, len, ad, adlen, nonce, &kc);
        if (C->tag_first) { memcpy(a + T, m, len); C->enc(a, &ol, a + T, len, ad, adlen, nonce, &kc); }
        else { memcpy(a, m, len); C->enc(a, &ol, a, len, ad, adlen, nonce, &kc); }
        n_eval++; n_nontriv++;
        if (memcmp(a, d, len + T)) { snprintf(k, sizeof k, "%s/combined-encrypt-inplace/len=%zu", C->name, len); vf_fail(k, "in-place result differs from the disjoint result"); }
        /* combined decrypt in place */
        { unsigned char *p = malloc(len + 64); int r; memcpy(a, d, len + T);
          r = C->tag_first ? C->dec(a + T, &ol, a, len + T, ad, adlen, nonce, &kc) : C->dec(a, &ol, a, len + T, ad, adlen, nonce, &kc); n_eval++; n_nontriv++;
          if (r != 0 || memcmp(C->tag_first ? a + T : a, m, len)) { snprintf(k, sizeof k, "%s/combined-decrypt-inplace/len=%zu", C->name, len); vf_fail(k, "in-place decrypt wrong (ret %d)", r); }
          free(p); }
        /* detached, c == m */
        C->encd(d, tagd, m, len, ad, adlen, nonce, &kc); memcpy(a, m, len); C->encd(a, taga, a, len, ad, adlen, nonce, &kc); n_eval++; n_nontriv++;
        if (memcmp(a, d, len) || memcmp(taga, tagd, T)) { snprintf(k, sizeof k, "%s/detached-encrypt-inplace/len=%zu", C->name, len); vf_fail(k, "in-place differs"); }
        { int r = C->decd(a, a, len, taga, ad, adlen, nonce, &kc); n_eval++; n_nontriv++;
          if (r != 0 || memcmp(a, m, len)) { snprintf(k, sizeof k, "%s/detached-decrypt-inplace/len=%zu", C->name, len); vf_fail(k, "in-place decrypt wrong"); } }
        if (len <= 1201 ? (len % 3 == 0 || len < 130) : 1) forged_inplace(C, &kc, d, tagd, len, T, ad, adlen, nonce);
        for (x = 0; x < C->nx; x++) {      /* extra forms with c == m */
            memcpy(a, m, len); memset(taga, 0, 32); C->x[x].enc(a, taga, a, len, ad, adlen, nonce, &kc); n_eval++; n_nontriv++;
            if (memcmp(a, d, len) || memcmp(taga, tagd, T)) { snprintf(k, sizeof k, "%s/%s-encrypt-inplace/len=%zu", C->name, C->x[x].name, len); vf_fail(k, "in-place differs"); }
            C->x[x].dec(a, a, len, taga, ad, adlen, nonce, &kc);
            if (memcmp(a, m, len)) { snprintf(k, sizeof k, "%s/%s-decrypt-inplace/len=%zu", C->name, C->x[x].name, len); vf_fail(k, "in-place decrypt wrong"); }
        }
    }
    free(m); free(d); free(a);
}

/* (b) arbitrary overlap: secretbox/box easy+detached (+afternm), crypto_sign, crypto_sign_open; every offset -80..+80 */
#define ARENA 4096
static unsigned char skA[64], pkA[32];
/* offsets tried for a length: every offset in [-80, +80]; every multiple of 64 +-1 up to the length (stride edges of the vector cores and of any
 * "far enough apart" shortcut); and, for three lengths, EVERY offset at which the buffers still overlap (and 20 beyond) */
static int OFFS[4200]; static int NOFFS; static int far_res = -1;       /* far_res >= 0: this worker takes every 8th offset */
static void build_offsets(size_t len)
{
    int o, k, lim = (int) len + 20; NOFFS = 0; if (lim > 1000) lim = 1000;
    if (len == 257 || len == 600 || len == 1100 || (thorough && (len == 1000 || len == 513))) { for (o = -lim; o <= lim; o++) OFFS[NOFFS++] = o; return; }
    for (o = -80; o <= 80; o++) OFFS[NOFFS++] = o;
    for (k = 2; 64 * k - 1 <= lim && 64 * k + 1 <= 1000; k++) for (o = -1; o <= 1; o++) { OFFS[NOFFS++] = 64 * k + o; OFFS[NOFFS++] = -(64 * k + o); }
    if ((int) len > 81) { OFFS[NOFFS++] = (int) len - 1; OFFS[NOFFS++] = -((int) len - 1); OFFS[NOFFS++] = (int) len; OFFS[NOFFS++] = -(int) len; }
}
static void overlap_len(long L)
{
    size_t len = (size_t) L; int off, oi, ci, f; unsigned char kbuf[32], nonce[24], *m = malloc(len + 16), *dis = malloc(len + 128), tagd[16], *arena = malloc(ARENA + len * 2), *ref_m = malloc(len + 128); char k[200];
    vf_pat(nonce, 24, PAT_C, 411); vf_pat(m, len, PAT_R1, 412 + len); build_offsets(len);
    for (ci = 6; ci < NCONS; ci++) {       /* secretbox x2, box x2 */
        const cons *C = &CONS[ci]; keyctx kc; ull ol;
        cons_keys(C, &kc, kbuf, PAT_R2, (int) len);
        C->enc(dis, &ol, m, len, NULL, 0, nonce, &kc);                                  /* disjoint reference: tag || c */
        for (oi = 0; oi < NOFFS; oi++) { off = OFFS[oi]; if (far_res >= 0 && oi % 8 != far_res) continue;
            unsigned char *base = arena + 1300, *in = base, *out = base + off; int r;
            /* easy: out = in + off */
            memcpy(in, m, len); r = C->enc(out, &ol, in, len, NULL, 0, nonce, &kc); n_eval++; n_nontriv++;
            if (len == 96 && (off == -47 || off == 33)) VF_SAMPLE_CASE(4, "%s easy form, len=%zu, output starts %d bytes %s the message: result %s... must equal the disjoint-buffer result", C->name, len, off < 0 ? -off : off, off < 0 ? "below" : "above", vf_hex(out, 24));
            if (r != 0 || memcmp(out, dis, len + 16)) { snprintf(k, sizeof k, "%s/easy-overlap/len=%zu/off=%d", C->name, len, off); vf_fail(k, "overlapping result differs from the disjoint result"); }
            /* open_easy: input = tag||c at in, message out at in + off */
            memcpy(in, dis, len + 16); r = C->dec(out, &ol, in, len + 16, NULL, 0, nonce, &kc); n_eval++; n_nontriv++;
            if (r != 0 || memcmp(out, m, len)) { snprintf(k, sizeof k, "%s/open_easy-overlap/len=%zu/off=%d", C->name, len, off); vf_fail(k, "overlapping open differs (ret %d)", r); }
            /* detached: c = in + off, mac separate */
            memcpy(in, m, len); r = C->encd(out, tagd, in, len, NULL, 0, nonce, &kc); n_eval++; n_nontriv++;
            if (r != 0 || memcmp(out, dis + 16, len) || memcmp(tagd, dis, 16)) { snprintf(k, sizeof k, "%s/detached-overlap/len=%zu/off=%d", C->name, len, off); vf_fail(k, "overlapping result differs from the disjoint result"); }
            memcpy(in, dis + 16, len); r = C->decd(out, in, len, dis, NULL, 0, nonce, &kc); n_eval++; n_nontriv++;
            if (r != 0 || memcmp(out, m, len)) { snprintf(k, sizeof k, "%s/open_detached-overlap/len=%zu/off=%d", C->name, len, off); vf_fail(k, "overlapping open differs (ret %d)", r); }
            for (f = 0; f < C->nx; f++) {
                if (strstr(C->x[f].name, "nacl")) continue;           /* the zero-padded forms are only specified for c == m */
                if (strstr(C->x[f].name, "easy")) continue;           /* normalising wrappers copy; the raw afternm-easy forms are driven below */
                memcpy(in, m, len); r = C->x[f].enc(out, tagd, in, len, NULL, 0, nonce, &kc); n_eval++; n_nontriv++;
                if (r != 0 || memcmp(out, dis + 16, len) || memcmp(tagd, dis, 16)) { snprintf(k, sizeof k, "%s/%s-overlap/len=%zu/off=%d", C->name, C->x[f].name, len, off); vf_fail(k, "overlapping result differs"); }
                memcpy(in, dis + 16, len); r = C->x[f].dec(out, in, len, dis, NULL, 0, nonce, &kc); n_eval++; n_nontriv++;
                if (r != 0 || memcmp(out, m, len)) { snprintf(k, sizeof k, "%s/%s-open-overlap/len=%zu/off=%d", C->name, C->x[f].name, len, off); vf_fail(k, "overlapping open differs"); }
            }
            if (C->is_box) {       /* raw easy_afternm forms */
                unsigned char bk[32];
                if (ci == 8) { crypto_box_beforenm(bk, kc.pk, kc.sk); memcpy(in, m, len); r = crypto_box_easy_afternm(out, in, len, nonce, bk); }
                else { crypto_box_curve25519xchacha20poly1305_beforenm(bk, kc.pk, kc.sk); memcpy(in, m, len); r = crypto_box_curve25519xchacha20poly1305_easy_afternm(out, in, len, nonce, bk); }
                n_eval++; n_nontriv++;
                if (r != 0 || memcmp(out, dis, len + 16)) { snprintf(k, sizeof k, "%s/easy_afternm-overlap/len=%zu/off=%d", C->name, len, off); vf_fail(k, "overlapping result differs"); }
                memcpy(in, dis, len + 16);
                r = ci == 8 ? crypto_box_open_easy_afternm(out, in, len + 16, nonce, bk) : crypto_box_curve25519xchacha20poly1305_open_easy_afternm(out, in, len + 16, nonce, bk);
                n_eval++; n_nontriv++;
                if (r != 0 || memcmp(out, m, len)) { snprintf(k, sizeof k, "%s/open_easy_afternm-overlap/len=%zu/off=%d", C->name, len, off); vf_fail(k, "overlapping open differs"); }
            }
        }
    }
    /* crypto_sign / crypto_sign_open */
    { ull sl; crypto_sign(dis, &sl, m, len, skA);
      for (oi = 0; oi < NOFFS; oi++) { off = OFFS[oi]; if (far_res >= 0 && oi % 8 != far_res) continue;
          unsigned char *base = arena + 1300, *in = base, *out = base + off; ull ol = 0; int r;
          memcpy(in, m, len); r = crypto_sign(out, &ol, in, len, skA); n_eval++; n_nontriv++;
          if (r != 0 || ol != len + 64 || memcmp(out, dis, len + 64)) { snprintf(k, sizeof k, "crypto_sign/overlap/len=%zu/off=%d", len, off); vf_fail(k, "overlapping signed message differs from the disjoint result"); }
          memcpy(in, dis, len + 64); ol = 0; r = crypto_sign_open(out, &ol, in, len + 64, pkA); n_eval++; n_nontriv++;
          if (r != 0 || ol != len || memcmp(out, m, len)) { snprintf(k, sizeof k, "crypto_sign_open/overlap/len=%zu/off=%d", len, off); vf_fail(k, "overlapping open differs (ret %d)", r); }
      } }
    free(m); free(dis); free(arena); free(ref_m);
}

static void overlap_far(long i) { far_res = (int) (i % 8); overlap_len(i < 8 ? 600 : 1100); far_res = -1; }
static void fin(void) { vf_stat("evaluations", n_eval); vf_stat("nontrivial", n_nontriv); n_eval = n_nontriv = 0; }
int main(void)
{
    unsigned char seed[32];
    vf_init_seed(); thorough = vf_tier_thorough(); MAXL = thorough ? 1200 : 330;
    if (sodium_init() < 0) return 2;
    printf("INFO features avx2=%d ssse3=%d sse2=%d aesni=%d\n", sodium_runtime_has_avx2(), sodium_runtime_has_ssse3(), sodium_runtime_has_sse2(), sodium_runtime_has_aesni());
    vf_pat(seed, 32, PAT_R1, 400); crypto_sign_seed_keypair(pkA, skA, seed);
    vf_parallel(16, 0, 1201, alias_len, fin);
    { static const long BIG[] = { 4095, 4096, 4097, 8193, 16385, 65535, 65537, 131073, 1048577 }; unsigned b; for (b = 0; b < sizeof BIG / sizeof BIG[0]; b++) alias_len(BIG[b]); fin(); }
    vf_parallel(16, 0, (long) MAXL + 1, overlap_len, fin);
    if (MAXL < 1100) vf_parallel(16, 0, 16, overlap_far, fin);      /* the two longer every-offset lengths that the quick range does not reach */
    vf_sample("crypto_secretbox_detached len=96 with c = m - 47 (output starts 47 bytes below the message, buffers overlap)");
    vf_sample("crypto_box_easy len=200 with c = m + 16 .. m + 80 and c = m - 80 .. m - 1");
    vf_sample("aead_aes256gcm combined encrypt with c == m, every len 0..1200");
    vf_sample("crypto_sign_open with m = sm + 64 (message recovered in place) and every other offset -80..80");
    return 0;
}
