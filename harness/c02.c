/* C02: forged / altered inputs are rejected and release no plaintext. Every single-bit flip of every field, every truncation,
 * suffix extensions, inputs shorter than the tag; output buffer judged differentially between two tuples. */
#include "common.h"
#include "sym_table.h"

static unsigned long long n_eval, n_nontriv, n_equiv;
static int thorough;

static const size_t MLQ[17] = { 0, 1, 15, 16, 17, 31, 32, 33, 63, 64, 65, 127, 128, 129, 255, 256, 257 };
static const size_t ADQ[5] = { 0, 1, 16, 17, 225 };   /* 225 (past the 224-byte GHASH aggregation width) only at two message lengths */

typedef struct {
    unsigned char kbuf[32], nonce[32], tag[32], *m, *ad, *c;
    keyctx kc; unsigned char pk2[32], sk2[32];   /* mutable copies for box key flips */
} tuple;

static void tuple_make(const cons *C, tuple *t, size_t mlen, size_t adlen, int variant, int row)
{
    int kp = variant ? PAT_R2 : PAT_R1, mp = variant ? PAT_H : PAT_C;
    t->m = malloc(mlen + 64); t->ad = malloc(adlen + 64); t->c = malloc(mlen + 64);
    cons_keys(C, &t->kc, t->kbuf, kp, row + variant * 3);
    vf_pat(t->nonce, C->nlen, PAT_C, 301 + mlen);            /* same nonce and AD in both tuples: only key and plaintext differ */
    vf_pat(t->m, mlen, mp, 302); vf_pat(t->ad, adlen, PAT_R1, 303);
    C->ref(t->c, t->tag, t->m, mlen, adlen ? t->ad : NULL, adlen, t->nonce, t->kc.k);
    if (C->is_box) { memcpy(t->pk2, t->kc.pk2, 32); memcpy(t->sk2, t->kc.sk2, 32); t->kc.pk2 = t->pk2; t->kc.sk2 = t->sk2; }
}
static void tuple_free(tuple *t) { free(t->m); free(t->ad); free(t->c); }

/* a forged decrypt attempt in every form; returns a digest of all output buffers after the calls (for the differential check) */
#define OUTCAP 800
static int forged_call(const cons *C, const tuple *t, const unsigned char *c, size_t clen, const unsigned char *tag, const unsigned char *ad, size_t adlen,
                       const unsigned char *nonce, const keyctx *kc, unsigned char *outimg /* 6*OUTCAP */, const char **why)
{
    unsigned char *comb = malloc(clen + 64), *o; ull ml; int r, x, bad = 0; size_t T = C->tlen, i;
    (void) t;
    memset(outimg, 0xA5, 6 * OUTCAP);
    /* combined */
    if (C->tag_first) { memcpy(comb, tag, T); memcpy(comb + T, c, clen); } else { memcpy(comb, c, clen); memcpy(comb + clen, tag, T); }
    o = outimg; ml = 4242;
    r = C->dec(o + 16, &ml, comb, clen + T, adlen ? ad : NULL, adlen, nonce, kc);
    if (r == 0) { bad = 1; *why = "combined decrypt accepted a forgery"; }
    else if (ml != 0) { bad = 1; *why = "combined decrypt failed but reported a non-zero message length"; }
    /* detached */
    o = outimg + OUTCAP;
    r = C->decd(o + 16, c, clen, tag, adlen ? ad : NULL, adlen, nonce, kc);
    if (r == 0 && !bad) { bad = 1; *why = "detached decrypt accepted a forgery"; }
    if (C->null_m_verify) { r = C->decd(NULL, c, clen, tag, adlen ? ad : NULL, adlen, nonce, kc); if (r == 0 && !bad) { bad = 1; *why = "verify-only (m=NULL) accepted a forgery"; }
        ml = 4242; r = C->dec(NULL, &ml, comb, clen + T, adlen ? ad : NULL, adlen, nonce, kc); if (r == 0 && !bad) { bad = 1; *why = "combined verify-only (m=NULL) accepted a forgery"; }
        for (x = 0; x < C->nx; x++) if (!strstr(C->x[x].name, "nacl")) { r = C->x[x].dec(NULL, c, clen, tag, adlen ? ad : NULL, adlen, nonce, kc); if (r == 0 && !bad) { bad = 1; *why = "verify-only (m=NULL) extra form accepted a forgery"; } } }
    for (x = 0; x < C->nx; x++) {
        o = outimg + (2 + x) * OUTCAP;
        r = C->x[x].dec(o + 16, c, clen, tag, adlen ? ad : NULL, adlen, nonce, kc);
        if (r == 0 && !bad) { bad = 1; *why = C->x[x].name; }
    }
    /* canaries: nothing outside [16, 16+clen) of each image may be written */
    for (x = 0; x < 6 && !bad; x++) for (i = 0; i < OUTCAP; i++) if ((i < 16 || i >= 16 + clen) && outimg[x * OUTCAP + i] != 0xA5) { bad = 1; *why = "wrote outside the message buffer on failure"; break; }
    free(comb);
    n_eval++; n_nontriv++;
    return bad;
}

static void forge_pair(const cons *C, tuple *A, tuple *B, size_t mlen, size_t adlen, const char *what, long pos,
                       const unsigned char *cA, const unsigned char *cB, size_t clen, const unsigned char *tA, const unsigned char *tB,
                       const unsigned char *adA, const unsigned char *adB, size_t adl, const unsigned char *nA, const unsigned char *nB, const keyctx *kA, const keyctx *kB)
{
    static unsigned char imgA[6 * OUTCAP], imgB[6 * OUTCAP]; const char *why = ""; char key[200]; int b1, b2;
    snprintf(vf_ctx, sizeof vf_ctx, "%s/%s@%ld/mlen=%zu/adlen=%zu", C->name, what, pos, mlen, adlen);
    if (pos == 9) VF_SAMPLE_CASE(5, "%s mlen=%zu adlen=%zu forgery '%s' at position %ld: every decrypt form must fail, report length 0, and leave identical output buffers for two different (key, plaintext) tuples; presented tag=%s", C->name, mlen, adlen, what, pos, vf_hex(tA, C->tlen));
    b1 = forged_call(C, A, cA, clen, tA, adA, adl, nA, kA, imgA, &why);
    b2 = forged_call(C, B, cB, clen, tB, adB, adl, nB, kB, imgB, &why);
    if (b1 || b2) { snprintf(key, sizeof key, "%s/%s@%ld/mlen=%zu/adlen=%zu", C->name, what, pos, mlen, adlen); vf_fail(key, "%s", why); return; }
    if (memcmp(imgA, imgB, sizeof imgA) != 0) {
        size_t d = 0; while (imgA[d] == imgB[d]) d++;
        snprintf(key, sizeof key, "%s/%s@%ld/mlen=%zu/adlen=%zu", C->name, what, pos, mlen, adlen);
        vf_fail(key, "output buffer after a rejected call depends on key/plaintext (form %zu, byte %zu: %02x vs %02x) - unauthenticated data released",
                d / OUTCAP, d % OUTCAP - 16, imgA[d], imgB[d]);
    }
}

static void flip(unsigned char *dst, const unsigned char *src, size_t len, size_t bit) { memcpy(dst, src, len); dst[bit >> 3] ^= (unsigned char) (1u << (bit & 7)); }

static void cons_case(const cons *C, size_t mlen, size_t adlen)
{
    tuple A, B; size_t T = C->tlen, b, l; unsigned char *xa = malloc(mlen + adlen + 128), *xb = malloc(mlen + adlen + 128), ya[64], yb[64];
    tuple_make(C, &A, mlen, adlen, 0, (int) mlen); tuple_make(C, &B, mlen, adlen, 1, (int) mlen);
    /* sanity: the untouched tuples are accepted (otherwise every rejection below would be vacuous) */
    { unsigned char *dm = malloc(mlen + 64); int r = C->decd(dm, A.c, mlen, A.tag, adlen ? A.ad : NULL, adlen, A.nonce, &A.kc);
      if (r != 0 || memcmp(dm, A.m, mlen)) { char key[128]; snprintf(key, sizeof key, "%s/valid-rejected/mlen=%zu/adlen=%zu", C->name, mlen, adlen); vf_fail(key, "reference ciphertext not accepted"); }
      free(dm); }
#define FP(what, pos, CA, CB, CL, TA, TB, ADA, ADB, ADL, NA, NB, KA, KB) forge_pair(C, &A, &B, mlen, adlen, what, (long) (pos), CA, CB, CL, TA, TB, ADA, ADB, ADL, NA, NB, KA, KB)
    for (b = 0; b < 8 * mlen; b++) { flip(xa, A.c, mlen, b); flip(xb, B.c, mlen, b); FP("ciphertext-bit", b, xa, xb, mlen, A.tag, B.tag, A.ad, B.ad, adlen, A.nonce, B.nonce, &A.kc, &B.kc); }
    for (b = 0; b < 8 * T; b++) { flip(ya, A.tag, T, b); flip(yb, B.tag, T, b); FP("tag-bit", b, A.c, B.c, mlen, ya, yb, A.ad, B.ad, adlen, A.nonce, B.nonce, &A.kc, &B.kc); }
    /* structured 2-bit forgeries: the same bit flipped in two (three, four) 16-byte lanes of a 32/64-byte tag - cancels in a verifier that XORs lanes */
    if (T >= 32) for (b = 0; b < 128; b++) { size_t l2; for (l2 = 1; l2 < T / 16; l2++) { flip(ya, A.tag, T, b); ya[(b >> 3) + 16 * l2] ^= (unsigned char) (1u << (b & 7)); flip(yb, B.tag, T, b); yb[(b >> 3) + 16 * l2] ^= (unsigned char) (1u << (b & 7));
        FP("tag-2lane-bit", b + 1000 * l2, A.c, B.c, mlen, ya, yb, A.ad, B.ad, adlen, A.nonce, B.nonce, &A.kc, &B.kc); } }
    for (b = 0; b < 8 * adlen; b++) { flip(xa, A.ad, adlen, b); flip(xb, B.ad, adlen, b); FP("ad-bit", b, A.c, B.c, mlen, A.tag, B.tag, xa, xb, adlen, A.nonce, B.nonce, &A.kc, &B.kc); }
    if (C->has_ad) {       /* AD truncated / extended / dropped */
        if (adlen) { FP("ad-truncated", adlen - 1, A.c, B.c, mlen, A.tag, B.tag, A.ad, B.ad, adlen - 1, A.nonce, B.nonce, &A.kc, &B.kc);
                     FP("ad-dropped", 0, A.c, B.c, mlen, A.tag, B.tag, A.ad, B.ad, 0, A.nonce, B.nonce, &A.kc, &B.kc); }
        memcpy(xa, A.ad, adlen); xa[adlen] = 0; memcpy(xb, B.ad, adlen); xb[adlen] = 0;
        FP("ad-extended", adlen + 1, A.c, B.c, mlen, A.tag, B.tag, xa, xb, adlen + 1, A.nonce, B.nonce, &A.kc, &B.kc);
    }
    for (b = 0; b < 8 * C->nlen; b++) { flip(ya, A.nonce, C->nlen, b); flip(yb, B.nonce, C->nlen, b); FP("nonce-bit", b, A.c, B.c, mlen, A.tag, B.tag, A.ad, B.ad, adlen, ya, yb, &A.kc, &B.kc); }
    if (!C->is_box) {
        for (b = 0; b < 8 * C->klen; b++) { keyctx ka = A.kc, kb = B.kc; flip(ya, A.kbuf, C->klen, b); flip(yb, B.kbuf, C->klen, b); ka.k = ya; kb.k = yb;
            FP("key-bit", b, A.c, B.c, mlen, A.tag, B.tag, A.ad, B.ad, adlen, A.nonce, B.nonce, &ka, &kb); }
    } else {
        for (b = 0; b < 256; b++) {      /* sender public key as seen by the opener; bit 255 is ignored by X25519 (RFC 7748) */
            if (b == 255) { n_equiv++; continue; }
            A.pk2[b >> 3] ^= (unsigned char) (1u << (b & 7)); B.pk2[b >> 3] ^= (unsigned char) (1u << (b & 7));
            FP("pk-bit", b, A.c, B.c, mlen, A.tag, B.tag, A.ad, B.ad, adlen, A.nonce, B.nonce, &A.kc, &B.kc);
            A.pk2[b >> 3] ^= (unsigned char) (1u << (b & 7)); B.pk2[b >> 3] ^= (unsigned char) (1u << (b & 7));
        }
        for (b = 0; b < 256; b++) {      /* recipient secret key; the 5 clamped bits do not change the scalar */
            if (b < 3 || b >= 254) { n_equiv++; continue; }
            A.sk2[b >> 3] ^= (unsigned char) (1u << (b & 7)); B.sk2[b >> 3] ^= (unsigned char) (1u << (b & 7));
            FP("sk-bit", b, A.c, B.c, mlen, A.tag, B.tag, A.ad, B.ad, adlen, A.nonce, B.nonce, &A.kc, &B.kc);
            A.sk2[b >> 3] ^= (unsigned char) (1u << (b & 7)); B.sk2[b >> 3] ^= (unsigned char) (1u << (b & 7));
        }
    }
    /* truncation of the ciphertext body to every shorter length (tag kept), extension by 1 and 16 bytes */
    for (l = 0; l < mlen; l++) FP("ciphertext-truncated", l, A.c, B.c, l, A.tag, B.tag, A.ad, B.ad, adlen, A.nonce, B.nonce, &A.kc, &B.kc);
    memcpy(xa, A.c, mlen); memset(xa + mlen, 0, 16); memcpy(xb, B.c, mlen); memset(xb + mlen, 0, 16);
    FP("ciphertext-extended", mlen + 1, xa, xb, mlen + 1, A.tag, B.tag, A.ad, B.ad, adlen, A.nonce, B.nonce, &A.kc, &B.kc);
    FP("ciphertext-extended", mlen + 16, xa, xb, mlen + 16, A.tag, B.tag, A.ad, B.ad, adlen, A.nonce, B.nonce, &A.kc, &B.kc);
    /* combined input cut anywhere (including inside the tag and below ABYTES) */
    { unsigned char *ca = malloc(mlen + 64), *cb = malloc(mlen + 64), *oa = malloc(mlen + 96), *ob = malloc(mlen + 96); size_t full = mlen + T; char key[200];
      if (C->tag_first) { memcpy(ca, A.tag, T); memcpy(ca + T, A.c, mlen); memcpy(cb, B.tag, T); memcpy(cb + T, B.c, mlen); }
      else { memcpy(ca, A.c, mlen); memcpy(ca + mlen, A.tag, T); memcpy(cb, B.c, mlen); memcpy(cb + mlen, B.tag, T); }
      for (l = 0; l < full; l++) {
          ull ma = 99, mb = 99; int ra, rb;
          memset(oa, 0xA5, mlen + 96); memset(ob, 0xA5, mlen + 96);
          ra = C->dec(oa + 16, &ma, ca, l, adlen ? A.ad : NULL, adlen, A.nonce, &A.kc); rb = C->dec(ob + 16, &mb, cb, l, adlen ? B.ad : NULL, adlen, B.nonce, &B.kc);
          n_eval++; n_nontriv++;
          if (ra == 0 || rb == 0 || ma != 0 || mb != 0 || memcmp(oa, ob, mlen + 96) != 0) {
              snprintf(key, sizeof key, "%s/combined-truncated@%zu/mlen=%zu/adlen=%zu", C->name, l, mlen, adlen);
              vf_fail(key, "%s", (ra == 0 || rb == 0) ? (l < T ? "input shorter than the tag accepted" : "truncated input accepted") : (ma || mb) ? "length not zero on failure" : "output depends on key/plaintext after failure"); }
      }
      free(ca); free(cb); free(oa); free(ob); }
    tuple_free(&A); tuple_free(&B); free(xa); free(xb);
}

/* ---- sealed boxes ---- */
static void seal_case(int which, size_t mlen)
{
    unsigned char *mA = malloc(mlen + 16), *mB = malloc(mlen + 16), *sA = malloc(mlen + 64), *sB = malloc(mlen + 64), *x = malloc(mlen + 64), *y = malloc(mlen + 64), *oa = malloc(mlen + 96), *ob = malloc(mlen + 96);
    const unsigned char *pk = BOX_TABLE[2].pkb, *sk = BOX_TABLE[2].skb; size_t full = mlen + 48, b, l; char key[160]; unsigned char pkm[32], skm[32];
    int (*sealf)(unsigned char *, const unsigned char *, ull, const unsigned char *) = which ? crypto_box_curve25519xchacha20poly1305_seal : crypto_box_seal;
    int (*openf)(unsigned char *, const unsigned char *, ull, const unsigned char *, const unsigned char *) = which ? crypto_box_curve25519xchacha20poly1305_seal_open : crypto_box_seal_open;
    vf_pat(mA, mlen, PAT_C, 311); vf_pat(mB, mlen, PAT_H, 312);
    sealf(sA, mA, mlen, pk); sealf(sB, mB, mlen, pk);         /* ephemeral keys from the real RNG: tuples differ in key and plaintext */
    if (openf(oa, sA, full, pk, sk) != 0 || memcmp(oa, mA, mlen)) vf_fail("box_seal/valid-rejected", "mlen=%zu", mlen);
#define SEALTRY(what, pos, XA, XB, L, PK, SK) do { int ra, rb; memset(oa, 0xA5, mlen + 96); memset(ob, 0xA5, mlen + 96); \
        ra = openf(oa + 16, XA, L, PK, SK); rb = openf(ob + 16, XB, L, PK, SK); n_eval++; n_nontriv++; \
        if (ra == 0 || rb == 0 || memcmp(oa, ob, mlen + 96)) { snprintf(key, sizeof key, "%s/%s@%ld/mlen=%zu", which ? "box_seal_xchacha" : "box_seal", what, (long) (pos), mlen); \
            vf_fail(key, "%s", (ra == 0 || rb == 0) ? "forged sealed box accepted" : "output depends on key/plaintext after failure"); } } while (0)
    for (b = 0; b < 8 * full; b++) { flip(x, sA, full, b); flip(y, sB, full, b); SEALTRY("bit", b, x, y, full, pk, sk); }
    for (l = 0; l < full; l++) SEALTRY("truncated", l, sA, sB, l, pk, sk);
    memcpy(x, sA, full); x[full] = 0; memcpy(y, sB, full); y[full] = 0; SEALTRY("extended", full + 1, x, y, full + 1, pk, sk);
    for (b = 0; b < 256; b++) { flip(pkm, pk, 32, b); SEALTRY("recipient-pk-bit", b, sA, sB, full, pkm, sk); }
    for (b = 3; b < 254; b++) { flip(skm, sk, 32, b); SEALTRY("recipient-sk-bit", b, sA, sB, full, pk, skm); }
    n_equiv += 5;
    free(mA); free(mB); free(sA); free(sB); free(x); free(y); free(oa); free(ob);
}

/* ---- MAC verification ---- */
typedef int (*vfy_fn)(const unsigned char *, const unsigned char *, ull, const unsigned char *);
typedef int (*mac_fn)(unsigned char *, const unsigned char *, ull, const unsigned char *);
static void mac_case(const char *name, mac_fn mac, vfy_fn vfy, size_t taglen, size_t mlen, int raw_poly)
{
    unsigned char key[32], k2[32], tag[64], t2[64], *m = malloc(mlen + 32), *m2 = malloc(mlen + 32); size_t b; char kk[160];
    vf_pat(key, 32, PAT_R1, 321); vf_pat(m, mlen, PAT_C, 322);
    mac(tag, m, mlen, key);
    if (vfy(tag, m, mlen, key) != 0) { snprintf(kk, sizeof kk, "%s/valid-rejected/mlen=%zu", name, mlen); vf_fail(kk, "correct tag rejected"); }
#define VT(what, pos, TAG, M, ML, K) do { n_eval++; n_nontriv++; if (vfy(TAG, M, ML, K) == 0) { snprintf(kk, sizeof kk, "%s/%s@%ld/mlen=%zu", name, what, (long) (pos), mlen); vf_fail(kk, "forgery accepted"); } } while (0)
    for (b = 0; b < 8 * taglen; b++) { flip(t2, tag, taglen, b); VT("tag-bit", b, t2, m, mlen, key); }
    if (taglen >= 32) for (b = 0; b < 128; b++) { size_t l2; for (l2 = 1; l2 < taglen / 16; l2++) { flip(t2, tag, taglen, b); t2[(b >> 3) + 16 * l2] ^= (unsigned char) (1u << (b & 7)); VT("tag-2lane-bit", b + 1000 * l2, t2, m, mlen, key); } }
    for (b = 0; b < 8 * mlen; b++) { flip(m2, m, mlen, b); VT("message-bit", b, tag, m2, mlen, key); }
    for (b = 0; b < 256; b++) {
        flip(k2, key, 32, b);
        if (raw_poly) { unsigned char rt[16]; ref_poly1305(rt, m, mlen, k2); if (memcmp(rt, tag, 16) == 0) { n_equiv++; continue; } }   /* clamped r bits: same MAC by specification */
        VT("key-bit", b, tag, m, mlen, k2);
    }
    if (mlen) VT("message-truncated", mlen - 1, tag, m, mlen - 1, key);
    memcpy(m2, m, mlen); m2[mlen] = 0; VT("message-extended", mlen + 1, tag, m2, mlen + 1, key);
    free(m); free(m2);
}

/* ---- signatures ---- */
static void sign_case(size_t mlen)
{
    unsigned char pkA[32], skA[64], pkB[32], skB[64], seed[32], *mA = malloc(mlen + 16), *mB = malloc(mlen + 16), *smA = malloc(mlen + 96), *smB = malloc(mlen + 96), *x = malloc(mlen + 96), *y = malloc(mlen + 96),
                  *oa = malloc(mlen + 128), *ob = malloc(mlen + 128), pkm[32]; ull l1, l2; size_t full = mlen + 64, b, l; char key[160];
    vf_pat(seed, 32, PAT_R1, 331); crypto_sign_seed_keypair(pkA, skA, seed); vf_pat(seed, 32, PAT_R2, 332); crypto_sign_seed_keypair(pkB, skB, seed);
    vf_pat(mA, mlen, PAT_C, 333); vf_pat(mB, mlen, PAT_H, 334);
    crypto_sign(smA, &l1, mA, mlen, skA); crypto_sign(smB, &l2, mB, mlen, skB);
    if (crypto_sign_open(oa, &l1, smA, full, pkA) != 0 || l1 != mlen || memcmp(oa, mA, mlen)) vf_fail("crypto_sign_open/valid-rejected", "mlen=%zu", mlen);
#define ST(what, pos, XA, XB, L, PA, PB) do { int ra, rb; ull la = 77, lb = 77; memset(oa, 0xA5, mlen + 128); memset(ob, 0xA5, mlen + 128); \
        ra = crypto_sign_open(oa + 16, &la, XA, L, PA); rb = crypto_sign_open(ob + 16, &lb, XB, L, PB); n_eval++; n_nontriv++; \
        if (ra == 0 || rb == 0 || la || lb || memcmp(oa, ob, mlen + 128)) { snprintf(key, sizeof key, "crypto_sign_open/%s@%ld/mlen=%zu", what, (long) (pos), mlen); \
            vf_fail(key, "%s", (ra == 0 || rb == 0) ? "altered signed message accepted" : (la || lb) ? "length not zero on failure" : "output depends on key/message after failure (or written out of bounds)"); } \
        { n_eval++; if (crypto_sign_open(NULL, NULL, XA, L, PA) == 0) { snprintf(key, sizeof key, "crypto_sign_open(m=NULL)/%s@%ld/mlen=%zu", what, (long) (pos), mlen); vf_fail(key, "altered signed message accepted by the verify-only call form"); } } \
        if ((L) >= 64) { n_eval++; if (crypto_sign_verify_detached(XA, (XA) + 64, (L) - 64, PA) == 0) { snprintf(key, sizeof key, "crypto_sign_verify_detached/%s@%ld/mlen=%zu", what, (long) (pos), mlen); vf_fail(key, "altered signature accepted"); } } } while (0)
    for (b = 0; b < 8 * full; b++) { if (b >= 512 + 8 * 96 && !thorough && (b % 8) != (mlen % 8)) continue; flip(x, smA, full, b); flip(y, smB, full, b); ST("bit", b, x, y, full, pkA, pkB); }
    for (b = 0; b < 256; b++) { unsigned char pkn[32]; flip(pkm, pkA, 32, b); flip(pkn, pkB, 32, b); ST("pk-bit", b, smA, smB, full, pkm, pkn); }
    for (l = 0; l < full; l += (l < 80 || thorough ? 1 : 7)) ST("truncated", l, smA, smB, l, pkA, pkB);
    memcpy(x, smA, full); x[full] = 0; memcpy(y, smB, full); y[full] = 0; ST("extended", full + 1, x, y, full + 1, pkA, pkB);
    /* the scalar half replaced by S + k*L for every k that still fits 256 bits (same value modulo the group order: a malleated tag) */
    { static const unsigned char L_LE[32] = { 0xed,0xd3,0xf5,0x5c,0x1a,0x63,0x12,0x58,0xd6,0x9c,0xf7,0xa2,0xde,0xf9,0xde,0x14,0,0,0,0,0,0,0,0,0,0,0,0,0,0,0,0x10 }; int k, i2;
      memcpy(x, smA, full); memcpy(y, smB, full);
      for (k = 1; k < 16; k++) { unsigned ca = 0, cb = 0; for (i2 = 0; i2 < 32; i2++) { ca += x[32 + i2] + L_LE[i2]; x[32 + i2] = (unsigned char) ca; ca >>= 8; cb += y[32 + i2] + L_LE[i2]; y[32 + i2] = (unsigned char) cb; cb >>= 8; }
          if (ca || cb) break;
          ST("S+kL", k, x, y, full, pkA, pkB); } }
    /* multipart (Ed25519ph) */
    { crypto_sign_state st; unsigned char sig[64], s2[64];
      crypto_sign_init(&st); crypto_sign_update(&st, mA, mlen); crypto_sign_final_create(&st, sig, NULL, skA);
      crypto_sign_init(&st); crypto_sign_update(&st, mA, mlen);
      if (crypto_sign_final_verify(&st, sig, pkA) != 0) vf_fail("crypto_sign_final_verify/valid-rejected", "mlen=%zu", mlen);
      for (b = 0; b < 512; b++) { flip(s2, sig, 64, b); crypto_sign_init(&st); crypto_sign_update(&st, mA, mlen); n_eval++; n_nontriv++;
          if (crypto_sign_final_verify(&st, s2, pkA) == 0) { snprintf(key, sizeof key, "crypto_sign_final_verify/sig-bit@%zu/mlen=%zu", b, mlen); vf_fail(key, "altered signature accepted"); } }
      for (b = 0; b < 8 * mlen; b += (mlen > 40 && !thorough ? 5 : 1)) { flip(x, mA, mlen, b); crypto_sign_init(&st); crypto_sign_update(&st, x, mlen); n_eval++; n_nontriv++;
          if (crypto_sign_final_verify(&st, sig, pkA) == 0) { snprintf(key, sizeof key, "crypto_sign_final_verify/message-bit@%zu/mlen=%zu", b, mlen); vf_fail(key, "altered message accepted"); } }
      for (b = 0; b < 256; b++) { flip(pkm, pkA, 32, b); crypto_sign_init(&st); crypto_sign_update(&st, mA, mlen); n_eval++; n_nontriv++;
          if (crypto_sign_final_verify(&st, sig, pkm) == 0) { snprintf(key, sizeof key, "crypto_sign_final_verify/pk-bit@%zu/mlen=%zu", b, mlen); vf_fail(key, "altered key accepted"); } } }
    free(mA); free(mB); free(smA); free(smB); free(x); free(y); free(oa); free(ob);
}

/* ---- secretstream pull ---- */
static void stream_case(size_t mlen, size_t adlen)
{
    crypto_secretstream_xchacha20poly1305_state sA, sB, pA, pB, p0A, p0B; unsigned char kA[32], kB[32], hA[24], hB[24], *mA = malloc(mlen + 16), *mB = malloc(mlen + 16), ad[256], ad2[256],
        *cA = malloc(mlen + 64), *cB = malloc(mlen + 64), *x = malloc(mlen + 64), *y = malloc(mlen + 64), *oa = malloc(mlen + 96), *ob = malloc(mlen + 96), tg; ull l; size_t full = mlen + 17, b, q; char key[160];
    vf_pat(kA, 32, PAT_R1, 341); vf_pat(kB, 32, PAT_R2, 342); vf_pat(mA, mlen, PAT_C, 343); vf_pat(mB, mlen, PAT_H, 344); vf_pat(ad, 256, PAT_R1, 345);
    crypto_secretstream_xchacha20poly1305_init_push(&sA, hA, kA); crypto_secretstream_xchacha20poly1305_init_push(&sB, hB, kB);
    crypto_secretstream_xchacha20poly1305_push(&sA, cA, &l, mA, mlen, adlen ? ad : NULL, adlen, 0); crypto_secretstream_xchacha20poly1305_push(&sB, cB, &l, mB, mlen, adlen ? ad : NULL, adlen, 0);
    crypto_secretstream_xchacha20poly1305_init_pull(&p0A, hA, kA); crypto_secretstream_xchacha20poly1305_init_pull(&p0B, hB, kB);
    pA = p0A; if (crypto_secretstream_xchacha20poly1305_pull(&pA, oa, &l, &tg, cA, full, adlen ? ad : NULL, adlen) != 0 || l != mlen || memcmp(oa, mA, mlen)) vf_fail("secretstream_pull/valid-rejected", "mlen=%zu", mlen);
#define PT(what, pos, XA, XB, L, AD, ADL, STA, STB) do { int ra, rb; ull la = 9, lb = 9; unsigned char ta = 1, tb = 1; pA = STA; pB = STB; memset(oa, 0xA5, mlen + 96); memset(ob, 0xA5, mlen + 96); \
        ra = crypto_secretstream_xchacha20poly1305_pull(&pA, oa + 16, &la, &ta, XA, L, AD, ADL); rb = crypto_secretstream_xchacha20poly1305_pull(&pB, ob + 16, &lb, &tb, XB, L, AD, ADL); n_eval++; n_nontriv++; \
        if (ra == 0 || rb == 0 || la || lb || memcmp(oa, ob, mlen + 96)) { snprintf(key, sizeof key, "secretstream_pull/%s@%ld/mlen=%zu/adlen=%zu", what, (long) (pos), mlen, adlen); \
            vf_fail(key, "%s", (ra == 0 || rb == 0) ? "altered chunk accepted" : (la || lb) ? "length not zero on failure" : "output depends on key/plaintext after failure"); } } while (0)
    for (b = 0; b < 8 * full; b++) { flip(x, cA, full, b); flip(y, cB, full, b); PT("chunk-bit", b, x, y, full, adlen ? ad : NULL, adlen, p0A, p0B); }
    for (b = 0; b < 8 * adlen; b++) { flip(ad2, ad, adlen, b); PT("ad-bit", b, cA, cB, full, ad2, adlen, p0A, p0B); }
    if (adlen) PT("ad-dropped", 0, cA, cB, full, NULL, 0, p0A, p0B);
    for (q = 0; q < full; q++) PT("truncated", q, cA, cB, q, adlen ? ad : NULL, adlen, p0A, p0B);
    memcpy(x, cA, full); x[full] = 0; memcpy(y, cB, full); y[full] = 0; PT("extended", full + 1, x, y, full + 1, adlen ? ad : NULL, adlen, p0A, p0B);
    for (b = 0; b < 192; b++) { unsigned char h2[24], h3[24]; crypto_secretstream_xchacha20poly1305_state qa, qb; flip(h2, hA, 24, b); flip(h3, hB, 24, b);
        crypto_secretstream_xchacha20poly1305_init_pull(&qa, h2, kA); crypto_secretstream_xchacha20poly1305_init_pull(&qb, h3, kB); PT("header-bit", b, cA, cB, full, adlen ? ad : NULL, adlen, qa, qb); }
    for (b = 0; b < 256; b++) { unsigned char k2[32], k3[32]; crypto_secretstream_xchacha20poly1305_state qa, qb; flip(k2, kA, 32, b); flip(k3, kB, 32, b);
        crypto_secretstream_xchacha20poly1305_init_pull(&qa, hA, k2); crypto_secretstream_xchacha20poly1305_init_pull(&qb, hB, k3); PT("key-bit", b, cA, cB, full, adlen ? ad : NULL, adlen, qa, qb); }
    free(mA); free(mB); free(cA); free(cB); free(x); free(y); free(oa); free(ob);
}


/* ---- length-word truncation: associated data of 2^32+48 bytes (untouched zero pages), one AD bit flipped in every 16-bit / 32-bit
 * "word" region of the length; every AEAD, combined + detached + verify-only (m=NULL); judged on a single tuple: non-zero return,
 * length 0, canaries, and no 8-byte chunk of the plaintext present in the output buffer ---- */
#include <sys/mman.h>
#define BIGAD ((size_t) 4294967296ULL + 48)
#define BIGML 33
static const size_t BIGPOS[6] = { 5, 65536 + 5, 2147483648ULL + 5, 4294967296ULL - 7, 4294967296ULL + 20, BIGAD - 1 };
static const int BIGCONS_T[6] = { 3, 1, 0, 2, 4, 5 }, BIGCONS_Q[2] = { 3, 1 };   /* indices into CONS: quick = AES-256-GCM + ChaCha20-Poly1305-IETF */
static unsigned long long n_bigskip;
static void big_item(long it)
{
    static unsigned char *ad; static int cached = -1; static unsigned char c[BIGML + 16], tag[32];
    const cons *C = &CONS[thorough ? BIGCONS_T[it / 7] : BIGCONS_Q[it / 7]]; int pi = (int) (it % 7) - 1, r, f, x; size_t pos, T = C->tlen, i;
    unsigned char kbuf[32], nonce[32], m[BIGML], comb[BIGML + 64], out[BIGML + 48]; keyctx kc; ull ml; char key[200]; const char *why = NULL;
    if (sizeof(size_t) < 8 || !C->avail() || (strstr(C->name, "aegis") && !sodium_runtime_has_aesni())) { n_bigskip++; return; }   /* software AES: minutes per call */
    if (ad == NULL) { ad = mmap(NULL, BIGAD, PROT_READ | PROT_WRITE, MAP_PRIVATE | MAP_ANONYMOUS | MAP_NORESERVE, -1, 0);
        if (ad == MAP_FAILED) { ad = NULL; n_bigskip++; printf("INFO big-ad mapping of %zu bytes refused by the system: family skipped\n", BIGAD); return; }
#ifdef MADV_HUGEPAGE
        madvise(ad, BIGAD, MADV_HUGEPAGE);
#endif
    }
    cons_keys(C, &kc, kbuf, PAT_R1, 0); vf_pat(nonce, C->nlen, PAT_C, 351); vf_pat(m, BIGML, PAT_R2, 352);
    snprintf(vf_ctx, sizeof vf_ctx, "%s/big-ad/pos=%d", C->name, pi);
    if (cached != (int) (C - CONS)) { n_eval++; if (C->encd(c, tag, m, BIGML, ad, BIGAD, nonce, &kc) != 0) { n_bigskip++; return; } cached = (int) (C - CONS); }
    if (pi < 0) {         /* the untouched tuple is accepted (otherwise the rejections are vacuous) */
        n_eval++; n_nontriv++; memset(out, 0xA5, sizeof out); r = C->decd(out + 16, c, BIGML, tag, ad, BIGAD, nonce, &kc);
        if (r != 0 || memcmp(out + 16, m, BIGML)) { snprintf(key, sizeof key, "%s/valid-rejected/mlen=%d/adlen=2^32+48", C->name, BIGML); vf_fail(key, "valid tuple with 2^32+48 bytes of associated data not accepted"); }
        return;
    }
    pos = BIGPOS[pi];
    if (pi == 0) VF_SAMPLE_CASE(5, "%s mlen=%d adlen=2^32+48 (zero pages): AD bit flipped at byte %zu -> combined, detached and verify-only decrypt must fail and release nothing", C->name, BIGML, pos);
    memcpy(comb, c, BIGML); memcpy(comb + BIGML, tag, T);
    ad[pos] ^= 0x10;
    for (f = 0; f < 3 && !why; f++) {
        if (!thorough && C->avail != gcm_avail && f != pi % 3) continue;      /* quick: the slower constructions take one call form per position */
        if (f == 2 && !C->null_m_verify) break;
        n_eval++; n_nontriv++; memset(out, 0xA5, sizeof out); ml = 4242;
        if (f == 0) { r = C->dec(out + 16, &ml, comb, BIGML + T, ad, BIGAD, nonce, &kc); if (r == 0) why = "combined decrypt accepted a forgery"; else if (ml != 0) why = "combined decrypt failed but reported a non-zero message length"; }
        else if (f == 1) { r = C->decd(out + 16, c, BIGML, tag, ad, BIGAD, nonce, &kc); if (r == 0) why = "detached decrypt accepted a forgery"; }
        else { r = C->decd(NULL, c, BIGML, tag, ad, BIGAD, nonce, &kc); if (r == 0) why = "verify-only (m=NULL) accepted a forgery"; }
        for (i = 0; i < sizeof out && !why; i++) if ((i < 16 || i >= 16 + BIGML) && out[i] != 0xA5) why = "wrote outside the message buffer on failure";
        for (x = 0; x + 8 <= BIGML && !why; x += 8) if (memcmp(out + 16 + x, m + x, 8) == 0) why = "plaintext released by a rejected call";
    }
    ad[pos] ^= 0x10;
    if (why) { snprintf(key, sizeof key, "%s/big-ad-bit@%zu/mlen=%d/adlen=2^32+48", C->name, pos, BIGML); vf_fail(key, "%s (associated data of 2^32+48 bytes, bit 4 of byte %zu flipped)", why, pos); }
}

static size_t LENS[320]; static int nlens;
static void do_item(long it)
{
    size_t mlen, adlen; int ci;
    if (it >= nlens * 5L) { big_item(it - nlens * 5L); return; }
    mlen = LENS[it / 5]; adlen = ADQ[it % 5];
    if (adlen == 225 && mlen != 0 && mlen != 33) return;
    for (ci = 0; ci < NCONS; ci++) { if (!CONS[ci].avail()) continue; if (!CONS[ci].has_ad && adlen) continue; cons_case(&CONS[ci], mlen, adlen); }
    stream_case(mlen, adlen);
    if (adlen == 0) {
        seal_case(0, mlen); seal_case(1, mlen);
        mac_case("auth_hmacsha256_verify", crypto_auth_hmacsha256, crypto_auth_hmacsha256_verify, 32, mlen, 0);
        mac_case("auth_hmacsha512_verify", crypto_auth_hmacsha512, crypto_auth_hmacsha512_verify, 64, mlen, 0);
        mac_case("auth_hmacsha512256_verify", crypto_auth_hmacsha512256, crypto_auth_hmacsha512256_verify, 32, mlen, 0);
        mac_case("crypto_auth_verify", crypto_auth, crypto_auth_verify, 32, mlen, 0);
        mac_case("onetimeauth_verify", crypto_onetimeauth, crypto_onetimeauth_verify, 16, mlen, 1);
        sign_case(mlen);
    }
}
static void fin(void) { vf_stat("evaluations", n_eval); vf_stat("nontrivial", n_nontriv); vf_stat("spec_equivalent_skipped", n_equiv); vf_stat("big_ad_skipped", n_bigskip); n_eval = n_nontriv = n_equiv = n_bigskip = 0; }

int main(void)
{
    size_t i;
    vf_init_seed();
    thorough = vf_tier_thorough();
    strcpy(vf_ctx, "c02");
    if (sodium_init() < 0) return 2;
    printf("INFO features avx2=%d ssse3=%d sse2=%d aesni=%d gcm=%d\n", sodium_runtime_has_avx2(), sodium_runtime_has_ssse3(), sodium_runtime_has_sse2(), sodium_runtime_has_aesni(), crypto_aead_aes256gcm_is_available());
    if (thorough) for (i = 0; i <= 300; i++) LENS[nlens++] = i; else for (i = 0; i < 17; i++) LENS[nlens++] = MLQ[i];
    vf_parallel(16, 0, nlens * 5L + 7L * (thorough ? 6 : 2), do_item, fin);   /* + (construction, position) items of the 2^32+48-byte AD family */
    vf_sample("aead_aegis128l mlen=33 adlen=0: tag bit 200 flipped -> every decrypt form must fail, *mlen_p = 0, and the 33-byte output buffer must be identical for two different (key, plaintext) tuples");
    vf_sample("secretbox_xsalsa20poly1305 combined input truncated to 15 bytes (< MACBYTES) -> rejected");
    vf_sample("box_curve25519xsalsa20poly1305 sender public key bit 255 flipped -> skipped, X25519 ignores it by specification (counted in spec_equivalent_skipped)");
    vf_sample("crypto_sign_open signed message of 64+17 bytes with bit 300 of the signature flipped -> -1, mlen 0, output buffer independent of key/message");
    return 0;
}
