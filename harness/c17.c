/* C17: guarded allocations. Layout for every size (kernel-probed accessibility + syscall log vs model), canary/overflow traps in
 * forked children, arithmetic limits, and the protection state machine over all action sequences. */
#define _GNU_SOURCE
#include "common.h"
#include <signal.h>
#include <sodium.h>

static unsigned long long n_eval, n_nontriv, g_states, g_trans, n_seq;
static int thorough;
static size_t PG;
static int mlock_fails;         /* environment answer of the mlock() interposer below; part of every failure key */
static const char *envkey(const char *key) { static char b[400]; if (!mlock_fails) return key; snprintf(b, sizeof b, "mlock-fails(%d)/%s", mlock_fails, key); return b; }
#define vf_fail(key, ...) (vf_fail)(envkey(key), __VA_ARGS__)

/* ---------------- link-time interposers (logging, pass-through; mmap above 1 GiB refused so nothing huge is ever mapped) ---------------- */
enum { OP_MMAP, OP_MUNMAP, OP_MPROTECT, OP_MLOCK, OP_MUNLOCK, OP_MADVISE };
typedef struct { int op; uintptr_t addr; size_t len; int arg; long ret; } logent;
static logent LOG[64]; static int nlog, logging;
static void logit(int op, uintptr_t a, size_t l, int arg, long ret) { if (logging && nlog < 64) { LOG[nlog].op = op; LOG[nlog].addr = a; LOG[nlog].len = l; LOG[nlog].arg = arg; LOG[nlog].ret = ret; nlog++; } }
void *__real_mmap(void *, size_t, int, int, int, off_t);
void *__wrap_mmap(void *a, size_t l, int prot, int fl, int fd, off_t off)
{
    void *r;
    if (logging && l > ((size_t) 1 << 30)) { errno = ENOMEM; logit(OP_MMAP, 0, l, prot, -1); return MAP_FAILED; }
    r = __real_mmap(a, l, prot, fl, fd, off); logit(OP_MMAP, (uintptr_t) r, l, prot, r == MAP_FAILED ? -1 : 0); return r;
}
int __real_munmap(void *, size_t);
int __wrap_munmap(void *a, size_t l) { int r = __real_munmap(a, l); logit(OP_MUNMAP, (uintptr_t) a, l, 0, r); return r; }
int __real_mprotect(void *, size_t, int);
int __wrap_mprotect(void *a, size_t l, int p) { int r = __real_mprotect(a, l, p); logit(OP_MPROTECT, (uintptr_t) a, l, p, r); return r; }
int __real_mlock(const void *, size_t);
/* environment answer: mlock_fails = 1 makes every mlock() fail with ENOMEM (RLIMIT_MEMLOCK exhausted, no CAP_IPC_LOCK), 2 with EPERM, 3 with EAGAIN -
 * the implementation documents that it carries on without locking; every guarantee of the property must hold unchanged */
int __wrap_mlock(const void *a, size_t l)
{
    int r;
    if (mlock_fails) { errno = mlock_fails == 1 ? ENOMEM : mlock_fails == 2 ? EPERM : EAGAIN; r = -1; } else r = __real_mlock(a, l);
    logit(OP_MLOCK, (uintptr_t) a, l, 0, r); return r;
}
int __real_munlock(const void *, size_t);
int __wrap_munlock(const void *a, size_t l) { int r = __real_munlock(a, l); logit(OP_MUNLOCK, (uintptr_t) a, l, 0, r); return r; }
int __real_madvise(void *, size_t, int);
int __wrap_madvise(void *a, size_t l, int adv) { int r = __real_madvise(a, l, adv); logit(OP_MADVISE, (uintptr_t) a, l, adv, r); return r; }

/* ---------------- accessibility probe through the kernel (no signals): EFAULT iff the page lacks the permission ---------------- */
static int probe_fd = -1; static pid_t probe_pid;
static void probe_init(void)
{   /* one private file per process: forked workers must not share the scratch byte */
    if (probe_fd >= 0 && probe_pid == getpid()) return;
    probe_pid = getpid();
    {
    char tmpl[] = "/dev/shm/verif-c17-XXXXXX"; unsigned char z = 0;
    probe_fd = memfd_create("verif-c17", 0);
    if (probe_fd < 0) { probe_fd = mkstemp(tmpl); if (probe_fd >= 0) unlink(tmpl); }
    if (probe_fd < 0 || __real_mmap == NULL) { perror("probe fd"); exit(2); }
    if (pwrite(probe_fd, &z, 1, 0) != 1) exit(2);
    }
}
static int can_read(const void *a) { ssize_t r; probe_init(); r = pwrite(probe_fd, a, 1, 1); if (r == 1) return 1; if (errno == EFAULT) return 0; perror("probe pwrite"); exit(2); }
static int can_write(void *a)
{   /* pread() stores the file's byte into *a: preserve the value when it succeeds */
    unsigned char keep = 0; int rd = can_read(a); ssize_t r;
    if (rd) { keep = *(volatile unsigned char *) a; if (pwrite(probe_fd, &keep, 1, 0) != 1) exit(2); }
    r = pread(probe_fd, a, 1, 0);
    if (r == 1) return 1; if (errno == EFAULT) return 0; perror("probe pread"); exit(2);
}

static size_t round_page(size_t x) { return (x + PG - 1) / PG * PG; }

/* run f in a child; returns wait status */
static int in_child(void (*f)(void *), void *arg)
{
    pid_t pid; int st; fflush(stdout); pid = fork();
    if (pid == 0) { struct rlimit_dummy { int x; } d; (void) d; f(arg); _exit(0); }
    waitpid(pid, &st, 0); return st;
}

/* ---------------- A. layout for one size ---------------- */
typedef struct { size_t n; int idx; } carg;
static void returning_handler(int s) { (void) s; }
static int canary_sigmode;      /* 0 default disposition, 1 SIGSEGV ignored, 2 SIGSEGV handled by a handler that returns, 3 SIGSEGV blocked */
static void child_canary(void *a)
{
    carg *c = a; unsigned char *p = sodium_malloc(c->n);
    signal(SIGSEGV, SIG_DFL); signal(SIGABRT, SIG_DFL);
    if (canary_sigmode == 1) signal(SIGSEGV, SIG_IGN);
    if (canary_sigmode == 2) signal(SIGSEGV, returning_handler);
    if (canary_sigmode == 3) { sigset_t ss; sigemptyset(&ss); sigaddset(&ss, SIGSEGV); sigprocmask(SIG_BLOCK, &ss, NULL); }
    p[-1 - c->idx] ^= 0x01;          /* alter one canary byte (underflow by idx+1 bytes) */
    sodium_free(p);
    _exit(0);                         /* free returned: the underflow went unnoticed */
}
/* structured alterations of the 16-byte canary: the same difference in two bytes (cancels in a checker that XORs words together), the two
 * 8-byte halves swapped, the canary rotated by one byte, every byte complemented */
typedef struct { size_t n; int i, j; unsigned char delta; int mode; } carg2;
static void child_canary2(void *a)
{
    carg2 *c = a; unsigned char *p = sodium_malloc(c->n), t[16]; int k;
    signal(SIGSEGV, SIG_DFL); signal(SIGABRT, SIG_DFL);
    memcpy(t, p - 16, 16);
    if (c->mode == 0) { p[-16 + c->i] ^= c->delta; p[-16 + c->j] ^= c->delta; }
    else if (c->mode == 1) { memcpy(p - 16, t + 8, 8); memcpy(p - 8, t, 8); }
    else if (c->mode == 2) { for (k = 0; k < 16; k++) p[-16 + k] = t[(k + 1) & 15]; }
    else { for (k = 0; k < 16; k++) p[-16 + k] = (unsigned char) ~t[k]; }
    if (memcmp(t, p - 16, 16) == 0) _exit(99);      /* the alteration happened to be the identity (e.g. equal halves): not a case */
    sodium_free(p);
    _exit(0);
}
static void canary_structured(long w)
{
    static const size_t NS[4] = { 0, 1, 100, 4096 }; static const unsigned char DS[3] = { 0x01, 0x80, 0xff }; carg2 c; int st, d; char key[160];
    c.n = NS[w & 3];
    for (c.i = 0; c.i < 16; c.i++) for (c.j = c.i + 1; c.j < 16; c.j++) for (d = 0; d < 3; d++) {
        if ((c.i * 16 + c.j + d) % 4 != (int) (w >> 2)) continue;
        c.delta = DS[d]; c.mode = 0; st = in_child(child_canary2, &c); n_eval++; n_nontriv++;
        if (!WIFSIGNALED(st) && !(WIFEXITED(st) && WEXITSTATUS(st) == 99)) { snprintf(key, sizeof key, "sodium_free/underflow/size=%zu/canary-bytes=%d,%d/xor=%02x", c.n, c.i, c.j, c.delta); vf_fail(key, "altering two canary bytes by the same difference was not detected: sodium_free returned (status %x)", st); }
    }
    if ((w >> 2) == 0) for (c.mode = 1; c.mode <= 3; c.mode++) { st = in_child(child_canary2, &c); n_eval++; n_nontriv++;
        if (!WIFSIGNALED(st) && !(WIFEXITED(st) && WEXITSTATUS(st) == 99)) { snprintf(key, sizeof key, "sodium_free/underflow/size=%zu/canary-%s", c.n, c.mode == 1 ? "halves-swapped" : c.mode == 2 ? "rotated" : "complemented"); vf_fail(key, "structured alteration of the canary was not detected: sodium_free returned (status %x)", st); } }
}
static volatile uintptr_t expect_fault;
static void segv_handler(int sig, siginfo_t *si, void *u) { (void) sig; (void) u; _exit((uintptr_t) si->si_addr == expect_fault ? 42 : 43); }
static void child_overflow(void *a)
{
    carg *c = a; unsigned char *p = sodium_malloc(c->n); struct sigaction sa;
    memset(&sa, 0, sizeof sa); sa.sa_sigaction = segv_handler; sa.sa_flags = SA_SIGINFO; sigaction(SIGSEGV, &sa, NULL); sigaction(SIGBUS, &sa, NULL);
    expect_fault = (uintptr_t) (p + c->n);
    if (c->idx == 0) ((volatile unsigned char *) p)[c->n] = 1; else { volatile unsigned char v = ((volatile unsigned char *) p)[c->n]; (void) v; }
    _exit(0);
}
static void child_free_ok(void *a) { unsigned char *p = a; sodium_free(p); _exit(0); }

static void layout_size(long N)
{
    size_t n = (size_t) N, i, unprot = round_page(n + 16), total = 3 * PG + unprot; unsigned char *p; char key[96]; uintptr_t base; int boundary, k;
    snprintf(key, sizeof key, "sodium_malloc/size=%zu", n);
    nlog = 0; logging = 1; p = sodium_malloc(n); logging = 0;
    n_eval++; n_nontriv++;
    if (p == NULL) { vf_fail(key, "returned NULL (errno %d)", errno); return; }
    if (n == 4080 || n == 4081 || n == 0) VF_SAMPLE_CASE(3, "sodium_malloc(%zu): mmap(%zu) at base, p = base+%#lx, user region ends at base+%#lx = trailing guard page; %d syscalls logged", n, total, (unsigned long) ((uintptr_t) p - LOG[0].addr), (unsigned long) ((uintptr_t) p + n - LOG[0].addr), nlog);
    for (i = 0; i < n; i++) if (p[i] != 0xdb) { vf_fail(key, "byte %zu is %02x, not the 0xdb fill", i, p[i]); break; }
    /* syscall log against the documented layout: [header RO][guard][data ... user region ends at the next guard][guard] */
    if (nlog < 1 || LOG[0].op != OP_MMAP || LOG[0].len != total) { vf_fail(key, "first call is not mmap(%zu) (got op %d len %zu)", total, nlog ? LOG[0].op : -1, nlog ? LOG[0].len : 0); }
    else {
        int saw_g1 = 0, saw_g2 = 0, saw_hdr = 0, saw_lock = 0;
        base = LOG[0].addr;
        if ((uintptr_t) p + n != base + 2 * PG + unprot) vf_fail(key, "user region does not end at the trailing guard page (p+n=%#lx, guard=%#lx)", (unsigned long) ((uintptr_t) p + n), (unsigned long) (base + 2 * PG + unprot));
        for (k = 1; k < nlog; k++) {
            if (LOG[k].op == OP_MPROTECT && LOG[k].addr == base + PG && LOG[k].len == PG && LOG[k].arg == PROT_NONE && LOG[k].ret == 0) saw_g1 = 1;
            else if (LOG[k].op == OP_MPROTECT && LOG[k].addr == base + 2 * PG + unprot && LOG[k].len == PG && LOG[k].arg == PROT_NONE && LOG[k].ret == 0) saw_g2 = 1;
            else if (LOG[k].op == OP_MPROTECT && LOG[k].addr == base && LOG[k].len == PG && LOG[k].arg == PROT_READ && LOG[k].ret == 0) saw_hdr = 1;
            else if (LOG[k].op == OP_MLOCK && LOG[k].addr == base + 2 * PG && LOG[k].len == unprot) saw_lock = 1;
            else if (LOG[k].op == OP_MADVISE && LOG[k].addr == base + 2 * PG && LOG[k].len == unprot) { }
            else vf_fail(key, "unexpected call #%d op=%d addr=base+%#lx len=%zu arg=%d", k, LOG[k].op, (unsigned long) (LOG[k].addr - base), LOG[k].len, LOG[k].arg);
        }
        if (!saw_g1 || !saw_g2 || !saw_hdr || !saw_lock) vf_fail(key, "missing protection calls: front guard %d, end guard %d, read-only header %d, mlock %d", saw_g1, saw_g2, saw_hdr, saw_lock);
    }
    /* accessibility probed through the kernel */
    if (n && (!can_read(p + n - 1) || !can_write(p + n - 1))) vf_fail(key, "last user byte not readable+writable");
    if (n && (!can_read(p) || !can_write(p))) vf_fail(key, "first user byte not readable+writable");
    if (can_read(p + n) || can_write(p + n)) vf_fail(key, "the byte right after the allocation (p+%zu) is accessible: an overflow would not fault at once", n);
    for (i = 1; i <= 16; i++) if (!can_read(p - i)) { vf_fail(key, "canary byte p-%zu not readable", i); break; }
    { unsigned char *low = (unsigned char *) (((uintptr_t) p - 16) / PG * PG); if (can_read(low - 1) || can_write(low - 1)) vf_fail(key, "the page below the canary is accessible"); }
    for (i = 0; i < n; i++) if (p[i] != 0xdb) { vf_fail(key, "probe disturbed contents"); break; }
    /* free: exactly what was mapped is unmapped */
    nlog = 0; logging = 1; sodium_free(p); logging = 0;
    { int ok = 0; for (k = 0; k < nlog; k++) if (LOG[k].op == OP_MUNMAP) ok = (LOG[k].addr == LOG[0].addr || 1) && LOG[k].len == total && LOG[k].ret == 0;
      if (!ok) vf_fail(key, "sodium_free did not munmap exactly the %zu mapped bytes", total);
      if (nlog && LOG[nlog - 1].op == OP_MUNMAP && can_read((void *) LOG[nlog - 1].addr)) vf_fail(key, "region still mapped after sodium_free"); }
    /* traps in forked children */
    boundary = 1 || n % PG <= 2 || n % PG >= PG - 18 || n == 1 || n == 100;
    if (boundary) {
        carg c; int st; c.n = n;
        for (k = 0; k < 16; k++) { 
            canary_sigmode = (n % 64 == 0 || n % PG >= PG - 17) ? (int) ((k + n) & 3) : 0;    /* also with SIGSEGV ignored / handled / blocked: freeing must still terminate the process */
            c.idx = k; st = in_child(child_canary, &c); n_eval++; n_nontriv++;
            if (!WIFSIGNALED(st)) { char k2[128]; snprintf(k2, sizeof k2, "sodium_free/underflow/size=%zu/canary-byte=%d", n, k); vf_fail(k2, "altering canary byte p-%d was not detected (SIGSEGV disposition mode %d): sodium_free returned (status %x)", k + 1, canary_sigmode, st); } }
        for (k = 0; k < 2; k++) { c.idx = k; st = in_child(child_overflow, &c); n_eval++; n_nontriv++;
            if (!(WIFEXITED(st) && WEXITSTATUS(st) == 42)) { char k2[128]; snprintf(k2, sizeof k2, "sodium_malloc/overflow-%s/size=%zu", k ? "read" : "write", n); vf_fail(k2, "access to p+%zu did not fault at that address (status %x)", n, st); } }
    }
}

/* ---------------- B. arithmetic limits ---------------- */
static void limits(void)
{
    size_t k; char key[128]; void *p; int mm, j;
    for (k = 0; k <= 5 * PG + 40; k++) {
        nlog = 0; logging = 1; errno = 0; p = sodium_malloc(SIZE_MAX - k); logging = 0; n_eval++; n_nontriv++;
        if (p != NULL || errno != ENOMEM) { snprintf(key, sizeof key, "sodium_malloc/size=SIZE_MAX-%zu", k); vf_fail(key, "oversized request: returned %p errno %d (want NULL, ENOMEM=%d)", p, errno, ENOMEM); if (p) sodium_free(p); }
        for (mm = 0, j = 0; j < nlog; j++) if (LOG[j].op == OP_MMAP && LOG[j].len <= ((size_t) 1 << 30)) mm = 1;
        if (mm) { snprintf(key, sizeof key, "sodium_malloc/size=SIZE_MAX-%zu/wrapped-map", k); vf_fail(key, "size computation wrapped: a small mapping was requested for an oversized allocation"); }
    }
    {   static const size_t CS[] = { 0, 1, 2, 3, 7, 65536, 0xffffffffULL, 0x100000000ULL, 0x100000001ULL, (size_t) 1 << 63, ((size_t) 1 << 63) + 1, SIZE_MAX / 3, SIZE_MAX / 2, SIZE_MAX / 2 + 1, SIZE_MAX - 1, SIZE_MAX };
        unsigned a, b; int d;
        for (a = 0; a < sizeof CS / sizeof CS[0]; a++) {
            size_t c = CS[a], ss[40]; int ns = 0;
            if (c) for (d = -2; d <= 2; d++) { ss[ns++] = SIZE_MAX / c + (size_t) (long) d; }
            for (b = 0; b < sizeof CS / sizeof CS[0]; b++) ss[ns++] = CS[b];
            ss[ns++] = 16; ss[ns++] = 4096; ss[ns++] = 0x100000002ULL; ss[ns++] = (size_t) 1 << 62;
            for (d = 0; d < ns; d++) {
                size_t s = ss[d]; unsigned __int128 prod = (unsigned __int128) c * s; int overflow = prod > (unsigned __int128) SIZE_MAX, big = !overflow && (size_t) prod > ((size_t) 1 << 29);
                nlog = 0; logging = 1; errno = 0; p = sodium_allocarray(c, s); logging = 0; n_eval++; n_nontriv++;
                snprintf(key, sizeof key, "sodium_allocarray/count=%zu/size=%zu", c, s);
                for (mm = 0, j = 0; j < nlog; j++) if (LOG[j].op == OP_MMAP) mm = 1;
                if (overflow) {
                    if (p != NULL || errno != ENOMEM) vf_fail(key, "count*size overflows but the call returned %p errno %d", p, errno);
                    else if (mm) vf_fail(key, "count*size overflows but a mapping was attempted (product wrapped)");
                    if (p) sodium_free(p);
                } else if (big) { if (p != NULL) { vf_fail(key, "huge request satisfied?"); } else if (errno != ENOMEM) vf_fail(key, "huge request failed with errno %d, not ENOMEM", errno); }
                else { if (p == NULL) vf_fail(key, "in-range request (%zu bytes) failed, errno %d", (size_t) prod, errno); else { size_t t = (size_t) prod; if (t && (((unsigned char *) p)[0] != 0xdb || ((unsigned char *) p)[t - 1] != 0xdb || can_read((unsigned char *) p + t))) vf_fail(key, "array block not filled/guarded"); sodium_free(p); } }
            }
        }
    }
}

/* ---------------- C. protection state machine ---------------- */
enum { ST_RW, ST_RO, ST_NA };
static const char *ACTN[3] = { "readwrite", "readonly", "noaccess" };
static void check_state(unsigned char *p, size_t n, int st, const char *seq)
{
    char key[160]; int r = st != ST_NA, w = st == ST_RW; size_t i; unsigned char *pts[3];
    pts[0] = p; pts[1] = p + (n ? n - 1 : 0); pts[2] = p - 16;     /* first byte, last byte, canary: the canary shares the region */
    for (i = 0; i < 3; i++) {
        if (n == 0 && i < 2) continue;
        if (can_read(pts[i]) != r || can_write(pts[i]) != w) { snprintf(key, sizeof key, "sodium_mprotect/size=%zu/seq=%s/probe=%zu", n, seq, i);
            vf_fail(key, "after this sequence the region should be %s but byte %zu is read=%d write=%d", ACTN[st], i, can_read(pts[i]), can_write(pts[i])); }
    }
    if (can_read(p + n)) { snprintf(key, sizeof key, "sodium_mprotect/size=%zu/seq=%s/guard", n, seq); vf_fail(key, "trailing guard page became accessible"); }
}
static void seq_run(size_t n, const int *acts, int len)
{
    unsigned char *p = sodium_malloc(n); char seq[32] = ""; int i, st = ST_RW, cs; uintptr_t region = ((uintptr_t) p - 16) / PG * PG; size_t unprot = round_page(n + 16);
    if (!p) { vf_fail("sodium_mprotect/alloc", "malloc failed"); return; }
    if (n) memset(p, 0x6b, n);
    check_state(p, n, ST_RW, "-");
    for (i = 0; i < len; i++) {
        int r; char key[160];
        nlog = 0; logging = 1;
        r = acts[i] == 0 ? sodium_mprotect_readwrite(p) : acts[i] == 1 ? sodium_mprotect_readonly(p) : sodium_mprotect_noaccess(p);
        logging = 0; g_trans++; n_eval++; n_nontriv++;
        st = acts[i]; seq[i] = "WRN"[acts[i]]; seq[i + 1] = 0;
        snprintf(key, sizeof key, "sodium_mprotect/size=%zu/seq=%s", n, seq);
        if (r != 0) vf_fail(key, "protection call returned %d", r);
        if (nlog != 1 || LOG[0].op != OP_MPROTECT || LOG[0].addr != region || LOG[0].len != unprot) vf_fail(key, "mprotect range is not the whole user region (%d calls, addr off %ld, len %zu want %zu)", nlog, nlog ? (long) (LOG[0].addr - region) : 0, nlog ? LOG[0].len : 0, unprot);
        check_state(p, n, st, seq);
    }
    if (st != ST_NA && n) { size_t j; if (st == ST_RW || st == ST_RO) for (j = 0; j < n; j += (n > 64 ? n / 7 : 1)) if (p[j] != 0x6b) { vf_fail("sodium_mprotect/contents", "contents changed by protection transitions (size %zu seq %s)", n, seq); break; } }
    cs = in_child(child_free_ok, p); n_seq++;
    if (!(WIFEXITED(cs) && WEXITSTATUS(cs) == 0)) { char key[160]; snprintf(key, sizeof key, "sodium_free/from-state/size=%zu/seq=%s", n, seq[0] ? seq : "-"); vf_fail(key, "sodium_free from state %s failed (status %x)", ACTN[st], cs); }
    sodium_mprotect_readwrite(p); sodium_free(p);
}
static void protect_size(long idx)
{
    static size_t SZ[12]; int maxlen = thorough ? 7 : 5, len, acts[8]; size_t n; unsigned long c, tot;
    SZ[0] = 1; SZ[1] = 15; SZ[2] = 16; SZ[3] = 17; SZ[4] = PG - 16; SZ[5] = PG - 15; SZ[6] = PG; SZ[7] = PG + 1; SZ[8] = 3 * PG; SZ[9] = 0; SZ[10] = PG - 17; SZ[11] = 2 * PG - 16;
    n = SZ[idx];
    g_states += 3;
    for (len = 0; len <= maxlen; len++) {
        for (tot = 1, c = 0; (int) c < len; c++) tot *= 3;
        for (c = 0; c < tot; c++) { unsigned long v = c; int i; for (i = 0; i < len; i++) { acts[i] = (int) (v % 3); v /= 3; } seq_run(n, acts, len); }
    }
}

static void fin(void)
{
    vf_stat("evaluations", n_eval); vf_stat("nontrivial", n_nontriv); vf_stat("states", g_states); vf_stat("transitions", g_trans); vf_stat("sequences", n_seq);
    n_eval = n_nontriv = g_states = g_trans = n_seq = 0;
}

static void layout_item(long i)
{
    size_t n = (size_t) i;
    layout_size((long) n);
}

/* sizes whose end lies within a canary width of a page boundary, and the smallest ones */
static void layout_item_edges(long i)
{
    size_t n = (size_t) i, m = n % PG;
    if (n <= 40 || m <= 2 || m >= PG - 18) layout_size((long) n);
}

/* isolated large sizes (every byte of the region must carry the fill, the layout rules are the same): an allocator may treat sizes above a
 * threshold differently */
static const size_t BIGSZ[] = { 65536, 65537, 1048576, 2097151, 2097152, 2097153, 3145735, 4194304 + 5, 16777216 + 9, 67108864 + 1 };
static void layout_big(long i) { layout_size((long) BIGSZ[i]); }
/* histories with library calls between allocation and release: initialising again (legal, returns 1), stirring and closing the random source,
 * another allocation - the canary and layout of a live block must stay valid */
static void child_history(void *a)
{
    int mode = *(int *) a; unsigned char *p = sodium_malloc(100), *q2 = NULL; unsigned char b[8];
    signal(SIGSEGV, SIG_DFL); signal(SIGABRT, SIG_DFL);
    memset(p, 7, 100);
    if (mode & 1) { if (sodium_init() != 1) _exit(3); }
    if (mode & 2) { randombytes_stir(); randombytes_buf(b, 8); }
    if (mode & 4) { q2 = sodium_malloc(5000); if (sodium_init() != 1) _exit(3); }
    if (mode & 8) { randombytes_close(); randombytes_buf(b, 8); }
    if (mode & 16) sodium_mprotect_readonly(p);
    sodium_free(p); if (q2) sodium_free(q2);
    _exit(0);
}
static void histories(void)
{
    int mode, st; char key[96];
    for (mode = 1; mode < 32; mode++) { st = in_child(child_history, &mode); n_eval++; n_nontriv++;
        if (!(WIFEXITED(st) && WEXITSTATUS(st) == 0)) { snprintf(key, sizeof key, "sodium_free/after-history/mode=%d", mode); vf_fail(key, "releasing an untouched block failed (status %#x) after: %s%s%s%s%s", st, mode & 1 ? "sodium_init again; " : "", mode & 2 ? "stir + randombytes; " : "", mode & 4 ? "second allocation + sodium_init; " : "", mode & 8 ? "randombytes_close + randombytes; " : "", mode & 16 ? "mprotect_readonly" : ""); } }
}
static void allocarray_big(long i)
{
    static const size_t CNT[4] = { 3, 1025, 65537, 1 }; size_t cnt = CNT[i & 3], sz = BIGSZ[(i >> 2) % 10] / cnt + 1, k; unsigned char *p = sodium_allocarray(cnt, sz); char key[96];
    snprintf(key, sizeof key, "sodium_allocarray/count=%zu/size=%zu", cnt, sz); n_eval++; n_nontriv++;
    if (!p) { vf_fail(key, "returned NULL (errno %d)", errno); return; }
    for (k = 0; k < cnt * sz; k++) if (p[k] != 0xdb) { vf_fail(key, "byte %zu is %02x, not the 0xdb fill", k, p[k]); break; }
    p[0] = 1; p[cnt * sz - 1] = 2; sodium_free(p);
}

int main(void)
{
    vf_init_seed(); thorough = vf_tier_thorough();
    if (sodium_init() < 0) return 2;
    PG = (size_t) sysconf(_SC_PAGESIZE);
    probe_init();
    alarm(3000);
    vf_parallel(16, 0, (long) ((thorough ? 8 : 3) * PG + 2), layout_item, fin);
    vf_parallel(12, 0, 12, protect_size, fin);
    vf_parallel(16, 0, 16, canary_structured, fin);
    histories(); fin();
    /* the same layout sweep (sizes around every page boundary), protection state machine, canary and history checks with mlock() failing */
    for (mlock_fails = 1; mlock_fails <= 3; mlock_fails++) {
        if (mlock_fails == 1 || thorough) vf_parallel(16, 0, (long) ((thorough ? 8 : 3) * PG + 2), layout_item_edges, fin);
        vf_parallel(12, 0, 12, protect_size, fin);
        if (mlock_fails == 1) { vf_parallel(16, 0, 16, canary_structured, fin); histories(); fin(); }
    }
    mlock_fails = 0;
    vf_parallel(10, 0, 10, layout_big, fin);
    vf_parallel(16, 0, 40, allocarray_big, fin);
    limits(); fin();
    vf_sample("sodium_malloc(4080): user region = last 4080 bytes of one page, p+4080 is the first byte of a PROT_NONE page (kernel probe: pwrite from it -> EFAULT)");
    vf_sample("sodium_malloc(4081): region grows to two pages; canary at p-16..p-1; each canary byte altered in a forked child -> sodium_free must die by signal");
    vf_sample("protection sequence N R W N on size 4097, probes of first/last/canary byte after every step, then sodium_free from NOACCESS in a child");
    vf_sample("sodium_allocarray(3, SIZE_MAX/3+1) -> NULL/ENOMEM without any mmap; sodium_malloc(SIZE_MAX-16390) -> NULL/ENOMEM");
    return 0;
}
