/* C04: hashes, MACs, KDFs: values at every length, crafted Poly1305 carries, and ALL chunkings via a state graph.
 * One process = one backend configuration. */
#include "common.h"
#include <sodium.h>
#include "ref_hash.h"
#include "ref_stream.h"

static unsigned long long n_eval, n_nontriv, g_states, g_trans, g_masked, g_replays;
static int thorough;
static size_t MAXLEN;

#define CMP(keyfmt, got, want, n, ...) do { n_eval++; n_nontriv++; if (memcmp(got, want, n) != 0) { char _k[200]; \
    snprintf(_k, sizeof _k, keyfmt, __VA_ARGS__); vf_fail(_k, "got %s want %s", vf_hex(got, n), vf_hex(want, n)); } } while (0)

/* ------------------------------------------------------------------ values */
static void values_len(long L)
{
    size_t len = (size_t) L; static unsigned char m[8300]; unsigned char key[64], o1[64], o2[64]; int p;
    for (p = 0; p < PAT_N; p++) {
        unsigned char *mm = m + (len & 15);                       /* vary the alignment with the length */
        vf_pat(mm, len, p, 61); vf_pat(key, 64, (p + 2) % PAT_N, 62);
        crypto_hash_sha256(o1, mm, len); ref_sha256(o2, mm, len); CMP("sha256/len=%zu/pat=%s", o1, o2, 32, len, vf_patname[p]);
        crypto_hash_sha512(o1, mm, len); ref_sha512(o2, mm, len); CMP("sha512/len=%zu/pat=%s", o1, o2, 64, len, vf_patname[p]);
        crypto_hash(o1, mm, len); CMP("crypto_hash/len=%zu/pat=%s", o1, o2, 64, len, vf_patname[p]);
        crypto_auth_hmacsha256(o1, mm, len, key); ref_hmac_sha256(o2, key, 32, mm, len); CMP("hmacsha256/len=%zu/pat=%s", o1, o2, 32, len, vf_patname[p]);
        if (crypto_auth_hmacsha256_verify(o2, mm, len, key) != 0) vf_fail("hmacsha256_verify/accept", "correct tag rejected len=%zu", len);
        crypto_auth_hmacsha512(o1, mm, len, key); ref_hmac_sha512(o2, key, 32, mm, len); CMP("hmacsha512/len=%zu/pat=%s", o1, o2, 64, len, vf_patname[p]);
        if (crypto_auth_hmacsha512_verify(o2, mm, len, key) != 0) vf_fail("hmacsha512_verify/accept", "correct tag rejected len=%zu", len);
        crypto_auth_hmacsha512256(o1, mm, len, key); ref_hmac_sha512256(o2, key, 32, mm, len); CMP("hmacsha512256/len=%zu/pat=%s", o1, o2, 32, len, vf_patname[p]);
        if (crypto_auth_hmacsha512256_verify(o2, mm, len, key) != 0) vf_fail("hmacsha512256_verify/accept", "correct tag rejected len=%zu", len);
        crypto_auth(o1, mm, len, key); CMP("crypto_auth/len=%zu/pat=%s", o1, o2, 32, len, vf_patname[p]);
        if (crypto_auth_verify(o2, mm, len, key) != 0) vf_fail("crypto_auth_verify/accept", "correct tag rejected len=%zu", len);
        crypto_generichash(o1, 32, mm, len, NULL, 0); ref_blake2b(o2, 32, mm, len, NULL, 0, NULL, NULL); CMP("generichash32/len=%zu/pat=%s", o1, o2, 32, len, vf_patname[p]);
        crypto_generichash(o1, 64, mm, len, key, 64); ref_blake2b(o2, 64, mm, len, key, 64, NULL, NULL); CMP("generichash64-keyed/len=%zu/pat=%s", o1, o2, 64, len, vf_patname[p]);
        crypto_shorthash(o1, mm, len, key); ref_siphash24(o2, mm, len, key); CMP("shorthash/len=%zu/pat=%s", o1, o2, 8, len, vf_patname[p]);
        crypto_shorthash_siphashx24(o1, mm, len, key); ref_siphashx24(o2, mm, len, key); CMP("siphashx24/len=%zu/pat=%s", o1, o2, 16, len, vf_patname[p]);
        crypto_onetimeauth(o1, mm, len, key); ref_poly1305(o2, mm, len, key); CMP("onetimeauth/len=%zu/pat=%s", o1, o2, 16, len, vf_patname[p]);
        if (crypto_onetimeauth_verify(o2, mm, len, key) != 0) vf_fail("onetimeauth_verify/accept", "correct tag rejected len=%zu", len);
        /* verify functions reject every single-bit variant of the tag (on a subset of lengths) */
        if (len <= 130 || len % 97 == 0) { int b;
            crypto_auth_hmacsha512(o1, mm, len, key);
            for (b = 0; b < 512; b++) { o1[b >> 3] ^= (unsigned char) (1 << (b & 7)); n_eval++; n_nontriv++;
                if (crypto_auth_hmacsha512_verify(o1, mm, len, key) == 0) { char k[96]; snprintf(k, sizeof k, "hmacsha512_verify/bitflip=%d/len=%zu", b, len); vf_fail(k, "forged tag accepted"); }
                o1[b >> 3] ^= (unsigned char) (1 << (b & 7)); }
            crypto_auth_hmacsha256(o1, mm, len, key);
            for (b = 0; b < 256; b++) { o1[b >> 3] ^= (unsigned char) (1 << (b & 7)); n_eval++; n_nontriv++;
                if (crypto_auth_hmacsha256_verify(o1, mm, len, key) == 0) { char k[96]; snprintf(k, sizeof k, "hmacsha256_verify/bitflip=%d/len=%zu", b, len); vf_fail(k, "forged tag accepted"); }
                o1[b >> 3] ^= (unsigned char) (1 << (b & 7)); }
            crypto_auth_hmacsha512256(o1, mm, len, key);
            for (b = 0; b < 256; b++) { o1[b >> 3] ^= (unsigned char) (1 << (b & 7)); n_eval++; n_nontriv++;
                if (crypto_auth_hmacsha512256_verify(o1, mm, len, key) == 0 || crypto_auth_verify(o1, mm, len, key) == 0) { char k[96]; snprintf(k, sizeof k, "hmacsha512256_verify/bitflip=%d/len=%zu", b, len); vf_fail(k, "forged tag accepted"); }
                o1[b >> 3] ^= (unsigned char) (1 << (b & 7)); }
            crypto_onetimeauth(o1, mm, len, key);
            for (b = 0; b < 128; b++) { o1[b >> 3] ^= (unsigned char) (1 << (b & 7)); n_eval++; n_nontriv++;
                if (crypto_onetimeauth_verify(o1, mm, len, key) == 0) { char k[96]; snprintf(k, sizeof k, "onetimeauth_verify/bitflip=%d/len=%zu", b, len); vf_fail(k, "forged tag accepted"); }
                o1[b >> 3] ^= (unsigned char) (1 << (b & 7)); }
        }
    }
}

/* isolated large lengths for every hash / MAC (one-shot and two-chunk streaming) */
static void big_len(long it)
{
    static const size_t BIGL[] = { 4095, 4096, 4097, 8191, 8192, 8193, 16383, 16384, 16385, 65535, 65536, 65537, 131071, 131072, 131073, 1048575, 1048576, 1048577, 4194303, 4194305 };
    size_t len = BIGL[it], cut; unsigned char *m, key[64], o1[64], o2[64];
    if (len > 1100000 && !thorough) return;
    m = malloc(len + 16); vf_pat(m, len, PAT_R1, 65); vf_pat(key, 64, PAT_R2, 66); cut = len / 2 + 1;
    crypto_hash_sha256(o1, m, len); ref_sha256(o2, m, len); CMP("sha256/len=%zu/%s", o1, o2, 32, len, "large");
    crypto_hash_sha512(o1, m, len); ref_sha512(o2, m, len); CMP("sha512/len=%zu/%s", o1, o2, 64, len, "large");
    crypto_auth(o1, m, len, key); ref_hmac_sha512256(o2, key, 32, m, len); CMP("crypto_auth/len=%zu/%s", o1, o2, 32, len, "large");
    crypto_auth_hmacsha256(o1, m, len, key); ref_hmac_sha256(o2, key, 32, m, len); CMP("hmacsha256/len=%zu/%s", o1, o2, 32, len, "large");
    crypto_generichash(o1, 64, m, len, key, 64); ref_blake2b(o2, 64, m, len, key, 64, NULL, NULL); CMP("generichash64-keyed/len=%zu/%s", o1, o2, 64, len, "large");
    crypto_shorthash(o1, m, len, key); ref_siphash24(o2, m, len, key); CMP("shorthash/len=%zu/%s", o1, o2, 8, len, "large");
    crypto_onetimeauth(o1, m, len, key); ref_poly1305(o2, m, len, key); CMP("onetimeauth/len=%zu/%s", o1, o2, 16, len, "large");
    { crypto_onetimeauth_state ps; crypto_generichash_state gs; crypto_hash_sha512_state hs; crypto_hash_sha256_state h2;
      crypto_onetimeauth_init(&ps, key); crypto_onetimeauth_update(&ps, m, cut); crypto_onetimeauth_update(&ps, m + cut, len - cut); crypto_onetimeauth_final(&ps, o1); CMP("onetimeauth-multipart/len=%zu/%s", o1, o2, 16, len, "large");
      crypto_generichash_init(&gs, key, 64, 64); crypto_generichash_update(&gs, m, cut); crypto_generichash_update(&gs, m + cut, len - cut); crypto_generichash_final(&gs, o1, 64); ref_blake2b(o2, 64, m, len, key, 64, NULL, NULL); CMP("generichash-multipart/len=%zu/%s", o1, o2, 64, len, "large");
      crypto_hash_sha512_init(&hs); crypto_hash_sha512_update(&hs, m, cut); crypto_hash_sha512_update(&hs, m + cut, len - cut); crypto_hash_sha512_final(&hs, o1); ref_sha512(o2, m, len); CMP("sha512-multipart/len=%zu/%s", o1, o2, 64, len, "large");
      crypto_hash_sha256_init(&h2); crypto_hash_sha256_update(&h2, m, cut); crypto_hash_sha256_update(&h2, m + cut, len - cut); crypto_hash_sha256_final(&h2, o1); ref_sha256(o2, m, len); CMP("sha256-multipart/len=%zu/%s", o1, o2, 32, len, "large"); }
    free(m);
}

/* HMAC with every key length 0..200 through the multipart API */
static void hmac_keylen(long KL)
{
    static const size_t ML[] = { 0, 1, 55, 56, 63, 64, 65, 111, 112, 119, 120, 127, 128, 129, 200, 257 };
    size_t kl = (size_t) KL, i; unsigned char key[208], m[260], o1[64], o2[64];
    vf_pat(key, kl, (int) (kl % PAT_N), 71);
    for (i = 0; i < sizeof ML / sizeof ML[0]; i++) {
        crypto_auth_hmacsha256_state s2; crypto_auth_hmacsha512_state s5; crypto_auth_hmacsha512256_state s52;
        vf_pat(m, ML[i], PAT_R1, 72 + kl);
        crypto_auth_hmacsha256_init(&s2, key, kl); crypto_auth_hmacsha256_update(&s2, m, ML[i]); crypto_auth_hmacsha256_final(&s2, o1);
        ref_hmac_sha256(o2, key, kl, m, ML[i]); CMP("hmacsha256-multipart/keylen=%zu/len=%zu", o1, o2, 32, kl, ML[i]);
        crypto_auth_hmacsha512_init(&s5, key, kl); crypto_auth_hmacsha512_update(&s5, m, ML[i]); crypto_auth_hmacsha512_final(&s5, o1);
        ref_hmac_sha512(o2, key, kl, m, ML[i]); CMP("hmacsha512-multipart/keylen=%zu/len=%zu", o1, o2, 64, kl, ML[i]);
        crypto_auth_hmacsha512256_init(&s52, key, kl); crypto_auth_hmacsha512256_update(&s52, m, ML[i]); crypto_auth_hmacsha512256_final(&s52, o1);
        ref_hmac_sha512256(o2, key, kl, m, ML[i]); CMP("hmacsha512256-multipart/keylen=%zu/len=%zu", o1, o2, 32, kl, ML[i]);
    }
}

/* BLAKE2b: every outlen x key lengths x salt/personal x message lengths; out-of-range refusals */
static void blake_outlen(long OL)
{
    static const size_t KLS[] = { 0, 1, 16, 32, 63, 64 };
    size_t ol = (size_t) OL, ki, ml, maxml = thorough ? 520 : 300; int sp; unsigned char key[64], salt[16], pers[16], m[600], o1[64], o2[64];
    vf_pat(salt, 16, PAT_R1, 81); vf_pat(pers, 16, PAT_R2, 82);
    for (ki = 0; ki < 6; ki++) for (sp = 0; sp < 4; sp++) for (ml = 0; ml <= maxml; ml += (ml < 140 || thorough ? 1 : 13)) {
        const unsigned char *k = KLS[ki] ? key : NULL, *sa = (sp & 1) ? salt : NULL, *pe = (sp & 2) ? pers : NULL; int r;
        vf_pat(key, 64, (int) (ol % PAT_N), 83); vf_pat(m, ml, (int) ((ol + ml) % PAT_N), 84);
        if (sp == 0) r = crypto_generichash(o1, ol, m, ml, k, KLS[ki]);
        else r = crypto_generichash_blake2b_salt_personal(o1, ol, m, ml, k, KLS[ki], sa, pe);
        ref_blake2b(o2, ol, m, ml, k, KLS[ki], sa, pe);
        if (r != 0) vf_fail("generichash/ret", "ret %d outlen=%zu keylen=%zu", r, ol, KLS[ki]);
        CMP("generichash/outlen=%zu/keylen=%zu/sp=%d/len=%zu", o1, o2, ol, ol, KLS[ki], sp, ml);
        if (ml == 77 || ml == 128 || ml == 0) {      /* multipart with the same parameters */
            crypto_generichash_blake2b_state st;
            if (sp == 0) crypto_generichash_blake2b_init(&st, k, KLS[ki], ol); else crypto_generichash_blake2b_init_salt_personal(&st, k, KLS[ki], ol, sa, pe);
            crypto_generichash_blake2b_update(&st, m, ml / 2); crypto_generichash_blake2b_update(&st, m + ml / 2, ml - ml / 2);
            crypto_generichash_blake2b_final(&st, o1, ol);
            CMP("generichash-multipart/outlen=%zu/keylen=%zu/sp=%d/len=%zu", o1, o2, ol, ol, KLS[ki], sp, ml);
        }
    }
}
/* zero-length input passed as NULL (allowed: the input pointers are not declared nonnull) equals the empty-message value */
static void null_inputs(void)
{
    unsigned char key[64], o1[64], o2[64];
    vf_pat(key, 64, PAT_R1, 67);
    crypto_hash_sha256(o1, NULL, 0); ref_sha256(o2, NULL, 0); CMP("sha256/NULL/%d%s", o1, o2, 32, 0, "");
    crypto_hash_sha512(o1, NULL, 0); ref_sha512(o2, NULL, 0); CMP("sha512/NULL/%d%s", o1, o2, 64, 0, "");
    crypto_auth(o1, NULL, 0, key); ref_hmac_sha512256(o2, key, 32, NULL, 0); CMP("crypto_auth/NULL/%d%s", o1, o2, 32, 0, "");
    crypto_auth_hmacsha256(o1, NULL, 0, key); ref_hmac_sha256(o2, key, 32, NULL, 0); CMP("hmacsha256/NULL/%d%s", o1, o2, 32, 0, "");
    crypto_auth_hmacsha512(o1, NULL, 0, key); ref_hmac_sha512(o2, key, 32, NULL, 0); CMP("hmacsha512/NULL/%d%s", o1, o2, 64, 0, "");
    crypto_generichash(o1, 32, NULL, 0, NULL, 0); ref_blake2b(o2, 32, NULL, 0, NULL, 0, NULL, NULL); CMP("generichash/NULL/%d%s", o1, o2, 32, 0, "");
    crypto_generichash(o1, 32, NULL, 0, key, 32); ref_blake2b(o2, 32, NULL, 0, key, 32, NULL, NULL); CMP("generichash-keyed/NULL/%d%s", o1, o2, 32, 0, "");
    crypto_shorthash(o1, NULL, 0, key); ref_siphash24(o2, NULL, 0, key); CMP("shorthash/NULL/%d%s", o1, o2, 8, 0, "");
    crypto_onetimeauth(o1, NULL, 0, key); ref_poly1305(o2, NULL, 0, key); CMP("onetimeauth/NULL/%d%s", o1, o2, 16, 0, "");
    crypto_kdf_hkdf_sha256_extract(o1, NULL, 0, key, 0); ref_hkdf_sha256_extract(o2, NULL, 0, key, 0); CMP("hkdf_sha256_extract/NULL-salt-empty-ikm/%d%s", o1, o2, 32, 0, "");
    crypto_kdf_hkdf_sha256_expand(o1, 32, NULL, 0, key); ref_hkdf_sha256_expand(o2, 32, NULL, 0, key); CMP("hkdf_sha256_expand/NULL-ctx/%d%s", o1, o2, 32, 0, "");
    crypto_kdf_hkdf_sha512_expand(o1, 64, NULL, 0, key); ref_hkdf_sha512_expand(o2, 64, NULL, 0, key); CMP("hkdf_sha512_expand/NULL-ctx/%d%s", o1, o2, 64, 0, "");
}

static void refusals(void)
{
    unsigned char o[80], key[80], m[8] = { 0 }; crypto_generichash_state st; char ctx[8] = "verifctx"; int r;
    memset(key, 7, sizeof key);
#define REFUSE(name, call) do { memset(o, 0xA5, sizeof o); errno = 0; r = (call); n_eval++; n_nontriv++; if (r != -1) vf_fail(name, "out-of-range request returned %d", r); } while (0)
    REFUSE("generichash/outlen=0", crypto_generichash(o, 0, m, 8, NULL, 0));
    REFUSE("generichash/outlen=65", crypto_generichash(o, 65, m, 8, NULL, 0));
    REFUSE("generichash/keylen=65", crypto_generichash(o, 32, m, 8, key, 65));
    REFUSE("generichash_init/outlen=0", crypto_generichash_init(&st, NULL, 0, 0));
    REFUSE("generichash_init/outlen=65", crypto_generichash_init(&st, NULL, 0, 65));
    REFUSE("generichash_init/keylen=65", crypto_generichash_init(&st, key, 65, 32));
    REFUSE("generichash_salt_personal/outlen=65", crypto_generichash_blake2b_salt_personal(o, 65, m, 8, NULL, 0, NULL, NULL));
    REFUSE("kdf_derive/len=15", crypto_kdf_derive_from_key(o, 15, 1, ctx, key));
    REFUSE("kdf_derive/len=65", crypto_kdf_derive_from_key(o, 65, 1, ctx, key));
    REFUSE("kdf_derive/len=0", crypto_kdf_derive_from_key(o, 0, 1, ctx, key));
    /* every size parameter: values that become valid when narrowed to 8, 16 or 32 bits (valid + k * 2^w), and the values around the type limits */
    { static unsigned char big[70000]; static const size_t BASE[6] = { 16, 32, 64, 1, 17, 63 }; static const size_t ADD[9] = { 256, 512, 65536, 65536 + 256, (size_t) 1 << 31, (size_t) 1 << 32, ((size_t) 1 << 32) + 256, (size_t) 1 << 63, (size_t) 0 - 256 };
      unsigned bi, ai; char nm[96]; crypto_generichash_state st2;
      for (bi = 0; bi < 6; bi++) for (ai = 0; ai < 9; ai++) { size_t v = BASE[bi] + ADD[ai];
          snprintf(nm, sizeof nm, "generichash/outlen=%zu", v); memset(big, 0xA5, 64); errno = 0; r = crypto_generichash(big, v, m, 8, NULL, 0); n_eval++; n_nontriv++; if (r != -1) vf_fail(nm, "out-of-range request returned %d", r);
          snprintf(nm, sizeof nm, "generichash/keylen=%zu", v); r = crypto_generichash(big, 32, m, 8, key, v); n_eval++; if (r != -1) vf_fail(nm, "out-of-range request returned %d", r);
          snprintf(nm, sizeof nm, "generichash_init/outlen=%zu", v); r = crypto_generichash_init(&st2, NULL, 0, v); n_eval++; if (r != -1) vf_fail(nm, "out-of-range request returned %d", r);
          snprintf(nm, sizeof nm, "generichash_init/keylen=%zu", v); r = crypto_generichash_init(&st2, key, v, 32); n_eval++; if (r != -1) vf_fail(nm, "out-of-range request returned %d", r);
          snprintf(nm, sizeof nm, "generichash_blake2b_init_salt_personal/outlen=%zu", v); r = crypto_generichash_blake2b_init_salt_personal(&st2, NULL, 0, v, NULL, NULL); n_eval++; if (r != -1) vf_fail(nm, "out-of-range request returned %d", r);
          snprintf(nm, sizeof nm, "generichash_blake2b_init_salt_personal/keylen=%zu", v); r = crypto_generichash_blake2b_init_salt_personal(&st2, key, v, 32, NULL, NULL); n_eval++; if (r != -1) vf_fail(nm, "out-of-range request returned %d", r);
          snprintf(nm, sizeof nm, "generichash_blake2b_salt_personal/outlen=%zu", v); r = crypto_generichash_blake2b_salt_personal(big, v, m, 8, NULL, 0, NULL, NULL); n_eval++; if (r != -1) vf_fail(nm, "out-of-range request returned %d", r);
          snprintf(nm, sizeof nm, "generichash_blake2b_salt_personal/keylen=%zu", v); r = crypto_generichash_blake2b_salt_personal(big, 32, m, 8, key, v, NULL, NULL); n_eval++; if (r != -1) vf_fail(nm, "out-of-range request returned %d", r);
          snprintf(nm, sizeof nm, "kdf_derive/len=%zu", v); r = crypto_kdf_derive_from_key(big, v, 1, ctx, key); n_eval++; if (r != -1) vf_fail(nm, "out-of-range request returned %d", r);
          snprintf(nm, sizeof nm, "hkdf_sha256_expand/len=%zu", v + 8160); r = v + 16320 < v ? -1 : crypto_kdf_hkdf_sha256_expand(big, v + 8160, "c", 1, key); n_eval++; if (r != -1) vf_fail(nm, "out-of-range request returned %d", r);
          snprintf(nm, sizeof nm, "hkdf_sha512_expand/len=%zu", v + 16320); r = v + 16320 < v ? -1 : crypto_kdf_hkdf_sha512_expand(big, v + 16320, "c", 1, key); n_eval++; if (r != -1) vf_fail(nm, "out-of-range request returned %d", r); }
      /* final with an output length the state was not initialised for: refused by -1, the misuse handler or an assertion (all terminate the request) */
      { static const size_t FL[5] = { 0, 65, 255, 288, 65536 + 32 }; unsigned fi;
        for (fi = 0; fi < 5; fi++) { pid_t pid; int stt; fflush(stdout); pid = fork();
            if (pid == 0) { crypto_generichash_init(&st2, NULL, 0, 32); crypto_generichash_update(&st2, m, 8); _exit(crypto_generichash_final(&st2, big, FL[fi]) == 0 ? 0 : 7); }
            waitpid(pid, &stt, 0); n_eval++; n_nontriv++;
            if (WIFEXITED(stt) && WEXITSTATUS(stt) == 0) { snprintf(nm, sizeof nm, "generichash_final/outlen=%zu", FL[fi]); vf_fail(nm, "final with an out-of-range output length succeeded"); } } }
      REFUSE("hkdf_sha256_expand/len=8161", crypto_kdf_hkdf_sha256_expand(big, 8161, "c", 1, key));
      REFUSE("hkdf_sha512_expand/len=16321", crypto_kdf_hkdf_sha512_expand(big, 16321, "c", 1, key)); }
}
/* kdf + hkdf */
static void kdf_all(long which)
{
    unsigned char key[64], o1[64], o2[64], salt[16], pers[16]; static unsigned char b1[16400], b2[16400];
    static const uint64_t IDS[] = { 0, 1, 2, 0xffffffffULL, 0x100000000ULL, 0x8000000000000000ULL, ~0ULL };
    if (which == 0) {
        size_t sl; unsigned i; int p;
        for (p = 0; p < PAT_N; p++) for (sl = 16; sl <= 64; sl++) for (i = 0; i < 7; i++) {
            char ctx[8]; int j; vf_pat(key, 32, p, 91); vf_pat((unsigned char *) ctx, 8, (p + 1) % PAT_N, 92);
            memset(salt, 0, 16); memset(pers, 0, 16); for (j = 0; j < 8; j++) salt[j] = (unsigned char) (IDS[i] >> (8 * j)); memcpy(pers, ctx, 8);
            if (crypto_kdf_derive_from_key(o1, sl, IDS[i], ctx, key) != 0) vf_fail("kdf_derive/ret", "in-range request failed");
            ref_blake2b(o2, sl, NULL, 0, key, 32, salt, pers);
            CMP("kdf_derive/len=%zu/id=%" PRIu64 "/pat=%s", o1, o2, sl, sl, IDS[i], vf_patname[p]);
        }
        /* binary contexts: the 8 context bytes are data, not a C string - a zero byte at every position (and pairs of them) followed by non-zero bytes */
        { int z1, z2; for (z1 = 0; z1 < 8; z1++) for (z2 = z1; z2 < 8; z2++) for (i = 0; i < 3; i++) {
            char ctx[8]; int j; vf_pat(key, 32, PAT_R1, 91); for (j = 0; j < 8; j++) ctx[j] = (char) (0x61 + j); ctx[z1] = 0; ctx[z2] = 0;
            memset(salt, 0, 16); memset(pers, 0, 16); for (j = 0; j < 8; j++) salt[j] = (unsigned char) (IDS[i] >> (8 * j)); memcpy(pers, ctx, 8);
            if (crypto_kdf_derive_from_key(o1, 32 + z1, IDS[i], ctx, key) != 0) vf_fail("kdf_derive/ret", "in-range request failed");
            ref_blake2b(o2, 32 + z1, NULL, 0, key, 32, salt, pers);
            CMP("kdf_derive/binary-context/zero-at=%d,%d/id=%" PRIu64 "/len=%d", o1, o2, 32 + z1, z1, z2, IDS[i], 32 + z1);
        } }
        return;
    }
    if (which <= 6) {                                  /* hkdf extract: salt length x ikm length, one pattern per worker item */
        size_t sl, il; int p = (int) which - 1; unsigned char salt2[140], ikm[300];
        for (sl = 0; sl <= 130; sl += (sl < 70 ? 1 : 7)) for (il = 0; il <= 260; il += (il < 70 ? 1 : 11)) {
            vf_pat(salt2, sl, p, 93); vf_pat(ikm, il, (p + 3) % PAT_N, 94);
            crypto_kdf_hkdf_sha256_extract(o1, sl ? salt2 : NULL, sl, ikm, il); ref_hkdf_sha256_extract(o2, salt2, sl, ikm, il);
            CMP("hkdf_sha256_extract/salt=%zu/ikm=%zu/pat=%s", o1, o2, 32, sl, il, vf_patname[p]);
            crypto_kdf_hkdf_sha512_extract(o1, sl ? salt2 : NULL, sl, ikm, il); ref_hkdf_sha512_extract(o2, salt2, sl, ikm, il);
            CMP("hkdf_sha512_extract/salt=%zu/ikm=%zu/pat=%s", o1, o2, 64, sl, il, vf_patname[p]);
        }
        return;
    }
    {   /* hkdf expand: every out_len, residue class per worker item (which-7 in 0..15) */
        size_t ol; static const size_t CL[3] = { 0, 11, 80 }; int c; char ctx[80];
        vf_pat(key, 64, PAT_R1, 95); vf_pat((unsigned char *) ctx, 80, PAT_C, 96);
        for (c = 0; c < 3; c++) {
            for (ol = (size_t) which - 7; ol <= 8160; ol += 16) {
                if (!thorough && ol > 700 && (ol % 32 > 2 && ol % 32 < 30) ) continue;
                if (crypto_kdf_hkdf_sha256_expand(b1, ol, CL[c] ? ctx : NULL, CL[c], key) != 0) vf_fail("hkdf_sha256_expand/ret", "len %zu refused", ol);
                ref_hkdf_sha256_expand(b2, ol, (const uint8_t *) ctx, CL[c], key);
                n_eval++; if (ol) n_nontriv++;
                if (memcmp(b1, b2, ol)) { char k[96]; snprintf(k, sizeof k, "hkdf_sha256_expand/len=%zu/ctx=%zu", ol, CL[c]); vf_fail(k, "output mismatch"); }
            }
            for (ol = (size_t) which - 7; ol <= 16320; ol += 16) {
                if (!thorough && ol > 1400 && (ol % 64 > 2 && ol % 64 < 62)) continue;
                if (crypto_kdf_hkdf_sha512_expand(b1, ol, CL[c] ? ctx : NULL, CL[c], key) != 0) vf_fail("hkdf_sha512_expand/ret", "len %zu refused", ol);
                ref_hkdf_sha512_expand(b2, ol, (const uint8_t *) ctx, CL[c], key);
                n_eval++; if (ol) n_nontriv++;
                if (memcmp(b1, b2, ol)) { char k[96]; snprintf(k, sizeof k, "hkdf_sha512_expand/len=%zu/ctx=%zu", ol, CL[c]); vf_fail(k, "output mismatch"); }
            }
        }
    }
}

/* ------------------------------------------------------------------ huge lengths (thorough): 2^29+1 bytes (the bit count passes 2^32) and
 * 2^32+1 bytes (the byte count passes 2^32), on a virtual buffer that maps one 8 MiB pattern chunk over and over (no RAM needed) */
#include <sys/mman.h>
static unsigned char *alias_buffer(size_t total)
{
    size_t chunk = (size_t) 8 << 20, off, span; int fd = memfd_create("verif-alias", 0); unsigned char *base, *first;
    if (fd < 0 || ftruncate(fd, (off_t) chunk)) return NULL;
    span = (total + chunk - 1) / chunk * chunk;
    base = mmap(NULL, span, PROT_NONE, MAP_PRIVATE | MAP_ANONYMOUS | MAP_NORESERVE, -1, 0);
    if (base == MAP_FAILED) return NULL;
    for (off = 0; off < span; off += chunk) if (mmap(base + off, chunk, PROT_READ | PROT_WRITE, MAP_SHARED | MAP_FIXED, fd, 0) == MAP_FAILED) return NULL;
    close(fd); first = base; vf_pat(first, chunk, PAT_R1, 67);
    return base;
}
static void huge_len(long it)
{
    static const unsigned long long HL[2] = { (1ULL << 29) + 1, (1ULL << 32) + 1 }; size_t len = (size_t) HL[it / 8]; int fn = (int) (it % 8);
    unsigned char *m = alias_buffer(len + 64), key[64], o1[64], o2[64]; size_t cut = len / 2 + 3;
    if (!m) { printf("INFO huge length %zu skipped: cannot map the aliased buffer\n", len); return; }
    vf_pat(key, 64, PAT_R2, 66);
    switch (fn) {
    case 0: crypto_hash_sha256(o1, m, len); ref_sha256(o2, m, len); CMP("sha256/len=%zu/%s", o1, o2, 32, len, "huge"); break;
    case 1: crypto_hash_sha512(o1, m, len); ref_sha512(o2, m, len); CMP("sha512/len=%zu/%s", o1, o2, 64, len, "huge"); break;
    case 2: crypto_auth_hmacsha256(o1, m, len, key); ref_hmac_sha256(o2, key, 32, m, len); CMP("hmacsha256/len=%zu/%s", o1, o2, 32, len, "huge"); break;
    case 3: crypto_generichash(o1, 64, m, len, key, 64); ref_blake2b(o2, 64, m, len, key, 64, NULL, NULL); CMP("generichash64-keyed/len=%zu/%s", o1, o2, 64, len, "huge"); break;
    case 4: crypto_shorthash(o1, m, len, key); ref_siphash24(o2, m, len, key); CMP("shorthash/len=%zu/%s", o1, o2, 8, len, "huge");
            crypto_onetimeauth(o1, m, len, key); ref_poly1305(o2, m, len, key); CMP("onetimeauth/len=%zu/%s", o1, o2, 16, len, "huge"); break;
    case 5: { crypto_hash_sha256_state h2; crypto_hash_sha256_init(&h2); crypto_hash_sha256_update(&h2, m, cut); crypto_hash_sha256_update(&h2, m + cut, len - cut); crypto_hash_sha256_final(&h2, o1);
              ref_sha256(o2, m, len); CMP("sha256-multipart/len=%zu/%s", o1, o2, 32, len, "huge"); } break;
    case 6: { crypto_generichash_state gs; crypto_generichash_init(&gs, key, 64, 64); crypto_generichash_update(&gs, m, cut); crypto_generichash_update(&gs, m + cut, len - cut); crypto_generichash_final(&gs, o1, 64);
              ref_blake2b(o2, 64, m, len, key, 64, NULL, NULL); CMP("generichash-multipart/len=%zu/%s", o1, o2, 64, len, "huge"); } break;
    case 7: { crypto_hash_sha512_state hs; crypto_hash_sha512_init(&hs); crypto_hash_sha512_update(&hs, m, cut); crypto_hash_sha512_update(&hs, m + cut, len - cut); crypto_hash_sha512_final(&hs, o1);
              ref_sha512(o2, m, len); CMP("sha512-multipart/len=%zu/%s", o1, o2, 64, len, "huge"); } break;
    }
}

/* 2^32+13 bytes (byte count past 2^32; 13 = one full SipHash word + 5, not a multiple of any block) through the one-shot functions huge_len does not
 * reach (with it: every one-shot function of the property has a > 4 GiB message): same aliased periodic buffer, same oracle (the reference over
 * the same bytes). fn 0,1 (SipHash-2-4 64/128, a few seconds each) run in both tiers, the rest in the thorough tier. */
static void huge13_len(long fn)
{
    size_t len = (size_t) ((1ULL << 32) + 13); unsigned char *m = alias_buffer(len + 64), key[64], o1[64], o2[64];
    if (!m) { printf("INFO huge length %zu skipped: cannot map the aliased buffer\n", len); return; }
    vf_pat(key, 64, PAT_R2, 68);
    switch ((int) fn) {
    case 0: crypto_shorthash(o1, m, len, key); ref_siphash24(o2, m, len, key); CMP("shorthash/len=%zu/%s", o1, o2, 8, len, "huge13"); break;
    case 1: crypto_shorthash_siphashx24(o1, m, len, key); ref_siphashx24(o2, m, len, key); CMP("shorthash_siphashx24/len=%zu/%s", o1, o2, 16, len, "huge13"); break;
    case 2: crypto_generichash(o1, 32, m, len, NULL, 0); ref_blake2b(o2, 32, m, len, NULL, 0, NULL, NULL); CMP("generichash32/len=%zu/%s", o1, o2, 32, len, "huge13"); break;
    case 3: crypto_auth(o1, m, len, key); ref_hmac_sha512256(o2, key, 32, m, len); CMP("crypto_auth/len=%zu/%s", o1, o2, 32, len, "huge13"); break;
    case 4: crypto_auth_hmacsha512(o1, m, len, key); ref_hmac_sha512(o2, key, 32, m, len); CMP("hmacsha512/len=%zu/%s", o1, o2, 64, len, "huge13"); break;
    }
}

/* ------------------------------------------------------------------ crafted Poly1305 */
static const unsigned char PBLK[7][16] = {
    { 0 }, { 1 },
    { 0xff,0xff,0xff,0xff,0xff,0xff,0xff,0xff,0xff,0xff,0xff,0xff,0xff,0xff,0xff,0xff },
    { 0xfb,0xff,0xff,0xff,0xff,0xff,0xff,0xff,0xff,0xff,0xff,0xff,0xff,0xff,0xff,0xff },
    { 0xfc,0xff,0xff,0xff,0xff,0xff,0xff,0xff,0xff,0xff,0xff,0xff,0xff,0xff,0xff,0xff },
    { 0xfb,0xff,0,0,0,0,0,0,0,0,0,0,0,0,0,0 },
    { 0x5a,0xc3,0x17,0x99,0xe0,0x2b,0x44,0xd1,0x08,0xfe,0x73,0x6a,0x81,0x3c,0xb5,0x0f } };
static const unsigned char PR[8][16] = {
    { 0 }, { 1 }, { 2 }, { 3 }, { 4 }, { 5 },
    { 0xff,0xff,0xff,0x0f,0xfc,0xff,0xff,0x0f,0xfc,0xff,0xff,0x0f,0xfc,0xff,0xff,0x0f },
    { 0,0,0,0,0,0,0,0,0,0,0,0,0,0,0,0x08 } };      /* 2^123 (largest clamped power of two) */
static const unsigned char PS[3][16] = { { 0 }, { 0xff,0xff,0xff,0xff,0xff,0xff,0xff,0xff,0xff,0xff,0xff,0xff,0xff,0xff,0xff,0xff }, { 5 } };

static void poly_one(const unsigned char *msg, size_t len, int ri, int si, const char *fam, long id)
{
    unsigned char key[32], o1[16], o2[16], o3[16]; crypto_onetimeauth_state st;
    memcpy(key, PR[ri], 16); memcpy(key + 16, PS[si], 16);
    crypto_onetimeauth(o1, msg, len, key); ref_poly1305(o2, msg, len, key);
    CMP("onetimeauth-crafted/%s/id=%ld/len=%zu/r=%d/s=%d", o1, o2, 16, fam, id, len, ri, si);
    crypto_onetimeauth_init(&st, key); crypto_onetimeauth_update(&st, msg, len / 3); crypto_onetimeauth_update(&st, msg + len / 3, len - len / 3);
    crypto_onetimeauth_final(&st, o3);
    CMP("onetimeauth-crafted-multipart/%s/id=%ld/len=%zu/r=%d/s=%d", o3, o2, 16, fam, id, len, ri, si);
    n_eval++; n_nontriv++;
    if (crypto_onetimeauth_verify(o2, msg, len, key) != 0) { char k[128]; snprintf(k, sizeof k, "onetimeauth_verify-crafted/%s/id=%ld/len=%zu/r=%d/s=%d", fam, id, len, ri, si); vf_fail(k, "correct tag rejected"); }
}
static void poly_crafted(long item)
{
    /* item = first block letter (0..6) for the product family, 7.. = homogeneous runs */
    unsigned char msg[16 * 40 + 16]; int ri, si, nb, pl, pf;
    if (item < 7) {
        unsigned long c, n;
        for (nb = 1; nb <= 4; nb++) {
            for (n = 1, c = 1; (int) c < nb; c++) n *= 7;
            for (c = 0; c < n; c++) {
                unsigned long v = c; int i;
                memcpy(msg, PBLK[item], 16);
                for (i = 1; i < nb; i++) { memcpy(msg + 16 * i, PBLK[v % 7], 16); v /= 7; }
                for (pl = 0; pl < 16; pl += (nb <= 3 || thorough ? 1 : 5)) for (pf = 0; pf < 2; pf++) {
                    memset(msg + 16 * nb, pf ? 0xff : 0x00, (size_t) pl);
                    if (pl == 0 && pf) continue;
                    for (ri = 0; ri < 8; ri++) for (si = 0; si < 3; si++) poly_one(msg, (size_t) (16 * nb + pl), ri, si, "prod", (long) (item * 100000 + (long) c * 40 + pl * 2 + pf));
                }
            }
        }
    } else {
        int letter = (int) item - 7;           /* 0..6 */
        for (nb = 0; nb <= 40; nb++) {
            int i; for (i = 0; i < nb; i++) memcpy(msg + 16 * i, PBLK[letter], 16);
            for (pl = 0; pl < 16; pl++) for (pf = 0; pf < 2; pf++) {
                memset(msg + 16 * nb, pf ? 0xff : 0x01, (size_t) pl);
                if (pl == 0 && pf) continue;
                for (ri = 0; ri < 8; ri++) for (si = 0; si < 3; si++) poly_one(msg, (size_t) (16 * nb + pl), ri, si, "run", (long) (letter * 10000 + nb * 40 + pl * 2 + pf));
            }
        }
    }
}

/* ------------------------------------------------------------------ Poly1305 cases built backwards (ref/gen_poly_cases.py):
 * messages whose accumulator before the final reduction is a chosen limb-boundary value, and keys whose r^2 / r^4 sit on the
 * partial-reduction boundary.  Expected tags come from the big-integer definition; the C reference must agree as well. */
static unsigned char *pc_data; static long pc_n; static size_t *pc_off;
static void poly_cases_load(void)
{
    const char *path = getenv("VERIF_POLY_CASES"); FILE *f; long sz, i; size_t o; uint32_t n;
    if (!path || !(f = fopen(path, "rb"))) { printf("INFO poly cases file not available\n"); return; }
    fseek(f, 0, SEEK_END); sz = ftell(f); fseek(f, 0, SEEK_SET); pc_data = malloc((size_t) sz);
    if (fread(pc_data, 1, (size_t) sz, f) != (size_t) sz) exit(2);
    fclose(f); memcpy(&n, pc_data, 4); pc_n = (long) n; pc_off = malloc(sizeof(size_t) * (size_t) (pc_n + 1));
    for (i = 0, o = 4; i < pc_n; i++) { pc_off[i] = o; o += 32 + 2 + (size_t) (pc_data[o + 32] | pc_data[o + 33] << 8) + 16 + 24; }
    if (o != (size_t) sz) { fprintf(stderr, "poly cases file corrupt\n"); exit(2); }
}
static void poly_cases_slice(long w)
{
    long i;
    for (i = w; i < pc_n; i += 16) {
        const unsigned char *rec = pc_data + pc_off[i], *key = rec, *msg = rec + 34, *tag; size_t len = (size_t) (rec[32] | rec[33] << 8); char kind[25];
        unsigned char o1[16], o2[16], o3[16]; crypto_onetimeauth_state st;
        tag = msg + len; memcpy(kind, tag + 16, 24); kind[24] = 0;
        ref_poly1305(o2, msg, len, key);
        if (memcmp(o2, tag, 16)) { char k[160]; snprintf(k, sizeof k, "poly-cases/reference-disagreement/%s/#%ld", kind, i); vf_fail(k, "C reference and big-integer definition disagree (harness defect)"); continue; }
        crypto_onetimeauth(o1, msg, len, key);
        CMP("onetimeauth-built-backwards/%s/key=%s/len=%zu/#%ld", o1, tag, 16, kind, vf_hex(key, 32), len, i);
        crypto_onetimeauth_init(&st, key); crypto_onetimeauth_update(&st, msg, len / 3); crypto_onetimeauth_update(&st, msg + len / 3, len - len / 3); crypto_onetimeauth_final(&st, o3);
        CMP("onetimeauth-built-backwards-multipart/%s/key=%s/len=%zu/#%ld", o3, tag, 16, kind, vf_hex(key, 32), len, i);
        if (crypto_onetimeauth_verify(tag, msg, len, key) != 0) { char k[200]; snprintf(k, sizeof k, "onetimeauth_verify-built-backwards/%s/key=%s/len=%zu/#%ld", kind, vf_hex(key, 32), len, i); vf_fail(k, "correct tag rejected"); }
    }
}

/* ------------------------------------------------------------------ chunking: state graph over ALL chunkings */
typedef struct {
    const char *name; size_t statesz, outlen, N; int param;
    void (*init)(void *st, int param);
    void (*update)(void *st, const unsigned char *m, size_t len);
    void (*final)(void *st, unsigned char *out);
    void (*ref)(unsigned char *out, const unsigned char *m, size_t len, int param);
} sapi;
static unsigned char GKEY[208];
static const size_t HKL[6] = { 0, 1, 32, 64, 65, 200 };   /* hmac key lengths; sha256 block 64: 64/65 straddle; sha512: 128 handled by 200 */
static void i_sha256(void *s, int p) { (void) p; crypto_hash_sha256_init(s); }
static void u_sha256(void *s, const unsigned char *m, size_t l) { crypto_hash_sha256_update(s, m, l); }
static void f_sha256(void *s, unsigned char *o) { crypto_hash_sha256_final(s, o); }
static void r_sha256(unsigned char *o, const unsigned char *m, size_t l, int p) { (void) p; ref_sha256(o, m, l); }
static void i_sha512(void *s, int p) { (void) p; crypto_hash_sha512_init(s); }
static void u_sha512(void *s, const unsigned char *m, size_t l) { crypto_hash_sha512_update(s, m, l); }
static void f_sha512(void *s, unsigned char *o) { crypto_hash_sha512_final(s, o); }
static void r_sha512(unsigned char *o, const unsigned char *m, size_t l, int p) { (void) p; ref_sha512(o, m, l); }
static void i_h256(void *s, int p) { crypto_auth_hmacsha256_init(s, GKEY, HKL[p]); }
static void u_h256(void *s, const unsigned char *m, size_t l) { crypto_auth_hmacsha256_update(s, m, l); }
static void f_h256(void *s, unsigned char *o) { crypto_auth_hmacsha256_final(s, o); }
static void r_h256(unsigned char *o, const unsigned char *m, size_t l, int p) { ref_hmac_sha256(o, GKEY, HKL[p], m, l); }
static void i_h512(void *s, int p) { crypto_auth_hmacsha512_init(s, GKEY, HKL[p]); }
static void u_h512(void *s, const unsigned char *m, size_t l) { crypto_auth_hmacsha512_update(s, m, l); }
static void f_h512(void *s, unsigned char *o) { crypto_auth_hmacsha512_final(s, o); }
static void r_h512(unsigned char *o, const unsigned char *m, size_t l, int p) { ref_hmac_sha512(o, GKEY, HKL[p], m, l); }
static void i_h512256(void *s, int p) { crypto_auth_hmacsha512256_init(s, GKEY, HKL[p]); }
static void u_h512256(void *s, const unsigned char *m, size_t l) { crypto_auth_hmacsha512256_update(s, m, l); }
static void f_h512256(void *s, unsigned char *o) { crypto_auth_hmacsha512256_final(s, o); }
static void r_h512256(unsigned char *o, const unsigned char *m, size_t l, int p) { ref_hmac_sha512256(o, GKEY, HKL[p], m, l); }
static void i_auth(void *s, int p) { (void) p; crypto_auth_hmacsha512256_init(s, GKEY, 32); }
static void r_auth(unsigned char *o, const unsigned char *m, size_t l, int p) { (void) p; ref_hmac_sha512256(o, GKEY, 32, m, l); }
static const size_t GOL[4] = { 32, 64, 1, 16 }, GKL[4] = { 0, 64, 17, 32 };
static void i_gh(void *s, int p) { crypto_generichash_init(s, GKL[p] ? GKEY : NULL, GKL[p], GOL[p]); }
static void u_gh(void *s, const unsigned char *m, size_t l) { crypto_generichash_update(s, m, l); }
static int gh_cur;
static void f_gh(void *s, unsigned char *o) { crypto_generichash_final(s, o, GOL[gh_cur]); }
static void r_gh(unsigned char *o, const unsigned char *m, size_t l, int p) { ref_blake2b(o, GOL[p], m, l, GKL[p] ? GKEY : NULL, GKL[p], NULL, NULL); }
static void i_ota(void *s, int p) { (void) p; crypto_onetimeauth_init(s, GKEY); }
static void u_ota(void *s, const unsigned char *m, size_t l) { crypto_onetimeauth_update(s, m, l); }
static void f_ota(void *s, unsigned char *o) { crypto_onetimeauth_final(s, o); }
static void r_ota(unsigned char *o, const unsigned char *m, size_t l, int p) { (void) p; ref_poly1305(o, m, l, GKEY); }
static void i_hk256(void *s, int p) { crypto_kdf_hkdf_sha256_extract_init(s, HKL[p] ? GKEY : NULL, HKL[p]); }
static void u_hk256(void *s, const unsigned char *m, size_t l) { crypto_kdf_hkdf_sha256_extract_update(s, m, l); }
static void f_hk256(void *s, unsigned char *o) { crypto_kdf_hkdf_sha256_extract_final(s, o); }
static void r_hk256(unsigned char *o, const unsigned char *m, size_t l, int p) { ref_hkdf_sha256_extract(o, GKEY, HKL[p], m, l); }
static void i_hk512(void *s, int p) { crypto_kdf_hkdf_sha512_extract_init(s, HKL[p] ? GKEY : NULL, HKL[p]); }
static void u_hk512(void *s, const unsigned char *m, size_t l) { crypto_kdf_hkdf_sha512_extract_update(s, m, l); }
static void f_hk512(void *s, unsigned char *o) { crypto_kdf_hkdf_sha512_extract_final(s, o); }
static void r_hk512(unsigned char *o, const unsigned char *m, size_t l, int p) { ref_hkdf_sha512_extract(o, GKEY, HKL[p], m, l); }

static sapi APIS[40]; static int napis;
static void add_api(const char *name, size_t ssz, size_t ol, size_t N, int param, void (*i)(void *, int), void (*u)(void *, const unsigned char *, size_t),
                    void (*f)(void *, unsigned char *), void (*r)(unsigned char *, const unsigned char *, size_t, int))
{ sapi *a = &APIS[napis++]; a->name = name; a->statesz = ssz; a->outlen = ol; a->N = N; a->param = param; a->init = i; a->update = u; a->final = f; a->ref = r; }
static void build_apis(void)
{
    int p;
    add_api("sha256", sizeof(crypto_hash_sha256_state), 32, 201, 0, i_sha256, u_sha256, f_sha256, r_sha256);
    add_api("sha512", sizeof(crypto_hash_sha512_state), 64, 393, 0, i_sha512, u_sha512, f_sha512, r_sha512);
    for (p = 0; p < 6; p++) {
        add_api("hmacsha256", sizeof(crypto_auth_hmacsha256_state), 32, 201, p, i_h256, u_h256, f_h256, r_h256);
        add_api("hmacsha512", sizeof(crypto_auth_hmacsha512_state), 64, 393, p, i_h512, u_h512, f_h512, r_h512);
        add_api("hmacsha512256", sizeof(crypto_auth_hmacsha512256_state), 32, 393, p, i_h512256, u_h512256, f_h512256, r_h512256);
    }
    add_api("crypto_auth", sizeof(crypto_auth_hmacsha512256_state), 32, 393, 0, i_auth, u_h512256, f_h512256, r_auth);
    for (p = 0; p < 4; p++) add_api("generichash", sizeof(crypto_generichash_state), GOL[p], 393, p, i_gh, u_gh, f_gh, r_gh);
    add_api("onetimeauth", sizeof(crypto_onetimeauth_state), 16, 201, 0, i_ota, u_ota, f_ota, r_ota);
    add_api("hkdf_sha256_extract", sizeof(crypto_kdf_hkdf_sha256_state), 32, 201, 0, i_hk256, u_hk256, f_hk256, r_hk256);
    add_api("hkdf_sha256_extract", sizeof(crypto_kdf_hkdf_sha256_state), 32, 201, 3, i_hk256, u_hk256, f_hk256, r_hk256);
    add_api("hkdf_sha512_extract", sizeof(crypto_kdf_hkdf_sha512_state), 64, 393, 0, i_hk512, u_hk512, f_hk512, r_hk512);
    add_api("hkdf_sha512_extract", sizeof(crypto_kdf_hkdf_sha512_state), 64, 393, 5, i_hk512, u_hk512, f_hk512, r_hk512);
}

/* state objects at every address class a caller may legitimately use: offsets 0, 16, 32, 48 from a 64-byte boundary (malloc gives 16-byte
 * alignment; crypto_*_statebytes() + malloc is the documented way to allocate states) - and 8, 24, 40, 56 for the states whose type has no
 * stricter alignment than 8.  Two updates + final at several lengths, against the reference. */
static void state_align(long ai)
{
    static const size_t LENS[] = { 0, 1, 63, 64, 65, 127, 128, 129, 200, 257 }; const sapi *A = &APIS[ai]; void *raw = NULL; unsigned off, li; unsigned char m[300], out[64], want[64]; char key[160];
    size_t S = A->statesz; int strict = !strcmp(A->name, "generichash") || !strcmp(A->name, "onetimeauth");      /* these two types carry an alignment attribute (64 / 16) */
    if (posix_memalign(&raw, 64, S + 128)) exit(2);
    gh_cur = A->param; vf_pat(m, sizeof m, PAT_R2, 131);
    for (off = 0; off < 64; off += 8) {
        unsigned char *st = (unsigned char *) raw + off;
        if (off % 16 && strict) continue;
        snprintf(vf_ctx, sizeof vf_ctx, "state-alignment/%s/param=%d/state-offset=%u", A->name, A->param, off);
        for (li = 0; li < sizeof LENS / sizeof LENS[0]; li++) {
            size_t len = LENS[li] <= A->N ? LENS[li] : A->N, cut = len / 3;
            memset(st, 0xEE, S); A->init(st, A->param); A->update(st, m, cut); A->update(st, m + cut, len - cut); memset(out, 0, 64); A->final(st, out);
            A->ref(want, m, len, A->param); n_eval++; n_nontriv++;
            if (memcmp(out, want, A->outlen)) { snprintf(key, sizeof key, "state-alignment/%s/param=%d/state-offset=%u/len=%zu", A->name, A->param, off, len); vf_fail(key, "got %s want %s", vf_hex(out, A->outlen), vf_hex(want, A->outlen)); }
        }
    }
    free(raw);
}

#define POISON 0xDD
/* E-graph: node t = canonical state image after absorbing M[0:t]; bytes that differ between two paths to the same offset are
 * "path-dependent": they are overwritten with POISON in the canonical image, so every later transition and every final() runs on
 * the poisoned image -- if such a byte mattered, a digest below would be wrong. Edges: update(M[t:t']) for every t <= t'. */
static void graph_api(long ai)
{
    const sapi *A = &APIS[ai]; size_t N = A->N, S = A->statesz, t, u, i; unsigned char *M = malloc(N + 16);
    unsigned char **canon = calloc(N + 1, sizeof *canon), **mask = calloc(N + 1, sizeof *mask);
    unsigned char *tmp, *tmp2, out[64], want[64]; char key[160];
    void *raw = NULL, *raw2 = NULL;
    if (posix_memalign(&raw, 64, S + 64) || posix_memalign(&raw2, 64, S + 64)) exit(2);
    tmp = raw; tmp2 = raw2;
    gh_cur = A->param;
    vf_pat(M, N, PAT_R1, 101 + (uint64_t) ai);
    memset(tmp, 0, S); A->init(tmp, A->param);
    canon[0] = malloc(S); mask[0] = calloc(S, 1); memcpy(canon[0], tmp, S); g_states++;
    for (t = 0; t <= N; t++) {
        if (!canon[t]) { snprintf(key, sizeof key, "chunk-graph/%s/param=%d/unreached=%zu", A->name, A->param, t); vf_fail(key, "offset never reached"); break; }
        /* self loops: empty update and NULL,0 must not change the (canonical) state */
        for (u = 0; u < 2; u++) {
            memcpy(tmp, canon[t], S); A->update(tmp, u ? NULL : M + t, 0); g_trans++;
            for (i = 0; i < S; i++) if (tmp[i] != canon[t][i] && !mask[t][i]) {
                snprintf(key, sizeof key, "chunk-graph/%s/param=%d/empty-update-at=%zu", A->name, A->param, t); vf_fail(key, "empty update changed state byte %zu", i); break; }
        }
        /* final on a copy must equal the reference digest of M[0:t] */
        memcpy(tmp, canon[t], S); memset(out, 0, 64); A->final(tmp, out); A->ref(want, M, t, A->param); n_eval++; n_nontriv++;
        if (memcmp(out, want, A->outlen)) { snprintf(key, sizeof key, "chunk-graph/%s/param=%d/final-at=%zu", A->name, A->param, t);
            vf_fail(key, "digest of the first %zu bytes from the canonical state: got %s want %s", t, vf_hex(out, A->outlen), vf_hex(want, A->outlen)); }
        for (u = t + 1; u <= N; u++) {
            memcpy(tmp, canon[t], S); A->update(tmp, M + t, u - t); g_trans++;
            if (!canon[u]) { canon[u] = malloc(S); mask[u] = calloc(S, 1); memcpy(canon[u], tmp, S); g_states++; continue; }
            for (i = 0; i < S; i++) if (tmp[i] != canon[u][i] && !mask[u][i]) { mask[u][i] = 1; canon[u][i] = POISON; g_masked++; }
        }
    }
    /* direct replays on a fresh state: every chunking with <= 2 cuts (thorough: <= 3 for N = 201), each also with an empty update
     * inserted after the first chunk; validates the graph's merged traces against plain executions */
    { size_t a, b, c3; int maxcuts3 = thorough && N <= 201;
      A->ref(want, M, N, A->param);
      for (a = 0; a <= N; a++) for (b = a; b <= N; b++) {
          for (c3 = b; c3 <= (maxcuts3 ? N : b); c3++) {
              memset(tmp2, 0, S); A->init(tmp2, A->param);
              A->update(tmp2, M, a); if ((a + b) & 1) A->update(tmp2, NULL, 0);
              A->update(tmp2, M + a, b - a); A->update(tmp2, M + b, c3 - b); A->update(tmp2, M + c3, N - c3);
              A->final(tmp2, out); g_replays++;
              if (memcmp(out, want, A->outlen)) { snprintf(key, sizeof key, "chunk-replay/%s/param=%d/cuts=%zu,%zu,%zu", A->name, A->param, a, b, c3);
                  vf_fail(key, "chunked digest differs from the reference one-shot digest"); if (vf_nfail >= VF_MAXFAIL) goto done; }
          }
      } }
done:
    for (t = 0; t <= N; t++) { free(canon[t]); free(mask[t]); }
    free(canon); free(mask); free(raw); free(raw2); free(M);
}

static void fin(void)
{
    vf_stat("evaluations", n_eval); vf_stat("nontrivial", n_nontriv); vf_stat("states", g_states); vf_stat("transitions", g_trans);
    vf_stat("masked_bytes", g_masked); vf_stat("replays", g_replays);
    n_eval = n_nontriv = g_states = g_trans = g_masked = g_replays = 0;
}

int main(void)
{
    vf_init_seed();
    thorough = vf_tier_thorough();
    MAXLEN = thorough ? 4200 : 1100;
    if (sodium_init() < 0) return 2;
    printf("INFO features avx2=%d sse41=%d ssse3=%d sse2=%d\n", sodium_runtime_has_avx2(), sodium_runtime_has_sse41(), sodium_runtime_has_ssse3(), sodium_runtime_has_sse2());
    vf_pat(GKEY, sizeof GKEY, PAT_R2, 100);
    build_apis();
    vf_parallel(16, 0, (long) MAXLEN + 1, values_len, fin);
    vf_parallel(16, 0, 20, big_len, fin);
    if (thorough && !getenv("SODIUM_VERIF_CPU_DISABLE")) vf_parallel(16, 0, 16, huge_len, fin);      /* once per build (unmasked configuration only) */
    if (!getenv("SODIUM_VERIF_CPU_DISABLE")) vf_parallel(5, 0, thorough ? 5 : 2, huge13_len, fin);     /* once per build; quick: the two SipHash functions */
    vf_parallel(16, 0, 201, hmac_keylen, fin);
    vf_parallel(16, 1, 65, blake_outlen, fin);
    vf_parallel(16, 0, 23, kdf_all, fin);
    vf_parallel(14, 0, 14, poly_crafted, fin);
    poly_cases_load(); if (pc_n) vf_parallel(16, 0, 16, poly_cases_slice, fin);
    vf_stat("poly_cases_built_backwards", (unsigned long long) pc_n);
    vf_parallel(16, 0, napis, graph_api, fin);
    strcpy(vf_ctx, "c04 state-alignment family (a crash here = a state at a 16-byte-aligned address was not handled)");
    vf_parallel(16, 0, napis, state_align, fin);
    refusals(); null_inputs(); fin();
    vf_sample("sha512 chunk graph: message of 393 bytes, node t = canonical state after M[0:t], edge = update(M[t:u]) for every t<u, final() checked at every node");
    vf_sample("onetimeauth crafted: r=1 s=0 msg = ff*16 || ff*16 || ff*10 (accumulator sums of 2^128-1 blocks, partial final block)");
    vf_sample("hkdf_sha256_expand out_len=8160 (255 blocks, accepted) and 8161 (refused)");
    vf_sample("generichash outlen=1 keylen=17 message length 128 (exactly one block: must be processed as the last block)");
    return 0;
}
