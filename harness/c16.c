/* C16: ISO/IEC 7816-4 padding: exhaustive (len, blocksize, capacity) enumeration against a byte-array model */
#include "common.h"
#include <signal.h>
#include <sodium.h>

static unsigned long long n_eval, n_nontriv;
static int thorough;

static size_t MAXLEN = 300, MAXBS = 130;
static const size_t big_bs[] = { 256, 512, 1024, 4096, 65536 };
static const size_t bigger_bs[] = { 65535, 65537, 70000, 131071, 131072, 131073, 196609, (size_t) 1 << 20, ((size_t) 1 << 20) + 1, ((size_t) 1 << 24) + 3 };   /* past 16 bits, padded for real (a few lengths only) */
static const size_t huge_bs[] = { (size_t) 1 << 31, (size_t) 1 << 32, ((size_t) 1 << 32) + 1, (size_t) 1 << 63,
                                  ((size_t) 1 << 63) + 1, SIZE_MAX - 1, SIZE_MAX,
                                  /* values whose low 16 / 32 bits are zero or tiny (a narrowed block size would be 0, 1, 2, 3 ...): k * 2^32 for k not a power of two, k * 2^16 */
                                  ((size_t) 1 << 32) - 1, (size_t) 3 << 32, (size_t) 5 << 32, ((size_t) 3 << 32) + 1, ((size_t) 3 << 32) + 2, ((size_t) 3 << 32) + 3, ((size_t) 6 << 32) + 16,
                                  (size_t) 3 << 16, (size_t) 65537, ((size_t) 1 << 31) + 1, ((size_t) 7 << 40), ((size_t) 1 << 48) + 3, ((size_t) 0xffffffff << 32) };

static int ref_unpad(size_t *out, const unsigned char *buf, size_t plen, size_t bs)
{
    size_t i;
    if (bs == 0 || plen < bs) return -1;
    for (i = 0; i < bs; i++) {
        unsigned char c = buf[plen - 1 - i];
        if (c == 0) continue;
        if (c == 0x80) { *out = plen - 1 - i; return 0; }
        return -1;
    }
    return -1;
}

static unsigned char *work, *orig;
static size_t         work_sz;

static void pad_case(size_t len, size_t bs, size_t cap, int use_p, int pat)
{
    size_t padded = bs ? len + (bs - len % bs) : 0, got = 0xdeadbeef, i, un = 0;
    /* the model decides first; a refused call only needs the data and the stated capacity to exist */
    int    r, want = (bs == 0 || padded > cap || padded < len) ? -1 : 0;
    /* capacities far above the padded length ("no limit": 2^32, SIZE_MAX, SIZE_MAX - address ...) are claimed, not allocated: the call may
     * write only up to the padded length, which the 0xEE area after it shows */
    size_t capm = (bs && cap > padded + 4096 && padded >= len) ? padded + 4096 : cap;
    size_t need = (want == 0 ? (padded > capm ? padded : capm) : (len > capm ? len : capm)) + 64;
    char   key[128];
    if (need > work_sz) { work_sz = need * 2; work = realloc(work, work_sz); orig = realloc(orig, work_sz); }
    vf_pat(work, len, pat, 11);
    memset(work + len, 0xEE, need - len);
    memcpy(orig, work, need);
    n_eval++; n_nontriv++;
    if (len == 16 && (bs == 16 || bs == 7) && (cap == padded || cap + 1 == padded)) VF_SAMPLE_CASE(4, "sodium_pad(len=%zu, blocksize=%zu, capacity=%zu): model says %s, padded length %zu", len, bs, cap, want == 0 ? "success" : "refused, buffer untouched", padded);
    r = sodium_pad(use_p ? &got : NULL, work, len, bs, cap);
    snprintf(key, sizeof key, "sodium_pad/len=%zu/bs=%zu/cap=%zu/p=%d", len, bs, cap, use_p);
    if (r != want) { vf_fail(key, "returned %d, model says %d (padded=%zu)", r, want, padded); return; }
    if (r != 0) {
        if (memcmp(work, orig, need) != 0) vf_fail(key, "buffer modified although the call failed");
        if (use_p && got != 0xdeadbeef) vf_fail(key, "the padded-length variable was written (%zu) although the call failed", got);
        return;
    }
    if (use_p && got != padded) vf_fail(key, "reported padded length %zu, want %zu", got, padded);
    if (memcmp(work, orig, len) != 0) vf_fail(key, "data bytes changed");
    if (work[len] != 0x80) vf_fail(key, "marker byte is %02x", work[len]);
    for (i = len + 1; i < padded; i++) if (work[i] != 0) { vf_fail(key, "non-zero pad byte at %zu", i); break; }
    for (i = padded; i < need; i++) if (work[i] != 0xEE) { vf_fail(key, "byte %zu past the padded length written", i); break; }
    /* round trip */
    r = sodium_unpad(&un, work, padded, bs);
    n_eval++; n_nontriv++;
    if (r != 0 || un != len) vf_fail(key, "unpad of padded buffer: ret %d len %zu (want 0, %zu)", r, un, len);
}

static void do_len(long L)
{
    size_t len = (size_t) L, bs, cap, k;
    int    p;
    for (bs = 0; bs <= MAXBS + sizeof big_bs / sizeof big_bs[0]; bs++) {
        size_t b = bs <= MAXBS ? bs : big_bs[bs - MAXBS - 1];
        size_t padded = b ? len + (b - len % b) : len;
        
        if (b <= MAXBS) {
            for (cap = 0; cap <= padded + 1; cap++) pad_case(len, b, cap, (int) (cap & 1), (int) ((len + cap) % PAT_N));
            pad_case(len, b, padded, 0, PAT_F); pad_case(len, b, padded, 1, PAT_Z);
            if (b >= 1) {   /* huge capacities: the result fits, so the call must succeed exactly as with capacity == padded */
                size_t hc[10], nh = 0;
                pad_case(len, b, padded, 0, PAT_C);          /* makes sure `work` is allocated before its address is used below */
                hc[nh++] = (size_t) 1 << 31; hc[nh++] = (size_t) 1 << 32; hc[nh++] = ((size_t) 1 << 32) + 1; hc[nh++] = (size_t) 1 << 63; hc[nh++] = SIZE_MAX / 2;
                hc[nh++] = SIZE_MAX - 4096; hc[nh++] = SIZE_MAX - (size_t) (uintptr_t) work; hc[nh++] = SIZE_MAX - (size_t) (uintptr_t) work + 1; hc[nh++] = SIZE_MAX - 1; hc[nh++] = SIZE_MAX;
                for (k = 0; k < nh; k++) if (b <= 17 || b == MAXBS || k % 3 == (len + b) % 3) pad_case(len, b, hc[k], (int) ((k + len) & 1), (int) ((len + k) % PAT_N));
            }
        } else {
            size_t caps[12] = { 0, 1, len ? len - 1 : 0, len, len + 1, padded - 1, padded, padded + 1, padded / 2,
                                len > 3 ? 3 : 0, padded + 17, len / 2 };
            for (k = 0; k < 12; k++) for (p = 0; p < 2; p++) pad_case(len, b, caps[k], p, (int) ((len + k) % PAT_N));
        }
    }
    if (len < 6 || len % 41 == 0) for (bs = 0; bs < sizeof bigger_bs / sizeof bigger_bs[0]; bs++) {
        size_t b = bigger_bs[bs], padded = len + (b - len % b);
        size_t caps[6] = { padded, padded + 1, padded - 1, len, 0, padded + 4097 };
        for (k = 0; k < 6; k++) pad_case(len, b, caps[k], (int) (k & 1), (int) ((len + k) % PAT_N));
    }
    for (k = 0; k < sizeof huge_bs / sizeof huge_bs[0]; k++) {
        snprintf(vf_ctx, sizeof vf_ctx, "sodium_pad/len=%zu/blocksize=%zu", len, huge_bs[k]);
        pad_case(len, huge_bs[k], len + 300, 1, PAT_C);   /* must be refused: cannot fit */
        pad_case(len, huge_bs[k], 0, 0, PAT_C);
    }
}

/* ---- unpad on crafted final blocks ---- */
static void unpad_case(const char *fam, const unsigned char *blk, size_t bs, size_t prefix, long a, long b)
{
    static unsigned char buf[4096];
    size_t plen = prefix + bs, got = 0, want_len = 0;
    int    r, want;
    char   key[128];
    memset(buf, 0x80, prefix);     /* a tempting marker in the bytes before the final block */
    if (prefix) buf[prefix - 1] = (a & 1) ? 0x80 : 0x00;
    memcpy(buf + prefix, blk, bs);
    n_eval++; n_nontriv++;
    want = ref_unpad(&want_len, buf, plen, bs);
    r = sodium_unpad(&got, buf, plen, bs);
    if (r != want || (r == 0 && got != want_len)) {
        snprintf(key, sizeof key, "sodium_unpad/%s/bs=%zu/prefix=%zu/%ld/%ld", fam, bs, prefix, a, b);
        vf_fail(key, "block=%s ret %d len %zu, model ret %d len %zu", vf_hex(blk, bs), r, got, want, want_len);
    }
}

static const unsigned char alpha4[4] = { 0x00, 0x80, 0x01, 0xff };
static const unsigned char alpha3[3] = { 0x00, 0x80, 0x01 };

static void do_unpad_bs(long B)
{
    size_t        bs = (size_t) B, i, j;
    unsigned char blk[400];
    static const size_t prefixes[4] = { 0, 1, 7, 64 };
    int           f, u, v, pi;
    if (bs == 0) return;
    if (bs <= 6) {                          /* every block over the 4-letter alphabet */
        unsigned long n = 1, c;
        for (i = 0; i < bs; i++) n *= 4;
        for (c = 0; c < n; c++) {
            unsigned long t = c;
            for (i = 0; i < bs; i++) { blk[i] = alpha4[t & 3]; t >>= 2; }
            for (pi = 0; pi < 4; pi++) unpad_case("alpha4", blk, bs, prefixes[pi], (long) c, 0);
        }
    }
    for (f = 0; f < 3; f++) for (i = 0; i < bs; i++) for (j = i; j < bs; j++)
        for (u = 0; u < 3; u++) for (v = 0; v < 3; v++) {
            memset(blk, alpha3[f], bs); blk[i] = alpha3[u]; blk[j] = alpha3[v];
            unpad_case("pair", blk, bs, (i + j) & 1 ? 3 : 0, (long) (i * 1000 + j), f * 9 + u * 3 + v);
        }
    /* shorter than a block, zero block size */
    { size_t g = 0; int r;
      for (i = 0; i < bs; i++) { memset(blk, 0, bs); blk[0] = 0x80; r = sodium_unpad(&g, blk, i, bs); n_eval++; n_nontriv++;
        if (r != -1) { char key[64]; snprintf(key, sizeof key, "sodium_unpad/short/bs=%zu/len=%zu", bs, i); vf_fail(key, "ret %d", r); } }
      r = sodium_unpad(&g, blk, bs, 0); n_eval++;
      if (r != -1) vf_fail("sodium_unpad/bs=0", "ret %d", r); }
}

/* final block directly after / before an inaccessible page: a read outside the block faults (child dies) */
static void do_guarded(long B)
{
    size_t bs = (size_t) B, pg = (size_t) sysconf(_SC_PAGESIZE), got, k, mpos;
    unsigned char *m;
    if (bs == 0) return;
    m = mmap(NULL, 3 * pg, PROT_READ | PROT_WRITE, MAP_PRIVATE | MAP_ANONYMOUS, -1, 0);
    if (m == MAP_FAILED) exit(2);
    mprotect(m, pg, PROT_NONE); mprotect(m + 2 * pg, pg, PROT_NONE);
    for (mpos = 0; mpos <= bs; mpos++) {          /* marker at every position, and no marker at all (mpos == bs) */
        /* block at the very start of the accessible page; the (claimed) earlier part of the buffer is inaccessible */
        for (k = 0; k < 3; k++) {
            size_t prefix = k == 0 ? 0 : k == 1 ? 1 : pg - 1;
            int r, want = mpos < bs ? 0 : -1;
            memset(m + pg, 0, bs); if (mpos < bs) m[pg + mpos] = 0x80;
            n_eval++; n_nontriv++;
            r = sodium_unpad(&got, m + pg - prefix, prefix + bs, bs);
            if (r != want || (r == 0 && got != prefix + mpos)) {
                char key[96]; snprintf(key, sizeof key, "sodium_unpad/guard-before/bs=%zu/marker=%zu/prefix=%zu", bs, mpos, prefix);
                vf_fail(key, "ret %d len %zu", r, got);
            }
        }
        /* block ending exactly at the end of the accessible page */
        { int r, want = mpos < bs ? 0 : -1; unsigned char *blk = m + 2 * pg - bs;
          memset(blk, 0, bs); if (mpos < bs) blk[mpos] = 0x80;
          n_eval++; n_nontriv++;
          r = sodium_unpad(&got, blk, bs, bs);
          if (r != want || (r == 0 && got != mpos)) {
              char key[96]; snprintf(key, sizeof key, "sodium_unpad/guard-after/bs=%zu/marker=%zu", bs, mpos);
              vf_fail(key, "ret %d len %zu", r, got); } }
    }
    /* pad writing right up to an inaccessible page: capacity == padded, buffer ends at the guard */
    for (k = 0; k < 2 * bs && k <= 300; k++) {
        size_t len = k, padded = len + (bs - len % bs), out = 0; unsigned char *buf = m + 2 * pg - padded; int r;
        if (padded > pg) continue;
        memset(buf, 0x5A, padded);
        n_eval++; n_nontriv++;
        r = sodium_pad(&out, buf, len, bs, padded);
        if (r != 0 || out != padded || buf[len] != 0x80) {
            char key[96]; snprintf(key, sizeof key, "sodium_pad/guard-after/bs=%zu/len=%zu", bs, len);
            vf_fail(key, "ret %d out %zu", r, out); }
    }
    munmap(m, 3 * pg);
}

static void fin(void) { vf_stat("evaluations", n_eval); vf_stat("nontrivial", n_nontriv); n_eval = n_nontriv = 0; }

int main(void)
{
    vf_init_seed();
    thorough = vf_tier_thorough();
    if (thorough) { MAXLEN = 700; MAXBS = 260; }
    if (sodium_init() < 0) return 2;
    strcpy(vf_ctx, "c16");
    vf_parallel(16, 0, (long) MAXLEN + 1, do_len, fin);
    vf_parallel(16, 0, (long) MAXBS + 1, do_unpad_bs, fin);
    vf_parallel(16, 0, (long) MAXBS + 1, do_guarded, fin);
    vf_sample("sodium_pad(len=16, blocksize=16, capacity=32) -> whole extra block 80 00*15, padded length 32");
    vf_sample("sodium_pad(len=10, blocksize=16, capacity=3) -> -1, buffer untouched (capacity below the data length)");
    vf_sample("sodium_unpad final block 00 80 00 01 (bs=4): rejected, first non-zero byte from the end is 01");
    vf_sample("sodium_unpad with the final block placed directly after a PROT_NONE page, marker at every position");
    return 0;
}
