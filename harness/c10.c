/* C10 differential corpus: every deterministic public function at block-boundary lengths. One process = one (build variant, CPU
 * configuration); prints one digest per family (and, with VERIF_C10_DUMP=<family>, one line per case) for comparison with the reference
 * configuration. Digests are FNV-based and computed by the harness, never by the library under test. */
#include "common.h"
#include "sym_table.h"

static const char *dump_family;
typedef struct { const char *name; uint64_t h1, h2; unsigned long cases; } fam;
static fam FAMS[64]; static int nfam; static fam *cur;
static unsigned long long n_cases;
static void family(const char *name) { cur = &FAMS[nfam++]; cur->name = name; cur->h1 = 0xcbf29ce484222325ULL; cur->h2 = 0x9ae16a3b2f90404fULL; cur->cases = 0; }
static void absorb(const void *p, size_t n) { const unsigned char *b = p; size_t i; for (i = 0; i < n; i++) { cur->h1 = (cur->h1 ^ b[i]) * 0x100000001b3ULL; cur->h2 = (cur->h2 + b[i] + 1) * 0xff51afd7ed558ccdULL; cur->h2 ^= cur->h2 >> 29; } }
/* one case: id string, return code, defined output bytes */
static void rec(const char *id, long a, long b, int ret, const void *out, size_t outlen)
{
    uint64_t before1 = cur->h1;
    absorb(id, strlen(id)); absorb(&a, sizeof a); absorb(&b, sizeof b); absorb(&ret, sizeof ret); if (out && outlen) absorb(out, outlen);
    cur->cases++; n_cases++;
    if (dump_family && !strcmp(dump_family, cur->name)) printf("CASE %s %s/%ld/%ld ret=%d %016llx\n", cur->name, id, a, b, ret, (unsigned long long) (cur->h1 ^ before1));
}

static const size_t LENS[] = { 0, 1, 15, 16, 17, 31, 32, 33, 63, 64, 65, 127, 128, 129, 191, 192, 193, 223, 224, 225, 255, 256, 257, 319, 320, 321, 383, 447, 448, 449, 511, 512, 513, 575, 576, 577, 1023, 1024, 1025, 1087, 2047, 2048, 2049, 4097 };
#define NLENS (sizeof LENS / sizeof LENS[0])
static unsigned char M[4200], O[4400], O2[4400], K[64], N24[32], AD[300];

/* deterministic random source (secretstream header etc.) */
static const char *rn(void) { return "verif-det"; }
static void rb(void *const b, const size_t n) { size_t i; for (i = 0; i < n; i++) ((unsigned char *) b)[i] = (unsigned char) (0x33 + 5 * i); }
static uint32_t rr(void) { return 0x12345678; }
static struct randombytes_implementation RI = { rn, rr, NULL, NULL, rb, NULL };

static void corpus_stream(void)
{
    size_t i; int r;
    family("stream");
    for (i = 0; i < NLENS; i++) { size_t l = LENS[i];
#define S3(name, nlen) r = crypto_stream_##name(O, l, N24, K); rec(#name, (long) l, 0, r, O, l); r = crypto_stream_##name##_xor(O, M, l, N24, K); rec(#name "_xor", (long) l, 0, r, O, l);
        S3(chacha20, 8) S3(chacha20_ietf, 12) S3(xchacha20, 24) S3(salsa20, 8) S3(salsa2012, 8) S3(salsa208, 8) S3(xsalsa20, 24)
        r = crypto_stream(O, l, N24, K); rec("crypto_stream", (long) l, 0, r, O, l); r = crypto_stream_xor(O, M, l, N24, K); rec("crypto_stream_xor", (long) l, 0, r, O, l);
        r = crypto_stream_chacha20_xor_ic(O, M, l, N24, 0xfffffffeULL, K); rec("chacha20_xor_ic", (long) l, 1, r, O, l);
        r = crypto_stream_chacha20_ietf_xor_ic(O, M, l, N24, 7U, K); rec("chacha20_ietf_xor_ic", (long) l, 1, r, O, l);
        r = crypto_stream_xchacha20_xor_ic(O, M, l, N24, 0xfffffffeULL, K); rec("xchacha20_xor_ic", (long) l, 1, r, O, l);
        r = crypto_stream_salsa20_xor_ic(O, M, l, N24, 0xfffffffeULL, K); rec("salsa20_xor_ic", (long) l, 1, r, O, l);
        r = crypto_stream_xsalsa20_xor_ic(O, M, l, N24, 0xfffffffeULL, K); rec("xsalsa20_xor_ic", (long) l, 1, r, O, l);
        { static const uint64_t ICS[4] = { 0x100000000ULL, 0x0123456789abcdefULL, 0x8000000000000000ULL, 0xffffffff00000001ULL }; int q;      /* initial counters with a non-zero high word */
          for (q = 0; q < 4; q++) { r = crypto_stream_chacha20_xor_ic(O, M, l, N24, ICS[q], K); rec("chacha20_xor_ic64", (long) l, q, r, O, l); r = crypto_stream_xchacha20_xor_ic(O, M, l, N24, ICS[q], K); rec("xchacha20_xor_ic64", (long) l, q, r, O, l);
                                    r = crypto_stream_salsa20_xor_ic(O, M, l, N24, ICS[q], K); rec("salsa20_xor_ic64", (long) l, q, r, O, l); r = crypto_stream_xsalsa20_xor_ic(O, M, l, N24, ICS[q], K); rec("xsalsa20_xor_ic64", (long) l, q, r, O, l); } }
        r = crypto_stream_chacha20_xor(O + 1, M + 3, l, N24, K); rec("chacha20_xor_unaligned", (long) l, 0, r, O + 1, l);
        r = crypto_stream_salsa20_xor(O + 1, M + 3, l, N24, K); rec("salsa20_xor_unaligned", (long) l, 0, r, O + 1, l);
    }
    family("core");
    r = crypto_core_hchacha20(O, N24, K, NULL); rec("hchacha20", 0, 0, r, O, 32); r = crypto_core_hchacha20(O, N24, K, M); rec("hchacha20", 1, 0, r, O, 32);
    r = crypto_core_hsalsa20(O, N24, K, NULL); rec("hsalsa20", 0, 0, r, O, 32); r = crypto_core_hsalsa20(O, N24, K, M); rec("hsalsa20", 1, 0, r, O, 32);
    r = crypto_core_salsa20(O, N24, K, NULL); rec("salsa20", 0, 0, r, O, 64); r = crypto_core_salsa2012(O, N24, K, NULL); rec("salsa2012", 0, 0, r, O, 64); r = crypto_core_salsa208(O, N24, K, M); rec("salsa208", 1, 0, r, O, 64);
}
static void corpus_hash(void)
{
    size_t i, j; int r;
    family("hash-mac");
    for (i = 0; i < NLENS; i++) { size_t l = LENS[i];
        r = crypto_hash_sha256(O, M, l); rec("sha256", (long) l, 0, r, O, 32); r = crypto_hash_sha512(O, M, l); rec("sha512", (long) l, 0, r, O, 64);
        r = crypto_auth_hmacsha256(O, M, l, K); rec("hmacsha256", (long) l, 0, r, O, 32); r = crypto_auth_hmacsha512(O, M, l, K); rec("hmacsha512", (long) l, 0, r, O, 64);
        r = crypto_auth_hmacsha512256(O, M, l, K); rec("hmacsha512256", (long) l, 0, r, O, 32); r = crypto_auth_verify(O, M, l, K); rec("auth_verify", (long) l, 0, r, NULL, 0);
        r = crypto_generichash(O, 32, M, l, NULL, 0); rec("generichash32", (long) l, 0, r, O, 32); r = crypto_generichash(O, 64, M, l, K, 64); rec("generichash64k", (long) l, 0, r, O, 64);
        r = crypto_generichash(O, 17, M, l, K, 17); rec("generichash17k17", (long) l, 0, r, O, 17);
        r = crypto_generichash_blake2b_salt_personal(O, 48, M, l, K, 32, N24, AD); rec("generichash_sp", (long) l, 0, r, O, 48);
        r = crypto_shorthash(O, M, l, K); rec("shorthash", (long) l, 0, r, O, 8); r = crypto_shorthash_siphashx24(O, M, l, K); rec("siphashx24", (long) l, 0, r, O, 16);
        r = crypto_onetimeauth(O, M, l, K); rec("onetimeauth", (long) l, 0, r, O, 16); r = crypto_onetimeauth_verify(O, M, l, K); rec("onetimeauth_verify", (long) l, 0, r, NULL, 0);
        r = crypto_onetimeauth(O, M + 5, l, K); rec("onetimeauth_unaligned", (long) l, 0, r, O, 16);
        { crypto_onetimeauth_state st; crypto_generichash_state gs; crypto_hash_sha512_state hs; size_t cut = l / 3;
          crypto_onetimeauth_init(&st, K); crypto_onetimeauth_update(&st, M, cut); crypto_onetimeauth_update(&st, M + cut, l - cut); crypto_onetimeauth_final(&st, O); rec("onetimeauth_multi", (long) l, 0, 0, O, 16);
          crypto_generichash_init(&gs, K, 32, 40); crypto_generichash_update(&gs, M, cut); crypto_generichash_update(&gs, M + cut, l - cut); crypto_generichash_final(&gs, O, 40); rec("generichash_multi", (long) l, 0, 0, O, 40);
          crypto_hash_sha512_init(&hs); crypto_hash_sha512_update(&hs, M, cut); crypto_hash_sha512_update(&hs, M + cut, l - cut); crypto_hash_sha512_final(&hs, O); rec("sha512_multi", (long) l, 0, 0, O, 64); }
    }
    family("kdf");
    for (i = 16; i <= 64; i += 8) for (j = 0; j < 3; j++) { r = crypto_kdf_derive_from_key(O, i, (uint64_t) (j * 0x100000001ULL), "ctx-1234", K); rec("kdf_derive", (long) i, (long) j, r, O, i); }
    r = crypto_kdf_derive_from_key(O, 15, 1, "ctx-1234", K); rec("kdf_derive", 15, 0, r, NULL, 0);
    for (i = 0; i < 6; i++) { static const size_t ol[6] = { 0, 1, 32, 33, 255 * 32, 255 * 32 + 1 }; r = crypto_kdf_hkdf_sha256_expand(O2, ol[i] > 4400 ? 4400 : ol[i], "info", 4, K); rec("hkdf256_expand", (long) ol[i], 0, r, O2, ol[i] > 4400 ? 4400 : ol[i]); }
    r = crypto_kdf_hkdf_sha256_extract(O, N24, 24, M, 100); rec("hkdf256_extract", 0, 0, r, O, 32); r = crypto_kdf_hkdf_sha512_extract(O, NULL, 0, M, 100); rec("hkdf512_extract", 0, 0, r, O, 64);
    r = crypto_kdf_hkdf_sha512_expand(O2, 200, "info", 4, K); rec("hkdf512_expand", 200, 0, r, O2, 200);
}
static void corpus_aead(void)
{
    static const size_t AL[] = { 0, 1, 16, 17, 223, 224, 225 }; size_t i, a; int ci, x; unsigned char kb[32], tag[32]; keyctx kc; ull ol;
    family("aead-box");
    for (ci = 0; ci < NCONS; ci++) { const cons *C = &CONS[ci];
        if (ci == 3) continue;                      /* AES-256-GCM: hardware-only API, compared separately where available */
        cons_keys(C, &kc, kb, PAT_R1, ci);
        for (i = 0; i < NLENS; i++) for (a = 0; a < (C->has_ad ? 7 : 1); a++) { size_t l = LENS[i], al = C->has_ad ? AL[a] : 0; int r;
            if (a > 1 && i % 5 != 0) continue;
            r = C->enc(O, &ol, M, l, AD, al, N24, &kc); rec(C->name, (long) l, (long) al, r, O, l + C->tlen);
            r = C->dec(O2, &ol, O, l + C->tlen, AD, al, N24, &kc); rec(C->name, (long) l, (long) al + 1000, r, O2, l);
            O[l / 2] ^= 1; r = C->dec(O2, &ol, O, l + C->tlen, AD, al, N24, &kc); rec(C->name, (long) l, (long) al + 2000, r, NULL, 0);
            if (i % 7 == 0) for (x = 0; x < C->nx; x++) { r = C->x[x].enc(O, tag, M, l, AD, al, N24, &kc); rec(C->x[x].name, (long) l, (long) al, r, O, l); absorb(tag, C->tlen); }
        }
    }
    family("aes256gcm");
    if (crypto_aead_aes256gcm_is_available()) { const cons *C = &CONS[3]; cons_keys(C, &kc, kb, PAT_R1, 3);
        for (i = 0; i < NLENS; i++) for (a = 0; a < 7; a++) { size_t l = LENS[i]; int r; if (a > 1 && i % 5 != 0) continue;
            r = C->enc(O, &ol, M, l, AD, AL[a], N24, &kc); rec(C->name, (long) l, (long) AL[a], r, O, l + 16);
            r = C->dec(O2, &ol, O, l + 16, AD, AL[a], N24, &kc); rec(C->name, (long) l, (long) AL[a] + 1000, r, O2, l); } }
}
static void corpus_curve(void)
{
    int i, r; unsigned char pk[32], sk[64], pk2[32], sk2[32], q[64], sig[64], sm[200]; ull l;
    family("curve25519");
    for (i = 0; i < BOX_TABLE_N; i++) { r = crypto_scalarmult(q, BOX_TABLE[i].ska, BOX_TABLE[i].pkb); rec("scalarmult", i, 0, r, q, 32); r = crypto_scalarmult_base(q, BOX_TABLE[i].skb); rec("scalarmult_base", i, 0, r, q, 32);
        r = crypto_box_beforenm(q, BOX_TABLE[i].pkb, BOX_TABLE[i].ska); rec("box_beforenm", i, 0, r, q, 32);
        r = crypto_kx_client_session_keys(q, q + 32, BOX_TABLE[i].pka, BOX_TABLE[i].ska, BOX_TABLE[i].pkb); rec("kx_client", i, 0, r, q, 64);
        r = crypto_kx_server_session_keys(q, q + 32, BOX_TABLE[i].pkb, BOX_TABLE[i].skb, BOX_TABLE[i].pka); rec("kx_server", i, 0, r, q, 64); }
    { static const unsigned char lo[32] = { 0 }; unsigned char e[32]; memset(e, 0, 32); e[0] = 1; r = crypto_scalarmult(q, K, lo); rec("scalarmult-loworder", 0, 0, r, NULL, 0); r = crypto_scalarmult(q, K, e); rec("scalarmult-loworder", 1, 0, r, NULL, 0);
      memset(e, 0xff, 32); r = crypto_scalarmult(q, K, e); rec("scalarmult-noncanonical", 0, 0, r, q, r == 0 ? 32 : 0); }
    /* structured u-coordinates: every one-hot value 2^k, every value with a single non-zero byte (each byte position x {01, 80, ff}), the seven
     * block-listed low-order encodings with each top byte 00..ff changed in turn (only the exact encodings may be refused), p +- small, 2^255 - small */
    { static const unsigned char LOW[7][32] = {
        { 0 }, { 1 },
        { 0xe0,0xeb,0x7a,0x7c,0x3b,0x41,0xb8,0xae,0x16,0x56,0xe3,0xfa,0xf1,0x9f,0xc4,0x6a,0xda,0x09,0x8d,0xeb,0x9c,0x32,0xb1,0xfd,0x86,0x62,0x05,0x16,0x5f,0x49,0xb8,0x00 },
        { 0x5f,0x9c,0x95,0xbc,0xa3,0x50,0x8c,0x24,0xb1,0xd0,0xb1,0x55,0x9c,0x83,0xef,0x5b,0x04,0x44,0x5c,0xc4,0x58,0x1c,0x8e,0x86,0xd8,0x22,0x4e,0xdd,0xd0,0x9f,0x11,0x57 },
        { 0xec,0xff,0xff,0xff,0xff,0xff,0xff,0xff,0xff,0xff,0xff,0xff,0xff,0xff,0xff,0xff,0xff,0xff,0xff,0xff,0xff,0xff,0xff,0xff,0xff,0xff,0xff,0xff,0xff,0xff,0xff,0x7f },
        { 0xed,0xff,0xff,0xff,0xff,0xff,0xff,0xff,0xff,0xff,0xff,0xff,0xff,0xff,0xff,0xff,0xff,0xff,0xff,0xff,0xff,0xff,0xff,0xff,0xff,0xff,0xff,0xff,0xff,0xff,0xff,0x7f },
        { 0xee,0xff,0xff,0xff,0xff,0xff,0xff,0xff,0xff,0xff,0xff,0xff,0xff,0xff,0xff,0xff,0xff,0xff,0xff,0xff,0xff,0xff,0xff,0xff,0xff,0xff,0xff,0xff,0xff,0xff,0xff,0x7f } };
      unsigned char u[32]; int k, b, v;
      for (k = 0; k < 256; k++) { memset(u, 0, 32); u[k >> 3] = (unsigned char) (1u << (k & 7)); r = crypto_scalarmult(q, K, u); rec("scalarmult-onehot", k, 0, r, q, r == 0 ? 32 : 0); }
      for (b = 0; b < 32; b++) for (v = 0; v < 3; v++) { memset(u, 0, 32); u[b] = (unsigned char) (v == 0 ? 0x01 : v == 1 ? 0x80 : 0xff); r = crypto_scalarmult(q, K, u); rec("scalarmult-onebyte", b, v, r, q, r == 0 ? 32 : 0); }
      for (k = 0; k < 7; k++) for (b = 0; b < 32; b += (b < 2 || b > 29) ? 1 : 7) for (v = 0; v < 256; v += (b == 31 || b == 0) ? 1 : 51) { memcpy(u, LOW[k], 32); u[b] = (unsigned char) v; r = crypto_scalarmult(q, K, u); rec("scalarmult-near-loworder", k * 32 + b, v, r, q, r == 0 ? 32 : 0);
          if (b == 31 && (v & 15) == 0) { r = crypto_box_beforenm(q, u, K); rec("box_beforenm-near-loworder", k * 32 + b, v, r, q, r == 0 ? 32 : 0); } } }
    r = crypto_box_seed_keypair(pk, sk, K); rec("box_seed_keypair", 0, 0, r, pk, 32); absorb(sk, 32); r = crypto_kx_seed_keypair(pk, sk, K); rec("kx_seed_keypair", 0, 0, r, pk, 32); absorb(sk, 32);
    family("ed25519");
    for (i = 0; i < 6; i++) { vf_pat(q, 32, i, 901); r = crypto_sign_seed_keypair(pk, sk, q); rec("sign_seed_keypair", i, 0, r, pk, 32);
        r = crypto_sign_detached(sig, &l, M, (size_t) (i * 37), sk); rec("sign_detached", i, 0, r, sig, 64); r = crypto_sign_verify_detached(sig, M, (size_t) (i * 37), pk); rec("sign_verify", i, 0, r, NULL, 0);
        sig[3] ^= 4; r = crypto_sign_verify_detached(sig, M, (size_t) (i * 37), pk); rec("sign_verify_bad", i, 0, r, NULL, 0);
        r = crypto_sign(sm, &l, M, 100, sk); rec("sign", i, 0, r, sm, 164); r = crypto_sign_open(O, &l, sm, 164, pk); rec("sign_open", i, 0, r, O, 100);
        { crypto_sign_state st; crypto_sign_init(&st); crypto_sign_update(&st, M, 300); r = crypto_sign_final_create(&st, sig, NULL, sk); rec("sign_ph", i, 0, r, sig, 64); crypto_sign_init(&st); crypto_sign_update(&st, M, 300); r = crypto_sign_final_verify(&st, sig, pk); rec("sign_ph_verify", i, 0, r, NULL, 0); }
        r = crypto_sign_ed25519_pk_to_curve25519(pk2, pk); rec("pk_to_curve25519", i, 0, r, pk2, 32); r = crypto_sign_ed25519_sk_to_curve25519(sk2, sk); rec("sk_to_curve25519", i, 0, r, sk2, 32);
        r = crypto_core_ed25519_is_valid_point(pk); rec("ed_is_valid", i, 0, r, NULL, 0); r = crypto_core_ed25519_add(q, pk, pk2); rec("ed_add", i, 0, r, q, r == 0 ? 32 : 0); r = crypto_core_ed25519_sub(q, pk, pk); rec("ed_sub", i, 0, r, q, r == 0 ? 32 : 0);
        r = crypto_scalarmult_ed25519(q, sk, pk); rec("ed_scalarmult", i, 0, r, q, r == 0 ? 32 : 0); r = crypto_scalarmult_ed25519_noclamp(q, sk, pk); rec("ed_scalarmult_noclamp", i, 0, r, q, r == 0 ? 32 : 0);
        r = crypto_scalarmult_ed25519_base(q, sk); rec("ed_base", i, 0, r, q, r == 0 ? 32 : 0); r = crypto_scalarmult_ed25519_base_noclamp(q, sk); rec("ed_base_noclamp", i, 0, r, q, r == 0 ? 32 : 0);
        r = crypto_core_ed25519_from_uniform(q, sk); rec("ed_from_uniform", i, 0, r, q, 32); r = crypto_core_ed25519_from_string(q, "ctx", M, (size_t) i * 50, crypto_core_ed25519_H2CSHA512); rec("ed_from_string", i, 0, r, q, 32);
        r = crypto_core_ed25519_from_string_ro(q, "ctx", M, (size_t) i * 50, crypto_core_ed25519_H2CSHA256); rec("ed_from_string_ro", i, 0, r, q, 32);
        r = crypto_core_ristretto255_from_hash(q, sk); rec("ris_from_hash", i, 0, r, q, 32); memcpy(pk2, q, 32); r = crypto_core_ristretto255_is_valid_point(pk2); rec("ris_is_valid", i, 0, r, NULL, 0);
        r = crypto_scalarmult_ristretto255(q, sk, pk2); rec("ris_scalarmult", i, 0, r, q, r == 0 ? 32 : 0); r = crypto_scalarmult_ristretto255_base(q, sk); rec("ris_base", i, 0, r, q, r == 0 ? 32 : 0);
        r = crypto_core_ristretto255_add(q, pk2, pk2); rec("ris_add", i, 0, r, q, r == 0 ? 32 : 0); r = crypto_core_ristretto255_sub(q, pk2, q); rec("ris_sub", i, 0, r, q, r == 0 ? 32 : 0);
        crypto_core_ed25519_scalar_reduce(q, M + i); rec("sc_reduce", i, 0, 0, q, 32); memcpy(sk2, q, 32); crypto_core_ed25519_scalar_mul(q, sk2, sk2); rec("sc_mul", i, 0, 0, q, 32);
        crypto_core_ed25519_scalar_add(q, sk2, q); rec("sc_add", i, 0, 0, q, 32); crypto_core_ed25519_scalar_sub(q, sk2, q); rec("sc_sub", i, 0, 0, q, 32); crypto_core_ed25519_scalar_negate(q, sk2); rec("sc_neg", i, 0, 0, q, 32);
        crypto_core_ed25519_scalar_complement(q, sk2); rec("sc_compl", i, 0, 0, q, 32); r = crypto_core_ed25519_scalar_invert(q, sk2); rec("sc_inv", i, 0, r, q, 32); r = crypto_core_ed25519_scalar_is_canonical(M + i); rec("sc_canon", i, 0, r, NULL, 0);
    }
}
static void corpus_pwhash(void)
{
    static const size_t MS[] = { 8, 9, 13, 16, 37, 64, 100, 255, 1024 }; unsigned i; int r; char str[128];
    family("pwhash");
    for (i = 0; i < 9; i++) { r = crypto_pwhash(O, 32 + i, "password", 8, N24, 1 + i % 3, 1024 * MS[i], crypto_pwhash_ALG_ARGON2ID13); rec("argon2id", (long) MS[i], 0, r, O, 32 + i);
        r = crypto_pwhash(O, 64, "password", 8, N24, 3 + i % 2, 1024 * MS[i], crypto_pwhash_ALG_ARGON2I13); rec("argon2i", (long) MS[i], 0, r, O, 64); }
    r = crypto_pwhash(O, 32, "password", 8, N24, 1, 8191, crypto_pwhash_ALG_ARGON2ID13); rec("argon2id-refused", 0, 0, r, NULL, 0);
    r = crypto_pwhash_str_verify("$argon2id$v=19$m=64,t=2,p=1$AQIDBAUGBwgJCgsMDQ4PEA$JUFFkZKUmC3vYXl1eS0Rz9N7gd1dmVTi6zqKiLHVjcA", "password", 8); rec("str_verify", 0, 0, r, NULL, 0);
    r = crypto_pwhash_str_needs_rehash("$argon2id$v=19$m=64,t=2,p=1$AQIDBAUGBwgJCgsMDQ4PEA$JUFFkZKUmC3vYXl1eS0Rz9N7gd1dmVTi6zqKiLHVjcA", 2, 65536); rec("needs_rehash", 0, 0, r, NULL, 0);
    for (i = 1; i <= 10; i += 3) { r = crypto_pwhash_scryptsalsa208sha256_ll((const uint8_t *) "pw", 2, N24, 24, (uint64_t) 1 << i, 1 + i % 8, 1 + i % 2, O, 40); rec("scrypt_ll", (long) i, 0, r, O, 40); }
    r = crypto_pwhash_scryptsalsa208sha256(O, 32, "password", 8, N24, 32768, 16777216); rec("scrypt", 0, 0, r, O, 32);
    r = crypto_pwhash_scryptsalsa208sha256_str(str, "password", 8, 32768, 16777216); rec("scrypt_str", 0, 0, r, str, strlen(str));     /* salt from the deterministic source */
    r = crypto_pwhash_scryptsalsa208sha256_str_verify(str, "password", 8); rec("scrypt_str_verify", 0, 0, r, NULL, 0);
    r = crypto_pwhash_str(str, "password", 8, 1, 8192); rec("argon2_str", 0, 0, r, str, strlen(str)); r = crypto_pwhash_str_verify(str, "password", 8); rec("argon2_str_verify", 0, 0, r, NULL, 0);
}
static void corpus_misc(void)
{
    size_t i, l; int r; crypto_secretstream_xchacha20poly1305_state s, p; unsigned char hdr[24], tg; ull ol; char txt[700]; size_t bl; const char *end;
    family("secretstream");
    crypto_secretstream_xchacha20poly1305_init_push(&s, hdr, K); crypto_secretstream_xchacha20poly1305_init_pull(&p, hdr, K); rec("init", 0, 0, 0, hdr, 24);
    for (i = 0; i < NLENS; i += 3) { l = LENS[i]; r = crypto_secretstream_xchacha20poly1305_push(&s, O, &ol, M, l, AD, l % 40, (unsigned char) (i % 4)); rec("push", (long) l, 0, r, O, l + 17);
        r = crypto_secretstream_xchacha20poly1305_pull(&p, O2, &ol, &tg, O, l + 17, AD, l % 40); rec("pull", (long) l, tg, r, O2, l); }
    crypto_secretstream_xchacha20poly1305_rekey(&s); rec("rekey", 0, 0, 0, &s, sizeof s);
    family("utils-codecs");
    for (i = 0; i <= 70; i++) { memcpy(O, M + i, i); memcpy(O2, M + i, i); if (i) O2[i / 2] ^= (unsigned char) (i & 1);
        rec("memcmp", (long) i, 0, sodium_memcmp(O, O2, i), NULL, 0); rec("compare", (long) i, 0, sodium_compare(O, O2, i), NULL, 0); rec("is_zero", (long) i, 0, sodium_is_zero(O, i), NULL, 0);
        sodium_increment(O, i); rec("increment", (long) i, 0, 0, O, i); sodium_add(O, O2, i); rec("add", (long) i, 0, 0, O, i); sodium_sub(O, M, i); rec("sub", (long) i, 0, 0, O, i);
        sodium_bin2hex(txt, sizeof txt, M, i); rec("bin2hex", (long) i, 0, 0, txt, 2 * i); r = sodium_hex2bin(O, 100, txt, 2 * i, ": ", &bl, &end); rec("hex2bin", (long) i, (long) bl, r, O, bl);
        sodium_bin2base64(txt, sizeof txt, M, i, sodium_base64_VARIANT_URLSAFE_NO_PADDING); rec("bin2base64", (long) i, 0, 0, txt, strlen(txt)); r = sodium_base642bin(O, 100, txt, strlen(txt), NULL, &bl, NULL, sodium_base64_VARIANT_URLSAFE_NO_PADDING); rec("base642bin", (long) i, (long) bl, r, O, bl);
        memcpy(O, M, i); r = sodium_pad(&bl, O, i, 16, 200); rec("pad", (long) i, (long) bl, r, O, r == 0 ? bl : 0); if (r == 0) { size_t ul; r = sodium_unpad(&ul, O, bl, 16); rec("unpad", (long) i, (long) ul, r, NULL, 0); }
    }
    /* carry / borrow chains through whole words (the amd64 assembly paths of add/sub at 64 bytes against the portable loops): operands over
     * the word alphabet {00.., ff.., 01 00.., ff.. 7f, message bytes with word w all ones} */
    { static const size_t UL[] = { 7, 8, 9, 16, 17, 24, 32, 33, 63, 64, 65, 70 }; size_t li, pa, pb; unsigned char A[72], B[72];
      for (li = 0; li < sizeof UL / sizeof UL[0]; li++) { l = UL[li];
        for (pa = 0; pa < 4 + (l + 7) / 8; pa++) for (pb = 0; pb < 4 + (l + 7) / 8; pb++) { size_t q; unsigned char *X;
            for (q = 0; q < 2; q++) { size_t pat = q ? pb : pa; X = q ? B : A;
                if (pat == 0) memset(X, 0, l); else if (pat == 1) memset(X, 0xff, l); else if (pat == 2) { memset(X, 0, l); X[0] = 1; } else if (pat == 3) { memset(X, 0xff, l); X[l - 1] = 0x7f; }
                else { size_t w = pat - 4, n = l - 8 * w < 8 ? l - 8 * w : 8; memcpy(X, M + 3 * pat, l); memset(X + 8 * w, 0xff, n); } }
            rec("compare-w", (long) (l * 100 + pa), (long) pb, sodium_compare(A, B, l), NULL, 0); rec("memcmp-w", (long) (l * 100 + pa), (long) pb, sodium_memcmp(A, B, l), NULL, 0);
            memcpy(O, A, l); sodium_add(O, B, l); rec("add-w", (long) (l * 100 + pa), (long) pb, 0, O, l);
            memcpy(O, A, l); sodium_sub(O, B, l); rec("sub-w", (long) (l * 100 + pa), (long) pb, 0, O, l);
            if (pb == 0) { memcpy(O, A, l); sodium_increment(O, l); rec("increment-w", (long) (l * 100 + pa), 0, sodium_is_zero(O, l), O, l); } } } }
    rec("verify16", 0, 0, crypto_verify_16(M, M), NULL, 0); rec("verify16", 1, 0, crypto_verify_16(M, M + 1), NULL, 0); rec("verify32", 0, 0, crypto_verify_32(M, M), NULL, 0); rec("verify32", 1, 0, crypto_verify_32(M, M + 1), NULL, 0);
    rec("verify64", 0, 0, crypto_verify_64(M, M), NULL, 0); rec("verify64", 1, 0, crypto_verify_64(M, M + 64), NULL, 0);
    randombytes_buf_deterministic(O, 1000, K); rec("randombytes_buf_deterministic", 1000, 0, 0, O, 1000);
}

/* Poly1305 on accumulator / key boundaries: the backward-built cases of ref/gen_poly_cases.py (when available) and homogeneous runs with tiny r */
static void corpus_poly(void)
{
    const char *path = getenv("VERIF_POLY_CASES"); FILE *f; unsigned char key[32], blk[16], *msg = O2; int r, ri, nb, pl; size_t i;
    family("poly1305-boundaries");
    for (ri = 1; ri <= 5; ri++) for (blk[0] = 0; blk[0] < 3; blk[0]++) for (nb = 0; nb <= 40; nb++) for (pl = 0; pl < 16; pl += 5) {
        unsigned char fill = blk[0] == 0 ? 0xff : blk[0] == 1 ? 0xfb : 0x00;
        memset(key, 0, 32); key[0] = (unsigned char) ri; key[16] = (unsigned char) (nb & 1 ? 0xff : 5);
        memset(msg, 0xff, (size_t) (16 * nb + pl)); for (i = 0; i < (size_t) nb; i++) msg[16 * i] = fill;
        r = crypto_onetimeauth(O, msg, (size_t) (16 * nb + pl), key); rec("onetimeauth-run", (long) (ri * 100 + blk[0]), (long) (nb * 16 + pl), r, O, 16);
    }
    if (path && (f = fopen(path, "rb"))) {
        uint32_t n, k; unsigned char hdr[34], tail[40]; static unsigned char m[70000];
        if (fread(&n, 4, 1, f) != 1) exit(2);
        for (k = 0; k < n; k++) { size_t len; if (fread(hdr, 1, 34, f) != 34) exit(2); len = (size_t) (hdr[32] | hdr[33] << 8); if (fread(m, 1, len, f) != len || fread(tail, 1, 40, f) != 40) exit(2);
            r = crypto_onetimeauth(O, m, len, hdr); rec("onetimeauth-built-backwards", (long) k, (long) len, r, O, 16);
            if (memcmp(O, tail, 16)) rec("onetimeauth-built-backwards-differs-from-definition", (long) k, (long) len, r, O, 16); }
        fclose(f);
    } else printf("INFO poly cases file not available\n");
}

int main(void)
{
    int i, gcm, want_gcm;
    vf_init_seed(); dump_family = getenv("VERIF_C10_DUMP");
    randombytes_set_implementation(&RI);
    if (sodium_init() < 0) return 2;
    vf_pat(M, sizeof M, PAT_R1, 900); vf_pat(K, 64, PAT_R2, 901); vf_pat(N24, 32, PAT_C, 902); vf_pat(AD, sizeof AD, PAT_H, 903);
    corpus_stream(); corpus_hash(); corpus_aead(); corpus_curve(); corpus_pwhash(); corpus_misc(); corpus_poly();
    for (i = 0; i < nfam; i++) printf("INFO DIGEST %s %016llx%016llx %lu\n", FAMS[i].name, (unsigned long long) FAMS[i].h1, (unsigned long long) FAMS[i].h2, FAMS[i].cases);
    /* AES-256-GCM availability must equal pclmul AND aesni AND avx of the (masked) flags; unavailable builds fail cleanly */
    gcm = crypto_aead_aes256gcm_is_available(); want_gcm = sodium_runtime_has_pclmul() && sodium_runtime_has_aesni() && sodium_runtime_has_avx();
    printf("INFO flags sse2=%d sse3=%d ssse3=%d sse41=%d avx=%d avx2=%d avx512f=%d pclmul=%d aesni=%d rdrand=%d gcm=%d\n", sodium_runtime_has_sse2(), sodium_runtime_has_sse3(), sodium_runtime_has_ssse3(), sodium_runtime_has_sse41(),
           sodium_runtime_has_avx(), sodium_runtime_has_avx2(), sodium_runtime_has_avx512f(), sodium_runtime_has_pclmul(), sodium_runtime_has_aesni(), sodium_runtime_has_rdrand(), gcm);
    if (getenv("VERIF_GCM_ABSENT_BUILD") && gcm) vf_fail("aes256gcm_is_available/absent-build", "reports available in a build without the implementation");
    if (!getenv("VERIF_GCM_ABSENT_BUILD") && gcm != want_gcm) vf_fail("aes256gcm_is_available/flags-mismatch", "is_available=%d but pclmul&&aesni&&avx=%d", gcm, want_gcm);
    if (!gcm && getenv("VERIF_GCM_ABSENT_BUILD")) {      /* builds without the AES-NI implementation must fail cleanly; a masked run of a build that has it is simply never called */
        unsigned char c[64], tag[16]; ull l = 99; int r; crypto_aead_aes256gcm_state st;
        memset(c, 0xA5, sizeof c); errno = 0;
        r = crypto_aead_aes256gcm_encrypt(c, &l, M, 10, NULL, 0, NULL, N24, K);
        if (r != -1 || errno != ENOSYS) vf_fail("aes256gcm-unavailable/encrypt", "unavailable AES-256-GCM returned %d errno %d (want -1, ENOSYS)", r, errno);
        for (i = 0; i < 64; i++) if (c[i] != 0xA5) { vf_fail("aes256gcm-unavailable/encrypt-wrote", "unavailable AES-256-GCM wrote to the output"); break; }
        errno = 0; r = crypto_aead_aes256gcm_decrypt(c, &l, NULL, M, 32, NULL, 0, N24, K); if (r != -1 || errno != ENOSYS) vf_fail("aes256gcm-unavailable/decrypt", "returned %d errno %d", r, errno);
        errno = 0; r = crypto_aead_aes256gcm_beforenm(&st, K); if (r != -1 || errno != ENOSYS) vf_fail("aes256gcm-unavailable/beforenm", "returned %d errno %d", r, errno);
        errno = 0; r = crypto_aead_aes256gcm_encrypt_detached(c, tag, &l, M, 10, NULL, 0, NULL, N24, K); if (r != -1 || errno != ENOSYS) vf_fail("aes256gcm-unavailable/encrypt_detached", "returned %d errno %d", r, errno);
        errno = 0; r = crypto_aead_aes256gcm_decrypt_detached(c, NULL, M, 10, tag, NULL, 0, N24, K); if (r != -1 || errno != ENOSYS) vf_fail("aes256gcm-unavailable/decrypt_detached", "returned %d errno %d", r, errno);
    }
    vf_stat("evaluations", n_cases); vf_stat("nontrivial", n_cases);
    return 0;
}
