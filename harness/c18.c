/* C18: random generation under a scripted source. E-env: the harness owns every answer of the random source; bounded-uniform is
 * explored over all scripts of draws around the rejection threshold; every generating API is replayed and perturbed byte by byte. */
#include "common.h"
#include <sodium.h>
#include <sys/random.h>
#include <fcntl.h>
#include "ref_stream.h"

static unsigned long long n_eval, n_nontriv, n_scripts, n_perturb;

/* ---------------- scripted source ---------------- */
static uint32_t draw_script[16]; static int draw_n, draw_pos, draw_over;
static unsigned char byte_script[4096]; static size_t byte_n, byte_pos, byte_requested; static int byte_over;
static int calls_random, calls_buf, calls_stir, armed;
static unsigned long os_rng_calls;

static const char *s_name(void) { return "verif-script"; }
static uint32_t s_random(void)
{
    calls_random++;
    if (draw_pos >= draw_n) { draw_over = 1; return 0xffffffffu; }      /* beyond the script: an always-accepted value, flagged */
    return draw_script[draw_pos++];
}
static void s_stir(void) { calls_stir++; }
static void s_buf(void *const buf, const size_t size)
{
    size_t i; calls_buf++; byte_requested += size;
    for (i = 0; i < size; i++) { if (byte_pos < byte_n) ((unsigned char *) buf)[i] = byte_script[byte_pos++]; else { ((unsigned char *) buf)[i] = 0x01; byte_over = 1; }   /* beyond the script: a filler every rejection loop accepts, flagged */ }
}
static int calls_close;
static int s_close(void) { calls_close++; return 0; }
static struct randombytes_implementation s_impl = { s_name, s_random, s_stir, NULL, s_buf, s_close };

/* the OS generator must never be consulted while the custom source is installed (link-time --wrap) */
ssize_t __real_getrandom(void *, size_t, unsigned);
ssize_t __wrap_getrandom(void *b, size_t l, unsigned f) { os_rng_calls++; return __real_getrandom(b, l, f); }
int __real_getentropy(void *, size_t);
int __wrap_getentropy(void *b, size_t l) { os_rng_calls++; return __real_getentropy(b, l); }
uint32_t __real_arc4random(void);
uint32_t __wrap_arc4random(void) { os_rng_calls++; return __real_arc4random(); }
void __real_arc4random_buf(void *, size_t);
void __wrap_arc4random_buf(void *b, size_t l) { os_rng_calls++; __real_arc4random_buf(b, l); }

/* ---------------- randombytes_uniform: all scripts with <= MAXREJ rejected draws ---------------- */
static int MAXREJ;
static void uniform_bound(long idx);
static uint32_t UBS[200]; static int nub;
static void build_bounds(void)
{
    int k; uint32_t x;
    for (x = 0; x <= 17; x++) UBS[nub++] = x;
    for (k = 2; k <= 31; k++) { UBS[nub++] = 1u << k; UBS[nub++] = (1u << k) - 1; UBS[nub++] = (1u << k) + 1; }
    UBS[nub++] = 0xffffffffu; UBS[nub++] = 0xfffffffeu; UBS[nub++] = 0x80000000u; UBS[nub++] = 0x80000001u; UBS[nub++] = 0x7fffffffu;
    UBS[nub++] = 10; UBS[nub++] = 100; UBS[nub++] = 1000; UBS[nub++] = 1000000007u; UBS[nub++] = 0xAAAAAAAAu; UBS[nub++] = 0x55555555u; UBS[nub++] = 0xC0000000u;
    UBS[nub++] = 3000000000u; UBS[nub++] = 0xfffffffbu; UBS[nub++] = 365; UBS[nub++] = 52; UBS[nub++] = 6;
    { uint64_t s = vf_seed * 77 + 5; UBS[nub++] = (uint32_t) (vf_xs(&s) >> 16) | 2; UBS[nub++] = (uint32_t) (vf_xs(&s) >> 20) | 2; }
}
static void uniform_run(uint32_t ub, const uint32_t *draws, int nd, uint32_t min)
{
    uint32_t r, want; int i, first = -1; char key[160];
    for (i = 0; i < nd; i++) if (draws[i] >= min) { first = i; break; }
    memcpy(draw_script, draws, sizeof(uint32_t) * (size_t) nd); draw_n = nd; draw_pos = 0; draw_over = 0; calls_random = 0; calls_buf = 0;
    r = randombytes_uniform(ub);
    n_eval++; n_nontriv++; n_scripts++;
    if (nd == 3 && (ub == 10 || ub == 0xffffffffu)) VF_SAMPLE_CASE(4, "randombytes_uniform(%u) with scripted draws (%u, %u, %u), rejection threshold 2^32 mod n = %u -> returned %u after %d draws", ub, draws[0], draws[1], draws[2], min, r, draw_pos);
    want = draws[first] % ub;
    if (r != want || draw_pos != first + 1 || draw_over || r >= ub || calls_buf != 0) {
        snprintf(key, sizeof key, "randombytes_uniform/ub=%u/script=%u,%u,%u,%u/n=%d", ub, draws[0], nd > 1 ? draws[1] : 0, nd > 2 ? draws[2] : 0, nd > 3 ? draws[3] : 0, nd);
        vf_fail(key, "returned %u after %d draws (overdraw=%d, buf calls=%d); model: first draw >= %u is #%d -> %u", r, draw_pos, draw_over, calls_buf, min, first + 1, want);
    }
}
static void uniform_rec(uint32_t ub, uint32_t min, const uint32_t *alpha, int na, uint32_t *draws, int depth)
{
    int i;
    for (i = 0; i < na; i++) {
        draws[depth] = alpha[i];
        if (alpha[i] >= min) uniform_run(ub, draws, depth + 1, min);
        else if (depth < MAXREJ) uniform_rec(ub, min, alpha, na, draws, depth + 1);
    }
}
static void uniform_bound(long idx)
{
    uint32_t ub = UBS[idx], min, alpha[16], cand[16], draws[8]; int na = 0, nc = 0, i, j;
    if (ub < 2) {     /* 0 for n < 2 and no draw at all */
        uint32_t r; draw_n = 0; draw_pos = 0; draw_over = 0; calls_random = 0; calls_buf = 0;
        r = randombytes_uniform(ub); n_eval++; n_nontriv++;
        if (r != 0 || calls_random != 0 || calls_buf != 0) { char key[64]; snprintf(key, sizeof key, "randombytes_uniform/ub=%u", ub); vf_fail(key, "returned %u with %d draws", r, calls_random); }
        return;
    }
    min = (uint32_t) ((1ULL << 32) % ub);
    cand[nc++] = 0; cand[nc++] = 1; cand[nc++] = min - 2; cand[nc++] = min - 1; cand[nc++] = min; cand[nc++] = min + 1; cand[nc++] = ub - 1; cand[nc++] = ub; cand[nc++] = ub + 1;
    cand[nc++] = 0x80000000u; cand[nc++] = 0xffffffffu; cand[nc++] = 0xfffffffeu;
    for (i = 0; i < nc; i++) { int dup = 0; for (j = 0; j < na; j++) if (alpha[j] == cand[i]) dup = 1; if (!dup) alpha[na++] = cand[i]; }   /* wrapped min-1/min-2 are just two more values */
    uniform_rec(ub, min, alpha, na, draws, 0);
}

/* ---------------- deterministic generator ---------------- */
static void det_len(long L)
{
    static const unsigned char nonce[12] = { 'L', 'i', 'b', 's', 'o', 'd', 'i', 'u', 'm', 'D', 'R', 'G' };
    size_t len = (size_t) L; unsigned char seed[32], *a = malloc(len + 32), *b = malloc(len + 32); int p; char key[96];
    for (p = 0; p < PAT_N; p++) {
        vf_pat(seed, 32, p, 601); memset(a, 0xA5, len + 32);
        randombytes_buf_deterministic(a + 16, len, seed); ref_chacha20_ietf_xor(b, NULL, len, seed, nonce, 0); n_eval++; if (len) n_nontriv++;
        if (memcmp(a + 16, b, len) || a[15] != 0xA5 || a[16 + len] != 0xA5) { snprintf(key, sizeof key, "randombytes_buf_deterministic/len=%zu/seed=%s", len, vf_patname[p]); vf_fail(key, "differs from ChaCha20-IETF(seed, 'LibsodiumDRG', counter 0)"); }
    }
    /* the seed lying inside the output buffer (in-place ratchet: new seed || output = G(seed)) must give the same stream as a disjoint seed */
    if (len >= 32 && (len <= 200 || len % 64 <= 1)) {
        size_t off, offs[4] = { 0, 1, len / 2 > len - 32 ? len - 32 : len / 2, len - 32 }; int k;
        for (k = 0; k < 4; k++) { off = offs[k]; if (off + 32 > len) continue; vf_pat(seed, 32, PAT_R1, 602 + k); ref_chacha20_ietf_xor(b, NULL, len, seed, nonce, 0);
            memset(a, 0xA5, len + 32); memcpy(a + 16 + off, seed, 32); randombytes_buf_deterministic(a + 16, len, a + 16 + off); n_eval++; n_nontriv++;
            if (memcmp(a + 16, b, len) || a[15] != 0xA5 || a[16 + len] != 0xA5) { snprintf(key, sizeof key, "randombytes_buf_deterministic/seed-inside-output/len=%zu/offset=%zu", len, off); vf_fail(key, "differs from ChaCha20-IETF(seed, 'LibsodiumDRG', counter 0) of the seed passed in"); } }
    }
    free(a); free(b);
}
static void misuse_exit(void) { _exit(77); }
static void det_limit(void)
{
    static const unsigned long long SZ[] = { (1ULL << 38) + 1, (1ULL << 38) + 64, 1ULL << 39, 1ULL << 62 }; unsigned i;
    for (i = 0; i < 4; i++) { pid_t pid; int st; fflush(stdout); pid = fork();
        if (pid == 0) { vf_guard g; unsigned char seed[32] = { 1 }, *buf = vf_guard_alloc(&g, 4096, 0); sodium_set_misuse_handler(misuse_exit); randombytes_buf_deterministic(buf, (size_t) SZ[i], seed); _exit(0); }
        waitpid(pid, &st, 0); n_eval++; n_nontriv++;
        if (!(WIFEXITED(st) && WEXITSTATUS(st) == 77)) { char key[96]; snprintf(key, sizeof key, "randombytes_buf_deterministic/size=%llu", SZ[i]); vf_fail(key, "size above 2^38 not refused through the misuse handler (status %x)", st); } }
}

/* ---------------- generating APIs ---------------- */
typedef void (*keygen_fn)(unsigned char *);
#define KG(f, n) { #f, (keygen_fn) f, n }
static const struct { const char *name; keygen_fn fn; size_t len; } KEYGENS[] = {
    KG(crypto_aead_aegis128l_keygen, 16), KG(crypto_aead_aegis256_keygen, 32), KG(crypto_aead_aes256gcm_keygen, 32), KG(crypto_aead_chacha20poly1305_ietf_keygen, 32),
    KG(crypto_aead_chacha20poly1305_keygen, 32), KG(crypto_aead_xchacha20poly1305_ietf_keygen, 32), KG(crypto_auth_hmacsha256_keygen, 32), KG(crypto_auth_hmacsha512256_keygen, 32),
    KG(crypto_auth_hmacsha512_keygen, 32), KG(crypto_auth_keygen, 32), KG(crypto_generichash_blake2b_keygen, 32), KG(crypto_generichash_keygen, 32), KG(crypto_kdf_hkdf_sha256_keygen, 32),
    KG(crypto_kdf_hkdf_sha512_keygen, 64), KG(crypto_kdf_keygen, 32), KG(crypto_onetimeauth_keygen, 32), KG(crypto_onetimeauth_poly1305_keygen, 32), KG(crypto_secretbox_keygen, 32),
    KG(crypto_secretbox_xsalsa20poly1305_keygen, 32), KG(crypto_secretstream_xchacha20poly1305_keygen, 32), KG(crypto_shorthash_keygen, 16), KG(crypto_stream_chacha20_ietf_keygen, 32),
    KG(crypto_stream_chacha20_keygen, 32), KG(crypto_stream_keygen, 32), KG(crypto_stream_salsa2012_keygen, 32), KG(crypto_stream_salsa208_keygen, 32), KG(crypto_stream_salsa20_keygen, 32),
    KG(crypto_stream_xchacha20_keygen, 32), KG(crypto_stream_xsalsa20_keygen, 32) };
#define NKEYGEN ((int) (sizeof KEYGENS / sizeof KEYGENS[0]))

static const unsigned char L_LE[32] = { 0xed,0xd3,0xf5,0x5c,0x1a,0x63,0x12,0x58,0xd6,0x9c,0xf7,0xa2,0xde,0xf9,0xde,0x14,0,0,0,0,0,0,0,0,0,0,0,0,0,0,0,0x10 };
static int sc_lt_L(const unsigned char *s) { int i; for (i = 31; i >= 0; i--) { if (s[i] < L_LE[i]) return 1; if (s[i] > L_LE[i]) return 0; } return 0; }
static int is_zero32(const unsigned char *s) { int i; for (i = 0; i < 32; i++) if (s[i]) return 0; return 1; }

/* generic generator descriptor: run(out) produces `outlen` bytes of observable output from the scripted source */
typedef struct { const char *name; size_t secret; size_t outlen; int (*run)(unsigned char *out); int script_kind; } gen;
static int g_kg_idx;
static int r_keygen(unsigned char *o) { KEYGENS[g_kg_idx].fn(o); return 0; }
static int r_box_kp(unsigned char *o) { return crypto_box_keypair(o, o + 32); }
static int r_boxc_kp(unsigned char *o) { return crypto_box_curve25519xchacha20poly1305_keypair(o, o + 32); }
static int r_kx_kp(unsigned char *o) { return crypto_kx_keypair(o, o + 32); }
static int r_sign_kp(unsigned char *o) { return crypto_sign_keypair(o, o + 32); }
static int r_ss_init(unsigned char *o) { crypto_secretstream_xchacha20poly1305_state st; unsigned char k[32]; memset(k, 9, 32); crypto_secretstream_xchacha20poly1305_init_push(&st, o, k); memcpy(o + 24, &st, sizeof st); return 0; }
static int r_seal(unsigned char *o) { static const unsigned char m[5] = "hello"; unsigned char pk[32], sk[32], seed[32]; memset(seed, 3, 32); crypto_box_seed_keypair(pk, sk, seed); return crypto_box_seal(o, m, 5, pk); }
static int r_sealc(unsigned char *o) { static const unsigned char m[5] = "hello"; unsigned char pk[32], sk[32], seed[32]; memset(seed, 3, 32); crypto_box_curve25519xchacha20poly1305_seed_keypair(pk, sk, seed); return crypto_box_curve25519xchacha20poly1305_seal(o, m, 5, pk); }
static int r_pwstr(unsigned char *o) { memset(o, 0, 128); return crypto_pwhash_str((char *) o, "password", 8, crypto_pwhash_OPSLIMIT_MIN, crypto_pwhash_MEMLIMIT_MIN); }
static int r_pwstr_i(unsigned char *o) { memset(o, 0, 128); return crypto_pwhash_str_alg((char *) o, "password", 8, crypto_pwhash_argon2i_OPSLIMIT_MIN, crypto_pwhash_MEMLIMIT_MIN, crypto_pwhash_ALG_ARGON2I13); }
static int r_pwstr_id(unsigned char *o) { memset(o, 0, 128); return crypto_pwhash_argon2id_str((char *) o, "password", 8, crypto_pwhash_argon2id_OPSLIMIT_MIN, crypto_pwhash_argon2id_MEMLIMIT_MIN); }
static int r_pwstr_i2(unsigned char *o) { memset(o, 0, 128); return crypto_pwhash_argon2i_str((char *) o, "password", 8, crypto_pwhash_argon2i_OPSLIMIT_MIN, crypto_pwhash_argon2i_MEMLIMIT_MIN); }
static int r_scrypt_str(unsigned char *o) { memset(o, 0, 128); return crypto_pwhash_scryptsalsa208sha256_str((char *) o, "password", 8, crypto_pwhash_scryptsalsa208sha256_OPSLIMIT_MIN, crypto_pwhash_scryptsalsa208sha256_MEMLIMIT_MIN); }
static int r_ed_random(unsigned char *o) { crypto_core_ed25519_random(o); return 0; }
static int r_ris_random(unsigned char *o) { crypto_core_ristretto255_random(o); return 0; }
static int r_ed_sc(unsigned char *o) { crypto_core_ed25519_scalar_random(o); return 0; }
static int r_ris_sc(unsigned char *o) { crypto_core_ristretto255_scalar_random(o); return 0; }
static int r_rbuf(unsigned char *o) { randombytes_buf(o, 77); return 0; }
static int r_rbytes(unsigned char *o) { randombytes(o, 33); return 0; }

static void run_gen(const gen *G, unsigned char *out, const unsigned char *script, size_t slen)
{
    memcpy(byte_script, script, slen); byte_n = slen; byte_pos = 0; byte_requested = 0; byte_over = 0; calls_buf = calls_random = 0; os_rng_calls = 0;
    memset(out, 0, 256);
    if (G->run(out) != 0) vf_fail(G->name, "generator returned an error");
}
static void check_gen(const gen *G, int kgidx)
{
    unsigned char script[256], out1[256], out2[256], out3[256], exp[256]; size_t i, used; char key[160]; int pat;
    g_kg_idx = kgidx;
    for (pat = 0; pat < 3; pat++) {
        int p = pat == 0 ? PAT_C : pat == 1 ? PAT_R1 : PAT_R2;
        vf_pat(script, sizeof script, p, 611);
        if (G->script_kind == 1) {   /* scalar_random: candidates L (rejected), 0 (rejected), >= L with high bits (masked: check), then a valid one */
            memcpy(script, L_LE, 32); memset(script + 32, 0, 32); memset(script + 64, 0xff, 32); script[64 + 31] = 0xff; /* masked to 0x1f ff.. > L: rejected */
            memcpy(script + 96, L_LE, 32); script[96] -= 1; script[96 + 31] |= 0xe0;                                        /* L-1 with the three top bits set: masked -> valid */
            if (pat == 1) {   /* candidates that are zero only AFTER the top three bits are cleared (k * 2^253), L and L+1 with top bits, then 2^252 (valid) */
                memset(script, 0, 192); script[31] = 0x20; script[32 + 31] = 0xe0; script[64 + 31] = 0x80;
                memcpy(script + 96, L_LE, 32); script[96 + 31] |= 0xa0; memcpy(script + 128, L_LE, 32); script[128] += 1; script[128 + 31] |= 0x40;
                script[160 + 31] = 0x10; }
            if (pat == 2) {   /* 2^254 (masked to zero), 2^253 + 2^255, then 1 with all three top bits set (masked -> 1, valid) */
                memset(script, 0, 96); script[31] = 0x40; script[32 + 31] = 0xa0; script[64] = 1; script[64 + 31] = 0xe0; }
        }
        run_gen(G, out1, script, sizeof script); used = byte_pos;
        n_eval++; n_nontriv++;
        snprintf(key, sizeof key, "generator/%s/script=%d", G->name, pat);
        if (os_rng_calls) vf_fail(key, "the OS random generator was called %lu times although a custom source is installed", os_rng_calls);
        if (calls_random) vf_fail(key, "unexpected randombytes_random draw");
        if (byte_requested < G->secret) vf_fail(key, "requested only %zu random bytes for a %zu-byte secret", byte_requested, G->secret);
        /* expected function of exactly the served bytes */
        memset(exp, 0, sizeof exp);
        if (G->run == r_keygen || G->run == r_rbuf || G->run == r_rbytes) { if (memcmp(out1, script, G->outlen)) vf_fail(key, "output is not the served bytes"); }
        else if (G->run == r_box_kp || G->run == r_kx_kp || G->run == r_boxc_kp) { crypto_scalarmult_base(exp, script); if (memcmp(out1 + 32, script, 32) || memcmp(out1, exp, 32)) vf_fail(key, "key pair is not (scalarmult_base(served), served)"); }
        else if (G->run == r_sign_kp) { crypto_sign_seed_keypair(exp, exp + 32, script); if (memcmp(out1, exp, 96)) vf_fail(key, "key pair is not seed_keypair(served)"); }
        else if (G->run == r_ss_init) { if (memcmp(out1, script, 24)) vf_fail(key, "header is not the served bytes"); }
        else if (G->run == r_seal || G->run == r_sealc) { crypto_scalarmult_base(exp, script); if (memcmp(out1, exp, 32)) vf_fail(key, "ephemeral public key is not scalarmult_base(served)"); }
        else if (G->run == r_ed_random) { crypto_core_ed25519_from_uniform(exp, script); if (memcmp(out1, exp, 32) || !crypto_core_ed25519_is_valid_point(out1)) vf_fail(key, "random point is not from_uniform(served) / not valid"); }
        else if (G->run == r_ris_random) { crypto_core_ristretto255_from_hash(exp, script); if (memcmp(out1, exp, 32) || !crypto_core_ristretto255_is_valid_point(out1)) vf_fail(key, "random element is not from_hash(served) / not valid"); }
        else if (G->run == r_ed_sc || G->run == r_ris_sc) {
            size_t c; int found = 0;
            for (c = 0; c + 32 <= sizeof script; c += 32) { memcpy(exp, script + c, 32); exp[31] &= 0x1f; if (sc_lt_L(exp) && !is_zero32(exp)) { found = 1; break; } }
            if (!found || memcmp(out1, exp, 32) || used != c + 32) vf_fail(key, "random scalar is not the first served candidate (top 3 bits cleared) in [1, L): used %zu bytes, model %zu", used, c + 32);
            if (!sc_lt_L(out1) || is_zero32(out1)) vf_fail(key, "random scalar outside [1, L)");
        } else {   /* password hash strings: the salt is embedded verbatim */
            if (G->run == r_scrypt_str) { if (memcmp(out1, "$7$", 3)) vf_fail(key, "not a $7$ string"); }
            else { const char *s = (const char *) out1, *d1; unsigned char salt[32]; size_t sl = 0; int k, dollars = 0;
                for (d1 = s; *d1; d1++) if (*d1 == '$' && ++dollars == 4) break;
                if (!*d1) vf_fail(key, "malformed string %s", s);
                else { const char *e = strchr(d1 + 1, '$'); if (!e || sodium_base642bin(salt, 32, d1 + 1, (size_t) (e - d1 - 1), NULL, &sl, NULL, sodium_base64_VARIANT_ORIGINAL_NO_PADDING) != 0 || sl != 16 || memcmp(salt, script, 16)) vf_fail(key, "salt in %s is not the 16 served bytes", s); }
                (void) k; }
            if (crypto_pwhash_str_verify((const char *) out1, "password", 8) != 0 && G->run != r_scrypt_str) vf_fail(key, "generated string does not verify");
            if (G->run == r_scrypt_str && crypto_pwhash_scryptsalsa208sha256_str_verify((const char *) out1, "password", 8) != 0) vf_fail(key, "generated string does not verify");
        }
        /* replay reproduces the output bit for bit */
        run_gen(G, out2, script, sizeof script);
        if (memcmp(out1, out2, 256) || byte_pos != used) vf_fail(key, "replaying the same source bytes gave a different output");
        /* changing each served byte in turn changes the output */
        /* perturb bit 3 of every served byte in turn (bit 3 is not touched by X25519 clamping -- byte 0 bits 0-2, byte 31 bits 6-7 -- nor by
         * the scalar mask, byte 31 bits 5-7): at least `secret` served bytes must each influence the output. Bytes of rejected
         * candidates and defensive pre-fill of an output buffer (scrypt) legitimately do not. */
        { size_t influential = 0, first_ignored = (size_t) -1;
          for (i = 0; i < used; i++) {
              script[i] ^= 0x08; run_gen(G, out3, script, sizeof script); script[i] ^= 0x08; n_perturb++; n_eval++;
              if (memcmp(out1, out3, 256) != 0) influential++; else if (first_ignored == (size_t) -1) first_ignored = i;
          }
          if (influential < G->secret) { char k2[200]; snprintf(k2, sizeof k2, "%s/served-bytes-ignored", key);
              vf_fail(k2, "only %zu of the %zu served bytes influence the output but the secret has %zu bytes (first ignored byte: %zu): part of the secret does not come from the source", influential, used, G->secret, first_ignored); } }
    }
}

static gen GENS[64]; static int ngens;
static void add_gen(const char *n, size_t secret, size_t outlen, int (*run)(unsigned char *), int kind) { GENS[ngens].name = n; GENS[ngens].secret = secret; GENS[ngens].outlen = outlen; GENS[ngens].run = run; GENS[ngens].script_kind = kind; ngens++; }
static void do_gen(long i)
{
    if (i < NKEYGEN) { gen g = { KEYGENS[i].name, KEYGENS[i].len, KEYGENS[i].len, r_keygen, 0 }; check_gen(&g, (int) i); return; }
    check_gen(&GENS[i - NKEYGEN], 0);
}
/* closing the generator must not replace the installed source: later generation still comes from it */
static void close_check(void)
{
    unsigned char k[32], want[32]; int i;
    calls_close = 0; n_eval++; n_nontriv++;
    if (randombytes_close() != 0 || calls_close != 1) vf_fail("randombytes_close/custom", "installed source's close() called %d times", calls_close);
    for (i = 0; i < 32; i++) { byte_script[i] = (unsigned char) (0x40 + i); want[i] = (unsigned char) (0x40 + i); }
    byte_n = 32; byte_pos = 0; byte_requested = 0; os_rng_calls = 0; calls_buf = 0;
    crypto_secretbox_keygen(k);
    if (os_rng_calls || calls_buf != 1 || memcmp(k, want, 32) || strcmp(randombytes_implementation_name(), "verif-script"))
        vf_fail("randombytes_close/then-keygen", "after randombytes_close() a key was not taken from the installed source (source buf calls %d, OS generator calls %lu, name %s)", calls_buf, os_rng_calls, randombytes_implementation_name());
    draw_script[0] = 7; draw_n = 1; draw_pos = 0; draw_over = 0;
    if (randombytes_uniform(10) != 7 || draw_pos != 1) vf_fail("randombytes_close/then-uniform", "bounded draw after close did not come from the installed source");
}

/* a random source that supplies only the required members (random, buf): every optional member NULL (randombytes.h: stir, uniform, close are optional) */
static const char *min_name(void) { return "verif-minimal"; }
static uint32_t min_random(void) { return 0x01020304u; }
static void min_buf(void * const b, const size_t n) { memset(b, 0x5a, n); }
static struct randombytes_implementation min_impl = { min_name, min_random, NULL, NULL, min_buf, NULL };
static void minimal_source_check(void)
{
    pid_t pid; int st; fflush(stdout); pid = fork();
    if (pid == 0) {
        unsigned char k[32]; int bad = 0, i;
        if (randombytes_set_implementation(&min_impl) != 0) _exit(10);
        randombytes_stir();                                         /* no stir member: must be a no-op */
        if (randombytes_random() != 0x01020304u) bad |= 1;
        if (randombytes_uniform(1000) != 0x01020304u % 1000) bad |= 2;
        randombytes_buf(k, 32); for (i = 0; i < 32; i++) if (k[i] != 0x5a) bad |= 4;
        crypto_secretbox_keygen(k); for (i = 0; i < 32; i++) if (k[i] != 0x5a) bad |= 8;
        (void) randombytes_close();                                 /* no close member: must not crash (return value unspecified) */
        randombytes_stir(); randombytes_buf(k, 32); for (i = 0; i < 32; i++) if (k[i] != 0x5a) bad |= 16;
        if (strcmp(randombytes_implementation_name(), "verif-minimal")) bad |= 32;
        _exit(bad ? 64 + (bad & 63) : 0);
    }
    waitpid(pid, &st, 0); n_eval++; n_nontriv++;
    if (!(WIFEXITED(st) && WEXITSTATUS(st) == 0)) vf_fail("random-source/minimal-implementation", "a source with only the required members (stir, uniform, close NULL) was not served correctly (status %#x)", st);
    /* the same before sodium_init has ever run (set_implementation + sodium_init, as documented for custom sources) is exercised by the forked child of main() below */
}

/* randombytes_random / uniform draw exactly one 32-bit value each from the source */
static void draws_check(void)
{
    uint32_t r; draw_script[0] = 0xdeadbeef; draw_n = 1; draw_pos = 0; draw_over = 0; calls_buf = 0;
    r = randombytes_random(); n_eval++; n_nontriv++;
    if (r != 0xdeadbeef || draw_pos != 1) vf_fail("randombytes_random", "did not return the source's draw");
    if (strcmp(randombytes_implementation_name(), "verif-script")) vf_fail("randombytes_implementation_name", "custom source not reported");
}

static void fin(void)
{
    vf_stat("evaluations", n_eval); vf_stat("nontrivial", n_nontriv); vf_stat("uniform_scripts", n_scripts); vf_stat("perturbations", n_perturb);
    n_eval = n_nontriv = n_scripts = n_perturb = 0;
}

int main(void)
{
    vf_init_seed();
    MAXREJ = vf_tier_thorough() ? 6 : 4;
    alarm(1500);
    { pid_t pid; int st; fflush(stdout); pid = fork();      /* custom minimal source installed BEFORE sodium_init (the documented order): initialisation must cope with the NULL optional members */
      if (pid == 0) { unsigned char k[8]; struct randombytes_implementation *cur = NULL; (void) cur; if (randombytes_set_implementation(&min_impl) != 0) _exit(10); if (sodium_init() != 0) _exit(12); randombytes_stir(); randombytes_buf(k, 8); _exit(k[0] == 0x5a ? 0 : 11); }
      waitpid(pid, &st, 0); if (!(WIFEXITED(st) && WEXITSTATUS(st) == 0)) vf_fail("random-source/minimal-implementation-fresh", "status %#x", st); }
    randombytes_set_implementation(&s_impl);
    if (sodium_init() < 0) return 2;
    if (os_rng_calls) vf_fail("sodium_init/os-rng", "sodium_init consulted the OS generator %lu times although a custom source was installed first", os_rng_calls);
    build_bounds();
    add_gen("crypto_box_keypair", 32, 64, r_box_kp, 0); add_gen("crypto_box_curve25519xchacha20poly1305_keypair", 32, 64, r_boxc_kp, 0);
    add_gen("crypto_kx_keypair", 32, 64, r_kx_kp, 0); add_gen("crypto_sign_keypair", 32, 96, r_sign_kp, 0);
    add_gen("crypto_secretstream_init_push", 24, 24 + 52, r_ss_init, 0); add_gen("crypto_box_seal", 32, 53, r_seal, 0); add_gen("crypto_box_xchacha_seal", 32, 53, r_sealc, 0);
    add_gen("crypto_pwhash_str", 16, 128, r_pwstr, 0); add_gen("crypto_pwhash_str_alg(argon2i)", 16, 128, r_pwstr_i, 0); add_gen("crypto_pwhash_argon2id_str", 16, 128, r_pwstr_id, 0);
    add_gen("crypto_pwhash_argon2i_str", 16, 128, r_pwstr_i2, 0); add_gen("crypto_pwhash_scryptsalsa208sha256_str", 32, 102, r_scrypt_str, 0);
    add_gen("crypto_core_ed25519_random", 32, 32, r_ed_random, 0); add_gen("crypto_core_ristretto255_random", 64, 32, r_ris_random, 0);
    add_gen("crypto_core_ed25519_scalar_random", 32, 32, r_ed_sc, 1); add_gen("crypto_core_ristretto255_scalar_random", 32, 32, r_ris_sc, 1);
    add_gen("randombytes_buf", 77, 77, r_rbuf, 0); add_gen("randombytes", 33, 33, r_rbytes, 0);
    vf_parallel(16, 0, nub, uniform_bound, fin);
    vf_parallel(16, 0, vf_tier_thorough() ? 2305 : 1101, det_len, fin);
    vf_parallel(16, 0, NKEYGEN + ngens, do_gen, fin);
    draws_check(); det_limit(); close_check(); minimal_source_check(); fin();
    vf_sample("randombytes_uniform(10): scripts over {0,1,4,5,6,7,9,10,11,2^31,2^32-2,2^32-1} with <= 3 rejected draws; e.g. draws (5, 6) -> 5 rejected (< 2^32 mod 10 = 6), result 6 after 2 draws");
    vf_sample("randombytes_uniform(4294967295): draws (0, 1) -> min = 1: 0 rejected, 1 accepted -> 1");
    vf_sample("crypto_core_ed25519_scalar_random: served candidates L, 0, ff..ff, (L-1 | top bits) -> output L-1 after 128 bytes");
    vf_sample("crypto_sign_keypair: served 32 bytes = seed; each served byte flipped in turn must change (pk, sk)");
    return 0;
}
